/-
  Run-level timer theorems (C15): the close timeout, the ping timeout and the automatic Ping over a
  whole connection (`runAll`), for every configuration, application and environment.

  Technique: a state invariant `RunInv` (the existing `TimerInv` / `GInv` plus: what the trace says
  about the pending `close()`, "no timer is overdue" after every `_regular()`) is lifted through the
  receive pipeline and the session loop with the result-aware framework of `Proofs/LiftX.lean`:
  besides the invariant at normal exits it records, for every exceptional exit, *which* exception is
  in flight and what the state looks like (`RunExn`) — e.g. `_ForceDisconnect('close-timeout')` is
  only ever in flight with the close timer overdue.  `run()`'s `except` clauses then turn that into
  facts about the `Disconnected` event they yield.
-/
import Lomond.Proofs.LiftX
import Lomond.Proofs.PingGrid
import Lomond.Proofs.Closing
import Lomond.Proofs.Violation
import Lomond.Proofs.Monitor
set_option linter.unusedSimpArgs false
set_option linter.unusedVariables false
namespace Lomond.Core.TimerRun
open Lomond Lomond.Core Lomond.Core.Lift Lomond.Core.Pong Lomond.Core.Timers Lomond.Core.LiftX

/-! ## Part 0: `EnvBound` is the decidable well-formedness condition "every wait ≤ poll" -/

/-- one step of an environment script respects the `selector.wait(max_bytes, poll)` time-out -/
def stepWithin (D : Nat) : EnvStep → Bool
  | .wait dt _ => decide (dt ≤ D)
  | .selErr => true

/-- executable form of `EnvBound` -/
def envBoundB (D : Nat) (env : List EnvStep) : Bool := env.all (stepWithin D)

theorem envBound_iff (D : Nat) (env : List EnvStep) : EnvBound D env ↔ envBoundB D env = true := by
  unfold EnvBound envBoundB
  rw [List.all_eq_true]
  constructor
  · intro h st hst
    cases st with
    | wait dt rd => simpa [stepWithin] using h dt rd hst
    | selErr => rfl
  · intro h dt rd hm
    simpa [stepWithin] using h _ hm

instance (D : Nat) (env : List EnvStep) : Decidable (EnvBound D env) :=
  decidable_of_iff _ (envBound_iff D env).symm

theorem envBound_nil (D : Nat) : EnvBound D [] := by intro dt rd h; cases h

theorem envBound_cons (D : Nat) (st : EnvStep) (env : List EnvStep) :
    EnvBound D (st :: env) ↔ stepWithin D st = true ∧ EnvBound D env := by
  rw [envBound_iff, envBound_iff]; simp [envBoundB]

theorem envBound_append (D : Nat) (a b : List EnvStep) :
    EnvBound D (a ++ b) ↔ EnvBound D a ∧ EnvBound D b := by
  rw [envBound_iff, envBound_iff, envBound_iff]; simp [envBoundB]

/-- what the real selector does to a requested wait: it returns after at most `D` -/
def clampStep (D : Nat) : EnvStep → EnvStep
  | .wait dt rd => .wait (min dt D) rd
  | .selErr => .selErr

/-- every script can be normalised to a well-formed one; well-formed scripts are left alone -/
def clampEnv (D : Nat) (env : List EnvStep) : List EnvStep := env.map (clampStep D)

theorem envBound_clamp (D : Nat) (env : List EnvStep) : EnvBound D (clampEnv D env) := by
  intro dt rd h
  unfold clampEnv at h
  rw [List.mem_map] at h
  obtain ⟨st, _, e⟩ := h
  cases st with
  | wait dt' rd' => simp only [clampStep] at e; cases e; exact Nat.min_le_right _ _
  | selErr => cases e

theorem clamp_of_bound (D : Nat) (env : List EnvStep) (h : EnvBound D env) : clampEnv D env = env := by
  unfold clampEnv
  induction env with
  | nil => rfl
  | cons st rest ih =>
    rw [List.map_cons, ih (fun dt rd hm => h dt rd (List.mem_cons_of_mem _ hm))]
    cases st with
    | wait dt rd =>
      have := h dt rd List.mem_cons_self
      simp only [clampStep, Nat.min_eq_left this]
    | selErr => rfl

/-! ## Part 1: what the trace says about the pending `close()` -/

def isConnEv : Obs → Bool
  | .ev (.connected _) => true
  | _ => false

/-- a forced `Disconnected('close-timeout')` (either flag) -/
def isCtoEv : Obs → Bool
  | .ev (.disconnected k _) => k == "close-timeout"
  | _ => false

def isClosedEv : Obs → Bool
  | .ev (.closed _ _) => true
  | _ => false

/-- `Connected` was yielded (the socket exists) -/
def connSeen (tr : List Obs) : Bool := tr.any isConnEv

/-- a `Closed` event (the server's reply to our Close) was yielded -/
def closedSeen (tr : List Obs) : Bool := tr.any isClosedEv

/-- the client's Close frame was handed to `sendall` (written, or the write failed) at session time
    `ct`: `t` is the trace before that entry -/
def CloseWr (ct : Nat) (tr : List Obs) : Prop :=
  ∃ l o t, tr = l ++ o :: t ∧ o.isClose = true ∧ sessOf t = ct

/-- **evidence that `close()` armed the close timer at session time `ct`**: either the Close frame
    handed to `sendall` at that time, or — `close()` found no usable socket and wrote nothing — a
    point of the trace with that session time at which the socket had already been closed
    (`session.close()`) or did not exist yet (before `Connected`); `v` = the repaired argument check
    of `close()` (`Variant.closeArgs`; without it a payload of ≥ 2^63 bytes is not written either) -/
def Armed (v : Bool) (ct : Nat) (tr : List Obs) : Prop :=
  CloseWr ct tr ∨ ∃ l t, tr = l ++ t ∧ sessOf t = ct ∧ (Obs.sockClose ∈ t ∨ connSeen t = false ∨ v = false)

/-- **the close-timeout rule on a trace**: every `Disconnected('close-timeout')` is non-graceful,
    happens with the close timeout enabled, no `Closed` event before it, and at a session time `t`
    with `ct + c ≤ t` (and `t < ct + c + D` when `hi`) where `ct` is when `close()` armed the timer -/
def CtoOK (v : Bool) (c D : Nat) (hi : Bool) : List Obs → Prop
  | [] => True
  | o :: t =>
    (isCtoEv o = true → o = .ev (.disconnected "close-timeout" false) ∧ c ≠ 0 ∧ closedSeen t = false ∧
        ∃ ct, Armed v ct t ∧ ct + c ≤ sessOf t ∧ (hi = true → sessOf t < ct + c + D)) ∧ CtoOK v c D hi t

/-- **the loop never goes back to `selector.wait` with the close timer overdue**: at every clock
    mark `n` (clock `clockOf t` before it): the clock does not run backwards, advances by at most `D`
    (when `hi`), and — `R`: the upgrade request is not mistaken for a Close frame — the Close frame
    (if one was handed to `sendall` before, at `ct`) is younger than `c` -/
def TickC (R : Prop) (hi : Bool) (D c : Nat) : List Obs → Prop
  | [] => True
  | o :: t => (∀ n, o.tmTickVal = some n → clockOf t ≤ n ∧ (hi = true → n ≤ clockOf t + D) ∧
      (R → c ≠ 0 → ∀ ct, CloseWr ct t → sessOf t < ct + c)) ∧ TickC R hi D c t

/-- entries that do not matter for any of the above: no clock mark, no Ready, no Close frame, no
    Connected, no `Disconnected('close-timeout')` -/
def _root_.Lomond.Core.Obs.cN (o : Obs) : Bool :=
  o.tmTickVal.isNone && !o.tmIsReady && !o.isClose && !isConnEv o && !isCtoEv o

theorem cN_iff (o : Obs) : o.cN = true ↔ o.tmTickVal = none ∧ o.tmIsReady = false ∧ o.isClose = false ∧
    isConnEv o = false ∧ isCtoEv o = false := by
  unfold Obs.cN
  cases o.tmTickVal <;> cases o.tmIsReady <;> cases o.isClose <;> cases isConnEv o <;> cases isCtoEv o <;> simp

theorem sessOf_append_cN (l t : List Obs) (h : ∀ o ∈ l, Obs.cN o = true) : sessOf (l ++ t) = sessOf t := by
  induction l with
  | nil => rfl
  | cons o r ih =>
    obtain ⟨h1, h2, _⟩ := (cN_iff o).mp (h o List.mem_cons_self)
    rw [List.cons_append, sessOf_cons_of _ h1 h2]
    exact ih (fun o ho => h o (List.mem_cons_of_mem _ ho))

theorem closeWr_append (ct : Nat) (l t : List Obs) (h : CloseWr ct t) : CloseWr ct (l ++ t) := by
  obtain ⟨l1, o, t1, e, ho, hs⟩ := h
  exact ⟨l ++ l1, o, t1, by rw [e, List.append_assoc], ho, hs⟩

theorem closeWr_cons_iff (ct : Nat) (o : Obs) (t : List Obs) :
    CloseWr ct (o :: t) ↔ (o.isClose = true ∧ sessOf t = ct) ∨ CloseWr ct t := by
  constructor
  · intro ⟨l1, o1, t1, e, ho, hs⟩
    cases l1 with
    | nil => simp only [List.nil_append, List.cons.injEq] at e; obtain ⟨rfl, rfl⟩ := e; exact Or.inl ⟨ho, hs⟩
    | cons x l2 =>
      simp only [List.cons_append, List.cons.injEq] at e
      exact Or.inr ⟨l2, o1, t1, e.2, ho, hs⟩
  · intro h
    rcases h with ⟨ho, hs⟩ | h
    · exact ⟨[], o, t, rfl, ho, hs⟩
    · exact closeWr_append ct [o] t h

theorem closeWr_append_cN (ct : Nat) (l t : List Obs) (h : ∀ o ∈ l, Obs.cN o = true) :
    CloseWr ct (l ++ t) ↔ CloseWr ct t := by
  induction l with
  | nil => exact Iff.rfl
  | cons o r ih =>
    obtain ⟨_, _, h3, _⟩ := (cN_iff o).mp (h o List.mem_cons_self)
    rw [List.cons_append, closeWr_cons_iff, h3]
    simp only [Bool.false_eq_true, false_and, false_or]
    exact ih (fun o ho => h o (List.mem_cons_of_mem _ ho))

theorem armed_append (v : Bool) (ct : Nat) (l t : List Obs) (h : Armed v ct t) : Armed v ct (l ++ t) := by
  rcases h with h | ⟨l1, t1, e, hs, hv⟩
  · exact Or.inl (closeWr_append ct l t h)
  · exact Or.inr ⟨l ++ l1, t1, by rw [e, List.append_assoc], hs, hv⟩

theorem connSeen_append_cN (l t : List Obs) (h : ∀ o ∈ l, Obs.cN o = true) :
    connSeen (l ++ t) = connSeen t := by
  unfold connSeen
  rw [List.any_append]
  have : l.any isConnEv = false := by
    rw [List.any_eq_false]
    intro o ho
    have := ((cN_iff o).mp (h o ho)).2.2.2.1
    simp [this]
  rw [this, Bool.false_or]

theorem ctoOK_cons (v : Bool) (c D : Nat) (hi : Bool) (o : Obs) (t : List Obs) :
    CtoOK v c D hi (o :: t) ↔
      (isCtoEv o = true → o = .ev (.disconnected "close-timeout" false) ∧ c ≠ 0 ∧ closedSeen t = false ∧
        ∃ ct, Armed v ct t ∧ ct + c ≤ sessOf t ∧ (hi = true → sessOf t < ct + c + D)) ∧ CtoOK v c D hi t := Iff.rfl

theorem tickC_cons (R : Prop) (hi : Bool) (D c : Nat) (o : Obs) (t : List Obs) :
    TickC R hi D c (o :: t) ↔
      (∀ n, o.tmTickVal = some n → clockOf t ≤ n ∧ (hi = true → n ≤ clockOf t + D) ∧
        (R → c ≠ 0 → ∀ ct, CloseWr ct t → sessOf t < ct + c)) ∧ TickC R hi D c t := Iff.rfl

theorem tickC_cons_none (R : Prop) (hi : Bool) (D c : Nat) {o : Obs} (t : List Obs) (h : o.tmTickVal = none) :
    TickC R hi D c (o :: t) ↔ TickC R hi D c t := by
  rw [tickC_cons, h]
  exact ⟨fun x => x.2, fun x => ⟨fun n hn => (by cases hn), x⟩⟩

theorem ctoOK_append_cN (v : Bool) (c D : Nat) (hi : Bool) (l t : List Obs) (h : ∀ o ∈ l, Obs.cN o = true) :
    CtoOK v c D hi (l ++ t) ↔ CtoOK v c D hi t := by
  induction l with
  | nil => exact Iff.rfl
  | cons o r ih =>
    have h5 := ((cN_iff o).mp (h o List.mem_cons_self)).2.2.2.2
    rw [List.cons_append, ctoOK_cons, h5]
    simp only [Bool.false_eq_true, false_implies, true_and]
    exact ih (fun o ho => h o (List.mem_cons_of_mem _ ho))

theorem tickC_append_cN (R : Prop) (hi : Bool) (D c : Nat) (l t : List Obs) (h : ∀ o ∈ l, Obs.cN o = true) :
    TickC R hi D c (l ++ t) ↔ TickC R hi D c t := by
  induction l with
  | nil => exact Iff.rfl
  | cons o r ih =>
    have h1 := ((cN_iff o).mp (h o List.mem_cons_self)).1
    rw [List.cons_append, tickC_cons_none _ _ _ _ _ h1]
    exact ih (fun o ho => h o (List.mem_cons_of_mem _ ho))

theorem ctoOK_suffix (v : Bool) (c D : Nat) (hi : Bool) (l t : List Obs) (h : CtoOK v c D hi (l ++ t)) : CtoOK v c D hi t := by
  induction l with
  | nil => exact h
  | cons o r ih => exact ih h.2

theorem tickC_suffix (R : Prop) (hi : Bool) (D c : Nat) (l t : List Obs) (h : TickC R hi D c (l ++ t)) :
    TickC R hi D c t := by
  induction l with
  | nil => exact h
  | cons o r ih => exact ih h.2

/-! ## Part 2: the base invariant and steps that do not matter for the close timer -/

/-- the clock invariant: configuration and script unchanged, the session's clock and `_start_time`
    are what the trace says (newest clock mark / clock at the newest Ready), `_ready` ↔ the session
    clock runs -/
structure Base (cfg0 : Cfg) (env0 : List EnvStep) (s : Sys) : Prop where
  cfg : s.cfg = cfg0
  env : s.env = env0
  now : s.now = clockOf s.trace
  start : s.startTime = readyAt s.trace
  rdy : s.ready = true ↔ s.startTime ≠ none

theorem Base.sess {cfg0 : Cfg} {env0 : List EnvStep} {s : Sys} (h : Base cfg0 env0 s) :
    sessionTime s = sessOf s.trace := by
  unfold sessionTime sessOf; rw [h.start, h.now]
  cases readyAt s.trace <;> rfl

theorem Base.notReady {cfg0 : Cfg} {env0 : List EnvStep} {s : Sys} (h : Base cfg0 env0 s)
    (hr : s.ready = false) : readyAt s.trace = none ∧ sessOf s.trace = 0 := by
  have h1 : s.startTime = none := by
    cases hst : s.startTime with
    | none => rfl
    | some t0 =>
      have := h.rdy.mpr (by rw [hst]; exact fun hx => by cases hx)
      rw [hr] at this; cases this
  have h2 : readyAt s.trace = none := by rw [← h.start]; exact h1
  exact ⟨h2, by unfold sessOf; rw [h2]⟩

theorem Base.isReady {cfg0 : Cfg} {env0 : List EnvStep} {s : Sys} (h : Base cfg0 env0 s)
    (hr : readyAt s.trace ≠ none) : s.ready = true := h.rdy.mpr (by rw [h.start]; exact hr)

/-- a step that is quiet for the timer invariant keeps the clock invariant -/
theorem Base.quiet {cfg0 : Cfg} {env0 : List EnvStep} {s s' : Sys} (h : Base cfg0 env0 s)
    (q : QuietP s s') : Base cfg0 env0 s' := by
  obtain ⟨l, e, n⟩ := q.trace
  refine ⟨q.cfg.trans h.cfg, q.env.trans h.env, ?_, ?_, by rw [q.ready, q.startTime]; exact h.rdy⟩
  · rw [q.now, e, clockOf_append_neutral l _ n]; exact h.now
  · rw [q.startTime, e, readyAt_append_neutral l _ n]; exact h.start

/-- a step after which the close-timer facts of the trace read as before: `sent_close_time`
    untouched, the socket closed only with a `sockClose` mark, nothing but `cN` entries appended -/
structure CQ (s s' : Sys) : Prop where
  sct : s'.sentCloseTime = s.sentCloseTime
  sock : s'.sockOpen = s.sockOpen ∨ (s'.sockOpen = false ∧ Obs.sockClose ∈ s'.trace)
  trace : ∃ l, s'.trace = l ++ s.trace ∧ ∀ o ∈ l, Obs.cN o = true

theorem cq_po : PO CQ where
  refl s := ⟨rfl, Or.inl rfl, ⟨[], rfl, by simp⟩⟩
  trans := by
    intro a b c h1 h2
    obtain ⟨l1, e1, n1⟩ := h1.trace
    obtain ⟨l2, e2, n2⟩ := h2.trace
    refine ⟨h2.sct.trans h1.sct, ?_, ⟨l2 ++ l1, by rw [e2, e1, List.append_assoc], ?_⟩⟩
    · rcases h2.sock with h | h
      · rcases h1.sock with h' | ⟨h', hm⟩
        · exact Or.inl (h.trans h')
        · exact Or.inr ⟨h.trans h', by rw [e2]; exact List.mem_append_right _ hm⟩
      · exact Or.inr h
    · intro o ho
      rcases List.mem_append.mp ho with h | h
      · exact n2 o h
      · exact n1 o h

theorem CQ.same {s s' : Sys} (h1 : s'.sentCloseTime = s.sentCloseTime) (h2 : s'.sockOpen = s.sockOpen)
    (h3 : s'.trace = s.trace) : CQ s s' := ⟨h1, Or.inl h2, ⟨[], h3, by simp⟩⟩

theorem CQ.one {s s' : Sys} {o : Obs} (h1 : s'.sentCloseTime = s.sentCloseTime) (h2 : s'.sockOpen = s.sockOpen)
    (h3 : s'.trace = o :: s.trace) (ho : o.cN = true) : CQ s s' :=
  ⟨h1, Or.inl h2, ⟨[o], h3, by simpa using ho⟩⟩

theorem cq_closeSocket : Spec CQ closeSocket := by
  intro s; unfold closeSocket
  split
  · exact ⟨rfl, Or.inr ⟨rfl, List.mem_cons_self⟩, ⟨[.sockClose], rfl, by simp [Obs.cN, Obs.tmTickVal, Obs.tmIsReady, Obs.isClose, isConnEv, isCtoEv]⟩⟩
  · exact cq_po.refl s

theorem cq_selClose : Spec CQ selClose := by
  intro s; unfold selClose
  split
  · exact CQ.one rfl rfl rfl (by simp [Obs.cN, Obs.tmTickVal, Obs.tmIsReady, Obs.isClose, isConnEv, isCtoEv])
  · exact cq_po.refl s

theorem cN_wr (b : Bytes) (h : isCloseBytes b = false) : (Obs.wr b).cN = true := by
  simp [Obs.cN, Obs.tmTickVal, Obs.tmIsReady, Obs.isClose, isConnEv, isCtoEv, h]

theorem cN_wrFail (b : Bytes) (h : isCloseBytes b = false) : (Obs.wrFail b).cN = true := by
  simp [Obs.cN, Obs.tmTickVal, Obs.tmIsReady, Obs.isClose, isConnEv, isCtoEv, h]

theorem cN_wrz (op : Nat) (pl : Bytes) (h : op ≠ 8) : (Obs.wrz op pl).cN = true := by
  simp [Obs.cN, Obs.tmTickVal, Obs.tmIsReady, Obs.isClose, isConnEv, isCtoEv, h]

theorem cN_res (r : ActRes) : (Obs.res r).cN = true := by
  simp [Obs.cN, Obs.tmTickVal, Obs.tmIsReady, Obs.isClose, isConnEv, isCtoEv]

/-- writing anything that is not a Close frame -/
theorem cq_write (d : Bytes) (z : Option (Nat × Bytes)) (h : closeLike d z = false) : Spec CQ (write d z) := by
  intro s
  unfold closeLike at h
  simp only [Bool.or_eq_false_iff] at h
  unfold write
  rcases z with _ | ⟨op, plain⟩
  all_goals simp only []
  all_goals splits
  all_goals simp only [Res.state_ok]
  all_goals first
    | exact cq_po.refl _
    | exact CQ.same rfl rfl rfl
    | exact CQ.one rfl rfl rfl (cN_wr _ h.1)
    | exact CQ.one rfl rfl rfl (cN_wrFail _ h.1)
    | exact CQ.one rfl rfl rfl (cN_wrz _ _ (by simpa using h.2))

theorem cq_sendFrame (op : Nat) (pl : Bytes) (c : Option Bytes) (hop : op < 16 ∧ op ≠ 8) :
    Spec CQ (sendFrame op pl c) := by
  intro s; unfold sendFrame; simp only []
  split
  · split
    · rename_i bs hb
      refine cq_po.trans (CQ.same rfl rfl rfl : CQ s { s with keyCtr := s.keyCtr + 1 }) (cq_write bs none ?_ _)
      simp only [closeLike, Bool.or_false]
      rw [isCloseBytes_build _ _ _ _ hop.1 hb]; simp [hop.2]
    · exact CQ.same rfl rfl rfl
  · rename_i plain
    refine cq_po.trans (CQ.same rfl rfl rfl : CQ s { s with keyCtr := s.keyCtr + 1 }) (cq_write [] _ ?_ _)
    simp [closeLike, isCloseBytes, hop.2]

theorem cq_sendData (op : Nat) (pl : Bytes) (c : Bool) (hop : op < 16 ∧ op ≠ 8) : Spec CQ (sendData op pl c) := by
  intro s; unfold sendData; split <;> exact cq_sendFrame _ _ _ hop s

theorem cq_modS {f : Sys → Sys} (h : ∀ s, (f s).sentCloseTime = s.sentCloseTime ∧ (f s).sockOpen = s.sockOpen ∧
    (f s).trace = s.trace) : Spec CQ (modS f) := fun s => CQ.same (h s).1 (h s).2.1 (h s).2.2

theorem cq_onDisconnect : Spec CQ onDisconnect := by
  unfold onDisconnect
  exact spec_bind cq_po cq_closeSocket (fun _ => cq_modS (fun s => ⟨rfl, rfl, rfl⟩))

theorem cq_onEvent (e : Event) : Spec CQ (onEvent e) := by
  intro s
  cases e with
  | ping d =>
    simp only [onEvent]
    splits
    all_goals first
      | exact cq_po.refl s
      | (rename_i h; exact (cq_sendFrame _ _ _ (by decide)).ok h)
      | (rename_i h; exact (cq_sendFrame _ _ _ (by decide)).err h)
  | _ => simp only [onEvent]; exact CQ.same rfl rfl rfl

theorem cq_pushEv (e : Event) (s : Sys) (h : (Obs.ev e).cN = true) : CQ s (pushEv e s) :=
  CQ.one rfl rfl rfl h

/-! ## Part 3: the close-timer invariant -/

/-- the upgrade request is not mistaken for a Close frame (true of every request `build_request`
    makes: it starts with `GET`; `C08.built_request_is_not_a_close`) -/
def ReqOk0 (cfg0 : Cfg) : Prop := isCloseBytes cfg0.request = false

/-- the close-timer facts that hold in **every** state of a connection -/
structure CW (hi : Bool) (cfg0 : Cfg) (s : Sys) : Prop where
  /-- `sent_close_time` is what the trace says -/
  arm : ∀ ct, s.sentCloseTime = some ct → Armed cfg0.v.closeArgs ct s.trace
  sk : s.sockOpen = false → Obs.sockClose ∈ s.trace ∨ connSeen s.trace = false
  cinv : ReqOk0 cfg0 → Inv s
  /-- … and conversely a Close frame on the trace has armed the timer -/
  cw : ReqOk0 cfg0 → ∀ ct, CloseWr ct s.trace → s.sentCloseTime = some ct
  cto : CtoOK cfg0.v.closeArgs cfg0.closeTimeout cfg0.poll hi s.trace
  tok : TickC (ReqOk0 cfg0) hi cfg0.poll cfg0.closeTimeout s.trace

/-- **the close timer is not overdue** by more than the slack `sl` (`sl = 0` after every
    `_regular()` that returned; `sl = dt` right after a `selector.wait` of `dt` ticks) -/
def Ndue (cfg0 : Cfg) (sl : Nat) (s : Sys) : Prop :=
  cfg0.closeTimeout ≠ 0 → ∀ ct, s.sentCloseTime = some ct → sessOf s.trace < ct + cfg0.closeTimeout + sl

theorem CW.of_cq {hi : Bool} {cfg0 : Cfg} {s s' : Sys} (q : CQ s s') (hc : Inv s → Inv s') (h : CW hi cfg0 s) :
    CW hi cfg0 s' := by
  obtain ⟨l, e, n⟩ := q.trace
  refine ⟨?_, ?_, fun hr => hc (h.cinv hr), ?_, ?_, ?_⟩
  · intro ct hct
    rw [q.sct] at hct
    rw [e]; exact armed_append _ ct l _ (h.arm ct hct)
  · intro hso
    rcases q.sock with hs | ⟨_, hm⟩
    · rcases h.sk (hs ▸ hso) with h1 | h1
      · exact Or.inl (by rw [e]; exact List.mem_append_right _ h1)
      · exact Or.inr (by rw [e, connSeen_append_cN l _ n]; exact h1)
    · exact Or.inl hm
  · intro hr ct hcw
    rw [e, closeWr_append_cN ct l _ n] at hcw
    rw [q.sct]; exact h.cw hr ct hcw
  · rw [e, ctoOK_append_cN _ _ _ _ l _ n]; exact h.cto
  · rw [e, tickC_append_cN _ _ _ _ l _ n]; exact h.tok

theorem Ndue.of_cq {cfg0 : Cfg} {sl : Nat} {s s' : Sys} (q : CQ s s') (h : Ndue cfg0 sl s) : Ndue cfg0 sl s' := by
  obtain ⟨l, e, n⟩ := q.trace
  intro hc ct hct
  rw [q.sct] at hct
  rw [e, sessOf_append_cN l _ n]; exact h hc ct hct

/-- what `session.write` does with a Close frame while the websocket is neither closing nor closed -/
theorem write_close_eff (bytes : Bytes) (s : Sys) (hb : isCloseBytes bytes = true)
    (hc : s.closed = false) (hg : s.closing = false) :
    (write bytes none s).state.sentCloseTime = s.sentCloseTime ∧
    (write bytes none s).state.sockOpen = s.sockOpen ∧
    (sessionTime (write bytes none s).state = sessionTime s ∧ (write bytes none s).state.closed = s.closed) ∧
    ((s.sockOpen = false ∧ (write bytes none s).state.trace = s.trace) ∨
     (s.sockOpen = true ∧ ∃ o, (write bytes none s).state.trace = o :: s.trace ∧ o.isClose = true ∧
        o.tmTickVal = none ∧ o.tmIsReady = false ∧ isConnEv o = false ∧ isCtoEv o = false)) := by
  generalize hr : write bytes none s = r
  unfold write at hr
  simp only [hc, hg, Bool.false_eq_true, if_false] at hr
  by_cases hso : s.sockOpen = true
  · simp only [hso, not_true_eq_false, if_false] at hr
    split at hr
    · subst hr
      exact ⟨rfl, hso.symm, ⟨rfl, hc.symm⟩, Or.inr ⟨hso, _, rfl, by simpa [Obs.isClose] using hb, rfl, rfl, rfl, rfl⟩⟩
    · subst hr
      exact ⟨rfl, hso.symm, ⟨rfl, hc.symm⟩, Or.inr ⟨hso, _, rfl, by simpa [Obs.isClose] using hb, rfl, rfl, rfl, rfl⟩⟩
  · have hso' : s.sockOpen = false := by simpa using hso
    simp only [hso', Bool.false_eq_true, not_false_eq_true, if_true] at hr
    subst hr
    exact ⟨rfl, (by first | rfl | exact hso'.symm), ⟨rfl, (by first | rfl | exact hc.symm)⟩, Or.inl ⟨hso', rfl⟩⟩


theorem build_none_len {op : Nat} {pl key : Bytes} (h : Frame.build op pl key = none) : pl.length ≥ 126 := by
  unfold Frame.build buildHeader at h
  split at h
  · simp at h
  · omega

/-- `close()` armed the close timer: from `s` (neither closing nor closed) to `s2`; nothing is written
    only when there is no socket or (pre-repair variant) the payload is longer than `close()` should
    have accepted -/
structure ArmStep (s s2 : Sys) : Prop where
  hc : s.closed = false
  hg : s.closing = false
  sct : s2.sentCloseTime = some (sessionTime s)
  sock : s2.sockOpen = s.sockOpen
  flags : s2.closing = true ∧ s2.closed = s.closed
  tr : (s2.trace = s.trace ∧ (s.sockOpen = false ∨ s.cfg.v.closeArgs = false)) ∨
       (∃ o, s2.trace = o :: s.trace ∧ o.isClose = true ∧ o.tmTickVal = none ∧ o.tmIsReady = false ∧
          isConnEv o = false ∧ isCtoEv o = false)

/-- the Close frame goes through `session.send` -/
theorem sendClose_eff (pl : Bytes) (s : Sys) (hc : s.closed = false) (hg : s.closing = false) :
    ∃ a s1, sendFrame Gen.opClose pl none s = .ok a s1 ∧ s1.sentCloseTime = s.sentCloseTime ∧
      s1.sockOpen = s.sockOpen ∧ (sessionTime s1 = sessionTime s ∧ s1.closed = s.closed) ∧
      ((s1.trace = s.trace ∧ (s.sockOpen = false ∨ pl.length ≥ 126)) ∨
       (∃ o, s1.trace = o :: s.trace ∧ o.isClose = true ∧ o.tmTickVal = none ∧ o.tmIsReady = false ∧
          isConnEv o = false ∧ isCtoEv o = false)) := by
  unfold sendFrame
  simp only []
  cases hb : Frame.build Gen.opClose pl (s.cfg.maskKey s.keyCtr) with
  | none =>
    exact ⟨_, _, rfl, rfl, rfl, ⟨rfl, rfl⟩, Or.inl ⟨rfl, Or.inr (build_none_len hb)⟩⟩
  | some bytes =>
    simp only []
    have hcb : isCloseBytes bytes = true := by
      rw [isCloseBytes_build _ _ _ _ (by decide) hb]; rfl
    obtain ⟨r, hw⟩ := write_is_ok bytes none { s with keyCtr := s.keyCtr + 1 }
    obtain ⟨h1, h2, h3, h4⟩ := write_close_eff bytes { s with keyCtr := s.keyCtr + 1 } hcb hc hg
    refine ⟨r, _, hw, h1, h2, h3, ?_⟩
    rcases h4 with ⟨h5, h6⟩ | ⟨_, o, h6, h7⟩
    · exact Or.inl ⟨h6, Or.inl h5⟩
    · exact Or.inr ⟨o, h6, h7⟩

theorem wsClose_cases (code : Option Nat) (reason : Arg) (s : Sys) :
    (wsClose code reason s).state = s ∨ ArmStep s (wsClose code reason s).state := by
  generalize hr : wsClose code reason s = r
  unfold wsClose at hr
  by_cases hc : s.closed = true
  · left; simp only [hc, if_true] at hr; subst hr; rfl
  · by_cases hg : s.closing = true
    · left; simp only [hc, hg, if_true, if_false] at hr; subst hr; rfl
    · have hc' : s.closed = false := by simpa using hc
      have hg' : s.closing = false := by simpa using hg
      simp only [hc', hg', Bool.false_eq_true, if_false] at hr
      repeat' split at hr
      all_goals first
        | (subst hr; left; rfl)
        | (rename_i heq; exact absurd heq (sendFrame_not_err _ _ _ _ _ _))
        | (rename_i a s' heq
           obtain ⟨a', s1, he, h1, h2, h3, h4⟩ := sendClose_eff _ s hc' hg'
           rw [he] at heq; cases heq
           subst hr
           right
           refine ⟨hc', hg', congrArg some h3.1, h2, ⟨rfl, h3.2⟩, ?_⟩
           rcases h4 with ⟨h5, h6⟩ | h5
           · refine Or.inl ⟨h5, ?_⟩
             rcases h6 with h6 | h6
             · exact Or.inl h6
             · right
               cases hv : s.cfg.v.closeArgs with
               | false => rfl
               | true => exfalso; simp_all <;> omega
           · exact Or.inr h5)


theorem closeWr_hasClose {ct : Nat} {tr : List Obs} (h : CloseWr ct tr) : hasClose tr = true := by
  obtain ⟨l, o, t, e, ho, _⟩ := h
  simp only [hasClose, List.any_eq_true]
  exact ⟨o, by rw [e]; simp, ho⟩

/-- while the websocket is neither closing nor closed no Close frame is on the trace -/
theorem CW.no_closeWr {hi : Bool} {cfg0 : Cfg} {s : Sys} (h : CW hi cfg0 s) (hr : ReqOk0 cfg0)
    (hc : s.closed = false) (hg : s.closing = false) (ct : Nat) : ¬ CloseWr ct s.trace := by
  intro hw
  have := (h.cinv hr).noClose hg hc
  rw [closeWr_hasClose hw] at this
  cases this

/-- `close()` arming the timer keeps the invariant, and the timer is not overdue right away -/
theorem CW.arm_step {hi : Bool} {cfg0 : Cfg} {env0 : List EnvStep} {s s2 : Sys} (hb : Base cfg0 env0 s)
    (h : CW hi cfg0 s) (a : ArmStep s s2) (hc : Inv s → Inv s2) (sl : Nat) :
    CW hi cfg0 s2 ∧ Ndue cfg0 sl s2 := by
  have hst : sessionTime s = sessOf s.trace := hb.sess
  rcases a.tr with ⟨e, hno⟩ | ⟨o, e, ho, h1, h2, h3, h4⟩
  · refine ⟨⟨?_, ?_, fun hr => hc (h.cinv hr), ?_, by rw [e]; exact h.cto, by rw [e]; exact h.tok⟩, ?_⟩
    · intro ct hct
      rw [a.sct, hst] at hct
      simp only [Option.some.injEq] at hct
      refine Or.inr ⟨[], s.trace, by rw [e]; rfl, hct, ?_⟩
      rcases hno with hso | hv
      · rcases h.sk hso with h5 | h5
        · exact Or.inl h5
        · exact Or.inr (Or.inl h5)
      · exact Or.inr (Or.inr (by rw [← hb.cfg]; exact hv))
    · intro hso
      rw [a.sock] at hso
      rw [e]; exact h.sk hso
    · intro hr ct hw
      rw [e] at hw
      exact absurd hw (h.no_closeWr hr a.hc a.hg ct)
    · intro hc0 ct hct
      rw [a.sct, hst] at hct
      simp only [Option.some.injEq] at hct
      rw [e, ← hct]
      have := Nat.pos_of_ne_zero hc0
      omega
  · have hsess : sessOf (o :: s.trace) = sessOf s.trace := sessOf_cons_of _ h1 h2
    refine ⟨⟨?_, ?_, fun hr => hc (h.cinv hr), ?_, ?_, ?_⟩, ?_⟩
    · intro ct hct
      rw [a.sct, hst] at hct
      simp only [Option.some.injEq] at hct
      exact Or.inl ⟨[], o, s.trace, by rw [e]; rfl, ho, hct⟩
    · intro hso
      rw [a.sock] at hso
      rcases h.sk hso with h5 | h5
      · exact Or.inl (by rw [e]; exact List.mem_cons_of_mem _ h5)
      · refine Or.inr ?_
        rw [e]
        simp only [connSeen, List.any_cons, h3, Bool.false_or]
        exact h5
    · intro hr ct hw
      rw [e, closeWr_cons_iff] at hw
      rcases hw with ⟨_, hs⟩ | hw
      · rw [a.sct, hst, hs]
      · exact absurd hw (h.no_closeWr hr a.hc a.hg ct)
    · rw [e, ctoOK_cons, h4]
      exact ⟨fun hx => (by cases hx), h.cto⟩
    · rw [e, tickC_cons_none _ _ _ _ _ h1]
      exact h.tok
    · intro hc0 ct hct
      rw [a.sct, hst] at hct
      simp only [Option.some.injEq] at hct
      rw [e, hsess, ← hct]
      have := Nat.pos_of_ne_zero hc0
      omega


/-! ## Part 4: the close-timer invariant through every step that does not advance the clock -/

/-- clock invariant + close-timer facts + "not overdue by more than `sl`" -/
structure CI (hi : Bool) (cfg0 : Cfg) (env0 : List EnvStep) (sl : Nat) (s : Sys) : Prop where
  b : Base cfg0 env0 s
  w : CW hi cfg0 s
  n : Ndue cfg0 sl s

def RC (hi : Bool) (cfg0 : Cfg) (env0 : List EnvStep) (sl : Nat) (s s' : Sys) : Prop :=
  CI hi cfg0 env0 sl s → CI hi cfg0 env0 sl s'

section RCsec
variable {hi : Bool} {cfg0 : Cfg} {env0 : List EnvStep} {sl : Nat}

theorem rc_po : PO (RC hi cfg0 env0 sl) where
  refl _ := id
  trans h1 h2 := fun h => h2 (h1 h)

theorem CI.quiet {s s' : Sys} (h : CI hi cfg0 env0 sl s) (q : QuietP s s') (c : CQ s s') (k : Cl s s') :
    CI hi cfg0 env0 sl s' :=
  ⟨h.b.quiet q, h.w.of_cq c k.inv, h.n.of_cq c⟩

theorem rc_of_quiet {m : M α} (hq : Spec QuietP m) (hc : Spec CQ m) (hk : Spec Cl m) :
    Spec (RC hi cfg0 env0 sl) m := fun s h => h.quiet (hq s) (hc s) (hk s)

/-- a state update that touches nothing the invariant looks at -/
theorem CI.same {s s' : Sys} (h : CI hi cfg0 env0 sl s) (e1 : s'.cfg = s.cfg) (e2 : s'.env = s.env)
    (e3 : s'.now = s.now) (e4 : s'.startTime = s.startTime) (e5 : s'.ready = s.ready)
    (e6 : s'.sentCloseTime = s.sentCloseTime) (e7 : s'.sockOpen = s.sockOpen) (e8 : s'.closing = s.closing)
    (e9 : s'.closed = s.closed) (e10 : s'.trace = s.trace) : CI hi cfg0 env0 sl s' := by
  have hinv : Inv s → Inv s' := by
    intro ⟨h1, h2⟩
    unfold Inv
    rw [e10, e8, e9]; exact ⟨h1, h2⟩
  refine ⟨⟨e1.trans h.b.cfg, e2.trans h.b.env, by rw [e3, e10]; exact h.b.now, by rw [e4, e10]; exact h.b.start,
    by rw [e5, e4]; exact h.b.rdy⟩, h.w.of_cq (CQ.same e6 e7 e10) hinv, h.n.of_cq (CQ.same e6 e7 e10)⟩

theorem rc_wsClose (c : Option Nat) (r : Arg) : Spec (RC hi cfg0 env0 sl) (wsClose c r) := by
  intro s h
  rcases wsClose_cases c r s with e | a
  · rw [e]; exact h
  · obtain ⟨hw, hn⟩ := h.w.arm_step h.b a (cl_wsClose c r s).inv sl
    exact ⟨h.b.quiet (quietP_wsClose c r s), hw, hn⟩

theorem cN_of_neutral_ev {e : Event} (h : (Obs.ev e).tmNeutral = true) (h1 : isConnEv (.ev e) = false)
    (h2 : isCtoEv (.ev e) = false) : (Obs.ev e).cN = true := by
  obtain ⟨a, b, _⟩ := (neutral_iff _).mp h
  exact (cN_iff _).mpr ⟨a, b, rfl, h1, h2⟩

theorem cl_pushEv (e : Event) (s : Sys) : Cl s (pushEv e s) := Cl.of_ext [.ev e] rfl rfl id

/-- handing an event to the application: any event but Ready, Connected, `Disconnected('close-timeout')` -/
theorem rc_pushEv (e : Event) (h : (Obs.ev e).cN = true) (s : Sys) : RC hi cfg0 env0 sl s (pushEv e s) := by
  intro hs
  obtain ⟨h1, h2, _⟩ := (cN_iff _).mp h
  refine ⟨⟨hs.b.cfg, hs.b.env, ?_, ?_, hs.b.rdy⟩, hs.w.of_cq (cq_pushEv e s h) (cl_pushEv e s).inv,
    hs.n.of_cq (cq_pushEv e s h)⟩
  · show s.now = clockOf (.ev e :: s.trace)
    rw [clockOf_cons_of _ h1]; exact hs.b.now
  · show s.startTime = readyAt (.ev e :: s.trace)
    rw [readyAt_cons_of _ h2]; exact hs.b.start

theorem quietP_log (o : Obs) (h : o.tmNeutral = true) : Spec QuietP (log o) := by
  intro s; unfold log modS
  exact ⟨rfl, rfl, rfl, rfl, rfl, rfl, rfl, ⟨[o], rfl, by simpa using h⟩⟩

theorem cq_log (o : Obs) (h : o.cN = true) : Spec CQ (log o) := by
  intro s; unfold log modS; exact CQ.one rfl rfl rfl h

theorem rc_logRes {m : M ActRes} (h : Spec (RC hi cfg0 env0 sl) m) : Spec (RC hi cfg0 env0 sl) (logRes m) := by
  unfold logRes
  exact spec_bind rc_po h (fun r => rc_of_quiet (quietP_log_res r) (cq_log _ (cN_res r)) (cl_log _ rfl))

theorem rc_sendFrame (op : Nat) (pl : Bytes) (c : Option Bytes) (hop : op < 16 ∧ op ≠ 8) :
    Spec (RC hi cfg0 env0 sl) (sendFrame op pl c) :=
  rc_of_quiet (quietP_sendFrame _ _ _) (cq_sendFrame _ _ _ hop) (cl_sendFrame _ _ _ hop)

theorem rc_sendData (op : Nat) (pl : Bytes) (c : Bool) (hop : op < 16 ∧ op ≠ 8) :
    Spec (RC hi cfg0 env0 sl) (sendData op pl c) :=
  rc_of_quiet (quietP_sendData _ _ _) (cq_sendData _ _ _ hop) (cl_sendData _ _ _ hop)

theorem rc_doAct (a : Act) : Spec (RC hi cfg0 env0 sl) (doAct a) := by
  unfold doAct
  split
  all_goals first
    | (apply rc_logRes
       first
        | exact spec_pure rc_po _
        | exact rc_sendData _ _ _ (by decide)
        | exact rc_wsClose _ _
        | exact spec_bind rc_po (rc_of_quiet quietP_closeSocket cq_closeSocket cl_closeSocket)
            (fun _ => spec_pure rc_po _)
        | exact spec_ite _ (spec_pure rc_po _) (rc_sendData _ _ _ (by decide))
        | exact spec_ite _ (spec_pure rc_po _) (rc_sendFrame _ _ _ (by decide)))
    | (intro s h; exact h.same rfl rfl rfl rfl rfl rfl rfl rfl rfl rfl)

theorem rc_doActs (as : List Act) : Spec (RC hi cfg0 env0 sl) (doActs as) := by
  induction as with
  | nil => exact spec_pure rc_po ()
  | cons a r ih => unfold doActs; exact spec_bind rc_po (rc_doAct a) (fun _ => ih)

theorem rc_yieldEv (e : Event) (h : (Obs.ev e).cN = true) : Spec (RC hi cfg0 env0 sl) (yieldEv e) := by
  intro s hs
  rw [yieldEv_eq]
  exact rc_doActs _ _ (rc_pushEv e h s hs)

theorem rc_checkPoll : Spec (RC hi cfg0 env0 sl) checkPoll := by
  unfold checkPoll
  refine spec_getS_bind rc_po (fun s => ?_)
  simp only []
  splits
  all_goals first
    | exact spec_pure rc_po _
    | exact spec_bind rc_po (spec_modS (fun s h => h.same rfl rfl rfl rfl rfl rfl rfl rfl rfl rfl))
        (fun _ => rc_yieldEv _ rfl)

theorem rc_checkAutoPing : Spec (RC hi cfg0 env0 sl) checkAutoPing :=
  rc_of_quiet quietP_checkAutoPing (by
    unfold checkAutoPing
    refine spec_getS_bind cq_po (fun s => ?_)
    simp only []
    split
    · exact spec_bind cq_po (cq_modS (fun s => ⟨rfl, rfl, rfl⟩)) (fun _ =>
        spec_bind cq_po (cq_sendFrame _ _ _ (by decide)) (fun _ => spec_pure cq_po _))
    · exact spec_pure cq_po _) cl_checkAutoPing

theorem rc_checkPingTimeout : Spec (RC hi cfg0 env0 sl) checkPingTimeout := by
  unfold checkPingTimeout
  refine spec_getS_bind rc_po (fun s => ?_)
  simp only []
  split
  · exact spec_bind rc_po (rc_yieldEv _ rfl) (fun _ => spec_throwE rc_po _)
  · exact spec_pure rc_po _

theorem rc_onDisconnect : Spec (RC hi cfg0 env0 sl) onDisconnect :=
  rc_of_quiet quietP_onDisconnect cq_onDisconnect cl_onDisconnect

theorem rc_closeSocket : Spec (RC hi cfg0 env0 sl) closeSocket :=
  rc_of_quiet quietP_closeSocket cq_closeSocket cl_closeSocket

end RCsec


/-! ## Part 5: the clock advances, then `_regular()` -/

theorem tick_zero (s : Sys) : tick s 0 = { s with now := s.now + 0 } := by simp [tick]

theorem tick_pos (s : Sys) (dt : Nat) (h : dt ≠ 0) :
    tick s dt = { s with now := s.now + dt, trace := .tick (s.now + dt) :: s.trace } := by simp [tick, h]

/-- session time after a clock mark, given the clock invariant before it -/
theorem sessOf_tick {cfg0 : Cfg} {env0 : List EnvStep} {s : Sys} (h : Base cfg0 env0 s) (dt : Nat) :
    sessOf s.trace ≤ sessOf (.tick (s.now + dt) :: s.trace) ∧
    sessOf (.tick (s.now + dt) :: s.trace) ≤ sessOf s.trace + dt := by
  unfold sessOf
  rw [readyAt_tick, clockOf_tick, ← h.now]
  cases readyAt s.trace with
  | none => simp
  | some t0 => simp only; omega

theorem Base.tick {cfg0 : Cfg} {env0 : List EnvStep} {s : Sys} (h : Base cfg0 env0 s) (dt : Nat) :
    Base cfg0 env0 (tick s dt) := by
  by_cases h0 : dt = 0
  · subst h0; rw [tick_zero]
    exact ⟨h.cfg, h.env, h.now, h.start, h.rdy⟩
  · rw [tick_pos s dt h0]
    exact ⟨h.cfg, h.env, rfl, h.start, h.rdy⟩

section TickSec
variable {hi : Bool} {cfg0 : Cfg} {env0 : List EnvStep}

/-- `selector.wait` returned after `dt` ticks: the clock mark records that no close timer was
    overdue when the loop went to wait; afterwards it is overdue by less than `dt` -/
theorem CI.tick {s : Sys} (h : CI hi cfg0 env0 0 s) (dt : Nat) (hdt : hi = true → dt ≤ cfg0.poll) :
    CI hi cfg0 env0 dt (tick s dt) := by
  by_cases h0 : dt = 0
  · subst h0; rw [tick_zero]
    exact h.same rfl rfl rfl rfl rfl rfl rfl rfl rfl rfl
  · have hb := h.b.tick dt
    rw [tick_pos s dt h0] at hb ⊢
    have hinv : Inv s → Inv { s with now := s.now + dt, trace := .tick (s.now + dt) :: s.trace } := by
      have := (cl_tick s dt).inv
      rw [tick_pos s dt h0] at this; exact this
    refine ⟨hb, ⟨?_, ?_, fun hr => hinv (h.w.cinv hr), ?_, ?_, ?_⟩, ?_⟩
    · intro ct hct
      exact armed_append _ ct [.tick (s.now + dt)] _ (h.w.arm ct hct)
    · intro hso
      rcases h.w.sk hso with h5 | h5
      · exact Or.inl (List.mem_cons_of_mem _ h5)
      · exact Or.inr (by simpa [connSeen, isConnEv] using h5)
    · intro hr ct hw
      have hw' : CloseWr ct s.trace := by
        have := (closeWr_cons_iff ct (.tick (s.now + dt)) s.trace).mp hw
        rcases this with ⟨hx, _⟩ | hx
        · cases hx
        · exact hx
      exact h.w.cw hr ct hw'
    · show CtoOK _ _ _ _ (.tick (s.now + dt) :: s.trace)
      rw [ctoOK_cons]
      exact ⟨fun hx => (by cases hx), h.w.cto⟩
    · show TickC _ _ _ _ (.tick (s.now + dt) :: s.trace)
      rw [tickC_cons]
      refine ⟨?_, h.w.tok⟩
      intro n hn
      cases hn
      rw [← h.b.now]
      exact ⟨by omega, fun hhi => (by have := hdt hhi; omega),
        fun hr hc0 ct hw => h.n hc0 ct (h.w.cw hr ct hw)⟩
    · intro hc0 ct hct
      have := h.n hc0 ct hct
      have := (sessOf_tick h.b dt).2
      show sessOf (.tick (s.now + dt) :: s.trace) < ct + cfg0.closeTimeout + dt
      omega

theorem CI.weaken {sl : Nat} {s : Sys} (h : CI hi cfg0 env0 0 s) : CI hi cfg0 env0 sl s :=
  ⟨h.b, h.w, fun hc0 ct hct => by have := h.n hc0 ct hct; omega⟩

/-- the close timer is overdue in `s`: `_ForceDisconnect('close-timeout')` is in flight -/
def DueC (cfg0 : Cfg) (s : Sys) : Prop :=
  cfg0.closeTimeout ≠ 0 ∧ ∃ ct, s.sentCloseTime = some ct ∧ ct + cfg0.closeTimeout ≤ sessOf s.trace

theorem checkPoll_err {s s' : Sys} {x : Exn} (h : checkPoll s = .err x s') : x = .genExit := by
  by_cases hd : pollDue s
  · rw [checkPoll_fires s hd] at h
    exact Monitor.yieldEv_err_genExit h
  · cases hps : s.pollStart with
    | none => exact absurd (Or.inl hps) hd
    | some p0 =>
      have hlt : sessionTime s - p0 < s.cfg.poll := by
        apply Nat.lt_of_not_le
        intro hc
        exact hd (Or.inr ⟨p0, hps, hc⟩)
      rw [checkPoll_quiet s p0 hps hlt] at h
      cases h

theorem checkAutoPing_not_err {s s' : Sys} {x : Exn} : checkAutoPing s ≠ .err x s' :=
  Monitor.noRaise_checkAutoPing s x s'

theorem checkPingTimeout_err {s s' : Sys} {x : Exn} (h : checkPingTimeout s = .err x s') :
    x = .genExit ∨ x = .forceDisconnect "ping-timeout" := by
  unfold checkPingTimeout at h
  rw [bind_ok (show getS s = .ok s s from rfl)] at h
  split at h
  · cases hy : yieldEv .unresponsive s with
    | ok u s1 => rw [bind_ok hy] at h; cases h; exact Or.inr rfl
    | err y s1 => rw [bind_err hy] at h; cases h; exact Or.inl (Monitor.yieldEv_err_genExit hy)
  · cases h

/-- `_check_close_timeout` in a state satisfying the invariant up to slack `sl` -/
theorem checkCloseTimeout_C {sl : Nat} {s : Sys} (h : CI hi cfg0 env0 sl s) :
    (checkCloseTimeout s = .ok () s ∧ CI hi cfg0 env0 0 s) ∨
    (checkCloseTimeout s = .err (.forceDisconnect "close-timeout") s ∧ DueC cfg0 s) := by
  by_cases hd : closeTimeoutDue s
  · right
    refine ⟨checkCloseTimeout_fires s hd, ?_⟩
    obtain ⟨h0, ct, hct, hge⟩ := hd
    rw [h.b.cfg] at h0 hge
    rw [h.b.sess] at hge
    exact ⟨h0, ct, hct, hge⟩
  · left
    refine ⟨checkCloseTimeout_quiet s hd, h.b, h.w, ?_⟩
    intro hc0 ct hct
    apply Nat.lt_of_not_le
    intro hle
    apply hd
    refine ⟨by rw [h.b.cfg]; exact hc0, ct, hct, ?_⟩
    rw [h.b.cfg, h.b.sess]; omega

/-- outcome of `_regular()` after a `selector.wait` of `dt` ticks, for the close timer -/
def RegOutC (hi : Bool) (cfg0 : Cfg) (env0 : List EnvStep) (dt : Nat) : Res Unit → Prop
  | .ok _ s' => CI hi cfg0 env0 0 s'
  | .err x s' => CI hi cfg0 env0 dt s' ∧ (x = .genExit ∨ x = .forceDisconnect "ping-timeout" ∨
      (x = .forceDisconnect "close-timeout" ∧ DueC cfg0 s'))

theorem regular_tick_C {s : Sys} (h : CI hi cfg0 env0 0 s) (dt : Nat) (hdt : hi = true → dt ≤ cfg0.poll) :
    RegOutC hi cfg0 env0 dt (regular (tick s dt)) := by
  have ht := h.tick dt hdt
  generalize tick s dt = st at ht
  by_cases hr : st.ready = true
  · rw [regular_ready st hr]
    have h1 := rc_checkPoll st ht
    cases e1 : checkPoll st with
    | err x s1 =>
      rw [e1] at h1; simp only [Res.state_ok, Res.state_err] at h1; rw [bind_err e1]
      exact ⟨h1, Or.inl (checkPoll_err e1)⟩
    | ok u1 s1 =>
      rw [e1] at h1; simp only [Res.state_ok, Res.state_err] at h1; rw [bind_ok e1]
      have h2 := rc_checkAutoPing s1 h1
      cases e2 : checkAutoPing s1 with
      | err x s2 => exact absurd e2 checkAutoPing_not_err
      | ok u2 s2 =>
        rw [e2] at h2; simp only [Res.state_ok, Res.state_err] at h2; rw [bind_ok e2]
        have h3 := rc_checkPingTimeout s2 h2
        cases e3 : checkPingTimeout s2 with
        | err x s3 =>
          rw [e3] at h3; simp only [Res.state_ok, Res.state_err] at h3; rw [bind_err e3]
          rcases checkPingTimeout_err e3 with hx | hx
          · exact ⟨h3, Or.inl hx⟩
          · exact ⟨h3, Or.inr (Or.inl hx)⟩
        | ok u3 s3 =>
          rw [e3] at h3; simp only [Res.state_ok, Res.state_err] at h3; rw [bind_ok e3]
          rcases checkCloseTimeout_C h3 with ⟨e4, h4⟩ | ⟨e4, h4⟩
          · rw [e4]; exact h4
          · rw [e4]; exact ⟨h3, Or.inr (Or.inr ⟨rfl, h4⟩)⟩
  · have hr' : st.ready = false := by simpa using hr
    rw [regular_not_ready st hr']
    refine ⟨ht.b, ht.w, ?_⟩
    intro hc0 ct hct
    rw [(ht.b.notReady hr').2]
    have := Nat.pos_of_ne_zero hc0
    omega

end TickSec


/-! ## Part 6: events handed over inside `WebSocket.feed` -/

theorem tick_zero' (s : Sys) : tick s 0 = s := by simp [tick]

theorem onEvent_err_boring {e : Event} {s s1 : Sys} {x : Exn} (h : onEvent e s = .err x s1) :
    x.boring = true ∧ s1 = s := by
  refine ⟨?_, onEvent_err_trace h⟩
  cases e with
  | ping d =>
    simp only [onEvent] at h
    split at h
    · split at h
      · cases h; rfl
      · split at h
        · cases h
        · rename_i heq; exact (sendFrame_no_err heq).elim
    · cases h
  | _ => simp only [onEvent] at h; cases h

section FeedSec
variable {hi : Bool} {cfg0 : Cfg} {env0 : List EnvStep}

/-- Ready: the session clock restarts at 0, so a `close()` made before Ready is not overdue -/
theorem CI.ready {s : Sys} (h : CI hi cfg0 env0 0 s) (a : Option Http.Str) (b : Bool) :
    CI hi cfg0 env0 0 (pushEv (.ready a b) (readyState s)) := by
  have hinv : Inv s → Inv (pushEv (.ready a b) (readyState s)) := by
    intro ⟨h1, h2⟩
    exact ⟨by show Lomond.Core.quiet (.ev (.ready a b) :: s.trace) = true; simpa [Lomond.Core.quiet, Obs.isWrite] using h1,
           by intro hc; apply h2; simpa [hasClose, Obs.isClose, pushEv, readyState] using hc⟩
  refine ⟨⟨h.b.cfg, h.b.env, ?_, ?_, ?_⟩, ⟨?_, ?_, fun hr => hinv (h.w.cinv hr), ?_, ?_, ?_⟩, ?_⟩
  · show s.now = clockOf (.ev (.ready a b) :: s.trace)
    rw [clockOf_ready]; exact h.b.now
  · show some s.now = readyAt (.ev (.ready a b) :: s.trace)
    rw [readyAt_ready, h.b.now]
  · show true = true ↔ some s.now ≠ none
    simp
  · intro ct hct
    exact armed_append _ ct [.ev (.ready a b)] _ (h.w.arm ct hct)
  · intro hso
    rcases h.w.sk hso with h5 | h5
    · exact Or.inl (List.mem_cons_of_mem _ h5)
    · exact Or.inr (by simpa [connSeen, isConnEv, pushEv, readyState] using h5)
  · intro hr ct hw
    have hw' : CloseWr ct s.trace := by
      rcases (closeWr_cons_iff ct (.ev (.ready a b)) s.trace).mp hw with ⟨hx, _⟩ | hx
      · cases hx
      · exact hx
    exact h.w.cw hr ct hw'
  · show CtoOK _ _ _ _ (.ev (.ready a b) :: s.trace)
    rw [ctoOK_cons]
    exact ⟨fun hx => (by cases hx), h.w.cto⟩
  · show TickC _ _ _ _ (.ev (.ready a b) :: s.trace)
    rw [tickC_cons_none _ _ _ _ _ rfl]
    exact h.w.tok
  · intro hc0 ct hct
    show sessOf (.ev (.ready a b) :: s.trace) < ct + cfg0.closeTimeout + 0
    rw [sessOf_ready]
    have := Nat.pos_of_ne_zero hc0
    omega

theorem cN_feedEvent {e : Event} (hf : isFeedEvent e = true) (hr : ∀ a b, e ≠ .ready a b) :
    (Obs.ev e).cN = true := by
  cases e <;> first
    | (exact absurd rfl (hr _ _))
    | (simp [isFeedEvent] at hf; done)
    | rfl

/-- `_on_event` and handing the event over -/
theorem onEvent_push_C {e : Event} (hf : isFeedEvent e = true) {s : Sys} (h : CI hi cfg0 env0 0 s) :
    match onEvent e s with
    | .ok _ s1 => CI hi cfg0 env0 0 (pushEv e s1)
    | .err x s1 => x.boring = true ∧ s1 = s := by
  cases hE : onEvent e s with
  | err x s1 => exact onEvent_err_boring hE
  | ok u s1 =>
    simp only []
    cases e with
    | ready a b =>
      simp only [onEvent] at hE
      cases hE
      exact h.ready a b
    | pong d =>
      simp only [onEvent] at hE
      cases hE
      exact rc_pushEv _ rfl _ (h.same rfl rfl rfl rfl rfl rfl rfl rfl rfl rfl)
    | ping d =>
      have h1 : CI hi cfg0 env0 0 s1 := by
        simp only [onEvent] at hE
        repeat' split at hE
        all_goals first
          | (cases hE; exact h)
          | (cases hE; done)
          | (rename_i heq; cases hE; exact (rc_sendFrame _ _ _ (by decide)).ok heq h)
      exact rc_pushEv _ rfl _ h1
    | _ =>
      first
        | (simp [isFeedEvent] at hf; done)
        | (simp only [onEvent] at hE; cases hE; exact rc_pushEv _ rfl _ h)

/-- outcome of `feedYield`, for the close timer: the invariant always survives, the close timeout
    never fires here (no time has passed since the last `_regular()`), and an exception is wrapped -/
def FeedOutC (hi : Bool) (cfg0 : Cfg) (env0 : List EnvStep) (b : Bool) : Res Unit → Prop
  | .ok _ s' => CI hi cfg0 env0 0 s'
  | .err y s' => CI hi cfg0 env0 0 s' ∧ (b = true → s'.closed = true) ∧
      ∃ x, y = .outer x ∧ (x.boring = true ∨ x = .genExit ∨ x = .forceDisconnect "ping-timeout")

theorem handler_C (b : Bool) (x : Exn) {s1 : Sys} (h : CI hi cfg0 env0 0 s1)
    (hx : x.boring = true ∨ x = .genExit ∨ x = .forceDisconnect "ping-timeout") :
    FeedOutC hi cfg0 env0 b
      ((do (if b then onDisconnect else pure ()); throwE (.outer x) : M Unit) s1) := by
  cases b with
  | true =>
    simp only [if_true]
    obtain ⟨s2, hd, hcl⟩ := Monitor.onDisconnect_ok s1
    rw [bind_ok hd]
    exact ⟨rc_onDisconnect.ok hd h, fun _ => hcl, x, rfl, hx⟩
  | false =>
    simp only [Bool.false_eq_true, if_false]
    rw [bind_ok (show (pure () : M Unit) s1 = .ok () s1 from rfl)]
    exact ⟨h, fun hb => (by cases hb), x, rfl, hx⟩

theorem feedYield_C (b : Bool) {e : Event} (hf : isFeedEvent e = true) {s : Sys} (h : CI hi cfg0 env0 0 s) :
    FeedOutC hi cfg0 env0 b (feedYield b e s) := by
  have hA := onEvent_push_C hf h
  cases hE : onEvent e s with
  | err x s1 =>
    rw [hE] at hA
    rw [feedYield_onEvent_err b e s s1 x hE, hA.2]
    exact handler_C b x h (Or.inl hA.1)
  | ok u s1 =>
    rw [hE] at hA
    simp only [] at hA
    unfold feedYield
    have hB := rc_doActs (hi := hi) (cfg0 := cfg0) (env0 := env0) (sl := 0)
      ((pushEv e s1).react (pushEv e s1).hist) (pushEv e s1) hA
    cases hd : doActs ((pushEv e s1).react (pushEv e s1).hist) (pushEv e s1) with
    | err x s2 =>
      have hy : yieldEv e s1 = .err x s2 := (yieldEv_eq e s1).trans hd
      rw [hd] at hB
      have hb1 : (do onEvent e; yieldEv e; regular : M Unit) s = .err x s2 := by
        rw [bind_ok hE, bind_err hy]
      rw [tryC_err hb1]
      exact handler_C b x hB (Or.inr (Or.inl (Monitor.raises_doActs _ hd).1))
    | ok u2 s2 =>
      have hy : yieldEv e s1 = .ok u2 s2 := (yieldEv_eq e s1).trans hd
      rw [hd] at hB
      simp only [Res.state_ok] at hB
      have hR := regular_tick_C hB 0 (fun _ => Nat.zero_le _)
      rw [tick_zero'] at hR
      cases hr : regular s2 with
      | ok u3 s3 =>
        rw [hr] at hR
        have hb1 : (do onEvent e; yieldEv e; regular : M Unit) s = .ok () s3 := by
          rw [bind_ok hE, bind_ok hy, hr]
        rw [tryC_ok hb1]
        exact hR
      | err x s3 =>
        rw [hr] at hR
        have hb1 : (do onEvent e; yieldEv e; regular : M Unit) s = .err x s3 := by
          rw [bind_ok hE, bind_ok hy, hr]
        rw [tryC_err hb1]
        obtain ⟨h3, hx⟩ := hR
        refine handler_C b x h3 ?_
        rcases hx with hx | hx | ⟨_, hd⟩
        · exact Or.inr (Or.inl hx)
        · exact Or.inr (Or.inr hx)
        · exfalso
          obtain ⟨hc0, ct, hct, hge⟩ := hd
          have := h3.n hc0 ct hct
          omega

end FeedSec


/-! ## Part 7: the close-timer instance of the result-aware lifting -/

def isDiscEv : Obs → Bool
  | .ev (.disconnected _ _) => true
  | _ => false

/-- some `Disconnected` event was yielded -/
def discAny (tr : List Obs) : Bool := tr.any isDiscEv

/-- neither a `Closed` nor a `Disconnected` event -/
def NoClosedEv (o : Obs) : Prop := isClosedEv o = false ∧ isDiscEv o = false

/-- not a `Disconnected` event -/
def NoDiscEv (o : Obs) : Prop := isDiscEv o = false

theorem timers_noClosed : Lomond.Core.Timers NoClosedEv where
  nonEv := by intro o ho; cases o <;> first | exact ⟨rfl, rfl⟩ | cases ho
  poll := ⟨rfl, rfl⟩
  unresponsive := ⟨rfl, rfl⟩

theorem timers_noDisc : Lomond.Core.Timers NoDiscEv where
  nonEv := by intro o ho; cases o <;> first | rfl | cases ho
  poll := rfl
  unresponsive := rfl

/-- **once `Closed` was yielded the websocket is closed** (so the loop never waits again), and no
    `Disconnected` is yielded while the loop runs -/
structure J (s : Sys) : Prop where
  cl : closedSeen s.trace = true → s.closed = true
  nd : discAny s.trace = false

theorem closedSeen_ext {s s' : Sys} (h : Ext NoClosedEv s s') : closedSeen s'.trace = closedSeen s.trace := by
  obtain ⟨l, e, n⟩ := h
  rw [e]; unfold closedSeen
  rw [List.any_append]
  have : l.any isClosedEv = false := by
    rw [List.any_eq_false]
    intro o ho
    have := (n o ho).1
    simp [this]
  rw [this, Bool.false_or]

theorem discAny_ext {s s' : Sys} (h : Ext NoDiscEv s s') : discAny s'.trace = discAny s.trace := by
  obtain ⟨l, e, n⟩ := h
  rw [e]; unfold discAny
  rw [List.any_append]
  have : l.any isDiscEv = false := by
    rw [List.any_eq_false]
    intro o ho
    have := n o ho
    unfold NoDiscEv at this
    simp [this]
  rw [this, Bool.false_or]

theorem J.step {s s' : Sys} (h : J s) (st : Step s s') (e : Ext NoClosedEv s s') : J s' := by
  refine ⟨?_, ?_⟩
  · intro hc
    rw [closedSeen_ext e] at hc
    exact st.closedMono (h.cl hc)
  · rw [discAny_ext (e.mono (fun o ho => ho.2))]; exact h.nd

/-- the exception that is really in flight (one `.outer` wrapper removed) -/
def _root_.Lomond.Core.Exn.core : Exn → Exn
  | .outer y => y
  | y => y

/-- the invariant of the close timer at the normal exits of the pipeline -/
def IC (hi : Bool) (cfg0 : Cfg) (env0 : List EnvStep) (s : Sys) : Prop := CI hi cfg0 env0 0 s ∧ J s

/-- what an exception in flight says about the close timer: `_ForceDisconnect('close-timeout')` only
    with the timer overdue (and by less than `poll` under the cycle bound) and no `Closed` yielded;
    the library's own errors leave the invariant intact -/
def PC (hi : Bool) (cfg0 : Cfg) (y : Exn) (s : Sys) : Prop :=
  discAny s.trace = false ∧
  (∀ z, y ≠ .outer z) ∧
  ((y.boring = true ∨ y = .scriptEnd ∨
      ∃ k, y = .forceDisconnect k ∧ k ≠ "close-timeout" ∧ k ≠ "ping-timeout") → Ndue cfg0 0 s ∧ J s) ∧
  (y = .forceDisconnect "close-timeout" → DueC cfg0 s ∧ closedSeen s.trace = false ∧
      (hi = true → ∀ ct, s.sentCloseTime = some ct → sessOf s.trace < ct + cfg0.closeTimeout + cfg0.poll)) ∧
  (∀ k, y = .other k ∨ y = .socketFail k → y.boring = true)

def XC (hi : Bool) (cfg0 : Cfg) (env0 : List EnvStep) (x : Exn) (s : Sys) : Prop :=
  Base cfg0 env0 s ∧ CW hi cfg0 s ∧ PC hi cfg0 x.core s

section InstC
variable {hi : Bool} {cfg0 : Cfg} {env0 : List EnvStep}

theorem fd_ne {a b : String} (h : a ≠ b) : Exn.forceDisconnect a ≠ .forceDisconnect b :=
  fun e => h (Exn.forceDisconnect.inj e)

theorem PC.genExit (s : Sys) (nd : discAny s.trace = false) : PC hi cfg0 .genExit s :=
  ⟨nd, fun z e => (by cases e), fun h => (by rcases h with h | h | ⟨k, h, _⟩ <;> cases h), fun e => (by cases e),
   fun k h => (by rcases h with h | h <;> cases h)⟩

theorem PC.pingTimeout (s : Sys) (nd : discAny s.trace = false) : PC hi cfg0 (.forceDisconnect "ping-timeout") s :=
  ⟨nd, fun z e => (by cases e),
   fun h => (by
    rcases h with h | h | ⟨k, h, _, h3⟩
    · cases h
    · cases h
    · cases h; exact absurd rfl h3),
   fun e => absurd e (fd_ne (by decide)), fun k h => (by rcases h with h | h <;> cases h)⟩

theorem boring_kind {x : Exn} (hb : x.boring = true) :
    ∀ k, x = .other k ∨ x = .socketFail k → x.boring = true := fun _ _ => hb

theorem boring_ne_cto {x : Exn} (hb : x.boring = true) :
    ∀ k, x = .other k ∨ x = .socketFail k → k ≠ "close-timeout" := by
  intro k h hk
  subst hk
  rcases h with h | h <;> (subst h; revert hb; decide)

theorem core_of_boring {x : Exn} (h : x.boring = true) : x.core = x := by
  cases x <;> first | rfl | cases h

theorem not_outer_of_boring {x : Exn} (h : x.boring = true) : ∀ z, x ≠ .outer z := by
  intro z e; subst e; cases h

theorem XC.of_boring {x : Exn} {s : Sys} (hb : x.boring = true) (h : IC hi cfg0 env0 s) : XC hi cfg0 env0 x s := by
  refine ⟨h.1.b, h.1.w, ?_⟩
  rw [core_of_boring hb]
  refine ⟨h.2.nd, not_outer_of_boring hb, fun _ => ⟨h.1.n, h.2⟩, ?_, boring_kind hb⟩
  intro e; subst e; cases hb

theorem XC.unboring {x : Exn} {s : Sys} (hb : x.boring = true) (h : XC hi cfg0 env0 x s) : IC hi cfg0 env0 s := by
  obtain ⟨b, w, p⟩ := h
  rw [core_of_boring hb] at p
  obtain ⟨n, j⟩ := p.2.2.1 (Or.inl hb)
  exact ⟨⟨b, w, n⟩, j⟩

theorem XC.plain {x : Exn} {s : Sys} (h : IC hi cfg0 env0 s) (h1 : x.core = x) (h2 : ∀ z, x ≠ .outer z)
    (h3 : x ≠ .forceDisconnect "close-timeout") (h4 : ∀ k, x = .other k ∨ x = .socketFail k → x.boring = true) :
    XC hi cfg0 env0 x s :=
  ⟨h.1.b, h.1.w, by rw [h1]; exact ⟨h.2.nd, h2, fun _ => ⟨h.1.n, h.2⟩, fun e => absurd e h3, h4⟩⟩

/-- the invariant after a step that is quiet for the close timer and yields no `Closed` -/
theorem IC.quiet {s s' : Sys} (h : IC hi cfg0 env0 s) (q : QuietP s s') (c : CQ s s') (k : Cl s s')
    (st : Step s s') (e : Ext NoClosedEv s s') : IC hi cfg0 env0 s' :=
  ⟨h.1.quiet q c k, h.2.step st e⟩

theorem specx_of_noRaise {I : Sys → Prop} {X : Exn → Sys → Prop} {m : M α} (hn : Monitor.NoRaise m)
    (h : ∀ s, I s → I (m s).state) : SpecX I X m := by
  intro s hs
  have := h s hs
  cases hm : m s with
  | ok a s' => rw [hm] at this; exact this
  | err x s' => exact absurd hm (hn s x s')

theorem ic_feedYield (b : Bool) (e : Event) (hf : isFeedEvent e = true) (hcl : ∀ c r, e ≠ .closed c r) :
    SpecX (IC hi cfg0 env0) (XC hi cfg0 env0) (feedYield b e) := by
  intro s hs
  have h1 := feedYield_C b hf hs.1
  have hev : NoClosedEv (.ev e) := by
    cases e <;> first | exact ⟨rfl, rfl⟩ | exact absurd rfl (hcl _ _) | (simp [isFeedEvent] at hf; done)
  have hj : J (feedYield b e s).state :=
    hs.2.step (step_feedYield b e s) (ext_feedYield timers_noClosed b e hev s)
  cases hr : feedYield b e s with
  | ok u s' => rw [hr] at h1 hj; exact ⟨h1, hj⟩
  | err y s' =>
    rw [hr] at h1 hj
    obtain ⟨h2, _, x, rfl, hx⟩ := h1
    refine ⟨h2.b, h2.w, ?_⟩
    show PC hi cfg0 x s'
    rcases hx with hx | hx | hx
    · refine ⟨hj.nd, not_outer_of_boring hx, fun _ => ⟨h2.n, hj⟩, ?_, boring_kind hx⟩
      intro e; subst e; cases hx
    · subst hx; exact PC.genExit _ hj.nd
    · subst hx; exact PC.pingTimeout _ hj.nd

theorem CI.setClosed {s : Sys} (h : CI hi cfg0 env0 0 s) :
    CI hi cfg0 env0 0 { s with closing := false, closed := true } := by
  have hinv : Inv s → Inv { s with closing := false, closed := true } := by
    intro ⟨h1, _⟩
    exact ⟨h1, fun _ => Or.inr rfl⟩
  have hcq : CQ s { s with closing := false, closed := true } := CQ.same rfl rfl rfl
  exact ⟨⟨h.b.cfg, h.b.env, h.b.now, h.b.start, h.b.rdy⟩, h.w.of_cq hcq hinv, h.n.of_cq hcq⟩

theorem CI.setClosing {s : Sys} (h : CI hi cfg0 env0 0 s) : CI hi cfg0 env0 0 { s with closing := true } := by
  have hinv : Inv s → Inv { s with closing := true } := by
    intro ⟨h1, _⟩
    exact ⟨h1, fun _ => Or.inl rfl⟩
  have hcq : CQ s { s with closing := true } := CQ.same rfl rfl rfl
  exact ⟨⟨h.b.cfg, h.b.env, h.b.now, h.b.start, h.b.rdy⟩, h.w.of_cq hcq hinv, h.n.of_cq hcq⟩

theorem ic_wsClose (c : Option Nat) (r : Arg) : SpecX (IC hi cfg0 env0) (XC hi cfg0 env0) (wsClose c r) :=
  specx_of_noRaise (Monitor.noRaise_wsClose c r) (fun s hs =>
    ⟨rc_wsClose c r s hs.1, hs.2.step (step_wsClose c r s) (ext_wsClose timers_noClosed c r s)⟩)

theorem ic_closeSocket : SpecX (IC hi cfg0 env0) (XC hi cfg0 env0) closeSocket :=
  specx_of_noRaise Monitor.noRaise_closeSocket (fun s hs =>
    ⟨rc_closeSocket s hs.1, hs.2.step (step_closeSocket s) (ext_closeSocket timers_noClosed s)⟩)

theorem ic_onDisconnect : SpecX (IC hi cfg0 env0) (XC hi cfg0 env0) onDisconnect :=
  specx_of_noRaise Monitor.noRaise_onDisconnect (fun s hs =>
    ⟨rc_onDisconnect s hs.1, hs.2.step (step_onDisconnect s) (ext_onDisconnect timers_noClosed s)⟩)

theorem ic_raiseIfArgError (r : ActRes) : SpecX (IC hi cfg0 env0) (XC hi cfg0 env0) (raiseIfArgError r) := by
  unfold raiseIfArgError
  split
  · exact specx_throwE (fun s hs => XC.of_boring rfl hs)
  · exact specx_pure _

theorem ic_onClose (c : Option Nat) (r : List Nat) :
    SpecX (IC hi cfg0 env0) (XC hi cfg0 env0) (onClose c r) := by
  unfold onClose
  refine specx_bind ?_ (fun _ => specx_getS_bind (fun s0 => ?_))
  · unfold checkCloseCode
    splits <;> first | exact specx_pure _ | exact specx_throwE (fun s hs => XC.of_boring rfl hs)
  · split
    · exact specx_pure _
    · split
      · -- we are closing: the server's Close is the reply; `Closed`, then the websocket is closed
        intro s hs
        have h1 := feedYield_C (hi := hi) (cfg0 := cfg0) (env0 := env0) true
          (e := .closed c r) rfl hs.1
        cases hr : feedYield true (.closed c r) s with
        | ok u s1 =>
          rw [hr] at h1
          rw [bind_ok hr]
          have hnd : discAny s1.trace = false := by
            rw [discAny_ext ((ext_feedYield timers_noDisc true (.closed c r) rfl).ok hr)]; exact hs.2.nd
          exact ⟨h1.setClosed, fun _ => rfl, hnd⟩
        | err y s1 =>
          rw [hr] at h1
          rw [bind_err hr]
          obtain ⟨h2, hcl, x, rfl, hx⟩ := h1
          have hj : J s1 := ⟨fun _ => hcl rfl, by
            rw [discAny_ext ((ext_feedYield timers_noDisc true (.closed c r) rfl).err hr)]; exact hs.2.nd⟩
          refine ⟨h2.b, h2.w, ?_⟩
          show PC hi cfg0 x s1
          rcases hx with hx | hx | hx
          · refine ⟨hj.nd, not_outer_of_boring hx, fun _ => ⟨h2.n, hj⟩, ?_, boring_kind hx⟩
            intro e; subst e; cases hx
          · subst hx; exact PC.genExit _ hj.nd
          · subst hx; exact PC.pingTimeout _ hj.nd
      · refine specx_bind (ic_feedYield true _ rfl (fun _ _ h => by cases h)) (fun _ =>
          specx_bind (ic_wsClose _ _) (fun r' => specx_bind (ic_raiseIfArgError r') (fun _ =>
            specx_modS (fun s hs => ⟨hs.1.setClosing, hs.2.cl, hs.2.nd⟩))))

theorem ic_leaves : LeavesX (IC hi cfg0 env0) (XC hi cfg0 env0) where
  inert := by
    intro s s' h hs
    have i := h.inert
    exact ⟨hs.1.same i.cfg i.env i.now i.startTime i.ready i.sentCloseTime i.sockOpen h.closing h.closed i.trace,
      ⟨by intro hc; rw [i.trace] at hc; rw [h.closed]; exact hs.2.cl hc, by rw [i.trace]; exact hs.2.nd⟩⟩
  boring := fun x s hb hs => XC.of_boring hb hs
  unboring := fun x s hb hx => XC.unboring hb hx
  forced := fun s hs => XC.plain hs rfl (fun z e => by cases e) (fd_ne (by decide))
    (fun k h => by rcases h with h | h <;> cases h)
  scriptEnd := fun s hs => XC.plain hs rfl (fun z e => by cases e) (fun e => by cases e)
    (fun k h => by rcases h with h | h <;> cases h)
  unwrap := by
    intro y s ⟨b, w, p⟩
    refine ⟨b, w, ?_⟩
    have : y.core = y := by
      cases y <;> first | rfl | exact absurd rfl (p.2.1 _)
    rw [this]; exact p
  closeSocket := ic_closeSocket
  wsClose := ic_wsClose
  onDisconnect := ic_onDisconnect
  onClose := ic_onClose
  feedYield := fun b e hf _ hcl => ic_feedYield b e hf hcl

end InstC


/-! ## Part 8: the close timer through the session loop and a whole connection -/

section LoopC
variable {hi : Bool} {cfg0 : Cfg} {env0 : List EnvStep}

theorem ext_tick (s : Sys) (dt : Nat) : Ext NoClosedEv s (tick s dt) := by
  by_cases h0 : dt = 0
  · subst h0; rw [tick_zero']; exact (ext_po _).refl s
  · rw [tick_pos s dt h0]; exact ext_one (P := NoClosedEv) (show NoClosedEv (.tick _) from ⟨rfl, rfl⟩) rfl

/-- one loop cycle: `selector.wait` returns after `dt ≤ poll` (when `hi`), then `_regular()` -/
theorem ic_tick_regular (dt : Nat) (hdt : hi = true → dt ≤ cfg0.poll) (s : Sys) (hs : IC hi cfg0 env0 s)
    (hcl : s.closed = false) : Sat (IC hi cfg0 env0) (XC hi cfg0 env0) (regular (tick s dt)) := by
  have h1 := regular_tick_C hs.1 dt hdt
  have hst : Step s (regular (tick s dt)).state := step_po.trans (step_tick s dt) (step_regular _)
  have hex : Ext NoClosedEv s (regular (tick s dt)).state :=
    (ext_po _).trans (ext_tick s dt) (ext_regular timers_noClosed _)
  have hncl : closedSeen s.trace = false := by
    cases hc : closedSeen s.trace with
    | false => rfl
    | true => have := hs.2.cl hc; rw [hcl] at this; cases this
  cases hr : regular (tick s dt) with
  | ok u s' =>
    rw [hr] at h1 hst hex
    exact ⟨h1, hs.2.step hst hex⟩
  | err x s' =>
    rw [hr] at h1 hst hex
    obtain ⟨h2, hx⟩ := h1
    have hj := hs.2.step hst hex
    refine ⟨h2.b, h2.w, ?_⟩
    rcases hx with hx | hx | ⟨hx, hd⟩
    · subst hx; exact PC.genExit _ hj.nd
    · subst hx; exact PC.pingTimeout _ hj.nd
    · subst hx
      refine ⟨hj.nd, fun z e => (by cases e), ?_, fun _ => ⟨hd, ?_, ?_⟩, fun k h => (by rcases h with h | h <;> cases h)⟩
      · intro h
        rcases h with h | h | ⟨k, h, h2, _⟩
        · cases h
        · cases h
        · cases h; exact absurd rfl h2
      · have := closedSeen_ext hex
        simp only [Res.state_err] at this
        rw [this]; exact hncl
      · intro hhi ct hct
        have := h2.n hd.1 ct hct
        have := hdt hhi
        omega

theorem ic_loop (env : List EnvStep) (h : hi = true → EnvBound cfg0.poll env) :
    SpecX (IC hi cfg0 env0) (XC hi cfg0 env0) (loop env) :=
  liftx_loop ic_leaves (fun st => hi = true → ∀ dt rd, st = .wait dt rd → dt ≤ cfg0.poll)
    (fun dt rd s hP hs hcl => ic_tick_regular dt (fun hhi => hP hhi dt rd rfl) s hs hcl) env
    (fun st hst hhi dt rd e => h hhi dt rd (e ▸ hst))

/-- what is claimed of every final state of a connection -/
def FinC0 (hi : Bool) (cfg0 : Cfg) (env0 : List EnvStep) (s : Sys) : Prop := Base cfg0 env0 s ∧ CW hi cfg0 s

theorem FinC0.ci {s : Sys} (h : FinC0 hi cfg0 env0 s) : CI hi cfg0 env0 (sessOf s.trace + 1) s :=
  ⟨h.1, h.2, fun _ ct _ => by omega⟩

theorem fin_rc {sl : Nat} {m : M α} (hm : ∀ sl, Spec (RC hi cfg0 env0 sl) m) (s : Sys) (h : FinC0 hi cfg0 env0 s) :
    FinC0 hi cfg0 env0 (m s).state := by
  have := hm _ s h.ci
  exact ⟨this.b, this.w⟩

theorem ic_yieldEv (e : Event) (h1 : (Obs.ev e).cN = true) (h2 : NoClosedEv (.ev e)) :
    SpecX (IC hi cfg0 env0) (XC hi cfg0 env0) (yieldEv e) := by
  intro s hs
  have hc := rc_yieldEv e h1 s hs.1
  have hj := hs.2.step (step_yieldEv e s) (ext_yieldEv timers_noClosed e h2 s)
  cases hy : yieldEv e s with
  | ok u s' => rw [hy] at hc hj; exact ⟨hc, hj⟩
  | err x s' =>
    rw [hy] at hc hj
    have := Monitor.yieldEv_err_genExit hy
    subst this
    exact ⟨hc.b, hc.w, PC.genExit _ hj.nd⟩

/-- `Connected` is yielded with the socket open -/
theorem CI.connected {s : Sys} (h : CI hi cfg0 env0 0 s) (hso : s.sockOpen = true) (p : Bool) :
    CI hi cfg0 env0 0 (pushEv (.connected p) s) := by
  refine ⟨⟨h.b.cfg, h.b.env, h.b.now, h.b.start, h.b.rdy⟩,
    ⟨?_, ?_, fun hr => (cl_pushEv _ s).inv (h.w.cinv hr), ?_, ?_, ?_⟩, ?_⟩
  · intro ct hct
    exact armed_append _ ct [.ev (.connected p)] _ (h.w.arm ct hct)
  · intro hx
    have : s.sockOpen = false := hx
    rw [hso] at this; cases this
  · intro hr ct hw
    have hw' : CloseWr ct s.trace := by
      rcases (closeWr_cons_iff ct (.ev (.connected p)) s.trace).mp hw with ⟨hx, _⟩ | hx
      · cases hx
      · exact hx
    exact h.w.cw hr ct hw'
  · show CtoOK _ _ _ _ (.ev (.connected p) :: s.trace)
    rw [ctoOK_cons]
    exact ⟨fun hx => (by cases hx), h.w.cto⟩
  · show TickC _ _ _ _ (.ev (.connected p) :: s.trace)
    rw [tickC_cons_none _ _ _ _ _ rfl]
    exact h.w.tok
  · intro hc0 ct hct
    show sessOf (.ev (.connected p) :: s.trace) < _
    rw [sessOf_cons_of _ rfl rfl]
    exact h.n hc0 ct hct

theorem ic_yieldConn (p : Bool) (s : Sys) (hs : IC hi cfg0 env0 s) (hso : s.sockOpen = true) :
    Sat (IC hi cfg0 env0) (XC hi cfg0 env0) (yieldEv (.connected p) s) := by
  have hc : CI hi cfg0 env0 0 (yieldEv (.connected p) s).state := by
    rw [yieldEv_eq]; exact rc_doActs _ _ (hs.1.connected hso p)
  have hj := hs.2.step (step_yieldEv _ s) (ext_yieldEv timers_noClosed (.connected p) ⟨rfl, rfl⟩ s)
  cases hy : yieldEv (.connected p) s with
  | ok u s' => rw [hy] at hc hj; exact ⟨hc, hj⟩
  | err x s' =>
    rw [hy] at hc hj
    have := Monitor.yieldEv_err_genExit hy
    subst this
    exact ⟨hc.b, hc.w, PC.genExit _ hj.nd⟩

theorem CI.sockSet {sl : Nat} {s : Sys} (h : CI hi cfg0 env0 sl s) : CI hi cfg0 env0 sl { s with sockOpen := true } := by
  have hinv : Inv s → Inv { s with sockOpen := true } := fun h => h
  exact ⟨⟨h.b.cfg, h.b.env, h.b.now, h.b.start, h.b.rdy⟩,
    ⟨h.w.arm, fun hx => (by cases hx), fun hr => hinv (h.w.cinv hr), h.w.cw, h.w.cto, h.w.tok⟩, h.n⟩

theorem write_shape (d : Bytes) (s : Sys) :
    (write d none s).state = s ∨
    ∃ o, (o = .wr d ∨ o = .wrFail d) ∧
      (write d none s).state = { s with writeCtr := s.writeCtr + 1, trace := o :: s.trace } := by
  unfold write
  simp only []
  splits
  all_goals first
    | exact Or.inl rfl
    | exact Or.inr ⟨_, Or.inl rfl, rfl⟩
    | exact Or.inr ⟨_, Or.inr rfl, rfl⟩

/-- the upgrade request is written (whatever its bytes: if it looks like a Close frame, `ReqOk0`
    fails and the clauses that depend on it are void) -/
theorem CI.writeReq {s : Sys} (h : CI hi cfg0 env0 0 s) :
    CI hi cfg0 env0 0 (write s.cfg.request none s).state := by
  by_cases hr : closeLike s.cfg.request none = false
  · exact rc_of_quiet (quietP_write _ _) (cq_write _ _ hr) (cl_write _ _ hr) s h
  · have hnr : ¬ ReqOk0 cfg0 := by
      intro h0
      apply hr
      unfold ReqOk0 at h0
      rw [← h.b.cfg] at h0
      simp [closeLike, h0]
    rcases write_shape s.cfg.request s with e | ⟨o, ho, e⟩
    · rw [e]; exact h
    · rw [e]
      have h1 : o.tmTickVal = none := by rcases ho with rfl | rfl <;> rfl
      have h2 : o.tmIsReady = false := by rcases ho with rfl | rfl <;> rfl
      have h3 : isConnEv o = false := by rcases ho with rfl | rfl <;> rfl
      have h4 : isCtoEv o = false := by rcases ho with rfl | rfl <;> rfl
      refine ⟨⟨h.b.cfg, h.b.env, ?_, ?_, h.b.rdy⟩,
        ⟨?_, ?_, fun h0 => absurd h0 hnr, fun h0 => absurd h0 hnr, ?_,
          (tickC_cons_none _ _ _ _ _ h1).mpr h.w.tok⟩, ?_⟩
      · show s.now = clockOf (o :: s.trace)
        rw [clockOf_cons_of _ h1]; exact h.b.now
      · show s.startTime = readyAt (o :: s.trace)
        rw [readyAt_cons_of _ h2]; exact h.b.start
      · intro ct hct
        exact armed_append _ ct [o] _ (h.w.arm ct hct)
      · intro hso
        rcases h.w.sk hso with h5 | h5
        · exact Or.inl (List.mem_cons_of_mem _ h5)
        · refine Or.inr ?_
          show connSeen (o :: s.trace) = false
          simp only [connSeen, List.any_cons, h3, Bool.false_or]
          exact h5
      · show CtoOK _ _ _ _ (o :: s.trace)
        rw [ctoOK_cons, h4]
        exact ⟨fun hx => (by cases hx), h.w.cto⟩
      · intro hc0 ct hct
        show sessOf (o :: s.trace) < _
        rw [sessOf_cons_of _ h1 h2]
        exact h.n hc0 ct hct

theorem cN_disc (k : String) (g : Bool) (hk : k ≠ "close-timeout") : (Obs.ev (.disconnected k g)).cN = true := by
  simp [Obs.cN, Obs.tmTickVal, Obs.tmIsReady, Obs.isClose, isConnEv, isCtoEv, hk]

theorem fin_closeYield (k : String) (g : Bool) (hk : k ≠ "close-timeout") (s : Sys) (h : FinC0 hi cfg0 env0 s) :
    FinC0 hi cfg0 env0 ((do closeSocket; yieldEv (.disconnected k g) : M Unit) s).state :=
  fin_rc (sl := 0) (fun sl => spec_bind rc_po rc_closeSocket (fun _ => rc_yieldEv _ (cN_disc k g hk))) s h

/-- `run()`'s handler for `_ForceDisconnect('close-timeout')`: the `Disconnected` it yields is justified -/
theorem fin_ctoYield (s : Sys) (hb : Base cfg0 env0 s) (hw : CW hi cfg0 s)
    (p : PC hi cfg0 (.forceDisconnect "close-timeout") s) :
    FinC0 hi cfg0 env0 ((do closeSocket; yieldEv (.disconnected "close-timeout" false) : M Unit) s).state := by
  obtain ⟨⟨hc0, ct, hct, hge⟩, hncl, hhi⟩ := p.2.2.2.1 rfl
  obtain ⟨s1, e1⟩ := closeSocket_ok s
  rw [bind_ok e1]
  have q1 : QuietP s s1 := quietP_closeSocket.ok e1
  have c1 : CQ s s1 := cq_closeSocket.ok e1
  have hb1 : Base cfg0 env0 s1 := hb.quiet q1
  have hw1 : CW hi cfg0 s1 := hw.of_cq c1 (cl_closeSocket.ok e1).inv
  obtain ⟨l, el, nl⟩ := c1.trace
  have hs1 : sessOf s1.trace = sessOf s.trace := by rw [el, sessOf_append_cN l _ nl]
  have hcl1 : closedSeen s1.trace = false := by
    rw [closedSeen_ext ((ext_closeSocket timers_noClosed).ok e1)]; exact hncl
  have hct1 : s1.sentCloseTime = some ct := by rw [c1.sct]; exact hct
  -- the Disconnected event is put in front of the application
  have h2 : FinC0 hi cfg0 env0 (pushEv (.disconnected "close-timeout" false) s1) := by
    refine ⟨⟨hb1.cfg, hb1.env, hb1.now, hb1.start, hb1.rdy⟩,
      ⟨?_, ?_, fun hr => (cl_pushEv _ s1).inv (hw1.cinv hr), ?_, ?_, ?_⟩⟩
    · intro ct' hct'
      exact armed_append _ ct' [.ev (.disconnected "close-timeout" false)] _ (hw1.arm ct' hct')
    · intro hso
      rcases hw1.sk hso with h5 | h5
      · exact Or.inl (List.mem_cons_of_mem _ h5)
      · exact Or.inr (by simpa [connSeen, isConnEv, pushEv] using h5)
    · intro hr ct' hw'
      have hw'' : CloseWr ct' s1.trace := by
        rcases (closeWr_cons_iff ct' (.ev (.disconnected "close-timeout" false)) s1.trace).mp hw' with ⟨hx, _⟩ | hx
        · cases hx
        · exact hx
      exact hw1.cw hr ct' hw''
    · show CtoOK _ _ _ _ (.ev (.disconnected "close-timeout" false) :: s1.trace)
      rw [ctoOK_cons]
      refine ⟨fun _ => ⟨rfl, hc0, hcl1, ct, hw1.arm ct hct1, by rw [hs1]; exact hge, ?_⟩, hw1.cto⟩
      intro hhi'
      rw [hs1]; exact hhi hhi' ct hct
    · show TickC _ _ _ _ (.ev (.disconnected "close-timeout" false) :: s1.trace)
      rw [tickC_cons_none _ _ _ _ _ rfl]
      exact hw1.tok
  rw [yieldEv_eq]
  exact fin_rc (sl := 0) (fun sl => rc_doActs _) _ h2

theorem XC.fin {x : Exn} {s : Sys} (h : XC hi cfg0 env0 x s) : FinC0 hi cfg0 env0 s := ⟨h.1, h.2.1⟩

theorem fin_endSome (x : Exn) (s : Sys) (h : XC hi cfg0 env0 x s) :
    FinC0 hi cfg0 env0 (onLoopEnd (some x) s).state := by
  cases x with
  | forceDisconnect k =>
    show FinC0 hi cfg0 env0 ((do closeSocket; yieldEv (.disconnected k false) : M Unit) s).state
    by_cases hk : k = "close-timeout"
    · subst hk; exact fin_ctoYield s h.1 h.2.1 h.2.2
    · exact fin_closeYield k false hk s h.fin
  | socketFail k =>
    exact fin_closeYield k false (boring_ne_cto (h.2.2.2.2.2.2 k (Or.inr rfl)) k (Or.inr rfl)) s h.fin
  | other k =>
    exact fin_closeYield k false (boring_ne_cto (h.2.2.2.2.2.2 k (Or.inl rfl)) k (Or.inl rfl)) s h.fin
  | protocol m => exact fin_closeYield "error" false (by decide) s h.fin
  | critical m => exact fin_closeYield "error" false (by decide) s h.fin
  | parse m => exact fin_closeYield "error" false (by decide) s h.fin
  | genExit => exact h.fin
  | outer y => exact h.fin
  | scriptEnd => exact h.fin

/-! ### the run ends once a `selector.wait` has returned at or after the close deadline -/

def ctoD : Obs := .ev (.disconnected "close-timeout" false)
def ptoD : Obs := .ev (.disconnected "ping-timeout" false)

/-- the loop lived through a `selector.wait` that ended (clock mark `n`) at or after the close
    deadline `ct + c` of a Close frame handed to `sendall` before it (no Ready since) -/
def PastC (c : Nat) (tr : List Obs) : Prop :=
  ∃ l n t ct, tr = l ++ .tick n :: t ∧ CloseWr ct t ∧ (∀ o ∈ l, o.tmIsReady = false) ∧
    ct + c ≤ sessOf (.tick n :: t)

omit hi cfg0 env0 in
theorem pastC_of_cons {c : Nat} {o : Obs} {tr : List Obs} (h : o.tmTickVal = none) (hp : PastC c (o :: tr)) :
    PastC c tr := by
  obtain ⟨l, n, t, ct, e, hw, hr, hge⟩ := hp
  cases l with
  | nil =>
    simp only [List.nil_append, List.cons.injEq] at e
    rw [e.1] at h; cases h
  | cons x l2 =>
    simp only [List.cons_append, List.cons.injEq] at e
    exact ⟨l2, n, t, ct, e.2, hw, fun o ho => hr o (List.mem_cons_of_mem _ ho), hge⟩

omit hi cfg0 env0 in
theorem pastC_of_append {c : Nat} (l : List Obs) {tr : List Obs} (hl : ∀ o ∈ l, Obs.tmNeutral o = true)
    (hp : PastC c (l ++ tr)) : PastC c tr := by
  induction l with
  | nil => exact hp
  | cons o r ih =>
    have h1 := ((neutral_iff o).mp (hl o List.mem_cons_self)).1
    exact ih (fun o ho => hl o (List.mem_cons_of_mem _ ho)) (pastC_of_cons h1 hp)

/-- clock marks never run backwards -/
def ClockMono : List Obs → Prop
  | [] => True
  | o :: t => (∀ n, o.tmTickVal = some n → clockOf t ≤ n) ∧ ClockMono t

omit hi cfg0 env0 in
theorem tickC_clockMono (R : Prop) (hi : Bool) (D c : Nat) (tr : List Obs) (h : TickC R hi D c tr) : ClockMono tr := by
  induction tr with
  | nil => trivial
  | cons o t ih => exact ⟨fun n hn => (h.1 n hn).1, ih h.2⟩

omit hi cfg0 env0 in
/-- session time does not decrease along a trace without Ready (clock marks are monotone) -/
theorem sessOf_mono' (l t : List Obs) (h : ClockMono (l ++ t))
    (hr : ∀ o ∈ l, o.tmIsReady = false) : sessOf t ≤ sessOf (l ++ t) := by
  induction l with
  | nil => exact Nat.le_refl _
  | cons o r ih =>
    have ih' := ih h.2 (fun o ho => hr o (List.mem_cons_of_mem _ ho))
    have hro := hr o List.mem_cons_self
    rw [List.cons_append]
    cases hv : o.tmTickVal with
    | none => rw [sessOf_cons_of _ hv hro]; exact ih'
    | some n =>
      have hcl : clockOf (r ++ t) ≤ n := h.1 n hv
      have e1 : clockOf (o :: (r ++ t)) = n := by simp [clockOf, hv]
      have e2 : readyAt (o :: (r ++ t)) = readyAt (r ++ t) := readyAt_cons_of _ hro
      have : sessOf (r ++ t) ≤ sessOf (o :: (r ++ t)) := by
        unfold sessOf
        rw [e1, e2]
        cases readyAt (r ++ t) with
        | none => exact Nat.le_refl _
        | some t0 => simp only; omega
      omega

omit hi cfg0 env0 in
theorem sessOf_mono (R : Prop) (hi : Bool) (D c : Nat) (l t : List Obs) (h : TickC R hi D c (l ++ t))
    (hr : ∀ o ∈ l, o.tmIsReady = false) : sessOf t ≤ sessOf (l ++ t) :=
  sessOf_mono' l t (tickC_clockMono _ _ _ _ _ h) hr

/-- with the close timer not overdue, no such `selector.wait` has happened -/
theorem not_pastC {s : Sys} (hw : CW hi cfg0 s) (hn : Ndue cfg0 0 s) (hr : ReqOk0 cfg0)
    (hc0 : cfg0.closeTimeout ≠ 0) : ¬ PastC cfg0.closeTimeout s.trace := by
  intro ⟨l, n, t, ct, e, hwr, hnr, hge⟩
  have h1 : CloseWr ct s.trace := by
    rw [e]; exact closeWr_append ct l _ (closeWr_append ct [.tick n] t hwr)
  have h2 := hn hc0 ct (hw.cw hr ct h1)
  have h3 := hw.tok
  rw [e] at h3 h2
  have := sessOf_mono _ _ _ _ l _ h3 hnr
  omega

/-- **the connection is over once the loop has lived through a wait that ended at or after the close
    deadline**: the forced `Disconnected('close-timeout')` was yielded — unless the ping timeout struck
    at the same `_regular()` (it is checked first) or the application abandoned the iterator there
    (no `Disconnected` at all) -/
def EndC (cfg0 : Cfg) (tr : List Obs) : Prop :=
  ReqOk0 cfg0 → cfg0.closeTimeout ≠ 0 → PastC cfg0.closeTimeout tr → ctoD ∈ tr ∨ ptoD ∈ tr ∨ discAny tr = false

def FinC (hi : Bool) (cfg0 : Cfg) (env0 : List EnvStep) (s : Sys) : Prop := FinC0 hi cfg0 env0 s ∧ EndC cfg0 s.trace

omit hi env0 in
theorem endC_of_not_past {tr : List Obs} (h : ReqOk0 cfg0 → cfg0.closeTimeout ≠ 0 → ¬ PastC cfg0.closeTimeout tr) :
    EndC cfg0 tr := fun hr hc0 hp => absurd hp (h hr hc0)

omit hi env0 in
/-- steps after the terminal event (socket / selector release, the INCOMPLETE mark) -/
theorem endC_cons {o : Obs} {tr : List Obs} (h1 : o.tmTickVal = none) (h2 : isDiscEv o = false) (h : EndC cfg0 tr) :
    EndC cfg0 (o :: tr) := by
  intro hr hc0 hp
  rcases h hr hc0 (pastC_of_cons h1 hp) with h | h | h
  · exact Or.inl (List.mem_cons_of_mem _ h)
  · exact Or.inr (Or.inl (List.mem_cons_of_mem _ h))
  · exact Or.inr (Or.inr (by simp only [discAny, List.any_cons, h2, Bool.false_or]; exact h))

theorem IC.endC {s : Sys} (h : IC hi cfg0 env0 s) : EndC cfg0 s.trace :=
  endC_of_not_past (fun hr hc0 => not_pastC h.1.w h.1.n hr hc0)

/-- `closeSocket; yield Disconnected(k)` when no overdue wait has happened -/
theorem endC_closeYield_quiet (k : String) (g : Bool) (s : Sys) (hw : CW hi cfg0 s) (hn : Ndue cfg0 0 s) :
    EndC cfg0 ((do closeSocket; yieldEv (.disconnected k g) : M Unit) s).state.trace := by
  obtain ⟨l, e, n⟩ := (quietP_closeThenYield (.disconnected k g) rfl s).trace
  rw [e]
  exact endC_of_not_past (fun hr hc0 hp => not_pastC hw hn hr hc0 (pastC_of_append l n hp))

/-- `closeSocket; yield Disconnected(k)`: the event is on the trace afterwards -/
theorem closeYield_mem (e : Event) (s : Sys) :
    Obs.ev e ∈ ((do closeSocket; yieldEv e : M Unit) s).state.trace := by
  obtain ⟨s1, e1⟩ := closeSocket_ok s
  rw [bind_ok e1]
  obtain ⟨l, el⟩ := (yieldEv_step_from_push e s1).traceExt
  rw [el]
  exact List.mem_append_right _ List.mem_cons_self

theorem endC_endSome (x : Exn) (s : Sys) (h : XC hi cfg0 env0 x s) (hno : ∀ z, x ≠ .outer z) :
    EndC cfg0 (onLoopEnd (some x) s).state.trace := by
  have hcore : x.core = x := by
    cases x <;> first | rfl | exact absurd rfl (hno _)
  have hp := h.2.2
  rw [hcore] at hp
  have quietCase : ∀ k, (x.boring = true ∨ x = .scriptEnd ∨
      ∃ k', x = .forceDisconnect k' ∧ k' ≠ "close-timeout" ∧ k' ≠ "ping-timeout") →
      EndC cfg0 ((do closeSocket; yieldEv (.disconnected k false) : M Unit) s).state.trace :=
    fun k hx => endC_closeYield_quiet k false s h.2.1 (hp.2.2.1 hx).1
  cases x with
  | forceDisconnect k =>
    show EndC cfg0 ((do closeSocket; yieldEv (.disconnected k false) : M Unit) s).state.trace
    by_cases hk : k = "close-timeout"
    · subst hk
      exact fun _ _ _ => Or.inl (closeYield_mem _ s)
    · by_cases hk2 : k = "ping-timeout"
      · subst hk2
        exact fun _ _ _ => Or.inr (Or.inl (closeYield_mem _ s))
      · exact quietCase k (Or.inr (Or.inr ⟨k, rfl, hk, hk2⟩))
  | socketFail k => exact quietCase k (Or.inl (hp.2.2.2.2 k (Or.inr rfl)))
  | other k => exact quietCase k (Or.inl (hp.2.2.2.2 k (Or.inl rfl)))
  | protocol m => exact quietCase "error" (Or.inl rfl)
  | critical m => exact quietCase "error" (Or.inl rfl)
  | parse m => exact quietCase "error" (Or.inl rfl)
  | genExit => exact fun _ _ _ => Or.inr (Or.inr hp.1)
  | outer y => exact absurd rfl (hno y)
  | scriptEnd =>
    exact endC_of_not_past (fun hr hc0 => not_pastC h.2.1 (hp.2.2.1 (Or.inr (Or.inl rfl))).1 hr hc0)

theorem ic_top : TopX (IC hi cfg0 env0) (XC hi cfg0 env0) (FinC hi cfg0 env0) env0 where
  envEq := fun s hs => hs.1.b.env
  iFin := fun s hs => ⟨⟨hs.1.b, hs.1.w⟩, hs.endC⟩
  xFin := fun s hx => ⟨hx.fin, fun _ _ _ => Or.inr (Or.inr hx.2.2.1)⟩
  yieldTop := by
    intro e he
    rcases he with rfl | ⟨k, rfl⟩
    · exact ic_yieldEv _ rfl ⟨rfl, rfl⟩
    · exact ic_yieldEv _ rfl ⟨rfl, rfl⟩
  yieldConn := fun p s hs hso _ _ _ => ic_yieldConn p s hs hso
  sockSet := fun s hs => ⟨hs.1.sockSet, hs.2.cl, hs.2.nd⟩
  writeReq := by
    intro s hs _ _
    refine ⟨hs.1.writeReq, hs.2.step (step_write _ _ s) (ext_write timers_noClosed _ _ s)⟩
  selSet := fun b s hs => ⟨hs.1.same rfl rfl rfl rfl rfl rfl rfl rfl rfl rfl, hs.2.cl, hs.2.nd⟩
  endNone := fun s hs => ⟨fin_closeYield "closed" true (by decide) s ⟨hs.1.b, hs.1.w⟩,
    endC_closeYield_quiet "closed" true s hs.1.w hs.1.n⟩
  endSome := fun x s hx hno => ⟨fin_endSome x s hx, endC_endSome x s hx hno⟩
  finSel := by
    intro s h
    refine ⟨fin_rc (sl := 0) (fun sl => rc_of_quiet quietP_selClose cq_selClose cl_selClose) s h.1, ?_⟩
    unfold selClose
    split
    · exact endC_cons rfl rfl h.2
    · exact h.2
  finSock := by
    intro s h
    refine ⟨fin_rc (sl := 0) (fun sl => rc_closeSocket) s h.1, ?_⟩
    unfold closeSocket
    split
    · exact endC_cons rfl rfl h.2
    · exact h.2
  finInc := by
    intro s h'
    refine ⟨?_, endC_cons rfl rfl h'.2⟩
    have h := h'.1
    have := h.ci
    have q : QuietP s { s with trace := .incomplete :: s.trace } := by quiet_leaf
    have c : CQ s { s with trace := .incomplete :: s.trace } := CQ.one rfl rfl rfl rfl
    have k : Cl s { s with trace := .incomplete :: s.trace } := Cl.of_ext [.incomplete] rfl rfl id
    have := this.quiet q c k
    exact ⟨this.b, this.w⟩


theorem ic_init (cfg : Cfg) (react : React) (env : List EnvStep) :
    IC hi cfg env { cfg := cfg, react := react, env := env } := by
  refine ⟨⟨⟨rfl, rfl, rfl, rfl, by simp⟩, ⟨?_, fun _ => Or.inr rfl, fun _ => ⟨rfl, fun h => (by cases h)⟩, ?_, trivial,
    trivial⟩, ?_⟩, fun h => (by cases h), rfl⟩
  · intro ct h; cases h
  · intro _ ct ⟨l, o, t, e, _⟩
    cases l <;> cases e
  · intro _ ct h; cases h

/-- **the close-timer facts hold at the end of every connection** (any configuration, application
    and environment script; with `hi` — the upper bound — under the cycle bound) -/
theorem finC_runAll (hi : Bool) (cfg : Cfg) (react : React) (env : List EnvStep)
    (h : hi = true → EnvBound cfg.poll env) : FinC hi cfg env (runAll cfg react env) :=
  topx_runAll ic_leaves ic_top (ic_loop env h) cfg react (ic_init cfg react env)

end LoopC


/-! ## Part 9: the ping timeout — what the trace says -/

/-- the newest event on a trace -/
def newestEv : List Obs → Option Event
  | [] => none
  | .ev e :: _ => some e
  | _ :: t => newestEv t

/-- **the Unresponsive rule with its upper bound**: every Unresponsive event happens after Ready with
    the ping timeout enabled, more than `pt` after the newest sign of life, and — when `hi` — at most
    `pt + D` after it -/
def UnrespHi (pt D : Nat) (hi : Bool) : List Obs → Prop
  | [] => True
  | o :: t => (o = .ev .unresponsive → pt ≠ 0 ∧ readyAt t ≠ none ∧ lastAlive t + pt < sessOf t ∧
      (hi = true → sessOf t ≤ lastAlive t + pt + D)) ∧ UnrespHi pt D hi t

/-- **nothing but `Disconnected('ping-timeout', graceful=False)` follows Unresponsive** -/
def UNext : List Obs → Prop
  | [] => True
  | o :: t => (∀ e, o = .ev e → newestEv t = some .unresponsive → e = .disconnected "ping-timeout" false) ∧ UNext t

/-- **the loop never goes back to `selector.wait` with the ping timeout overdue** (and clock marks
    do not run backwards) -/
def TickU (pt : Nat) : List Obs → Prop
  | [] => True
  | o :: t => (∀ n, o.tmTickVal = some n → clockOf t ≤ n ∧
      (pt ≠ 0 → readyAt t ≠ none → sessOf t ≤ lastAlive t + pt)) ∧ TickU pt t

theorem unrespHi_cons (pt D : Nat) (hi : Bool) (o : Obs) (t : List Obs) :
    UnrespHi pt D hi (o :: t) ↔ (o = .ev .unresponsive → pt ≠ 0 ∧ readyAt t ≠ none ∧ lastAlive t + pt < sessOf t ∧
      (hi = true → sessOf t ≤ lastAlive t + pt + D)) ∧ UnrespHi pt D hi t := Iff.rfl

theorem unrespHi_cons_ne (pt D : Nat) (hi : Bool) {o : Obs} (t : List Obs) (h : o ≠ .ev .unresponsive) :
    UnrespHi pt D hi (o :: t) ↔ UnrespHi pt D hi t :=
  ⟨fun x => x.2, fun x => ⟨fun e => absurd e h, x⟩⟩

theorem unext_cons (o : Obs) (t : List Obs) :
    UNext (o :: t) ↔ (∀ e, o = .ev e → newestEv t = some .unresponsive → e = .disconnected "ping-timeout" false) ∧
      UNext t := Iff.rfl

theorem tickU_cons (pt : Nat) (o : Obs) (t : List Obs) :
    TickU pt (o :: t) ↔ (∀ n, o.tmTickVal = some n → clockOf t ≤ n ∧
      (pt ≠ 0 → readyAt t ≠ none → sessOf t ≤ lastAlive t + pt)) ∧ TickU pt t := Iff.rfl

theorem tickU_cons_none (pt : Nat) {o : Obs} (t : List Obs) (h : o.tmTickVal = none) :
    TickU pt (o :: t) ↔ TickU pt t := by
  rw [tickU_cons, h]
  exact ⟨fun x => x.2, fun x => ⟨fun n hn => (by cases hn), x⟩⟩

theorem ne_unresp_of_neutral {o : Obs} (h : o.tmNeutral = true) : o ≠ .ev .unresponsive := by
  intro e; subst e; cases h

theorem unrespHi_suffix (pt D : Nat) (hi : Bool) (l t : List Obs) (h : UnrespHi pt D hi (l ++ t)) :
    UnrespHi pt D hi t := by
  induction l with
  | nil => exact h
  | cons o r ih => exact ih h.2

theorem unext_suffix (l t : List Obs) (h : UNext (l ++ t)) : UNext t := by
  induction l with
  | nil => exact h
  | cons o r ih => exact ih h.2

theorem tickU_suffix (pt : Nat) (l t : List Obs) (h : TickU pt (l ++ t)) : TickU pt t := by
  induction l with
  | nil => exact h
  | cons o r ih => exact ih h.2

theorem newestEv_cons_nonEv {o : Obs} (t : List Obs) (h : ∀ e, o ≠ .ev e) : newestEv (o :: t) = newestEv t := by
  cases o <;> first | rfl | exact absurd rfl (h _)

/-- appending entries none of which is an Unresponsive event, on a trace whose newest event is not
    Unresponsive -/
theorem unext_append (l t : List Obs) (hl : ∀ o ∈ l, o ≠ .ev .unresponsive) (h : UNext t)
    (hn : newestEv t ≠ some .unresponsive) :
    UNext (l ++ t) ∧ newestEv (l ++ t) ≠ some .unresponsive := by
  induction l with
  | nil => exact ⟨h, hn⟩
  | cons o r ih =>
    obtain ⟨h1, h2⟩ := ih (fun o ho => hl o (List.mem_cons_of_mem _ ho))
    rw [List.cons_append]
    refine ⟨⟨fun e _ hx => absurd hx h2, h1⟩, ?_⟩
    cases o with
    | ev e =>
      show some e ≠ some .unresponsive
      intro hx
      cases hx
      exact hl _ List.mem_cons_self rfl
    | _ => exact h2

theorem unrespHi_append (pt D : Nat) (hi : Bool) (l t : List Obs) (hl : ∀ o ∈ l, o ≠ .ev .unresponsive) :
    UnrespHi pt D hi (l ++ t) ↔ UnrespHi pt D hi t := by
  induction l with
  | nil => exact Iff.rfl
  | cons o r ih =>
    rw [List.cons_append, unrespHi_cons_ne _ _ _ _ (hl o List.mem_cons_self)]
    exact ih (fun o ho => hl o (List.mem_cons_of_mem _ ho))

theorem tickU_append (pt : Nat) (l t : List Obs) (hl : ∀ o ∈ l, o.tmTickVal = none) :
    TickU pt (l ++ t) ↔ TickU pt t := by
  induction l with
  | nil => exact Iff.rfl
  | cons o r ih =>
    rw [List.cons_append, tickU_cons_none _ _ (hl o List.mem_cons_self)]
    exact ih (fun o ho => hl o (List.mem_cons_of_mem _ ho))

/-- the ping-timeout facts that hold in **every** state of a connection -/
structure UW (hi : Bool) (cfg0 : Cfg) (s : Sys) : Prop where
  alive : s.lastPong = lastAlive s.trace
  uhi : UnrespHi cfg0.pingTimeout cfg0.poll hi s.trace
  unext : UNext s.trace
  tok : TickU cfg0.pingTimeout s.trace
  nd : discAny s.trace = false

/-- **the ping timeout is not overdue** by more than the slack `sl` -/
def Ufresh (cfg0 : Cfg) (sl : Nat) (s : Sys) : Prop :=
  cfg0.pingTimeout ≠ 0 → readyAt s.trace ≠ none → sessOf s.trace ≤ lastAlive s.trace + cfg0.pingTimeout + sl

/-- the newest event is not Unresponsive -/
def NU (s : Sys) : Prop := newestEv s.trace ≠ some .unresponsive

structure UI (hi : Bool) (cfg0 : Cfg) (env0 : List EnvStep) (sl : Nat) (s : Sys) : Prop where
  b : Base cfg0 env0 s
  w : UW hi cfg0 s
  f : Ufresh cfg0 sl s
  nu : NU s

def RU (hi : Bool) (cfg0 : Cfg) (env0 : List EnvStep) (sl : Nat) (s s' : Sys) : Prop :=
  UI hi cfg0 env0 sl s → UI hi cfg0 env0 sl s'

section USec
variable {hi : Bool} {cfg0 : Cfg} {env0 : List EnvStep} {sl : Nat}

theorem ru_po : PO (RU hi cfg0 env0 sl) where
  refl _ := id
  trans h1 h2 := fun h => h2 (h1 h)

theorem discAny_append_neutral (l t : List Obs) (h : ∀ o ∈ l, Obs.tmNeutral o = true)
    (hd : ∀ o ∈ l, isDiscEv o = false) : discAny (l ++ t) = discAny t := by
  unfold discAny
  rw [List.any_append]
  have : l.any isDiscEv = false := by
    rw [List.any_eq_false]; intro o ho; simp [hd o ho]
  rw [this, Bool.false_or]

/-- a step that is quiet for the timer invariant and yields no `Disconnected` keeps the ping-timeout
    invariant -/
theorem UI.quiet {s s' : Sys} (h : UI hi cfg0 env0 sl s) (q : QuietP s s') (e : Ext NoDiscEv s s') :
    UI hi cfg0 env0 sl s' := by
  obtain ⟨l, el, n⟩ := q.trace
  have hl : ∀ o ∈ l, o ≠ .ev .unresponsive := fun o ho => ne_unresp_of_neutral (n o ho)
  have ht : ∀ o ∈ l, o.tmTickVal = none := fun o ho => ((neutral_iff o).mp (n o ho)).1
  obtain ⟨u1, u2⟩ := unext_append l s.trace hl h.w.unext h.nu
  refine ⟨h.b.quiet q, ⟨?_, ?_, ?_, ?_, ?_⟩, ?_, ?_⟩
  · rw [q.lastPong, el, lastAlive_append_neutral l _ n]; exact h.w.alive
  · rw [el, unrespHi_append _ _ _ l _ hl]; exact h.w.uhi
  · rw [el]; exact u1
  · rw [el, tickU_append _ l _ ht]; exact h.w.tok
  · rw [discAny_ext e]; exact h.w.nd
  · intro hp hr
    rw [el, readyAt_append_neutral l _ n] at hr
    rw [el, sessOf_append_neutral l _ n, lastAlive_append_neutral l _ n]
    exact h.f hp hr
  · show newestEv s'.trace ≠ _
    rw [el]; exact u2

theorem ru_of_quiet {m : M α} (hq : Spec QuietP m) (he : Spec (Ext NoDiscEv) m) : Spec (RU hi cfg0 env0 sl) m :=
  fun s h => h.quiet (hq s) (he s)

/-- a state update that touches nothing the invariant looks at -/
theorem UI.same {s s' : Sys} (h : UI hi cfg0 env0 sl s) (e1 : s'.cfg = s.cfg) (e2 : s'.env = s.env)
    (e3 : s'.now = s.now) (e4 : s'.startTime = s.startTime) (e5 : s'.ready = s.ready)
    (e6 : s'.lastPong = s.lastPong) (e10 : s'.trace = s.trace) : UI hi cfg0 env0 sl s' := by
  refine ⟨⟨e1.trans h.b.cfg, e2.trans h.b.env, by rw [e3, e10]; exact h.b.now, by rw [e4, e10]; exact h.b.start,
    by rw [e5, e4]; exact h.b.rdy⟩, ⟨by rw [e6, e10]; exact h.w.alive, by rw [e10]; exact h.w.uhi,
    by rw [e10]; exact h.w.unext, by rw [e10]; exact h.w.tok, by rw [e10]; exact h.w.nd⟩, ?_, ?_⟩
  · unfold Ufresh; rw [e10]; exact h.f
  · unfold NU; rw [e10]; exact h.nu

end USec


/-! ## Part 10: the ping-timeout invariant through every step -/

section USteps
variable {hi : Bool} {cfg0 : Cfg} {env0 : List EnvStep} {sl : Nat}

theorem lastAlive_cons_of {o : Obs} (t : List Obs) (h1 : o.tmIsReady = false) (h2 : o.tmIsPong = false) :
    lastAlive (o :: t) = lastAlive t := by simp [lastAlive, h1, h2]

/-- handing over any event but Ready, Pong, Unresponsive, Disconnected -/
theorem UI.pushEv {s : Sys} (h : UI hi cfg0 env0 sl s) (e : Event) (h1 : (Obs.ev e).tmIsReady = false)
    (h2 : (Obs.ev e).tmIsPong = false) (h3 : e ≠ .unresponsive) (h4 : isDiscEv (.ev e) = false) :
    UI hi cfg0 env0 sl (pushEv e s) := by
  have hs : sessOf (.ev e :: s.trace) = sessOf s.trace := sessOf_cons_of _ rfl h1
  have hr : readyAt (.ev e :: s.trace) = readyAt s.trace := readyAt_cons_of _ h1
  have ha : lastAlive (.ev e :: s.trace) = lastAlive s.trace := lastAlive_cons_of _ h1 h2
  have hne : Obs.ev e ≠ .ev .unresponsive := fun hx => h3 (by cases hx; rfl)
  refine ⟨⟨h.b.cfg, h.b.env, ?_, ?_, h.b.rdy⟩, ⟨?_, ?_, ?_, ?_, ?_⟩, ?_, ?_⟩
  · show s.now = clockOf (.ev e :: s.trace)
    rw [clockOf_cons_of _ rfl]; exact h.b.now
  · show s.startTime = readyAt (.ev e :: s.trace)
    rw [hr]; exact h.b.start
  · show s.lastPong = lastAlive (.ev e :: s.trace)
    rw [ha]; exact h.w.alive
  · show UnrespHi _ _ _ (.ev e :: s.trace)
    rw [unrespHi_cons_ne _ _ _ _ hne]; exact h.w.uhi
  · show UNext (.ev e :: s.trace)
    exact ⟨fun _ _ hx => absurd hx h.nu, h.w.unext⟩
  · show TickU _ (.ev e :: s.trace)
    rw [tickU_cons_none _ _ rfl]; exact h.w.tok
  · show discAny (.ev e :: s.trace) = false
    simp only [discAny, List.any_cons, h4, Bool.false_or]; exact h.w.nd
  · intro hp hrr
    show sessOf (.ev e :: s.trace) ≤ lastAlive (.ev e :: s.trace) + _ + _
    rw [hs, ha]
    exact h.f hp (by rw [← hr]; exact hrr)
  · show some e ≠ some .unresponsive
    intro hx; cases hx; exact h3 rfl

theorem ru_doActs (as : List Act) : Spec (RU hi cfg0 env0 sl) (doActs as) :=
  ru_of_quiet (quietP_doActs as) (ext_doActs timers_noDisc as)

theorem ru_yieldEv (e : Event) (h1 : (Obs.ev e).tmIsReady = false) (h2 : (Obs.ev e).tmIsPong = false)
    (h3 : e ≠ .unresponsive) (h4 : isDiscEv (.ev e) = false) : Spec (RU hi cfg0 env0 sl) (yieldEv e) := by
  intro s hs
  rw [yieldEv_eq]
  exact ru_doActs _ _ (hs.pushEv e h1 h2 h3 h4)

theorem ru_checkPoll : Spec (RU hi cfg0 env0 sl) checkPoll := by
  unfold checkPoll
  refine spec_getS_bind ru_po (fun s => ?_)
  simp only []
  splits
  all_goals first
    | exact spec_pure ru_po _
    | exact spec_bind ru_po (spec_modS (fun s h => h.same rfl rfl rfl rfl rfl rfl rfl))
        (fun _ => ru_yieldEv _ rfl rfl (fun h => by cases h) rfl)

theorem ru_checkAutoPing : Spec (RU hi cfg0 env0 sl) checkAutoPing :=
  ru_of_quiet quietP_checkAutoPing (ext_checkAutoPing timers_noDisc)

theorem ru_checkCloseTimeout : Spec (RU hi cfg0 env0 sl) checkCloseTimeout :=
  ru_of_quiet quietP_checkCloseTimeout (ext_checkCloseTimeout timers_noDisc)

theorem ru_onDisconnect : Spec (RU hi cfg0 env0 sl) onDisconnect :=
  ru_of_quiet quietP_onDisconnect (ext_onDisconnect timers_noDisc)

theorem ru_closeSocket : Spec (RU hi cfg0 env0 sl) closeSocket :=
  ru_of_quiet quietP_closeSocket (ext_closeSocket timers_noDisc)

theorem ru_wsClose (c : Option Nat) (r : Arg) : Spec (RU hi cfg0 env0 sl) (wsClose c r) :=
  ru_of_quiet (quietP_wsClose c r) (ext_wsClose timers_noDisc c r)

/-- `selector.wait` returned after `dt` ticks -/
theorem UI.tick {s : Sys} (h : UI hi cfg0 env0 0 s) (dt : Nat) : UI hi cfg0 env0 dt (tick s dt) := by
  by_cases h0 : dt = 0
  · subst h0; rw [tick_zero']; exact h
  · have hb := h.b.tick dt
    rw [tick_pos s dt h0] at hb ⊢
    refine ⟨hb, ⟨?_, ?_, ?_, ?_, ?_⟩, ?_, ?_⟩
    · show s.lastPong = lastAlive (.tick (s.now + dt) :: s.trace)
      rw [lastAlive_tick]; exact h.w.alive
    · show UnrespHi _ _ _ (.tick (s.now + dt) :: s.trace)
      rw [unrespHi_cons_ne _ _ _ _ (fun hx => by cases hx)]; exact h.w.uhi
    · show UNext (.tick (s.now + dt) :: s.trace)
      exact ⟨fun e hx => (by cases hx), h.w.unext⟩
    · show TickU _ (.tick (s.now + dt) :: s.trace)
      rw [tickU_cons]
      refine ⟨?_, h.w.tok⟩
      intro n hn
      cases hn
      rw [← h.b.now]
      exact ⟨by omega, fun hp hr => by have := h.f hp hr; omega⟩
    · show discAny (.tick (s.now + dt) :: s.trace) = false
      simp only [discAny, List.any_cons, isDiscEv, Bool.false_or]; exact h.w.nd
    · intro hp hr
      show sessOf (.tick (s.now + dt) :: s.trace) ≤ lastAlive (.tick (s.now + dt) :: s.trace) + _ + dt
      rw [lastAlive_tick]
      have h1 := h.f hp (by rw [← readyAt_tick (s.now + dt) s.trace]; exact hr)
      have h2 := (sessOf_tick h.b dt).2
      omega
    · exact h.nu

/-- the newest event is Unresponsive: the ping timeout has fired -/
def LastU (s : Sys) : Prop := newestEv s.trace = some .unresponsive

theorem newestEv_keeps {s s' : Sys} (k : Monitor.Keeps s s') : newestEv s'.trace = newestEv s.trace := by
  obtain ⟨l, e, n⟩ := k.trace
  rw [e]
  clear e
  induction l with
  | nil => rfl
  | cons o r ih =>
    have ho := n o List.mem_cons_self
    rw [List.cons_append, newestEv_cons_nonEv _ (fun e he => by subst he; cases ho)]
    exact ih (fun o ho => n o (List.mem_cons_of_mem _ ho))

/-- outcome of `_check_ping_timeout` from a state satisfying the invariant up to slack `sl` -/
def PtOutU (hi : Bool) (cfg0 : Cfg) (env0 : List EnvStep) (sl : Nat) : Res Unit → Prop
  | .ok _ s' => UI hi cfg0 env0 0 s'
  | .err x s' => Base cfg0 env0 s' ∧ UW hi cfg0 s' ∧ LastU s' ∧ sl ≠ 0 ∧
      (x = .genExit ∨ x = .forceDisconnect "ping-timeout")

theorem checkPingTimeout_U {s : Sys} (h : UI hi cfg0 env0 sl s) (hsl : hi = true → sl ≤ cfg0.poll) :
    PtOutU hi cfg0 env0 sl (checkPingTimeout s) := by
  by_cases hd : pingTimeoutDue s
  · rw [checkPingTimeout_fires s hd]
    obtain ⟨hp, hgt⟩ := hd
    rw [h.b.cfg] at hp hgt
    rw [h.b.sess, h.w.alive] at hgt
    have hrdy : readyAt s.trace ≠ none := by
      intro hn
      have : sessOf s.trace = 0 := by unfold sessOf; rw [hn]
      omega
    have hsl0 : sl ≠ 0 := by
      have := h.f hp hrdy
      omega
    -- Unresponsive is put in front of the application
    have hpush : Base cfg0 env0 (Pong.pushEv .unresponsive s) ∧ UW hi cfg0 (Pong.pushEv .unresponsive s) ∧
        LastU (Pong.pushEv .unresponsive s) := by
      refine ⟨⟨h.b.cfg, h.b.env, h.b.now, h.b.start, h.b.rdy⟩, ⟨h.w.alive, ?_, ?_, ?_, ?_⟩, rfl⟩
      · show UnrespHi _ _ _ (.ev .unresponsive :: s.trace)
        rw [unrespHi_cons]
        refine ⟨fun _ => ⟨hp, hrdy, by omega, fun hhi => ?_⟩, h.w.uhi⟩
        have := h.f hp hrdy
        have := hsl hhi
        omega
      · show UNext (.ev .unresponsive :: s.trace)
        exact ⟨fun e he hx => absurd hx h.nu, h.w.unext⟩
      · show TickU _ (.ev .unresponsive :: s.trace)
        rw [tickU_cons_none _ _ rfl]; exact h.w.tok
      · show discAny (.ev .unresponsive :: s.trace) = false
        simp only [discAny, List.any_cons, isDiscEv, Bool.false_or]; exact h.w.nd
    obtain ⟨pb, pw, pl⟩ := hpush
    have q := quietP_doActs ((Pong.pushEv .unresponsive s).react (Pong.pushEv .unresponsive s).hist)
      (Pong.pushEv .unresponsive s)
    have k := Monitor.keeps_doActs ((Pong.pushEv .unresponsive s).react (Pong.pushEv .unresponsive s).hist)
      (Pong.pushEv .unresponsive s)
    have ex := ext_doActs timers_noDisc ((Pong.pushEv .unresponsive s).react (Pong.pushEv .unresponsive s).hist)
      (Pong.pushEv .unresponsive s)
    -- what the reaction keeps
    have keep : ∀ s2, QuietP (Pong.pushEv .unresponsive s) s2 → Monitor.Keeps (Pong.pushEv .unresponsive s) s2 →
        Ext NoDiscEv (Pong.pushEv .unresponsive s) s2 → Base cfg0 env0 s2 ∧ UW hi cfg0 s2 ∧ LastU s2 := by
      intro s2 q2 k2 e2
      obtain ⟨l, el, n⟩ := q2.trace
      have hl : ∀ o ∈ l, o ≠ .ev .unresponsive := fun o ho => ne_unresp_of_neutral (n o ho)
      have ht : ∀ o ∈ l, o.tmTickVal = none := fun o ho => ((neutral_iff o).mp (n o ho)).1
      obtain ⟨l', el', n'⟩ := k2.trace
      have hll : l' = l := List.append_cancel_right (el'.symm.trans el)
      subst hll
      refine ⟨pb.quiet q2, ⟨?_, ?_, ?_, ?_, ?_⟩, ?_⟩
      · rw [q2.lastPong, el, lastAlive_append_neutral l' _ n]; exact pw.alive
      · rw [el, unrespHi_append _ _ _ l' _ hl]; exact pw.uhi
      · rw [el]
        clear el el' q2 k2 e2 hl ht n
        induction l' with
        | nil => exact pw.unext
        | cons o r ih =>
          have ho := n' o List.mem_cons_self
          exact ⟨fun e he => (by subst he; cases ho), ih (fun o ho => n' o (List.mem_cons_of_mem _ ho))⟩
      · rw [el, tickU_append _ l' _ ht]; exact pw.tok
      · rw [discAny_ext e2]; exact pw.nd
      · show newestEv s2.trace = _
        rw [newestEv_keeps k2]; exact pl
    cases hdd : doActs ((Pong.pushEv .unresponsive s).react (Pong.pushEv .unresponsive s).hist)
        (Pong.pushEv .unresponsive s) with
    | ok u s2 =>
      rw [hdd] at q k ex
      rw [bind_ok ((yieldEv_eq .unresponsive s).trans hdd)]
      obtain ⟨a, b, c⟩ := keep s2 q k ex
      exact ⟨a, b, c, hsl0, Or.inr rfl⟩
    | err x s2 =>
      rw [hdd] at q k ex
      rw [bind_err ((yieldEv_eq .unresponsive s).trans hdd)]
      obtain ⟨a, b, c⟩ := keep s2 q k ex
      exact ⟨a, b, c, hsl0, Or.inl (Monitor.raises_doActs _ hdd).1⟩
  · rw [checkPingTimeout_quiet s hd]
    refine ⟨h.b, h.w, ?_, h.nu⟩
    intro hp hr
    have : ¬ (sessionTime s - s.lastPong > s.cfg.pingTimeout) := fun hx => hd ⟨by rw [h.b.cfg]; exact hp, hx⟩
    rw [h.b.cfg, h.b.sess, h.w.alive] at this
    omega

end USteps


section URegular
variable {hi : Bool} {cfg0 : Cfg} {env0 : List EnvStep}

theorem checkCloseTimeout_cases (s : Sys) :
    checkCloseTimeout s = .ok () s ∨ checkCloseTimeout s = .err (.forceDisconnect "close-timeout") s := by
  by_cases hd : closeTimeoutDue s
  · exact Or.inr (checkCloseTimeout_fires s hd)
  · exact Or.inl (checkCloseTimeout_quiet s hd)

/-- outcome of `_regular()` after a `selector.wait` of `dt` ticks, for the ping timeout -/
def RegOutU (hi : Bool) (cfg0 : Cfg) (env0 : List EnvStep) (dt : Nat) : Res Unit → Prop
  | .ok _ s' => UI hi cfg0 env0 0 s'
  | .err x s' => Base cfg0 env0 s' ∧ UW hi cfg0 s' ∧
      ((x = .genExit ∧ UI hi cfg0 env0 dt s') ∨
       ((x = .genExit ∨ x = .forceDisconnect "ping-timeout") ∧ LastU s' ∧ dt ≠ 0) ∨
       (x = .forceDisconnect "close-timeout" ∧ UI hi cfg0 env0 0 s'))

theorem regular_tick_U {s : Sys} (h : UI hi cfg0 env0 0 s) (dt : Nat) (hdt : hi = true → dt ≤ cfg0.poll) :
    RegOutU hi cfg0 env0 dt (regular (tick s dt)) := by
  have ht := h.tick dt
  generalize tick s dt = st at ht
  by_cases hr : st.ready = true
  · rw [regular_ready st hr]
    have h1 := ru_checkPoll st ht
    cases e1 : checkPoll st with
    | err x s1 =>
      rw [e1] at h1; simp only [Res.state_err] at h1; rw [bind_err e1]
      exact ⟨h1.b, h1.w, Or.inl ⟨checkPoll_err e1, h1⟩⟩
    | ok u1 s1 =>
      rw [e1] at h1; simp only [Res.state_ok] at h1; rw [bind_ok e1]
      have h2 := ru_checkAutoPing s1 h1
      cases e2 : checkAutoPing s1 with
      | err x s2 => exact absurd e2 checkAutoPing_not_err
      | ok u2 s2 =>
        rw [e2] at h2; simp only [Res.state_ok] at h2; rw [bind_ok e2]
        have h3 := checkPingTimeout_U h2 hdt
        cases e3 : checkPingTimeout s2 with
        | err x s3 =>
          rw [e3] at h3; rw [bind_err e3]
          obtain ⟨a, b, c, d0, d⟩ := h3
          exact ⟨a, b, Or.inr (Or.inl ⟨d, c, d0⟩)⟩
        | ok u3 s3 =>
          rw [e3] at h3; rw [bind_ok e3]
          have h3' : UI hi cfg0 env0 0 s3 := h3
          rcases checkCloseTimeout_cases s3 with e4 | e4
          · rw [e4]; exact h3'
          · rw [e4]; exact ⟨h3'.b, h3'.w, Or.inr (Or.inr ⟨rfl, h3'⟩)⟩
  · have hr' : st.ready = false := by simpa using hr
    rw [regular_not_ready st hr']
    refine ⟨ht.b, ht.w, ?_, ht.nu⟩
    intro hp hrr
    exact absurd (ht.b.notReady hr').1 hrr

theorem UI.ready {s : Sys} (h : UI hi cfg0 env0 0 s) (a : Option Http.Str) (b : Bool) :
    UI hi cfg0 env0 0 (Pong.pushEv (.ready a b) (readyState s)) := by
  refine ⟨⟨h.b.cfg, h.b.env, ?_, ?_, ?_⟩, ⟨?_, ?_, ?_, ?_, ?_⟩, ?_, ?_⟩
  · show s.now = clockOf (.ev (.ready a b) :: s.trace)
    rw [clockOf_ready]; exact h.b.now
  · show some s.now = readyAt (.ev (.ready a b) :: s.trace)
    rw [readyAt_ready, h.b.now]
  · show true = true ↔ some s.now ≠ none
    simp
  · show (0 : Nat) = lastAlive (.ev (.ready a b) :: s.trace)
    rw [lastAlive_ready]
  · show UnrespHi _ _ _ (.ev (.ready a b) :: s.trace)
    rw [unrespHi_cons_ne _ _ _ _ (fun hx => by cases hx)]; exact h.w.uhi
  · show UNext (.ev (.ready a b) :: s.trace)
    exact ⟨fun _ _ hx => absurd hx h.nu, h.w.unext⟩
  · show TickU _ (.ev (.ready a b) :: s.trace)
    rw [tickU_cons_none _ _ rfl]; exact h.w.tok
  · show discAny (.ev (.ready a b) :: s.trace) = false
    simp only [discAny, List.any_cons, isDiscEv, Bool.false_or]; exact h.w.nd
  · intro hp hrr
    show sessOf (.ev (.ready a b) :: s.trace) ≤ _
    rw [sessOf_ready]; omega
  · show some (Event.ready a b) ≠ some .unresponsive
    intro hx; cases hx

theorem UI.pong {s : Sys} (h : UI hi cfg0 env0 0 s) (d : Bytes) :
    UI hi cfg0 env0 0 (Pong.pushEv (.pong d) { s with lastPong := sessionTime s }) := by
  refine ⟨⟨h.b.cfg, h.b.env, h.b.now, h.b.start, h.b.rdy⟩, ⟨?_, ?_, ?_, ?_, ?_⟩, ?_, ?_⟩
  · show sessionTime s = lastAlive (.ev (.pong d) :: s.trace)
    rw [lastAlive_pong, h.b.sess]
  · show UnrespHi _ _ _ (.ev (.pong d) :: s.trace)
    rw [unrespHi_cons_ne _ _ _ _ (fun hx => by cases hx)]; exact h.w.uhi
  · show UNext (.ev (.pong d) :: s.trace)
    exact ⟨fun _ _ hx => absurd hx h.nu, h.w.unext⟩
  · show TickU _ (.ev (.pong d) :: s.trace)
    rw [tickU_cons_none _ _ rfl]; exact h.w.tok
  · show discAny (.ev (.pong d) :: s.trace) = false
    simp only [discAny, List.any_cons, isDiscEv, Bool.false_or]; exact h.w.nd
  · intro hp hrr
    show sessOf (.ev (.pong d) :: s.trace) ≤ lastAlive (.ev (.pong d) :: s.trace) + _ + 0
    rw [sessOf_pong, lastAlive_pong]; omega
  · show some (Event.pong d) ≠ some .unresponsive
    intro hx; cases hx

/-- `_on_event` and handing the event over -/
theorem onEvent_push_U {e : Event} (hf : isFeedEvent e = true) {s : Sys} (h : UI hi cfg0 env0 0 s) :
    match onEvent e s with
    | .ok _ s1 => UI hi cfg0 env0 0 (Pong.pushEv e s1)
    | .err x s1 => x.boring = true ∧ s1 = s := by
  cases hE : onEvent e s with
  | err x s1 => exact onEvent_err_boring hE
  | ok u s1 =>
    simp only []
    cases e with
    | ready a b => simp only [onEvent] at hE; cases hE; exact h.ready a b
    | pong d => simp only [onEvent] at hE; cases hE; exact h.pong d
    | ping d =>
      have h1 : UI hi cfg0 env0 0 s1 :=
        h.quiet ((quietP_onEvent _ rfl rfl).ok hE) ((ext_onEvent timers_noDisc _).ok hE)
      exact h1.pushEv _ rfl rfl (fun hx => by cases hx) rfl
    | _ =>
      first
        | (simp [isFeedEvent] at hf; done)
        | (simp only [onEvent] at hE; cases hE; exact h.pushEv _ rfl rfl (fun hx => by cases hx) rfl)

/-- outcome of `feedYield`, for the ping timeout: it never fires here -/
def FeedOutU (hi : Bool) (cfg0 : Cfg) (env0 : List EnvStep) : Res Unit → Prop
  | .ok _ s' => UI hi cfg0 env0 0 s'
  | .err y s' => UI hi cfg0 env0 0 s' ∧
      ∃ x, y = .outer x ∧ (x.boring = true ∨ x = .genExit ∨ x = .forceDisconnect "close-timeout")

theorem handler_U (b : Bool) (x : Exn) {s1 : Sys} (h : UI hi cfg0 env0 0 s1)
    (hx : x.boring = true ∨ x = .genExit ∨ x = .forceDisconnect "close-timeout") :
    FeedOutU hi cfg0 env0
      ((do (if b then onDisconnect else pure ()); throwE (.outer x) : M Unit) s1) := by
  cases b with
  | true =>
    simp only [if_true]
    obtain ⟨s2, hd, _⟩ := Monitor.onDisconnect_ok s1
    rw [bind_ok hd]
    exact ⟨ru_onDisconnect.ok hd h, x, rfl, hx⟩
  | false =>
    simp only [Bool.false_eq_true, if_false]
    rw [bind_ok (show (pure () : M Unit) s1 = .ok () s1 from rfl)]
    exact ⟨h, x, rfl, hx⟩

theorem feedYield_U (b : Bool) {e : Event} (hf : isFeedEvent e = true) {s : Sys} (h : UI hi cfg0 env0 0 s) :
    FeedOutU hi cfg0 env0 (feedYield b e s) := by
  have hA := onEvent_push_U hf h
  cases hE : onEvent e s with
  | err x s1 =>
    rw [hE] at hA
    rw [feedYield_onEvent_err b e s s1 x hE, hA.2]
    exact handler_U b x h (Or.inl hA.1)
  | ok u s1 =>
    rw [hE] at hA
    simp only [] at hA
    unfold feedYield
    have hB := ru_doActs (hi := hi) (cfg0 := cfg0) (env0 := env0) (sl := 0)
      ((Pong.pushEv e s1).react (Pong.pushEv e s1).hist) (Pong.pushEv e s1) hA
    cases hd : doActs ((Pong.pushEv e s1).react (Pong.pushEv e s1).hist) (Pong.pushEv e s1) with
    | err x s2 =>
      have hy : yieldEv e s1 = .err x s2 := (yieldEv_eq e s1).trans hd
      rw [hd] at hB
      have hb1 : (do onEvent e; yieldEv e; regular : M Unit) s = .err x s2 := by
        rw [bind_ok hE, bind_err hy]
      rw [tryC_err hb1]
      exact handler_U b x hB (Or.inr (Or.inl (Monitor.raises_doActs _ hd).1))
    | ok u2 s2 =>
      have hy : yieldEv e s1 = .ok u2 s2 := (yieldEv_eq e s1).trans hd
      rw [hd] at hB
      simp only [Res.state_ok] at hB
      have hR := regular_tick_U hB 0 (fun _ => Nat.zero_le _)
      rw [tick_zero'] at hR
      cases hr : regular s2 with
      | ok u3 s3 =>
        rw [hr] at hR
        have hb1 : (do onEvent e; yieldEv e; regular : M Unit) s = .ok () s3 := by
          rw [bind_ok hE, bind_ok hy, hr]
        rw [tryC_ok hb1]
        exact hR
      | err x s3 =>
        rw [hr] at hR
        have hb1 : (do onEvent e; yieldEv e; regular : M Unit) s = .err x s3 := by
          rw [bind_ok hE, bind_ok hy, hr]
        rw [tryC_err hb1]
        obtain ⟨_, _, hx⟩ := hR
        rcases hx with ⟨hx, h3⟩ | ⟨_, _, h0⟩ | ⟨hx, h3⟩
        · exact handler_U b x h3 (Or.inr (Or.inl hx))
        · exact absurd rfl h0
        · exact handler_U b x h3 (Or.inr (Or.inr hx))

end URegular


/-! ## Part 11: the ping-timeout instance of the result-aware lifting -/

/-- what an exception in flight says about the ping timeout: `_ForceDisconnect('ping-timeout')` only
    right after Unresponsive; every other exception but an abandonment leaves the invariant intact -/
def PU (cfg0 : Cfg) (y : Exn) (s : Sys) : Prop :=
  (∀ z, y ≠ .outer z) ∧
  (y = .forceDisconnect "ping-timeout" → LastU s) ∧
  (y ≠ .forceDisconnect "ping-timeout" → y ≠ .genExit → Ufresh cfg0 0 s ∧ NU s) ∧
  (∀ k, y = .other k ∨ y = .socketFail k → y.boring = true)

def XU (hi : Bool) (cfg0 : Cfg) (env0 : List EnvStep) (x : Exn) (s : Sys) : Prop :=
  Base cfg0 env0 s ∧ UW hi cfg0 s ∧ PU cfg0 x.core s

section InstU
variable {hi : Bool} {cfg0 : Cfg} {env0 : List EnvStep}

theorem boring_ne_pto {x : Exn} (hb : x.boring = true) : x ≠ .forceDisconnect "ping-timeout" := by
  intro e; subst e; cases hb

theorem boring_ne_genExit {x : Exn} (hb : x.boring = true) : x ≠ .genExit := by
  intro e; subst e; cases hb

theorem XU.of_ui {x : Exn} {s : Sys} (h : UI hi cfg0 env0 0 s) (h1 : x.core = x) (h2 : ∀ z, x ≠ .outer z)
    (h3 : x ≠ .forceDisconnect "ping-timeout") (h4 : ∀ k, x = .other k ∨ x = .socketFail k → x.boring = true) :
    XU hi cfg0 env0 x s :=
  ⟨h.b, h.w, by rw [h1]; exact ⟨h2, fun e => absurd e h3, fun _ _ => ⟨h.f, h.nu⟩, h4⟩⟩

theorem XU.of_boring {x : Exn} {s : Sys} (hb : x.boring = true) (h : UI hi cfg0 env0 0 s) : XU hi cfg0 env0 x s :=
  XU.of_ui h (core_of_boring hb) (not_outer_of_boring hb) (boring_ne_pto hb) (fun _ _ => hb)

theorem XU.unboring {x : Exn} {s : Sys} (hb : x.boring = true) (h : XU hi cfg0 env0 x s) : UI hi cfg0 env0 0 s := by
  obtain ⟨b, w, p⟩ := h
  rw [core_of_boring hb] at p
  obtain ⟨f, nu⟩ := p.2.2.1 (boring_ne_pto hb) (boring_ne_genExit hb)
  exact ⟨b, w, f, nu⟩

theorem PU.genExit (s : Sys) : PU cfg0 .genExit s :=
  ⟨fun z e => (by cases e), fun e => (by cases e), fun _ h => absurd rfl h,
   fun k h => (by rcases h with h | h <;> cases h)⟩

theorem iu_feedYield (b : Bool) (e : Event) (hf : isFeedEvent e = true) :
    SpecX (UI hi cfg0 env0 0) (XU hi cfg0 env0) (feedYield b e) := by
  intro s hs
  have h1 := feedYield_U b hf hs
  cases hr : feedYield b e s with
  | ok u s' => rw [hr] at h1; exact h1
  | err y s' =>
    rw [hr] at h1
    obtain ⟨h2, x, rfl, hx⟩ := h1
    refine ⟨h2.b, h2.w, ?_⟩
    show PU cfg0 x s'
    rcases hx with hx | hx | hx
    · exact ⟨not_outer_of_boring hx, fun e => absurd e (boring_ne_pto hx), fun _ _ => ⟨h2.f, h2.nu⟩, fun _ _ => hx⟩
    · subst hx; exact PU.genExit _
    · subst hx
      exact ⟨fun z e => (by cases e), fun e => absurd e (fd_ne (by decide)), fun _ _ => ⟨h2.f, h2.nu⟩,
        fun k h => (by rcases h with h | h <;> cases h)⟩

theorem iu_wsClose (c : Option Nat) (r : Arg) : SpecX (UI hi cfg0 env0 0) (XU hi cfg0 env0) (wsClose c r) :=
  specx_of_noRaise (Monitor.noRaise_wsClose c r) (fun s hs => ru_wsClose c r s hs)

theorem iu_closeSocket : SpecX (UI hi cfg0 env0 0) (XU hi cfg0 env0) closeSocket :=
  specx_of_noRaise Monitor.noRaise_closeSocket (fun s hs => ru_closeSocket s hs)

theorem iu_onDisconnect : SpecX (UI hi cfg0 env0 0) (XU hi cfg0 env0) onDisconnect :=
  specx_of_noRaise Monitor.noRaise_onDisconnect (fun s hs => ru_onDisconnect s hs)

theorem iu_raiseIfArgError (r : ActRes) : SpecX (UI hi cfg0 env0 0) (XU hi cfg0 env0) (raiseIfArgError r) := by
  unfold raiseIfArgError
  split
  · exact specx_throwE (fun s hs => XU.of_boring rfl hs)
  · exact specx_pure _

theorem iu_onClose (c : Option Nat) (r : List Nat) :
    SpecX (UI hi cfg0 env0 0) (XU hi cfg0 env0) (onClose c r) := by
  unfold onClose
  refine specx_bind ?_ (fun _ => specx_getS_bind (fun s0 => ?_))
  · unfold checkCloseCode
    splits <;> first | exact specx_pure _ | exact specx_throwE (fun s hs => XU.of_boring rfl hs)
  · split
    · exact specx_pure _
    · split
      · exact specx_bind (iu_feedYield true _ rfl) (fun _ =>
          specx_modS (fun s hs => hs.same rfl rfl rfl rfl rfl rfl rfl))
      · exact specx_bind (iu_feedYield true _ rfl) (fun _ =>
          specx_bind (iu_wsClose _ _) (fun r' => specx_bind (iu_raiseIfArgError r') (fun _ =>
            specx_modS (fun s hs => hs.same rfl rfl rfl rfl rfl rfl rfl))))

theorem iu_leaves : LeavesX (UI hi cfg0 env0 0) (XU hi cfg0 env0) where
  inert := by
    intro s s' h hs
    have i := h.inert
    exact hs.same i.cfg i.env i.now i.startTime i.ready i.lastPong i.trace
  boring := fun x s hb hs => XU.of_boring hb hs
  unboring := fun x s hb hx => XU.unboring hb hx
  forced := fun s hs => XU.of_ui hs rfl (fun z e => by cases e) (fd_ne (by decide))
    (fun k h => by rcases h with h | h <;> cases h)
  scriptEnd := fun s hs => XU.of_ui hs rfl (fun z e => by cases e) (fun e => by cases e)
    (fun k h => by rcases h with h | h <;> cases h)
  unwrap := by
    intro y s ⟨b, w, p⟩
    refine ⟨b, w, ?_⟩
    have : y.core = y := by
      cases y <;> first | rfl | exact absurd rfl (p.1 _)
    rw [this]; exact p
  closeSocket := iu_closeSocket
  wsClose := iu_wsClose
  onDisconnect := iu_onDisconnect
  onClose := iu_onClose
  feedYield := fun b e hf _ _ => iu_feedYield b e hf

theorem iu_tick_regular (dt : Nat) (hdt : hi = true → dt ≤ cfg0.poll) (s : Sys) (hs : UI hi cfg0 env0 0 s) :
    Sat (UI hi cfg0 env0 0) (XU hi cfg0 env0) (regular (tick s dt)) := by
  have h1 := regular_tick_U hs dt hdt
  cases hr : regular (tick s dt) with
  | ok u s' => rw [hr] at h1; exact h1
  | err x s' =>
    rw [hr] at h1
    obtain ⟨b, w, hx⟩ := h1
    refine ⟨b, w, ?_⟩
    rcases hx with ⟨hx, _⟩ | ⟨hx, hl, _⟩ | ⟨hx, h3⟩
    · subst hx; exact PU.genExit _
    · rcases hx with hx | hx
      · subst hx; exact PU.genExit _
      · subst hx
        exact ⟨fun z e => (by cases e), fun _ => hl, fun h => absurd rfl h,
          fun k h => (by rcases h with h | h <;> cases h)⟩
    · subst hx
      exact ⟨fun z e => (by cases e), fun e => absurd e (fd_ne (by decide)), fun _ _ => ⟨h3.f, h3.nu⟩,
        fun k h => (by rcases h with h | h <;> cases h)⟩

theorem iu_loop (env : List EnvStep) (h : hi = true → EnvBound cfg0.poll env) :
    SpecX (UI hi cfg0 env0 0) (XU hi cfg0 env0) (loop env) :=
  liftx_loop iu_leaves (fun st => hi = true → ∀ dt rd, st = .wait dt rd → dt ≤ cfg0.poll)
    (fun dt rd s hP hs _ => iu_tick_regular dt (fun hhi => hP hhi dt rd rfl) s hs) env
    (fun st hst hhi dt rd e => h hhi dt rd (e ▸ hst))

end InstU


/-! ## Part 12: the ping timeout over a whole connection -/

/-- the ping-timeout rules of a trace -/
structure TraceU (hi : Bool) (cfg0 : Cfg) (tr : List Obs) : Prop where
  uhi : UnrespHi cfg0.pingTimeout cfg0.poll hi tr
  unext : UNext tr
  tok : TickU cfg0.pingTimeout tr

/-- neither an event nor a clock mark -/
def Plain (o : Obs) : Prop := (∀ e, o ≠ .ev e) ∧ o.tmTickVal = none

theorem traceU_cons_plain {hi : Bool} {cfg0 : Cfg} {o : Obs} {tr : List Obs} (ho : Plain o)
    (h : TraceU hi cfg0 tr) : TraceU hi cfg0 (o :: tr) :=
  ⟨(unrespHi_cons_ne _ _ _ _ (ho.1 _)).mpr h.uhi, ⟨fun e he => absurd he (ho.1 e), h.unext⟩,
   (tickU_cons_none _ _ ho.2).mpr h.tok⟩

theorem traceU_append_plain {hi : Bool} {cfg0 : Cfg} (l : List Obs) {tr : List Obs} (hl : ∀ o ∈ l, Plain o)
    (h : TraceU hi cfg0 tr) : TraceU hi cfg0 (l ++ tr) := by
  induction l with
  | nil => exact h
  | cons o r ih =>
    exact traceU_cons_plain (hl o List.mem_cons_self) (ih (fun o ho => hl o (List.mem_cons_of_mem _ ho)))

theorem newestEv_append_plain (l tr : List Obs) (hl : ∀ o ∈ l, Plain o) : newestEv (l ++ tr) = newestEv tr := by
  induction l with
  | nil => rfl
  | cons o r ih =>
    rw [List.cons_append, newestEv_cons_nonEv _ (hl o List.mem_cons_self).1]
    exact ih (fun o ho => hl o (List.mem_cons_of_mem _ ho))

theorem traceU_cons_ev {hi : Bool} {cfg0 : Cfg} {e : Event} {tr : List Obs} (he : e ≠ .unresponsive)
    (hok : newestEv tr = some .unresponsive → e = .disconnected "ping-timeout" false)
    (h : TraceU hi cfg0 tr) : TraceU hi cfg0 (.ev e :: tr) :=
  ⟨(unrespHi_cons_ne _ _ _ _ (fun hx => he (by cases hx; rfl))).mpr h.uhi,
   ⟨fun e' he' hx => (by cases he'; exact hok hx), h.unext⟩, (tickU_cons_none _ _ rfl).mpr h.tok⟩

theorem newestEv_mem {tr : List Obs} {e : Event} (h : newestEv tr = some e) : Obs.ev e ∈ tr := by
  induction tr with
  | nil => cases h
  | cons o t ih =>
    cases o with
    | ev e' =>
      have : e' = e := by simpa [newestEv] using h
      subst this; exact List.mem_cons_self
    | _ => exact List.mem_cons_of_mem _ (ih h)

/-- shape of the trace after `closeSocket; yield e` -/
theorem closeYield_shape (e : Event) (s : Sys) :
    ∃ l1 l2, ((do closeSocket; yieldEv e : M Unit) s).state.trace = l2 ++ .ev e :: (l1 ++ s.trace) ∧
      (∀ o ∈ l1, Plain o) ∧ (∀ o ∈ l2, Plain o) := by
  obtain ⟨s1, e1⟩ := closeSocket_ok s
  rw [bind_ok e1]
  have hs1 : ∃ l1, s1.trace = l1 ++ s.trace ∧ ∀ o ∈ l1, Plain o := by
    unfold closeSocket at e1
    split at e1
    · cases e1; exact ⟨[.sockClose], rfl, by intro o ho; simp at ho; subst ho; exact ⟨fun e h => (by cases h), rfl⟩⟩
    · cases e1; exact ⟨[], rfl, by intro o ho; cases ho⟩
  obtain ⟨l1, el1, p1⟩ := hs1
  have q := quietP_doActs ((Pong.pushEv e s1).react (Pong.pushEv e s1).hist) (Pong.pushEv e s1)
  have k := Monitor.keeps_doActs ((Pong.pushEv e s1).react (Pong.pushEv e s1).hist) (Pong.pushEv e s1)
  rw [yieldEv_eq]
  obtain ⟨l2, el2, n2⟩ := q.trace
  obtain ⟨l2', el2', n2'⟩ := k.trace
  have : l2' = l2 := List.append_cancel_right (el2'.symm.trans el2)
  subst this
  refine ⟨l1, l2', ?_, p1, ?_⟩
  · refine Eq.trans (show _ = l2' ++ (Pong.pushEv e s1).trace from el2) ?_
    show l2' ++ (.ev e :: s1.trace) = _; rw [el1]
  · intro o ho
    refine ⟨fun e' he' => ?_, ((neutral_iff o).mp (n2 o ho)).1⟩
    have := n2' o ho
    subst he'; cases this

/-- the loop lived through a `selector.wait` that ended (clock mark `n`) more than `pt` after the
    newest sign of life, and no Pong (or Ready) has been seen since -/
def PastU (pt : Nat) (tr : List Obs) : Prop :=
  ∃ l n t, tr = l ++ .tick n :: t ∧ readyAt t ≠ none ∧
    (∀ o ∈ l, o.tmIsReady = false ∧ o.tmIsPong = false) ∧ lastAlive t + pt < sessOf (.tick n :: t)

theorem pastU_of_cons {pt : Nat} {o : Obs} {tr : List Obs} (h : o.tmTickVal = none) (hp : PastU pt (o :: tr)) :
    PastU pt tr := by
  obtain ⟨l, n, t, e, hr, hl, hge⟩ := hp
  cases l with
  | nil =>
    simp only [List.nil_append, List.cons.injEq] at e
    rw [e.1] at h; cases h
  | cons x l2 =>
    simp only [List.cons_append, List.cons.injEq] at e
    exact ⟨l2, n, t, e.2, hr, fun o ho => hl o (List.mem_cons_of_mem _ ho), hge⟩

theorem pastU_of_append {pt : Nat} (l : List Obs) {tr : List Obs} (hl : ∀ o ∈ l, o.tmTickVal = none)
    (hp : PastU pt (l ++ tr)) : PastU pt tr := by
  induction l with
  | nil => exact hp
  | cons o r ih =>
    exact ih (fun o ho => hl o (List.mem_cons_of_mem _ ho)) (pastU_of_cons (hl o List.mem_cons_self) hp)

theorem tickU_clockMono (pt : Nat) (tr : List Obs) (h : TickU pt tr) : ClockMono tr := by
  induction tr with
  | nil => trivial
  | cons o t ih => exact ⟨fun n hn => (h.1 n hn).1, ih h.2⟩

theorem readyAt_append_noReady (l t : List Obs) (h : ∀ o ∈ l, o.tmIsReady = false) :
    readyAt (l ++ t) = readyAt t := by
  induction l with
  | nil => rfl
  | cons o r ih =>
    rw [List.cons_append, readyAt_cons_of _ (h o List.mem_cons_self)]
    exact ih (fun o ho => h o (List.mem_cons_of_mem _ ho))

theorem lastAlive_append_noPong (l t : List Obs) (h : ∀ o ∈ l, o.tmIsReady = false ∧ o.tmIsPong = false) :
    lastAlive (l ++ t) = lastAlive t := by
  induction l with
  | nil => rfl
  | cons o r ih =>
    rw [List.cons_append, lastAlive_cons_of _ (h o List.mem_cons_self).1 (h o List.mem_cons_self).2]
    exact ih (fun o ho => h o (List.mem_cons_of_mem _ ho))

/-- with the ping timeout not overdue, no such `selector.wait` has happened -/
theorem not_pastU {cfg0 : Cfg} {tr : List Obs} (htok : TickU cfg0.pingTimeout tr)
    (hf : cfg0.pingTimeout ≠ 0 → readyAt tr ≠ none → sessOf tr ≤ lastAlive tr + cfg0.pingTimeout + 0)
    (hp : cfg0.pingTimeout ≠ 0) : ¬ PastU cfg0.pingTimeout tr := by
  intro ⟨l, n, t, e, hr, hl, hge⟩
  subst e
  have h1 : readyAt (l ++ .tick n :: t) ≠ none := by
    rw [readyAt_append_noReady l _ (fun o ho => (hl o ho).1), readyAt_tick]; exact hr
  have h2 := hf hp h1
  rw [lastAlive_append_noPong l _ hl, lastAlive_tick] at h2
  have := sessOf_mono' l _ (tickU_clockMono _ _ htok) (fun o ho => (hl o ho).1)
  omega

/-- **the connection is over once the loop has lived through a wait that ended past the ping
    deadline** (and no Pong arrived after it): Unresponsive and the forced
    `Disconnected('ping-timeout')` were yielded — unless the application abandoned the iterator at
    that `_regular()` (no `Disconnected` at all) -/
def EndU (cfg0 : Cfg) (tr : List Obs) : Prop :=
  cfg0.pingTimeout ≠ 0 → PastU cfg0.pingTimeout tr →
    (Obs.ev .unresponsive ∈ tr ∧ ptoD ∈ tr) ∨ discAny tr = false

def FinU (hi : Bool) (cfg0 : Cfg) (s : Sys) : Prop := TraceU hi cfg0 s.trace ∧ EndU cfg0 s.trace

section TopU
variable {hi : Bool} {cfg0 : Cfg} {env0 : List EnvStep}

theorem UW.traceU {s : Sys} (h : UW hi cfg0 s) : TraceU hi cfg0 s.trace := ⟨h.uhi, h.unext, h.tok⟩

theorem UI.fin {s : Sys} (h : UI hi cfg0 env0 0 s) : FinU hi cfg0 s :=
  ⟨h.w.traceU, fun hp hpast => absurd hpast (not_pastU h.w.tok h.f hp)⟩

theorem finU_cons {o : Obs} {s s' : Sys} (ho : Plain o) (e : s'.trace = o :: s.trace) (h : FinU hi cfg0 s) :
    FinU hi cfg0 s' := by
  rw [FinU, e]
  refine ⟨traceU_cons_plain ho h.1, fun hp hpast => ?_⟩
  rcases h.2 hp (pastU_of_cons ho.2 hpast) with h1 | h1
  · exact Or.inl ⟨List.mem_cons_of_mem _ h1.1, List.mem_cons_of_mem _ h1.2⟩
  · refine Or.inr ?_
    have : isDiscEv o = false := by cases o <;> first | rfl | exact absurd rfl (ho.1 _)
    simp only [discAny, List.any_cons, this, Bool.false_or]; exact h1

/-- `closeSocket; yield Disconnected(k, g)` from a state whose trace obeys the rules -/
theorem finU_closeYield (k : String) (g : Bool) (s : Sys) (ht : TraceU hi cfg0 s.trace)
    (hok : newestEv s.trace = some .unresponsive → Event.disconnected k g = .disconnected "ping-timeout" false)
    (hend : cfg0.pingTimeout ≠ 0 → PastU cfg0.pingTimeout s.trace →
      k = "ping-timeout" ∧ g = false ∧ Obs.ev .unresponsive ∈ s.trace) :
    FinU hi cfg0 ((do closeSocket; yieldEv (.disconnected k g) : M Unit) s).state := by
  obtain ⟨l1, l2, e, p1, p2⟩ := closeYield_shape (.disconnected k g) s
  rw [FinU, e]
  refine ⟨traceU_append_plain l2 p2 (traceU_cons_ev (fun h => by cases h)
    (by rw [newestEv_append_plain l1 _ p1]; exact hok) (traceU_append_plain l1 p1 ht)), ?_⟩
  intro hp hpast
  have h1 : PastU cfg0.pingTimeout s.trace := by
    have := pastU_of_append l2 (fun o ho => (p2 o ho).2) hpast
    have := pastU_of_cons (o := .ev (.disconnected k g)) rfl this
    exact pastU_of_append l1 (fun o ho => (p1 o ho).2) this
  obtain ⟨hk, hg, hun⟩ := hend hp h1
  subst hk; subst hg
  exact Or.inl ⟨List.mem_append_right _ (List.mem_cons_of_mem _ (List.mem_append_right _ hun)),
    List.mem_append_right _ List.mem_cons_self⟩

theorem fin_endSomeU (x : Exn) (s : Sys) (h : XU hi cfg0 env0 x s) (hno : ∀ z, x ≠ .outer z) :
    FinU hi cfg0 (onLoopEnd (some x) s).state := by
  have hcore : x.core = x := by
    cases x <;> first | rfl | exact absurd rfl (hno _)
  obtain ⟨hb, hw, hp⟩ := h
  rw [hcore] at hp
  -- exceptions that leave the invariant intact
  have quietCase : ∀ k, x ≠ .forceDisconnect "ping-timeout" → x ≠ .genExit →
      FinU hi cfg0 ((do closeSocket; yieldEv (.disconnected k false) : M Unit) s).state := by
    intro k h1 h2
    obtain ⟨f, nu⟩ := hp.2.2.1 h1 h2
    exact finU_closeYield k false s hw.traceU (fun hx => absurd hx nu)
      (fun hpt hpast => absurd hpast (not_pastU hw.tok f hpt))
  cases x with
  | forceDisconnect k =>
    show FinU hi cfg0 ((do closeSocket; yieldEv (.disconnected k false) : M Unit) s).state
    by_cases hk : k = "ping-timeout"
    · subst hk
      exact finU_closeYield _ false s hw.traceU (fun _ => rfl)
        (fun _ _ => ⟨rfl, rfl, newestEv_mem (hp.2.1 rfl)⟩)
    · exact quietCase k (fd_ne hk) (fun e => by cases e)
  | socketFail k => exact quietCase k (fun e => by cases e) (fun e => by cases e)
  | other k => exact quietCase k (fun e => by cases e) (fun e => by cases e)
  | protocol m => exact quietCase "error" (fun e => by cases e) (fun e => by cases e)
  | critical m => exact quietCase "error" (fun e => by cases e) (fun e => by cases e)
  | parse m => exact quietCase "error" (fun e => by cases e) (fun e => by cases e)
  | genExit => exact ⟨hw.traceU, fun _ _ => Or.inr hw.nd⟩
  | outer y => exact absurd rfl (hno y)
  | scriptEnd =>
    obtain ⟨f, _⟩ := hp.2.2.1 (fun e => by cases e) (fun e => by cases e)
    exact ⟨hw.traceU, fun hpt hpast => absurd hpast (not_pastU hw.tok f hpt)⟩

theorem iu_yieldEv (e : Event) (h1 : (Obs.ev e).tmIsReady = false) (h2 : (Obs.ev e).tmIsPong = false)
    (h3 : e ≠ .unresponsive) (h4 : isDiscEv (.ev e) = false) (s : Sys) (hs : UI hi cfg0 env0 0 s) :
    Sat (UI hi cfg0 env0 0) (XU hi cfg0 env0) (yieldEv e s) := by
  have hc := ru_yieldEv e h1 h2 h3 h4 s hs
  cases hy : yieldEv e s with
  | ok u s' => rw [hy] at hc; exact hc
  | err x s' =>
    rw [hy] at hc
    have := Monitor.yieldEv_err_genExit hy
    subst this
    exact ⟨hc.b, hc.w, PU.genExit _⟩

theorem iu_top : TopX (UI hi cfg0 env0 0) (XU hi cfg0 env0) (FinU hi cfg0) env0 where
  envEq := fun s hs => hs.b.env
  iFin := fun s hs => hs.fin
  xFin := fun s hx => ⟨hx.2.1.traceU, fun _ _ => Or.inr hx.2.1.nd⟩
  yieldTop := by
    intro e he
    rcases he with rfl | ⟨k, rfl⟩
    · exact iu_yieldEv _ rfl rfl (fun h => by cases h) rfl
    · exact iu_yieldEv _ rfl rfl (fun h => by cases h) rfl
  yieldConn := fun p s hs _ _ _ _ => iu_yieldEv _ rfl rfl (fun h => by cases h) rfl s hs
  sockSet := fun s hs => hs.same rfl rfl rfl rfl rfl rfl rfl
  writeReq := fun s hs _ _ => ru_of_quiet (quietP_write _ _) (ext_write timers_noDisc _ _) s hs
  selSet := fun b s hs => hs.same rfl rfl rfl rfl rfl rfl rfl
  endNone := fun s hs => finU_closeYield "closed" true s hs.w.traceU (fun hx => absurd hx hs.nu)
    (fun hpt hpast => absurd hpast (not_pastU hs.w.tok hs.f hpt))
  endSome := fin_endSomeU
  finSel := by
    intro s h
    unfold selClose
    split
    · exact finU_cons (o := .selClose) ⟨fun e he => (by cases he), rfl⟩ rfl h
    · exact h
  finSock := by
    intro s h
    unfold closeSocket
    split
    · exact finU_cons (o := .sockClose) ⟨fun e he => (by cases he), rfl⟩ rfl h
    · exact h
  finInc := fun s h => finU_cons (o := .incomplete) ⟨fun e he => (by cases he), rfl⟩ rfl h

theorem iu_init (cfg : Cfg) (react : React) (env : List EnvStep) :
    UI hi cfg env 0 { cfg := cfg, react := react, env := env } :=
  ⟨⟨rfl, rfl, rfl, rfl, by simp⟩, ⟨rfl, trivial, trivial, trivial, rfl⟩, fun _ h => absurd rfl h,
    fun h => (by cases h)⟩

/-- **the ping-timeout rules hold for the trace of every connection** -/
theorem finU_runAll (hi : Bool) (cfg : Cfg) (react : React) (env : List EnvStep)
    (h : hi = true → EnvBound cfg.poll env) : FinU hi cfg (runAll cfg react env) :=
  topx_runAll iu_leaves iu_top (iu_loop env h) cfg react (iu_init cfg react env)

end TopU


/-! ## Part 13: the automatic Ping — what the trace says -/

def isClosingEv : Obs → Bool
  | .ev (.closing _ _) => true
  | _ => false

/-- entries that show the connection is no longer simply open: a Close frame handed to `sendall`, the
    socket closed, a `Closing` or `Closed` event -/
def csEv (o : Obs) : Bool := o.isClose || o == .sockClose || isClosingEv o || isClosedEv o

/-- something of the closing handshake has happened, or the socket was closed -/
def closeStarted (tr : List Obs) : Bool := tr.any csEv

/-- a Ping was attempted by the library in the window `(k·r, k·r + D]`: one of its own Ping frames
    was written at such a session time (`pingStamps`), or a Ping frame write failed at such a time -/
def HasTry (r D k : Nat) (tr : List Obs) : Prop :=
  (∃ q ∈ pingStamps tr, k * r < q ∧ q ≤ k * r + D) ∨
  (∃ l b t0, tr = l ++ .wrFail b :: t0 ∧ isPingFrame b = true ∧ k * r < sessOf t0 ∧ sessOf t0 ≤ k * r + D)

/-- **every period the session had entered `sl` ticks ago has had its Ping** (while the connection is
    open) -/
def CoverS (cfg0 : Cfg) (sl : Nat) (tr : List Obs) : Prop :=
  cfg0.pingRate ≠ 0 → cfg0.v.closeArgs = true → readyAt tr ≠ none → connSeen tr = true → closeStarted tr = false →
    ∀ k, k * cfg0.pingRate + sl < sessOf tr → HasTry cfg0.pingRate cfg0.poll k tr

/-- **every period the session has entered has had its Ping** (while the connection is open) -/
def Cover (cfg0 : Cfg) (tr : List Obs) : Prop := CoverS cfg0 0 tr

/-- **the loop never goes back to `selector.wait` with a Ping outstanding** -/
def TickP (cfg0 : Cfg) : List Obs → Prop
  | [] => True
  | o :: t => (o.tmTickVal.isSome = true → Cover cfg0 t) ∧ TickP cfg0 t

theorem tickP_cons (cfg0 : Cfg) (o : Obs) (t : List Obs) :
    TickP cfg0 (o :: t) ↔ (o.tmTickVal.isSome = true → Cover cfg0 t) ∧ TickP cfg0 t := Iff.rfl

theorem tickP_cons_none (cfg0 : Cfg) {o : Obs} (t : List Obs) (h : o.tmTickVal = none) :
    TickP cfg0 (o :: t) ↔ TickP cfg0 t := by
  rw [tickP_cons, h]
  exact ⟨fun x => x.2, fun x => ⟨fun hn => (by cases hn), x⟩⟩

theorem tickP_suffix (cfg0 : Cfg) (l t : List Obs) (h : TickP cfg0 (l ++ t)) : TickP cfg0 t := by
  induction l with
  | nil => exact h
  | cons o r ih => exact ih h.2

theorem tickP_append (cfg0 : Cfg) (l t : List Obs) (hl : ∀ o ∈ l, o.tmTickVal = none) :
    TickP cfg0 (l ++ t) ↔ TickP cfg0 t := by
  induction l with
  | nil => exact Iff.rfl
  | cons o r ih =>
    rw [List.cons_append, tickP_cons_none _ _ (hl o List.mem_cons_self)]
    exact ih (fun o ho => hl o (List.mem_cons_of_mem _ ho))

theorem closeStarted_append_false {l t : List Obs} (h : closeStarted (l ++ t) = false) : closeStarted t = false := by
  unfold closeStarted at *
  rw [List.any_append, Bool.or_eq_false_iff] at h
  exact h.2

theorem closeStarted_mono {l t : List Obs} (h : closeStarted t = true) : closeStarted (l ++ t) = true := by
  unfold closeStarted at *
  rw [List.any_append, h, Bool.or_true]

theorem hasTry_append {r D k : Nat} (l t : List Obs) (hs : pingStamps (l ++ t) = pingStamps t)
    (h : HasTry r D k t) : HasTry r D k (l ++ t) := by
  rcases h with ⟨q, hq, h1⟩ | ⟨l1, b, t0, e, h1⟩
  · exact Or.inl ⟨q, by rw [hs]; exact hq, h1⟩
  · exact Or.inr ⟨l ++ l1, b, t0, by rw [e, List.append_assoc], h1⟩

/-- entries that change neither clock, Ready time, the library's Ping stamps nor `Connected` -/
def _root_.Lomond.Core.Obs.pN (o : Obs) : Bool := o.tmGneutral && !isConnEv o

theorem pN_iff (o : Obs) : o.pN = true ↔ o.tmGneutral = true ∧ isConnEv o = false := by
  unfold Obs.pN; cases o.tmGneutral <;> cases isConnEv o <;> simp

theorem connSeen_append_pN (l t : List Obs) (h : ∀ o ∈ l, Obs.pN o = true) : connSeen (l ++ t) = connSeen t := by
  unfold connSeen
  rw [List.any_append]
  have : l.any isConnEv = false := by
    rw [List.any_eq_false]; intro o ho; simp [((pN_iff o).mp (h o ho)).2]
  rw [this, Bool.false_or]

theorem facts_append_pN (l t : List Obs) (h : ∀ o ∈ l, Obs.pN o = true) :
    clockOf (l ++ t) = clockOf t ∧ readyAt (l ++ t) = readyAt t ∧ pingStamps (l ++ t) = pingStamps t ∧
    sessOf (l ++ t) = sessOf t := by
  obtain ⟨a, b, c⟩ := append_gneutral l t (fun o ho => ((pN_iff o).mp (h o ho)).1)
  exact ⟨a, b, c, by unfold sessOf; rw [a, b]⟩



/-! ## Part 14: the automatic-Ping invariant -/

/-- **a websocket that is closing / closed, or a socket that is gone, shows on the trace** (once
    `Connected` was yielded; `closeArgs`: the repaired argument check of `close()`) -/
def FlagEv (cfg0 : Cfg) (s : Sys) : Prop :=
  (s.closing = true ∨ s.closed = true ∨ s.sockOpen = false) →
    closeStarted s.trace = true ∨ connSeen s.trace = false ∨ cfg0.v.closeArgs = false

/-- the automatic-Ping facts that hold in **every** state -/
structure PW (hi : Bool) (cfg0 : Cfg) (s : Sys) : Prop where
  /-- `_next_ping` is a multiple of the rate -/
  mult : ∃ m, s.nextPing = m * cfg0.pingRate
  flag : FlagEv cfg0 s
  tok : hi = true → TickP cfg0 s.trace
  /-- the session did not start in the future -/
  le : ∀ t0, readyAt s.trace = some t0 → t0 ≤ clockOf s.trace

/-- **no Ping is outstanding** by more than the slack: the session time has not passed `_next_ping` -/
def Pfresh (cfg0 : Cfg) (sl : Nat) (s : Sys) : Prop :=
  cfg0.pingRate ≠ 0 → readyAt s.trace ≠ none → sessOf s.trace ≤ s.nextPing + sl

/-- `_next_ping` is less than one period ahead of the session time `sl` ticks ago -/
def Npt (cfg0 : Cfg) (sl : Nat) (s : Sys) : Prop :=
  cfg0.pingRate ≠ 0 → readyAt s.trace ≠ none → s.nextPing + sl < sessOf s.trace + cfg0.pingRate

structure PI (hi : Bool) (cfg0 : Cfg) (env0 : List EnvStep) (sl : Nat) (s : Sys) : Prop where
  b : Base cfg0 env0 s
  w : PW hi cfg0 s
  f : Pfresh cfg0 sl s
  n : Npt cfg0 sl s
  c : hi = true → CoverS cfg0 sl s.trace

def RP' (hi : Bool) (cfg0 : Cfg) (env0 : List EnvStep) (sl : Nat) (s s' : Sys) : Prop :=
  PI hi cfg0 env0 sl s → PI hi cfg0 env0 sl s'

/-- a step that is quiet for the automatic Ping: `_next_ping` and the websocket flags untouched, the
    socket closed only with a `sockClose` mark, only `pN` entries appended -/
structure PQ (s s' : Sys) : Prop where
  cfg : s'.cfg = s.cfg
  env : s'.env = s.env
  ready : s'.ready = s.ready
  startTime : s'.startTime = s.startTime
  now : s'.now = s.now
  nextPing : s'.nextPing = s.nextPing
  closing : s'.closing = s.closing
  closed : s'.closed = s.closed
  sock : s'.sockOpen = s.sockOpen ∨ (s'.sockOpen = false ∧ Obs.sockClose ∈ s'.trace)
  trace : ∃ l, s'.trace = l ++ s.trace ∧ ∀ o ∈ l, Obs.pN o = true

theorem pq_po : PO PQ where
  refl s := ⟨rfl, rfl, rfl, rfl, rfl, rfl, rfl, rfl, Or.inl rfl, ⟨[], rfl, by simp⟩⟩
  trans := by
    intro a b c h1 h2
    obtain ⟨l1, e1, n1⟩ := h1.trace
    obtain ⟨l2, e2, n2⟩ := h2.trace
    refine ⟨h2.cfg.trans h1.cfg, h2.env.trans h1.env, h2.ready.trans h1.ready, h2.startTime.trans h1.startTime,
      h2.now.trans h1.now, h2.nextPing.trans h1.nextPing, h2.closing.trans h1.closing, h2.closed.trans h1.closed,
      ?_, ⟨l2 ++ l1, by rw [e2, e1, List.append_assoc], ?_⟩⟩
    · rcases h2.sock with h | h
      · rcases h1.sock with h' | ⟨h', hm⟩
        · exact Or.inl (h.trans h')
        · exact Or.inr ⟨h.trans h', by rw [e2]; exact List.mem_append_right _ hm⟩
      · exact Or.inr h
    · intro o ho
      rcases List.mem_append.mp ho with h | h
      · exact n2 o h
      · exact n1 o h

section PSec
variable {hi : Bool} {cfg0 : Cfg} {env0 : List EnvStep} {sl : Nat}

theorem rp'_po : PO (RP' hi cfg0 env0 sl) where
  refl _ := id
  trans h1 h2 := fun h => h2 (h1 h)

theorem closeStarted_of_sockClose {tr : List Obs} (h : Obs.sockClose ∈ tr) : closeStarted tr = true := by
  unfold closeStarted
  rw [List.any_eq_true]
  exact ⟨_, h, by simp [csEv]⟩

theorem FlagEv.of_pq {s s' : Sys} (q : PQ s s') (h : FlagEv cfg0 s) : FlagEv cfg0 s' := by
  obtain ⟨l, e, n⟩ := q.trace
  intro hf
  have lift : closeStarted s.trace = true ∨ connSeen s.trace = false ∨ cfg0.v.closeArgs = false →
      closeStarted s'.trace = true ∨ connSeen s'.trace = false ∨ cfg0.v.closeArgs = false := by
    intro hx
    rcases hx with hx | hx | hx
    · exact Or.inl (by rw [e]; exact closeStarted_mono hx)
    · exact Or.inr (Or.inl (by rw [e, connSeen_append_pN l _ n]; exact hx))
    · exact Or.inr (Or.inr hx)
  rw [q.closing, q.closed] at hf
  rcases hf with hf | hf | hf
  · exact lift (h (Or.inl hf))
  · exact lift (h (Or.inr (Or.inl hf)))
  · rcases q.sock with hs | ⟨_, hm⟩
    · exact lift (h (Or.inr (Or.inr (hs ▸ hf))))
    · exact Or.inl (closeStarted_of_sockClose hm)

/-- what `PI` needs of a step besides the websocket flags -/
structure PG (s s' : Sys) : Prop where
  cfg : s'.cfg = s.cfg
  env : s'.env = s.env
  ready : s'.ready = s.ready
  startTime : s'.startTime = s.startTime
  now : s'.now = s.now
  nextPing : s'.nextPing = s.nextPing
  trace : ∃ l, s'.trace = l ++ s.trace ∧ ∀ o ∈ l, Obs.pN o = true

theorem PQ.pg {s s' : Sys} (q : PQ s s') : PG s s' :=
  ⟨q.cfg, q.env, q.ready, q.startTime, q.now, q.nextPing, q.trace⟩

/-- the general extension lemma: the step leaves clock, Ready time, the library's Ping stamps and
    `Connected` as they were and appends no clock mark -/
theorem PI.ext {s s' : Sys} (h : PI hi cfg0 env0 sl s) (e1 : s'.cfg = s.cfg) (e2 : s'.env = s.env)
    (e3 : s'.ready = s.ready) (e4 : s'.startTime = s.startTime) (e5 : s'.now = s.now)
    (e6 : s'.nextPing = s.nextPing) (l : List Obs) (e : s'.trace = l ++ s.trace)
    (f1 : clockOf (l ++ s.trace) = clockOf s.trace) (f2 : readyAt (l ++ s.trace) = readyAt s.trace)
    (f3 : pingStamps (l ++ s.trace) = pingStamps s.trace) (fc : connSeen (l ++ s.trace) = connSeen s.trace)
    (ht : ∀ o ∈ l, o.tmTickVal = none) (hf : FlagEv cfg0 s') : PI hi cfg0 env0 sl s' := by
  have f4 : sessOf (l ++ s.trace) = sessOf s.trace := by unfold sessOf; rw [f1, f2]
  refine ⟨⟨e1.trans h.b.cfg, e2.trans h.b.env, ?_, ?_, by rw [e3, e4]; exact h.b.rdy⟩,
    ⟨?_, hf, ?_, by rw [e, f1, f2]; exact h.w.le⟩, ?_, ?_, ?_⟩
  · rw [e5, e, f1]; exact h.b.now
  · rw [e4, e, f2]; exact h.b.start
  · rw [e6]; exact h.w.mult
  · intro hhi; rw [e, tickP_append _ l _ ht]; exact h.w.tok hhi
  · unfold Pfresh; rw [e6, e, f2, f4]; exact h.f
  · unfold Npt; rw [e6, e, f2, f4]; exact h.n
  · intro hhi
    rw [e]
    intro hr hv hrd hcn hcs k hk
    rw [f2] at hrd
    rw [fc] at hcn
    rw [f4] at hk
    exact hasTry_append l _ f3 (h.c hhi hr hv hrd hcn (closeStarted_append_false hcs) k hk)

theorem PI.step {s s' : Sys} (h : PI hi cfg0 env0 sl s) (q : PG s s') (hf : FlagEv cfg0 s') :
    PI hi cfg0 env0 sl s' := by
  obtain ⟨l, e, n⟩ := q.trace
  obtain ⟨f1, f2, f3, _⟩ := facts_append_pN l s.trace n
  exact h.ext q.cfg q.env q.ready q.startTime q.now q.nextPing l e f1 f2 f3 (connSeen_append_pN l _ n)
    (fun o ho => ((gneutral_iff o).mp ((pN_iff o).mp (n o ho)).1).1) hf

theorem PI.quiet {s s' : Sys} (h : PI hi cfg0 env0 sl s) (q : PQ s s') : PI hi cfg0 env0 sl s' :=
  h.step q.pg (h.w.flag.of_pq q)

theorem rp'_of_pq {m : M α} (h : Spec PQ m) : Spec (RP' hi cfg0 env0 sl) m := fun s hs => hs.quiet (h s)

theorem PQ.same {s s' : Sys} (e1 : s'.cfg = s.cfg) (e2 : s'.env = s.env) (e3 : s'.ready = s.ready)
    (e4 : s'.startTime = s.startTime) (e5 : s'.now = s.now) (e6 : s'.nextPing = s.nextPing)
    (e7 : s'.closing = s.closing) (e8 : s'.closed = s.closed) (e9 : s'.sockOpen = s.sockOpen)
    (e10 : s'.trace = s.trace) : PQ s s' :=
  ⟨e1, e2, e3, e4, e5, e6, e7, e8, Or.inl e9, ⟨[], e10, by simp⟩⟩

theorem PQ.one {s s' : Sys} {o : Obs} (e1 : s'.cfg = s.cfg) (e2 : s'.env = s.env) (e3 : s'.ready = s.ready)
    (e4 : s'.startTime = s.startTime) (e5 : s'.now = s.now) (e6 : s'.nextPing = s.nextPing)
    (e7 : s'.closing = s.closing) (e8 : s'.closed = s.closed) (e9 : s'.sockOpen = s.sockOpen)
    (e10 : s'.trace = o :: s.trace) (ho : o.pN = true) : PQ s s' :=
  ⟨e1, e2, e3, e4, e5, e6, e7, e8, Or.inl e9, ⟨[o], e10, by simpa using ho⟩⟩

theorem pq_closeSocket : Spec PQ closeSocket := by
  intro s; unfold closeSocket
  split
  · exact ⟨rfl, rfl, rfl, rfl, rfl, rfl, rfl, rfl, Or.inr ⟨rfl, List.mem_cons_self⟩, ⟨[.sockClose], rfl, by
      simp [Obs.pN, Obs.tmGneutral, Obs.tmTickVal, Obs.tmIsReady, Obs.tmIsRes, Obs.tmPingWr, isConnEv]⟩⟩
  · exact pq_po.refl s

theorem pq_selClose : Spec PQ selClose := by
  intro s; unfold selClose
  split
  · exact PQ.one rfl rfl rfl rfl rfl rfl rfl rfl rfl rfl
      (by simp [Obs.pN, Obs.tmGneutral, Obs.tmTickVal, Obs.tmIsReady, Obs.tmIsRes, Obs.tmPingWr, isConnEv])
  · exact pq_po.refl s

/-- a library write of anything but a Ping frame -/
theorem pq_write (d : Bytes) (z : Option (Nat × Bytes)) (h : isPingFrame d = false) : Spec PQ (write d z) := by
  intro s
  unfold write
  rcases z with _ | ⟨op, plain⟩
  all_goals simp only []
  all_goals splits
  all_goals simp only [Res.state_ok]
  all_goals first
    | exact pq_po.refl _
    | exact PQ.one rfl rfl rfl rfl rfl rfl rfl rfl rfl rfl
        (by simp [Obs.pN, Obs.tmGneutral, Obs.tmTickVal, Obs.tmIsReady, Obs.tmIsRes, Obs.tmPingWr, isConnEv, h])

theorem pq_sendFrame (op : Nat) (pl : Bytes) (hop : op ≠ Gen.opPing) : Spec PQ (sendFrame op pl none) := by
  intro s; unfold sendFrame; simp only []
  split
  · rename_i bs hb
    refine pq_po.trans (PQ.same rfl rfl rfl rfl rfl rfl rfl rfl rfl rfl : PQ s { s with keyCtr := s.keyCtr + 1 })
      (pq_write bs none ?_ _)
    exact not_pingFrame_of_head (build_head _ _ _ _ hb) hop
  · exact PQ.same rfl rfl rfl rfl rfl rfl rfl rfl rfl rfl

theorem pN_ev {e : Event} (h1 : (Obs.ev e).tmIsReady = false) (h2 : isConnEv (.ev e) = false) : (Obs.ev e).pN = true := by
  rw [pN_iff]
  exact ⟨(gneutral_iff _).mpr ⟨rfl, h1, rfl, rfl⟩, h2⟩

theorem pq_pushEv (e : Event) (s : Sys) (h1 : (Obs.ev e).tmIsReady = false) (h2 : isConnEv (.ev e) = false) :
    PQ s (Pong.pushEv e s) :=
  PQ.one rfl rfl rfl rfl rfl rfl rfl rfl rfl rfl (pN_ev h1 h2)

theorem pq_modS {f : Sys → Sys} (h : ∀ s, PQ s (f s)) : Spec PQ (modS f) := fun s => h s

end PSec


/-! ## Part 15: the automatic-Ping invariant through application calls and flag changes -/

section PApp
variable {hi : Bool} {cfg0 : Cfg} {env0 : List EnvStep} {sl : Nat}

/-- entries made by `session.write` / `_close_socket` -/
def WrEntry (o : Obs) : Prop := (∃ b, o = .wr b) ∨ (∃ b, o = .wrFail b) ∨ (∃ op pl, o = .wrz op pl) ∨ o = .sockClose

theorem WrEntry.facts {o : Obs} (h : WrEntry o) :
    o.tmTickVal = none ∧ o.tmIsReady = false ∧ o.tmIsRes = false ∧ isConnEv o = false := by
  rcases h with ⟨b, rfl⟩ | ⟨b, rfl⟩ | ⟨op, pl, rfl⟩ | rfl <;> exact ⟨rfl, rfl, rfl, rfl⟩

/-- effect of an application call (before its result token is logged) -/
structure PA (cfg0 : Cfg) (s s' : Sys) : Prop where
  cfg : s'.cfg = s.cfg
  env : s'.env = s.env
  ready : s'.ready = s.ready
  startTime : s'.startTime = s.startTime
  now : s'.now = s.now
  nextPing : s'.nextPing = s.nextPing
  tr : s'.trace = s.trace ∨ ∃ o, s'.trace = o :: s.trace ∧ WrEntry o
  flag : s.cfg = cfg0 → FlagEv cfg0 s → FlagEv cfg0 s'

theorem pa_refl (s : Sys) : PA cfg0 s s := ⟨rfl, rfl, rfl, rfl, rfl, rfl, Or.inl rfl, fun _ h => h⟩

theorem flagEv_cons {s s' : Sys} {o : Obs} (e : s'.trace = o :: s.trace) (ho : isConnEv o = false)
    (e1 : s'.closing = s.closing) (e2 : s'.closed = s.closed) (e3 : s'.sockOpen = s.sockOpen)
    (h : FlagEv cfg0 s) : FlagEv cfg0 s' := by
  intro hf
  rw [e1, e2, e3] at hf
  rcases h hf with hx | hx | hx
  · exact Or.inl (by rw [e]; exact closeStarted_mono (l := [o]) hx)
  · exact Or.inr (Or.inl (by rw [e]; simp only [connSeen, List.any_cons, ho, Bool.false_or]; exact hx))
  · exact Or.inr (Or.inr hx)

theorem flagEv_same {s s' : Sys} (e : s'.trace = s.trace)
    (e1 : s'.closing = s.closing) (e2 : s'.closed = s.closed) (e3 : s'.sockOpen = s.sockOpen)
    (h : FlagEv cfg0 s) : FlagEv cfg0 s' := by
  intro hf
  rw [e1, e2, e3] at hf
  rw [e]; exact h hf

theorem pa_write (d : Bytes) (z : Option (Nat × Bytes)) (s : Sys) : PA cfg0 s (write d z s).state := by
  unfold write
  rcases z with _ | ⟨op, plain⟩
  all_goals simp only []
  all_goals splits
  all_goals simp only [Res.state_ok]
  all_goals first
    | exact pa_refl _
    | exact ⟨rfl, rfl, rfl, rfl, rfl, rfl, Or.inr ⟨_, rfl, Or.inl ⟨_, rfl⟩⟩,
        fun _ h => flagEv_cons rfl rfl rfl rfl rfl h⟩
    | exact ⟨rfl, rfl, rfl, rfl, rfl, rfl, Or.inr ⟨_, rfl, Or.inr (Or.inl ⟨_, rfl⟩)⟩,
        fun _ h => flagEv_cons rfl rfl rfl rfl rfl h⟩
    | exact ⟨rfl, rfl, rfl, rfl, rfl, rfl, Or.inr ⟨_, rfl, Or.inr (Or.inr (Or.inl ⟨_, _, rfl⟩))⟩,
        fun _ h => flagEv_cons rfl rfl rfl rfl rfl h⟩

theorem PA.after_same {s s1 s2 : Sys} (h : PA cfg0 s1 s2) (e1 : s1.cfg = s.cfg) (e2 : s1.env = s.env)
    (e3 : s1.ready = s.ready) (e4 : s1.startTime = s.startTime) (e5 : s1.now = s.now)
    (e6 : s1.nextPing = s.nextPing) (e7 : s1.trace = s.trace) (hf : s.cfg = cfg0 → FlagEv cfg0 s → FlagEv cfg0 s1) :
    PA cfg0 s s2 :=
  ⟨h.cfg.trans e1, h.env.trans e2, h.ready.trans e3, h.startTime.trans e4, h.now.trans e5,
   h.nextPing.trans e6, by rw [← e7]; exact h.tr, fun hc hx => h.flag (e1.trans hc) (hf hc hx)⟩

theorem pa_sendFrame (op : Nat) (pl : Bytes) (c : Option Bytes) (s : Sys) : PA cfg0 s (sendFrame op pl c s).state := by
  unfold sendFrame; simp only []
  split
  · split
    · exact (pa_write _ none _).after_same rfl rfl rfl rfl rfl rfl rfl (fun _ h => flagEv_same rfl rfl rfl rfl h)
    · exact ⟨rfl, rfl, rfl, rfl, rfl, rfl, Or.inl rfl, fun _ h => flagEv_same rfl rfl rfl rfl h⟩
  · exact (pa_write _ _ _).after_same rfl rfl rfl rfl rfl rfl rfl (fun _ h => flagEv_same rfl rfl rfl rfl h)

theorem pa_sendData (op : Nat) (pl : Bytes) (c : Bool) (s : Sys) : PA cfg0 s (sendData op pl c s).state := by
  unfold sendData; split <;> exact pa_sendFrame _ _ _ s

theorem isClose_csEv {o : Obs} (h : o.isClose = true) : csEv o = true := by simp [csEv, h]

theorem wrEntry_of_isClose {o : Obs} (h : o.isClose = true) : WrEntry o := by
  cases o <;> simp [Obs.isClose] at h
  · exact Or.inl ⟨_, rfl⟩
  · exact Or.inr (Or.inr (Or.inl ⟨_, _, rfl⟩))
  · exact Or.inr (Or.inl ⟨_, rfl⟩)

/-- `close()`: when it arms the timer the websocket is closing, and that shows on the trace -/
theorem pa_wsClose (c : Option Nat) (r : Arg) (s : Sys) : PA cfg0 s (wsClose c r s).state := by
  have q := quietP_wsClose c r s
  have g := quietG_wsClose c r s
  rcases wsClose_cases c r s with e | a
  · rw [e]; exact pa_refl s
  · refine ⟨q.cfg, q.env, q.ready, q.startTime, q.now, g.nextPing, ?_, ?_⟩
    · rcases a.tr with ⟨e, _⟩ | ⟨o, e, ho, _⟩
      · exact Or.inl e
      · exact Or.inr ⟨o, e, wrEntry_of_isClose ho⟩
    · intro hc hf _
      rcases a.tr with ⟨e, hno⟩ | ⟨o, e, ho, _⟩
      · rcases hno with hso | hv
        · rw [e]; exact hf (Or.inr (Or.inr hso))
        · exact Or.inr (Or.inr (by rw [← hc]; exact hv))
      · refine Or.inl ?_
        rw [e]; simp only [closeStarted, List.any_cons, isClose_csEv ho, Bool.true_or]

theorem pa_sessionClose (s : Sys) : PA cfg0 s ((do closeSocket; pure ActRes.ok : M ActRes) s).state := by
  obtain ⟨s1, e1⟩ := closeSocket_ok s
  rw [bind_ok e1]
  show PA cfg0 s s1
  unfold closeSocket at e1
  split at e1
  · cases e1
    refine ⟨rfl, rfl, rfl, rfl, rfl, rfl, Or.inr ⟨_, rfl, Or.inr (Or.inr (Or.inr rfl))⟩, fun _ _ _ => Or.inl ?_⟩
    simp [closeStarted, csEv]
  · cases e1; exact pa_refl s

/-- the head of the trace is not one of the library's own Ping frames (true after every event
    hand-over and after every result token) -/
def TopOK (tr : List Obs) : Prop := ∀ o t, tr = o :: t → o.tmPingWr = false

theorem stamps_res_top (r : ActRes) (tr : List Obs) (h : TopOK tr) : pingStamps (.res r :: tr) = pingStamps tr := by
  rw [stamps_res_cons]
  cases tr with
  | nil => rfl
  | cons o t =>
    have ho := h o t rfl
    unfold pingStamps
    by_cases hr : o.tmIsReady = true
    · rw [stampsAux_ready _ _ hr, stampsAux_ready _ _ hr]
    · have hr' : o.tmIsReady = false := by simpa using hr
      rw [stampsAux_true_cons t hr', stampsAux_false_cons t hr', ho]
      simp

/-- an application call and its result token -/
theorem PI.appCall {s s1 : Sys} (h : PI hi cfg0 env0 sl s) (a : PA cfg0 s s1) (r : ActRes) (htop : TopOK s.trace) :
    PI hi cfg0 env0 sl { s1 with trace := .res r :: s1.trace } ∧ TopOK (.res r :: s1.trace) := by
  refine ⟨?_, fun o t e => (by cases e; rfl)⟩
  have hf1 := a.flag h.b.cfg h.w.flag
  rcases a.tr with e | ⟨o, e, ho⟩
  · refine h.ext a.cfg a.env a.ready a.startTime a.now a.nextPing [.res r] (by show _ :: s1.trace = _; rw [e]; rfl)
      rfl rfl (stamps_res_top r _ htop) (by simp [connSeen, isConnEv]) (by intro o ho; simp at ho; subst ho; rfl) ?_
    exact flagEv_cons (s := s1) rfl rfl rfl rfl rfl hf1
  · obtain ⟨o1, o2, o3, o4⟩ := ho.facts
    refine h.ext a.cfg a.env a.ready a.startTime a.now a.nextPing [.res r, o] (by show _ :: s1.trace = _; rw [e]; rfl)
      ?_ ?_ (stamps_res_write r _ o2 o3) ?_ ?_ ?_
    · show clockOf (.res r :: o :: s.trace) = _
      rw [clockOf_cons_of _ rfl, clockOf_cons_of _ o1]
    · show readyAt (.res r :: o :: s.trace) = _
      rw [readyAt_cons_of _ rfl, readyAt_cons_of _ o2]
    · show (isConnEv (.res r) || (isConnEv o || s.trace.any isConnEv)) = s.trace.any isConnEv
      rw [o4]; rfl
    · intro o' ho'
      simp at ho'
      rcases ho' with rfl | rfl
      · rfl
      · exact o1
    · exact flagEv_cons (s := s1) rfl rfl rfl rfl rfl hf1

theorem logRes_eq {m : M ActRes} {s s1 : Sys} {r : ActRes} (h : m s = .ok r s1) :
    logRes m s = .ok () { s1 with trace := .res r :: s1.trace } := by
  unfold logRes; rw [bind_ok h]; rfl

/-- outcome of an application call with its result token: it never raises -/
theorem PI.logged {m : M ActRes} {s : Sys} (h : PI hi cfg0 env0 sl s) (htop : TopOK s.trace)
    (hm : ∃ r s1, m s = .ok r s1) (ha : PA cfg0 s (m s).state) :
    ∃ s2, Lomond.Core.logRes m s = .ok () s2 ∧ PI hi cfg0 env0 sl s2 ∧ TopOK s2.trace := by
  obtain ⟨r, s1, e⟩ := hm
  rw [e] at ha
  exact ⟨_, logRes_eq e, h.appCall ha r htop⟩

/-- one application call: returns with the invariant, or abandons the iterator leaving the state alone -/
theorem PI.act (a : Act) {s : Sys} (h : PI hi cfg0 env0 sl s) (htop : TopOK s.trace) :
    (∃ s2, doAct a s = .ok () s2 ∧ PI hi cfg0 env0 sl s2 ∧ TopOK s2.trace) ∨
    (∃ s2, doAct a s = .err .genExit s2 ∧ PI hi cfg0 env0 sl s2) := by
  have pureCase : ∀ r : ActRes, ∃ s2, Lomond.Core.logRes (pure r) s = .ok () s2 ∧ PI hi cfg0 env0 sl s2 ∧ TopOK s2.trace :=
    fun r => h.logged htop ⟨r, s, rfl⟩ (pa_refl s)
  have dataCase : ∀ op pl c, ∃ s2, Lomond.Core.logRes (sendData op pl c) s = .ok () s2 ∧ PI hi cfg0 env0 sl s2 ∧ TopOK s2.trace := by
    intro op pl c
    refine h.logged htop ?_ (pa_sendData op pl c s)
    unfold sendData; split <;> exact sendFrame_ok _ _ _ s
  have frameCase : ∀ op pl, ∃ s2, Lomond.Core.logRes (sendFrame op pl none) s = .ok () s2 ∧ PI hi cfg0 env0 sl s2 ∧ TopOK s2.trace :=
    fun op pl => h.logged htop (sendFrame_ok _ _ _ s) (pa_sendFrame op pl none s)
  unfold Lomond.Core.doAct
  split
  · left; split
    · exact pureCase _
    · exact dataCase _ _ _
  · left; exact pureCase _
  · left; exact dataCase _ _ _
  · left; exact pureCase _
  · left; split
    · exact pureCase _
    · exact frameCase _ _
  · left; exact pureCase _
  · left; split
    · exact pureCase _
    · exact frameCase _ _
  · left; exact pureCase _
  · left
    rename_i code reason
    refine h.logged htop ?_ (pa_wsClose code reason s)
    obtain ⟨r, s1, e, _⟩ := wsClose_eff code reason s
    exact ⟨r, s1, e⟩
  · left
    refine h.logged htop ?_ (pa_sessionClose s)
    obtain ⟨s1, e1⟩ := closeSocket_ok s
    exact ⟨.ok, s1, by rw [bind_ok e1]; rfl⟩
  · right
    rename_i w
    exact ⟨_, rfl, h.ext rfl rfl rfl rfl rfl rfl [] rfl rfl rfl rfl rfl (by intro o ho; cases ho)
      (flagEv_same rfl rfl rfl rfl h.w.flag)⟩

theorem PI.acts (as : List Act) {s : Sys} (h : PI hi cfg0 env0 sl s) (htop : TopOK s.trace) :
    (∃ s2, doActs as s = .ok () s2 ∧ PI hi cfg0 env0 sl s2) ∨
    (∃ s2, doActs as s = .err .genExit s2 ∧ PI hi cfg0 env0 sl s2) := by
  induction as generalizing s with
  | nil => exact Or.inl ⟨s, rfl, h⟩
  | cons a r ih =>
    unfold Lomond.Core.doActs
    rcases h.act a htop with ⟨s2, e, h2, t2⟩ | ⟨s2, e, h2⟩
    · rw [bind_ok e]; exact ih h2 t2
    · rw [bind_err e]; exact Or.inr ⟨s2, rfl, h2⟩

end PApp


/-! ## Part 16: the automatic-Ping invariant through `_regular()` -/

section PLib
variable {hi : Bool} {cfg0 : Cfg} {env0 : List EnvStep} {sl : Nat}

/-- normal exit: the invariant; exceptional exit: the application abandoned, the invariant holds -/
def YOutP (hi : Bool) (cfg0 : Cfg) (env0 : List EnvStep) (sl : Nat) : Res Unit → Prop
  | .ok _ s' => PI hi cfg0 env0 sl s'
  | .err x s' => x = .genExit ∧ PI hi cfg0 env0 sl s'

theorem topOK_ev (e : Event) (t : List Obs) : TopOK (.ev e :: t) := fun o t' h => by cases h; rfl

theorem yieldEv_P (e : Event) (h1 : (Obs.ev e).tmIsReady = false) (h2 : isConnEv (.ev e) = false) {s : Sys}
    (h : PI hi cfg0 env0 sl s) : YOutP hi cfg0 env0 sl (yieldEv e s) := by
  have hp := h.quiet (pq_pushEv e s h1 h2)
  rcases hp.acts ((Pong.pushEv e s).react (Pong.pushEv e s).hist) (topOK_ev e s.trace) with ⟨s2, e2, h2'⟩ | ⟨s2, e2, h2'⟩
  · rw [(yieldEv_eq e s).trans e2]; exact h2'
  · rw [(yieldEv_eq e s).trans e2]; exact ⟨rfl, h2'⟩

theorem checkPoll_P {s : Sys} (h : PI hi cfg0 env0 sl s) : YOutP hi cfg0 env0 sl (checkPoll s) := by
  by_cases hd : pollDue s
  · rw [checkPoll_fires s hd]
    exact yieldEv_P .poll rfl rfl (h.quiet (PQ.same rfl rfl rfl rfl rfl rfl rfl rfl rfl rfl : PQ s (pollMark s)))
  · cases hps : s.pollStart with
    | none => exact absurd (Or.inl hps) hd
    | some p0 =>
      have hlt : sessionTime s - p0 < s.cfg.poll := by
        apply Nat.lt_of_not_le
        intro hc
        exact hd (Or.inr ⟨p0, hps, hc⟩)
      rw [checkPoll_quiet s p0 hps hlt]
      exact h

theorem checkPingTimeout_P {s : Sys} (h : PI hi cfg0 env0 sl s) :
    match checkPingTimeout s with
    | .ok _ s' => PI hi cfg0 env0 sl s'
    | .err x s' => (x = .genExit ∨ x = .forceDisconnect "ping-timeout") ∧ PI hi cfg0 env0 sl s' := by
  by_cases hd : pingTimeoutDue s
  · rw [checkPingTimeout_fires s hd]
    have hy := yieldEv_P (hi := hi) (cfg0 := cfg0) (env0 := env0) (sl := sl) .unresponsive rfl rfl h
    cases e : yieldEv .unresponsive s with
    | ok u s1 => rw [e] at hy; rw [bind_ok e]; exact ⟨Or.inr rfl, hy⟩
    | err x s1 => rw [e] at hy; rw [bind_err e]; exact ⟨Or.inl hy.1, hy.2⟩
  · rw [checkPingTimeout_quiet s hd]; exact h

/-- the Ping frame goes out when nothing stands in its way -/
theorem sendPing_open (s : Sys) (h1 : s.sockOpen = true) (h2 : s.closing = false) (h3 : s.closed = false) :
    ∃ o b, (sendFrame Gen.opPing [] none s).state.trace = o :: s.trace ∧ (o = .wr b ∨ o = .wrFail b) ∧
      isPingFrame b = true := by
  unfold sendFrame
  simp only [build_ping_empty]
  unfold write
  simp only [h1, h2, h3, Bool.false_eq_true, not_true_eq_false, if_false]
  split
  · exact ⟨_, _, rfl, Or.inr rfl, rfl⟩
  · exact ⟨_, _, rfl, Or.inl rfl, rfl⟩

theorem hasTry_cons {r D k : Nat} (o : Obs) (t : List Obs) (hs : ∀ q ∈ pingStamps t, q ∈ pingStamps (o :: t))
    (h : HasTry r D k t) : HasTry r D k (o :: t) := by
  rcases h with ⟨q, hq, h1⟩ | ⟨l1, b, t0, e, h1⟩
  · exact Or.inl ⟨q, hs q hq, h1⟩
  · exact Or.inr ⟨o :: l1, b, t0, by rw [e]; rfl, h1⟩

theorem isPingFrame_of_build {key b : Bytes} (h : Frame.build Gen.opPing [] key = some b) : isPingFrame b = true := by
  have := build_head _ _ _ _ h
  unfold isPingFrame; rw [this]; rfl

/-- what `session.send(PING)` leaves on the trace -/
theorem sendPing_entry (s : Sys) :
    (sendFrame Gen.opPing [] none s).state.trace = s.trace ∨
    ∃ o b, (sendFrame Gen.opPing [] none s).state.trace = o :: s.trace ∧ (o = .wr b ∨ o = .wrFail b) ∧
      isPingFrame b = true := by
  unfold sendFrame
  simp only [build_ping_empty]
  unfold write
  simp only []
  splits
  all_goals first
    | exact Or.inl rfl
    | exact Or.inr ⟨_, _, rfl, Or.inr rfl, rfl⟩
    | exact Or.inr ⟨_, _, rfl, Or.inl rfl, rfl⟩

theorem mul_lt_succ_mul {m k r : Nat} (h : m * r < (k + 1) * r) : m ≤ k := by
  have := Nat.lt_of_mul_lt_mul_right h
  omega

/-- **`_check_auto_ping` serves every period the session has entered** -/
theorem checkAutoPing_P {s : Sys} (h : PI hi cfg0 env0 sl s) (hsl : hi = true → sl ≤ cfg0.poll) :
    ∃ s', checkAutoPing s = .ok () s' ∧ PI hi cfg0 env0 0 s' := by
  have hst := h.b.sess
  obtain ⟨m, hm⟩ := h.w.mult
  by_cases hd : pingDue s
  · -- a Ping is due
    rw [checkAutoPing_fires s hd]
    obtain ⟨hr0, hgt⟩ := hd
    rw [h.b.cfg] at hr0
    have hrpos : 0 < cfg0.pingRate := Nat.pos_of_ne_zero hr0
    obtain ⟨rr, s1, hsf⟩ := sendFrame_ok Gen.opPing [] none (pingMark s)
    have e : (do let _ ← sendFrame Gen.opPing [] none; pure () : M Unit) (pingMark s) = .ok () s1 := by
      rw [bind_ok hsf]; rfl
    refine ⟨s1, e, ?_⟩
    have pa := pa_sendFrame (cfg0 := cfg0) Gen.opPing [] none (pingMark s)
    rw [hsf] at pa
    simp only [Res.state_ok] at pa
    have hnp : s1.nextPing = ceilDiv (sessionTime s) cfg0.pingRate * cfg0.pingRate := by
      rw [pa.nextPing]; show ceilDiv (sessionTime s) s.cfg.pingRate * s.cfg.pingRate = _; rw [h.b.cfg]
    have hfl : FlagEv cfg0 s1 := pa.flag h.b.cfg (flagEv_same (s := s) rfl rfl rfl rfl h.w.flag)
    have hent := sendPing_entry (pingMark s)
    rw [hsf] at hent
    simp only [Res.state_ok] at hent
    have htr0 : (pingMark s).trace = s.trace := rfl
    rw [htr0] at hent
    -- facts about the new trace
    have hfacts : clockOf s1.trace = clockOf s.trace ∧ readyAt s1.trace = readyAt s.trace ∧
        connSeen s1.trace = connSeen s.trace ∧ (∀ q ∈ pingStamps s.trace, q ∈ pingStamps s1.trace) ∧
        (closeStarted s1.trace = false → closeStarted s.trace = false) ∧
        (∀ k, HasTry cfg0.pingRate cfg0.poll k s.trace → HasTry cfg0.pingRate cfg0.poll k s1.trace) ∧
        (TickP cfg0 s.trace → TickP cfg0 s1.trace) := by
      rcases hent with e1 | ⟨o, b, e1, ho, hb⟩
      · rw [e1]; exact ⟨rfl, rfl, rfl, fun q hq => hq, fun x => x, fun k x => x, fun x => x⟩
      · rw [e1]
        have o1 : o.tmTickVal = none := by rcases ho with rfl | rfl <;> rfl
        have o2 : o.tmIsReady = false := by rcases ho with rfl | rfl <;> rfl
        have hsub : ∀ q ∈ pingStamps s.trace, q ∈ pingStamps (o :: s.trace) := by
          intro q hq
          rcases ho with rfl | rfl
          · rw [stamps_ping b _ hb]; split
            · exact List.mem_cons_of_mem _ hq
            · exact hq
          · rw [stamps_cons_plain _ rfl rfl rfl]; exact hq
        refine ⟨clockOf_cons_of _ o1, readyAt_cons_of _ o2, ?_, hsub, ?_, fun k x => hasTry_cons o _ hsub x,
          fun x => (tickP_cons_none _ _ o1).mpr x⟩
        · rcases ho with rfl | rfl <;> simp [connSeen, isConnEv]
        · intro hx; exact closeStarted_append_false (l := [o]) hx
    obtain ⟨f1, f2, f3, f4, f5, f6, f7⟩ := hfacts
    have f8 : sessOf s1.trace = sessOf s.trace := by unfold sessOf; rw [f1, f2]
    refine ⟨⟨pa.cfg.trans h.b.cfg, pa.env.trans h.b.env, ?_, ?_, ?_⟩, ⟨⟨_, hnp⟩, hfl, fun hhi => f7 (h.w.tok hhi), by rw [f1, f2]; exact h.w.le⟩, ?_, ?_, ?_⟩
    · rw [pa.now, f1]; exact h.b.now
    · rw [pa.startTime, f2]; exact h.b.start
    · rw [pa.ready, pa.startTime]; exact h.b.rdy
    · intro _ _
      rw [hnp, f8, ← hst]
      have := le_ceilDiv_mul (sessionTime s) cfg0.pingRate hrpos
      omega
    · intro _ _
      rw [hnp, f8, ← hst]
      have := ceilDiv_mul_lt (sessionTime s) cfg0.pingRate hrpos
      omega
    · intro hhi hr hv hrd hcn hcs k hk
      rw [f8] at hk
      rw [f2] at hrd
      rw [f3] at hcn
      have hcs0 := f5 hcs
      by_cases hold : k * cfg0.pingRate + sl < sessOf s.trace
      · exact f6 k (h.c hhi hr hv hrd hcn hcs0 k hold)
      · -- the Ping written right now is the one for this period
        have hflags : s.closing = false ∧ s.closed = false ∧ s.sockOpen = true := by
          have := h.w.flag
          unfold FlagEv at this
          refine ⟨?_, ?_, ?_⟩
          · cases hx : s.closing with
            | false => rfl
            | true =>
              rcases this (Or.inl hx) with h' | h' | h'
              · rw [hcs0] at h'; cases h'
              · rw [hcn] at h'; cases h'
              · rw [hv] at h'; cases h'
          · cases hx : s.closed with
            | false => rfl
            | true =>
              rcases this (Or.inr (Or.inl hx)) with h' | h' | h'
              · rw [hcs0] at h'; cases h'
              · rw [hcn] at h'; cases h'
              · rw [hv] at h'; cases h'
          · cases hx : s.sockOpen with
            | true => rfl
            | false =>
              rcases this (Or.inr (Or.inr hx)) with h' | h' | h'
              · rw [hcs0] at h'; cases h'
              · rw [hcn] at h'; cases h'
              · rw [hv] at h'; cases h'
        obtain ⟨o, b, e1, ho, hb⟩ := sendPing_open (pingMark s) hflags.2.2 hflags.1 hflags.2.1
        rw [hsf] at e1
        simp only [Res.state_ok] at e1
        rw [htr0] at e1
        have hD := hsl hhi
        rcases ho with rfl | rfl
        · left
          refine ⟨sessOf s.trace, ?_, hk, by omega⟩
          rw [e1, stamps_ping b _ hb]
          have : (readyAt s.trace).isSome = true := by
            cases hx : readyAt s.trace with
            | none => exact absurd hx hrd
            | some _ => rfl
          simp [this]
        · right
          exact ⟨[], b, s.trace, by rw [e1]; rfl, hb, hk, by omega⟩
  · -- no Ping due: the session time has not passed `_next_ping`
    refine ⟨s, checkAutoPing_quiet s hd, h.b, h.w, ?_, ?_, ?_⟩
    · intro hr hrd
      have : ¬ (sessionTime s > s.nextPing) := fun hx => hd ⟨by rw [h.b.cfg]; exact hr, hx⟩
      rw [hst] at this
      omega
    · intro hr hrd
      have := h.n hr hrd
      omega
    · intro hhi hr hv hrd hcn hcs k hk
      by_cases hold : k * cfg0.pingRate + sl < sessOf s.trace
      · exact h.c hhi hr hv hrd hcn hcs k hold
      · exfalso
        have h1 : ¬ (sessionTime s > s.nextPing) := fun hx => hd ⟨by rw [h.b.cfg]; exact hr, hx⟩
        rw [hst, hm] at h1
        have h2 := h.n hr hrd
        rw [hm] at h2
        have h3 : m * cfg0.pingRate < (k + 1) * cfg0.pingRate := by
          rw [Nat.add_mul, Nat.one_mul]; omega
        have h4 := mul_lt_succ_mul h3
        have h5 := Nat.mul_le_mul_right cfg0.pingRate h4
        omega

end PLib




/-! ## Part 17: the automatic Ping — clock advance, `_regular()`, `feedYield` -/

section PReg
variable {hi : Bool} {cfg0 : Cfg} {env0 : List EnvStep}

theorem PI.tick {s : Sys} (h : PI hi cfg0 env0 0 s) (dt : Nat) : PI hi cfg0 env0 dt (tick s dt) := by
  by_cases h0 : dt = 0
  · subst h0; rw [tick_zero']; exact h
  · have hb := h.b.tick dt
    rw [tick_pos s dt h0] at hb ⊢
    have hra : readyAt (.tick (s.now + dt) :: s.trace) = readyAt s.trace := readyAt_tick _ _
    have hse : readyAt s.trace ≠ none → sessOf (.tick (s.now + dt) :: s.trace) = sessOf s.trace + dt := by
      intro hr
      unfold sessOf
      rw [readyAt_tick, clockOf_tick, ← h.b.now]
      cases hx : readyAt s.trace with
      | none => exact absurd hx hr
      | some t0 =>
        have := h.w.le t0 hx
        rw [← h.b.now] at this
        simp only; omega
    have hst : pingStamps (.tick (s.now + dt) :: s.trace) = pingStamps s.trace := stamps_cons_plain _ rfl rfl rfl
    refine ⟨hb, ⟨h.w.mult, ?_, ?_, ?_⟩, ?_, ?_, ?_⟩
    · exact flagEv_cons (s := s) (o := .tick (s.now + dt)) rfl rfl rfl rfl rfl h.w.flag
    · intro hhi
      show TickP cfg0 (.tick (s.now + dt) :: s.trace)
      exact ⟨fun _ => h.c hhi, h.w.tok hhi⟩
    · intro t0 ht0
      have hx : readyAt s.trace = some t0 := by rw [← hra]; exact ht0
      have := h.w.le t0 hx
      show t0 ≤ clockOf (.tick (s.now + dt) :: s.trace)
      rw [clockOf_tick, h.b.now]; omega
    · intro hr hrd
      have hrd' : readyAt s.trace ≠ none := by rw [← hra]; exact hrd
      show sessOf (.tick (s.now + dt) :: s.trace) ≤ s.nextPing + dt
      rw [hse hrd']
      have := h.f hr hrd'
      omega
    · intro hr hrd
      have hrd' : readyAt s.trace ≠ none := by rw [← hra]; exact hrd
      show s.nextPing + dt < sessOf (.tick (s.now + dt) :: s.trace) + cfg0.pingRate
      rw [hse hrd']
      have := h.n hr hrd'
      omega
    · intro hhi hr hv hrd hcn hcs k hk
      have hrd' : readyAt s.trace ≠ none := by rw [← hra]; exact hrd
      have hk' : k * cfg0.pingRate + dt < sessOf s.trace + dt := by
        have : sessOf (.tick (s.now + dt) :: s.trace) = sessOf s.trace + dt := hse hrd'
        have hk2 : k * cfg0.pingRate + dt < sessOf (.tick (s.now + dt) :: s.trace) := hk
        omega
      have hcn' : connSeen s.trace = true := by
        have : connSeen (.tick (s.now + dt) :: s.trace) = true := hcn
        simpa [connSeen, isConnEv] using this
      have hcs' : closeStarted s.trace = false := closeStarted_append_false (l := [.tick (s.now + dt)]) hcs
      have := h.c hhi hr hv hrd' hcn' hcs' k (by omega)
      exact hasTry_append [.tick (s.now + dt)] _ hst this

/-- outcome of `_regular()` after a `selector.wait` of `dt` ticks, for the automatic Ping -/
def RegOutP (hi : Bool) (cfg0 : Cfg) (env0 : List EnvStep) (dt : Nat) : Res Unit → Prop
  | .ok _ s' => PI hi cfg0 env0 0 s'
  | .err x s' => (x = .genExit ∧ PI hi cfg0 env0 dt s') ∨
      ((x = .genExit ∨ x = .forceDisconnect "ping-timeout" ∨ x = .forceDisconnect "close-timeout") ∧
        PI hi cfg0 env0 0 s')

theorem regular_tick_P {s : Sys} (h : PI hi cfg0 env0 0 s) (dt : Nat) (hdt : hi = true → dt ≤ cfg0.poll) :
    RegOutP hi cfg0 env0 dt (regular (tick s dt)) := by
  have ht := h.tick dt
  generalize tick s dt = st at ht
  by_cases hr : st.ready = true
  · rw [regular_ready st hr]
    have h1 := checkPoll_P ht
    cases e1 : checkPoll st with
    | err x s1 =>
      rw [e1] at h1; rw [bind_err e1]
      exact Or.inl h1
    | ok u1 s1 =>
      rw [e1] at h1; rw [bind_ok e1]
      obtain ⟨s2, e2, h2⟩ := checkAutoPing_P h1 hdt
      rw [bind_ok e2]
      have h3 := checkPingTimeout_P h2
      cases e3 : checkPingTimeout s2 with
      | err x s3 =>
        rw [e3] at h3; rw [bind_err e3]
        rcases h3.1 with hx | hx
        · exact Or.inr ⟨Or.inl hx, h3.2⟩
        · exact Or.inr ⟨Or.inr (Or.inl hx), h3.2⟩
      | ok u3 s3 =>
        rw [e3] at h3; rw [bind_ok e3]
        rcases checkCloseTimeout_cases s3 with e4 | e4
        · rw [e4]; exact h3
        · rw [e4]; exact Or.inr ⟨Or.inr (Or.inr rfl), h3⟩
  · have hr' : st.ready = false := by simpa using hr
    rw [regular_not_ready st hr']
    have hnr := (ht.b.notReady hr').1
    exact ⟨ht.b, ht.w, fun _ hx => absurd hnr hx, fun _ hx => absurd hnr hx,
      fun _ _ _ hx => absurd hnr hx⟩

theorem PI.ready {s : Sys} (h : PI hi cfg0 env0 0 s) (a : Option Http.Str) (b : Bool) :
    PI hi cfg0 env0 0 (Pong.pushEv (.ready a b) (readyState s)) := by
  have hs0 : sessOf (.ev (.ready a b) :: s.trace) = 0 := sessOf_ready a b s.trace
  refine ⟨⟨h.b.cfg, h.b.env, ?_, ?_, ?_⟩, ⟨⟨0, (Nat.zero_mul _).symm⟩, ?_, ?_, ?_⟩, ?_, ?_, ?_⟩
  · show s.now = clockOf (.ev (.ready a b) :: s.trace)
    rw [clockOf_ready]; exact h.b.now
  · show some s.now = readyAt (.ev (.ready a b) :: s.trace)
    rw [readyAt_ready, h.b.now]
  · show true = true ↔ some s.now ≠ none
    simp
  · exact flagEv_cons (s := s) (o := .ev (.ready a b)) rfl rfl rfl rfl rfl h.w.flag
  · intro hhi
    show TickP cfg0 (.ev (.ready a b) :: s.trace)
    rw [tickP_cons_none _ _ rfl]; exact h.w.tok hhi
  · intro t0 ht0
    have : readyAt (.ev (.ready a b) :: s.trace) = some t0 := ht0
    rw [readyAt_ready] at this
    cases this
    show clockOf s.trace ≤ clockOf (.ev (.ready a b) :: s.trace)
    rw [clockOf_ready]; exact Nat.le_refl _
  · intro _ _
    show sessOf (.ev (.ready a b) :: s.trace) ≤ 0 + 0
    rw [hs0]; exact Nat.le_refl _
  · intro hr _
    show 0 + 0 < sessOf (.ev (.ready a b) :: s.trace) + cfg0.pingRate
    rw [hs0]
    have := Nat.pos_of_ne_zero hr
    omega
  · intro _ _ _ _ _ _ k hk
    have : k * cfg0.pingRate + 0 < sessOf (.ev (.ready a b) :: s.trace) := hk
    rw [hs0] at this
    omega

/-- `_on_event` and handing the event over -/
theorem onEvent_push_P {e : Event} (hf : isFeedEvent e = true) {s : Sys} (h : PI hi cfg0 env0 0 s) :
    match onEvent e s with
    | .ok _ s1 => PI hi cfg0 env0 0 (Pong.pushEv e s1)
    | .err x s1 => x.boring = true ∧ s1 = s := by
  cases hE : onEvent e s with
  | err x s1 => exact onEvent_err_boring hE
  | ok u s1 =>
    simp only []
    cases e with
    | ready a b => simp only [onEvent] at hE; cases hE; exact h.ready a b
    | pong d =>
      simp only [onEvent] at hE; cases hE
      exact (h.quiet (PQ.same rfl rfl rfl rfl rfl rfl rfl rfl rfl rfl :
        PQ s { s with lastPong := sessionTime s })).quiet (pq_pushEv _ _ rfl rfl)
    | ping d =>
      have h1 : PI hi cfg0 env0 0 s1 := by
        simp only [onEvent] at hE
        repeat' split at hE
        all_goals first
          | (cases hE; exact h)
          | (cases hE; done)
          | (rename_i heq; cases hE; exact h.quiet ((pq_sendFrame _ _ (by decide)).ok heq))
      exact h1.quiet (pq_pushEv _ _ rfl rfl)
    | _ =>
      first
        | (simp [isFeedEvent] at hf; done)
        | (simp only [onEvent] at hE; cases hE; exact h.quiet (pq_pushEv _ _ rfl rfl))

end PReg


/-! ## Part 18: the automatic-Ping instance of the result-aware lifting -/

section PInst
variable {hi : Bool} {cfg0 : Cfg} {env0 : List EnvStep} {sl : Nat}

/-- the websocket flags change, with the evidence on the trace -/
theorem PI.setFlags {s : Sys} (h : PI hi cfg0 env0 sl s) (c d : Bool)
    (hev : closeStarted s.trace = true ∨ connSeen s.trace = false ∨ cfg0.v.closeArgs = false) :
    PI hi cfg0 env0 sl { s with closing := c, closed := d } :=
  h.ext rfl rfl rfl rfl rfl rfl [] rfl rfl rfl rfl rfl (by intro o ho; cases ho) (fun _ => hev)

theorem onDisconnect_P {s : Sys} (h : PI hi cfg0 env0 sl s) :
    ∃ s', onDisconnect s = .ok () s' ∧ PI hi cfg0 env0 sl s' ∧ s'.closed = true := by
  obtain ⟨s1, e1⟩ := closeSocket_ok s
  have h1 : PI hi cfg0 env0 sl s1 := h.quiet (pq_closeSocket.ok e1)
  have hso : s1.sockOpen = false := by
    have := (closeSocket_state s).1; rw [e1] at this; exact this
  refine ⟨{ s1 with closing := false, closed := true }, ?_, h1.setFlags false true (h1.w.flag (Or.inr (Or.inr hso))), rfl⟩
  unfold onDisconnect
  rw [bind_ok e1]; rfl

/-- a library call of `close()` (the echo of the server's Close, or after a protocol error) -/
theorem wsClose_P (c : Option Nat) (r : Arg) {s : Sys} (h : PI hi cfg0 env0 sl s) :
    PI hi cfg0 env0 sl (wsClose c r s).state := by
  have a := pa_wsClose (cfg0 := cfg0) c r s
  have hf := a.flag h.b.cfg h.w.flag
  rcases a.tr with e | ⟨o, e, ho⟩
  · exact h.ext a.cfg a.env a.ready a.startTime a.now a.nextPing [] e rfl rfl rfl rfl (by intro o ho; cases ho) hf
  · obtain ⟨o1, o2, o3, o4⟩ := ho.facts
    -- the entry is the Close frame: not one of the library's Pings
    have hnp : o.tmPingWr = false := by
      obtain ⟨rr, s1, he, _, _, _, _, ht⟩ := wsClose_eff c r s
      rw [he] at e
      simp only [Res.state_ok] at e
      rcases ht with ht | ⟨o', ht, _, hb⟩
      · rw [ht] at e
        exact absurd (congrArg List.length e) (by simp)
      · rw [ht] at e
        have : o' = o := by simpa using e
        subst this
        cases o' with
        | wr b => exact not_pingFrame_of_head (hb b rfl) (by decide)
        | _ => rfl
    exact h.ext a.cfg a.env a.ready a.startTime a.now a.nextPing [o] e (clockOf_cons_of _ o1) (readyAt_cons_of _ o2)
      (stamps_cons_plain _ o2 o3 hnp) (by simp [connSeen, o4]) (by intro o' ho'; simp at ho'; subst ho'; exact o1) hf

/-- what an exception in flight says about the automatic Ping -/
def PP (hi : Bool) (cfg0 : Cfg) (env0 : List EnvStep) (y : Exn) (s : Sys) : Prop :=
  (∀ z, y ≠ .outer z) ∧
  ((y.boring = true ∨ y = .scriptEnd ∨ ∃ k, y = .forceDisconnect k ∧ k ≠ "close-timeout" ∧ k ≠ "ping-timeout") →
    PI hi cfg0 env0 0 s) ∧
  (∀ k, y = .other k ∨ y = .socketFail k → y.boring = true)

def XP (hi : Bool) (cfg0 : Cfg) (env0 : List EnvStep) (x : Exn) (s : Sys) : Prop :=
  (∃ sl, PI hi cfg0 env0 sl s) ∧ PP hi cfg0 env0 x.core s

theorem XP.of_pi {x : Exn} {s : Sys} (h : PI hi cfg0 env0 0 s) (h1 : x.core = x) (h2 : ∀ z, x ≠ .outer z)
    (h4 : ∀ k, x = .other k ∨ x = .socketFail k → x.boring = true) : XP hi cfg0 env0 x s :=
  ⟨⟨0, h⟩, by rw [h1]; exact ⟨h2, fun _ => h, h4⟩⟩

theorem XP.plainKind {x : Exn} {s : Sys} {sl : Nat} (h : PI hi cfg0 env0 sl s)
    (hx : x = .genExit ∨ x = .forceDisconnect "ping-timeout" ∨ x = .forceDisconnect "close-timeout") :
    PP hi cfg0 env0 x s := by
  rcases hx with rfl | rfl | rfl
  · exact ⟨fun z e => (by cases e), fun hh => (by rcases hh with hh | hh | ⟨k, hh, _⟩ <;> cases hh),
      fun k hh => (by rcases hh with hh | hh <;> cases hh)⟩
  · exact ⟨fun z e => (by cases e), fun hh => (by
      rcases hh with hh | hh | ⟨k, hh, _, h3⟩
      · cases hh
      · cases hh
      · cases hh; exact absurd rfl h3), fun k hh => (by rcases hh with hh | hh <;> cases hh)⟩
  · exact ⟨fun z e => (by cases e), fun hh => (by
      rcases hh with hh | hh | ⟨k, hh, h2, _⟩
      · cases hh
      · cases hh
      · cases hh; exact absurd rfl h2), fun k hh => (by rcases hh with hh | hh <;> cases hh)⟩

/-- outcome of `feedYield`, for the automatic Ping -/
def FeedOutP (hi : Bool) (cfg0 : Cfg) (env0 : List EnvStep) : Res Unit → Prop
  | .ok _ s' => PI hi cfg0 env0 0 s'
  | .err y s' => PI hi cfg0 env0 0 s' ∧ ∃ x, y = .outer x ∧ (x.boring = true ∨ x = .genExit ∨
      x = .forceDisconnect "ping-timeout" ∨ x = .forceDisconnect "close-timeout")

theorem handler_P (b : Bool) (x : Exn) {s1 : Sys} (h : PI hi cfg0 env0 0 s1)
    (hx : x.boring = true ∨ x = .genExit ∨ x = .forceDisconnect "ping-timeout" ∨ x = .forceDisconnect "close-timeout") :
    FeedOutP hi cfg0 env0
      ((do (if b then onDisconnect else pure ()); throwE (.outer x) : M Unit) s1) := by
  cases b with
  | true =>
    simp only [if_true]
    obtain ⟨s2, hd, h2, _⟩ := onDisconnect_P h
    rw [bind_ok hd]
    exact ⟨h2, x, rfl, hx⟩
  | false =>
    simp only [Bool.false_eq_true, if_false]
    rw [bind_ok (show (pure () : M Unit) s1 = .ok () s1 from rfl)]
    exact ⟨h, x, rfl, hx⟩

theorem feedYield_P (b : Bool) {e : Event} (hf : isFeedEvent e = true) {s : Sys} (h : PI hi cfg0 env0 0 s) :
    FeedOutP hi cfg0 env0 (feedYield b e s) := by
  have hA := onEvent_push_P hf h
  cases hE : onEvent e s with
  | err x s1 =>
    rw [hE] at hA
    rw [feedYield_onEvent_err b e s s1 x hE, hA.2]
    exact handler_P b x h (Or.inl hA.1)
  | ok u s1 =>
    rw [hE] at hA
    simp only [] at hA
    unfold feedYield
    rcases hA.acts ((Pong.pushEv e s1).react (Pong.pushEv e s1).hist) (topOK_ev e s1.trace) with
      ⟨s2, hd, hB⟩ | ⟨s2, hd, hB⟩
    · have hy : yieldEv e s1 = .ok () s2 := (yieldEv_eq e s1).trans hd
      have hR := regular_tick_P hB 0 (fun _ => Nat.zero_le _)
      rw [tick_zero'] at hR
      cases hr : regular s2 with
      | ok u3 s3 =>
        rw [hr] at hR
        have hb1 : (do onEvent e; yieldEv e; regular : M Unit) s = .ok () s3 := by
          rw [bind_ok hE, bind_ok hy, hr]
        rw [tryC_ok hb1]
        exact hR
      | err x s3 =>
        rw [hr] at hR
        have hb1 : (do onEvent e; yieldEv e; regular : M Unit) s = .err x s3 := by
          rw [bind_ok hE, bind_ok hy, hr]
        rw [tryC_err hb1]
        rcases hR with ⟨hx, h3⟩ | ⟨hx, h3⟩
        · exact handler_P b x h3 (Or.inr (Or.inl hx))
        · exact handler_P b x h3 (Or.inr hx)
    · have hy : yieldEv e s1 = .err .genExit s2 := (yieldEv_eq e s1).trans hd
      have hb1 : (do onEvent e; yieldEv e; regular : M Unit) s = .err .genExit s2 := by
        rw [bind_ok hE, bind_err hy]
      rw [tryC_err hb1]
      exact handler_P b .genExit hB (Or.inr (Or.inl rfl))

theorem ip_feedYield (b : Bool) (e : Event) (hf : isFeedEvent e = true) :
    SpecX (PI hi cfg0 env0 0) (XP hi cfg0 env0) (feedYield b e) := by
  intro s hs
  have h1 := feedYield_P b hf hs
  cases hr : feedYield b e s with
  | ok u s' => rw [hr] at h1; exact h1
  | err y s' =>
    rw [hr] at h1
    obtain ⟨h2, x, rfl, hx⟩ := h1
    refine ⟨⟨0, h2⟩, ?_⟩
    show PP hi cfg0 env0 x s'
    rcases hx with hx | hx
    · exact ⟨not_outer_of_boring hx, fun _ => h2, fun _ _ => hx⟩
    · exact XP.plainKind h2 hx

theorem ip_wsClose (c : Option Nat) (r : Arg) : SpecX (PI hi cfg0 env0 0) (XP hi cfg0 env0) (wsClose c r) :=
  specx_of_noRaise (Monitor.noRaise_wsClose c r) (fun s hs => wsClose_P c r hs)

theorem ip_closeSocket : SpecX (PI hi cfg0 env0 0) (XP hi cfg0 env0) closeSocket :=
  specx_of_noRaise Monitor.noRaise_closeSocket (fun s hs => hs.quiet (pq_closeSocket s))

theorem ip_onDisconnect : SpecX (PI hi cfg0 env0 0) (XP hi cfg0 env0) onDisconnect := by
  intro s hs
  obtain ⟨s', e, h', _⟩ := onDisconnect_P hs
  rw [e]; exact h'

theorem ip_boring {x : Exn} (hb : x.boring = true) : SpecX (PI hi cfg0 env0 0) (XP hi cfg0 env0) (throwE x : M α) :=
  specx_throwE (fun s hs => XP.of_pi hs (core_of_boring hb) (not_outer_of_boring hb) (fun _ _ => hb))

theorem closeStarted_of_mem {tr : List Obs} {o : Obs} (hm : o ∈ tr) (ho : csEv o = true) : closeStarted tr = true := by
  unfold closeStarted; rw [List.any_eq_true]; exact ⟨o, hm, ho⟩

theorem ip_onClose (c : Option Nat) (r : List Nat) :
    SpecX (PI hi cfg0 env0 0) (XP hi cfg0 env0) (onClose c r) := by
  unfold onClose
  refine specx_bind ?_ (fun _ => specx_getS_bind (fun s0 => ?_))
  · unfold checkCloseCode
    splits <;> first | exact specx_pure _ | exact ip_boring rfl
  · split
    · exact specx_pure _
    · split
      · -- `Closed` is yielded, then the websocket is closed: the event is the evidence
        intro s hs
        have h1 := ip_feedYield (hi := hi) (cfg0 := cfg0) (env0 := env0) true (.closed c r) rfl s hs
        cases hr : feedYield true (.closed c r) s with
        | err y s1 => rw [hr] at h1; rw [bind_err hr]; exact h1
        | ok u s1 =>
          rw [hr] at h1
          rw [bind_ok hr]
          obtain ⟨l, el⟩ := feedYield_trace true (.closed c r) s s rfl
          rw [hr] at el
          simp only [Res.state_ok] at el
          exact h1.setFlags false true (Or.inl (closeStarted_of_mem (o := .ev (.closed c r))
            (by rw [el]; simp) (by simp [csEv, isClosedEv])))
      · intro s hs
        have h1 := ip_feedYield (hi := hi) (cfg0 := cfg0) (env0 := env0) true (.closing c r) rfl s hs
        cases hr : feedYield true (.closing c r) s with
        | err y s1 => rw [hr] at h1; rw [bind_err hr]; exact h1
        | ok u s1 =>
          rw [hr] at h1
          rw [bind_ok hr]
          obtain ⟨l, el⟩ := feedYield_trace true (.closing c r) s s rfl
          rw [hr] at el
          simp only [Res.state_ok] at el
          have hcs1 : closeStarted s1.trace = true := closeStarted_of_mem (o := .ev (.closing c r))
            (by rw [el]; simp) (by simp [csEv, isClosingEv])
          have h2 := wsClose_P c (.str r) h1
          obtain ⟨rr, s2, e2, _, _, _, _, ht⟩ := wsClose_eff c (.str r) s1
          rw [e2] at h2
          rw [bind_ok e2]
          have hcs2 : closeStarted s2.trace = true := by
            rcases ht with ht | ⟨o, ht, _⟩
            · rw [ht]; exact hcs1
            · rw [ht]; exact closeStarted_mono (l := [o]) hcs1
          unfold raiseIfArgError
          split
          · exact XP.of_pi h2 rfl (fun z e => by cases e) (fun _ _ => rfl)
          · rw [bind_ok (show (pure () : M Unit) s2 = .ok () s2 from rfl)]
            exact (h2.setFlags true s2.closed (Or.inl hcs2) : PI hi cfg0 env0 0 { s2 with closing := true, closed := s2.closed })

end PInst


/-! ## Part 19: the automatic Ping over a whole connection -/

section PTop
variable {hi : Bool} {cfg0 : Cfg} {env0 : List EnvStep}

theorem ip_leaves : LeavesX (PI hi cfg0 env0 0) (XP hi cfg0 env0) where
  inert := by
    intro s s' h hs
    have i := h.inert
    exact hs.ext i.cfg i.env i.ready i.startTime i.now i.nextPing [] i.trace rfl rfl rfl rfl
      (by intro o ho; cases ho) (flagEv_same i.trace h.closing h.closed i.sockOpen hs.w.flag)
  boring := fun x s hb hs => XP.of_pi hs (core_of_boring hb) (not_outer_of_boring hb) (fun _ _ => hb)
  unboring := by
    intro x s hb hx
    have := hx.2
    rw [core_of_boring hb] at this
    exact this.2.1 (Or.inl hb)
  forced := fun s hs => XP.of_pi hs rfl (fun z e => by cases e) (fun k h => by rcases h with h | h <;> cases h)
  scriptEnd := fun s hs => XP.of_pi hs rfl (fun z e => by cases e) (fun k h => by rcases h with h | h <;> cases h)
  unwrap := by
    intro y s ⟨a, p⟩
    refine ⟨a, ?_⟩
    have : y.core = y := by
      cases y <;> first | rfl | exact absurd rfl (p.1 _)
    rw [this]; exact p
  closeSocket := ip_closeSocket
  wsClose := ip_wsClose
  onDisconnect := ip_onDisconnect
  onClose := ip_onClose
  feedYield := fun b e hf _ _ => ip_feedYield b e hf

theorem ip_tick_regular (dt : Nat) (hdt : hi = true → dt ≤ cfg0.poll) (s : Sys) (hs : PI hi cfg0 env0 0 s) :
    Sat (PI hi cfg0 env0 0) (XP hi cfg0 env0) (regular (tick s dt)) := by
  have h1 := regular_tick_P hs dt hdt
  cases hr : regular (tick s dt) with
  | ok u s' => rw [hr] at h1; exact h1
  | err x s' =>
    rw [hr] at h1
    rcases h1 with ⟨hx, h2⟩ | ⟨hx, h2⟩
    · refine ⟨⟨dt, h2⟩, ?_⟩
      subst hx
      exact XP.plainKind h2 (Or.inl rfl)
    · refine ⟨⟨0, h2⟩, ?_⟩
      have hc : x.core = x := by rcases hx with rfl | rfl | rfl <;> rfl
      rw [hc]
      exact XP.plainKind h2 hx

theorem ip_loop (env : List EnvStep) (h : hi = true → EnvBound cfg0.poll env) :
    SpecX (PI hi cfg0 env0 0) (XP hi cfg0 env0) (loop env) :=
  liftx_loop ip_leaves (fun st => hi = true → ∀ dt rd, st = .wait dt rd → dt ≤ cfg0.poll)
    (fun dt rd s hP hs _ => ip_tick_regular dt (fun hhi => hP hhi dt rd rfl) s hs) env
    (fun st hst hhi dt rd e => h hhi dt rd (e ▸ hst))

/-- what is claimed of the trace of every connection -/
def FinP (hi : Bool) (cfg0 : Cfg) (s : Sys) : Prop := hi = true → TickP cfg0 s.trace

theorem finP_quiet {s s' : Sys} (q : QuietP s s') (h : FinP hi cfg0 s) : FinP hi cfg0 s' := by
  obtain ⟨l, e, n⟩ := q.trace
  intro hhi
  rw [e, tickP_append _ l _ (fun o ho => ((neutral_iff o).mp (n o ho)).1)]
  exact h hhi

theorem ip_yieldEv (e : Event) (h1 : (Obs.ev e).tmIsReady = false) (h2 : isConnEv (.ev e) = false) (s : Sys)
    (hs : PI hi cfg0 env0 0 s) : Sat (PI hi cfg0 env0 0) (XP hi cfg0 env0) (yieldEv e s) := by
  have := yieldEv_P e h1 h2 hs
  cases hy : yieldEv e s with
  | ok u s' => rw [hy] at this; exact this
  | err x s' =>
    rw [hy] at this
    obtain ⟨rfl, h'⟩ := this
    exact ⟨⟨0, h'⟩, XP.plainKind h' (Or.inl rfl)⟩

/-- before Ready every clause about the session clock is void -/
theorem PI.ofNotReady {s s' : Sys} (h : PI hi cfg0 env0 0 s) (hb : Base cfg0 env0 s')
    (hr : readyAt s'.trace = none) (hm : s'.nextPing = s.nextPing) (hf : FlagEv cfg0 s')
    (ht : hi = true → TickP cfg0 s'.trace) : PI hi cfg0 env0 0 s' :=
  ⟨hb, ⟨by rw [hm]; exact h.w.mult, hf, ht, fun t0 h0 => (by rw [hr] at h0; cases h0)⟩,
    fun _ hx => absurd hr hx, fun _ hx => absurd hr hx, fun _ _ _ hx => absurd hr hx⟩

theorem ip_yieldConn (p : Bool) (s : Sys) (hs : PI hi cfg0 env0 0 s) (hso : s.sockOpen = true)
    (hcg : s.closing = false) (hcd : s.closed = false) (hrd : s.ready = false) :
    Sat (PI hi cfg0 env0 0) (XP hi cfg0 env0) (yieldEv (.connected p) s) := by
  have hnr := (hs.b.notReady hrd).1
  have hp : PI hi cfg0 env0 0 (Pong.pushEv (.connected p) s) := by
    refine hs.ofNotReady ⟨hs.b.cfg, hs.b.env, hs.b.now, hs.b.start, hs.b.rdy⟩ hnr rfl ?_ ?_
    · intro hf
      rcases hf with hf | hf | hf
      · rw [show (Pong.pushEv (.connected p) s).closing = s.closing from rfl, hcg] at hf; cases hf
      · rw [show (Pong.pushEv (.connected p) s).closed = s.closed from rfl, hcd] at hf; cases hf
      · rw [show (Pong.pushEv (.connected p) s).sockOpen = s.sockOpen from rfl, hso] at hf; cases hf
    · intro hhi
      show TickP cfg0 (.ev (.connected p) :: s.trace)
      rw [tickP_cons_none _ _ rfl]; exact hs.w.tok hhi
  rcases hp.acts ((Pong.pushEv (.connected p) s).react (Pong.pushEv (.connected p) s).hist)
      (topOK_ev _ s.trace) with ⟨s2, e2, h2⟩ | ⟨s2, e2, h2⟩
  · rw [(yieldEv_eq _ s).trans e2]; exact h2
  · rw [(yieldEv_eq _ s).trans e2]; exact ⟨⟨0, h2⟩, XP.plainKind h2 (Or.inl rfl)⟩

theorem ip_top : TopX (PI hi cfg0 env0 0) (XP hi cfg0 env0) (FinP hi cfg0) env0 where
  envEq := fun s hs => hs.b.env
  iFin := fun s hs => hs.w.tok
  xFin := fun s hx => (by obtain ⟨⟨sl, h⟩, _⟩ := hx; exact h.w.tok)
  yieldTop := by
    intro e he
    rcases he with rfl | ⟨k, rfl⟩
    · exact ip_yieldEv _ rfl rfl
    · exact ip_yieldEv _ rfl rfl
  yieldConn := ip_yieldConn
  sockSet := by
    intro s hs
    refine hs.ext rfl rfl rfl rfl rfl rfl [] rfl rfl rfl rfl rfl (by intro o ho; cases ho) ?_
    intro hf
    rcases hf with hf | hf | hf
    · exact hs.w.flag (Or.inl hf)
    · exact hs.w.flag (Or.inr (Or.inl hf))
    · cases hf
  writeReq := by
    intro s hs _ hrd
    have hnr := (hs.b.notReady hrd).1
    have q := quietP_write s.cfg.request none s
    have a := pa_write (cfg0 := cfg0) s.cfg.request none s
    obtain ⟨l, e, n⟩ := q.trace
    refine hs.ofNotReady (hs.b.quiet q) (by rw [e, readyAt_append_neutral l _ n]; exact hnr) a.nextPing
      (a.flag hs.b.cfg hs.w.flag) ?_
    intro hhi
    rw [e, tickP_append _ l _ (fun o ho => ((neutral_iff o).mp (n o ho)).1)]
    exact hs.w.tok hhi
  selSet := fun b s hs => hs.ext rfl rfl rfl rfl rfl rfl [] rfl rfl rfl rfl rfl (by intro o ho; cases ho)
    (flagEv_same rfl rfl rfl rfl hs.w.flag)
  endNone := fun s hs => finP_quiet (quietP_onLoopEnd none s) hs.w.tok
  endSome := fun x s hx _ => finP_quiet (quietP_onLoopEnd (some x) s)
    (by obtain ⟨⟨sl, h⟩, _⟩ := hx; exact h.w.tok)
  finSel := fun s h => finP_quiet (quietP_selClose s) h
  finSock := fun s h => finP_quiet (quietP_closeSocket s) h
  finInc := fun s h hhi => (tickP_cons_none _ _ rfl).mpr (h hhi)

theorem ip_init (cfg : Cfg) (react : React) (env : List EnvStep) :
    PI hi cfg env 0 { cfg := cfg, react := react, env := env } :=
  ⟨⟨rfl, rfl, rfl, rfl, by simp⟩, ⟨⟨0, (Nat.zero_mul _).symm⟩, fun _ => Or.inr (Or.inl rfl), fun _ => trivial,
    fun t0 h => (by cases h)⟩, fun _ h => absurd rfl h, fun _ h => absurd rfl h, fun _ _ _ h => absurd rfl h⟩

/-- **the automatic-Ping rule holds for the trace of every connection** (under the cycle bound) -/
theorem finP_runAll (hi : Bool) (cfg : Cfg) (react : React) (env : List EnvStep)
    (h : hi = true → EnvBound cfg.poll env) : FinP hi cfg (runAll cfg react env) :=
  topx_runAll ip_leaves ip_top (ip_loop env h) cfg react (ip_init cfg react env)

end PTop

end Lomond.Core.TimerRun
