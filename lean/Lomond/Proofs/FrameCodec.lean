/-
  Helper lemmas for C03 about Model/Frame.lean: big-endian codec, XOR masking, the header
  builder, and the round trip `Spec.decodeClientFrame ∘ Frame.build`.
-/
import Lomond.Model.Frame
import Lomond.Proofs.Frame
set_option linter.unusedSimpArgs false
set_option linter.unusedVariables false
namespace Lomond

/-! ### big-endian integers -/

theorem beBytes_length (n v : Nat) : (beBytes n v).length = n := by
  induction n generalizing v with
  | zero => rfl
  | succ n ih => simp [beBytes, ih]

theorem beVal_snoc (l : Bytes) (b : Nat) : beVal (l ++ [b]) = beVal l * 256 + b := by
  simp [beVal, List.foldl_append]

/-- `struct.unpack` inverts `struct.pack` on values that fit -/
theorem beVal_beBytes (n v : Nat) (h : v < 256 ^ n) : beVal (beBytes n v) = v := by
  induction n generalizing v with
  | zero => simp at h; subst h; rfl
  | succ n ih =>
    have hd : v / 256 < 256 ^ n := by
      apply Nat.div_lt_of_lt_mul
      rw [Nat.pow_succ, Nat.mul_comm] at h; exact h
    simp only [beBytes, beVal_snoc, ih _ hd]
    omega

theorem beBytes_wf (n v : Nat) : Bytes.WF (beBytes n v) := by
  induction n generalizing v with
  | zero => intro b hb; cases hb
  | succ n ih =>
    intro b hb
    simp only [beBytes, List.mem_append, List.mem_singleton] at hb
    rcases hb with hb | hb
    · exact ih _ b hb
    · omega

theorem wf_append {a b : Bytes} (ha : Bytes.WF a) (hb : Bytes.WF b) : Bytes.WF (a ++ b) := by
  intro x hx
  rcases List.mem_append.mp hx with h | h
  · exact ha x h
  · exact hb x h

theorem wf_cons {x : Nat} {a : Bytes} (hx : x < 256) (ha : Bytes.WF a) : Bytes.WF (x :: a) := by
  intro y hy
  rcases List.mem_cons.mp hy with h | h
  · omega
  · exact ha y h

/-! ### take / drop of appends -/

theorem take_append_len {α} (a b : List α) (n : Nat) (h : a.length = n) : (a ++ b).take n = a := by
  subst h; simp

theorem drop_append_len {α} (a b : List α) (n : Nat) (h : a.length = n) : (a ++ b).drop n = b := by
  subst h; simp

/-! ### XOR masking -/

theorem xor_cancel (b k : Nat) : (b ^^^ k) ^^^ k = b := by
  rw [Nat.xor_assoc, Nat.xor_self, Nat.xor_zero]

theorem xor_lt_256 {b k : Nat} (hb : b < 256) (hk : k < 256) : b ^^^ k < 256 :=
  Nat.xor_lt_two_pow (n := 8) hb hk

theorem maskFrom_length (key : Bytes) (i : Nat) (d : Bytes) : (maskFrom key i d).length = d.length := by
  induction d generalizing i with
  | nil => rfl
  | cons b r ih => simp [maskFrom, ih]

/-- masking twice with the same key (at the same offset) is the identity -/
theorem maskFrom_involutive (key : Bytes) (i : Nat) (d : Bytes) :
    maskFrom key i (maskFrom key i d) = d := by
  induction d generalizing i with
  | nil => rfl
  | cons b r ih => simp [maskFrom, ih, xor_cancel]

theorem maskFrom_append (key : Bytes) (i : Nat) (a b : Bytes) :
    maskFrom key i (a ++ b) = maskFrom key i a ++ maskFrom key (i + a.length) b := by
  induction a generalizing i with
  | nil => simp [maskFrom]
  | cons x r ih =>
    simp only [List.cons_append, maskFrom, ih, List.length_cons]
    congr 3; omega

/-- byte `j` of the output is byte `j` of the input XOR `key[(i + j) % 4]` -/
theorem maskFrom_getElem? (key : Bytes) (i : Nat) (d : Bytes) (j : Nat) :
    (maskFrom key i d)[j]? = d[j]?.map (fun b => b ^^^ key.getD ((i + j) % 4) 0) := by
  induction d generalizing i j with
  | nil => simp [maskFrom]
  | cons b r ih =>
    cases j with
    | zero => simp [maskFrom]
    | succ j =>
      simp only [maskFrom, List.getElem?_cons_succ, ih]
      congr 2; funext x; congr 3; omega

theorem getD_lt_256 (key : Bytes) (hk : Bytes.WF key) (i : Nat) : key.getD i 0 < 256 := by
  rw [List.getD_eq_getElem?_getD]
  cases h : key[i]? with
  | none => simp
  | some x => simp; exact hk x (List.mem_of_getElem? h)

theorem maskFrom_wf (key : Bytes) (i : Nat) (d : Bytes) (hk : Bytes.WF key) (hd : Bytes.WF d) :
    Bytes.WF (maskFrom key i d) := by
  induction d generalizing i with
  | nil => intro b hb; cases hb
  | cons b r ih =>
    simp only [maskFrom]
    apply wf_cons
    · exact xor_lt_256 (hd b (by simp)) (getD_lt_256 key hk _)
    · exact ih _ (fun x hx => hd x (by simp [hx]))

/-! ### the header -/

theorem buildHeader_small (b0 m len : Nat) (h : len < 126) :
    buildHeader b0 m len = some [b0, m + len] := by
  simp [buildHeader, h]

theorem buildHeader_medium (b0 m len : Nat) (h1 : 126 ≤ len) (h2 : len < 65536) :
    buildHeader b0 m len = some ([b0, m + 126] ++ beBytes 2 len) := by
  have : ¬ len < 126 := by omega
  simp [buildHeader, this, h2]

theorem buildHeader_large (b0 m len : Nat) (h1 : 65536 ≤ len) (h2 : len < 2 ^ 63) :
    buildHeader b0 m len = some ([b0, m + 127] ++ beBytes 8 len) := by
  have a : ¬ len < 126 := by omega
  have b : ¬ len < 65536 := by omega
  simp only [buildHeader, a, b, h2, if_true, if_false]

theorem buildHeader_none (b0 m len : Nat) : buildHeader b0 m len = none ↔ 2 ^ 63 ≤ len := by
  unfold buildHeader
  constructor
  · intro h
    split at h; · cases h
    split at h; · cases h
    split at h; · cases h
    omega
  · intro h
    have a : ¬ len < 126 := by omega
    have b : ¬ len < 65536 := by omega
    have c : ¬ len < 2 ^ 63 := by omega
    simp only [a, b, c, if_false]

theorem build_none (op : Nat) (payload key : Bytes) (fin r1 r2 r3 : Nat) :
    Frame.build op payload key fin r1 r2 r3 = none ↔ 2 ^ 63 ≤ payload.length := by
  unfold Frame.build
  rw [Option.map_eq_none_iff]
  exact buildHeader_none _ _ _

/-- the three shapes of a built frame -/
theorem build_small (op : Nat) (payload key : Bytes) (fin r1 r2 r3 : Nat) (h : payload.length < 126) :
    Frame.build op payload key fin r1 r2 r3 =
      some (byte0 fin r1 r2 r3 op :: (128 + payload.length) :: (key ++ maskPayload key payload)) := by
  simp [Frame.build, buildHeader_small _ _ _ h]

theorem build_medium (op : Nat) (payload key : Bytes) (fin r1 r2 r3 : Nat)
    (h1 : 126 ≤ payload.length) (h2 : payload.length < 65536) :
    Frame.build op payload key fin r1 r2 r3 =
      some (byte0 fin r1 r2 r3 op :: 254 :: (beBytes 2 payload.length ++ (key ++ maskPayload key payload))) := by
  simp [Frame.build, buildHeader_medium _ _ _ h1 h2]

theorem build_large (op : Nat) (payload key : Bytes) (fin r1 r2 r3 : Nat)
    (h1 : 65536 ≤ payload.length) (h2 : payload.length < 2 ^ 63) :
    Frame.build op payload key fin r1 r2 r3 =
      some (byte0 fin r1 r2 r3 op :: 255 :: (beBytes 8 payload.length ++ (key ++ maskPayload key payload))) := by
  simp [Frame.build, buildHeader_large _ _ _ h1 h2]


/-! ### the independent decoder on the three frame shapes -/

def hdrOf (b0 : Nat) (key payload : Bytes) : Spec.Decoded :=
  { fin := b0 / 128, rsv1 := b0 / 64 % 2, rsv2 := b0 / 32 % 2, rsv3 := b0 / 16 % 2,
    opcode := b0 % 16, key := key, payload := payload }

theorem decode_tail (b0 len : Nat) (key body rest : Bytes) (hk : key.length = 4) (hb : body.length = len) :
    (if (key ++ (body ++ rest)).length < 4 + len then (none : Option (Spec.Decoded × Bytes))
     else some ({ fin := b0 / 128, rsv1 := b0 / 64 % 2, rsv2 := b0 / 32 % 2, rsv3 := b0 / 16 % 2,
                  opcode := b0 % 16, key := (key ++ (body ++ rest)).take 4,
                  payload := Spec.unmask ((key ++ (body ++ rest)).take 4) (((key ++ (body ++ rest)).drop 4).take len) },
                ((key ++ (body ++ rest)).drop 4).drop len))
    = some (hdrOf b0 key (Spec.unmask key body), rest) := by
  have h1 : ¬ (key ++ (body ++ rest)).length < 4 + len := by
    simp only [List.length_append]; omega
  rw [if_neg h1, take_append_len _ _ _ hk, drop_append_len _ _ _ hk,
      take_append_len _ _ _ hb, drop_append_len _ _ _ hb]
  rfl

theorem decode_small (b0 len : Nat) (key body rest : Bytes) (hl : len < 126)
    (hk : key.length = 4) (hb : body.length = len) :
    Spec.decodeClientFrame (b0 :: (128 + len) :: (key ++ (body ++ rest)))
      = some (hdrOf b0 key (Spec.unmask key body), rest) := by
  have a : ¬ 128 + len < 128 := by omega
  have b : 128 + len - 128 = len := by omega
  simp only [Spec.decodeClientFrame, a, b, hl, if_true, if_false]
  exact decode_tail b0 len key body rest hk hb

theorem decode_medium (b0 len : Nat) (key body rest : Bytes) (h1 : 126 ≤ len) (h2 : len < 65536)
    (hk : key.length = 4) (hb : body.length = len) :
    Spec.decodeClientFrame (b0 :: 254 :: (beBytes 2 len ++ (key ++ (body ++ rest))))
      = some (hdrOf b0 key (Spec.unmask key body), rest) := by
  have hv : beVal (beBytes 2 len) = len := beVal_beBytes 2 len (by omega)
  have hlen : ¬ (beBytes 2 len ++ (key ++ (body ++ rest))).length < 2 := by
    simp only [List.length_append, beBytes_length]; omega
  have hmin : ¬ len < 126 := by omega
  simp only [Spec.decodeClientFrame, show ¬ (254 < 128) by omega, show 254 - 128 = 126 from rfl,
    show ¬ (126 < 126) by omega, if_true, if_false, hlen,
    take_append_len _ _ 2 (beBytes_length 2 len), drop_append_len _ _ 2 (beBytes_length 2 len), hv, hmin]
  exact decode_tail b0 len key body rest hk hb

theorem decode_large (b0 len : Nat) (key body rest : Bytes) (h1 : 65536 ≤ len) (h2 : len < 2 ^ 63)
    (hk : key.length = 4) (hb : body.length = len) :
    Spec.decodeClientFrame (b0 :: 255 :: (beBytes 8 len ++ (key ++ (body ++ rest))))
      = some (hdrOf b0 key (Spec.unmask key body), rest) := by
  have hv : beVal (beBytes 8 len) = len := beVal_beBytes 8 len (by omega)
  have hlen : ¬ (beBytes 8 len ++ (key ++ (body ++ rest))).length < 8 := by
    simp only [List.length_append, beBytes_length]; omega
  have hmin : ¬ (len < 65536 ∨ len ≥ 2 ^ 63) := by omega
  simp only [Spec.decodeClientFrame, show ¬ (255 < 128) by omega, show 255 - 128 = 127 from rfl,
    show ¬ (127 < 126) by omega, show ¬ (127 = 126) by omega, if_true, if_false, hlen,
    take_append_len _ _ 8 (beBytes_length 8 len), drop_append_len _ _ 8 (beBytes_length 8 len), hv, hmin]
  exact decode_tail b0 len key body rest hk hb

theorem byte0_fields (fin r1 r2 r3 op : Nat) (hf : fin < 2) (h1 : r1 < 2) (h2 : r2 < 2) (h3 : r3 < 2)
    (ho : op < 16) (key payload : Bytes) :
    hdrOf (byte0 fin r1 r2 r3 op) key payload =
      { fin := fin, rsv1 := r1, rsv2 := r2, rsv3 := r3, opcode := op, key := key, payload := payload } := by
  unfold hdrOf byte0
  congr 1 <;> omega

/-- **round trip**: the independent server-side decoder reads back exactly what was built,
    and leaves exactly the bytes that followed the frame -/
theorem decode_build (op fin r1 r2 r3 : Nat) (payload key rest bytes : Bytes)
    (ho : op < 16) (hf : fin < 2) (h1 : r1 < 2) (h2 : r2 < 2) (h3 : r3 < 2)
    (hk : key.length = 4)
    (hb : Frame.build op payload key fin r1 r2 r3 = some bytes) :
    Spec.decodeClientFrame (bytes ++ rest) =
      some ({ fin := fin, rsv1 := r1, rsv2 := r2, rsv3 := r3, opcode := op, key := key, payload := payload },
            rest) := by
  have hlen : payload.length < 2 ^ 63 := by
    rcases Nat.lt_or_ge payload.length (2 ^ 63) with h | h
    · exact h
    · rw [(build_none op payload key fin r1 r2 r3).mpr h] at hb; cases hb
  have hm : (maskPayload key payload).length = payload.length := maskFrom_length _ _ _
  have hu : Spec.unmask key (maskPayload key payload) = payload := maskFrom_involutive _ _ _
  rw [← byte0_fields fin r1 r2 r3 op hf h1 h2 h3 ho, ← hu]
  by_cases c1 : payload.length < 126
  · rw [build_small _ _ _ _ _ _ _ c1] at hb
    cases hb
    simp only [List.cons_append, List.append_assoc]
    exact decode_small _ _ _ _ _ c1 hk hm
  · by_cases c2 : payload.length < 65536
    · rw [build_medium _ _ _ _ _ _ _ (by omega) c2] at hb
      cases hb
      simp only [List.cons_append, List.append_assoc]
      exact decode_medium _ _ _ _ _ (by omega) c2 hk hm
    · rw [build_large _ _ _ _ _ _ _ (by omega) hlen] at hb
      cases hb
      simp only [List.cons_append, List.append_assoc]
      exact decode_large _ _ _ _ _ (by omega) hlen hk hm

/-- every byte of a built frame is a byte -/
theorem build_wf (op fin r1 r2 r3 : Nat) (payload key bytes : Bytes)
    (ho : op < 16) (hf : fin < 2) (h1 : r1 < 2) (h2 : r2 < 2) (h3 : r3 < 2)
    (hp : Bytes.WF payload) (hk : Bytes.WF key)
    (hb : Frame.build op payload key fin r1 r2 r3 = some bytes) : Bytes.WF bytes := by
  have hlen : payload.length < 2 ^ 63 := by
    rcases Nat.lt_or_ge payload.length (2 ^ 63) with h | h
    · exact h
    · rw [(build_none op payload key fin r1 r2 r3).mpr h] at hb; cases hb
  have hb0 : byte0 fin r1 r2 r3 op < 256 := by unfold byte0; omega
  have hbody : Bytes.WF (key ++ maskPayload key payload) := wf_append hk (maskFrom_wf _ _ _ hk hp)
  by_cases c1 : payload.length < 126
  · rw [build_small _ _ _ _ _ _ _ c1] at hb
    cases hb
    exact wf_cons hb0 (wf_cons (by omega) hbody)
  · by_cases c2 : payload.length < 65536
    · rw [build_medium _ _ _ _ _ _ _ (by omega) c2] at hb
      cases hb
      exact wf_cons hb0 (wf_cons (by omega) (wf_append (beBytes_wf _ _) hbody))
    · rw [build_large _ _ _ _ _ _ _ (by omega) hlen] at hb
      cases hb
      exact wf_cons hb0 (wf_cons (by omega) (wf_append (beBytes_wf _ _) hbody))

end Lomond

/-! ### the send path of the core model (`session.write`, `session.send`, API methods) -/
namespace Lomond.Core
open Lomond

/-- the connection accepts a write: socket present, websocket neither closed nor closing, and the
    environment lets this `sendall` succeed -/
structure Accepting (s : Sys) : Prop where
  sock : s.sockOpen = true
  notClosed : s.closed = false
  notClosing : s.closing = false
  writeOk : s.cfg.writeFails s.writeCtr = false

/-- the state after one frame went out: one masking key drawn, one `sendall` made and logged -/
def sentState (s : Sys) (o : Obs) : Sys :=
  { s with keyCtr := s.keyCtr + 1, writeCtr := s.writeCtr + 1, trace := o :: s.trace }

/-- a call's outcome recorded and nothing else changed -/
def resState (s : Sys) (r : ActRes) : Sys := { s with trace := .res r :: s.trace }

/-- what `session.write` logs on success -/
def writeObs (data : Bytes) : Option (Nat × Bytes) → Obs
  | none => .wr data
  | some (op, plain) => .wrz op plain

theorem write_accept (data : Bytes) (z : Option (Nat × Bytes)) (s : Sys) (h : Accepting s) :
    write data z s = .ok .ok { s with writeCtr := s.writeCtr + 1, trace := writeObs data z :: s.trace } := by
  unfold write
  simp only [h.sock, h.notClosed, h.notClosing, h.writeOk]
  cases z with
  | none => rfl
  | some z => rfl

theorem sendFrame_plain (op : Nat) (payload bytes : Bytes) (s : Sys) (h : Accepting s)
    (hb : Frame.build op payload (s.cfg.maskKey s.keyCtr) = some bytes) :
    sendFrame op payload none s = .ok .ok (sentState s (.wr bytes)) := by
  unfold sendFrame
  simp only [hb]
  rw [write_accept bytes none { s with keyCtr := s.keyCtr + 1 } ⟨h.sock, h.notClosed, h.notClosing, h.writeOk⟩]
  rfl

theorem sendFrame_compressed (op : Nat) (payload plain : Bytes) (s : Sys) (h : Accepting s) :
    sendFrame op payload (some plain) s = .ok .ok (sentState s (.wrz op plain)) := by
  unfold sendFrame
  simp only
  rw [write_accept [] (some (op, plain)) { s with keyCtr := s.keyCtr + 1 } ⟨h.sock, h.notClosed, h.notClosing, h.writeOk⟩]
  rfl

theorem logRes_ok_wire {m : M ActRes} {s s' : Sys} {r : ActRes} (h : m s = .ok r s') :
    logRes m s = .ok () (resState s' r) := by
  unfold logRes
  show M.bind m _ s = _
  unfold M.bind
  rw [h]
  rfl

theorem build_some (op : Nat) (payload key : Bytes) (h : payload.length < 2 ^ 63) :
    ∃ bytes, Frame.build op payload key = some bytes := by
  cases hb : Frame.build op payload key with
  | some b => exact ⟨b, rfl⟩
  | none => have := (build_none op payload key 1 0 0 0).mp hb; omega

/-! #### any state: what one call can add to the trace -/

theorem write_trace (data : Bytes) (z : Option (Nat × Bytes)) (s : Sys) :
    ∃ r s' l, write data z s = .ok r s' ∧ s'.trace = l ++ s.trace ∧
      (l = [] ∨ l = [.wrFail data] ∨ l = [writeObs data z]) := by
  unfold write
  repeat' (first | split | (simp only []; split))
  all_goals first
    | exact ⟨_, _, [], rfl, rfl, Or.inl rfl⟩
    | exact ⟨_, _, [_], rfl, rfl, Or.inr (Or.inl rfl)⟩
    | exact ⟨_, _, [_], rfl, rfl, Or.inr (Or.inr rfl)⟩

/-- `session.send` / `send_compressed` in any state: never raises in the model (outcomes are
    values), adds at most one entry, and a written frame is the one built from the arguments -/
theorem sendFrame_trace (op : Nat) (payload : Bytes) (cz : Option Bytes) (s : Sys) :
    ∃ r s' l, sendFrame op payload cz s = .ok r s' ∧ s'.trace = l ++ s.trace ∧ l.length ≤ 1 ∧
      (∀ bytes, Obs.wr bytes ∈ l → cz = none ∧ Frame.build op payload (s.cfg.maskKey s.keyCtr) = some bytes) ∧
      (∀ op' plain, Obs.wrz op' plain ∈ l → op' = op ∧ cz = some plain) := by
  unfold sendFrame
  cases cz with
  | some plain =>
    simp only
    obtain ⟨r, s', l, hw, ht, hl⟩ := write_trace [] (some (op, plain)) { s with keyCtr := s.keyCtr + 1 }
    refine ⟨r, s', l, hw, ht, ?_, ?_, ?_⟩
    · rcases hl with rfl | rfl | rfl <;> simp
    · intro bytes hb; rcases hl with rfl | rfl | rfl <;> simp [writeObs] at hb
    · intro op' plain' hb
      rcases hl with rfl | rfl | rfl <;> simp [writeObs] at hb
      exact ⟨hb.1, by rw [hb.2]⟩
  | none =>
    simp only
    cases hb : Frame.build op payload (s.cfg.maskKey s.keyCtr) with
    | none => exact ⟨_, _, [], rfl, rfl, by simp, by simp, by simp⟩
    | some fb =>
      simp only
      obtain ⟨r, s', l, hw, ht, hl⟩ := write_trace fb none { s with keyCtr := s.keyCtr + 1 }
      refine ⟨r, s', l, hw, ht, ?_, ?_, ?_⟩
      · rcases hl with rfl | rfl | rfl <;> simp
      · intro bytes hm
        rcases hl with rfl | rfl | rfl <;> simp [writeObs] at hm
        rw [hm]; exact ⟨trivial, rfl⟩
      · intro op' plain' hm; rcases hl with rfl | rfl | rfl <;> simp [writeObs] at hm

/-! #### accepted calls -/

theorem sendData_plain (op : Nat) (payload bytes : Bytes) (c : Bool) (s : Sys) (h : Accepting s)
    (hnc : ¬ (c = true ∧ s.compression.isSome = true))
    (hb : Frame.build op payload (s.cfg.maskKey s.keyCtr) = some bytes) :
    sendData op payload c s = .ok .ok (sentState s (.wr bytes)) := by
  unfold sendData
  rw [if_neg hnc]
  exact sendFrame_plain op payload bytes s h hb

theorem sendData_compressed (op : Nat) (payload : Bytes) (c : Bool) (s : Sys) (h : Accepting s)
    (hc : c = true ∧ s.compression.isSome = true) :
    sendData op payload c s = .ok .ok (sentState s (.wrz op payload)) := by
  unfold sendData
  rw [if_pos hc]
  exact sendFrame_compressed op [] payload s h

/-- the bytes `close()` hands to `build_close_payload` as the reason -/
def argBytes : Arg → Option Bytes
  | .bytes b => some b
  | .str cps => some (encodeReplace cps)
  | .other => none

theorem wsClose_accept (code : Option Nat) (reason : Arg) (rb bytes : Bytes) (s : Sys) (h : Accepting s)
    (hr : argBytes reason = some rb)
    (hc : ∀ c, code = some c → c < 65536)
    (hl : (buildClosePayload code rb).length ≤ 125)
    (hb : Frame.build Gen.opClose (buildClosePayload code rb) (s.cfg.maskKey s.keyCtr) = some bytes) :
    wsClose code reason s =
      .ok .ok { sentState s (.wr bytes) with closing := true, sentCloseTime := some (sessionTime s) } := by
  unfold wsClose
  simp only [h.notClosed, h.notClosing]
  have fin : ∀ (tb : Bool) (p : Bytes), tb = false → p.length ≤ 125 →
      Frame.build Gen.opClose p (s.cfg.maskKey s.keyCtr) = some bytes →
      (if s.cfg.v.closeArgs = true ∧ (tb = true ∨ p.length > 125) then Res.ok ActRes.valueError s
       else if tb = true then Res.ok ActRes.structError s
       else match sendFrame Gen.opClose p none s with
         | .ok _ s' => Res.ok ActRes.ok { s' with closing := true, sentCloseTime := some (sessionTime s') }
         | .err x s' => Res.err x s') =
      .ok .ok { sentState s (.wr bytes) with closing := true, sentCloseTime := some (sessionTime s) } := by
    intro tb p htb hp hbp
    subst htb
    have : ¬ (s.cfg.v.closeArgs = true ∧ (false = true ∨ p.length > 125)) := by
      intro hx; rcases hx.2 with hx | hx
      · cases hx
      · omega
    rw [if_neg this, if_neg (by simp), sendFrame_plain _ _ _ s h hbp]
    rfl
  cases code with
  | none =>
    cases reason with
    | other => cases hr
    | bytes b => cases hr; exact fin false _ rfl hl hb
    | str cps => cases hr; exact fin false _ rfl hl hb
  | some c =>
    have htb : decide (c ≥ 65536) = false := by
      have := hc c rfl; simp only [decide_eq_false_iff_not]; omega
    cases reason with
    | other => cases hr
    | bytes b => cases hr; exact fin _ _ htb hl hb
    | str cps => cases hr; exact fin _ _ htb hl hb

/-- `close()` on a websocket that is already closed or closing does nothing -/
theorem wsClose_noop (code : Option Nat) (reason : Arg) (s : Sys) (h : s.closed = true ∨ s.closing = true) :
    wsClose code reason s = .ok .ok s := by
  unfold wsClose
  rcases h with h | h
  · simp [h]
  · by_cases hc : s.closed = true <;> simp [h, hc]

/-! #### rejected calls, and `close()` in any state -/

theorem ite_reject (c : Prop) [Decidable c] (s : Sys) (P : Prop) (hP : ¬ P) :
    ∃ r, (r = ActRes.typeError ∨ r = .valueError) ∧ (P → r = .valueError) ∧
      (if c then Res.ok ActRes.valueError s else .ok .typeError s) = .ok r s := by
  by_cases h : c
  · exact ⟨_, Or.inr rfl, fun _ => rfl, by rw [if_pos h]⟩
  · exact ⟨_, Or.inl rfl, fun hp => absurd hp hP, by rw [if_neg h]⟩

/-- the repaired `close()`: arguments that cannot form a valid Close frame are refused and the
    state is untouched -/
theorem wsClose_reject (code : Option Nat) (reason : Arg) (s : Sys) (hv : s.cfg.v.closeArgs = true)
    (h1 : s.closed = false) (h2 : s.closing = false)
    (hbad : ∀ rb, argBytes reason = some rb →
      (∃ c, code = some c ∧ 65536 ≤ c) ∨ 125 < (buildClosePayload code rb).length) :
    ∃ r, (r = .typeError ∨ r = .valueError) ∧ (argBytes reason ≠ none → r = .valueError) ∧
      wsClose code reason s = .ok r s := by
  unfold wsClose
  simp only [h1, h2, Bool.false_eq_true, if_false]
  have fin : ∀ (tb : Bool) (p : Bytes) (k : Res ActRes), (tb = true ∨ 125 < p.length) →
      (if s.cfg.v.closeArgs = true ∧ (tb = true ∨ p.length > 125) then Res.ok ActRes.valueError s else k) =
        .ok .valueError s := by
    intro tb p k hx
    rw [if_pos ⟨hv, hx⟩]
  cases reason with
  | other =>
    simp only
    exact ite_reject _ s _ (fun hx => hx rfl)
  | bytes b =>
    refine ⟨.valueError, Or.inr rfl, fun _ => rfl, ?_⟩
    cases code with
    | none =>
      rcases hbad b rfl with ⟨c, hc, _⟩ | hx
      · cases hc
      · exact fin false _ _ (Or.inr hx)
    | some c =>
      rcases hbad b rfl with ⟨c', hc, hx⟩ | hx
      · cases hc; exact fin (decide (c ≥ 65536)) _ _ (Or.inl (by simp only [decide_eq_true_eq]; omega))
      · exact fin (decide (c ≥ 65536)) _ _ (Or.inr hx)
  | str cps =>
    refine ⟨.valueError, Or.inr rfl, fun _ => rfl, ?_⟩
    cases code with
    | none =>
      rcases hbad _ rfl with ⟨c, hc, _⟩ | hx
      · cases hc
      · exact fin false _ _ (Or.inr hx)
    | some c =>
      rcases hbad _ rfl with ⟨c', hc, hx⟩ | hx
      · cases hc; exact fin (decide (c ≥ 65536)) _ _ (Or.inl (by simp only [decide_eq_true_eq]; omega))
      · exact fin (decide (c ≥ 65536)) _ _ (Or.inr hx)

/-- the repaired `close()` in any state: never raises in the model, adds at most one entry, and
    a frame it writes is a Close frame with a 16-bit code and a payload of at most 125 bytes -/
theorem wsClose_trace (code : Option Nat) (reason : Arg) (s : Sys) (hv : s.cfg.v.closeArgs = true) :
    ∃ r s' l, wsClose code reason s = .ok r s' ∧ s'.trace = l ++ s.trace ∧ l.length ≤ 1 ∧
      (∀ bytes, Obs.wr bytes ∈ l → ∃ rb, argBytes reason = some rb ∧
        (∀ c, code = some c → c < 65536) ∧ (buildClosePayload code rb).length ≤ 125 ∧
        Frame.build Gen.opClose (buildClosePayload code rb) (s.cfg.maskKey s.keyCtr) = some bytes) ∧
      (∀ op plain, Obs.wrz op plain ∉ l) := by
  have nothing : ∀ r, ∃ r' s' l, (Res.ok r s : Res ActRes) = .ok r' s' ∧ s'.trace = l ++ s.trace ∧ l.length ≤ 1 ∧
      (∀ bytes, Obs.wr bytes ∈ l → ∃ rb, argBytes reason = some rb ∧
        (∀ c, code = some c → c < 65536) ∧ (buildClosePayload code rb).length ≤ 125 ∧
        Frame.build Gen.opClose (buildClosePayload code rb) (s.cfg.maskKey s.keyCtr) = some bytes) ∧
      (∀ op plain, Obs.wrz op plain ∉ l) :=
    fun r => ⟨r, s, [], rfl, rfl, by simp, by simp, by simp⟩
  by_cases h1 : s.closed = true
  · rw [wsClose_noop code reason s (Or.inl h1)]; exact nothing _
  by_cases h2 : s.closing = true
  · rw [wsClose_noop code reason s (Or.inr h2)]; exact nothing _
  have h1' : s.closed = false := by simpa using h1
  have h2' : s.closing = false := by simpa using h2
  by_cases hbad : ∀ rb, argBytes reason = some rb →
      (∃ c, code = some c ∧ 65536 ≤ c) ∨ 125 < (buildClosePayload code rb).length
  · obtain ⟨r, -, -, hr⟩ := wsClose_reject code reason s hv h1' h2' hbad
    rw [hr]; exact nothing _
  · -- the arguments are fine: the frame is built and handed to `session.write`
    simp only [Classical.not_forall, not_or, not_exists, not_and, Nat.not_le, Nat.not_lt] at hbad
    obtain ⟨rb, hrb, hc, hl⟩ := hbad
    have hc' : ∀ c, code = some c → c < 65536 := fun c h => hc c h
    obtain ⟨r, s', l, hsf, ht, hlen, hwr, hwz⟩ := sendFrame_trace Gen.opClose (buildClosePayload code rb) none s
    have hw : wsClose code reason s =
        .ok .ok { s' with closing := true, sentCloseTime := some (sessionTime s') } := by
      unfold wsClose
      simp only [h1', h2']
      have fin : ∀ (tb : Bool) (p : Bytes), tb = false → p.length ≤ 125 →
          sendFrame Gen.opClose p none s = .ok r s' →
          (if s.cfg.v.closeArgs = true ∧ (tb = true ∨ p.length > 125) then Res.ok ActRes.valueError s
           else if tb = true then Res.ok ActRes.structError s
           else match sendFrame Gen.opClose p none s with
             | .ok _ s' => Res.ok ActRes.ok { s' with closing := true, sentCloseTime := some (sessionTime s') }
             | .err x s' => Res.err x s') =
          .ok .ok { s' with closing := true, sentCloseTime := some (sessionTime s') } := by
        intro tb p htb hp hbp
        subst htb
        have : ¬ (s.cfg.v.closeArgs = true ∧ (false = true ∨ p.length > 125)) := by
          intro hx; rcases hx.2 with hx | hx
          · cases hx
          · omega
        rw [if_neg this, if_neg (by simp), hbp]
      cases code with
      | none =>
        cases reason with
        | other => cases hrb
        | bytes b => cases hrb; exact fin false _ rfl hl hsf
        | str cps => cases hrb; exact fin false _ rfl hl hsf
      | some c =>
        have htb : decide (c ≥ 65536) = false := by
          have := hc' c rfl; simp only [decide_eq_false_iff_not]; omega
        cases reason with
        | other => cases hrb
        | bytes b => cases hrb; exact fin _ _ htb hl hsf
        | str cps => cases hrb; exact fin _ _ htb hl hsf
    refine ⟨_, _, l, hw, ht, hlen, ?_, ?_⟩
    · intro bytes hm
      exact ⟨rb, hrb, hc', hl, (hwr bytes hm).2⟩
    · intro op plain hm
      have := (hwz op plain hm).2; cases this

/-- `session.write` entries of the trace -/
def isWriteObs : Obs → Bool
  | .wr _ | .wrz _ _ | .wrFail _ => true
  | _ => false

theorem logRes_trace {m : M ActRes} {s s' : Sys} {r : ActRes} {l : List Obs}
    (h : m s = .ok r s') (ht : s'.trace = l ++ s.trace) :
    (logRes m s).state.trace = (.res r :: l) ++ s.trace := by
  rw [logRes_ok_wire h]; simp [resState, ht]

theorem sendData_trace (op : Nat) (payload : Bytes) (c : Bool) (s : Sys) :
    ∃ r s' l, sendData op payload c s = .ok r s' ∧ s'.trace = l ++ s.trace ∧ l.length ≤ 1 ∧
      (∀ bytes, Obs.wr bytes ∈ l → Frame.build op payload (s.cfg.maskKey s.keyCtr) = some bytes) ∧
      (∀ op' plain, Obs.wrz op' plain ∈ l →
        op' = op ∧ plain = payload ∧ c = true ∧ s.compression.isSome = true) := by
  unfold sendData
  by_cases hc : c = true ∧ s.compression.isSome = true
  · rw [if_pos hc]
    obtain ⟨r, s', l, h, ht, hl, hwr, hwz⟩ := sendFrame_trace op [] (some payload) s
    refine ⟨r, s', l, h, ht, hl, ?_, ?_⟩
    · intro bytes hm; have := (hwr bytes hm).1; cases this
    · intro op' plain hm
      obtain ⟨h1, h2⟩ := hwz op' plain hm
      cases h2
      exact ⟨h1, rfl, hc.1, hc.2⟩
  · rw [if_neg hc]
    obtain ⟨r, s', l, h, ht, hl, hwr, hwz⟩ := sendFrame_trace op payload none s
    refine ⟨r, s', l, h, ht, hl, fun bytes hm => (hwr bytes hm).2, ?_⟩
    intro op' plain hm
    have := (hwz op' plain hm).2; cases this

end Lomond.Core
