/-
  C10 at the level of whole connections, for applications that are *arbitrary* once the reply has been
  decided: the application reacts to `Connecting` and to `Connected` by sending only (`QuietStart`: until
  then nothing has been read, and an application that closes or leaves before the reply arrives decides the
  outcome itself), and may do anything — close, drop the socket, abandon the iterator, raise — in reaction to
  `Ready`, `Rejected`, `ProtocolError`, `Disconnected` and everything later.

  * `run_startG`, `reach_finalG`       `run()` up to the deciding read, without the global `SendOnly`;
  * `arrive_readyG`                     `Ready` is on the trace whatever the application does with it;
  * `finish_any`                        what `run()`'s `except` / `else` / `finally` add after the loop: at most one
                                        `Disconnected`, the selector closed, a closed socket stays closed;
  * `run_readyG`, `run_rejectedG`, `run_oversizeG`.
-/
import Lomond.Proofs.HandshakeRun
set_option linter.unusedSimpArgs false
set_option linter.unusedVariables false
namespace Lomond.Core.HRun
open Lomond Lomond.Core Lomond.Core.E2E

/-- the application reacts to `Connecting` and to `Connected` by sending (anything), nothing else -/
def QuietStart (react : React) (proxy : Bool) : Prop :=
  (∀ a ∈ react [.connecting], isSendAct a = true) ∧ (∀ a ∈ react [.connected proxy, .connecting], isSendAct a = true)

theorem SendOnly.quietStart {react : React} (h : SendOnly react) (proxy : Bool) : QuietStart react proxy :=
  ⟨h _, h _⟩

/-- `yield event` when the application's reaction *to this history* is send-only -/
theorem yieldEv_send_at (e : Event) (s : Sys) (h : ∀ a ∈ s.react (e :: s.hist), isSendAct a = true) :
    ∃ s', yieldEv e s = .ok () s' ∧ Keep (pushEv e s) s' ∧ s'.hist = e :: s.hist := by
  have e0 : yieldEv e s = doActs (s.react (e :: s.hist)) (pushEv e s) := rfl
  have hk := E2E.keep_doActs (s.react (e :: s.hist)) h (pushEv e s)
  have hm := (Monitor.yieldEv_keeps e s).hist
  cases hr : doActs (s.react (e :: s.hist)) (pushEv e s) with
  | ok u s' =>
    rw [hr] at hk
    rw [e0, hr] at hm
    exact ⟨s', by rw [e0, hr], hk, hm⟩
  | err x s' => exact (noRaise_doActs_send _ h _ _ _ hr).elim

/-- the state in which the session loop starts (no assumption on the application's later behaviour) -/
structure AtLoopG (cfg : Cfg) (react : React) (env : List EnvStep) (proxy : Bool) (s : Sys) : Prop where
  cfg : s.cfg = cfg
  react : s.react = react
  env : s.env = env
  ready : s.ready = false
  closed : s.closed = false
  closing : s.closing = false
  sock : s.sockOpen = true
  sel : s.selOpen = true
  p : s.p = {}
  hist : hist s.trace = [.connected proxy, .connecting]

theorem run_startG (cfg : Cfg) (react : React) (env : List EnvStep) (proxy : Bool)
    (hc : cfg.connect = .ok proxy) (hw : cfg.writeFails 0 = false) (hq : QuietStart react proxy) :
    ∃ sA, AtLoopG cfg react env proxy sA ∧ StartTrace cfg proxy sA.trace ∧
      run { cfg := cfg, react := react, env := env } = tryC (do runBody env; selClose) runFinally sA := by
  let s0 : Sys := { cfg := cfg, react := react, env := env }
  obtain ⟨s1, h1, k1, hh1⟩ := yieldEv_send_at .connecting s0 hq.1
  have hcc : s1.cfg.connect = .ok proxy := by rw [k1.cfg]; exact hc
  let s2 : Sys := { s1 with sockOpen := true }
  have hwc : s2.cfg.writeFails s2.writeCtr = false := by
    show s1.cfg.writeFails s1.writeCtr = false
    rw [k1.cfg, k1.wctr rfl]; exact hw
  have hwr := write_ok_open s2.cfg.request s2 rfl k1.closed k1.closing hwc
  let s3 : Sys := { s2 with writeCtr := s2.writeCtr + 1, trace := .wr s2.cfg.request :: s2.trace }
  have ha3 : ∀ a ∈ s3.react (.connected proxy :: s3.hist), isSendAct a = true := by
    show ∀ a ∈ s1.react (.connected proxy :: s1.hist), isSendAct a = true
    rw [k1.react, hh1]; exact hq.2
  obtain ⟨s4, h4, k4, _⟩ := yieldEv_send_at (.connected proxy) s3 ha3
  have hyc : yieldConnected proxy s3 = .ok () s4 := by
    unfold yieldConnected
    rw [bind_ok (show getS s3 = .ok s3 s3 from rfl)]
    split
    · exact tryC_ok h4
    · exact h4
  let sA : Sys := { s4 with selOpen := true }
  have henv : sA.env = env := by show s4.env = env; rw [k4.env]; show s1.env = env; rw [k1.env]; rfl
  have hcf : sA.cfg = cfg := by show s4.cfg = cfg; rw [k4.cfg]; show s1.cfg = cfg; rw [k1.cfg]; rfl
  refine ⟨sA, ?_, ?_, ?_⟩
  · refine ⟨hcf, ?_, henv, ?_, ?_, ?_, ?_, rfl, ?_, ?_⟩
    · show s4.react = react; rw [k4.react]; show s1.react = react; rw [k1.react]; rfl
    · show s4.ready = false; rw [k4.ready]; show s1.ready = false; rw [k1.ready]; rfl
    · show s4.closed = false; rw [k4.closed]; show s1.closed = false; rw [k1.closed]; rfl
    · show s4.closing = false; rw [k4.closing]; show s1.closing = false; rw [k1.closing]; rfl
    · show s4.sockOpen = true; rw [k4.sockOpen]; rfl
    · show s4.p = {}; rw [k4.p]; show s1.p = {}; rw [k1.p]; rfl
    · show hist s4.trace = _
      rw [hist_keep k4]
      show hist (.ev (.connected proxy) :: .wr s2.cfg.request :: s1.trace) = _
      rw [hist_cons_ev, hist_cons_nonEv _ _ rfl, hist_keep k1]
      rfl
  · obtain ⟨l1, e1, n1, r1⟩ := k1.trace
    obtain ⟨l4, e4, n4, _⟩ := k4.trace
    have hreq : s2.cfg.request = cfg.request := by show s1.cfg.request = _; rw [k1.cfg]; rfl
    refine ⟨l4, l1, ?_, n4, r1 rfl⟩
    show s4.trace = _
    rw [e4]
    show l4 ++ .ev (.connected proxy) :: .wr s2.cfg.request :: s1.trace = _
    rw [e1, hreq]
    rfl
  · show run s0 = _
    unfold run
    rw [bind_ok h1, bind_ok (show getS s1 = .ok s1 s1 from rfl)]
    simp only [hcc]
    unfold afterConnect
    rw [bind_ok (show modS (fun s => { s with sockOpen := true }) s1 = .ok () s2 from rfl),
      bind_ok (show getS s2 = .ok s2 s2 from rfl), bind_ok hwr]
    have hwe : wsError ActRes.ok = false := by decide
    simp only [hwe, Bool.false_eq_true, if_false]
    rw [bind_ok hyc, bind_ok (show modS (fun s => { s with selOpen := true }) s4 = .ok () sA from rfl)]
    unfold runLoop
    rw [bind_ok (show getS sA = .ok sA sA from rfl), henv]

theorem hp_atLoopG {cfg : Cfg} {react : React} {env : List EnvStep} {proxy : Bool} {sA : Sys}
    (hA : AtLoopG cfg react env proxy sA) : HP sA :=
  ⟨hA.closed, hA.ready, hA.sock, by rw [hA.p], by rw [hA.p]; decide, by rw [hA.p]; decide⟩

/-- up to the deciding read, for an application that only sends until then -/
theorem reach_finalG {cfg : Cfg} {react : React} {proxy : Bool}
    (hc : cfg.connect = .ok proxy) (hw : cfg.writeFails 0 = false) (hqs : QuietStart react proxy)
    (steps rest : List EnvStep) (hq : ∀ st ∈ steps, Quiet st) (hhit : Hit (dataOf steps)) :
    ∃ sA pre d c post s', steps = pre ++ .wait d (some (.data c)) :: post ∧
      AtLoopG cfg react (steps ++ rest) proxy sA ∧ StartTrace cfg proxy sA.trace ∧
      run { cfg := cfg, react := react, env := steps ++ rest } =
        tryC (do runBody (steps ++ rest); selClose) runFinally sA ∧
      HP s' ∧ Idle sA s' ∧ s'.p.buf = dataOf pre ∧ ¬ Hit (dataOf pre) ∧ Hit (dataOf pre ++ c) ∧
      loop (steps ++ rest) sA =
        (match wsFeed c s' with
         | .ok _ s3 => loop (post ++ rest) s3
         | .err x s3 => .err x s3) := by
  obtain ⟨sA, hA, hst, hrun⟩ := run_startG cfg react (steps ++ rest) proxy hc hw hqs
  have hpA := hp_atLoopG hA
  have hbuf : sA.p.buf = [] := by rw [hA.p]
  obtain ⟨pre, d, c, post, e, hcne, hqp, h1, h2⟩ := split_steps steps hq [] not_hit_nil (by simpa using hhit)
  simp only [List.nil_append] at h1 h2
  obtain ⟨hn1, hn2⟩ := (not_hit_iff _).mp h1
  obtain ⟨hloop, hp', hidle, hb'⟩ := loop_quiet pre hqp (.wait d (some (.data c)) :: (post ++ rest)) sA hpA
    (by rw [hbuf]; exact hn1) (by rw [hbuf]; exact hn2)
  rw [hbuf, List.nil_append] at hb'
  refine ⟨sA, pre, d, c, post, tick (advance pre sA) d, e, hA, hst, hrun, hp_tick hp' d,
    hidle.trans (idle_tick _ d), hb', h1, h2, ?_⟩
  have e2 : steps ++ rest = pre ++ (.wait d (some (.data c)) :: (post ++ rest)) := by rw [e]; simp
  rw [e2, hloop]
  exact loop_wait_data d c (post ++ rest) (advance pre sA) (tick (advance pre sA) d) hp'.closed
    (regular_not_ready _ hp'.ready) hp'.sock hcne

/-! ### growing from a fixed state, through binds and handlers -/

theorem grows_bind {α β : Type} {m : M α} {f : α → M β} {s X : Sys} (hm : Grows X (m s).state)
    (hf : ∀ a, Spec Step (f a)) : Grows X ((m >>= f) s).state := by
  cases h : m s with
  | ok a s1 =>
    rw [h] at hm
    rw [bind_ok h]
    exact hm.trans (Grows.of_step (hf a s1))
  | err x s1 =>
    rw [h] at hm
    rw [bind_err h]
    exact hm

theorem grows_tryC {α : Type} {m : M α} {hd : Exn → M α} {s X : Sys} (hm : Grows X (m s).state)
    (hh : ∀ x, Spec Step (hd x)) : Grows X (tryC m hd s).state := by
  cases h : m s with
  | ok a s1 =>
    rw [h] at hm
    rw [tryC_ok h]
    exact hm
  | err x s1 =>
    rw [h] at hm
    rw [tryC_err h]
    exact hm.trans (Grows.of_step (hh x s1))

theorem yieldEv_step_push (e : Event) (s : Sys) : Step (pushEv e s) (yieldEv e s).state := by
  have e0 : yieldEv e s = doActs (s.react (e :: s.hist)) (pushEv e s) := rfl
  rw [e0]; exact step_doActs _ _

theorem step_feedYield_handler' (inTry : Bool) (x : Exn) :
    Spec Step (do (if inTry then onDisconnect else pure ()); throwE (.outer x) : M Unit) := by
  apply spec_bind step_po
  · split
    · exact step_onDisconnect
    · exact spec_pure step_po ()
  · intro _; exact spec_throwE step_po _

/-- an event leaving `feed`: it is on the trace, whatever the application and the timers do afterwards -/
theorem grows_feedYield (b : Bool) (e : Event) (s s' : Sys) (he : onEvent e s = .ok () s') :
    Grows (pushEv e s') (feedYield b e s).state := by
  unfold feedYield
  apply grows_tryC
  · rw [bind_ok he]
    apply grows_bind
    · exact Grows.of_step (yieldEv_step_push e s')
    · intro _; exact step_regular
  · intro x; exact step_feedYield_handler' b x

theorem step_afterReady : Spec Step (do modS (fun s => { s with parsedResponse := true }); notClosed : M Bool) :=
  spec_bind step_po (spec_modS (fun s => by step_leaf)) (fun _ => step_notClosed)

theorem step_restOfRead (rest : Bytes) (go : Bool) :
    Spec Step (if go then (do let _ ← feedLoop rest; pure () : M Unit) else pure ()) := by
  cases go
  · exact spec_pure step_po ()
  · exact spec_bind step_po (step_feedLoop rest) (fun _ => spec_pure step_po ())

/-- **the block is accepted**, any application: `Ready` is on the trace -/
theorem arrive_readyG (c : Bytes) (s : Sys) (h : HP s) (i : Nat) (acc : Http.Accepted)
    (hsome : findSep Gen.headerSep (s.p.buf ++ c) = some i) (hlen : i + 4 ≤ Gen.headerMax)
    (hok : Http.onResponse s.cfg.v.strictAccept s.cfg.challenge
            (Http.parseResponse ((s.p.buf ++ c).take (i + 4))) = .ok acc) :
    ∃ X, hist X.trace = .ready acc.protocol acc.deflate.isSome :: hist s.trace ∧ Grows X (wsFeed c s).state := by
  have hfb := feedBody_terminated_ok s c i h.cont hsome hlen
  have hok' : Http.onResponse (headerDone s).cfg.v.strictAccept (headerDone s).cfg.challenge
      (Http.parseResponse ((s.p.buf ++ c).take (i + 4))) = .ok acc := hok
  let s1 := readyPrep acc (headerDone s)
  let X := pushEv (.ready acc.protocol acc.deflate.isSome) (Timers.readyState s1)
  refine ⟨X, rfl, ?_⟩
  have g1 : Grows X (feedYield true (.ready acc.protocol acc.deflate.isSome) s1).state :=
    grows_feedYield true _ s1 _ (Timers.onEvent_ready _ _ s1)
  have g2 : Grows X (onOut (.header ((s.p.buf ++ c).take (i + 4))) (headerDone s)).state := by
    rw [onOut_accept (headerDone s) _ acc hok']
    exact grows_bind g1 (fun _ => step_afterReady)
  have g3 : Grows X (feedBody c s).state := by
    rw [hfb]
    exact grows_bind g2 (fun go => step_restOfRead _ go)
  rw [wsFeed_eq]
  simp only [h.closed, Bool.false_eq_true, if_false]
  exact g3.trans (Grows.of_step (wsWrap_step _))

/-! ### what `run()` adds after the loop, for any application -/

/-- at most one more event, and it is a `Disconnected` (histories newest first) -/
def Tail1 (a b : List Event) : Prop := a = b ∨ ∃ k g, a = .disconnected k g :: b

theorem quiet_nonEv (l : List Obs) (h : ∀ o ∈ l, Monitor.Obs.quiet o = true) : ∀ o ∈ l, Obs.isEv o = false := by
  intro o ho
  have := h o ho
  cases o <;> first | rfl | cases this

/-- `closeSocket; yield e`, any application: exactly the event `e` is added, the socket ends closed -/
theorem closeYield_any (e : Event) (s : Sys) :
    hist ((do closeSocket; yieldEv e : M Unit) s).state.trace = e :: hist s.trace ∧
    ((do closeSocket; yieldEv e : M Unit) s).state.sockOpen = false ∧
    ((do closeSocket; yieldEv e : M Unit) s).state.selOpen = s.selOpen := by
  obtain ⟨s2, l2, h2, so2, _, se2, t2, n2⟩ := E2E.closeSocket_trace s
  rw [bind_ok h2]
  have hk := Monitor.yieldEv_keeps e s2
  have hst := step_yieldEv e s2
  obtain ⟨l, hl, nl⟩ := hk.trace
  refine ⟨?_, hst.sockMono so2, hst.selKeep.trans se2⟩
  rw [hl, hist_append, hist_nonEv l (quiet_nonEv l nl)]
  show hist (.ev e :: s2.trace) = _
  rw [hist_cons_ev, t2, hist_append, hist_nonEv l2 (fun o ho => by rw [n2 o ho]; rfl)]
  rfl

theorem selClose_any (s : Sys) :
    ∃ s', selClose s = .ok () s' ∧ hist s'.trace = hist s.trace ∧ s'.selOpen = false ∧ s'.sockOpen = s.sockOpen := by
  obtain ⟨s', h, h1, h2, t, ht, nt⟩ := selClose_spec s
  refine ⟨s', h, ?_, h2, h1⟩
  rw [ht, hist_append, hist_nonEv t nt]; rfl

theorem runFinally_any (x : Exn) (s : Sys) :
    hist (runFinally x s).state.trace = hist s.trace ∧ (runFinally x s).state.selOpen = false ∧
    (s.sockOpen = false → (runFinally x s).state.sockOpen = false) := by
  unfold runFinally
  rw [bind_ok (show getS s = .ok s s from rfl)]
  have h1 : ∃ s1, (if s.cfg.v.cleanup then closeSocket else pure ()) s = .ok () s1 ∧ hist s1.trace = hist s.trace ∧
      (s.sockOpen = false → s1.sockOpen = false) := by
    split
    · obtain ⟨s2, l2, h2, so2, _, _, t2, n2⟩ := E2E.closeSocket_trace s
      exact ⟨s2, h2, by rw [t2, hist_append, hist_nonEv l2 (fun o ho => by rw [n2 o ho]; rfl)]; rfl, fun _ => so2⟩
    · exact ⟨s, rfl, rfl, id⟩
  obtain ⟨s1, e1, hh1, hs1⟩ := h1
  rw [bind_ok e1]
  obtain ⟨s2, e2, hh2, hsel, hso⟩ := selClose_any s1
  rw [bind_ok e2]
  exact ⟨hh2.trans hh1, hsel, fun h0 => by show s2.sockOpen = false; rw [hso]; exact hs1 h0⟩

theorem onLoopEnd_cases (r : Option Exn) (s : Sys) :
    (∃ k g, onLoopEnd r s = (do closeSocket; yieldEv (.disconnected k g) : M Unit) s) ∨
    (∃ y, onLoopEnd r s = .err y s) := by
  unfold onLoopEnd
  split
  all_goals first
    | exact Or.inl ⟨_, _, rfl⟩
    | exact Or.inr ⟨_, rfl⟩

/-- **`run()` after the loop, any application**: whatever the loop's result, at most one `Disconnected` is added,
    the selector ends closed, and a socket that was closed stays closed -/
theorem finish_any (env : List EnvStep) (sA : Sys) :
    Tail1 (hist (tryC (do runBody env; selClose) runFinally sA).state.trace) (hist (loop env sA).state.trace) ∧
    (tryC (do runBody env; selClose) runFinally sA).state.selOpen = false ∧
    ((loop env sA).state.sockOpen = false → (tryC (do runBody env; selClose) runFinally sA).state.sockOpen = false) := by
  have hb : ∃ r, runBody env sA = onLoopEnd r (loop env sA).state := by
    cases hl : loop env sA with
    | ok u s1 => exact ⟨none, runBody_of_loop_okV env sA s1 hl⟩
    | err y s1 => exact ⟨some y, runBody_of_loop_err env sA s1 y hl⟩
  obtain ⟨r, hb⟩ := hb
  generalize (loop env sA).state = s1 at hb ⊢
  rcases onLoopEnd_cases r s1 with ⟨k, g, hc⟩ | ⟨y, hc⟩
  · obtain ⟨hh, hso, hse⟩ := closeYield_any (.disconnected k g) s1
    cases hr : (do closeSocket; yieldEv (.disconnected k g) : M Unit) s1 with
    | ok u s2 =>
      rw [hr] at hh hso
      simp only [Res.state_ok] at hh hso
      obtain ⟨s3, e3, hh3, hsel3, hso3⟩ := selClose_any s2
      have hrb : runBody env sA = .ok () s2 := hb.trans (hc.trans hr)
      rw [tryC_ok (by rw [bind_ok hrb]; exact e3)]
      exact ⟨Or.inr ⟨k, g, hh3.trans hh⟩, hsel3, fun _ => hso3.trans hso⟩
    | err x s2 =>
      rw [hr] at hh hso
      simp only [Res.state_err] at hh hso
      have hrb : runBody env sA = .err x s2 := hb.trans (hc.trans hr)
      rw [tryC_err (bind_err hrb)]
      obtain ⟨f1, f2, f3⟩ := runFinally_any x s2
      exact ⟨Or.inr ⟨k, g, f1.trans hh⟩, f2, fun _ => f3 hso⟩
  · have hrb : runBody env sA = .err y s1 := hb.trans hc
    rw [tryC_err (bind_err hrb)]
    obtain ⟨f1, f2, f3⟩ := runFinally_any y s1
    exact ⟨Or.inl f1, f2, f3⟩

/-- `runAll` adds no event to what `run()` left, and does not re-open the socket -/
theorem runAll_any (cfg : Cfg) (react : React) (env : List EnvStep) :
    hist (runAll cfg react env).trace = hist (run { cfg := cfg, react := react, env := env }).state.trace ∧
    ((run { cfg := cfg, react := react, env := env }).state.sockOpen = false → (runAll cfg react env).sockOpen = false) ∧
    ((run { cfg := cfg, react := react, env := env }).state.selOpen = false → (runAll cfg react env).selOpen = false) := by
  unfold runAll
  simp only []
  cases hr : run { cfg := cfg, react := react, env := env } with
  | ok u s => exact ⟨rfl, id, id⟩
  | err x s =>
    have hcs : hist (match closeSocket s with | .ok _ s' => s' | .err _ s' => s').trace = hist s.trace ∧
        (s.sockOpen = false → (match closeSocket s with | .ok _ s' => s' | .err _ s' => s').sockOpen = false) ∧
        (s.selOpen = false → (match closeSocket s with | .ok _ s' => s' | .err _ s' => s').selOpen = false) := by
      obtain ⟨s2, l2, h2, so2, _, se2, t2, n2⟩ := E2E.closeSocket_trace s
      rw [h2]
      exact ⟨by rw [t2, hist_append, hist_nonEv l2 (fun o ho => by rw [n2 o ho]; rfl)]; rfl, fun _ => so2,
        fun h0 => se2.trans h0⟩
    have hinc : hist ({ s with trace := .incomplete :: s.trace } : Sys).trace = hist s.trace := hist_cons_nonEv _ _ rfl
    cases x with
    | genExit =>
      simp only [Res.state_err]
      split
      · exact hcs
      · exact ⟨rfl, id, id⟩
    | outer y =>
      cases y with
      | genExit =>
        simp only [Res.state_err]
        split
        · exact hcs
        · exact ⟨rfl, id, id⟩
      | _ => exact ⟨hinc, id, id⟩
    | _ => exact ⟨hinc, id, id⟩

/-! ### whole connections, any application after the reply -/

theorem run_readyG {cfg : Cfg} {react : React} {proxy : Bool}
    (hc : cfg.connect = .ok proxy) (hw : cfg.writeFails 0 = false) (hqs : QuietStart react proxy)
    (steps rest : List EnvStep) (hq : ∀ st ∈ steps, Quiet st) (i : Nat) (acc : Http.Accepted)
    (hsep : findSep Gen.headerSep (dataOf steps) = some i) (hlen : i + 4 ≤ Gen.headerMax)
    (hok : Http.onResponse cfg.v.strictAccept cfg.challenge (Http.parseResponse ((dataOf steps).take (i + 4))) = .ok acc) :
    ∃ L T0, (runAll cfg react (steps ++ rest)).trace = L ++ T0 ∧
      hist T0 = [.ready acc.protocol acc.deflate.isSome, .connected proxy, .connecting] := by
  obtain ⟨sA, pre, d, c, post, s', e, hA, hst, hrun, hp', hidle, hb', h1, h2, hloop⟩ :=
    reach_finalG hc hw hqs steps rest hq (Or.inl (by rw [hsep]; simp))
  have hsep' : findSep Gen.headerSep (dataOf pre ++ c ++ dataOf post) = some i := by
    rw [← dataOf_split, ← e]; exact hsep
  have hsome := (hit_resolve (dataOf pre) c (dataOf post) i h1 h2 hsep').1 hlen
  have hblock : (dataOf steps).take (i + 4) = (s'.p.buf ++ c).take (i + 4) := by
    rw [hb', e, dataOf_split]; exact take_block _ _ _ i hsome
  have hcfg : s'.cfg = cfg := hidle.cfg.trans hA.cfg
  obtain ⟨X, hhX, hgX⟩ := arrive_readyG c s' hp' i acc (by rw [hb']; exact hsome) hlen
    (by rw [hcfg, ← hblock]; exact hok)
  have hgl : Grows X (loop (steps ++ rest) sA).state := by
    rw [hloop]
    cases hwf : wsFeed c s' with
    | ok u s3 =>
      rw [hwf] at hgX
      exact hgX.trans (Grows.of_step (step_loop _ s3))
    | err x s3 => rw [hwf] at hgX; exact hgX
  have hgr := grows_after_loop (steps ++ rest) sA X hgl
  rw [← hrun] at hgr
  obtain ⟨L, hL⟩ := hgr.trans (grows_runAll cfg react (steps ++ rest))
  refine ⟨L, X.trace, hL, ?_⟩
  rw [hhX, hidle.hist, hA.hist]

/-- the three facts about the end of `run()` and `runAll` that the refused cases share -/
theorem end_of_run {cfg : Cfg} {react : React} (env : List EnvStep) (sA : Sys)
    (hrun : run { cfg := cfg, react := react, env := env } = tryC (do runBody env; selClose) runFinally sA) :
    Tail1 (hist (runAll cfg react env).trace) (hist (loop env sA).state.trace) ∧
    (runAll cfg react env).selOpen = false ∧
    ((loop env sA).state.sockOpen = false → (runAll cfg react env).sockOpen = false) := by
  obtain ⟨f1, f2, f3⟩ := finish_any env sA
  obtain ⟨a1, a2, a3⟩ := runAll_any cfg react env
  rw [hrun] at a1 a2 a3
  exact ⟨by rw [a1]; exact f1, a3 f2, fun h => a2 (f3 h)⟩

theorem run_rejectedG {cfg : Cfg} {react : React} {proxy : Bool}
    (hc : cfg.connect = .ok proxy) (hw : cfg.writeFails 0 = false) (hqs : QuietStart react proxy)
    (steps rest : List EnvStep) (hq : ∀ st ∈ steps, Quiet st) (i : Nat) (reason : Http.Str)
    (hsep : findSep Gen.headerSep (dataOf steps) = some i) (hlen : i + 4 ≤ Gen.headerMax)
    (herr : Http.onResponse cfg.v.strictAccept cfg.challenge (Http.parseResponse ((dataOf steps).take (i + 4))) = .error reason) :
    Tail1 (hist (runAll cfg react (steps ++ rest)).trace) [.rejected reason, .connected proxy, .connecting] ∧
    (runAll cfg react (steps ++ rest)).sockOpen = false ∧ (runAll cfg react (steps ++ rest)).selOpen = false := by
  obtain ⟨sA, pre, d, c, post, s', e, hA, hst, hrun, hp', hidle, hb', h1, h2, hloop⟩ :=
    reach_finalG hc hw hqs steps rest hq (Or.inl (by rw [hsep]; simp))
  have hsep' : findSep Gen.headerSep (dataOf pre ++ c ++ dataOf post) = some i := by
    rw [← dataOf_split, ← e]; exact hsep
  have hsome := (hit_resolve (dataOf pre) c (dataOf post) i h1 h2 hsep').1 hlen
  have hblock : (dataOf steps).take (i + 4) = (s'.p.buf ++ c).take (i + 4) := by
    rw [hb', e, dataOf_split]; exact take_block _ _ _ i hsome
  have hcfg : s'.cfg = cfg := hidle.cfg.trans hA.cfg
  obtain ⟨s3, hout, hres⟩ := wsFeed_rejected s' c i reason hp'.cont hp'.closed hp'.ready
    (by rw [hb']; exact hsome) hlen (by rw [hcfg, ← hblock]; exact herr)
  have hls : (loop (steps ++ rest) sA).state = s3 := by
    rw [hloop]
    rcases hres with h | ⟨x, h⟩
    · rw [h]; simp only []; rw [loop_closed _ s3 hout.closed]; rfl
    · rw [h]; rfl
  obtain ⟨t, ht, nt⟩ := hout.trace
  have hh3 : hist s3.trace = [.rejected reason, .connected proxy, .connecting] := by
    rw [ht, hist_append, hist_nonEv t (res_nonEv t nt), hist_cons_ev, hist_append]
    have : hist (if s'.sockOpen = true then [Obs.sockClose] else []) = [] := by split <;> rfl
    rw [this, hidle.hist, hA.hist]; rfl
  obtain ⟨e1, e2, e3⟩ := end_of_run (steps ++ rest) sA hrun
  rw [hls] at e1 e3
  rw [hh3] at e1
  exact ⟨e1, e3 hout.sock, e2⟩

theorem run_oversizeG {cfg : Cfg} {react : React} {proxy : Bool}
    (hc : cfg.connect = .ok proxy) (hw : cfg.writeFails 0 = false) (hqs : QuietStart react proxy)
    (steps rest : List EnvStep) (hq : ∀ st ∈ steps, Quiet st)
    (hbig : (findSep Gen.headerSep (dataOf steps) = none ∧ (dataOf steps).length > Gen.headerMax) ∨
            (∃ i, findSep Gen.headerSep (dataOf steps) = some i ∧ i + 4 > Gen.headerMax)) :
    Tail1 (hist (runAll cfg react (steps ++ rest)).trace)
      [.protocolError "expected separator" true, .connected proxy, .connecting] ∧
    (runAll cfg react (steps ++ rest)).selOpen = false := by
  have hhit : Hit (dataOf steps) := by
    rcases hbig with ⟨_, h⟩ | ⟨i, h, _⟩
    · exact Or.inr h
    · exact Or.inl (by rw [h]; simp)
  obtain ⟨sA, pre, d, c, post, s', e, hA, hst, hrun, hp', hidle, hb', h1, h2, hloop⟩ :=
    reach_finalG hc hw hqs steps rest hq hhit
  have hds : dataOf steps = dataOf pre ++ c ++ dataOf post := by rw [e, dataOf_split]
  have hbig' : (findSep Gen.headerSep (s'.p.buf ++ c) = none ∧ (s'.p.buf ++ c).length > Gen.headerMax) ∨
      (∃ i, findSep Gen.headerSep (s'.p.buf ++ c) = some i ∧ i + 4 > Gen.headerMax) := by
    rw [hb']
    rcases hbig with ⟨hn, _⟩ | ⟨i, hi, hgt⟩
    · rw [hds] at hn
      have hn' := findSep_prefix_none _ _ _ hn
      rcases h2 with h | h
      · exact absurd hn' h
      · exact Or.inl ⟨hn', h⟩
    · rw [hds] at hi
      exact (hit_resolve (dataOf pre) c (dataOf post) i h1 h2 hi).2 hgt
  have herr : feedBody c s' = .err (.parse "expected separator") { s' with p := deadParser s'.p } := by
    rcases hbig' with ⟨a, b⟩ | ⟨i, a, b⟩
    · exact feedBody_unterminated_long s' c hp'.cont a b
    · exact feedBody_terminated_long s' c i hp'.cont a b
  obtain ⟨s2, x, hrel, hws⟩ := wsFeed_header_too_long s' { s' with p := deadParser s'.p } c hp'.closed hp'.ready herr
  have hls : (loop (steps ++ rest) sA).state = s2 := by rw [hloop, hws]; rfl
  obtain ⟨t, ht, nt, _⟩ := hrel.trace
  have hh2 : hist s2.trace = [.protocolError "expected separator" true, .connected proxy, .connecting] := by
    rw [ht, hist_append, hist_nonEv t nt]
    show hist (.ev (.protocolError "expected separator" true) :: s'.trace) = _
    rw [hist_cons_ev, hidle.hist, hA.hist]
  obtain ⟨e1, e2, _⟩ := end_of_run (steps ++ rest) sA hrun
  rw [hls, hh2] at e1
  exact ⟨e1, e2⟩

end Lomond.Core.HRun
