/-
  End-to-end composition: helper lemmas that tie the per-layer theorems (C01 delivery, C02
  segmentation independence, C04 violations, C05 UTF-8, C10 handshake) to a whole connection
  `runAll cfg react env`.

  Setting: the environment is a list of reads, all `wait 0` (the clock does not advance between
  them), of a byte stream `reply ++ stream`; the application only *sends* (`SendOnly`).  Then

  * `I` — the invariant of every state between two library steps that returned normally: the
    socket is open unless the websocket is closed, the session clock reads 0, and the Poll timer
    has fired exactly when `ready`;  under `I`, `_regular()` is the identity (`regular_id`);
  * `OkSpec Z` — `I` is preserved by every function of the receive pipeline *when it returns
    normally*, and from a `ready` state no Poll event is added (`z_feedLoop`, `z_wsFeed`);
  * `loop_reads` — the session loop over such reads is `WebSocket.feed` of the concatenation
    (with C02's `wsFeedChunks_eq_flatten`);
  * `run_start`, `feed_reply`, `finish_err`, `finish_ok` — `run()` before the loop, the handshake
    read, and `run()`'s `except`/`else` clauses after the loop.
-/
import Lomond.Proofs.Delivery
import Lomond.Proofs.Violation
import Lomond.Proofs.HandshakeCore
import Lomond.Proofs.TimerInv
import Lomond.Proofs.RunAll
set_option linter.unusedSimpArgs false
set_option linter.unusedVariables false
namespace Lomond.Core.E2E
open Lomond Lomond.Core

/-! ### events of a trace -/

/-- all events of a trace, newest first (`Monitor.histOf`) -/
abbrev hist (tr : List Obs) : List Event := Monitor.histOf tr

theorem hist_cons_ev (e : Event) (t : List Obs) : hist (.ev e :: t) = e :: hist t := rfl

theorem hist_cons_nonEv (o : Obs) (t : List Obs) (h : Obs.isEv o = false) : hist (o :: t) = hist t := by
  cases o <;> first | (simp [Obs.isEv] at h; done) | rfl

theorem delivered_cons_nonEv (o : Obs) (t : List Obs) (h : Obs.isEv o = false) : delivered (o :: t) = delivered t := by
  cases o <;> first | (simp [Obs.isEv] at h; done) | rfl

theorem hist_append (a b : List Obs) : hist (a ++ b) = hist a ++ hist b := by
  simp [hist, Monitor.histOf, List.filterMap_append]

theorem hist_nonEv (l : List Obs) (h : ∀ o ∈ l, Obs.isEv o = false) : hist l = [] := by
  induction l with
  | nil => rfl
  | cons o r ih =>
    have ho := h o List.mem_cons_self
    have hr := ih (fun o' ho' => h o' (List.mem_cons_of_mem _ ho'))
    rw [hist_cons_nonEv o r ho]; exact hr

theorem events_eq_hist (tr : List Obs) : Monitor.events tr = (hist tr).reverse := by
  simp [Monitor.events, hist, Monitor.histOf, List.filterMap_reverse]

theorem delivered_append (a b : List Obs) : delivered (a ++ b) = delivered a ++ delivered b := by
  simp [delivered, List.filterMap_append]

theorem delivered_cons_ev (e : Event) (t : List Obs) (h : e ≠ .poll) : delivered (.ev e :: t) = e :: delivered t := by
  simp [delivered, h]

theorem delivered_nonEv (l : List Obs) (h : ∀ o ∈ l, Obs.isEv o = false) : delivered l = [] := by
  induction l with
  | nil => rfl
  | cons o r ih =>
    have ho := h o List.mem_cons_self
    have hr := ih (fun o' ho' => h o' (List.mem_cons_of_mem _ ho'))
    rw [delivered_cons_nonEv o r ho]; exact hr

/-- not a Poll event -/
def NotPoll (o : Obs) : Prop := o ≠ .ev .poll

theorem delivered_eq_hist (l : List Obs) (h : ∀ o ∈ l, NotPoll o) : delivered l = hist l := by
  induction l with
  | nil => rfl
  | cons o r ih =>
    have ho := h o List.mem_cons_self
    have hr := ih (fun o' ho' => h o' (List.mem_cons_of_mem _ ho'))
    cases o with
    | ev e =>
      have : e ≠ .poll := fun he => ho (by rw [he])
      rw [delivered_cons_ev e r this, hist_cons_ev, hr]
    | _ => rw [delivered_cons_nonEv _ r rfl, hist_cons_nonEv _ r rfl]; exact hr

/-- when no Poll was added, the `delivered` bookkeeping of C01 describes *all* events -/
theorem hist_of_delivered {tr tr' l : List Obs} {X : List Event} (ht : tr' = l ++ tr)
    (hl : ∀ o ∈ l, NotPoll o) (hd : delivered tr' = X ++ delivered tr) : hist tr' = X ++ hist tr := by
  subst ht
  rw [delivered_append] at hd
  have := List.append_cancel_right hd
  rw [hist_append, ← delivered_eq_hist l hl, this]

theorem delivered_of_hist (tr : List Obs) : delivered tr = (hist tr).filter (fun e => e ≠ .poll) := by
  induction tr with
  | nil => rfl
  | cons o r ih =>
    cases o with
    | ev e =>
      by_cases he : e = .poll
      · subst he
        have e1 : delivered (.ev .poll :: r) = delivered r := rfl
        rw [e1, hist_cons_ev, List.filter_cons]; simp [ih]
      · rw [delivered_cons_ev e r he, hist_cons_ev, List.filter_cons]; simp [he, ih]
    | _ => rw [delivered_cons_nonEv _ r rfl, hist_cons_nonEv _ r rfl]; exact ih

/-! ### applications that only send -/

def isSendAct : Act → Bool
  | .sendText _ _ => true
  | .sendBinary _ _ => true
  | .sendPing _ => true
  | .sendPong _ => true
  | _ => false

/-- the application reacts to events by sending (text, binary, ping, pong; any arguments, valid
    or not), never by closing, dropping the socket or leaving the loop -/
def SendOnly (r : React) : Prop := ∀ h, ∀ a ∈ r h, isSendAct a = true

theorem SendOnly.quiet {r : React} (h : SendOnly r) : QuietApp r := by
  intro hi a ha
  have := h hi a ha
  cases a <;> first | rfl | (simp [isSendAct] at this)

/-- what a send call can do to the state: nothing but counters and non-event trace entries; with
    the socket gone not even a write -/
structure Keep (s s' : Sys) : Prop where
  cfg : s'.cfg = s.cfg
  react : s'.react = s.react
  env : s'.env = s.env
  sockOpen : s'.sockOpen = s.sockOpen
  selOpen : s'.selOpen = s.selOpen
  closed : s'.closed = s.closed
  closing : s'.closing = s.closing
  ready : s'.ready = s.ready
  startTime : s'.startTime = s.startTime
  now : s'.now = s.now
  pollStart : s'.pollStart = s.pollStart
  sentCloseTime : s'.sentCloseTime = s.sentCloseTime
  p : s'.p = s.p
  frames : s'.frames = s.frames
  wctr : s.sockOpen = false → s'.writeCtr = s.writeCtr
  trace : ∃ l, s'.trace = l ++ s.trace ∧ (∀ o ∈ l, Obs.isEv o = false) ∧
    (s.sockOpen = false → ∀ o ∈ l, Obs.isRes o = true)

theorem keep_po : PO Keep where
  refl s := ⟨rfl, rfl, rfl, rfl, rfl, rfl, rfl, rfl, rfl, rfl, rfl, rfl, rfl, rfl, fun _ => rfl,
    ⟨[], rfl, by simp, by simp⟩⟩
  trans := by
    intro a b c h1 h2
    obtain ⟨l1, e1, n1, r1⟩ := h1.trace
    obtain ⟨l2, e2, n2, r2⟩ := h2.trace
    refine ⟨h2.cfg.trans h1.cfg, h2.react.trans h1.react, h2.env.trans h1.env, h2.sockOpen.trans h1.sockOpen,
      h2.selOpen.trans h1.selOpen, h2.closed.trans h1.closed, h2.closing.trans h1.closing,
      h2.ready.trans h1.ready, h2.startTime.trans h1.startTime, h2.now.trans h1.now,
      h2.pollStart.trans h1.pollStart, h2.sentCloseTime.trans h1.sentCloseTime,
      h2.p.trans h1.p, h2.frames.trans h1.frames,
      fun h => (h2.wctr (h1.sockOpen.trans h)).trans (h1.wctr h), ?_⟩
    refine ⟨l2 ++ l1, by rw [e2, e1, List.append_assoc], ?_, ?_⟩
    · intro o ho
      rcases List.mem_append.mp ho with h | h
      · exact n2 o h
      · exact n1 o h
    · intro hs o ho
      rcases List.mem_append.mp ho with h | h
      · exact r2 (h1.sockOpen.trans hs) o h
      · exact r1 hs o h

/-- leaf tactic: `Keep s s'` for an explicit `s'` -/
macro "keep_leaf" : tactic =>
  `(tactic| ((try simp only [Res.state_ok, Res.state_err])
             first
              | exact keep_po.refl _
              | (refine ⟨rfl, rfl, rfl, rfl, rfl, rfl, rfl, rfl, rfl, rfl, rfl, rfl, rfl, rfl, ?_, ?_⟩
                 · intro _; rfl
                 · first
                    | (refine ⟨[], rfl, ?_, ?_⟩ <;> simp; done)
                    | (refine ⟨[_], rfl, ?_, ?_⟩ <;> simp [Obs.isEv, Obs.isRes]; done))))

theorem keep_write (d : Bytes) (z : Option (Nat × Bytes)) : Spec Keep (write d z) := by
  intro s; unfold write
  splits
  all_goals first
    | keep_leaf
    | (have hn : ¬ s.sockOpen = false := by
         intro h0
         have : ¬ ¬ s.sockOpen = true := by assumption
         rw [h0] at this
         simp at this
       simp only [Res.state_ok]
       exact ⟨rfl, rfl, rfl, rfl, rfl, rfl, rfl, rfl, rfl, rfl, rfl, rfl, rfl, rfl,
         fun h => (hn h).elim, ⟨[_], rfl, (by simp [Obs.isEv]), fun h => (hn h).elim⟩⟩)

theorem keep_sendFrame (op : Nat) (pl : Bytes) (c : Option Bytes) : Spec Keep (sendFrame op pl c) := by
  intro s; unfold sendFrame
  simp only
  splits
  all_goals first
    | keep_leaf
    | exact keep_po.trans (by keep_leaf) (keep_write _ _ _)

theorem keep_sendData (op : Nat) (pl : Bytes) (c : Bool) : Spec Keep (sendData op pl c) := by
  intro s; unfold sendData; split <;> exact keep_sendFrame _ _ _ s

theorem keep_log_res (r : ActRes) : Spec Keep (log (.res r)) := by
  intro s; unfold log modS; keep_leaf

theorem keep_logRes {m : M ActRes} (h : Spec Keep m) : Spec Keep (logRes m) := by
  unfold logRes
  exact spec_bind keep_po h (fun r => keep_log_res r)

theorem keep_doAct (a : Act) (ha : isSendAct a = true) : Spec Keep (doAct a) := by
  unfold doAct
  split
  all_goals first
    | (apply keep_logRes
       first
        | exact spec_pure keep_po _
        | exact keep_sendData _ _ _
        | exact spec_ite _ (spec_pure keep_po _) (keep_sendData _ _ _)
        | exact spec_ite _ (spec_pure keep_po _) (keep_sendFrame _ _ _))
    | (simp [isSendAct] at ha)

theorem keep_doActs (as : List Act) (h : ∀ a ∈ as, isSendAct a = true) : Spec Keep (doActs as) := by
  induction as with
  | nil => exact spec_pure keep_po ()
  | cons a r ih =>
    unfold doActs
    exact spec_bind keep_po (keep_doAct a (h a (by simp))) (fun _ => ih (fun b hb => h b (by simp [hb])))

/-- send calls never raise -/
theorem noRaise_doAct_send (a : Act) (ha : isSendAct a = true) : NoRaise (doAct a) := by
  unfold doAct
  split
  all_goals first
    | (apply noRaise_logRes
       first
        | exact raises_pure _
        | exact noRaise_sendData _ _ _
        | exact raises_ite _ (raises_pure _) (noRaise_sendData _ _ _)
        | exact raises_ite _ (raises_pure _) (noRaise_sendFrame _ _ _))
    | (simp [isSendAct] at ha)

theorem noRaise_doActs_send (as : List Act) (h : ∀ a ∈ as, isSendAct a = true) : NoRaise (doActs as) := by
  induction as with
  | nil => exact raises_pure ()
  | cons a r ih =>
    unfold doActs
    exact raises_bind (noRaise_doAct_send a (h a (by simp))) (fun _ => ih (fun b hb => h b (by simp [hb])))

/-- `yield event` to a send-only application: returns normally; apart from the event itself only
    counters and non-event trace entries change -/
theorem yieldEv_send (e : Event) (s : Sys) (h : SendOnly s.react) :
    ∃ s', yieldEv e s = .ok () s' ∧ Keep (pushEv e s) s' := by
  have e0 : yieldEv e s = doActs (s.react (e :: s.hist)) (pushEv e s) := rfl
  rw [e0]
  have hk := keep_doActs (s.react (e :: s.hist)) (h _) (pushEv e s)
  cases hr : doActs (s.react (e :: s.hist)) (pushEv e s) with
  | ok u s' => rw [hr] at hk; exact ⟨s', rfl, hk⟩
  | err x s' => exact (noRaise_doActs_send _ (h _) _ _ _ hr).elim


/-! ### the invariant between two library steps that returned normally -/

/-- frozen clock, send-only application: the socket is open unless the websocket is closed, the
    session clock reads 0, and `_poll_start` is set (to 0) exactly when `ready` -/
structure I (s : Sys) : Prop where
  app : SendOnly s.react
  poll : 0 < s.cfg.poll
  sock : s.sockOpen = true ∨ s.closed = true
  nr : s.ready = false → s.startTime = none ∧ s.pollStart = none
  rd : s.ready = true → s.startTime = some s.now ∧ s.pollStart = some 0

/-- the same between `_on_event` and `_regular()`: right after Ready the Poll timer is still unset -/
structure K (s : Sys) : Prop where
  app : SendOnly s.react
  poll : 0 < s.cfg.poll
  sock : s.sockOpen = true ∨ s.closed = true
  nr : s.ready = false → s.startTime = none ∧ s.pollStart = none
  rd : s.ready = true → s.startTime = some s.now ∧ (s.pollStart = none ∨ s.pollStart = some 0)

theorem I.k {s : Sys} (h : I s) : K s :=
  ⟨h.app, h.poll, h.sock, h.nr, fun hr => ⟨(h.rd hr).1, Or.inr (h.rd hr).2⟩⟩

theorem K.time0 {s : Sys} (h : K s) : sessionTime s = 0 := by
  unfold sessionTime
  cases hr : s.ready with
  | false => rw [(h.nr hr).1]
  | true => rw [(h.rd hr).1]; simp

theorem I.time0 {s : Sys} (h : I s) : sessionTime s = 0 := h.k.time0

theorem noTimeout_of_time0 {s : Sys} (h : sessionTime s = 0) : NoTimeout s := by
  refine ⟨Or.inr (by omega), ?_⟩
  by_cases hc : s.cfg.closeTimeout = 0
  · exact Or.inl hc
  · exact Or.inr (fun ct _ => by omega)

theorem I.good {s : Sys} (h : I s) : Good s := ⟨h.app.quiet, noTimeout_of_time0 h.time0⟩
theorem K.good {s : Sys} (h : K s) : Good s := ⟨h.app.quiet, noTimeout_of_time0 h.time0⟩

/-- the three timers that write or raise are not due at session time 0 -/
theorem timers_quiet (s : Sys) (ht : sessionTime s = 0) :
    (checkAutoPing >>= fun _ => (checkPingTimeout >>= fun _ => checkCloseTimeout)) s = .ok () s := by
  have h1 : ¬ Timers.pingDue s := by unfold Timers.pingDue; omega
  have h2 : ¬ Timers.pingTimeoutDue s := by unfold Timers.pingTimeoutDue; omega
  have h3 : ¬ Timers.closeTimeoutDue s := by
    unfold Timers.closeTimeoutDue
    rintro ⟨h0, ct, _, hge⟩
    omega
  rw [bind_ok (Timers.checkAutoPing_quiet s h1), bind_ok (Timers.checkPingTimeout_quiet s h2)]
  exact Timers.checkCloseTimeout_quiet s h3

/-- **under `I`, `_regular()` does nothing** -/
theorem regular_id {s : Sys} (h : I s) : regular s = .ok () s := by
  cases hr : s.ready with
  | false => exact Timers.regular_not_ready s hr
  | true =>
    rw [Timers.regular_ready s hr]
    have hp := (h.rd hr).2
    have hq : checkPoll s = .ok () s :=
      Timers.checkPoll_quiet s 0 hp (by rw [h.time0]; exact h.poll)
    rw [bind_ok hq]
    exact timers_quiet s h.time0

theorem I.of_keep {s s' : Sys} (k : Keep s s') (h : I s) : I s' :=
  ⟨by rw [k.react]; exact h.app, by rw [k.cfg]; exact h.poll, by rw [k.sockOpen, k.closed]; exact h.sock,
   fun hr => by rw [k.startTime, k.pollStart]; exact h.nr (k.ready ▸ hr),
   fun hr => by rw [k.startTime, k.pollStart, k.now]; exact h.rd (k.ready ▸ hr)⟩

theorem K.of_keep {s s' : Sys} (k : Keep s s') (h : K s) : K s' :=
  ⟨by rw [k.react]; exact h.app, by rw [k.cfg]; exact h.poll, by rw [k.sockOpen, k.closed]; exact h.sock,
   fun hr => by rw [k.startTime, k.pollStart]; exact h.nr (k.ready ▸ hr),
   fun hr => by rw [k.startTime, k.pollStart, k.now]; exact h.rd (k.ready ▸ hr)⟩

theorem K.push {s : Sys} (e : Event) (h : K s) : K (pushEv e s) := ⟨h.app, h.poll, h.sock, h.nr, h.rd⟩
theorem I.push {s : Sys} (e : Event) (h : I s) : I (pushEv e s) := ⟨h.app, h.poll, h.sock, h.nr, h.rd⟩

theorem Keep.ext {s s' : Sys} (k : Keep s s') : Ext NotPoll s s' := by
  obtain ⟨l, e, n, _⟩ := k.trace
  refine ⟨l, e, fun o ho hp => ?_⟩
  have := n o ho
  rw [hp] at this
  simp [Obs.isEv] at this

/-- `_regular()` from a `K` state: it returns normally into an `I` state; it is the identity unless
    the first Poll is due -/
theorem regular_K {s s' : Sys} (h : K s) (hr : regular s = .ok () s') :
    I s' ∧ s'.ready = s.ready ∧ ((s.ready = false ∨ s.pollStart = some 0) → s' = s) := by
  cases hrd : s.ready with
  | false =>
    rw [Timers.regular_not_ready s hrd] at hr
    cases hr
    exact ⟨⟨h.app, h.poll, h.sock, h.nr, fun x => by rw [hrd] at x; cases x⟩, hrd, fun _ => rfl⟩
  | true =>
    obtain ⟨hst, hps⟩ := h.rd hrd
    rcases hps with hps | hps
    · -- the first Poll
      rw [Timers.regular_ready s hrd] at hr
      have hf : checkPoll s = yieldEv .poll (Timers.pollMark s) := Timers.checkPoll_fires s (Or.inl hps)
      obtain ⟨s3, hy, kk⟩ := yieldEv_send .poll (Timers.pollMark s) h.app
      rw [bind_ok (hf.trans hy)] at hr
      have i3 : I s3 := by
        refine ⟨by rw [kk.react]; exact h.app, by rw [kk.cfg]; exact h.poll,
          by rw [kk.sockOpen, kk.closed]; exact h.sock, fun x => ?_, fun _ => ?_⟩
        · rw [kk.ready] at x
          have x' : s.ready = false := x
          rw [hrd] at x'; cases x'
        · rw [kk.startTime, kk.pollStart, kk.now]
          exact ⟨hst, by show some (sessionTime s) = some 0; rw [h.time0]⟩
      rw [timers_quiet s3 i3.time0] at hr
      cases hr
      exact ⟨i3, kk.ready.trans hrd, fun x => by rcases x with x | x <;> simp_all⟩
    · have i : I s := ⟨h.app, h.poll, h.sock, h.nr, fun _ => ⟨hst, hps⟩⟩
      rw [regular_id i] at hr
      cases hr
      exact ⟨i, hrd, fun _ => rfl⟩

/-! ### relations on normal returns -/

/-- `R` relates the start state to the final state of every *normal* return of `m` -/
def OkSpec (R : Sys → Sys → Prop) (m : M α) : Prop := ∀ s a s', m s = .ok a s' → R s s'

variable {R : Sys → Sys → Prop}

theorem okspec_pure (po : PO R) (a : α) : OkSpec R (pure a : M α) := by
  intro s a' s' h
  have e : (pure a : M α) s = .ok a s := rfl
  rw [e] at h; cases h; exact po.refl s

theorem okspec_bind (po : PO R) {m : M α} {f : α → M β} (hm : OkSpec R m) (hf : ∀ a, OkSpec R (f a)) :
    OkSpec R (m >>= f) := by
  intro s b s' h
  obtain ⟨a, s1, h1, h2⟩ := bind_ok_inv h
  exact po.trans (hm s a s1 h1) (hf a s1 b s' h2)

theorem okspec_getS_bind (po : PO R) {f : Sys → M β} (h : ∀ s, OkSpec R (f s)) : OkSpec R (getS >>= f) := by
  intro s b s' hh
  rw [bind_ok (show getS s = .ok s s from rfl)] at hh
  exact h s s b s' hh

theorem okspec_modS {f : Sys → Sys} (h : ∀ s, R s (f s)) : OkSpec R (modS f) := by
  intro s a s' hh
  have e : modS f s = .ok () (f s) := rfl
  rw [e] at hh; cases hh; exact h s

theorem okspec_throwE (x : Exn) : OkSpec R (throwE x : M α) := by
  intro s a s' h
  have e : (throwE x : M α) s = .err x s := rfl
  rw [e] at h; cases h

theorem okspec_liftE (po : PO R) (r : Except Exn α) : OkSpec R (liftE r) := by
  intro s a s' h
  unfold liftE at h
  cases r with
  | ok b => simp only at h; cases h; exact po.refl s
  | error x => simp only at h; cases h

/-- a handler that always re-raises -/
theorem okspec_tryC {m : M α} {hd : Exn → M α} (hm : OkSpec R m) (hh : ∀ x s a s', hd x s ≠ .ok a s') :
    OkSpec R (tryC m hd) := by
  intro s a s' h
  unfold tryC at h
  cases hms : m s with
  | ok b s1 => rw [hms] at h; simp only at h; cases h; exact hm s _ _ hms
  | err x s1 => rw [hms] at h; simp only at h; exact (hh x s1 a s' h).elim

theorem okspec_ite (c : Prop) [Decidable c] {m k : M α} (hm : OkSpec R m) (hk : OkSpec R k) :
    OkSpec R (if c then m else k) := by
  split <;> assumption

theorem okspec_of_spec {m : M α} (h : Spec R m) : OkSpec R m := fun s a s' e => h.ok e

/-! ### `Z`: the invariant is preserved, and from a ready state no Poll is added -/

def Z (s s' : Sys) : Prop := I s → I s' ∧ (s.ready = true → s'.ready = true ∧ Ext NotPoll s s')

theorem z_po : PO Z where
  refl s := fun h => ⟨h, fun hr => ⟨hr, (ext_po NotPoll).refl s⟩⟩
  trans := by
    intro a b c h1 h2 ha
    obtain ⟨hb, e1⟩ := h1 ha
    obtain ⟨hc, e2⟩ := h2 hb
    refine ⟨hc, fun hr => ?_⟩
    obtain ⟨rb, x1⟩ := e1 hr
    obtain ⟨rc, x2⟩ := e2 rb
    exact ⟨rc, (ext_po NotPoll).trans x1 x2⟩

theorem z_of_keep {s s' : Sys} (k : Keep s s') : Z s s' :=
  fun h => ⟨h.of_keep k, fun hr => ⟨k.ready.trans hr, k.ext⟩⟩

/-- bookkeeping updates of parser / stream / websocket state that never re-open the websocket -/
theorem z_inert {s s' : Sys} (h : Lift.Inert s s') (hc : s.closed = true → s'.closed = true) : Z s s' := by
  intro hi
  refine ⟨⟨by rw [h.react]; exact hi.app, by rw [h.cfg]; exact hi.poll, ?_, ?_, ?_⟩, fun hr => ⟨h.ready.trans hr, ext_same h.trace⟩⟩
  · rcases hi.sock with x | x
    · exact Or.inl (h.sockOpen.trans x)
    · exact Or.inr (hc x)
  · intro hr; rw [h.startTime, h.pollStart]; exact hi.nr (h.ready ▸ hr)
  · intro hr; rw [h.startTime, h.pollStart, h.now]; exact hi.rd (h.ready ▸ hr)


theorem z_fields {s s' : Sys} (h1 : s'.react = s.react) (h2 : s'.cfg = s.cfg) (h3 : s'.sockOpen = s.sockOpen)
    (h4 : s.closed = true → s'.closed = true) (h5 : s'.ready = s.ready) (h6 : s'.startTime = s.startTime)
    (h7 : s'.now = s.now) (h8 : s'.pollStart = s.pollStart) (h9 : s'.trace = s.trace) : Z s s' := by
  intro hi
  refine ⟨⟨by rw [h1]; exact hi.app, by rw [h2]; exact hi.poll, ?_, ?_, ?_⟩, fun hr => ⟨h5.trans hr, ext_same h9⟩⟩
  · rcases hi.sock with x | x
    · exact Or.inl (h3.trans x)
    · exact Or.inr (h4 x)
  · intro hr; rw [h6, h8]; exact hi.nr (h5 ▸ hr)
  · intro hr; rw [h6, h8, h7]; exact hi.rd (h5 ▸ hr)

theorem z_wsClose_spec (c : Option Nat) (r : Arg) : Spec Z (wsClose c r) := by
  intro s; unfold wsClose
  splits
  all_goals first
    | (simp only [Res.state_ok]; exact z_po.refl _)
    | (rename_i h
       have := (keep_sendFrame _ _ _).ok h
       simp only [Res.state_ok]
       exact z_po.trans (z_of_keep this) (z_fields rfl rfl rfl id rfl rfl rfl rfl rfl))
    | (rename_i h
       simp only [Res.state_err]
       exact z_of_keep ((keep_sendFrame _ _ _).err h))

theorem z_wsClose (c : Option Nat) (r : Arg) : OkSpec Z (wsClose c r) := okspec_of_spec (z_wsClose_spec c r)

theorem neutral_notPoll {o : Obs} (h : Obs.tmNeutral o = true) : NotPoll o := by
  intro e; subst e; simp [Obs.tmNeutral, Obs.tmIsPoll] at h

theorem z_onDisconnect : OkSpec Z onDisconnect := by
  intro s a s' h hi
  obtain ⟨s1, h1⟩ := closeSocket_ok s
  have q := Timers.quietP_closeSocket.ok h1
  have st := step_closeSocket.ok h1
  unfold onDisconnect at h
  rw [bind_ok h1] at h
  have e : modS (fun s => { s with closing := false, closed := true }) s1
      = .ok () { s1 with closing := false, closed := true } := rfl
  rw [e] at h
  cases h
  obtain ⟨l, el, nl⟩ := q.trace
  refine ⟨⟨by show SendOnly s1.react; rw [st.react]; exact hi.app, by show 0 < s1.cfg.poll; rw [st.cfg]; exact hi.poll,
    Or.inr rfl, fun hr => ?_, fun hr => ?_⟩, fun hr => ⟨q.ready.trans hr, l, el, fun o ho => neutral_notPoll (nl o ho)⟩⟩
  · show s1.startTime = none ∧ s1.pollStart = none
    rw [q.startTime, q.pollStart]; exact hi.nr (q.ready ▸ hr)
  · show s1.startTime = some s1.now ∧ s1.pollStart = some 0
    rw [q.startTime, q.pollStart, q.now]; exact hi.rd (q.ready ▸ hr)

/-- `_on_event`, from an `I` state -/
theorem onEvent_K (e : Event) {s s1 : Sys} (hi : I s) (h : onEvent e s = .ok () s1) :
    K s1 ∧ (s.ready = true → s1.ready = true ∧ s1.pollStart = some 0) ∧ Ext NotPoll s s1 := by
  have same : ∀ s1 : Sys, Keep s s1 → K s1 ∧ (s.ready = true → s1.ready = true ∧ s1.pollStart = some 0) ∧ Ext NotPoll s s1 :=
    fun s1 k => ⟨(hi.of_keep k).k, fun hr => ⟨k.ready.trans hr, k.pollStart.trans (hi.rd hr).2⟩, k.ext⟩
  cases e with
  | ready a b =>
    rw [Timers.onEvent_ready] at h
    cases h
    refine ⟨⟨hi.app, hi.poll, hi.sock, fun hr => (by cases hr), fun _ => ⟨rfl, ?_⟩⟩, fun hr => ⟨rfl, (hi.rd hr).2⟩, ext_same rfl⟩
    show s.pollStart = none ∨ s.pollStart = some 0
    cases hr : s.ready with
    | false => exact Or.inl (hi.nr hr).2
    | true => exact Or.inr (hi.rd hr).2
  | ping d =>
    simp only [onEvent] at h
    repeat' split at h
    all_goals first
      | (cases h <;> done)
      | (cases h; exact same _ (keep_po.refl _))
      | (rename_i heq; cases h; exact same _ ((keep_sendFrame _ _ _).ok heq))
  | pong d =>
    simp only [onEvent] at h
    cases h
    exact same _ ⟨rfl, rfl, rfl, rfl, rfl, rfl, rfl, rfl, rfl, rfl, rfl, rfl, rfl, rfl, fun _ => rfl, ⟨[], rfl, by simp, by simp⟩⟩
  | _ =>
    simp only [onEvent] at h
    cases h
    exact same _ (keep_po.refl _)

/-- **a `yield` inside `WebSocket.feed`**, as a whole: `_on_event`, the hand-over, the
    application's sends, `_regular()` -/
theorem z_feedYield (b : Bool) (e : Event) (he : Lift.isFeedEvent e = true) : OkSpec Z (feedYield b e) := by
  intro s a s' h hi
  have hbody : (do onEvent e; yieldEv e; regular : M Unit) s = .ok a s' := by
    unfold feedYield tryC at h
    cases hb : (do onEvent e; yieldEv e; regular : M Unit) s with
    | ok u s1 => rw [hb] at h; exact h
    | err x s1 =>
      rw [hb] at h
      simp only at h
      obtain ⟨_, s2, _, h2⟩ := bind_ok_inv h
      cases h2
  obtain ⟨u1, s1, h1, h23⟩ := bind_ok_inv hbody
  obtain ⟨u2, s2, h2, h3⟩ := bind_ok_inv h23
  obtain ⟨k1, r1, x1⟩ := onEvent_K e hi h1
  obtain ⟨s2', hy, kk⟩ := yieldEv_send e s1 k1.app
  rw [hy] at h2
  cases h2
  have k2 : K s2 := K.of_keep kk (k1.push e)
  obtain ⟨i', rr, hid⟩ := regular_K k2 h3
  refine ⟨i', fun hr => ?_⟩
  obtain ⟨r1a, r1b⟩ := r1 hr
  have hp2 : s2.pollStart = some 0 := kk.pollStart.trans r1b
  have e2 : s' = s2 := hid (Or.inr hp2)
  subst e2
  refine ⟨kk.ready.trans r1a, ?_⟩
  have hne : NotPoll (.ev e) := by
    intro hh
    cases hh
    simp [Lift.isFeedEvent] at he
  have xp : Ext NotPoll s1 (pushEv e s1) := ext_one hne rfl
  exact (ext_po NotPoll).trans x1 ((ext_po NotPoll).trans xp kk.ext)

/-! ### the receive pipeline (normal returns) -/

macro "z_upd" : tactic =>
  `(tactic| exact z_inert (by constructor <;> rfl) (by first | exact id | (intro _; rfl)))

theorem z_modS {f : Sys → Sys} (h : ∀ s, Z s (f s)) : OkSpec Z (modS f) := okspec_modS h

theorem z_inflateMessage (j : Bytes) : OkSpec Z (inflateMessage j) := by
  intro s a s' h
  unfold inflateMessage at h
  simp only [] at h
  repeat' split at h
  all_goals first
    | (cases h <;> done)
    | (cases h; z_upd)

theorem z_buildMessage (fs : List Frame) : OkSpec Z (buildMessage fs) := by
  unfold buildMessage
  split
  · exact okspec_throwE _
  · simp only []
    refine okspec_getS_bind z_po (fun s => ?_)
    refine okspec_bind z_po ?_ (fun _ => okspec_liftE z_po _)
    split
    · exact z_inflateMessage _
    · exact okspec_pure z_po _

theorem z_checkCloseCode (c : Option Nat) : OkSpec Z (checkCloseCode c) := by
  unfold checkCloseCode
  splits <;> first | exact okspec_pure z_po _ | exact okspec_throwE _

theorem z_raiseIfArgError (r : ActRes) : OkSpec Z (raiseIfArgError r) := by
  unfold raiseIfArgError
  split <;> first | exact okspec_pure z_po _ | exact okspec_throwE _

theorem z_onClose (c : Option Nat) (r : List Nat) : OkSpec Z (onClose c r) := by
  unfold onClose
  refine okspec_bind z_po (z_checkCloseCode c) (fun _ => ?_)
  refine okspec_getS_bind z_po (fun s => ?_)
  split
  · exact okspec_pure z_po _
  · split
    · refine okspec_bind z_po (z_feedYield _ _ rfl) (fun _ => z_modS ?_)
      intro s; z_upd
    · refine okspec_bind z_po (z_feedYield _ _ rfl) (fun _ => okspec_bind z_po (z_wsClose _ _) (fun r =>
        okspec_bind z_po (z_raiseIfArgError r) (fun _ => z_modS ?_)))
      intro s; z_upd

theorem z_onMessage (m : Msg) : OkSpec Z (onMessage m) := by
  unfold onMessage
  split <;> first | exact z_onClose _ _ | exact z_feedYield _ _ rfl | exact okspec_pure z_po _

theorem z_onDataFrame (f : Frame) : OkSpec Z (onDataFrame f) := by
  unfold onDataFrame
  refine okspec_getS_bind z_po (fun s => ?_)
  split
  · exact okspec_throwE _
  · split
    · exact okspec_throwE _
    · refine okspec_bind z_po (z_modS ?_) (fun _ => ?_)
      · intro s; z_upd
      · split
        · refine okspec_getS_bind z_po (fun s => okspec_bind z_po (z_buildMessage _) (fun m =>
            okspec_bind z_po (z_onMessage m) (fun _ => z_modS ?_)))
          intro s; z_upd
        · exact okspec_pure z_po _

theorem z_notClosed : OkSpec Z notClosed := by
  intro s a s' h; unfold notClosed at h; cases h; exact z_po.refl s

theorem z_onFrame (f : Frame) : OkSpec Z (onFrame f) := by
  unfold onFrame
  split
  · exact okspec_bind z_po (z_buildMessage _) (fun m => z_onMessage m)
  · exact z_onDataFrame _

theorem z_onOut (o : Out) : OkSpec Z (onOut o) := by
  unfold onOut
  split
  · refine okspec_getS_bind z_po (fun s => ?_)
    split
    · refine okspec_bind z_po (z_modS ?_) (fun _ => okspec_bind z_po z_onDisconnect (fun _ =>
        okspec_bind z_po (z_feedYield _ _ rfl) (fun _ => okspec_pure z_po _)))
      intro s; z_upd
    · refine okspec_bind z_po (z_modS ?_) (fun _ => okspec_bind z_po (z_feedYield _ _ rfl) (fun _ =>
        okspec_bind z_po (z_modS ?_) (fun _ => z_notClosed)))
      · intro s; z_upd
      · intro s; z_upd
  · exact okspec_bind z_po (z_onFrame _) (fun _ => z_notClosed)

theorem z_setP (s : Sys) (p' : PState) : Z s { s with p := p' } :=
  z_inert (Lift.inert_setP s p') id

theorem z_feedLoop (data : Bytes) : OkSpec Z (feedLoop data) := by
  induction h : data.length using Nat.strongRecOn generalizing data with
  | _ n ih =>
    intro s a s' hr
    rw [feedLoop] at hr
    by_cases hd : data = []
    · simp only [hd, dite_true] at hr; cases hr; exact z_po.refl s
    · simp only [hd, dite_false] at hr
      have hlt : (data.drop (s.p.remPred + 1)).length < n := by
        have : data.length ≠ 0 := fun hl => hd (List.eq_nil_of_length_eq_zero hl)
        simp only [List.length_drop]; omega
      cases hb : biteBytes s.cfg.v s.p (data.take (s.p.remPred + 1)) with
      | error x => rw [hb] at hr; cases hr
      | ok r =>
        obtain ⟨p', out⟩ := r
        rw [hb] at hr
        simp only at hr
        have hs1 : Z s { s with p := p' } := z_setP s p'
        cases out with
        | none =>
          simp only at hr
          exact z_po.trans hs1 (ih _ hlt _ rfl _ _ _ hr)
        | some o =>
          simp only at hr
          cases ho : onOut o { s with p := p' } with
          | err x s2 => rw [ho] at hr; cases hr
          | ok go s2 =>
            rw [ho] at hr
            have h2 := z_onOut o _ _ _ ho
            cases go with
            | true => simp only at hr; exact z_po.trans hs1 (z_po.trans h2 (ih _ hlt _ rfl _ _ _ hr))
            | false => simp only at hr; cases hr; exact z_po.trans hs1 h2

theorem z_afterHeader (rest : Bytes) (out : Option Out) : OkSpec Z (afterHeader rest out) := by
  unfold afterHeader
  split
  · refine okspec_bind z_po (z_onOut _) (fun go => ?_)
    split
    · exact okspec_bind z_po (z_feedLoop _) (fun _ => okspec_pure z_po _)
    · exact okspec_pure z_po _
  · exact okspec_bind z_po (z_feedLoop _) (fun _ => okspec_pure z_po _)

theorem z_feedHeader (data : Bytes) : OkSpec Z (feedHeader data) := by
  intro s a s' h
  unfold feedHeader at h
  simp only [] at h
  split at h
  · split at h
    · cases h
    · cases h; exact z_setP s _
  · split at h
    · cases h
    · split at h
      · cases h
      · rename_i p' out hr
        exact z_po.trans (z_setP s p') (z_afterHeader _ _ _ _ _ h)

theorem z_feedBody (data : Bytes) : OkSpec Z (feedBody data) := by
  intro s a s' h
  unfold feedBody at h
  split at h
  · exact z_feedHeader data _ _ _ h
  · split at h
    · rename_i b s1 hl
      cases h
      exact z_feedLoop data _ _ _ hl
    · cases h

theorem feedHandler_not_ok (x : Exn) (s : Sys) (a : Unit) (s' : Sys) : feedHandler x s ≠ .ok a s' := by
  obtain ⟨y, s2, h⟩ := feedHandler_never_ok x s
  rw [h]; intro hh; cases hh

theorem unwrapOuter_not_ok (x : Exn) (s : Sys) (a : Unit) (s' : Sys) : unwrapOuter x s ≠ .ok a s' := by
  obtain ⟨y, s2, h⟩ := unwrapOuter_never_ok x s
  rw [h]; intro hh; cases hh

/-- **`WebSocket.feed(data)` returning normally preserves `I`; from a ready state it adds no Poll** -/
theorem z_wsFeed (data : Bytes) : OkSpec Z (wsFeed data) := by
  intro s a s' h
  unfold wsFeed at h
  split at h
  · cases h; exact z_po.refl s
  · exact okspec_tryC (okspec_tryC (z_feedBody data) feedHandler_not_ok) unwrapOuter_not_ok _ _ _ h


/-! ### the session loop over reads at a frozen clock -/

/-- the environment script "these chunks arrive one after the other, the clock standing still" -/
def reads (chunks : List Bytes) : List EnvStep := chunks.map (fun c => .wait 0 (some (.data c)))

theorem tick_zero (s : Sys) : tick s 0 = s := rfl

theorem loop_closed (env : List EnvStep) (s : Sys) (h : s.closed = true) : loop env s = .ok () s := by
  cases env <;> simp [loop, h]

theorem wsFeedChunks_closed (cs : List Bytes) (s : Sys) (h : s.closed = true) : wsFeedChunks cs s = .ok () s := by
  induction cs with
  | nil => rfl
  | cons c cs ih => simp only [wsFeedChunks, wsFeed_closed s c h]; exact ih

/-- one cycle of the loop that reads data -/
theorem loop_wait_data (dt : Nat) (c : Bytes) (rest : List EnvStep) (s s2 : Sys)
    (hc : s.closed = false) (hr : regular (tick s dt) = .ok () s2) (hso : s2.sockOpen = true) (hne : c ≠ []) :
    loop (.wait dt (some (.data c)) :: rest) s =
      match wsFeed c s2 with
      | .ok _ s3 => loop rest s3
      | .err x s3 => .err x s3 := by
  have hrs : recvStep (.data c) s2 =
      match wsFeed c s2 with
      | .ok _ s' => .ok true s'
      | .err x s' => .err x s' := by
    unfold recvStep
    simp only [hso, not_true_eq_false, if_false, hne]
    cases wsFeed c s2 <;> rfl
  have hrt : regularTop (tick s dt) = .ok () s2 := hr
  rw [loop]
  simp only [hc, Bool.false_eq_true, if_false, hrt, hrs]
  cases wsFeed c s2 <;> rfl

/-- **the loop over `wait 0` reads is `WebSocket.feed` read after read**: from an `I` state, with a
    send-only application, `_regular()` does nothing between the reads, the socket stays open as
    long as the websocket is not closed, and an exception out of `feed` ends the loop -/
theorem loop_reads (chunks : List Bytes) (hne : ∀ c ∈ chunks, c ≠ []) (rest : List EnvStep) (s : Sys) (hi : I s) :
    loop (reads chunks ++ rest) s =
      match wsFeedChunks chunks s with
      | .ok _ s' => loop rest s'
      | .err y s' => .err y s' := by
  induction chunks generalizing s with
  | nil => rfl
  | cons c cs ih =>
    by_cases hc : s.closed = true
    · rw [loop_closed _ s hc, wsFeedChunks_closed _ s hc]
      simp only []
      rw [loop_closed _ s hc]
    · have hc' : s.closed = false := by simpa using hc
      have hso : s.sockOpen = true := by
        rcases hi.sock with h | h
        · exact h
        · exact absurd h hc
      have e : reads (c :: cs) ++ rest = .wait 0 (some (.data c)) :: (reads cs ++ rest) := rfl
      rw [e, loop_wait_data 0 c _ s s hc' (by rw [tick_zero]; exact regular_id hi) hso (hne c (by simp))]
      simp only [wsFeedChunks]
      cases hf : wsFeed c s with
      | err x s1 => rfl
      | ok u s1 =>
        simp only []
        exact ih (fun c' hc'' => hne c' (by simp [hc''])) s1 ((z_wsFeed c s u s1 hf hi).1)

/-- … hence of the concatenation (C02) -/
theorem loop_reads_flat (chunks : List Bytes) (hne : ∀ c ∈ chunks, c ≠ []) (rest : List EnvStep) (s : Sys)
    (hi : I s) (hh : HdrInv s) :
    loop (reads chunks ++ rest) s =
      match wsFeed chunks.flatten s with
      | .ok _ s' => loop rest s'
      | .err y s' => .err y s' := by
  rw [loop_reads chunks hne rest s hi, wsFeedChunks_eq_flatten chunks s hh]


/-! ### `run()` up to the loop -/

theorem hist_keep {s s' : Sys} (k : Keep s s') : hist s'.trace = hist s.trace := by
  obtain ⟨l, e, n, _⟩ := k.trace
  rw [e, hist_append, hist_nonEv l n]; rfl

/-- the request goes out: socket open, websocket neither closing nor closed, `sendall` succeeds -/
theorem write_ok_open (d : Bytes) (s : Sys) (h1 : s.sockOpen = true) (h2 : s.closed = false)
    (h3 : s.closing = false) (h4 : s.cfg.writeFails s.writeCtr = false) :
    write d none s = .ok .ok { s with writeCtr := s.writeCtr + 1, trace := .wr d :: s.trace } := by
  cases s
  simp only at h1 h2 h3 h4
  subst h1 h2 h3
  simp [write, h4]

/-- the state in which the session loop starts: socket and selector open, upgrade request written,
    `Connecting` and `Connected` yielded, nothing received yet -/
structure AtLoop (cfg : Cfg) (react : React) (env : List EnvStep) (proxy : Bool) (s : Sys) : Prop where
  i : I s
  cfg : s.cfg = cfg
  react : s.react = react
  env : s.env = env
  ready : s.ready = false
  closed : s.closed = false
  closing : s.closing = false
  sock : s.sockOpen = true
  sel : s.selOpen = true
  p : s.p = {}
  frames : s.frames = []
  hist : hist s.trace = [.connected proxy, .connecting]

/-- **`run()` before the loop**: `Connecting`, the connection, the upgrade request, `Connected` -/
theorem run_start (cfg : Cfg) (react : React) (env : List EnvStep) (proxy : Bool)
    (hc : cfg.connect = .ok proxy) (hw : cfg.writeFails 0 = false) (hp : 0 < cfg.poll) (ha : SendOnly react) :
    ∃ sA, AtLoop cfg react env proxy sA ∧
      run { cfg := cfg, react := react, env := env } = tryC (do runBody env; selClose) runFinally sA := by
  let s0 : Sys := { cfg := cfg, react := react, env := env }
  obtain ⟨s1, h1, k1⟩ := yieldEv_send .connecting s0 ha
  have hcc : s1.cfg.connect = .ok proxy := by rw [k1.cfg]; exact hc
  have hso1 : s1.sockOpen = false := k1.sockOpen
  let s2 : Sys := { s1 with sockOpen := true }
  have hwc : s2.cfg.writeFails s2.writeCtr = false := by
    show s1.cfg.writeFails s1.writeCtr = false
    rw [k1.cfg, k1.wctr rfl]; exact hw
  have hwr := write_ok_open s2.cfg.request s2 rfl k1.closed k1.closing hwc
  let s3 : Sys := { s2 with writeCtr := s2.writeCtr + 1, trace := .wr s2.cfg.request :: s2.trace }
  have ha3 : SendOnly s3.react := by show SendOnly s1.react; rw [k1.react]; exact ha
  obtain ⟨s4, h4, k4⟩ := yieldEv_send (.connected proxy) s3 ha3
  have hyc : yieldConnected proxy s3 = .ok () s4 := by
    unfold yieldConnected
    rw [bind_ok (show getS s3 = .ok s3 s3 from rfl)]
    split
    · exact tryC_ok h4
    · exact h4
  let sA : Sys := { s4 with selOpen := true }
  have henv : sA.env = env := by show s4.env = env; rw [k4.env]; show s1.env = env; rw [k1.env]; rfl
  refine ⟨sA, ?_, ?_⟩
  · have hr : sA.ready = false := by show s4.ready = false; rw [k4.ready]; show s1.ready = false; rw [k1.ready]; rfl
    have hst : sA.startTime = none := by show s4.startTime = none; rw [k4.startTime]; show s1.startTime = none; rw [k1.startTime]; rfl
    have hps : sA.pollStart = none := by show s4.pollStart = none; rw [k4.pollStart]; show s1.pollStart = none; rw [k1.pollStart]; rfl
    have hre : sA.react = react := by show s4.react = react; rw [k4.react]; show s1.react = react; rw [k1.react]; rfl
    have hcf : sA.cfg = cfg := by show s4.cfg = cfg; rw [k4.cfg]; show s1.cfg = cfg; rw [k1.cfg]; rfl
    have hsk : sA.sockOpen = true := by show s4.sockOpen = true; rw [k4.sockOpen]; rfl
    refine ⟨⟨by rw [hre]; exact ha, by rw [hcf]; exact hp, Or.inl hsk, fun _ => ⟨hst, hps⟩,
      fun h => by rw [hr] at h; cases h⟩, hcf, hre, henv, hr, ?_, ?_, hsk, rfl, ?_, ?_, ?_⟩
    · show s4.closed = false; rw [k4.closed]; show s1.closed = false; rw [k1.closed]; rfl
    · show s4.closing = false; rw [k4.closing]; show s1.closing = false; rw [k1.closing]; rfl
    · show s4.p = {}; rw [k4.p]; show s1.p = {}; rw [k1.p]; rfl
    · show s4.frames = []; rw [k4.frames]; show s1.frames = []; rw [k1.frames]; rfl
    · show hist s4.trace = _
      rw [hist_keep k4]
      show hist (.ev (.connected proxy) :: .wr s2.cfg.request :: s1.trace) = _
      rw [hist_cons_ev, hist_cons_nonEv _ _ rfl, hist_keep k1]
      rfl
  · show run s0 = _
    unfold run
    rw [bind_ok h1, bind_ok (show getS s1 = .ok s1 s1 from rfl)]
    simp only [hcc]
    unfold afterConnect
    rw [bind_ok (show modS (fun s => { s with sockOpen := true }) s1 = .ok () s2 from rfl),
      bind_ok (show getS s2 = .ok s2 s2 from rfl), bind_ok hwr]
    have hwe : wsError ActRes.ok = false := by decide
    simp only [hwe, Bool.false_eq_true, if_false]
    rw [bind_ok hyc, bind_ok (show modS (fun s => { s with selOpen := true }) s4 = .ok () sA from rfl)]
    unfold runLoop
    rw [bind_ok (show getS sA = .ok sA sA from rfl), henv]


/-! ### the handshake read -/

/-- the first Poll: `_regular()` right after Ready -/
theorem regular_first_poll {s : Sys} (h : K s) (hrd : s.ready = true) (hps : s.pollStart = none) :
    ∃ s3, regular s = .ok () s3 ∧ Keep (pushEv .poll (Timers.pollMark s)) s3 ∧ I s3 := by
  obtain ⟨hst, _⟩ := h.rd hrd
  have hf : checkPoll s = yieldEv .poll (Timers.pollMark s) := Timers.checkPoll_fires s (Or.inl hps)
  obtain ⟨s3, hy, kk⟩ := yieldEv_send .poll (Timers.pollMark s) h.app
  have i3 : I s3 := by
    refine ⟨by rw [kk.react]; exact h.app, by rw [kk.cfg]; exact h.poll,
      by rw [kk.sockOpen, kk.closed]; exact h.sock, fun x => ?_, fun _ => ?_⟩
    · rw [kk.ready] at x
      have x' : s.ready = false := x
      rw [hrd] at x'; cases x'
    · rw [kk.startTime, kk.pollStart, kk.now]
      exact ⟨hst, by show some (sessionTime s) = some 0; rw [h.time0]⟩
  refine ⟨s3, ?_, kk, i3⟩
  rw [Timers.regular_ready s hrd, bind_ok (hf.trans hy)]
  exact timers_quiet s3 i3.time0

/-- **Ready**: `_on_ready` starts the session clock, the application sees Ready, the first Poll
    follows at once — and nothing else happens -/
theorem feedYield_ready (b : Bool) (a : Option Http.Str) (c : Bool) (s : Sys) (hi : I s) (hr : s.ready = false) :
    ∃ s', feedYield b (.ready a c) s = .ok () s' ∧ I s' ∧ s'.ready = true ∧
      hist s'.trace = .poll :: .ready a c :: hist s.trace ∧
      s'.cfg = s.cfg ∧ s'.react = s.react ∧ s'.sockOpen = s.sockOpen ∧ s'.selOpen = s.selOpen ∧
      s'.closed = s.closed ∧ s'.closing = s.closing ∧ s'.p = s.p ∧ s'.frames = s.frames := by
  have h1 : onEvent (.ready a c) s = .ok () (Timers.readyState s) := Timers.onEvent_ready a c s
  obtain ⟨k1, _, _⟩ := onEvent_K (.ready a c) hi h1
  obtain ⟨s2, h2, kk2⟩ := yieldEv_send (.ready a c) (Timers.readyState s) k1.app
  have k2 : K s2 := K.of_keep kk2 (k1.push _)
  have hr2 : s2.ready = true := kk2.ready
  have hp2 : s2.pollStart = none := kk2.pollStart.trans (hi.nr hr).2
  obtain ⟨s3, h3, kk3, i3⟩ := regular_first_poll k2 hr2 hp2
  refine ⟨s3, ?_, i3, kk3.ready.trans hr2, ?_, kk3.cfg.trans kk2.cfg, kk3.react.trans kk2.react,
    kk3.sockOpen.trans kk2.sockOpen, kk3.selOpen.trans kk2.selOpen, kk3.closed.trans kk2.closed,
    kk3.closing.trans kk2.closing, kk3.p.trans kk2.p, kk3.frames.trans kk2.frames⟩
  · unfold feedYield
    apply tryC_ok
    rw [bind_ok h1, bind_ok h2]
    exact h3
  · rw [hist_keep kk3]
    show hist (.ev .poll :: s2.trace) = _
    rw [hist_cons_ev, hist_keep kk2]
    rfl

/-- an upgrade reply that `on_response` accepts without extension: the block ends with its first
    CRLF CRLF and fits the 16 KiB limit (cf. `C10.C10_ready_iff`, `C10_header_limit`) -/
structure GoodReply (cfg : Cfg) (reply : Bytes) (proto : Option Http.Str) : Prop where
  sep : ∃ i, findSep Gen.headerSep reply = some i ∧ i + 4 = reply.length
  len : reply.length ≤ Gen.headerMax
  ok : Http.onResponse cfg.v.strictAccept cfg.challenge (Http.parseResponse reply)
        = .ok { protocol := proto, deflate := none }

/-- the state after the handshake: Ready and the first Poll yielded, parser at the first frame
    boundary, no extension -/
structure AtReady (cfg : Cfg) (react : React) (proxy : Bool) (proto : Option Http.Str) (s : Sys) : Prop where
  i : I s
  cfg : s.cfg = cfg
  react : s.react = react
  ready : s.ready = true
  closed : s.closed = false
  closing : s.closing = false
  sock : s.sockOpen = true
  sel : s.selOpen = true
  frames : s.frames = []
  between : Between s.p
  comp : s.p.compression = false
  hist : hist s.trace = [.poll, .ready proto false, .connected proxy, .connecting]

theorem feedLoop_unit (data : Bytes) (s : Sys) :
    (do let _ ← feedLoop data; pure () : M Unit) s =
      match feedLoop data s with
      | .ok _ s' => .ok () s'
      | .err x s' => .err x s' := by
  cases h : feedLoop data s with
  | ok a s' => rw [bind_ok h]; rfl
  | err x s' => rw [bind_err h]

/-- **the handshake read**: feeding `reply ++ stream` at the start of the loop is: Ready, Poll,
    then feeding `stream` to the frame parser from the state `s4` -/
theorem feed_reply {cfg : Cfg} {react : React} {env : List EnvStep} {proxy : Bool} {sA : Sys}
    (hA : AtLoop cfg react env proxy sA) {reply : Bytes} {proto : Option Http.Str} (hg : GoodReply cfg reply proto) :
    ∃ s4, AtReady cfg react proxy proto s4 ∧ ∀ stream, wsFeed (reply ++ stream) sA = wsFeed stream s4 := by
  obtain ⟨i, hsep, hil⟩ := hg.sep
  have hc : sA.p.cont = .header := by rw [hA.p]
  have hbuf : sA.p.buf = [] := by rw [hA.p]
  -- the state in which Ready is yielded
  let s1 : Sys := { headerDone sA with compression := none, decompress := false }
  have i1 : I s1 := ⟨hA.i.app, hA.i.poll, hA.i.sock, hA.i.nr, hA.i.rd⟩
  obtain ⟨s3, h3, i3, r3, hh3, c3, re3, so3, se3, cl3, cg3, p3, f3⟩ :=
    feedYield_ready true proto false s1 i1 hA.ready
  let s4 : Sys := { s3 with parsedResponse := true }
  have hok : Http.onResponse (headerDone sA).cfg.v.strictAccept (headerDone sA).cfg.challenge (Http.parseResponse reply)
      = .ok { protocol := proto, deflate := none } := by
    show Http.onResponse sA.cfg.v.strictAccept sA.cfg.challenge _ = _
    rw [hA.cfg]; exact hg.ok
  have hout : onOut (.header reply) (headerDone sA) = .ok true s4 := by
    unfold onOut
    simp only [bind, M.bind, getS, hok, modS]
    have e1 : feedYield true (.ready proto false) s1 = .ok () s3 := h3
    simp only [Option.isSome_none, Bool.false_eq_true, if_false]
    rw [e1]
    simp only [notClosed]
    have hb : (!s3.closed) = true := by rw [cl3.trans hA.closed]; rfl
    exact congrArg (fun b => Res.ok b s4) hb
  have hp4 : s4.p = { cont := .hdr2, remPred := 1, utf8 := false, buf := [] } := by
    show s3.p = _
    rw [p3]
    show ({ sA.p with cont := .hdr2, remPred := 1, utf8 := false, buf := [] } : PState) = _
    rw [hA.p]
  refine ⟨s4, ⟨⟨i3.app, i3.poll, i3.sock, i3.nr, i3.rd⟩, c3.trans hA.cfg, re3.trans hA.react, r3, cl3.trans hA.closed,
    cg3.trans hA.closing, so3.trans hA.sock, se3.trans hA.sel, f3.trans hA.frames, ?_, ?_, ?_⟩, ?_⟩
  · rw [hp4]; exact ⟨⟨rfl, rfl, rfl, rfl⟩, rfl, rfl⟩
  · rw [hp4]
  · show hist s3.trace = _
    rw [hh3]
    show _ :: _ :: hist sA.trace = _
    rw [hA.hist]
  · intro stream
    have hsome : findSep Gen.headerSep (sA.p.buf ++ (reply ++ stream)) = some i := by
      rw [hbuf, List.nil_append]
      exact Proxy.findSep_append _ _ _ _ hsep
    have hlen : i + 4 ≤ Gen.headerMax := by rw [hil]; exact hg.len
    have hfb := feedBody_terminated_ok sA (reply ++ stream) i hc hsome hlen
    have et : (sA.p.buf ++ (reply ++ stream)).take (i + 4) = reply := by
      rw [hbuf, List.nil_append, hil]; exact List.take_left' rfl
    have ed : (sA.p.buf ++ (reply ++ stream)).drop (i + 4) = stream := by
      rw [hbuf, List.nil_append, hil]; exact List.drop_left' rfl
    rw [et, ed, bind_ok hout] at hfb
    simp only [if_true] at hfb
    rw [feedLoop_unit] at hfb
    have hnh : s4.p.cont ≠ .header := by rw [hp4]; simp
    have hcl4 : s4.closed = false := cl3.trans hA.closed
    rw [wsFeed_eq, wsFeed_eq stream s4]
    simp only [hA.closed, hcl4, Bool.false_eq_true, if_false]
    rw [hfb, feedBody_frames _ _ hnh]
    cases feedLoop stream s4 <;> rfl


/-! ### `run()` after the loop -/

/-- what `run()` still records once the loop has ended -/
def TailObs (e : Event) (o : Obs) : Prop :=
  o = .ev e ∨ o = .sockClose ∨ o = .selClose ∨ Obs.isRes o = true

theorem closeSocket_trace (s : Sys) :
    ∃ s2 l, closeSocket s = .ok () s2 ∧ s2.sockOpen = false ∧ s2.react = s.react ∧ s2.selOpen = s.selOpen ∧
      s2.trace = l ++ s.trace ∧ ∀ o ∈ l, o = .sockClose := by
  unfold closeSocket
  split
  · exact ⟨_, [.sockClose], rfl, rfl, rfl, rfl, rfl, by simp⟩
  · rename_i h
    exact ⟨s, [], rfl, by simpa using h, rfl, rfl, rfl, by simp⟩

theorem selClose_trace (s : Sys) :
    ∃ s2 l, selClose s = .ok () s2 ∧ s2.trace = l ++ s.trace ∧ ∀ o ∈ l, o = .selClose := by
  unfold selClose
  split
  · exact ⟨_, [.selClose], rfl, rfl, by simp⟩
  · exact ⟨s, [], rfl, rfl, by simp⟩

/-- `closeSocket; yield Disconnected(e)` with a send-only application, then `selector.close()` -/
theorem close_yield_sel (e : Event) (s1 : Sys) (ha : SendOnly s1.react) :
    ∃ sF post, (do (do closeSocket; yieldEv e : M Unit); selClose : M Unit) s1 = .ok () sF ∧
      sF.trace = post ++ s1.trace ∧ hist post = [e] ∧ ∀ o ∈ post, TailObs e o := by
  obtain ⟨s2, l2, h2, so2, re2, _, t2, n2⟩ := closeSocket_trace s1
  obtain ⟨s3, h3, kk⟩ := yieldEv_send e s2 (by rw [re2]; exact ha)
  obtain ⟨l3, t3, n3, r3⟩ := kk.trace
  obtain ⟨s4, l4, h4, t4, n4⟩ := selClose_trace s3
  refine ⟨s4, l4 ++ l3 ++ .ev e :: l2, ?_, ?_, ?_, ?_⟩
  · rw [bind_ok (show (do closeSocket; yieldEv e : M Unit) s1 = .ok () s3 by rw [bind_ok h2]; exact h3)]
    exact h4
  · rw [t4, t3]
    show l4 ++ (l3 ++ .ev e :: s2.trace) = _
    rw [t2]; simp
  · have e4 : hist l4 = [] := hist_nonEv l4 (fun o ho => by rw [n4 o ho]; rfl)
    have e3 : hist l3 = [] := hist_nonEv l3 n3
    have e2 : hist l2 = [] := hist_nonEv l2 (fun o ho => by rw [n2 o ho]; rfl)
    rw [hist_append, hist_append, e4, e3, hist_cons_ev, e2]; rfl
  · intro o ho
    simp only [List.mem_append, List.mem_cons] at ho
    rcases ho with (ho | ho) | ho | ho
    · exact Or.inr (Or.inr (Or.inl (n4 o ho)))
    · exact Or.inr (Or.inr (Or.inr (r3 so2 o ho)))
    · exact Or.inl ho
    · exact Or.inr (Or.inl (n2 o ho))

/-- **the loop ended with an exception that `run()` handles**: the socket is closed,
    `Disconnected(kind, graceful=False)` is yielded, the selector is closed, `run()` returns -/
theorem finish_err (env : List EnvStep) (sA s1 : Sys) (y : Exn) (k : String) (hl : loop env sA = .err y s1)
    (hy : y = .forceDisconnect k ∨ y = .socketFail k ∨ y = .other k) (ha : SendOnly s1.react) :
    ∃ sF post, tryC (do runBody env; selClose) runFinally sA = .ok () sF ∧
      sF.trace = post ++ s1.trace ∧ hist post = [.disconnected k false] ∧
      ∀ o ∈ post, TailObs (.disconnected k false) o := by
  obtain ⟨sF, post, h, t, hh, n⟩ := close_yield_sel (.disconnected k false) s1 ha
  refine ⟨sF, post, ?_, t, hh, n⟩
  apply tryC_ok
  have hb : runBody env sA = (do closeSocket; yieldEv (.disconnected k false) : M Unit) s1 := by
    rw [runBody_of_loop_err env sA s1 y hl]
    rcases hy with rfl | rfl | rfl <;> rfl
  cases hr : (do closeSocket; yieldEv (.disconnected k false) : M Unit) s1 with
  | ok u s3 =>
    rw [bind_ok hr] at h
    rw [bind_ok (hb.trans hr)]
    exact h
  | err x s3 => rw [bind_err hr] at h; cases h

/-- **the loop ended normally** (`else:` clause): graceful `Disconnected('closed')` -/
theorem finish_ok (env : List EnvStep) (sA s1 : Sys) (hl : loop env sA = .ok () s1) (ha : SendOnly s1.react) :
    ∃ sF post, tryC (do runBody env; selClose) runFinally sA = .ok () sF ∧
      sF.trace = post ++ s1.trace ∧ hist post = [.disconnected "closed" true] ∧
      ∀ o ∈ post, TailObs (.disconnected "closed" true) o := by
  obtain ⟨sF, post, h, t, hh, n⟩ := close_yield_sel (.disconnected "closed" true) s1 ha
  refine ⟨sF, post, ?_, t, hh, n⟩
  apply tryC_ok
  have hb : runBody env sA = (do closeSocket; yieldEv (.disconnected "closed" true) : M Unit) s1 := by
    rw [runBody_of_loop_okV env sA s1 hl]; rfl
  cases hr : (do closeSocket; yieldEv (.disconnected "closed" true) : M Unit) s1 with
  | ok u s3 =>
    rw [bind_ok hr] at h
    rw [bind_ok (hb.trans hr)]
    exact h
  | err x s3 => rw [bind_err hr] at h; cases h

theorem runAll_ok (cfg : Cfg) (react : React) (env : List EnvStep) (s : Sys)
    (h : run { cfg := cfg, react := react, env := env } = .ok () s) : runAll cfg react env = s := by
  show (match run { cfg := cfg, react := react, env := env } with
    | .ok _ s => s
    | .err .genExit s => if s.abandonedWith then (match closeSocket s with | .ok _ s' => s' | .err _ s' => s') else s
    | .err (.outer .genExit) s => if s.abandonedWith then (match closeSocket s with | .ok _ s' => s' | .err _ s' => s') else s
    | .err .scriptEnd s => { s with trace := .incomplete :: s.trace }
    | .err _ s => { s with trace := .incomplete :: s.trace }) = s
  rw [h]


/-! ### the last cycle: the clock advances by `dt`, then end-of-stream -/

theorem sessionTime_keep {s s' : Sys} (k : Keep s s') : sessionTime s' = sessionTime s := by
  unfold sessionTime; rw [k.startTime, k.now]

/-- `_regular()` after `dt` ticks from a ready `I` state, neither time-out being due: a Poll iff
    `dt ≥ poll`, possibly an automatic Ping (a write, not an event), nothing else -/
theorem regular_tick (s : Sys) (dt : Nat) (hi : I s) (hr : s.ready = true)
    (hpt : s.cfg.pingTimeout = 0 ∨ dt ≤ s.cfg.pingTimeout) (hct : s.cfg.closeTimeout = 0 ∨ dt < s.cfg.closeTimeout) :
    ∃ s6, regular (tick s dt) = .ok () s6 ∧
      hist s6.trace = (if s.cfg.poll ≤ dt then [.poll] else []) ++ hist s.trace ∧
      s6.closed = s.closed ∧ s6.closing = s.closing ∧ s6.react = s.react := by
  obtain ⟨hst, hps⟩ := hi.rd hr
  have ht : sessionTime (tick s dt) = dt := by
    unfold sessionTime tick
    simp only [hst]
    omega
  have htr : hist (tick s dt).trace = hist s.trace := by
    unfold tick
    by_cases h0 : dt = 0
    · simp [h0]
    · simp only [h0, ne_eq, not_false_eq_true, if_true]
      exact hist_cons_nonEv _ _ rfl
  -- checkPoll
  have hpoll : ∃ s1, checkPoll (tick s dt) = .ok () s1 ∧ sessionTime s1 = dt ∧
      hist s1.trace = (if s.cfg.poll ≤ dt then [.poll] else []) ++ hist s.trace ∧
      s1.closed = s.closed ∧ s1.closing = s.closing ∧ s1.react = s.react ∧ s1.cfg = s.cfg := by
    by_cases hd : s.cfg.poll ≤ dt
    · have hf := Timers.checkPoll_fires (tick s dt) (Or.inr ⟨0, hps, by rw [ht]; exact hd⟩)
      obtain ⟨s1, hy, kk⟩ := yieldEv_send .poll (Timers.pollMark (tick s dt)) hi.app
      refine ⟨s1, hf.trans hy, (sessionTime_keep kk).trans ht, ?_, kk.closed, kk.closing, kk.react, kk.cfg⟩
      rw [hist_keep kk]
      show hist (.ev .poll :: (tick s dt).trace) = _
      rw [hist_cons_ev, htr]
      simp [hd]
    · have hq := Timers.checkPoll_quiet (tick s dt) 0 hps (by rw [ht]; show dt - 0 < s.cfg.poll; omega)
      exact ⟨tick s dt, hq, ht, by rw [htr]; simp [hd], rfl, rfl, rfl, rfl⟩
  obtain ⟨s1, h1, t1, hh1, c1, g1, r1, cf1⟩ := hpoll
  -- checkAutoPing
  have hping : ∃ s2, checkAutoPing s1 = .ok () s2 ∧ sessionTime s2 = dt ∧ hist s2.trace = hist s1.trace ∧
      s2.closed = s1.closed ∧ s2.closing = s1.closing ∧ s2.react = s1.react ∧ s2.cfg = s1.cfg := by
    by_cases hd : Timers.pingDue s1
    · rw [Timers.checkAutoPing_fires s1 hd]
      have kk := keep_sendFrame Gen.opPing [] none (Timers.pingMark s1)
      cases hsf : sendFrame Gen.opPing [] none (Timers.pingMark s1) with
      | err x s2 => exact (noRaise_sendFrame _ _ _ _ _ _ hsf).elim
      | ok a s2 =>
        rw [hsf] at kk
        simp only [Res.state_ok] at kk
        refine ⟨s2, by rw [bind_ok hsf]; rfl, (sessionTime_keep kk).trans t1,
          hist_keep (s := Timers.pingMark s1) kk, kk.closed, kk.closing, kk.react, kk.cfg⟩
    · exact ⟨s1, Timers.checkAutoPing_quiet s1 hd, t1, rfl, rfl, rfl, rfl, rfl⟩
  obtain ⟨s2, h2, t2, hh2, c2, g2, r2, cf2⟩ := hping
  have h3 : ¬ Timers.pingTimeoutDue s2 := by
    unfold Timers.pingTimeoutDue
    rw [t2, cf2, cf1]
    rcases hpt with h | h <;> omega
  have h4 : ¬ Timers.closeTimeoutDue s2 := by
    unfold Timers.closeTimeoutDue
    rw [t2, cf2, cf1]
    rintro ⟨h0, ct, _, hge⟩
    rcases hct with h | h <;> omega
  refine ⟨s2, ?_, hh2.trans hh1, c2.trans c1, g2.trans g1, r2.trans r1⟩
  rw [Timers.regular_ready (tick s dt) hr, bind_ok h1, bind_ok h2, bind_ok (Timers.checkPingTimeout_quiet s2 h3)]
  exact Timers.checkCloseTimeout_quiet s2 h4

/-- the cycle in which `recv` returns `b''` -/
theorem loop_eof (dt : Nat) (rest : List EnvStep) (s s6 : Sys) (hc : s.closed = false)
    (hr : regular (tick s dt) = .ok () s6) :
    loop (.wait dt (some .eof) :: rest) s =
      if ¬ s6.closing ∧ ¬ s6.closed then .err (.socketFail "connection-lost") s6 else .ok () s6 := by
  have hrt : regularTop (tick s dt) = .ok () s6 := hr
  have hrs : recvStep .eof s6 = onEof s6 := by
    unfold recvStep
    by_cases h : s6.sockOpen = true <;> simp [h]
  rw [loop]
  simp only [hc, Bool.false_eq_true, if_false, hrt, hrs]
  unfold onEof
  by_cases h : ¬ s6.closing = true ∧ ¬ s6.closed = true
  · rw [if_pos h, if_pos h]
  · rw [if_neg h, if_neg h]

theorem hdrInv_fresh (s : Sys) (h : s.p = {}) : HdrInv s := by
  intro _
  rw [h]
  show findSep Gen.headerSep [] = none ∧ headerTooLong ([] : Bytes).length = false
  decide


/-! ### the bridge: a whole connection in terms of `WebSocket.feed` on the frames -/

/-- hypotheses on the configuration and the application shared by the end-to-end theorems -/
structure Setup (cfg : Cfg) (react : React) (proxy : Bool) : Prop where
  conn : cfg.connect = .ok proxy
  req : cfg.writeFails 0 = false
  poll : 0 < cfg.poll
  app : SendOnly react

/-- **Bridge.**  The connection comes up, the upgrade request is written, the server's bytes
    `reply ++ stream` arrive in the reads `chunks` (any segmentation, clock standing still) followed
    by any further script `rest`.  Then `run()` is: Connecting, Connected, [handshake: Ready, Poll],
    then the session loop, which equals `WebSocket.feed stream` from the post-handshake state `s4`
    followed by the loop over `rest` — and an exception out of `feed` ends the loop. -/
theorem bridge {cfg : Cfg} {react : React} {proxy : Bool} (hs : Setup cfg react proxy)
    {reply : Bytes} {proto : Option Http.Str} (hg : GoodReply cfg reply proto)
    (chunks : List Bytes) (stream : Bytes) (rest : List EnvStep)
    (hne : ∀ c ∈ chunks, c ≠ []) (hflat : chunks.flatten = reply ++ stream) :
    ∃ sA s4, AtReady cfg react proxy proto s4 ∧
      run { cfg := cfg, react := react, env := reads chunks ++ rest }
        = tryC (do runBody (reads chunks ++ rest); selClose) runFinally sA ∧
      loop (reads chunks ++ rest) sA =
        match wsFeed stream s4 with
        | .ok _ s' => loop rest s'
        | .err y s' => .err y s' := by
  obtain ⟨sA, hA, hrun⟩ := run_start cfg react (reads chunks ++ rest) proxy hs.conn hs.req hs.poll hs.app
  obtain ⟨s4, h4, hfeed⟩ := feed_reply hA hg
  refine ⟨sA, s4, h4, hrun, ?_⟩
  rw [loop_reads_flat chunks hne rest sA hA.i (hdrInv_fresh sA hA.p), hflat, hfeed stream]


theorem bytewise_flatten (d : Bytes) : (d.map (fun b => [b])).flatten = d := by
  induction d <;> simp_all

theorem bytewise_ne (d : Bytes) : ∀ c ∈ d.map (fun b => [b]), c ≠ [] := by
  intro c hc
  obtain ⟨b, _, rfl⟩ := List.mem_map.mp hc
  simp

/-! ### a protocol violation, with a send-only application at a frozen clock -/

/-- the `yield ProtocolError(...)` of the `except` clauses returns normally: the application only
    sends, no timer is due -/
theorem feedYield_pe_send (msg : String) (crit : Bool) (s1 : Sys) (hi : I s1) :
    ∃ s', feedYield false (.protocolError msg crit) s1 = .ok () s' ∧ Keep (pushEv (.protocolError msg crit) s1) s' := by
  obtain ⟨s', hy, kk⟩ := yieldEv_send (.protocolError msg crit) s1 hi.app
  refine ⟨s', ?_, kk⟩
  unfold feedYield
  apply tryC_ok
  rw [bind_ok (show onEvent (.protocolError msg crit) s1 = .ok () s1 from rfl), bind_ok hy]
  exact regular_id (I.of_keep kk (hi.push _))

/-- **the `except` clauses of `WebSocket.feed`, send-only application**: exactly one ProtocolError
    event, the application's reaction `l` (no event), at most one Close frame `cw` (1002, the
    error text; only for a non-critical error), then `_ForceDisconnect('forced')` — or the
    `ValueError` of a Close reason that does not fit (non-critical errors only) -/
theorem feedHandler_send (x : Exn) (msg : String) (crit : Bool) (hx : violationOf x = some (msg, crit))
    (s1 : Sys) (hi : I s1) :
    ∃ y s2 l cw, feedHandler x s1 = .err y s2 ∧
      s2.trace = cw ++ l ++ .ev (.protocolError msg crit) :: s1.trace ∧
      (∀ o ∈ l, Obs.isEv o = false) ∧ CloseWrite msg crit cw ∧
      (y = .forceDisconnect "forced" ∨ (crit = false ∧ y = .other "error")) ∧ s2.react = s1.react := by
  obtain ⟨s', hfy, kk⟩ := feedYield_pe_send msg crit s1 hi
  obtain ⟨l, hl, nl, _⟩ := kk.trace
  have hl' : s'.trace = l ++ .ev (.protocolError msg crit) :: s1.trace := hl
  have hre : s'.react = s1.react := kk.react
  cases x with
  | parse m =>
    cases hx
    refine ⟨_, s', l, [], ?_, by simpa using hl', nl, Or.inl rfl, Or.inl rfl, hre⟩
    unfold feedHandler; simp only []; rw [bind_ok hfy]; rfl
  | critical m =>
    cases hx
    refine ⟨_, s', l, [], ?_, by simpa using hl', nl, Or.inl rfl, Or.inl rfl, hre⟩
    unfold feedHandler; simp only []; rw [bind_ok hfy]; rfl
  | protocol m =>
    cases hx
    obtain ⟨res, s3, hw, ht⟩ := wsClose_traceV Gen.statusProtocolError (Http.ofString msg) s'
    have hre3 : s3.react = s'.react := ((step_wsClose _ _).ok hw).react
    have hcw : ∃ cw, s3.trace = cw ++ s'.trace ∧ CloseWrite msg false cw := by
      rcases ht with h | ⟨key, bytes, hb, h | h⟩
      · exact ⟨[], h, Or.inl rfl⟩
      · exact ⟨[.wr bytes], h, Or.inr ⟨rfl, key, bytes, hb, Or.inl rfl⟩⟩
      · exact ⟨[.wrFail bytes], h, Or.inr ⟨rfl, key, bytes, hb, Or.inr rfl⟩⟩
    obtain ⟨cw, hcw1, hcw2⟩ := hcw
    have htr : s3.trace = cw ++ l ++ .ev (.protocolError msg false) :: s1.trace := by
      rw [hcw1, hl', List.append_assoc]
    by_cases ha : res = .valueError ∨ res = .structError ∨ res = .typeError
    · refine ⟨.other "error", s3, l, cw, ?_, htr, nl, hcw2, Or.inr ⟨rfl, rfl⟩, hre3.trans hre⟩
      unfold feedHandler; simp only []
      rw [bind_ok hfy, bind_ok hw]
      unfold raiseIfArgError
      rw [if_pos ha]; rfl
    · refine ⟨.forceDisconnect "forced", s3, l, cw, ?_, htr, nl, hcw2, Or.inl rfl, hre3.trans hre⟩
      unfold feedHandler; simp only []
      rw [bind_ok hfy, bind_ok hw]
      unfold raiseIfArgError
      rw [if_neg ha]; rfl
  | _ => cases hx

/-- the same for `WebSocket.feed` in the frames phase -/
theorem wsFeed_violation_send (data : Bytes) (s s1 : Sys) (x : Exn) (msg : String) (crit : Bool)
    (hc : s.closed = false) (hp : s.p.cont ≠ .header) (hfl : feedLoop data s = .err x s1)
    (hx : violationOf x = some (msg, crit)) (hi : I s1) :
    ∃ y s2 l cw, wsFeed data s = .err y s2 ∧
      s2.trace = cw ++ l ++ .ev (.protocolError msg crit) :: s1.trace ∧
      (∀ o ∈ l, Obs.isEv o = false) ∧ CloseWrite msg crit cw ∧
      (y = .forceDisconnect "forced" ∨ (crit = false ∧ y = .other "error")) ∧ s2.react = s1.react := by
  obtain ⟨y, s2, l, cw, hh, ht, nl, hcw, hy, hre⟩ := feedHandler_send x msg crit hx s1 hi
  refine ⟨y, s2, l, cw, ?_, ht, nl, hcw, hy, hre⟩
  have hb : feedBody data s = .err x s1 := by rw [feedBody_frames _ _ hp, hfl]
  rw [wsFeed_of_feedBody_err data s s1 x hc hb, tryC_err hh]
  rcases hy with rfl | ⟨_, rfl⟩ <;> rfl

theorem closeWrite_hist {msg : String} {crit : Bool} {cw : List Obs} (h : CloseWrite msg crit cw) : hist cw = [] := by
  rcases h with rfl | ⟨_, _, _, _, rfl | rfl⟩ <;> rfl

/-- **A violation, end to end.**  The connection comes up; the server's bytes `reply ++ stream`
    arrive in any segmentation `chunks`, followed by any script `rest`.  If, from every
    post-handshake state, the frame parser run over `stream` ends with a violation exception
    (`violationOf x = some (msg, crit)`) in an `I` state `s1` that has seen the events `X` since the
    handshake, then the whole trace is

        post ++ cw ++ l ++ ProtocolError(msg, crit) :: pre

    where `pre` carries exactly the events Connecting, Connected, Ready, Poll, `X`; `l` is the
    application's reaction to the ProtocolError (no event); `cw` is at most one Close frame
    (1002 + text, non-critical errors only) written by the library; `post` is the socket being
    closed, `Disconnected(k, graceful=False)`, results of the application's calls (no write) and the
    selector being closed.  `rest` is never consulted. -/
theorem run_violation {cfg : Cfg} {react : React} {proxy : Bool} (hs : Setup cfg react proxy)
    {reply : Bytes} {proto : Option Http.Str} (hg : GoodReply cfg reply proto)
    (chunks : List Bytes) (stream : Bytes) (rest : List EnvStep)
    (hne : ∀ c ∈ chunks, c ≠ []) (hflat : chunks.flatten = reply ++ stream)
    (X : List Event) (P : String → Bool → Prop)
    (hv : ∀ s4, AtReady cfg react proxy proto s4 → ∃ x s1 msg crit,
        feedLoop stream s4 = .err x s1 ∧ violationOf x = some (msg, crit) ∧ I s1 ∧
        hist s1.trace = X.reverse ++ hist s4.trace ∧ P msg crit) :
    ∃ msg crit k cw l post pre, P msg crit ∧
      (runAll cfg react (reads chunks ++ rest)).trace = post ++ cw ++ l ++ .ev (.protocolError msg crit) :: pre ∧
      hist pre = X.reverse ++ [.poll, .ready proto false, .connected proxy, .connecting] ∧
      (∀ o ∈ l, Obs.isEv o = false) ∧ CloseWrite msg crit cw ∧
      hist post = [.disconnected k false] ∧ (∀ o ∈ post, TailObs (.disconnected k false) o) ∧
      (k = "forced" ∨ (crit = false ∧ k = "error")) ∧
      Monitor.events (runAll cfg react (reads chunks ++ rest)).trace =
        [.connecting, .connected proxy, .ready proto false, .poll] ++ X ++
          [.protocolError msg crit, .disconnected k false] := by
  obtain ⟨sA, s4, h4, hrun, hloop⟩ := bridge hs hg chunks stream rest hne hflat
  obtain ⟨x, s1, msg, crit, hfl, hx, i1, hh1, hP⟩ := hv s4 h4
  have hnh : s4.p.cont ≠ .header := by rw [h4.between.b.cont]; simp
  obtain ⟨y, s2, l, cw, hws, ht2, nl, hcw, hy, hre2⟩ :=
    wsFeed_violation_send stream s4 s1 x msg crit h4.closed hnh hfl hx i1
  rw [hws] at hloop
  simp only [] at hloop
  have hk : ∃ k, (y = .forceDisconnect k ∨ y = .socketFail k ∨ y = .other k) ∧
      (k = "forced" ∨ (crit = false ∧ k = "error")) := by
    rcases hy with rfl | ⟨hc, rfl⟩
    · exact ⟨"forced", Or.inl rfl, Or.inl rfl⟩
    · exact ⟨"error", Or.inr (Or.inr rfl), Or.inr ⟨hc, rfl⟩⟩
  obtain ⟨k, hyk, hkk⟩ := hk
  obtain ⟨sF, post, hF, tF, hhF, nF⟩ := finish_err _ sA s2 y k hloop hyk (by rw [hre2]; exact i1.app)
  have hall : (runAll cfg react (reads chunks ++ rest)).trace
      = post ++ cw ++ l ++ .ev (.protocolError msg crit) :: s1.trace := by
    rw [runAll_ok cfg react _ sF (hrun.trans hF), tF, ht2]; simp
  have hpre : hist s1.trace = X.reverse ++ [.poll, .ready proto false, .connected proxy, .connecting] := by
    rw [hh1, h4.hist]
  refine ⟨msg, crit, k, cw, l, post, s1.trace, hP, hall, hpre, nl, hcw, hhF, nF, hkk, ?_⟩
  rw [events_eq_hist, hall, hist_append, hist_append, hist_append, hhF, closeWrite_hist hcw, hist_nonEv l nl,
    hist_cons_ev, hpre]
  simp


/-! ### the frame parser never changes its `compression` flag -/

theorem frameDone_comp (v : Variant) (p : PState) (f : Frame) (r : PState × Option Out)
    (h : frameDone v p f = .ok r) : r.1.compression = p.compression := by
  unfold frameDone at h
  split at h
  · cases h
  · cases h; rfl

theorem gotMask_comp (v : Variant) (p : PState) (b0 len : Nat) (key : Option Bytes) (r : PState × Option Out)
    (h : gotMask v p b0 len key = .ok r) : r.1.compression = p.compression := by
  unfold gotMask at h
  simp only [] at h
  split at h
  · cases h
  · split at h
    · cases h
      dsimp only
      split <;> rfl
    · rw [frameDone_comp _ _ _ _ h]
      split <;> rfl

theorem gotLength_comp (v : Variant) (p : PState) (b0 : Nat) (m : Bool) (len : Nat) (r : PState × Option Out)
    (h : gotLength v p b0 m len = .ok r) : r.1.compression = p.compression := by
  unfold gotLength at h
  split at h
  · cases h
  · split at h
    · cases h; rfl
    · exact gotMask_comp _ _ _ _ _ _ h

theorem resume_comp (v : Variant) (p : PState) (bytes : Bytes) (r : PState × Option Out)
    (h : resume v p bytes = .ok r) : r.1.compression = p.compression := by
  unfold resume at h
  simp only [] at h
  split at h
  · cases h; rfl
  · split at h
    · cases h; rfl
    · split at h
      · cases h; rfl
      · exact (gotLength_comp _ _ _ _ _ _ h).trans rfl
  · exact (gotLength_comp _ _ _ _ _ _ h).trans rfl
  · exact (gotLength_comp _ _ _ _ _ _ h).trans rfl
  · exact (gotMask_comp _ _ _ _ _ _ h).trans rfl
  · exact (frameDone_comp _ _ _ _ h).trans rfl

theorem biteBytes_comp (v : Variant) (p : PState) (chunk : Bytes) (r : PState × Option Out)
    (h : biteBytes v p chunk = .ok r) : r.1.compression = p.compression := by
  rw [biteBytes_eq] at h
  split at h
  · cases h
  · split at h
    · cases h; rfl
    · rw [resume_comp _ _ _ _ h]

/-- in the frames phase, a `feedLoop` that returns leaves the parser's `compression` flag alone -/
theorem feedLoop_comp (data : Bytes) (s : Sys) (b : Bool) (s' : Sys) (hc : s.p.cont ≠ .header)
    (h : feedLoop data s = .ok b s') : s'.p.compression = s.p.compression := by
  induction hn : data.length using Nat.strongRecOn generalizing data s with
  | _ n ih =>
    rw [feedLoop] at h
    by_cases hd : data = []
    · simp only [hd, dite_true] at h; cases h; rfl
    · simp only [hd, dite_false] at h
      have hlt : (data.drop (s.p.remPred + 1)).length < n := by
        have : data.length ≠ 0 := fun hl => hd (List.eq_nil_of_length_eq_zero hl)
        simp only [List.length_drop]; omega
      cases hb : biteBytes s.cfg.v s.p (data.take (s.p.remPred + 1)) with
      | error x => rw [hb] at h; cases h
      | ok r =>
        obtain ⟨p', out⟩ := r
        rw [hb] at h
        simp only at h
        have e1 : p'.compression = s.p.compression := biteBytes_comp _ _ _ _ hb
        have c1 : p'.cont ≠ .header := biteBytes_cont _ _ _ _ hb hc
        cases out with
        | none =>
          simp only at h
          exact (ih _ hlt _ { s with p := p' } c1 h rfl).trans e1
        | some o =>
          simp only at h
          obtain ⟨f, rfl⟩ := biteBytes_out _ _ _ _ hb hc o rfl
          cases ho : onOut (.frame f) { s with p := p' } with
          | err x s2 => rw [ho] at h; cases h
          | ok go s2 =>
            rw [ho] at h
            have e2 : s2.p = p' := (keep_onOut_frame f).ok ho
            cases go with
            | false => simp only at h; cases h; rw [e2]; exact e1
            | true =>
              simp only at h
              have := ih _ hlt _ s2 (by rw [e2]; exact c1) h rfl
              rw [this, e2]; exact e1


/-! ### a conforming prefix after the handshake -/

/-- an open, not-closing websocket between two messages, no extension, in an `I` state: the state
    after the handshake and after every complete message -/
structure Idle (cfg : Cfg) (react : React) (s : Sys) : Prop where
  i : I s
  ready : s.ready = true
  hcfg : s.cfg = cfg
  hreact : s.react = react
  closed : s.closed = false
  closing : s.closing = false
  frames : s.frames = []
  between : Between s.p
  comp : s.p.compression = false

theorem AtReady.idle {cfg : Cfg} {react : React} {proxy : Bool} {proto : Option Http.Str} {s : Sys}
    (h : AtReady cfg react proxy proto s) : Idle cfg react s :=
  ⟨h.i, h.ready, h.cfg, h.react, h.closed, h.closing, h.frames, h.between, h.comp⟩

/-- the state after a conforming prefix: idle again, and all events (Polls included) accounted for -/
structure AfterItems (cfg : Cfg) (react : React) (s4 sp : Sys) (evs : List Event) : Prop where
  idle : Idle cfg react sp
  hist : hist sp.trace = evs.reverse ++ hist s4.trace

/-- C01's `feed_items` from an idle state, with the invariant and the exact event list -/
theorem feed_items_I {cfg : Cfg} {react : React} {s4 : Sys}
    (h4 : Idle cfg react s4) (items : List Item) (hok : ∀ it ∈ items, it.Ok) :
    ∃ sp, feedLoop (wireBytes (items.flatMap Item.wire)) s4 = .ok true sp ∧
      AfterItems cfg react s4 sp (items.flatMap Item.events) := by
  obtain ⟨sp, hfl, r, hf, hb⟩ := feed_items items hok s4 h4.i.good h4.closed h4.frames h4.between
  have hnh : s4.p.cont ≠ .header := by rw [h4.between.b.cont]; simp
  obtain ⟨ip, hz⟩ := z_feedLoop _ s4 true sp hfl h4.i
  obtain ⟨rp, l, el, nl⟩ := hz h4.ready
  exact ⟨sp, hfl, ⟨ip, rp, r.cfg.trans h4.hcfg, r.react.trans h4.hreact, r.closed.trans h4.closed,
    r.closing.trans h4.closing, hf, hb, (feedLoop_comp _ s4 true sp hnh hfl).trans h4.comp⟩,
    hist_of_delivered el nl r.evs⟩

end Lomond.Core.E2E
