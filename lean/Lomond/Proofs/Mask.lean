/-
  Helper lemmas for Properties/C03_Mask.lean: the interpreted mechanics of `mask_payload`
  (Model/Mask.lean over Generated/Mask.lean) against the specification `maskPayload`.
-/
import Lomond.Model.Mask
import Lomond.Proofs.FrameCodec

namespace Lomond.Mask
open Lomond

/-- row `b` of the table, as a closed form -/
def xorRow (b : Nat) : Bytes := (List.range 256).map fun a => a ^^^ b

theorem xorRow_length (b : Nat) : (xorRow b).length = 256 := by simp [xorRow]

/-- a table lookup is an XOR -/
theorem xorRow_getD (a b : Nat) (ha : a < 256) : (xorRow b).getD a 0 = a ^^^ b := by
  simp [xorRow, List.getD_eq_getElem?_getD, ha]

theorem xorTable_eq : xorTable = (List.range 256).map xorRow := by
  simp [xorTable, buildTable, Gen.maskTableOuterVar, Gen.maskTableInnerVar, Gen.maskTableOuterN,
    Gen.maskTableInnerN, Gen.maskTableElt, evalOp, evalOperand, xorRow]

theorem xorTable_get (b : Nat) (hb : b < 256) : xorTable[b]? = some (xorRow b) := by
  simp [xorTable_eq, hb]

theorem xorTable_get_none (b : Nat) (hb : 256 ≤ b) : xorTable[b]? = none := by
  simp [xorTable_eq, hb]

theorem rowsOf_wf (l : Bytes) (hl : Bytes.WF l) : rowsOf xorTable l = .ok (l.map xorRow) := by
  induction l with
  | nil => rfl
  | cons n r ih =>
    have hn : n < 256 := hl n (by simp)
    have hr : Bytes.WF r := fun b hb => hl b (by simp [hb])
    simp [rowsOf, xorTable_get n hn, ih hr]

/-- what one lane statement with step 4 does, as a closed form -/
def mapLane (k : Nat) (f : Nat → Nat) (data : Bytes) : Bytes :=
  data.mapIdx fun i x => if i % 4 = k then f x else x

theorem mapLane_length (k : Nat) (f : Nat → Nat) (data : Bytes) : (mapLane k f data).length = data.length := by
  simp [mapLane]

theorem sliceGet_length (s t : Nat) (data : Bytes) : (sliceGet s t data).length = sliceLen s t data.length := by
  simp [sliceGet]

/-- `data[k::4] = data[k::4].translate(row)` with any 256-entry row -/
theorem laneStmt_four (env : List (String × Bytes)) (k : Nat) (name : String) (row data : Bytes)
    (hk : k < 4) (henv : env.lookup name = some row) (hrow : row.length = 256) :
    laneStmt env (k, 4, k, 4, name) data = .ok (mapLane k (fun x => row.getD x 0) data) := by
  have hlen : ((sliceGet k 4 data).map fun x => row.getD x 0).length = sliceLen k 4 data.length := by
    simp [sliceGet]
  simp only [laneStmt, henv, translate, hrow, sliceSet]
  simp only [show (4 : Nat) ≠ 0 by decide, show (4 : Nat) ≠ 1 by decide, if_true, if_false]
  by_cases hnil : (sliceGet k 4 data).map (fun x => row.getD x 0) = []
  · -- the slice is empty (len ≤ k): the deletion deletes nothing, and no index is in the lane
    have hz : sliceLen k 4 data.length = 0 := by rw [← hlen, hnil]; rfl
    have hle : data.length ≤ k := by unfold sliceLen at hz; omega
    rw [if_pos hnil]
    simp only []
    congr 1
    have hf : ((List.range data.length).filter fun i => !decide (k ≤ i ∧ (i - k) % 4 = 0)) = List.range data.length := by
      apply List.filter_eq_self.mpr
      intro i hi
      have : i < data.length := List.mem_range.mp hi
      have : ¬ (k ≤ i ∧ (i - k) % 4 = 0) := by omega
      simp [this]
    rw [hf]
    apply List.ext_getElem
    · simp [mapLane]
    · intro i h1 h2
      simp only [List.length_map, List.length_range] at h1
      have hc : ¬ i % 4 = k := by omega
      simp [mapLane, hc, List.getD_eq_getElem?_getD, h1]
  rw [if_neg hnil, if_pos hlen]
  simp only []
  congr 1
  apply List.ext_getElem
  · simp [mapLane]
  · intro i h1 h2
    simp only [List.length_map, List.length_range] at h1
    simp only [List.getElem_map, List.getElem_range, mapLane, List.getElem_mapIdx]
    by_cases hc : i % 4 = k
    · have h3 : k ≤ i ∧ (i - k) % 4 = 0 := by omega
      have h4 : (i - k) / 4 < sliceLen k 4 data.length := by unfold sliceLen; omega
      have h5 : k + (i - k) / 4 * 4 = i := by omega
      simp only [h3, hc, and_self, if_true]
      simp [sliceGet, List.getD_eq_getElem?_getD, h4, h5, h1]
    · have h3 : ¬ (k ≤ i ∧ (i - k) % 4 = 0) := by omega
      simp [h3, hc, List.getD_eq_getElem?_getD, h1]

/-- the same with a row of the XOR table and byte data: the lane is XORed with the key byte -/
theorem mapLane_xor (k b : Nat) (data : Bytes) (hd : Bytes.WF data) :
    mapLane k (fun x => (xorRow b).getD x 0) data = mapLane k (fun x => x ^^^ b) data := by
  apply List.ext_getElem
  · simp [mapLane]
  · intro i h1 h2
    simp only [mapLane, List.length_mapIdx] at h1
    simp only [mapLane, List.getElem_mapIdx]
    have : data[i] < 256 := hd _ (List.getElem_mem h1)
    rw [xorRow_getD _ b this]

theorem xor_lt_256 (a b : Nat) (ha : a < 256) (hb : b < 256) : a ^^^ b < 256 :=
  Nat.xor_lt_two_pow (n := 8) ha hb

theorem mapLane_xor_wf (k b : Nat) (data : Bytes) (hb : b < 256) (hd : Bytes.WF data) :
    Bytes.WF (mapLane k (fun x => x ^^^ b) data) := by
  intro x hx
  simp only [mapLane, List.mem_mapIdx] at hx
  obtain ⟨i, hi, rfl⟩ := hx
  have : data[i] < 256 := hd _ (List.getElem_mem hi)
  split
  · exact xor_lt_256 _ _ this hb
  · exact this

/-- the four statements of the source -/
def canon : List Stmt := [(0, 4, 0, 4, "a"), (1, 4, 1, 4, "b"), (2, 4, 2, 4, "c"), (3, 4, 3, 4, "d")]

/-- the environment after the unpacking for the key `[k0, k1, k2, k3]` -/
def envOf (k0 k1 k2 k3 : Nat) : List (String × Bytes) :=
  [("a", xorRow k0), ("b", xorRow k1), ("c", xorRow k2), ("d", xorRow k3)]

/-- one canonical statement = XOR of its lane with its key byte -/
theorem laneStmt_canon (k0 k1 k2 k3 : Nat) (s : Stmt) (hs : s ∈ canon) (data : Bytes) (hd : Bytes.WF data) :
    s.1 < 4 ∧ laneStmt (envOf k0 k1 k2 k3) s data =
      .ok (mapLane s.1 (fun x => x ^^^ [k0, k1, k2, k3].getD s.1 0) data) := by
  simp only [canon, List.mem_cons, List.not_mem_nil, or_false] at hs
  rcases hs with rfl | rfl | rfl | rfl
  · refine ⟨by decide, ?_⟩
    rw [laneStmt_four _ 0 "a" (xorRow k0) data (by decide) (by simp [envOf]) (xorRow_length _),
      mapLane_xor _ _ _ hd]; rfl
  · refine ⟨by decide, ?_⟩
    rw [laneStmt_four _ 1 "b" (xorRow k1) data (by decide) (by simp [envOf, List.lookup]) (xorRow_length _),
      mapLane_xor _ _ _ hd]; rfl
  · refine ⟨by decide, ?_⟩
    rw [laneStmt_four _ 2 "c" (xorRow k2) data (by decide) (by simp [envOf, List.lookup]) (xorRow_length _),
      mapLane_xor _ _ _ hd]; rfl
  · refine ⟨by decide, ?_⟩
    rw [laneStmt_four _ 3 "d" (xorRow k3) data (by decide) (by simp [envOf, List.lookup]) (xorRow_length _),
      mapLane_xor _ _ _ hd]; rfl

/-- closed form of a run of canonical statements, each lane at most once, in ANY order: byte `i` is
    XORed with `key[i % 4]` iff the statement of lane `i % 4` is in the list -/
def lanesSpec (key : Bytes) (lanes : List Nat) (data : Bytes) : Bytes :=
  data.mapIdx fun i x => if i % 4 ∈ lanes then x ^^^ key.getD (i % 4) 0 else x

theorem runLanes_canon (k0 k1 k2 k3 : Nat) (hk : Bytes.WF [k0, k1, k2, k3]) (l : List Stmt) :
    ∀ (data : Bytes), (∀ s ∈ l, s ∈ canon) → (l.map (·.1)).Nodup → Bytes.WF data →
      runLanes (envOf k0 k1 k2 k3) l data = .ok (lanesSpec [k0, k1, k2, k3] (l.map (·.1)) data) := by
  induction l with
  | nil =>
    intro data _ _ _
    simp only [runLanes, List.map_nil, lanesSpec, List.not_mem_nil, if_false]
    congr 1
    apply List.ext_getElem <;> simp
  | cons s r ih =>
    intro data hmem hnd hd
    obtain ⟨hs4, hs⟩ := laneStmt_canon k0 k1 k2 k3 s (hmem s (by simp)) data hd
    have hkb : [k0, k1, k2, k3].getD s.1 0 < 256 := by
      have : s.1 = 0 ∨ s.1 = 1 ∨ s.1 = 2 ∨ s.1 = 3 := by omega
      rcases this with h | h | h | h <;> rw [h] <;> exact hk _ (by simp)
    have hd' := mapLane_xor_wf s.1 _ data hkb hd
    simp only [List.map_cons, List.nodup_cons] at hnd
    simp only [runLanes, hs]
    rw [ih _ (fun t ht => hmem t (by simp [ht])) hnd.2 hd']
    congr 1
    apply List.ext_getElem
    · simp [lanesSpec, mapLane]
    · intro i h1 h2
      simp only [lanesSpec, mapLane, List.getElem_mapIdx, List.map_cons, List.mem_cons]
      by_cases hc : i % 4 = s.1
      · simp only [hc, hnd.1, if_false, true_or, if_true]
      · simp only [hc, false_or, if_false]

/-- all four lanes = the specification -/
theorem lanesSpec_all (key data : Bytes) : lanesSpec key [0, 1, 2, 3] data = maskPayload key data := by
  apply List.ext_getElem?
  intro i
  have hm : i % 4 ∈ [0, 1, 2, 3] := by
    have : i % 4 < 4 := Nat.mod_lt _ (by decide)
    simp only [List.mem_cons, List.not_mem_nil, or_false]; omega
  have := maskFrom_getElem? key 0 data i
  simp only [Nat.zero_add] at this
  simp only [maskPayload, this, lanesSpec, List.getElem?_mapIdx, hm, if_true]

theorem unpack_four (k0 k1 k2 k3 : Nat) (hk : Bytes.WF [k0, k1, k2, k3]) :
    unpackRows xorTable 4 [k0, k1, k2, k3] = .ok [xorRow k0, xorRow k1, xorRow k2, xorRow k3] := by
  simp [unpackRows, rowsOf_wf _ hk]

theorem unpack_other (key : Bytes) (hk : Bytes.WF key) (hl : key.length ≠ 4) :
    unpackRows xorTable 4 key = .error .valueError := by
  have hw : Bytes.WF (key.take 5) := fun b hb => hk b (List.mem_of_mem_take hb)
  have : ¬ (min 5 key.length = 4) := by omega
  simp [unpackRows, rowsOf_wf _ hw, this]

end Lomond.Mask
