/-
  The dead socket, part 2: helper lemmas for `Properties/C11_Dead2.lean`.

    * `shape_initPre`: the shape invariant of `Proofs/ThreadsNW.lean` holds in the state without a socket; `shape_shut_flat`:
      on a shut socket the wire is exactly the groups (whole frames and torn heads of frames the environment made fail).
    * `TInv`: (a) a call that took its alternative continuation (`halt`) has no write ahead; (b) in the program of every call
      other than `.connect` no early return / branch follows a write (`wnj`).  So a call of the application standing at a
      write has `halt = false` and runs straight to its end.
    * `Doomed`: a call that stands at its first write step on a shut socket fails there with `TransportFail`, keeps that error,
      writes nothing, and returns with exactly `⟨false, some .transport, false⟩`.
-/
import Lomond.Proofs.ThreadsDead
import Lomond.Proofs.ThreadsPre
set_option linter.unusedSimpArgs false
set_option linter.unusedVariables false

namespace Lomond.Threads
open Lomond

/-! ### the shape of the wire, from the state without a socket -/

theorem shape_initPre (env : Env) (v : Variant) (cfg : Cfg) (progs : Tid → List Call) :
    Shape env v cfg (initPre progs) [] := by
  refine ⟨fun g h => (by cases h), fun t => (by simp [gidx]), fun g h => (by cases h), ?_, fun _ => rfl,
    fun _ _ _ _ _ _ _ => rfl⟩
  intro t c f r hc hr
  have := atW_of_rest hc hr
  rw [fresh_atW v cfg _ rfl] at this; cases this

/-- on a shut socket the wire is exactly the finished groups: nobody has chunks of a frame in progress on it -/
theorem shape_shut_flat {env : Env} {v : Variant} {cfg : Cfg} {s : State} {gs : List Group}
    (S : Shape env v cfg s gs) (hs : s.sh.sockShut = true) : s.sh.wire = flat gs := by
  by_cases h : ∀ t, atW (view v cfg (s.th t)) = false
  · exact S.quiet h
  · have ⟨t, ht⟩ : ∃ t, atW (view v cfg (s.th t)) = true := by
      apply Classical.byContradiction
      intro hn
      apply h
      intro t
      cases hx : atW (view v cfg (s.th t)) with
      | false => rfl
      | true => exact absurd ⟨t, hx⟩ hn
    cases hv : view v cfg (s.th t) with
    | nil => rw [hv] at ht; cases ht
    | cons st r =>
      obtain ⟨c, hc, hr⟩ := current_of_view hv
      rw [hv] at ht
      cases st <;> simp only [atW] at ht <;> try cases ht
      · exact S.shut hs t c _ r hc (Or.inl hr)
      · exact S.shut hs t c _ r hc (Or.inr hr)

/-! ### no early return / branch after a write (all calls but `.connect`) -/

/-- behind every write step of the program there is no early return and no branch -/
def wnj : List Step → Bool
  | [] => true
  | st :: r => wnj r && (!isWrite st || noJump r)

theorem wnj_tail {st : Step} {r : List Step} (h : wnj (st :: r) = true) : wnj r = true := by
  simp only [wnj, Bool.and_eq_true] at h; exact h.1

theorem wnj_suffix {r r' : List Step} (h : r' <:+ r) (d : wnj r = true) : wnj r' = true := by
  induction r with
  | nil => simp at h; subst h; exact d
  | cons s r ih =>
    rcases List.suffix_cons_iff.mp h with h | h
    · subst h; exact d
    · exact ih h (wnj_tail d)

theorem wnj_noWrite (r : List Step) (h : noWrite r = true) : wnj r = true := by
  induction r with
  | nil => rfl
  | cons st r ih =>
    simp only [noWrite, List.all_cons, Bool.and_eq_true] at h
    simp only [wnj, Bool.and_eq_true, Bool.or_eq_true]
    exact ⟨ih h.2, Or.inl h.1⟩

theorem wnj_at_write {st : Step} {r : List Step} (h : wnj (st :: r) = true) (hw : isWrite st = true) :
    noJump r = true := by
  simp only [wnj, Bool.and_eq_true, Bool.or_eq_true, hw] at h
  rcases h.2 with h2 | h2
  · cases h2
  · exact h2

theorem compile_wnj (v : Variant) (cfg : Cfg) (call : Call) (h : call ≠ .connect) : wnj (compile v cfg call) = true := by
  cases call <;> first | exact absurd rfl h | skip
  all_goals
    simp only [compile, sendData, closeBody, writeProg, checks]
    (repeat' split) <;> simp [wnj, isWrite, noJump, isJump]

theorem moves_wnj {v : Variant} {st : Step} {r r' : List Step} (m : Moves v st r r') (n : wnj r = true) :
    wnj r' = true := by
  rcases moves_eq m with h | ⟨_, h⟩ | ⟨_, h⟩ | ⟨a, _, h⟩ <;> subst h
  · exact n
  · exact wnj_suffix (afterClose_suffix r) n
  · exact wnj_suffix (toRelease_suffix r) n
  · exact wnj_noWrite _ (alt_noWrite v a)

/-- the `halt` flag is set only by taking an alternative continuation -/
theorem exec_halt (v : Variant) (t : Tid) (st : Step) (r : List Step) (sh : Shared) (c : Cur) :
    (exec v t st r sh c).2.halt = c.halt ∨ ∃ a, (exec v t st r sh c).2.rest = altSteps v a := by
  cases st <;> simp only [exec, failWrite] <;> (repeat' split) <;>
    first | exact Or.inl rfl | exact Or.inl trivial | exact Or.inr ⟨_, rfl⟩

theorem exec_halt_nj (v : Variant) (t : Tid) (st : Step) (r : List Step) (sh : Shared) (c : Cur)
    (h : isJump st = false) : (exec v t st r sh c).2.halt = c.halt := by
  cases st <;> simp only [exec, failWrite] <;> (repeat' split) <;> first | rfl | cases h

structure TInv (v : Variant) (cfg : Cfg) (s : State) : Prop where
  halt : ∀ t c, (s.th t).current v cfg = some c → c.halt = true → noWrite c.rest = true
  nj : ∀ t c call, (s.th t).current v cfg = some c → (s.th t).prog[c.idx]? = some call → call ≠ .connect →
    wnj c.rest = true

/-- every thread between two calls (the initial states) -/
theorem tInv_fresh (v : Variant) (cfg : Cfg) (s : State) (h : ∀ t, (s.th t).cur = none) : TInv v cfg s := by
  constructor
  · intro t c hc hh
    rcases current_cases hc with h1 | ⟨_, call, _, rfl⟩
    · rw [h t] at h1; cases h1
    · cases hh
  · intro t c call hc hcall hne
    rcases current_cases hc with h1 | ⟨_, call2, hp, rfl⟩
    · rw [h t] at h1; cases h1
    · simp only at hcall
      rw [hp] at hcall; cases hcall
      exact compile_wnj v cfg call hne

theorem tInv_init (v : Variant) (cfg : Cfg) (progs : Tid → List Call) : TInv v cfg (init progs) :=
  tInv_fresh v cfg _ (fun _ => rfl)

theorem tInv_initPre (v : Variant) (cfg : Cfg) (progs : Tid → List Call) : TInv v cfg (initPre progs) :=
  tInv_fresh v cfg _ (fun _ => rfl)

theorem tInv_after (v : Variant) (cfg : Cfg) (s : State) (t : Tid) (c : Cur) (p : Shared × Cur)
    (T : TInv v cfg s) (hc : (s.th t).current v cfg = some c) (hi : p.2.idx = c.idx)
    (hhalt : p.2.halt = true → noWrite p.2.rest = true) (hw : wnj c.rest = true → wnj p.2.rest = true) :
    TInv v cfg (setTh s t (settle (s.th t) p.2) p.1) := by
  constructor
  · intro u c2 hc2 hh
    by_cases hu : u = t
    · subst hu
      rw [setTh_same] at hc2
      rcases current_cases hc2 with h | ⟨_, call4, hp4, rfl⟩
      · obtain ⟨_, rfl⟩ := settle_cur _ _ _ h
        exact hhalt hh
      · cases hh
    · rw [setTh_other _ _ _ _ _ hu] at hc2; exact T.halt u c2 hc2 hh
  · intro u c2 call hc2 hcall hne
    rw [prog_after] at hcall
    by_cases hu : u = t
    · subst hu
      rw [setTh_same] at hc2
      rcases current_cases hc2 with h | ⟨_, call4, hp4, rfl⟩
      · obtain ⟨_, rfl⟩ := settle_cur _ _ _ h
        rw [hi] at hcall; exact hw (T.nj u c call hc hcall hne)
      · simp only at hcall
        rw [settle_prog] at hp4
        rw [hp4] at hcall; cases hcall
        exact compile_wnj v cfg call hne
    · rw [setTh_other _ _ _ _ _ hu] at hc2; exact T.nj u c2 call hc2 hcall hne

/-- a thread standing at a write has not taken an alternative continuation -/
theorem tInv_halt_at_write {v : Variant} {cfg : Cfg} {s : State} {t : Tid} {c : Cur} (T : TInv v cfg s)
    (hc : (s.th t).current v cfg = some c) (hw : atW c.rest = true) : c.halt = false := by
  cases hx : c.halt with
  | false => rfl
  | true =>
    have := atW_noWrite (T.halt t c hc hx)
    rw [hw] at this; cases this

theorem tInv_stepN (env : Env) (v : Variant) (cfg : Cfg) (s : State) (t : Tid) (L : LockInv v cfg s)
    (T : TInv v cfg s) : TInv v cfg (stepN env v cfg s t) := by
  rcases stepN_cases env v cfg s t with ⟨hnw, e⟩ | ⟨c, f, r, hc, hr, e⟩ | ⟨c, f, r, hc, hr, e⟩
  · rw [e]
    rcases step_cases v cfg s t with e2 | ⟨c, st, r, hc, hr, hb, e2⟩
    · rw [e2]; exact T
    · rw [e2]
      have m := exec_moves v t st r s.sh c
      refine tInv_after v cfg s t c _ T hc (exec_idx v t st r s.sh c) ?_ ?_
      · intro hh
        rcases exec_halt v t st r s.sh c with h | ⟨a, h⟩
        · rw [h] at hh
          have := T.halt t c hc hh
          rw [hr] at this
          simp only [noWrite, List.all_cons, Bool.and_eq_true] at this
          exact moves_noWrite m this.2
        · rw [h]; exact alt_noWrite v a
      · intro hw
        rw [hr] at hw
        exact moves_wnj m (wnj_tail hw)
  · rw [e]
    have hv : view v cfg (s.th t) = .write1 f :: r := by rw [view_of_current hc, hr]
    have d : disc (.write1 f :: r) = true := hv ▸ L.disc t
    have hnh : c.halt = false := tInv_halt_at_write T hc (by rw [hr]; rfl)
    have o := execW1_out env t f r s.sh c
    obtain ⟨_, _, _, hi, _, hhalt⟩ := w1_after o d
    refine tInv_after v cfg s t c _ T hc hi (fun hh => by rw [hhalt, hnh] at hh; cases hh) ?_
    intro hw
    rw [hr] at hw
    generalize execW1 env t f r s.sh c = p at o
    cases o with
    | dead _ => exact wnj_suffix (toRelease_suffix r) (wnj_tail hw)
    | fail _ _ => exact wnj_suffix (toRelease_suffix r) (wnj_tail hw)
    | skip _ _ _ => exact wnj_tail hw
    | stay _ _ _ => exact hw
    | adv _ _ _ _ => exact wnj_tail hw
  · rw [e]
    have hv : view v cfg (s.th t) = .write2 f :: r := by rw [view_of_current hc, hr]
    have d : disc (.write2 f :: r) = true := hv ▸ L.disc t
    have hnh : c.halt = false := tInv_halt_at_write T hc (by rw [hr]; rfl)
    have o := execW2_out env t f r s.sh c
    obtain ⟨_, _, _, hi, _, hhalt, _⟩ := w2_after o d
    refine tInv_after v cfg s t c _ T hc hi (fun hh => by rw [hhalt, hnh] at hh; cases hh) ?_
    intro hw
    rw [hr] at hw
    generalize execW2 env t f r s.sh c = p at o
    cases o with
    | dead _ => exact wnj_suffix (toRelease_suffix r) (wnj_tail hw)
    | fail _ _ => exact wnj_suffix (toRelease_suffix r) (wnj_tail hw)
    | fin _ _ => exact wnj_tail hw

/-! ### every entry has one of two forms -/

theorem stepN_form (env : Env) (v : Variant) (cfg : Cfg) (s : State) (u : Tid) :
    stepN env v cfg s u = s ∨ ∃ p : Shared × Cur, stepN env v cfg s u = setTh s u (settle (s.th u) p.2) p.1 := by
  rcases stepN_cases env v cfg s u with ⟨_, e⟩ | ⟨c, f, r, _, _, e⟩ | ⟨c, f, r, _, _, e⟩
  · rw [e]
    rcases step_cases v cfg s u with e2 | ⟨c, st, r, _, _, _, e2⟩
    · exact Or.inl e2
    · exact Or.inr ⟨_, e2⟩
  · exact Or.inr ⟨_, e⟩
  · exact Or.inr ⟨_, e⟩

theorem stepN_other (env : Env) (v : Variant) (cfg : Cfg) (s : State) (u t : Tid) (h : t ≠ u) :
    (stepN env v cfg s u).th t = s.th t := by
  rcases stepN_form env v cfg s u with e | ⟨p, e⟩ <;> rw [e]
  exact setTh_other _ _ _ _ _ h

theorem settle_results (th : Thread) (c' : Cur) (i : Nat) (x : Result) (h : th.results[i]? = some x) :
    (settle th c').results[i]? = some x := by
  obtain ⟨hlt, _⟩ := List.getElem?_eq_some_iff.mp h
  unfold settle
  split
  · simp only
    rw [List.getElem?_append_left hlt]; exact h
  · exact h

/-- results are only ever appended -/
theorem stepN_results (env : Env) (v : Variant) (cfg : Cfg) (s : State) (u t : Tid) (i : Nat) (x : Result)
    (h : (s.th t).results[i]? = some x) : ((stepN env v cfg s u).th t).results[i]? = some x := by
  rcases stepN_form env v cfg s u with e | ⟨p, e⟩ <;> rw [e]
  · exact h
  · by_cases hu : t = u
    · subst hu; rw [setTh_same]; exact settle_results _ _ _ _ h
    · rw [setTh_other _ _ _ _ _ hu]; exact h

/-! ### a call at its first write step on a shut socket -/

/-- where call `i` of thread `t` stands: at its first write step; failed (the error register holds `transport`, nothing
    written, no alternative continuation taken, a straight program without writes ahead); returned with exactly that -/
inductive Doomed (v : Variant) (cfg : Cfg) (s : State) (t : Tid) (i : Nat) : Prop
  | atWrite (c : Cur) (f : FrameSrc) (r : List Step) : (s.th t).current v cfg = some c → c.idx = i →
      c.rest = .write1 f :: r → Doomed v cfg s t i
  | failed (c : Cur) : (s.th t).current v cfg = some c → c.idx = i → c.err = some .transport → c.wrote = false →
      c.halt = false → noWrite c.rest = true → noJump c.rest = true → Doomed v cfg s t i
  | returned : (s.th t).results[i]? = some ⟨false, some .transport, false⟩ → Doomed v cfg s t i

/-- a state check cannot stand in a program without writes -/
theorem inOnly_not_noWrite {st : Step} {r : List Step} (d : disc (st :: r) = true) (hin : inOnly st = true)
    (hn : noWrite r = true) : False := by
  cases st <;> simp only [inOnly] at hin <;> try cases hin
  all_goals
    simp only [disc, outOnly, inOnly, Bool.and_eq_true] at d
    have := d.1.2
    simp [hn] at this

theorem doomed_stepN (env : Env) (v : Variant) (cfg : Cfg) (s : State) (t u : Tid) (i : Nat) (call : Call)
    (B : BaseN v cfg s) (T : TInv v cfg s) (hs : s.sh.sockShut = true)
    (hcall : (s.th t).prog[i]? = some call) (hne : call ≠ .connect) (D : Doomed v cfg s t i) :
    Doomed v cfg (stepN env v cfg s u) t i := by
  by_cases hu : t = u
  · subst hu
    cases D with
    | returned h => exact .returned (stepN_results env v cfg s t t i _ h)
    | atWrite c f r hc hi hr =>
      have hh := current_not_halted hc
      have hv : view v cfg (s.th t) = .write1 f :: r := by rw [view_of_current hc, hr]
      have d : disc (.write1 f :: r) = true := hv ▸ B.L.disc t
      have hne' : toRelease r ≠ [] := holds_ne_nil (holds_toRelease _ (disc_w1 d).1)
      have hatw : atW c.rest = true := by rw [hr]; rfl
      rw [stepN_dead_write env v cfg s t c _ r hc hr rfl hs]
      have hcw : c.wrote = false := not_wrote_at_write B.M hc hatw
      have hch : c.halt = false := tInv_halt_at_write T hc hatw
      refine .failed { c with rest := toRelease r, err := some .transport } ?_ hi rfl hcw hch
        (noWrite_toRelease r (disc_tail d)) ?_
      · rw [setTh_same]; exact current_settle v cfg _ _ hh hne'
      · have hw := T.nj t c call hc (by rw [hi]; exact hcall) hne
        rw [hr] at hw
        exact all_suffix (toRelease_suffix r) (wnj_at_write hw rfl)
    | failed c hc hi he hw hhalt hnw hnj =>
      have hat : atW (view v cfg (s.th t)) = false := by rw [view_of_current hc]; exact atW_noWrite hnw
      rw [stepN_eq_step env v cfg s t hat]
      rcases step_cases v cfg s t with e | ⟨c2, st, r, hc2, hr, hb, e⟩
      · rw [e]; exact .failed c hc hi he hw hhalt hnw hnj
      · rw [hc] at hc2; cases hc2
        rw [e]
        have hh := current_not_halted hc
        have hv : view v cfg (s.th t) = st :: r := by rw [view_of_current hc, hr]
        have d : disc (st :: r) = true := hv ▸ B.L.disc t
        rw [hr] at hnw hnj
        simp only [noWrite, List.all_cons, Bool.and_eq_true] at hnw
        simp only [noJump, List.all_cons, Bool.and_eq_true] at hnj
        have hnwst : isWrite st = false := by simpa using hnw.1
        have hnjst : isJump st = false := by simpa using hnj.1
        have hw2 : isW2 st = false := by cases st <;> first | rfl | cases hnwst
        have m := exec_moves v t st r s.sh c
        have herr := exec_err v t st r s.sh c
        have hhl := exec_halt_nj v t st r s.sh c hnjst
        have hidx := exec_idx v t st r s.sh c
        generalize exec v t st r s.sh c = p at m herr hhl hidx
        rcases herr with ⟨h1, h2, h3⟩ | ⟨_, h2, _, _⟩
        · have hrest : p.2.rest = r := by
            rcases h2 with h | h
            · exact h
            · rw [hnjst] at h; cases h
          have hwr : p.2.wrote = false := by rw [h3, hw2, hw]; rfl
          by_cases hfin : p.2.rest = []
          · refine .returned ?_
            rw [setTh_same]
            have hlen : (s.th t).results.length = i := by
              rw [B.M.len t, ← (cur_facts B.M hc).1, hi]
            unfold settle
            simp only [hfin, if_true]
            rw [List.getElem?_append_right (by omega)]
            have : i - (s.th t).results.length = 0 := by omega
            rw [this, hwr, h1, he, hhl, hhalt]; rfl
          · refine .failed p.2 ?_ (by rw [hidx]; exact hi) (by rw [h1]; exact he) hwr (by rw [hhl]; exact hhalt)
              (by rw [hrest]; exact hnw.2) (by rw [hrest]; exact hnj.2)
            rw [setTh_same]; exact current_settle v cfg _ _ hh hfin
        · rcases h2 with h | h
          · exact (inOnly_not_noWrite d h hnw.2).elim
          · rw [hnwst] at h; cases h
  · have e := stepN_other env v cfg s u t hu
    cases D with
    | returned h => exact .returned (by rw [e]; exact h)
    | atWrite c f r hc hi hr => exact .atWrite c f r (by rw [e]; exact hc) hi hr
    | failed c hc hi he hw hhalt hnw hnj => exact .failed c (by rw [e]; exact hc) hi he hw hhalt hnw hnj

theorem doomed_runN (env : Env) (v : Variant) (cfg : Cfg) (s : State) (sched : List Tid) (t : Tid) (i : Nat)
    (call : Call) (B : BaseN v cfg s) (T : TInv v cfg s) (hs : s.sh.sockShut = true)
    (hcall : (s.th t).prog[i]? = some call) (hne : call ≠ .connect) (D : Doomed v cfg s t i) :
    Doomed v cfg (runN env v cfg s sched) t i := by
  unfold runN
  induction sched generalizing s with
  | nil => exact D
  | cons u r ih =>
    exact ih _ (baseN_step env v cfg s u B) (tInv_stepN env v cfg s u B.L T) (stepN_shut env v cfg s u hs).2
      (by rw [stepN_prog]; exact hcall) (doomed_stepN env v cfg s t u i call B T hs hcall hne D)

theorem tInv_runN (env : Env) (v : Variant) (cfg : Cfg) (s : State) (sched : List Tid) (B : BaseN v cfg s)
    (T : TInv v cfg s) : TInv v cfg (runN env v cfg s sched) := by
  unfold runN
  induction sched generalizing s with
  | nil => exact T
  | cons u r ih => exact ih _ (baseN_step env v cfg s u B) (tInv_stepN env v cfg s u B.L T)

/-- what a doomed call has recorded once it has returned -/
theorem doomed_result {v : Variant} {cfg : Cfg} {s : State} {t : Tid} {i : Nat} (M : MsgInv v cfg s)
    (D : Doomed v cfg s t i) (res : Result) (hr : (s.th t).results[i]? = some res) :
    res = ⟨false, some .transport, false⟩ := by
  have hlt : i < (s.th t).pc := by
    obtain ⟨h, _⟩ := List.getElem?_eq_some_iff.mp hr
    rw [M.len t] at h; exact h
  cases D with
  | returned h => rw [h] at hr; exact (Option.some.inj hr).symm
  | atWrite c f r hc hi _ => have := (cur_facts M hc).1; omega
  | failed c hc hi _ _ _ _ _ => have := (cur_facts M hc).1; omega

end Lomond.Threads
