/-
  Helper lemmas for C06 about the core model (Model/Core.lean, Model/Http.lean):
  what `buildMessage` inflates, what `sendData` writes, how the permessage-deflate parameters
  are parsed and what a parameter error leads to.
-/
import Lomond.Proofs.Release
set_option linter.unusedSimpArgs false
set_option linter.unusedVariables false
namespace Lomond.Core
open Lomond

instance instDecEqExcept {ε α : Type} [DecidableEq ε] [DecidableEq α] : DecidableEq (Except ε α) := fun a b =>
  match a, b with
  | .ok x, .ok y => if h : x = y then isTrue (by rw [h]) else isFalse (by intro e; cases e; exact h rfl)
  | .error x, .error y => if h : x = y then isTrue (by rw [h]) else isFalse (by intro e; cases e; exact h rfl)
  | .ok _, .error _ => isFalse (by intro e; cases e)
  | .error _, .ok _ => isFalse (by intro e; cases e)

/-! ### receive side -/

theorem buildMessage_fragments (f g : Frame) (fs gs : List Frame) (s : Sys)
    (hop : f.opcode = g.opcode) (hr : f.rsv1 = g.rsv1)
    (hj : ((f :: fs).map (·.payload)).flatten = ((g :: gs).map (·.payload)).flatten) :
    buildMessage (f :: fs) s = buildMessage (g :: gs) s := by
  simp only [buildMessage, hop, hr, hj]

theorem liftE_state (r : Except Exn α) (s : Sys) : (liftE r s).state = s := by
  unfold liftE; cases r <;> rfl

theorem buildMessage_plain_z (f : Frame) (fs : List Frame) (s : Sys) (h : f.rsv1 = 0 ∨ s.decompress = false) :
    buildMessage (f :: fs) s = liftE (msgOfPayload f.opcode ((f :: fs).map (·.payload)).flatten) s ∧
    (buildMessage (f :: fs) s).state = s := by
  have hc : ¬ (f.rsv1 ≠ 0 ∧ s.decompress = true) := by
    rcases h with h | h
    · simp [h]
    · simp [h]
  have e : buildMessage (f :: fs) s = liftE (msgOfPayload f.opcode ((f :: fs).map (·.payload)).flatten) s := by
    simp only [buildMessage]
    rw [bind_ok (show getS s = .ok s s from rfl)]
    simp only [hc, if_false]
    rw [bind_ok (show (pure ((f :: fs).map (·.payload)).flatten : M Bytes) s = .ok _ s from rfl)]
  exact ⟨e, by rw [e]; exact liftE_state _ s⟩

theorem buildMessage_compressed (f : Frame) (fs : List Frame) (s : Sys)
    (h1 : f.rsv1 ≠ 0) (h2 : s.decompress = true) :
    let hist := s.inflHist ++ ((f :: fs).map (·.payload)).flatten ++ [0, 0, 0xff, 0xff]
    match s.cfg.inflate ((s.compression.map (·.decompressWbits)).getD 15) hist with
    | none => buildMessage (f :: fs) s = .err (.critical "unable to decompress payload") s
    | some out =>
      buildMessage (f :: fs) s =
        liftE (msgOfPayload f.opcode (out.drop s.inflOut))
          (if (s.compression.map (·.resetDecompress)).getD false then { s with inflHist := [], inflOut := 0 }
           else { s with inflHist := hist, inflOut := out.length }) := by
  intro hist
  have hc : (f.rsv1 ≠ 0 ∧ s.decompress = true) := ⟨h1, h2⟩
  have e0 : buildMessage (f :: fs) s =
      (inflateMessage ((f :: fs).map (·.payload)).flatten >>= fun payload => liftE (msgOfPayload f.opcode payload)) s := by
    simp only [buildMessage]
    rw [bind_ok (show getS s = .ok s s from rfl)]
    rw [if_pos hc]
  cases hi : s.cfg.inflate ((s.compression.map (·.decompressWbits)).getD 15) hist with
  | none =>
    simp only
    rw [e0]
    apply bind_err
    unfold inflateMessage
    simp only []
    rw [show s.inflHist ++ ((f :: fs).map (·.payload)).flatten ++ [0, 0, 255, 255] = hist from rfl, hi]
  | some out =>
    simp only
    rw [e0]
    cases hr : (s.compression.map (·.resetDecompress)).getD false with
    | true =>
      have : inflateMessage ((f :: fs).map (·.payload)).flatten s =
          .ok (out.drop s.inflOut) { s with inflHist := [], inflOut := 0 } := by
        unfold inflateMessage
        simp only []
        rw [show s.inflHist ++ ((f :: fs).map (·.payload)).flatten ++ [0, 0, 255, 255] = hist from rfl, hi]
        simp only [hr, if_true]
      rw [bind_ok this]; simp only [if_true]
    | false =>
      have : inflateMessage ((f :: fs).map (·.payload)).flatten s =
          .ok (out.drop s.inflOut) { s with inflHist := hist, inflOut := out.length } := by
        unfold inflateMessage
        simp only []
        rw [show s.inflHist ++ ((f :: fs).map (·.payload)).flatten ++ [0, 0, 255, 255] = hist from rfl, hi]
        simp only [hr, Bool.false_eq_true, if_false]
      rw [bind_ok this]; simp only [Bool.false_eq_true, if_false]

/-! ### send side -/

/-- `session.write` would put the bytes on the wire: socket open, websocket neither closed nor
    closing, and this `sendall` does not fail -/
def Writable (s : Sys) : Prop :=
  s.sockOpen = true ∧ s.closed = false ∧ s.closing = false ∧ s.cfg.writeFails s.writeCtr = false

theorem sendData_wrz_iff (op : Nat) (payload : Bytes) (compress : Bool) (s : Sys) :
    ((∃ o p, (sendData op payload compress s).state.trace = .wrz o p :: s.trace) ↔
      (compress = true ∧ s.compression.isSome = true ∧ Writable s)) ∧
    (∀ o p, (sendData op payload compress s).state.trace = .wrz o p :: s.trace → o = op ∧ p = payload) := by
  unfold sendData sendFrame write Writable
  simp only []
  constructor
  · constructor
    · intro ⟨o, p, h⟩
      revert h
      splits <;> simp_all
    · intro ⟨hc, hn, h1, h2, h3, h4⟩
      simp [hc, hn, h1, h2, h3, h4]
  · intro o p
    splits <;> simp_all

theorem sendData_plain_z (op : Nat) (payload : Bytes) (compress : Bool) (s : Sys)
    (h : compress = false ∨ s.compression = none) (hw : Writable s) (hop : op < 16)
    (bytes : Bytes) (hb : Frame.build op payload (s.cfg.maskKey s.keyCtr) = some bytes) :
    (sendData op payload compress s).state.trace = .wr bytes :: s.trace ∧
    bytes.head? = some (128 + op) ∧ (128 + op) / 64 % 2 = 0 := by
  obtain ⟨h1, h2, h3, h4⟩ := hw
  have hc : ¬ (compress = true ∧ s.compression.isSome = true) := by
    rcases h with h | h <;> simp [h]
  refine ⟨?_, ?_, by omega⟩
  · unfold sendData sendFrame write
    simp [hc, hb, h1, h2, h3, h4]
  · unfold Frame.build at hb
    cases hh : buildHeader (byte0 1 0 0 0 op) 128 payload.length with
    | none => rw [hh] at hb; cases hb
    | some hd =>
      rw [hh] at hb
      simp only [Option.map_some, Option.some.injEq] at hb
      subst hb
      unfold buildHeader at hh
      split at hh
      · cases hh; simp [byte0]
      · split at hh
        · cases hh; simp [byte0]
        · split at hh
          · cases hh; simp [byte0]
          · cases hh

/-! ### parameters -/

theorem getWbits_range (opts : List (Http.Str × Http.Str)) (key : String) (n : Nat)
    (h : Http.getWbits opts key = .ok n) : 8 ≤ n ∧ n ≤ 15 := by
  unfold Http.getWbits at h
  simp only [] at h
  split at h
  · cases h
  · split at h
    · cases h
    · rename_i hc
      cases h
      simp only [not_or, Nat.not_lt, Nat.not_gt_eq] at hc
      omega

theorem getWbits_value (opts : List (Http.Str × Http.Str)) (key : String) (n : Nat)
    (h : Http.getWbits opts key = .ok n) :
    Http.pyInt Http.isStrSpace ((Http.optGet opts (Http.ofString key)).getD (Http.ofString "15")) = some (false, n) := by
  unfold Http.getWbits at h
  simp only [] at h
  split at h
  · cases h
  · rename_i neg m hp
    split at h
    · cases h
    · rename_i hc
      cases h
      simp only [not_or] at hc
      rw [hp]
      cases neg <;> simp_all

theorem getWbits_default (opts : List (Http.Str × Http.Str)) (key : String)
    (h : Http.optGet opts (Http.ofString key) = none) : Http.getWbits opts key = .ok 15 := by
  unfold Http.getWbits
  simp only [h, Option.getD_none]
  have : Http.pyInt Http.isStrSpace (Http.ofString "15") = some (false, 15) := by decide +kernel
  rw [this]
  simp

theorem getWbits_refused (opts : List (Http.Str × Http.Str)) (key : String) :
    (Http.pyInt Http.isStrSpace ((Http.optGet opts (Http.ofString key)).getD (Http.ofString "15")) = none ∨
     ∃ neg n, Http.pyInt Http.isStrSpace ((Http.optGet opts (Http.ofString key)).getD (Http.ofString "15")) = some (neg, n) ∧
        (neg = true ∨ n < 8 ∨ 15 < n)) →
    ∃ msg, Http.getWbits opts key = .error msg := by
  intro h
  unfold Http.getWbits
  simp only []
  rcases h with h | ⟨neg, n, h, hc⟩
  · rw [h]; exact ⟨_, rfl⟩
  · rw [h]
    simp only
    rw [if_pos (by simpa using hc)]
    exact ⟨_, rfl⟩

theorem deflateFromOptions_ok (opts : List (Http.Str × Http.Str)) (d : Http.DeflateCfg)
    (h : Http.deflateFromOptions opts = .ok d) :
    Http.getWbits opts "server_max_window_bits" = .ok d.decompressWbits ∧
    Http.getWbits opts "client_max_window_bits" = .ok d.compressWbits ∧
    d.resetDecompress = (Http.optGet opts (Http.ofString "server_no_context_takeover")).isSome ∧
    d.resetCompress = (Http.optGet opts (Http.ofString "client_no_context_takeover")).isSome := by
  unfold Http.deflateFromOptions at h
  cases h1 : Http.getWbits opts "server_max_window_bits" with
  | error m => rw [h1] at h; cases h
  | ok a =>
    cases h2 : Http.getWbits opts "client_max_window_bits" with
    | error m => rw [h1, h2] at h; cases h
    | ok b =>
      rw [h1, h2] at h
      cases h
      exact ⟨rfl, rfl, rfl, rfl⟩

theorem onResponse_ext_error (strict : Bool) (chal : Http.Str) (r : Http.Response) (m : Http.Str)
    (hs : r.statusCode = some (false, 101))
    (hu : Http.lower ((r.get (Http.ofString "upgrade")).getD (Http.ofString "<header missing>")) = Http.ofString "websocket")
    (acc : Http.Str) (ha : r.get (Http.ofString "sec-websocket-accept") = some acc)
    (hc : if strict then acc = chal else Http.lower acc = Http.lower chal)
    (he : Http.processExtensions (r.getList (Http.ofString "sec-websocket-extensions")) none = .error m) :
    Http.onResponse strict chal r = .error m := by
  unfold Http.onResponse
  simp only [hs, ne_eq, not_true_eq_false, if_false, hu, ha, he]
  cases strict <;> simp_all

/-! ### a handshake error is reported as Rejected -/

/-- what `feedYield` does once the event is in the trace -/
def afterLog (inTry : Bool) : M Unit :=
  tryC (do (do let s ← getS; doActs (s.react s.hist)); regular) fun x => do
    (if inTry then onDisconnect else pure ())
    throwE (.outer x)

theorem step_afterLog (inTry : Bool) : Spec Step (afterLog inTry) := by
  unfold afterLog
  apply spec_tryC step_po
  · refine spec_bind step_po ?_ (fun _ => step_regular)
    exact spec_bind step_po (spec_getS step_po) (fun s => step_doActs _)
  · intro x
    apply spec_bind step_po
    · split
      · exact step_onDisconnect
      · exact spec_pure step_po _
    · intro _; exact spec_throwE step_po _

theorem feedYield_eq_z (inTry : Bool) (e : Event) (s s1 : Sys) (he : onEvent e s = .ok () s1) :
    feedYield inTry e s = afterLog inTry { s1 with trace := .ev e :: s1.trace, hist := e :: s1.hist } := by
  unfold feedYield afterLog tryC
  have : (do onEvent e; yieldEv e; regular : M Unit) s =
      (do (do let s ← getS; doActs (s.react s.hist)); regular : M Unit)
        { s1 with trace := .ev e :: s1.trace, hist := e :: s1.hist } := by
    rw [bind_ok he]
    unfold yieldEv
    show M.bind (M.bind (modS _) _) _ s1 = M.bind _ _ _
    unfold M.bind modS
    rfl
  rw [this]

/-- the event a `feedYield` hands to the application is in the trace afterwards, and what follows
    the logging is a `Step` -/
theorem feedYield_logged (inTry : Bool) (e : Event) (s s1 : Sys) (he : onEvent e s = .ok () s1) :
    Obs.ev e ∈ (feedYield inTry e s).state.trace ∧
    Step { s1 with trace := .ev e :: s1.trace, hist := e :: s1.hist } (feedYield inTry e s).state := by
  rw [feedYield_eq_z inTry e s s1 he]
  have st := step_afterLog inTry { s1 with trace := .ev e :: s1.trace, hist := e :: s1.hist }
  obtain ⟨l, hl⟩ := st.traceExt
  exact ⟨by rw [hl]; simp, st⟩

theorem onOut_rejected_z (data : Bytes) (s : Sys) (reason : Http.Str)
    (h : Http.onResponse s.cfg.v.strictAccept s.cfg.challenge (Http.parseResponse data) = .error reason) :
    (onOut (.header data) s).state.closed = true ∧
    Obs.ev (.rejected reason) ∈ (onOut (.header data) s).state.trace := by
  have e0 : onOut (.header data) s =
      (do modS (fun s => { s with parsedResponse := true }); onDisconnect; feedYield true (.rejected reason); pure false : M Bool) s := by
    unfold onOut
    simp only []
    rw [bind_ok (show getS s = .ok s s from rfl)]
    simp only [h]
  rw [e0]
  rw [bind_ok (show modS (fun s => { s with parsedResponse := true }) s = .ok () { s with parsedResponse := true } from rfl)]
  -- on_disconnect: close the socket, mark closed
  obtain ⟨s1, h1⟩ := closeSocket_ok { s with parsedResponse := true }
  have hd : onDisconnect { s with parsedResponse := true } = .ok () { s1 with closing := false, closed := true } := by
    unfold onDisconnect
    rw [bind_ok h1]; rfl
  rw [bind_ok hd]
  have hf := feedYield_logged true (.rejected reason) { s1 with closing := false, closed := true } _ rfl
  cases hr : feedYield true (.rejected reason) { s1 with closing := false, closed := true } with
  | ok a s2 =>
    rw [hr] at hf
    rw [bind_ok hr]
    exact ⟨hf.2.closedMono rfl, hf.1⟩
  | err x s2 =>
    rw [hr] at hf
    rw [bind_err hr]
    exact ⟨hf.2.closedMono rfl, hf.1⟩

end Lomond.Core
