/-
  C01, parser side: the eager, consumer-free run of the frame parser (`pRun`, `pFeed`) and the
  big-step effect of one complete unmasked frame in each of the three length forms
  (`pRun_frame_ok`, `pRun_frame_err`).
-/
import Lomond.Proofs.Step
set_option linter.unusedSimpArgs false
set_option linter.unusedVariables false
namespace Lomond.Core
open Lomond

/-! ### the eager parser -/

/-- result of running the parser alone over some bytes: the outputs in order, each with the
    parser state at the moment it is handed to the consumer; the final parser state; the error
    that stopped it, if any -/
structure PRun where
  outs : List (PState × Out) := []
  p : PState
  err : Option Exn := none

/-- prepend what a bite produced -/
def PRun.push (x : PState × Option Out) (r : PRun) : PRun :=
  match x.2 with
  | none => r
  | some o => { r with outs := (x.1, o) :: r.outs }

/-- `Parser.feed`'s loop with no consumer: the fold of `biteBytes` over the bites, exactly the
    bites `feedLoop` takes -/
def pRun (v : Variant) (p : PState) (data : Bytes) : PRun :=
  if h : data = [] then { p := p }
  else
    match biteBytes v p (data.take (p.remPred + 1)) with
    | .error x => { p := deadParser p, err := some x }
    | .ok r => (pRun v r.1 (data.drop (p.remPred + 1))).push r
termination_by data.length
decreasing_by
  simp only [List.length_drop]
  have : data.length ≠ 0 := by
    intro hl; exact h (List.eq_nil_of_length_eq_zero hl)
  omega

/-- the eager parser as a partial function: final state and outputs, or the error -/
def pFeed (v : Variant) (p : PState) (data : Bytes) : Except Exn (PState × List Out) :=
  match (pRun v p data).err with
  | some x => .error x
  | none => .ok ((pRun v p data).p, (pRun v p data).outs.map (·.2))

theorem pRun_nil (v : Variant) (p : PState) : pRun v p [] = { p := p } := by
  rw [pRun]; simp

/-- a bite of exactly the awaited length -/
theorem pRun_bite (v : Variant) (p : PState) (chunk rest : Bytes) (h : chunk.length = p.remPred + 1) :
    pRun v p (chunk ++ rest) =
      match biteBytes v p chunk with
      | .error x => { p := deadParser p, err := some x }
      | .ok r => (pRun v r.1 rest).push r := by
  have hne : chunk ++ rest ≠ [] := by
    intro h0
    have : (chunk ++ rest).length = 0 := by rw [h0]; rfl
    simp only [List.length_append] at this; omega
  rw [pRun]
  simp only [hne, dite_false]
  have e1 : (chunk ++ rest).take (p.remPred + 1) = chunk := by
    rw [← h]; simp
  have e2 : (chunk ++ rest).drop (p.remPred + 1) = rest := by
    rw [← h]; simp
  rw [e1, e2]

/-! ### big-endian numbers -/

theorem beVal_append_single (a : Bytes) (b : Nat) : beVal (a ++ [b]) = beVal a * 256 + b := by
  simp [beVal, List.foldl_append]

theorem beVal_beBytes (n v : Nat) : beVal (beBytes n v) = v % 256 ^ n := by
  induction n generalizing v with
  | zero => simp [beBytes, beVal]; omega
  | succ n ih =>
    rw [beBytes, beVal_append_single, ih, Nat.pow_succ]
    rw [Nat.mul_comm (256 ^ n) 256, Nat.mod_mul]
    omega

theorem beBytes_length (n v : Nat) : (beBytes n v).length = n := by
  induction n generalizing v with
  | zero => rfl
  | succ n ih => simp [beBytes, ih]


/-! ### one frame on the wire -/

/-- the three ways RFC 6455 §5.2 can spell a payload length -/
inductive LenForm
  | short | ext16 | ext64
  deriving Repr, DecidableEq, Inhabited

/-- the form can express the length (non-minimal spellings are allowed: `ext16` for any length
    below 2^16, `ext64` for any length below 2^63) -/
def LenForm.ok (form : LenForm) (len : Nat) : Prop :=
  match form with
  | .short => len < 126
  | .ext16 => len < 65536
  | .ext64 => len < 2 ^ 63

instance (form : LenForm) (len : Nat) : Decidable (form.ok len) := by
  unfold LenForm.ok; cases form <;> exact inferInstance

/-- second header byte (MASK = 0) and the extended length bytes -/
def lenBytes (form : LenForm) (len : Nat) : Bytes :=
  match form with
  | .short => [len]
  | .ext16 => 126 :: beBytes 2 len
  | .ext64 => 127 :: beBytes 8 len

/-- an unmasked frame as the server writes it: first byte, length in the chosen form, payload -/
def serialise (b0 : Nat) (form : LenForm) (payload : Bytes) : Bytes :=
  b0 :: lenBytes form payload.length ++ payload

/-- the parser sits between two frames: it awaits the two header bytes -/
structure Boundary (p : PState) : Prop where
  cont : p.cont = .hdr2
  rem : p.remPred = 1
  utf8 : p.utf8 = false
  buf : p.buf = []

/-- the state `resume` continues from (the consumed awaitable's bookkeeping is dead) -/
def PState.resumed (p : PState) : PState := { p with remPred := 0, utf8 := false, buf := [] }

/-- big-step effect of one complete unmasked frame (first byte `b0`, payload `payload`) on a parser
    at a frame boundary: `gotMask` (frame construction, validation, `_is_text` bookkeeping), then
    the payload read with its incremental UTF-8 validation, then `on_frame` -/
def frameStep (v : Variant) (p : PState) (b0 : Nat) (payload : Bytes) : Except Exn (PState × Out) :=
  match gotMask v p.resumed b0 payload.length none with
  | .error x => .error x
  | .ok (p1, some o) => .ok (p1, o)
  | .ok (p1, none) =>
    match biteBytes v p1 payload with
    | .error x => .error x
    | .ok (p2, some o) => .ok (p2, o)
    | .ok (_, none) => .error (.other "unreachable")

theorem gotMask_none (v : Variant) (p : PState) (b0 len : Nat) (p1 : PState)
    (h : gotMask v p b0 len none = .ok (p1, none)) :
    len ≠ 0 ∧ p1.remPred = len - 1 ∧ p1.buf = [] ∧ ∃ f, p1.cont = .payload f := by
  unfold gotMask at h
  simp only [] at h
  split at h
  · cases h
  · split at h
    · cases h; simp_all
    · unfold frameDone at h
      split at h <;> cases h

/-- a complete, unvalidated read resumes the grammar with exactly those bytes -/
theorem biteBytes_exact (v : Variant) (p : PState) (chunk : Bytes) (hu : p.utf8 = false)
    (hl : chunk.length = p.remPred + 1) (hbuf : p.buf = []) :
    biteBytes v p chunk = resume v p chunk := by
  cases p with
  | mk c r u b d t co ic =>
    simp only at hu hbuf hl
    subst hu hbuf
    rw [biteBytes_eq]
    simp only [vres, hl, List.nil_append, Nat.lt_irrefl, if_false, Bool.false_eq_true]

theorem resume_resumed (v : Variant) (p : PState) (bytes : Bytes) :
    resume v p bytes = resume v p.resumed bytes := by
  simp [resume, PState.resumed]

/-- `gotMask` only reads the message-level fields of the parser state -/
theorem gotMask_congr (v : Variant) (p q : PState) (b0 len : Nat) (key : Option Bytes)
    (h1 : q.dfa = p.dfa) (h2 : q.isText = p.isText) (h3 : q.compression = p.compression)
    (h4 : q.isCompressed = p.isCompressed) : gotMask v q b0 len key = gotMask v p b0 len key := by
  cases p; cases q
  simp only at h1 h2 h3 h4
  subst h1 h2 h3 h4
  unfold gotMask
  simp only []
  simp only [Frame.isText]
  by_cases ht : b0 % 16 = Gen.opText
  · simp only [ht, decide_true, if_true]
    split
    · rfl
    · split
      · rfl
      · simp [frameDone]
  · simp only [ht, decide_false, if_false, Bool.false_eq_true]
    split
    · rfl
    · split
      · rfl
      · simp [frameDone]

theorem gotLength_unmasked (v : Variant) (p : PState) (b0 len : Nat) (h : len < 2 ^ 63) :
    gotLength v p b0 false len = gotMask v p b0 len none := by
  unfold gotLength
  have h4 : ¬ len > 0x7fffffffffffffff := by omega
  simp only [h4, if_false, Bool.false_eq_true]

theorem resume_hdr2_short (v : Variant) (p : PState) (hc : p.cont = .hdr2) (b0 len : Nat) (hl : len < 126) :
    resume v p [b0, len] = gotMask v p.resumed b0 len none := by
  unfold resume
  simp only [hc, List.getD_cons_zero, List.getD_cons_succ]
  have h1 : len % 128 = len := Nat.mod_eq_of_lt (by omega)
  have h2 : ¬ len = 126 := by omega
  have h3 : ¬ len = 127 := by omega
  have h5 : decide (len ≥ 128) = false := by simp; omega
  simp only [h1, h2, h3, if_false, h5]
  rw [gotLength_unmasked v _ b0 len (by omega)]
  exact gotMask_congr v _ _ b0 len none rfl rfl rfl rfl

theorem resume_hdr2_16 (v : Variant) (p : PState) (hc : p.cont = .hdr2) (b0 : Nat) :
    resume v p [b0, 126] = .ok ({ p.resumed with cont := .len16 b0 false, remPred := 1 }, none) := by
  unfold resume
  simp [hc, PState.resumed]

theorem resume_hdr2_64 (v : Variant) (p : PState) (hc : p.cont = .hdr2) (b0 : Nat) :
    resume v p [b0, 127] = .ok ({ p.resumed with cont := .len64 b0 false, remPred := 7 }, none) := by
  unfold resume
  simp [hc, PState.resumed]

theorem resume_len16 (v : Variant) (p : PState) (b0 len : Nat) (hc : p.cont = .len16 b0 false) (hl : len < 65536) :
    resume v p (beBytes 2 len) = gotMask v p.resumed b0 len none := by
  unfold resume
  simp only [hc]
  rw [beVal_beBytes, Nat.mod_eq_of_lt (by omega)]
  rw [gotLength_unmasked v _ b0 len (by omega)]
  exact gotMask_congr v _ _ b0 len none rfl rfl rfl rfl

theorem resume_len64 (v : Variant) (p : PState) (b0 len : Nat) (hc : p.cont = .len64 b0 false) (hl : len < 2 ^ 63) :
    resume v p (beBytes 8 len) = gotMask v p.resumed b0 len none := by
  unfold resume
  simp only [hc]
  rw [beVal_beBytes, Nat.mod_eq_of_lt (by omega)]
  rw [gotLength_unmasked v _ b0 len hl]
  exact gotMask_congr v _ _ b0 len none rfl rfl rfl rfl

/-- the header (two bytes + extended length) brings the parser to `gotMask` -/
theorem pRun_header (v : Variant) (p : PState) (hb : Boundary p) (b0 len : Nat) (form : LenForm)
    (hf : form.ok len) (rest : Bytes) :
    ∃ q : PState, q.cont ≠ .header ∧
    pRun v p (b0 :: lenBytes form len ++ rest) =
      match gotMask v p.resumed b0 len none with
      | .error x => { p := deadParser q, err := some x }
      | .ok r => (pRun v r.1 rest).push r := by
  obtain ⟨hc, hr, hu, hbuf⟩ := hb
  cases form with
  | short =>
    have hl : len < 126 := hf
    have e : b0 :: lenBytes .short len ++ rest = [b0, len] ++ rest := rfl
    refine ⟨p, by simp [hc], ?_⟩
    rw [e, pRun_bite v p [b0, len] rest (by simp [hr])]
    rw [biteBytes_exact v p _ hu (by simp [hr]) hbuf, resume_hdr2_short v p hc b0 len hl]
  | ext16 =>
    have hl : len < 65536 := hf
    have e : b0 :: lenBytes .ext16 len ++ rest = [b0, 126] ++ (beBytes 2 len ++ rest) := rfl
    refine ⟨{ p.resumed with cont := .len16 b0 false, remPred := 1 }, by simp, ?_⟩
    rw [e, pRun_bite v p [b0, 126] _ (by simp [hr])]
    rw [biteBytes_exact v p _ hu (by simp [hr]) hbuf, resume_hdr2_16 v p hc b0]
    simp only [PRun.push]
    rw [pRun_bite v _ (beBytes 2 len) rest (by simp [beBytes_length])]
    rw [biteBytes_exact v _ _ rfl (by simp [beBytes_length]) rfl, resume_len16 v _ b0 len rfl hl]
    rw [gotMask_congr v p.resumed ({ p.resumed with cont := .len16 b0 false, remPred := 1 } : PState).resumed
      b0 len none rfl rfl rfl rfl]
    rfl
  | ext64 =>
    have hl : len < 2 ^ 63 := hf
    have e : b0 :: lenBytes .ext64 len ++ rest = [b0, 127] ++ (beBytes 8 len ++ rest) := rfl
    refine ⟨{ p.resumed with cont := .len64 b0 false, remPred := 7 }, by simp, ?_⟩
    rw [e, pRun_bite v p [b0, 127] _ (by simp [hr])]
    rw [biteBytes_exact v p _ hu (by simp [hr]) hbuf, resume_hdr2_64 v p hc b0]
    simp only [PRun.push]
    rw [pRun_bite v _ (beBytes 8 len) rest (by simp [beBytes_length])]
    rw [biteBytes_exact v _ _ rfl (by simp [beBytes_length]) rfl, resume_len64 v _ b0 len rfl hl]
    rw [gotMask_congr v p.resumed ({ p.resumed with cont := .len64 b0 false, remPred := 7 } : PState).resumed
      b0 len none rfl rfl rfl rfl]
    rfl


theorem gotMask_some (v : Variant) (p : PState) (b0 len : Nat) (p1 : PState) (o : Out)
    (h : gotMask v p b0 len none = .ok (p1, some o)) : len = 0 := by
  unfold gotMask at h
  simp only [] at h
  split at h
  · cases h
  · split at h
    · cases h
    · simp_all

/-- the last bite of a payload always produces the frame (or an error) -/
theorem bite_payload_some (v : Variant) (p1 p2 : PState) (payload : Bytes) (f : Frame)
    (hc : p1.cont = .payload f) (hl : payload.length = p1.remPred + 1)
    (h : biteBytes v p1 payload = .ok (p2, none)) : False := by
  rw [biteBytes_eq] at h
  split at h
  · cases h
  · have : ¬ payload.length < p1.remPred + 1 := by omega
    simp only [this, if_false] at h
    unfold resume at h
    simp only [hc] at h
    unfold frameDone at h
    split at h <;> cases h

/-- **One frame, any length form.**  From a frame boundary, the bytes of one unmasked frame
    (followed by anything) make the eager parser do exactly `frameStep`: either the error, with no
    output, or the frame as its single output, and the parser goes on with the rest. -/
theorem pRun_frame (v : Variant) (p : PState) (hb : Boundary p) (b0 : Nat) (form : LenForm)
    (payload : Bytes) (hf : form.ok payload.length) (rest : Bytes) :
    ∃ q : PState, q.cont ≠ .header ∧
    pRun v p (serialise b0 form payload ++ rest) =
      match frameStep v p b0 payload with
      | .error x => { p := deadParser q, err := some x }
      | .ok r => (pRun v r.1 rest).push (r.1, some r.2) := by
  obtain ⟨q, hq, hh⟩ := pRun_header v p hb b0 payload.length form hf (payload ++ rest)
  have e : serialise b0 form payload ++ rest = b0 :: lenBytes form payload.length ++ (payload ++ rest) := by
    simp [serialise]
  rw [e, hh]
  unfold frameStep
  cases hg : gotMask v p.resumed b0 payload.length none with
  | error x => exact ⟨q, hq, rfl⟩
  | ok r =>
    obtain ⟨p1, o⟩ := r
    cases o with
    | some o =>
      have h0 := gotMask_some v _ b0 _ p1 o hg
      have : payload = [] := List.eq_nil_of_length_eq_zero h0
      subst this
      exact ⟨q, hq, rfl⟩
    | none =>
      obtain ⟨hne, hrem, hbuf, f, hc⟩ := gotMask_none v _ b0 _ p1 hg
      have hl : payload.length = p1.remPred + 1 := by omega
      refine ⟨p1, by simp [hc], ?_⟩
      simp only [PRun.push]
      rw [pRun_bite v p1 payload rest hl]
      cases hbite : biteBytes v p1 payload with
      | error x => rfl
      | ok r2 =>
        obtain ⟨p2, o2⟩ := r2
        cases o2 with
        | none => exact (bite_payload_some v p1 p2 payload f hc hl hbite).elim
        | some o2 => rfl


/-! ### `frameStep` in closed form -/

/-- the frame object `parse()` builds from the first byte of an unmasked frame -/
def hdrFrame (b0 : Nat) : Frame :=
  { opcode := b0 % 16, payload := [], fin := b0 / 128, rsv1 := b0 / 64 % 2,
    rsv2 := b0 / 32 % 2, rsv3 := b0 / 16 % 2, mask := false, maskingKey := none }

/-- "the payload of this message is not validated incrementally" -/
def noValidate (v : Variant) (p : PState) : Prop :=
  if v.perMsgValidate then p.compression ∧ p.isCompressed else p.compression

instance (v : Variant) (p : PState) : Decidable (noValidate v p) :=
  inferInstanceAs (Decidable (if v.perMsgValidate then p.compression ∧ p.isCompressed else p.compression))

/-- parser state once the header of a frame has been accepted (`_is_text` bookkeeping) -/
def afterHdr (p : PState) (f : Frame) : PState :=
  if f.isText then { p with isText := true, isCompressed := f.rsv1 ≠ 0 } else p

/-- is the payload read with `read_utf8` -/
def valFlag (v : Variant) (p1 : PState) (f : Frame) : Bool :=
  (f.isText ∨ (f.isContinuation ∧ p1.isText)) ∧ ¬ noValidate v p1

/-- parser state after `on_frame` -/
def doneState (v : Variant) (p : PState) (f : Frame) : PState :=
  { p with cont := .hdr2, remPred := 1, utf8 := false, buf := [],
           dfa := if ¬ noValidate v p ∧ f.fin ≠ 0 ∧ (f.isText ∨ f.isContinuation) then 0 else p.dfa,
           isText := if f.fin ≠ 0 ∧ (¬ v.keepIsText ∨ ¬ f.isControl) then false else p.isText }

theorem frameDone_unmasked (v : Variant) (p : PState) (f : Frame) (h : f.mask = false) :
    frameDone v p f = .ok (doneState v p f, some (.frame f)) := by
  unfold frameDone
  simp only [h, Bool.false_eq_true, if_false]
  rfl

/-- parser state while the payload is awaited -/
def payloadState (v : Variant) (p1 : PState) (f : Frame) (len : Nat) : PState :=
  { p1 with cont := .payload f, remPred := len - 1, utf8 := valFlag v p1 f, buf := [] }

theorem gotMask_eq (v : Variant) (p : PState) (b0 len : Nat) :
    gotMask v p b0 len none =
      match validateFrame v p.compression (hdrFrame b0) len with
      | .error x => .error x
      | .ok () =>
        if len ≠ 0 then
          .ok (payloadState v (afterHdr p (hdrFrame b0)) (hdrFrame b0) len, none)
        else frameDone v (afterHdr p (hdrFrame b0)) (hdrFrame b0) := by
  unfold gotMask
  rfl

theorem afterHdr_dfa (p : PState) (f : Frame) : (afterHdr p f).dfa = p.dfa := by
  unfold afterHdr; split <;> rfl

theorem doneState_congr (v : Variant) (p q : PState) (f : Frame)
    (h1 : q.dfa = p.dfa) (h2 : q.isText = p.isText) (h3 : q.compression = p.compression)
    (h4 : q.isCompressed = p.isCompressed) : doneState v q f = doneState v p f := by
  cases p; cases q
  simp only at h1 h2 h3 h4
  subst h1 h2 h3 h4
  rfl

theorem frameStep_eq (v : Variant) (p : PState) (b0 : Nat) (payload : Bytes)
    (hv : validateFrame v p.compression (hdrFrame b0) payload.length = .ok ()) :
    frameStep v p b0 payload =
      match vres (payload ≠ [] ∧ valFlag v (afterHdr p.resumed (hdrFrame b0)) (hdrFrame b0)) p.dfa payload with
      | none => .error (.parse "invalid utf8")
      | some d =>
        .ok (doneState v { afterHdr p.resumed (hdrFrame b0) with dfa := d } { hdrFrame b0 with payload := payload },
             .frame { hdrFrame b0 with payload := payload }) := by
  unfold frameStep
  rw [gotMask_eq]
  have hv' : validateFrame v p.resumed.compression (hdrFrame b0) payload.length = .ok () := hv
  rw [hv']
  simp only []
  have hAd : (afterHdr p.resumed (hdrFrame b0)).dfa = p.dfa := afterHdr_dfa _ _
  generalize afterHdr p.resumed (hdrFrame b0) = A at hAd ⊢
  generalize hF : hdrFrame b0 = F
  have hFm : F.mask = false := by rw [← hF]; rfl
  by_cases hlen : payload.length = 0
  · have hp : payload = [] := List.eq_nil_of_length_eq_zero hlen
    subst hp
    have hFp : F.payload = [] := by rw [← hF]; rfl
    simp only [List.length_nil, ne_eq, not_true_eq_false, if_false, false_and, decide_false, vres,
      Bool.false_eq_true]
    rw [frameDone_unmasked _ _ F hFm]
    simp only []
    have e1 : ({ F with payload := [] } : Frame) = F := by cases F; simp_all
    have e2 : ({ A with dfa := p.dfa } : PState) = A := by cases A; simp_all
    rw [e1, e2]
  · have hp : payload ≠ [] := by intro h; subst h; exact hlen rfl
    simp only [hlen, ne_eq, not_false_eq_true, if_true]
    rw [biteBytes_eq]
    have e1 : (payloadState v A F payload.length).utf8 = valFlag v A F := rfl
    have e2 : (payloadState v A F payload.length).dfa = p.dfa := hAd
    have e3 : (payloadState v A F payload.length).remPred + 1 = payload.length := by
      show payload.length - 1 + 1 = payload.length
      omega
    have e4 : (payloadState v A F payload.length).buf = [] := rfl
    have e5 : decide (¬ payload = [] ∧ valFlag v A F = true) = valFlag v A F := by
      simp [hp]
    rw [e1, e2, e3, e4, e5]
    cases vres (valFlag v A F) p.dfa payload with
    | none => rfl
    | some d =>
      simp only [Nat.lt_irrefl, if_false, List.nil_append]
      unfold resume
      simp only [payloadState]
      rw [frameDone_unmasked _ _ { F with payload := payload } hFm]
      simp only []
      have := doneState_congr v { A with dfa := d }
        { A with cont := .payload F, remPred := 0, utf8 := false, buf := [], dfa := d }
        { F with payload := payload } rfl rfl rfl rfl
      exact congrArg (fun st => Except.ok (st, Out.frame { F with payload := payload })) this

end Lomond.Core
