/-
  Helper lemmas for the socket's timeout mode in the composed connection (`ConnectLink.attempt`,
  `Inputs.blockBeforeTunnel`; property theorems in `Properties/C19_Timeout.lean`):

  * `readLoop_timeout_iff`, `readLoop_timeout_log`   when the read loop of `_connect_proxy` reports `timeout`, and what
                                                     its log then looks like (data reads, then the silent read);
  * `SilentProxy`, `silentRead_iff`                  `silentRead` in terms of the inputs only;
  * `connectLog_silent`                              the connection-phase log up to the silent read;
  * `attempt_pinned`, `attempt_hung_iff`, `attempt_hung_shape`   the two outcomes of `attempt`.
-/
import Lomond.Proofs.ConnectLink
set_option linter.unusedSimpArgs false
set_option linter.unusedVariables false
namespace Lomond.ConnectLink
open Lomond Lomond.Http Lomond.Core Lomond.Core.Monitor Lomond.Proxy

/-! ### the read loop and a silent proxy -/

/-- the read loop reports `timeout` exactly when the script's first stop is a silent read (a `timeout` step or its
    end) and what was delivered before it is not yet a complete answer (and not too long) -/
theorem readLoop_timeout_iff (reads : List ReadOutcome) :
    (readLoop reads []).2 = .error .timeout ↔ (stopKind reads = .timeout ∧ verdict (rxStop reads) = .incomplete) := by
  rw [readLoop_result reads [] findSep_nil_proxySep (Nat.zero_le _)]
  simp only [List.nil_append]
  cases hv : verdict (rxStop reads) <;> simp [resultOf]

/-- … and then its log is: reads that delivered data, and last the read to which nothing ever answers -/
theorem readLoop_timeout_log : ∀ (reads : List ReadOutcome) (buf : Bytes),
    (readLoop reads buf).2 = .error .timeout →
    ∃ pre, (readLoop reads buf).1 = pre ++ [.read .timeout] ∧ ∀ x ∈ pre, ∃ d, x = Io.read (.data d)
  | [], buf, _ => ⟨[], by simp [readLoop], by simp⟩
  | .timeout :: _, buf, _ => ⟨[], by simp [readLoop], by simp⟩
  | .err :: _, buf, h => by simp [readLoop] at h
  | .data d :: rest, buf, h => by
    unfold readLoop at h ⊢
    by_cases hd : d = []
    · simp [hd] at h
    · simp only [hd, if_false] at h ⊢
      cases hf : findSep Gen.proxySep (buf ++ d) with
      | none =>
        simp only [hf] at h ⊢
        by_cases hlen : (buf ++ d).length > Gen.proxyMax
        · rw [if_pos hlen] at h; simp at h
        · rw [if_neg hlen] at h ⊢
          obtain ⟨pre, e, hp⟩ := readLoop_timeout_log rest (buf ++ d) h
          refine ⟨.read (.data d) :: pre, by simp [e], fun x hx => ?_⟩
          rcases List.mem_cons.mp hx with rfl | hx
          · exact ⟨d, rfl⟩
          · exact hp x hx
      | some k =>
        simp only [hf] at h
        by_cases h1 : k + Gen.proxySep.length > Gen.proxyMax
        · simp [h1] at h
        · by_cases h2 : statusOf ((buf ++ d).take (k + Gen.proxySep.length)) = some (false, 200)
          · simp [h1, h2] at h
          · simp [h1, h2] at h

/-! ### `silentRead` in terms of the inputs -/

/-- **A silent proxy**: everything up to the reads goes well — the proxy URL is usable, the target has a host,
    `_connect_sock` connects to the proxy, the CONNECT request is written — and then the proxy delivers at most
    the beginning of an answer (no complete header block, not over the size limit) and says nothing more: the
    read script's first stop is a `timeout` step or its end (not EOF, not a socket error). -/
structure SilentProxy (i : Inputs) (purl : Str) : Prop where
  url : ∃ u p, parseUrl purl = some u ∧ u.port = some p
  host : i.ws.target.host ≠ none
  connect : sockOk i = true
  sent : i.writeFails 0 = false
  silent : stopKind i.reads = .timeout
  incomplete : verdict (rxStop i.reads) = .incomplete

/-- `_connect_proxy` fails with `timeout` exactly for a silent proxy; the log is then the connection to the proxy,
    the CONNECT request, reads that delivered data, and the silent read -/
theorem connectProxy_timeout (i : Inputs) (purl : Str) :
    ((connectProxy i.ws (proxyEnv i) purl).2 = .error .timeout ↔ SilentProxy i purl) ∧
    ((connectProxy i.ws (proxyEnv i) purl).2 = .error .timeout →
      ∃ u p req pre, parseUrl purl = some u ∧ u.port = some p ∧ connectRequestOf i.ws purl = some req ∧
        (connectProxy i.ws (proxyEnv i) purl).1 = [proxyAddr u p, .write false req true] ++ pre ++ [.read .timeout] ∧
        ∀ x ∈ pre, ∃ d, x = Io.read (.data d)) := by
  have hs := connectProxy_shape i.ws (proxyEnv i) purl
  have hco : (proxyEnv i).connectOk = sockOk i := rfl
  have hrd : (proxyEnv i).reads = i.reads := rfl
  have hwf : (proxyEnv i).writeFails = i.writeFails := rfl
  generalize connectProxy i.ws (proxyEnv i) purl = r at hs
  cases hs with
  | badUrl hu =>
    refine ⟨⟨fun h => (by cases h), fun h => ?_⟩, fun h => (by cases h)⟩
    obtain ⟨u, p, h1, _⟩ := h.url; rw [hu] at h1; cases h1
  | badPort u hu hp =>
    refine ⟨⟨fun h => (by cases h), fun h => ?_⟩, fun h => (by cases h)⟩
    obtain ⟨u', p, h1, h2⟩ := h.url; rw [hu] at h1; cases h1; rw [hp] at h2; cases h2
  | noConnect u p hu hp hconn =>
    refine ⟨⟨fun h => (by cases h), fun h => ?_⟩, fun h => (by cases h)⟩
    have := h.connect; rw [← hco, hconn] at this; cases this
  | noHost u p hu hp hconn hh =>
    exact ⟨⟨fun h => (by cases h), fun h => absurd hh h.host⟩, fun h => (by cases h)⟩
  | writeErr u p req hu hp hconn hreq hw =>
    refine ⟨⟨fun h => (by cases h), fun h => ?_⟩, fun h => (by cases h)⟩
    have := h.sent; rw [← hwf, hw] at this; cases this
  | readFail u p req k hu hp hconn hreq hw hl =>
    rw [hrd] at hl
    refine ⟨⟨fun h => ?_, fun h => ?_⟩, fun h => ?_⟩
    · have hk : k = .timeout := by cases h; rfl
      subst hk
      obtain ⟨h1, h2⟩ := (readLoop_timeout_iff i.reads).mp hl
      refine ⟨⟨u, p, hu, hp⟩, ?_, hco ▸ hconn, hwf ▸ hw, h1, h2⟩
      intro hh
      simp [connectRequestOf, hu, hh, buildConnect] at hreq
    · have := (readLoop_timeout_iff i.reads).mpr ⟨h.silent, h.incomplete⟩
      rw [this] at hl; cases hl; rfl
    · have hk : k = .timeout := by cases h; rfl
      subst hk
      obtain ⟨pre, e, hpre⟩ := readLoop_timeout_log i.reads [] hl
      refine ⟨u, p, req, pre, hu, hp, hreq, ?_, hpre⟩
      show [proxyAddr u p, Io.write false req true] ++ (readLoop i.reads []).1 = _
      rw [e, List.append_assoc]
  | wrapFail u p req hu hp hconn hreq hw hl hs hwr =>
    refine ⟨⟨fun h => (by cases h), fun h => ?_⟩, fun h => (by cases h)⟩
    rw [hrd] at hl
    have := (readLoop_timeout_iff i.reads).mpr ⟨h.silent, h.incomplete⟩
    rw [this] at hl; cases hl
  | up u p req hu hp hconn hreq hw hl htls =>
    refine ⟨⟨fun h => (by cases h), fun h => ?_⟩, fun h => (by cases h)⟩
    rw [hrd] at hl
    have := (readLoop_timeout_iff i.reads).mpr ⟨h.silent, h.incomplete⟩
    rw [this] at hl; cases hl

theorem silentRead_iff_timeout (i : Inputs) :
    silentRead i = true ↔ ∃ purl, proxyChoice i.ws = some purl ∧ (connectProxy i.ws (proxyEnv i) purl).2 = .error .timeout := by
  unfold silentRead
  cases hc : proxyChoice i.ws with
  | none => simp
  | some purl =>
    simp only [Option.some.injEq, exists_eq_left']
    cases hr : (connectProxy i.ws (proxyEnv i) purl).2 with
    | ok v => simp
    | error k => cases k <;> simp

/-- `silentRead` says: a proxy is chosen and it is a silent proxy -/
theorem silentRead_iff (i : Inputs) :
    silentRead i = true ↔ ∃ purl, proxyChoice i.ws = some purl ∧ SilentProxy i purl := by
  rw [silentRead_iff_timeout]
  constructor
  · rintro ⟨purl, hc, h⟩; exact ⟨purl, hc, (connectProxy_timeout i purl).1.mp h⟩
  · rintro ⟨purl, hc, h⟩; exact ⟨purl, hc, (connectProxy_timeout i purl).1.mpr h⟩

/-- with a silent proxy `_connect()` does not return a socket: in the pinned order it raises (`socket.timeout`, caught
    by `except Exception` in `run()`), and the Proxy model's failure kind is `timeout` -/
theorem silent_not_connects (i : Inputs) (h : silentRead i = true) :
    ¬ Connects i ∧ connectResult i = .otherFail ∧ failKind i = .timeout := by
  obtain ⟨purl, hc, ht⟩ := (silentRead_iff_timeout i).mp h
  have hr : connectResult i = .otherFail := by unfold connectResult; rw [hc]; simp only [ht]
  refine ⟨fun ⟨q, hq⟩ => ?_, hr, ?_⟩
  · rw [hr] at hq; cases hq
  · unfold failKind; rw [hc]; simp only [ht]

/-- the connection-phase log of a silent proxy: connect to the proxy, the CONNECT request, reads that delivered data,
    the silent read -/
theorem connectLog_silent (i : Inputs) (h : silentRead i = true) :
    ∃ purl u p req pre, proxyChoice i.ws = some purl ∧ parseUrl purl = some u ∧ u.port = some p ∧
      connectRequestOf i.ws purl = some req ∧
      connectLog i = [proxyAddr u p, .write false req true] ++ pre ++ [.read .timeout] ∧
      (∀ x ∈ pre, ∃ d, x = Io.read (.data d)) := by
  obtain ⟨purl, hc, ht⟩ := (silentRead_iff_timeout i).mp h
  obtain ⟨u, p, req, pre, hu, hp, hreq, hlog, hpre⟩ := (connectProxy_timeout i purl).2 ht
  exact ⟨purl, u, p, req, pre, hc, hu, hp, hreq, by rw [connectLog_proxy i purl hc, hlog], hpre⟩

/-- an action in the connection-phase projection of a trace is an item of the trace -/
theorem mem_ioLog {x : Proxy.Io} : ∀ {l : List Item}, x ∈ ioLog l → Item.io x ∈ l
  | [], h => by cases h
  | .io y :: r, h => by
    rcases List.mem_cons.mp (show x ∈ y :: ioLog r from h) with rfl | h'
    · exact List.mem_cons_self
    · exact List.mem_cons_of_mem _ (mem_ioLog h')
  | .core _ :: r, h => List.mem_cons_of_mem _ (mem_ioLog (show x ∈ ioLog r from h))
  | .sock _ :: r, h => List.mem_cons_of_mem _ (mem_ioLog (show x ∈ ioLog r from h))

/-- the events of a trace that consists of `Connecting`, results of application calls and connection-phase items -/
theorem evs_connecting_phase (i : Inputs) (c0 : List Obs) (n0 : ∀ o ∈ c0, isRes o = true) (l : List Proxy.Io) :
    evs ((Obs.ev .connecting :: c0).map Item.core ++ l.flatMap (expand i)) = [.connecting] := by
  unfold evs
  rw [coreLog_append, coreLog_core, coreLog_flatMap_expand, List.append_nil]
  simp [List.filterMap_cons, event?_ev, events_res n0]

/-! ### the two outcomes of `attempt` -/

theorem hangs_iff (i : Inputs) : hangs i = true ↔ (i.blockBeforeTunnel = true ∧ silentRead i = true) := by
  unfold hangs negotiationTimeout
  cases i.blockBeforeTunnel <;> simp

/-- in the pinned order no attempt hangs: `attempt` is the composed trace -/
theorem attempt_pinned (base : Core.Cfg) (i : Inputs) (react : React) (env : List EnvStep)
    (h : i.blockBeforeTunnel = false) : attempt base i react env = .ended (composed base i react env) := by
  have hh : hangs i = false := by
    cases hx : hangs i with
    | false => rfl
    | true => rw [((hangs_iff i).mp hx).1] at h; cases h
  unfold attempt
  rw [hh]
  split <;> simp

/-- … and so does every attempt whose proxy is not silent (or that uses no proxy) -/
theorem attempt_not_silent (base : Core.Cfg) (i : Inputs) (react : React) (env : List EnvStep)
    (h : silentRead i = false) : attempt base i react env = .ended (composed base i react env) := by
  have hh : hangs i = false := by
    cases hx : hangs i with
    | false => rfl
    | true => rw [((hangs_iff i).mp hx).2] at h; cases h
  unfold attempt
  rw [hh]
  split <;> simp

/-- the application keeps iterating at `Connecting` (so that `_connect()` is called) iff it does not abandon there -/
theorem yieldConnecting_cases (cfg : Core.Cfg) (react : React) (env : List EnvStep) :
    (StopsAtConnecting react ∧ ∃ x s1, yieldEv .connecting (initSys cfg react env) = .err x s1) ∨
    (¬ StopsAtConnecting react ∧ ∃ s1 c0, yieldEv .connecting (initSys cfg react env) = .ok () s1 ∧
      s1.trace.reverse = Obs.ev .connecting :: c0 ∧ ∀ o ∈ c0, isRes o = true) := by
  have hinit : (initSys cfg react env).sockOpen = false := rfl
  obtain ⟨_, _, l0, e0, n0⟩ := yieldEv_shut .connecting (initSys cfg react env) hinit
  cases hy : yieldEv .connecting (initSys cfg react env) with
  | err x s1 =>
    refine Or.inl ⟨?_, x, s1, rfl⟩
    rw [yieldEv_eq] at hy
    exact (raises_doActs _ hy).2
  | ok u s1 =>
    refine Or.inr ⟨?_, s1, l0.reverse, rfl, ?_, mem_reverse_res n0⟩
    · rintro ⟨w, hw⟩
      rw [yieldEv_eq] at hy
      exact doActs_ok_no_abandon _ hy w hw
    · rw [hy] at e0
      simp only [Res.state_ok] at e0
      rw [e0]
      show (l0 ++ Obs.ev .connecting :: []).reverse = _
      rw [List.reverse_append]; rfl

/-- **When does an attempt hang?**  Exactly when the socket is put into blocking mode before the negotiation, the
    proxy is silent, and the application does not stop at `Connecting` (then `_connect()` is never called). -/
theorem attempt_hung_iff (base : Core.Cfg) (i : Inputs) (react : React) (env : List EnvStep) :
    (∃ tr, attempt base i react env = .hung tr) ↔
      (i.blockBeforeTunnel = true ∧ silentRead i = true ∧ ¬ StopsAtConnecting react) := by
  unfold attempt
  rcases yieldConnecting_cases (coreCfg base i) react env with ⟨hs, x, s1, hy⟩ | ⟨hs, s1, c0, hy, _, _⟩
  · rw [show yieldEv .connecting { cfg := coreCfg base i, react := react, env := env } = .err x s1 from hy]
    simp only []
    exact ⟨fun ⟨tr, h⟩ => (by cases h), fun h => absurd hs h.2.2⟩
  · rw [show yieldEv .connecting { cfg := coreCfg base i, react := react, env := env } = .ok () s1 from hy]
    simp only []
    cases hh : hangs i with
    | false =>
      simp only [Bool.false_eq_true, if_false]
      refine ⟨fun ⟨tr, h⟩ => (by cases h), fun h => ?_⟩
      have := (hangs_iff i).mpr ⟨h.1, h.2.1⟩
      rw [hh] at this; cases this
    | true =>
      simp only [if_true]
      obtain ⟨h1, h2⟩ := (hangs_iff i).mp hh
      exact ⟨fun _ => ⟨h1, h2, hs⟩, fun _ => ⟨_, rfl⟩⟩

/-- the trace of a hung attempt: `Connecting`, results of what the application called there, the connect to the proxy
    (with the address loop's socket calls), the CONNECT request, reads that delivered data — and that is all -/
theorem attempt_hung_shape (base : Core.Cfg) (i : Inputs) (react : React) (env : List EnvStep)
    (hb : i.blockBeforeTunnel = true) (hsil : silentRead i = true) (hns : ¬ StopsAtConnecting react) :
    ∃ c0 purl u p req pre, (∀ o ∈ c0, isRes o = true) ∧
      proxyChoice i.ws = some purl ∧ parseUrl purl = some u ∧ u.port = some p ∧
      connectRequestOf i.ws purl = some req ∧ (∀ x ∈ pre, ∃ d, x = Io.read (.data d)) ∧
      connectLog i = [proxyAddr u p, .write false req true] ++ pre ++ [.read .timeout] ∧
      attempt base i react env =
        .hung ((Obs.ev .connecting :: c0).map .core ++ ([proxyAddr u p, .write false req true] ++ pre).flatMap (expand i)) := by
  obtain ⟨purl, u, p, req, pre, hc, hu, hp, hreq, hlog, hpre⟩ := connectLog_silent i hsil
  rcases yieldConnecting_cases (coreCfg base i) react env with ⟨hs, _⟩ | ⟨_, s1, c0, hy, e0, n0⟩
  · exact absurd hs hns
  · refine ⟨c0, purl, u, p, req, pre, n0, hc, hu, hp, hreq, hpre, hlog, ?_⟩
    unfold attempt
    rw [show yieldEv .connecting { cfg := coreCfg base i, react := react, env := env } = .ok () s1 from hy]
    simp only []
    rw [(hangs_iff i).mpr ⟨hb, hsil⟩, if_pos rfl, e0, hlog, List.dropLast_concat]

end Lomond.ConnectLink
