/-
  C01, consumer side: total-correctness framework (`Tot`): with an application that never
  closes / abandons and with no timeout pending, every layer below `onFrame` terminates normally,
  leaves parser, fragment list and closing state alone, and appends to the trace exactly the
  events it is supposed to yield (apart from housekeeping `Poll`s).
-/
import Lomond.Proofs.DeliveryKeep
import Lomond.Proofs.Release
set_option linter.unusedSimpArgs false
set_option linter.unusedVariables false
namespace Lomond.Core
open Lomond

/-- application calls that neither close the websocket nor abandon the event loop -/
def harmless : Act → Bool
  | .sendText _ _ => true
  | .sendBinary _ _ => true
  | .sendPing _ => true
  | .sendPong _ => true
  | .sessionClose => true
  | .close _ _ => false
  | .abandon _ => false

/-- the application may send whatever it likes (and even drop the socket) in reaction to any
    event history, but never calls `close()` and never stops iterating -/
def QuietApp (r : React) : Prop := ∀ hist, ∀ a ∈ r hist, harmless a = true

/-- neither the ping timeout nor the close timeout is due (time does not advance inside `feed`) -/
def NoTimeout (s : Sys) : Prop :=
  (s.cfg.pingTimeout = 0 ∨ sessionTime s - s.lastPong ≤ s.cfg.pingTimeout) ∧
  (s.cfg.closeTimeout = 0 ∨ ∀ ct, s.sentCloseTime = some ct → sessionTime s < ct + s.cfg.closeTimeout)

structure Good (s : Sys) : Prop where
  quiet : QuietApp s.react
  nt : NoTimeout s

/-- the events of a trace (newest first) other than housekeeping `Poll`s -/
def delivered (tr : List Obs) : List Event :=
  tr.filterMap (fun o => match o with
    | .ev e => if e = .poll then none else some e
    | _ => none)

/-- what a well-behaved step does to the state: `es` are the events it yields (newest first) -/
structure Calm (es : List Event) (s s' : Sys) : Prop where
  cfg : s'.cfg = s.cfg
  react : s'.react = s.react
  p : s'.p = s.p
  frames : s'.frames = s.frames
  closed : s'.closed = s.closed
  closing : s'.closing = s.closing
  nt : NoTimeout s → NoTimeout s'
  evs : delivered s'.trace = es ++ delivered s.trace

theorem Calm.refl (s : Sys) : Calm [] s s := ⟨rfl, rfl, rfl, rfl, rfl, rfl, id, rfl⟩

theorem Calm.trans {e1 e2 : List Event} {a b c : Sys} (h1 : Calm e1 a b) (h2 : Calm e2 b c) :
    Calm (e2 ++ e1) a c :=
  ⟨h2.cfg.trans h1.cfg, h2.react.trans h1.react, h2.p.trans h1.p, h2.frames.trans h1.frames,
   h2.closed.trans h1.closed, h2.closing.trans h1.closing, fun h => h2.nt (h1.nt h),
   by rw [h2.evs, h1.evs, List.append_assoc]⟩

theorem Calm.good {es : List Event} {s s' : Sys} (h : Calm es s s') (g : Good s) : Good s' :=
  ⟨by rw [h.react]; exact g.quiet, h.nt g.nt⟩

/-- from every good state `m` returns normally and is `Calm es` -/
def Tot (es : List Event) (m : M α) : Prop :=
  ∀ s, Good s → ∃ a s', m s = .ok a s' ∧ Calm es s s'

theorem tot_pure (a : α) : Tot [] (pure a : M α) := fun s _ => ⟨a, s, rfl, Calm.refl s⟩

theorem tot_bind {e1 e2 : List Event} {m : M α} {f : α → M β} (hm : Tot e1 m) (hf : ∀ a, Tot e2 (f a)) :
    Tot (e2 ++ e1) (m >>= f) := by
  intro s g
  obtain ⟨a, s1, h1, c1⟩ := hm s g
  obtain ⟨b, s2, h2, c2⟩ := hf a s1 (c1.good g)
  exact ⟨b, s2, by rw [bind_ok h1]; exact h2, c1.trans c2⟩

theorem tot_bind0 {es : List Event} {m : M α} {f : α → M β} (hm : Tot [] m) (hf : ∀ a, Tot es (f a)) :
    Tot es (m >>= f) := by
  have := tot_bind hm hf
  simpa using this

theorem tot_bindr {es : List Event} {m : M α} {f : α → M β} (hm : Tot es m) (hf : ∀ a, Tot [] (f a)) :
    Tot es (m >>= f) := by
  have := tot_bind hm hf
  simpa using this

theorem tot_getS_bind {es : List Event} {f : Sys → M β}
    (h : ∀ s, Good s → ∃ a s', f s s = .ok a s' ∧ Calm es s s') : Tot es (getS >>= f) := by
  intro s g
  obtain ⟨a, s', h1, c⟩ := h s g
  exact ⟨a, s', by rw [bind_ok (show getS s = .ok s s from rfl)]; exact h1, c⟩

theorem tot_modS {f : Sys → Sys} {es : List Event} (h : ∀ s, Calm es s (f s)) : Tot es (modS f) :=
  fun s _ => ⟨(), f s, rfl, h s⟩

theorem tot_tryC {es : List Event} {m : M α} {hd : Exn → M α} (hm : Tot es m) : Tot es (tryC m hd) := by
  intro s g
  obtain ⟨a, s1, h1, c1⟩ := hm s g
  exact ⟨a, s1, tryC_ok h1, c1⟩

/-- leaf: an explicit final state that differs from `s` in bookkeeping fields and non-event
    trace entries only -/
macro "calm_leaf" : tactic =>
  `(tactic| first
      | exact Calm.refl _
      | exact ⟨rfl, rfl, rfl, rfl, rfl, rfl, id, rfl⟩)

theorem tot_closeSocket : Tot [] closeSocket := by
  intro s _; unfold closeSocket
  split
  · exact ⟨_, _, rfl, by calm_leaf⟩
  · exact ⟨_, _, rfl, by calm_leaf⟩

theorem tot_write (d : Bytes) (z : Option (Nat × Bytes)) : Tot [] (write d z) := by
  intro s _; unfold write
  splits
  all_goals exact ⟨_, _, rfl, by calm_leaf⟩


theorem tot_sendFrame (op : Nat) (pl : Bytes) (c : Option Bytes) : Tot [] (sendFrame op pl c) := by
  intro s g; unfold sendFrame
  simp only
  have gk : Good { s with keyCtr := s.keyCtr + 1 } := ⟨g.quiet, g.nt⟩
  have ck : Calm [] s { s with keyCtr := s.keyCtr + 1 } := by calm_leaf
  splits
  · obtain ⟨a, s', h, c'⟩ := tot_write _ none _ gk
    exact ⟨a, s', h, by simpa using ck.trans c'⟩
  · exact ⟨_, _, rfl, ck⟩
  · obtain ⟨a, s', h, c'⟩ := tot_write [] (some (op, _)) _ gk
    exact ⟨a, s', h, by simpa using ck.trans c'⟩

theorem tot_sendData (op : Nat) (pl : Bytes) (c : Bool) : Tot [] (sendData op pl c) := by
  intro s g; unfold sendData; split <;> exact tot_sendFrame _ _ _ s g

theorem tot_log_res (r : ActRes) : Tot [] (log (.res r)) := by
  unfold log; exact tot_modS (fun s => by calm_leaf)

theorem tot_logRes {m : M ActRes} (h : Tot [] m) : Tot [] (logRes m) := by
  unfold logRes
  exact tot_bind0 h (fun r => tot_log_res r)

theorem tot_doAct (a : Act) (ha : harmless a = true) : Tot [] (doAct a) := by
  unfold doAct
  split
  all_goals first
    | (apply tot_logRes; first
        | exact tot_pure _
        | exact tot_sendData _ _ _
        | exact tot_sendFrame _ _ _
        | (split <;> first | exact tot_pure _ | exact tot_sendData _ _ _ | exact tot_sendFrame _ _ _)
        | exact tot_bind0 tot_closeSocket (fun _ => tot_pure _))
    | (simp [harmless] at ha)

theorem tot_doActs (as : List Act) (h : ∀ a ∈ as, harmless a = true) : Tot [] (doActs as) := by
  induction as with
  | nil => exact tot_pure ()
  | cons a r ih =>
    unfold doActs
    exact tot_bind0 (tot_doAct a (h a (by simp))) (fun _ => ih (fun b hb => h b (by simp [hb])))

/-- the events a `yield` contributes to `delivered` -/
def evOf (e : Event) : List Event := if e = .poll then [] else [e]

theorem tot_yieldEv (e : Event) : Tot (evOf e) (yieldEv e) := by
  unfold yieldEv
  have h1 : Tot (evOf e) (modS fun s => { s with trace := .ev e :: s.trace, hist := e :: s.hist }) := by
    apply tot_modS
    intro s
    refine ⟨rfl, rfl, rfl, rfl, rfl, rfl, id, ?_⟩
    unfold evOf delivered
    by_cases he : e = .poll <;> simp [he]
  refine tot_bindr h1 (fun _ => ?_)
  apply tot_getS_bind
  intro s g
  exact tot_doActs _ (g.quiet s.hist) s g


theorem evOf_poll : evOf .poll = [] := rfl

/-- `Tot` at one state -/
def TotAt (es : List Event) (m : M α) (s : Sys) : Prop :=
  Good s → ∃ a s', m s = .ok a s' ∧ Calm es s s'

theorem Tot.at {es : List Event} {m : M α} (h : Tot es m) (s : Sys) : TotAt es m s := h s

theorem tot_getS {es : List Event} {f : Sys → M β} (h : ∀ s, TotAt es (f s) s) : Tot es (getS >>= f) :=
  tot_getS_bind h

theorem tot_checkPoll : Tot [] checkPoll := by
  unfold checkPoll
  apply tot_getS
  intro s
  simp only []
  have h1 : Tot [] (modS fun s' : Sys => { s' with pollStart := some (sessionTime s) }) :=
    tot_modS (fun s' => by calm_leaf)
  have h2 : Tot [] (yieldEv .poll) := tot_yieldEv .poll
  splits
  all_goals first
    | exact (tot_bind0 h1 (fun _ => h2)).at s
    | exact (tot_pure ()).at s

theorem tot_checkAutoPing : Tot [] checkAutoPing := by
  unfold checkAutoPing
  apply tot_getS
  intro s
  simp only []
  split
  · have h1 : Tot [] (modS fun s' : Sys =>
        { s' with nextPing := ceilDiv (sessionTime s) s'.cfg.pingRate * s'.cfg.pingRate }) :=
      tot_modS (fun s' => by calm_leaf)
    exact (tot_bind0 h1 (fun _ => tot_bind0 (tot_sendFrame _ _ _) (fun _ => tot_pure ()))).at s
  · exact (tot_pure ()).at s

theorem tot_checkPingTimeout : Tot [] checkPingTimeout := by
  unfold checkPingTimeout
  apply tot_getS
  intro s g
  have : ¬ (s.cfg.pingTimeout ≠ 0 ∧ sessionTime s - s.lastPong > s.cfg.pingTimeout) := by
    rcases g.nt.1 with h | h <;> omega
  simp only [this, if_false]
  exact tot_pure () s g

theorem tot_checkCloseTimeout : Tot [] checkCloseTimeout := by
  unfold checkCloseTimeout
  apply tot_getS
  intro s
  simp only []
  split
  · rename_i hct
    split
    · exact (tot_pure ()).at s
    · rename_i ct hs
      intro g
      have : ¬ sessionTime s ≥ ct + s.cfg.closeTimeout := by
        rcases g.nt.2 with h | h
        · exact (hct h).elim
        · have := h ct hs; omega
      simp only [this, if_false]
      exact tot_pure () s g
  · exact (tot_pure ()).at s

theorem tot_regular : Tot [] regular := by
  unfold regular
  apply tot_getS
  intro s
  split
  · exact (tot_bind0 tot_checkPoll (fun _ => tot_bind0 tot_checkAutoPing
      (fun _ => tot_bind0 tot_checkPingTimeout (fun _ => tot_checkCloseTimeout)))).at s
  · exact (tot_pure ()).at s


/-- the events a data / control message turns into (a Ping is answered inside `_on_event`, which
    needs its payload to fit a control frame) -/
def Deliverable (e : Event) : Prop :=
  match e with
  | .text _ => True
  | .binary _ => True
  | .pong _ => True
  | .closing _ _ => True
  | .closed _ _ => True
  | .ping d => d.length ≤ 125
  | _ => False

theorem tot_onEvent (e : Event) (h : Deliverable e) : Tot [] (onEvent e) := by
  intro s g
  unfold onEvent
  split
  · exact h.elim
  · rename_i data
    split
    · have hl : ¬ data.length > 125 := by have : data.length ≤ 125 := h; omega
      simp only [hl, if_false]
      obtain ⟨a, s', h1, c⟩ := tot_sendFrame Gen.opPong data none s g
      rw [h1]
      exact ⟨_, _, rfl, c⟩
    · exact ⟨_, _, rfl, Calm.refl s⟩
  · refine ⟨_, _, rfl, rfl, rfl, rfl, rfl, rfl, rfl, ?_, rfl⟩
    intro hn
    refine ⟨?_, hn.2⟩
    right
    show sessionTime s - sessionTime s ≤ s.cfg.pingTimeout
    omega
  · exact ⟨_, _, rfl, Calm.refl s⟩

theorem evOf_deliverable (e : Event) (h : Deliverable e) : evOf e = [e] := by
  unfold evOf
  have : e ≠ .poll := by intro he; subst he; exact h
  simp [this]

/-- **one message reaches the application**: `_on_event`, the `yield`, the application's
    reaction and `_regular()` all return normally and exactly this event is appended -/
theorem tot_feedYield (b : Bool) (e : Event) (h : Deliverable e) : Tot [e] (feedYield b e) := by
  unfold feedYield
  apply tot_tryC
  have h2 : Tot [e] (yieldEv e) := by rw [← evOf_deliverable e h]; exact tot_yieldEv e
  exact tot_bind0 (tot_onEvent e h) (fun _ => tot_bindr h2 (fun _ => tot_regular))


/-! ### message level -/

/-- what handling a whole message guarantees (parser and fragment list are tracked separately) -/
structure Rel (es : List Event) (s s' : Sys) : Prop where
  cfg : s'.cfg = s.cfg
  react : s'.react = s.react
  closed : s'.closed = s.closed
  closing : s'.closing = s.closing
  nt : NoTimeout s → NoTimeout s'
  evs : delivered s'.trace = es ++ delivered s.trace

theorem Calm.rel {es : List Event} {s s' : Sys} (h : Calm es s s') : Rel es s s' :=
  ⟨h.cfg, h.react, h.closed, h.closing, h.nt, h.evs⟩

theorem Rel.refl (s : Sys) : Rel [] s s := ⟨rfl, rfl, rfl, rfl, id, rfl⟩

theorem Rel.trans {e1 e2 : List Event} {a b c : Sys} (h1 : Rel e1 a b) (h2 : Rel e2 b c) :
    Rel (e2 ++ e1) a c :=
  ⟨h2.cfg.trans h1.cfg, h2.react.trans h1.react, h2.closed.trans h1.closed, h2.closing.trans h1.closing,
   fun h => h2.nt (h1.nt h), by rw [h2.evs, h1.evs, List.append_assoc]⟩

theorem Rel.good {es : List Event} {s s' : Sys} (h : Rel es s s') (g : Good s) : Good s' :=
  ⟨by rw [h.react]; exact g.quiet, h.nt g.nt⟩

/-- `Message.build` of frames whose first one is not compressed: join, then decode by opcode -/
theorem buildMessage_plain (first : Frame) (rest : List Frame) (s : Sys) (h : first.rsv1 = 0) :
    buildMessage (first :: rest) s =
      liftE (msgOfPayload first.opcode ((first :: rest).map (·.payload)).flatten) s := by
  unfold buildMessage
  simp only []
  rw [bind_ok (show getS s = .ok s s from rfl)]
  have : ¬ (first.rsv1 ≠ 0 ∧ s.decompress = true) := by intro hc; exact hc.1 h
  simp only [this, if_false]
  rfl

theorem notClosed_eq (s : Sys) : notClosed s = .ok (!s.closed) s := rfl

/-- a Ping / Pong frame (any time, also between the fragments of a message) -/
theorem onOut_ctrl (f : Frame) (s : Sys) (g : Good s) (hc : s.closed = false) (h1 : f.rsv1 = 0)
    (hop : f.opcode = 9 ∨ f.opcode = 10) (hl : f.payload.length ≤ 125) :
    ∃ s', onOut (.frame f) s = .ok true s' ∧
      Calm [if f.opcode = 9 then .ping f.payload else .pong f.payload] s s' := by
  have hctl : f.isControl = true := by
    unfold Frame.isControl; rcases hop with h | h <;> simp [h]
  have hb : buildMessage [f] s =
      .ok (if f.opcode = 9 then .ping f.payload else .pong f.payload) s := by
    rw [buildMessage_plain f [] s h1]
    rcases hop with h | h <;>
      simp [h, msgOfPayload, liftE, Gen.opBinary, Gen.opText, Gen.opClose, Gen.opPing, Gen.opPong]
  have hm : ∃ s', onMessage (if f.opcode = 9 then Msg.ping f.payload else Msg.pong f.payload) s = .ok () s' ∧
      Calm [if f.opcode = 9 then .ping f.payload else .pong f.payload] s s' := by
    rcases hop with h | h
    · simp only [h, if_true]
      obtain ⟨_, s', e, c⟩ := tot_feedYield true (.ping f.payload) hl s g
      exact ⟨s', e, c⟩
    · have : ¬ f.opcode = 9 := by omega
      simp only [this, if_false]
      obtain ⟨_, s', e, c⟩ := tot_feedYield true (.pong f.payload) trivial s g
      exact ⟨s', e, c⟩
  obtain ⟨s', h2, c⟩ := hm
  refine ⟨s', ?_, c⟩
  show (do onFrame f; notClosed : M Bool) s = _
  have hf : onFrame f s = .ok () s' := by
    unfold onFrame
    simp only [hctl, if_true]
    rw [bind_ok hb]
    exact h2
  rw [bind_ok hf, notClosed_eq, c.closed, hc]
  rfl


/-- a data frame without FIN is appended to the fragment list; nothing else happens -/
theorem onOut_data_more (f : Frame) (s : Sys) (hc : s.closed = false) (hfin : f.fin = 0)
    (hctl : f.isControl = false) (hcont : f.isContinuation = true ↔ s.frames ≠ []) :
    onOut (.frame f) s = .ok true { s with frames := s.frames ++ [f] } := by
  show (do onFrame f; notClosed : M Bool) s = _
  have hf : onFrame f s = .ok () { s with frames := s.frames ++ [f] } := by
    unfold onFrame
    simp only [hctl, Bool.false_eq_true, if_false]
    unfold onDataFrame
    rw [bind_ok (show getS s = .ok s s from rfl)]
    have c1 : ¬ (f.isContinuation = true ∧ s.frames = []) := by
      intro h; exact (hcont.mp h.1) h.2
    have c2 : ¬ (¬ f.isContinuation = true ∧ s.frames ≠ []) := by
      intro h; exact h.1 (hcont.mpr h.2)
    simp only [c1, c2, if_false]
    rw [bind_ok (show modS (fun s => { s with frames := s.frames ++ [f] }) s
      = .ok () { s with frames := s.frames ++ [f] } from rfl)]
    simp only [hfin, ne_eq, not_true_eq_false, if_false]
    rfl
  rw [bind_ok hf, notClosed_eq]
  show Res.ok (!s.closed) _ = _
  rw [hc]
  rfl

/-- the FIN data frame completes the message: it is built from all fragments, handed to the
    application as one event, and the fragment list is emptied -/
theorem onOut_data_fin (f : Frame) (s : Sys) (g : Good s) (hc : s.closed = false) (hfin : f.fin ≠ 0)
    (hctl : f.isControl = false) (hcont : f.isContinuation = true ↔ s.frames ≠ [])
    (first : Frame) (tl : List Frame) (hfr : s.frames ++ [f] = first :: tl) (h1 : first.rsv1 = 0)
    (m : Msg) (hm : msgOfPayload first.opcode ((first :: tl).map (·.payload)).flatten = .ok m)
    (e : Event) (he : onMessage m = feedYield true e) (hd : Deliverable e) :
    ∃ s', onOut (.frame f) s = .ok true s' ∧ Rel [e] s s' ∧ s'.frames = [] := by
  have g0 : Good { s with frames := s.frames ++ [f] } := ⟨g.quiet, g.nt⟩
  obtain ⟨_, s1, h2, c⟩ := tot_feedYield true e hd _ g0
  refine ⟨{ s1 with frames := [] }, ?_, ⟨c.cfg, c.react, c.closed, c.closing, c.nt, c.evs⟩, rfl⟩
  show (do onFrame f; notClosed : M Bool) s = _
  have hf : onFrame f s = .ok () { s1 with frames := [] } := by
    unfold onFrame
    simp only [hctl, Bool.false_eq_true, if_false]
    unfold onDataFrame
    rw [bind_ok (show getS s = .ok s s from rfl)]
    have c1 : ¬ (f.isContinuation = true ∧ s.frames = []) := by
      intro h; exact (hcont.mp h.1) h.2
    have c2 : ¬ (¬ f.isContinuation = true ∧ s.frames ≠ []) := by
      intro h; exact h.1 (hcont.mpr h.2)
    simp only [c1, c2, if_false]
    rw [bind_ok (show modS (fun s => { s with frames := s.frames ++ [f] }) s
      = .ok () { s with frames := s.frames ++ [f] } from rfl)]
    simp only [hfin, ne_eq, not_false_eq_true, if_true]
    rw [bind_ok (show getS { s with frames := s.frames ++ [f] } = .ok _ _ from rfl)]
    have hb : buildMessage ({ s with frames := s.frames ++ [f] } : Sys).frames { s with frames := s.frames ++ [f] }
        = .ok m { s with frames := s.frames ++ [f] } := by
      show buildMessage (s.frames ++ [f]) _ = _
      rw [hfr, buildMessage_plain first tl _ h1, hm]
      rfl
    rw [bind_ok hb, he, bind_ok h2]
    rfl
  rw [bind_ok hf, notClosed_eq]
  show Res.ok (!s1.closed) _ = _
  have : s1.closed = false := by rw [c.closed]; exact hc
  rw [this]
  rfl

end Lomond.Core
