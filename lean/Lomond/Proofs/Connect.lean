/-
  Helper lemmas about the per-address connect loop (Model/Connect.lean).
-/
import Lomond.Model.Connect
set_option linter.unusedSimpArgs false
set_option linter.unusedVariables false
namespace Lomond.Connect

/-- index of the first address that connects -/
def firstOk : List AddrOutcome → Option Nat
  | [] => none
  | .ok :: _ => some 0
  | _ :: r => (firstOk r).map (· + 1)

/-- the addresses that are tried: up to and including the first that connects -/
def tried (addrs : List AddrOutcome) : Nat :=
  match firstOk addrs with
  | some k => k + 1
  | none => addrs.length

def Call.socketIdx? : Call → Option Nat
  | .socket i => some i
  | _ => none

theorem attempt_result (i : Nat) (addrs : List AddrOutcome) :
    (attempt i addrs).1 = (firstOk addrs).map (· + i) := by
  induction addrs generalizing i with
  | nil => rfl
  | cons a r ih =>
    cases a with
    | ok => simp [attempt, firstOk]
    | sockCreateFail =>
      simp only [attempt, firstOk]
      rw [ih (i + 1)]
      cases firstOk r <;> simp [Nat.add_comm, Nat.add_left_comm, Nat.add_assoc]
    | connectFail =>
      simp only [attempt, firstOk]
      rw [ih (i + 1)]
      cases firstOk r <;> simp [Nat.add_comm, Nat.add_left_comm, Nat.add_assoc]

theorem firstOk_none {addrs : List AddrOutcome} : firstOk addrs = none ↔ ∀ a ∈ addrs, a ≠ .ok := by
  induction addrs with
  | nil => simp [firstOk]
  | cons a r ih =>
    cases a <;> simp [firstOk, ih]

theorem firstOk_some {addrs : List AddrOutcome} {k : Nat} (h : firstOk addrs = some k) :
    addrs[k]? = some .ok ∧ ∀ j, j < k → addrs[j]? ≠ some .ok := by
  induction addrs generalizing k with
  | nil => cases h
  | cons a r ih =>
    cases a with
    | ok =>
      simp only [firstOk, Option.some.injEq] at h; subst h
      exact ⟨rfl, fun j hj => by omega⟩
    | sockCreateFail =>
      simp only [firstOk, Option.map_eq_some_iff] at h
      obtain ⟨k', hk', rfl⟩ := h
      obtain ⟨h1, h2⟩ := ih hk'
      refine ⟨by simpa using h1, fun j hj => ?_⟩
      cases j with
      | zero => simp
      | succ j' => simpa using h2 j' (by omega)
    | connectFail =>
      simp only [firstOk, Option.map_eq_some_iff] at h
      obtain ⟨k', hk', rfl⟩ := h
      obtain ⟨h1, h2⟩ := ih hk'
      refine ⟨by simpa using h1, fun j hj => ?_⟩
      cases j with
      | zero => simp
      | succ j' => simpa using h2 j' (by omega)

theorem firstOk_lt {addrs : List AddrOutcome} {k : Nat} (h : firstOk addrs = some k) : k < addrs.length := by
  have := (firstOk_some h).1
  exact (List.getElem?_eq_some_iff.mp this).1

theorem tried_le (addrs : List AddrOutcome) : tried addrs ≤ addrs.length := by
  unfold tried
  cases h : firstOk addrs with
  | none => exact Nat.le_refl _
  | some k => exact firstOk_lt h

/-- the `socket()` calls are made for the tried addresses, each once, in order -/
theorem attempt_sockets (i : Nat) (addrs : List AddrOutcome) :
    (attempt i addrs).2.filterMap Call.socketIdx? = (List.range (tried addrs)).map (· + i) := by
  induction addrs generalizing i with
  | nil => rfl
  | cons a r ih =>
    cases a with
    | ok => simp [attempt, tried, firstOk, Call.socketIdx?, List.range_succ]
    | sockCreateFail =>
      have e : tried (.sockCreateFail :: r) = tried r + 1 := by
        unfold tried; simp only [firstOk]; cases firstOk r <;> simp
      simp only [attempt, e, List.filterMap_cons, Call.socketIdx?]
      rw [ih (i + 1), List.range_succ_eq_map]
      simp [Nat.add_comm, Nat.add_left_comm, Nat.add_assoc]
    | connectFail =>
      have e : tried (.connectFail :: r) = tried r + 1 := by
        unfold tried; simp only [firstOk]; cases firstOk r <;> simp
      simp only [attempt, e, List.filterMap_cons, Call.socketIdx?]
      rw [ih (i + 1), List.range_succ_eq_map]
      simp [Nat.add_comm, Nat.add_left_comm, Nat.add_assoc]

/-- a socket is closed exactly when its `connect()` failed (among the tried addresses) -/
theorem attempt_close (i : Nat) (addrs : List AddrOutcome) (j : Nat) :
    Call.close (j + i) ∈ (attempt i addrs).2 ↔ (j < tried addrs ∧ addrs[j]? = some .connectFail) := by
  induction addrs generalizing i j with
  | nil => simp [attempt, tried, firstOk]
  | cons a r ih =>
    cases a with
    | ok =>
      simp only [attempt, tried, firstOk]
      constructor
      · intro h; simp at h
      · rintro ⟨h1, h2⟩
        have : j = 0 := by omega
        subst this; simp at h2
    | sockCreateFail =>
      have e : tried (.sockCreateFail :: r) = tried r + 1 := by
        unfold tried; simp only [firstOk]; cases firstOk r <;> simp
      simp only [attempt, e]
      cases j with
      | zero =>
        constructor
        · intro h
          simp only [List.mem_cons, reduceCtorEq, false_or] at h
          have := (ih (i + 1) 0).mp
          -- `close i` cannot come from the attempts at later addresses
          exfalso
          have key : ∀ (k : Nat) (l : List AddrOutcome) (c : Nat), Call.close c ∈ (attempt k l).2 → k ≤ c := by
            intro k l
            induction l generalizing k with
            | nil => intro c hc; simp [attempt] at hc
            | cons b t iht =>
              intro c hc
              cases b with
              | ok => simp [attempt] at hc
              | sockCreateFail =>
                simp only [attempt, List.mem_cons, reduceCtorEq, false_or] at hc
                have := iht (k + 1) c hc; omega
              | connectFail =>
                simp only [attempt, List.mem_cons, reduceCtorEq, false_or, Call.close.injEq] at hc
                rcases hc with hc | hc
                · omega
                · have := iht (k + 1) c hc; omega
          have := key (i + 1) r (0 + i) h
          omega
        · rintro ⟨_, h2⟩; simp at h2
      | succ j' =>
        have := ih (i + 1) j'
        simp only [List.mem_cons, reduceCtorEq, false_or]
        rw [show j' + 1 + i = j' + (i + 1) by omega, this]
        simp
    | connectFail =>
      have e : tried (.connectFail :: r) = tried r + 1 := by
        unfold tried; simp only [firstOk]; cases firstOk r <;> simp
      simp only [attempt, e]
      cases j with
      | zero => simp
      | succ j' =>
        have := ih (i + 1) j'
        simp only [List.mem_cons, reduceCtorEq, false_or, Call.close.injEq]
        rw [show j' + 1 + i = j' + (i + 1) by omega]
        constructor
        · rintro (h | h)
          · omega
          · have := this.mp h; simpa using this
        · intro h
          right
          exact this.mpr (by simpa using h)

end Lomond.Connect
