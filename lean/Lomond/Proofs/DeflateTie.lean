/-
  The tie between the two levels of the C06 model: the core model's `inflateMessage` (bytes, the
  `inflate` function a parameter) computes the token-level `wholeOutputs` on every history on
  which `inflate` agrees with the token semantics under some encoding of block lists into bytes.
-/
import Lomond.Proofs.Deflate
import Lomond.Proofs.DeflateCore
set_option linter.unusedSimpArgs false
set_option linter.unusedVariables false
namespace Lomond.Core
open Lomond Lomond.Deflate

def TAIL : Bytes := [0, 0, 0xff, 0xff]

/-- the bytes lomond hands to zlib for a history of messages: each payload followed by the tail -/
def encHist (enc : List Blk → Bytes) (ms : List (List Blk)) : Bytes := ms.flatMap (fun m => enc m ++ TAIL)

/-- what the token model says comes out of that history -/
def tokenOut (wsize : Nat) (ms : List (List Blk)) : Option Bytes :=
  (inflBlocks wsize [] (ms.flatMap unstrip)).map (fun r => r.2.1.reverse)

/-- `inflate` (with window `2^wbits`) reads the byte history `encHist enc ms` as the blocks `ms` -/
def Agrees (inflate : Nat → Bytes → Option Bytes) (wbits : Nat) (enc : List Blk → Bytes) (ms : List (List Blk)) : Prop :=
  inflate wbits (encHist enc ms) = tokenOut (2 ^ wbits) ms

/-- the joined payloads of successive compressed messages through `Core.inflateMessage` -/
def feedMsgs : List Bytes → Sys → Option (List Bytes)
  | [], _ => some []
  | j :: rest, s =>
    match inflateMessage j s with
    | .ok out s' =>
      match feedMsgs rest s' with
      | none => none
      | some outs => some (out :: outs)
    | .err _ _ => none

theorem encHist_snoc (enc : List Blk → Bytes) (prev : List (List Blk)) (m : List Blk) :
    encHist enc (prev ++ [m]) = encHist enc prev ++ enc m ++ TAIL := by
  simp [encHist, List.flatMap_append, List.append_assoc]

theorem flatMap_unstrip_snoc (prev : List (List Blk)) (m : List Blk) :
    (prev ++ [m]).flatMap unstrip = prev.flatMap unstrip ++ unstrip m := by
  simp [List.flatMap_append]

/-- context takeover -/
theorem feedMsgs_takeover (enc : List Blk → Bytes) (d : Http.DeflateCfg) (hr : d.resetDecompress = false)
    (msgs : List (List Blk)) (s : Sys) (prev : List (List Blk)) (hd : s.compression = some d)
    (hh : s.inflHist = encHist enc prev)
    (hA : ∀ k, k ≤ msgs.length → Agrees s.cfg.inflate d.decompressWbits enc (prev ++ msgs.take k)) :
    feedMsgs (msgs.map enc) s = wholeOutputs (2 ^ d.decompressWbits) false (prev.flatMap unstrip) s.inflOut msgs := by
  induction msgs generalizing s prev with
  | nil => rfl
  | cons m ms ih =>
    simp only [List.map_cons, feedMsgs, wholeOutputs, Bool.false_eq_true, if_false]
    have h1 := hA 1 (by simp)
    simp only [List.take_succ_cons, List.take_zero, Agrees, encHist_snoc, tokenOut, flatMap_unstrip_snoc] at h1
    have hI : s.cfg.inflate d.decompressWbits (s.inflHist ++ enc m ++ [0, 0, 0xff, 0xff]) =
        (inflBlocks (2 ^ d.decompressWbits) [] (prev.flatMap unstrip ++ unstrip m)).map (fun r => r.2.1.reverse) := by
      rw [hh]; exact h1
    unfold inflateMessage
    simp only [hd, Option.map_some, Option.getD_some, hr, Bool.false_eq_true, if_false]
    rw [hI]
    cases hb : inflBlocks (2 ^ d.decompressWbits) [] (prev.flatMap unstrip ++ unstrip m) with
    | none => rfl
    | some r =>
      obtain ⟨w1, e1, f1⟩ := r
      simp only [Option.map_some]
      have := ih { s with inflHist := s.inflHist ++ enc m ++ [0, 0, 0xff, 0xff], inflOut := e1.reverse.length }
        (prev ++ [m]) hd (by rw [encHist_snoc, hh]; rfl)
        (fun k hk => by
          have := hA (k + 1) (by simp; omega)
          simpa [List.take_succ_cons, List.append_assoc] using this)
      simp only [hd] at this
      rw [this, flatMap_unstrip_snoc]
      simp only [List.length_reverse]
      cases wholeOutputs (2 ^ d.decompressWbits) false (prev.flatMap unstrip ++ unstrip m) e1.length ms <;> rfl

/-- `server_no_context_takeover`: every message on its own -/
theorem feedMsgs_reset (enc : List Blk → Bytes) (d : Http.DeflateCfg) (hr : d.resetDecompress = true)
    (msgs : List (List Blk)) (s : Sys) (hd : s.compression = some d)
    (hh : s.inflHist = []) (ho : s.inflOut = 0)
    (hA : ∀ m ∈ msgs, Agrees s.cfg.inflate d.decompressWbits enc [m]) :
    feedMsgs (msgs.map enc) s = wholeOutputs (2 ^ d.decompressWbits) true [] 0 msgs := by
  induction msgs generalizing s with
  | nil => rfl
  | cons m ms ih =>
    simp only [List.map_cons, feedMsgs, wholeOutputs, if_true]
    have h1 := hA m (by simp)
    simp only [Agrees, encHist, tokenOut, List.flatMap_cons, List.flatMap_nil, List.append_nil] at h1
    have hI : s.cfg.inflate d.decompressWbits (s.inflHist ++ enc m ++ [0, 0, 0xff, 0xff]) =
        (inflBlocks (2 ^ d.decompressWbits) [] ([] ++ unstrip m)).map (fun r => r.2.1.reverse) := by
      rw [hh]; simpa [TAIL] using h1
    unfold inflateMessage
    simp only [hd, Option.map_some, Option.getD_some, hr, if_true]
    rw [hI]
    cases hb : inflBlocks (2 ^ d.decompressWbits) [] ([] ++ unstrip m) with
    | none => rfl
    | some r =>
      obtain ⟨w1, e1, f1⟩ := r
      simp only [Option.map_some]
      have := ih { s with inflHist := [], inflOut := 0 } hd rfl rfl (fun m' hm' => hA m' (by simp [hm']))
      simp only [hd] at this
      rw [this, ho]
      cases wholeOutputs (2 ^ d.decompressWbits) true [] 0 ms <;> rfl

/-! ### the same for the inflater of the repaired code -/

/-- what the token model says comes out of that history when BFINAL=1 does not end it -/
def tokenOutSafe (wsize : Nat) (ms : List (List Blk)) : Option Bytes :=
  (inflBlocksAll wsize [] (ms.flatMap unstrip)).map (fun r => r.2.reverse)

/-- `inflate` reads the byte history as the blocks `ms`, going on after BFINAL=1 blocks -/
def AgreesSafe (inflate : Nat → Bytes → Option Bytes) (wbits : Nat) (enc : List Blk → Bytes) (ms : List (List Blk)) : Prop :=
  inflate wbits (encHist enc ms) = tokenOutSafe (2 ^ wbits) ms

/-- context takeover, repaired code -/
theorem feedMsgs_takeover_safe (enc : List Blk → Bytes) (d : Http.DeflateCfg) (hr : d.resetDecompress = false)
    (msgs : List (List Blk)) (s : Sys) (prev : List (List Blk)) (hd : s.compression = some d)
    (hh : s.inflHist = encHist enc prev)
    (hA : ∀ k, k ≤ msgs.length → AgreesSafe s.cfg.inflate d.decompressWbits enc (prev ++ msgs.take k)) :
    feedMsgs (msgs.map enc) s = wholeOutputsSafe (2 ^ d.decompressWbits) false (prev.flatMap unstrip) s.inflOut msgs := by
  induction msgs generalizing s prev with
  | nil => rfl
  | cons m ms ih =>
    simp only [List.map_cons, feedMsgs, wholeOutputsSafe, Bool.false_eq_true, if_false]
    have h1 := hA 1 (by simp)
    simp only [List.take_succ_cons, List.take_zero, AgreesSafe, encHist_snoc, tokenOutSafe, flatMap_unstrip_snoc] at h1
    have hI : s.cfg.inflate d.decompressWbits (s.inflHist ++ enc m ++ [0, 0, 0xff, 0xff]) =
        (inflBlocksAll (2 ^ d.decompressWbits) [] (prev.flatMap unstrip ++ unstrip m)).map (fun r => r.2.reverse) := by
      rw [hh]; exact h1
    unfold inflateMessage
    simp only [hd, Option.map_some, Option.getD_some, hr, Bool.false_eq_true, if_false]
    rw [hI]
    cases hb : inflBlocksAll (2 ^ d.decompressWbits) [] (prev.flatMap unstrip ++ unstrip m) with
    | none => rfl
    | some r =>
      obtain ⟨w1, e1⟩ := r
      simp only [Option.map_some]
      have := ih { s with inflHist := s.inflHist ++ enc m ++ [0, 0, 0xff, 0xff], inflOut := e1.reverse.length }
        (prev ++ [m]) hd (by rw [encHist_snoc, hh]; rfl)
        (fun k hk => by
          have := hA (k + 1) (by simp; omega)
          simpa [List.take_succ_cons, List.append_assoc] using this)
      simp only [hd] at this
      rw [this, flatMap_unstrip_snoc]
      simp only [List.length_reverse]
      cases wholeOutputsSafe (2 ^ d.decompressWbits) false (prev.flatMap unstrip ++ unstrip m) e1.length ms <;> rfl

/-- `server_no_context_takeover`, repaired code -/
theorem feedMsgs_reset_safe (enc : List Blk → Bytes) (d : Http.DeflateCfg) (hr : d.resetDecompress = true)
    (msgs : List (List Blk)) (s : Sys) (hd : s.compression = some d)
    (hh : s.inflHist = []) (ho : s.inflOut = 0)
    (hA : ∀ m ∈ msgs, AgreesSafe s.cfg.inflate d.decompressWbits enc [m]) :
    feedMsgs (msgs.map enc) s = wholeOutputsSafe (2 ^ d.decompressWbits) true [] 0 msgs := by
  induction msgs generalizing s with
  | nil => rfl
  | cons m ms ih =>
    simp only [List.map_cons, feedMsgs, wholeOutputsSafe, if_true]
    have h1 := hA m (by simp)
    simp only [AgreesSafe, encHist, tokenOutSafe, List.flatMap_cons, List.flatMap_nil, List.append_nil] at h1
    have hI : s.cfg.inflate d.decompressWbits (s.inflHist ++ enc m ++ [0, 0, 0xff, 0xff]) =
        (inflBlocksAll (2 ^ d.decompressWbits) [] ([] ++ unstrip m)).map (fun r => r.2.reverse) := by
      rw [hh]; simpa [TAIL] using h1
    unfold inflateMessage
    simp only [hd, Option.map_some, Option.getD_some, hr, if_true]
    rw [hI]
    cases hb : inflBlocksAll (2 ^ d.decompressWbits) [] ([] ++ unstrip m) with
    | none => rfl
    | some r =>
      obtain ⟨w1, e1⟩ := r
      simp only [Option.map_some]
      have := ih { s with inflHist := [], inflOut := 0 } hd rfl rfl (fun m' hm' => hA m' (by simp [hm']))
      simp only [hd] at this
      rw [this, ho]
      cases wholeOutputsSafe (2 ^ d.decompressWbits) true [] 0 ms <;> rfl

end Lomond.Core
