import Lomond.Model.Core
set_option linter.unusedSimpArgs false
set_option linter.unusedVariables false
namespace Lomond.Core
open Lomond

/-- the final state of a result, normal or exceptional -/
def Res.state : Res α → Sys
  | .ok _ s => s
  | .err _ s => s

@[simp] theorem Res.state_ok (a : α) (s : Sys) : (Res.ok a s).state = s := rfl
@[simp] theorem Res.state_err (x : Exn) (s : Sys) : (Res.err x s : Res α).state = s := rfl

/-- `m` relates every start state to its final state (normal or exceptional) by `R` -/
def Spec (R : Sys → Sys → Prop) (m : M α) : Prop := ∀ s, R s (m s).state

structure PO (R : Sys → Sys → Prop) : Prop where
  refl : ∀ s, R s s
  trans : ∀ {a b c}, R a b → R b c → R a c

variable {R : Sys → Sys → Prop}

theorem spec_pure (po : PO R) (a : α) : Spec R (pure a : M α) := by
  intro s; exact po.refl s

theorem spec_bind (po : PO R) {m : M α} {f : α → M β} (hm : Spec R m) (hf : ∀ a, Spec R (f a)) :
    Spec R (m >>= f) := by
  intro s
  have h1 := hm s
  show R s (M.bind m f s).state
  unfold M.bind
  cases hms : m s with
  | ok a s1 =>
    rw [hms] at h1
    have h2 := hf a s1
    simp only
    cases hfs : f a s1 with
    | ok b s2 => rw [hfs] at h2; exact po.trans h1 h2
    | err x s2 => rw [hfs] at h2; exact po.trans h1 h2
  | err x s1 => rw [hms] at h1; exact h1

theorem spec_seq (po : PO R) {m : M α} {k : M β} (hm : Spec R m) (hk : Spec R k) :
    Spec R (do let _ ← m; k) := spec_bind po hm (fun _ => hk)

theorem spec_tryC (po : PO R) {m : M α} {h : Exn → M α} (hm : Spec R m) (hh : ∀ x, Spec R (h x)) :
    Spec R (tryC m h) := by
  intro s
  have h1 := hm s
  unfold tryC
  cases hms : m s with
  | ok a s1 => rw [hms] at h1; exact h1
  | err x s1 =>
    rw [hms] at h1
    have h2 := hh x s1
    simp only
    cases hfs : h x s1 with
    | ok b s2 => rw [hfs] at h2; exact po.trans h1 h2
    | err y s2 => rw [hfs] at h2; exact po.trans h1 h2

theorem spec_getS (po : PO R) : Spec R getS := fun s => po.refl s
theorem spec_throwE (po : PO R) (x : Exn) : Spec R (throwE x : M α) := fun s => po.refl s
theorem spec_modS {f : Sys → Sys} (h : ∀ s, R s (f s)) : Spec R (modS f) := fun s => h s
theorem spec_liftE (po : PO R) (r : Except Exn α) : Spec R (liftE r) := by
  intro s; unfold liftE; cases r <;> exact po.refl s

theorem spec_ite (c : Prop) [Decidable c] {m k : M α} (hm : Spec R m) (hk : Spec R k) :
    Spec R (if c then m else k) := by
  split <;> assumption

/-- use of a `Spec` fact on a concrete run -/
theorem Spec.ok {m : M α} (h : Spec R m) {s s' : Sys} {a : α} (e : m s = .ok a s') : R s s' := by
  have := h s; rw [e] at this; exact this
theorem Spec.err {m : M α} (h : Spec R m) {s s' : Sys} {x : Exn} (e : m s = .err x s') : R s s' := by
  have := h s; rw [e] at this; exact this

end Lomond.Core
