/-
  Dynamic-Huffman headers that use the repeat codes 16, 17, 18 of the code-length alphabet
  (RFC 1951 §3.2.7), in any complete code-length code and with any HCLEN:

    `readLens_items`        the inflater's header reader (`readLens`, state CODELENS of inflate.c)
                            on the bits of a list of code-length items returns exactly the lengths
                            the items expand to (`DeflEnc.expandGo`);
    `readClLens_perm`       the `nc` 3-bit lengths sent in the order of `clOrder` are put back in
                            their places;
    `dynamicTables_rle`     the whole header (`DeflEnc.dynHeaderR`) gives the two tables `mkHuff`
                            builds from the expanded lengths.
-/
import Lomond.Proofs.InflateDyn
import Lomond.Proofs.InflateRleItems
set_option linter.unusedSimpArgs false
set_option linter.unusedVariables false
namespace Lomond.Inflate
open Lomond Lomond.DeflEnc Lomond.Deflate

/-! ### one step of `readLens` -/

section steps
variable {inp : Array Nat} {cl : Huff}

theorem readLens_done (total fuel pos : Nat) (acc : Array Nat) (h : total ≤ acc.size) :
    readLens inp cl total (fuel + 1) pos acc = .ok acc pos := by
  rw [readLens, if_pos (by omega)]

theorem readLens_lit (hsh : cl.shape = .complete) (total fuel pos p1 n : Nat) (acc : Array Nat)
    (hlt : acc.size < total) (hn : n < 16) (hd : decode cl inp pos = .ok (some n) p1) :
    readLens inp cl total (fuel + 1) pos acc = readLens inp cl total fuel p1 (acc.push n) := by
  rw [readLens, if_neg (by omega)]
  simp only [hsh, hd, hn, if_true]

theorem readLens_16 (hsh : cl.shape = .complete) (total fuel pos p1 p2 e : Nat) (acc : Array Nat)
    (hlt : acc.size < total) (hd : decode cl inp pos = .ok (some 16) p1) (hb : bits inp p1 2 = .ok e p2)
    (h0 : acc.size ≠ 0) (hfit : acc.size + (3 + e) ≤ total) :
    readLens inp cl total (fuel + 1) pos acc =
      readLens inp cl total fuel p2 (acc ++ Array.replicate (3 + e) (acc.getD (acc.size - 1) 0)) := by
  rw [readLens, if_neg (by omega)]
  simp only [hsh, hd, Nat.lt_irrefl, if_false, if_true, hb]
  rw [if_neg (by omega), if_neg (by omega)]

theorem readLens_17 (hsh : cl.shape = .complete) (total fuel pos p1 p2 e : Nat) (acc : Array Nat)
    (hlt : acc.size < total) (hd : decode cl inp pos = .ok (some 17) p1) (hb : bits inp p1 3 = .ok e p2)
    (hfit : acc.size + (3 + e) ≤ total) :
    readLens inp cl total (fuel + 1) pos acc =
      readLens inp cl total fuel p2 (acc ++ Array.replicate (3 + e) 0) := by
  rw [readLens, if_neg (by omega)]
  have e1 : ¬ (17 : Nat) < 16 := by decide
  have e2 : ¬ (17 : Nat) = 16 := by decide
  simp only [hsh, hd, e1, e2, if_false, if_true, hb, false_and]
  rw [if_neg (by omega)]

theorem readLens_18 (hsh : cl.shape = .complete) (total fuel pos p1 p2 e : Nat) (acc : Array Nat)
    (hlt : acc.size < total) (hd : decode cl inp pos = .ok (some 18) p1) (hb : bits inp p1 7 = .ok e p2)
    (hfit : acc.size + (11 + e) ≤ total) :
    readLens inp cl total (fuel + 1) pos acc =
      readLens inp cl total fuel p2 (acc ++ Array.replicate (11 + e) 0) := by
  rw [readLens, if_neg (by omega)]
  have e1 : ¬ (18 : Nat) < 16 := by decide
  have e2 : ¬ (18 : Nat) = 16 := by decide
  have e3 : ¬ (18 : Nat) = 17 := by decide
  simp only [hsh, hd, e1, e2, e3, if_false, if_true, hb, false_and]
  rw [if_neg (by omega)]

end steps

/-! ### a list of items -/

theorem itemBits_length_pos {cl : Huff} {cc : Nat → List Bool} {S : Nat → Prop} (hc : Code cl cc S) (it : Item)
    (hS : S it.sym) : 1 ≤ (itemBits cc it).length := by
  have := hc.pos _ hS
  cases it <;> simp only [itemBits, Item.sym, List.length_append] at this ⊢ <;> omega

theorem getLast?_getD (acc : List Nat) (v : Nat) (h : acc.getLast? = some v) :
    acc.toArray.getD (acc.toArray.size - 1) 0 = v ∧ acc.length ≠ 0 := by
  rw [List.getLast?_eq_getElem?] at h
  have hne : acc.length ≠ 0 := by
    intro h0
    have : acc = [] := List.length_eq_zero_iff.mp h0
    subst this
    simp at h
  refine ⟨?_, hne⟩
  rw [← getD_toList]
  simp only [List.size_toArray, List.getD_eq_getElem?_getD, h, Option.getD_some]

/-- **the header reader on run-length coded code lengths**: in any complete code-length code
    (`cc` = code words of the symbols in `S` for the table `cl`), the bits of `items` — each in
    range, its symbol in `S` — followed by anything are read back by `readLens` as exactly the
    lengths the items expand to (after the lengths `acc` already read), provided these are the
    `total` lengths the header announces.  Repeats may start anywhere and cross the HLIT/HDIST
    boundary: `readLens` knows only the total. -/
theorem readLens_items {inp : Array Nat} (hwf : ∀ x ∈ inp.toList, x < 256) {cl : Huff} {cc : Nat → List Bool}
    {S : Nat → Prop} (hc : Code cl cc S) (hsh : cl.shape = .complete) (items : List Item)
    (hok : ∀ it ∈ items, it.ok = true ∧ S it.sym) (total fuel pos : Nat) (acc lens : List Nat) (r : List Bool)
    (hex : expandGo acc items = some lens) (htot : lens.length = total) (hf : items.length < fuel)
    (h : Rest inp pos = items.flatMap (itemBits cc) ++ r) :
    readLens inp cl total fuel pos acc.toArray = .ok lens.toArray (pos + (items.flatMap (itemBits cc)).length) := by
  induction items generalizing fuel pos acc with
  | nil =>
    obtain ⟨fuel, rfl⟩ : ∃ f, fuel = f + 1 := ⟨fuel - 1, by simp at hf; omega⟩
    simp only [expandGo, Option.some.injEq] at hex
    subst hex
    rw [readLens_done _ _ _ _ (by simp; omega)]
    simp
  | cons it items ih =>
    obtain ⟨fuel, rfl⟩ : ∃ f, fuel = f + 1 := ⟨fuel - 1, by simp at hf; omega⟩
    obtain ⟨hitok, hS⟩ := hok it (by simp)
    have hok' : ∀ it' ∈ items, it'.ok = true ∧ S it'.sym := fun it' h' => hok it' (by simp [h'])
    have hf' : items.length < fuel := by simp at hf; omega
    simp only [List.flatMap_cons, List.append_assoc] at h
    have hpos1 := itemBits_length_pos hc it hS
    have hne : itemBits cc it ≠ [] := by
      intro h0; rw [h0] at hpos1; simp at hpos1
    have hbd := rest_bound h hne
    have hrest := rest_append h
    simp only [List.flatMap_cons, List.length_append]
    cases it with
    | lit n =>
      simp only [expandGo] at hex
      simp only [Item.ok, decide_eq_true_eq] at hitok
      simp only [Item.sym] at hS
      simp only [itemBits] at h hrest ⊢
      have hlen := expandGo_length _ _ _ hex
      simp only [List.length_append, List.length_cons, List.length_nil] at hlen
      rw [readLens_lit hsh total fuel pos _ n _ (by simp; omega) (by omega) (hc.dec hS h), List.push_toArray,
        ih hok' fuel _ _ hex hf' hrest, Nat.add_assoc]
    | rep16 k =>
      simp only [expandGo] at hex
      simp only [Item.ok, Bool.and_eq_true, decide_eq_true_eq] at hitok
      simp only [Item.sym] at hS
      simp only [itemBits, List.append_assoc] at h hrest hbd ⊢
      cases hl : acc.getLast? with
      | none => rw [hl] at hex; cases hex
      | some v =>
        rw [hl] at hex
        obtain ⟨hv, hne0⟩ := getLast?_getD acc v hl
        have hlen := expandGo_length _ _ _ hex
        simp only [List.length_append, List.length_replicate] at hlen
        have hd := hc.dec hS h
        have h1 := rest_append h
        simp only [List.length_append, bitsLE_length] at hbd
        have hb := bits_spec hwf (by decide) (by simp; omega : k - 3 < 2 ^ 2) (by omega) h1
        have h2 := rest_append h1
        simp only [bitsLE_length] at h2
        have e3 : 3 + (k - 3) = k := by omega
        rw [readLens_16 hsh total fuel pos _ _ (k - 3) _ (by simp; omega) hd hb (by simpa using hne0)
          (by simp; omega), e3, hv]
        have ea : acc.toArray ++ Array.replicate k v = (acc ++ List.replicate k v).toArray := by
          apply Array.toList_inj.mp; simp
        rw [ea, ih hok' fuel _ _ hex hf' h2]
        simp only [List.length_append, bitsLE_length, Nat.add_assoc]
    | rep17 k =>
      simp only [expandGo] at hex
      simp only [Item.ok, Bool.and_eq_true, decide_eq_true_eq] at hitok
      simp only [Item.sym] at hS
      simp only [itemBits, List.append_assoc] at h hrest hbd ⊢
      have hlen := expandGo_length _ _ _ hex
      simp only [List.length_append, List.length_replicate] at hlen
      have hd := hc.dec hS h
      have h1 := rest_append h
      simp only [List.length_append, bitsLE_length] at hbd
      have hb := bits_spec hwf (by decide) (by simp; omega : k - 3 < 2 ^ 3) (by omega) h1
      have h2 := rest_append h1
      simp only [bitsLE_length] at h2
      have e3 : 3 + (k - 3) = k := by omega
      rw [readLens_17 hsh total fuel pos _ _ (k - 3) _ (by simp; omega) hd hb (by simp; omega), e3]
      have ea : acc.toArray ++ Array.replicate k 0 = (acc ++ List.replicate k 0).toArray := by
        apply Array.toList_inj.mp; simp
      rw [ea, ih hok' fuel _ _ hex hf' h2]
      simp only [List.length_append, bitsLE_length, Nat.add_assoc]
    | rep18 k =>
      simp only [expandGo] at hex
      simp only [Item.ok, Bool.and_eq_true, decide_eq_true_eq] at hitok
      simp only [Item.sym] at hS
      simp only [itemBits, List.append_assoc] at h hrest hbd ⊢
      have hlen := expandGo_length _ _ _ hex
      simp only [List.length_append, List.length_replicate] at hlen
      have hd := hc.dec hS h
      have h1 := rest_append h
      simp only [List.length_append, bitsLE_length] at hbd
      have hb := bits_spec hwf (by decide) (by simp; omega : k - 11 < 2 ^ 7) (by omega) h1
      have h2 := rest_append h1
      simp only [bitsLE_length] at h2
      have e3 : 11 + (k - 11) = k := by omega
      rw [readLens_18 hsh total fuel pos _ _ (k - 11) _ (by simp; omega) hd hb (by simp; omega), e3]
      have ea : acc.toArray ++ Array.replicate k 0 = (acc ++ List.replicate k 0).toArray := by
        apply Array.toList_inj.mp; simp
      rw [ea, ih hok' fuel _ _ hex hf' h2]
      simp only [List.length_append, bitsLE_length, Nat.add_assoc]

/-! ### the code-length code: `nc` of the 19 lengths, in the order of `clOrder` -/

/-- what `clOk` says -/
theorem clOk_spec (cll : List Nat) (nc : Nat) (h : clOk cll nc = true) :
    cll.length = 19 ∧ (∀ l ∈ cll, l ≤ 7) ∧ kraft cll = 2 ^ 15 ∧ 4 ≤ nc ∧ nc ≤ 19 ∧
    (∀ s ∈ DeflEnc.clOrder.drop nc, cll.getD s 0 = 0) := by
  simp only [clOk, Bool.and_eq_true, beq_iff_eq, List.all_eq_true, decide_eq_true_eq] at h
  obtain ⟨⟨⟨⟨⟨h1, h2⟩, h3⟩, h4⟩, h5⟩, h6⟩ := h
  exact ⟨h1, h2, h3, h4, h5, h6⟩

/-- the lengths that are not sent are zero -/
theorem clOrder_unsent (cll : List Nat) (nc : Nat) (hz : ∀ s ∈ DeflEnc.clOrder.drop nc, cll.getD s 0 = 0)
    (j : Nat) (hj : nc ≤ j) (hj19 : j < 19) : cll.getD (DeflEnc.clOrder.getD j 0) 0 = 0 := by
  apply hz
  have hlen : DeflEnc.clOrder.length = 19 := rfl
  have : (DeflEnc.clOrder.drop nc)[j - nc]? = some (DeflEnc.clOrder.getD j 0) := by
    rw [List.getElem?_drop, List.getD_eq_getElem?_getD, show nc + (j - nc) = j by omega,
      List.getElem?_eq_getElem (by omega)]
    simp
  exact List.mem_of_getElem? this

/-- **`readClLens` undoes the permutation `clOrder`**, for every HCLEN -/
theorem setAll_perm (cll : List Nat) (nc : Nat) (hl : cll.length = 19) (h4 : 4 ≤ nc) (h19 : nc ≤ 19)
    (hz : ∀ s ∈ DeflEnc.clOrder.drop nc, cll.getD s 0 = 0) :
    setAll 0 ((DeflEnc.clOrder.take nc).map (fun s => cll.getD s 0)) (Array.replicate 19 0) = cll.toArray := by
  have z := clOrder_unsent cll nc hz
  match cll, hl with
  | [a0, a1, a2, a3, a4, a5, a6, a7, a8, a9, a10, a11, a12, a13, a14, a15, a16, a17, a18], _ =>
    have z4 := z 4; have z5 := z 5; have z6 := z 6; have z7 := z 7; have z8 := z 8; have z9 := z 9
    have z10 := z 10; have z11 := z 11; have z12 := z 12; have z13 := z 13; have z14 := z 14
    have z15 := z 15; have z16 := z 16; have z17 := z 17; have z18 := z 18
    simp only [DeflEnc.clOrder, List.getD_cons_zero, List.getD_cons_succ, Nat.reduceLT, forall_const] at z4 z5 z6 z7 z8 z9 z10 z11 z12 z13 z14 z15 z16 z17 z18
    have hnc : nc = 4 ∨ nc = 5 ∨ nc = 6 ∨ nc = 7 ∨ nc = 8 ∨ nc = 9 ∨ nc = 10 ∨ nc = 11 ∨ nc = 12 ∨ nc = 13 ∨
        nc = 14 ∨ nc = 15 ∨ nc = 16 ∨ nc = 17 ∨ nc = 18 ∨ nc = 19 := by omega
    rcases hnc with rfl | rfl | rfl | rfl | rfl | rfl | rfl | rfl | rfl | rfl | rfl | rfl | rfl | rfl | rfl | rfl <;>
      simp only [Nat.reduceLeDiff, forall_const, Nat.le_refl] at z4 z5 z6 z7 z8 z9 z10 z11 z12 z13 z14 z15 z16 z17 z18 <;>
      subst_vars <;>
      simp [setAll, DeflEnc.clOrder, Inflate.clOrder, Array.replicate_eq_toArray_replicate, List.replicate]

/-! ### the header -/

theorem lens3_bits_length (l : List Nat) : (l.flatMap (bitsLE 3)).length = 3 * l.length := by
  induction l with
  | nil => rfl
  | cons x l ih => simp only [List.flatMap_cons, List.length_append, bitsLE_length, ih, List.length_cons]; omega

theorem clOrder_take_bits (cll : List Nat) (nc : Nat) :
    (DeflEnc.clOrder.take nc).flatMap (fun s => bitsLE 3 (cll.getD s 0)) =
      ((DeflEnc.clOrder.take nc).map (fun s => cll.getD s 0)).flatMap (bitsLE 3) := by
  rw [List.flatMap_map]

theorem clOrder_take_length (cll : List Nat) (nc : Nat) (h : nc ≤ 19) :
    ((DeflEnc.clOrder.take nc).map (fun s => cll.getD s 0)).length = nc := by
  have : DeflEnc.clOrder.length = 19 := rfl
  simp only [List.length_map, List.length_take]
  omega

/-- the code-length code of a run-length coded header: the table `mkHuff` builds from `cll` is
    complete and the canonical code words of `cll` are its codes -/
theorem code_cll (cll : List Nat) (h7 : ∀ l ∈ cll, l ≤ 7) (hk : kraft cll = 2 ^ 15) :
    ∃ cl, mkHuff cll.toArray true = some cl ∧ cl.shape = .complete ∧
      Code cl (canonCode cll) (fun s => 1 ≤ cll.getD s 0) := by
  obtain ⟨cl, hm, hsh⟩ := mkHuff_complete cll true hk
  exact ⟨cl, hm, hsh, code_canon cll true cl hm hsh (by omega) (fun l hl => by have := h7 l hl; omega)⟩

/-- **the header of a dynamic block that uses repeat codes**: whatever complete code-length code
    `cll` (of which `nc` lengths are sent) and whatever in-range items that expand to the
    `|ll| + |dl|` code lengths the header announces, `dynamicTables` returns the tables `mkHuff`
    builds from `ll` and `dl`, at the position just after the header -/
theorem dynamicTables_rle {inp : Array Nat} (hwf : ∀ x ∈ inp.toList, x < 256) (cll : List Nat) (nc : Nat)
    (items : List Item) (ll dl : List Nat) (p0 : Nat) (r : List Bool)
    (hcl : clOk cll nc = true) (hit : ∀ it ∈ items, it.ok = true ∧ 1 ≤ cll.getD it.sym 0)
    (hex : expand items = some (ll ++ dl))
    (hl1 : 257 ≤ ll.length) (hl2 : ll.length ≤ 286) (hd1 : 1 ≤ dl.length) (hd2 : dl.length ≤ 30)
    (heob : 1 ≤ ll.getD 256 0) (lit dist : Huff)
    (hlit : mkHuff ll.toArray false = some lit) (hdist : mkHuff dl.toArray false = some dist)
    (h : Rest inp p0 = dynHeaderR cll nc ll.length dl.length items ++ r) :
    dynamicTables inp p0 = .ok (lit, dist) (p0 + (dynHeaderR cll nc ll.length dl.length items).length) := by
  obtain ⟨hc19, hc7, hck, hn4, hn19, hcz⟩ := clOk_spec cll nc hcl
  obtain ⟨cl, hmk, hsh, code⟩ := code_cll cll hc7 hck
  simp only [dynHeaderR, List.append_assoc] at h
  -- the 14 bits HLIT, HDIST, HCLEN
  have e14 : bitsLE 5 (ll.length - 257) ++ (bitsLE 5 (dl.length - 1) ++ bitsLE 4 (nc - 4))
      = bitsLE 14 ((ll.length - 257) + 2 ^ 5 * ((dl.length - 1) + 2 ^ 5 * (nc - 4))) := by
    rw [show (14 : Nat) = 5 + (5 + 4) from rfl, bitsLE_concat 5 (5 + 4) _ _ (by simp; omega),
      bitsLE_concat 5 4 _ _ (by simp; omega)]
  rw [← List.append_assoc (bitsLE 5 (dl.length - 1)), ← List.append_assoc (bitsLE 5 (ll.length - 257)), e14] at h
  have hbd := rest_bound h (by simp [bitsLE])
  have hb14 := bits_spec hwf (by decide) (by simp; omega) (by omega) h
  have h1 := rest_append h
  simp only [bitsLE_length] at h1 hbd
  rw [clOrder_take_bits] at h1
  have hvlen := clOrder_take_length cll nc hn19
  have hblen := lens3_bits_length ((DeflEnc.clOrder.take nc).map (fun s => cll.getD s 0))
  rw [hvlen] at hblen
  have hbd1 := rest_bound h1 (by intro h0; rw [h0] at hblen; simp at hblen; omega)
  have hv8 : ∀ v ∈ (DeflEnc.clOrder.take nc).map (fun s => cll.getD s 0), v < 8 := by
    intro v hv
    simp only [List.mem_map] at hv
    obtain ⟨s, _, rfl⟩ := hv
    rw [List.getD_eq_getElem?_getD]
    cases hs : cll[s]? with
    | none => simp
    | some x =>
      simp only [Option.getD_some]
      have := hc7 x (List.mem_of_getElem? hs)
      omega
  have hclr := readClLens_spec hwf _ hv8 0 (p0 + 14) (Array.replicate 19 0) _ (by omega) h1
  rw [setAll_perm cll nc hc19 hn4 hn19 hcz, hvlen] at hclr
  have h2 := rest_append h1
  rw [hblen] at h2
  have hcount := expandGo_count [] items _ (fun it hi => (hit it hi).1) hex
  simp only [List.length_nil, List.length_append, Nat.zero_add] at hcount
  have hrl := readLens_items hwf code hsh items hit (ll.length + dl.length) (ll.length + dl.length + 1)
    (p0 + 14 + 3 * nc) [] (ll ++ dl) r hex (by simp) (by omega) h2
  -- the numbers
  have ev : ((ll.length - 257) + 2 ^ 5 * ((dl.length - 1) + 2 ^ 5 * (nc - 4))) % 32 + 257 = ll.length := by omega
  have ed : ((ll.length - 257) + 2 ^ 5 * ((dl.length - 1) + 2 ^ 5 * (nc - 4))) / 32 % 32 + 1 = dl.length := by omega
  have ec : ((ll.length - 257) + 2 ^ 5 * ((dl.length - 1) + 2 ^ 5 * (nc - 4))) / 1024 % 16 + 4 = nc := by omega
  have eempty : (#[] : Array Nat) = ([] : List Nat).toArray := rfl
  unfold dynamicTables
  rw [hb14]
  simp only [ev, ed, ec]
  rw [if_neg (by omega)]
  simp only [hclr, hmk, eempty, hrl]
  have e256 : ((ll ++ dl).toArray).getD 256 0 = ll.getD 256 0 := by
    rw [← getD_toList]
    simp only [List.getD_eq_getElem?_getD]
    rw [List.getElem?_append_left (by omega)]
  rw [e256, if_neg (by omega)]
  have ex1 : ((ll ++ dl).toArray).extract 0 ll.length = ll.toArray := by
    apply Array.toList_inj.mp
    simp [Array.toList_extract, List.extract_eq_take_drop]
  have ex2 : ((ll ++ dl).toArray).extract ll.length (ll.length + dl.length) = dl.toArray := by
    apply Array.toList_inj.mp
    simp [Array.toList_extract, List.extract_eq_take_drop]
  simp only [ex1, ex2, hlit, hdist]
  congr 1
  simp only [dynHeaderR, List.length_append, bitsLE_length, clOrder_take_bits, hblen]
  omega

end Lomond.Inflate
