/-
  The literal/length–distance loop of Model/Inflate.lean on a fixed-Huffman block written by the
  reference encoder: token by token it does what the token model (`Deflate.inflTokens`) says,
  including the failure "distance too far back".
-/
import Lomond.Proofs.InflateHuff
import Lomond.Proofs.Deflate
set_option linter.unusedSimpArgs false
set_option linter.unusedVariables false
namespace Lomond.Inflate
open Lomond Lomond.DeflEnc Lomond.Deflate

/-! ### `copyBack` is `emitCopy` -/

theorem copyBack_succ (d n : Nat) (out : Array Nat) :
    copyBack d (n + 1) out = (copyBack d n out).push ((copyBack d n out).getD ((copyBack d n out).size - d) 0) := by
  induction n generalizing out with
  | zero => rfl
  | succ n ih =>
    rw [copyBack, ih]
    rfl

theorem copyBack_size (d n : Nat) (out : Array Nat) : (copyBack d n out).size = out.size + n := by
  induction n generalizing out with
  | zero => rfl
  | succ n ih => rw [copyBack, ih]; simp; omega

/-- the bytes a match appends, in terms of the token model (which keeps histories newest first) -/
theorem copyBack_toList (d n : Nat) (out : Array Nat) (h1 : 1 ≤ d) (h2 : d ≤ out.size) :
    (copyBack d n out).toList = out.toList ++ (emitCopy d out.toList.reverse n).reverse := by
  induction n with
  | zero => simp [copyBack, emitCopy]
  | succ n ih =>
    rw [copyBack_succ, Array.toList_push, ih, emitCopy, List.reverse_cons, ← List.append_assoc]
    congr 2
    rw [← getD_toList, ih]
    have hsz := copyBack_size d n out
    have hlen : (emitCopy d out.toList.reverse n).length = n := emitCopy_length _ _ _
    simp only [List.getD_eq_getElem?_getD]
    congr 1
    have e : emitCopy d out.toList.reverse n ++ out.toList.reverse
        = (out.toList ++ (emitCopy d out.toList.reverse n).reverse).reverse := by simp
    rw [e, List.getElem?_reverse (by simp; omega)]
    congr 1
    simp
    omega

/-! ### the window the token model keeps -/

/-- the inflater's window in the token model's form: the newest `wsize` bytes, newest first -/
def winOf (wsize : Nat) (out : Array Nat) : Bytes := out.toList.reverse.take wsize

theorem winOf_append (wsize : Nat) (out : Array Nat) (e : Bytes) :
    winOf wsize (out ++ e.reverse.toArray) = (e ++ winOf wsize out).take wsize := by
  simp only [winOf, Array.toList_append, List.reverse_append, List.reverse_reverse]
  rw [take_append_take]

theorem winOf_length (wsize : Nat) (out : Array Nat) : (winOf wsize out).length = min wsize out.size := by
  simp [winOf]

/-- one token in the token model against the inflater's state -/
theorem tokOut_copy_win (wsize : Nat) (out : Array Nat) (d n : Nat) (h1 : 1 ≤ d) :
    tokOut wsize (winOf wsize out) (.copy d n) =
      if d > out.size ∨ d > wsize then none else some (emitCopy d out.toList.reverse n) := by
  simp only [tokOut, winOf_length]
  by_cases hc : d > out.size ∨ d > wsize
  · rw [if_pos hc, if_neg (by omega)]
  · rw [if_neg hc, if_pos (by omega)]
    congr 1
    apply emitCopy_congr d h1
    intro i hi
    simp only [winOf]
    rw [List.getElem?_take, if_pos (by omega)]

/-! ### one token of a Huffman block, for any pair of codes -/

/-- `cw` gives code words of the table `h` for the symbols in `S`: each of them, followed by
    anything, decodes to its symbol (in particular none is a prefix of another) -/
structure Code (h : Huff) (cw : Nat → List Bool) (S : Nat → Prop) : Prop where
  dec : ∀ {inp : Array Nat} {pos s : Nat} {r : List Bool}, S s → Rest inp pos = cw s ++ r →
    decode h inp pos = .ok (some s) (pos + (cw s).length)
  pos : ∀ s, S s → 1 ≤ (cw s).length

/-- the symbols a token needs are in the codes -/
def tokIn (Sl Sd : Nat → Prop) : Token → Prop
  | .lit b => Sl b
  | .copy d n => Sl (257 + (lenCode n).1) ∧ Sd (distCode d).1

def tokOk (t : Token) : Prop := DeflEnc.Token.ok t = true

theorem Code.ne_nil {h : Huff} {cw : Nat → List Bool} {S : Nat → Prop} (c : Code h cw S) (s : Nat) (hs : S s) :
    cw s ≠ [] := by
  intro h0
  have := c.pos s hs
  rw [h0] at this
  simp at this

section generic
variable {lit dist : Huff} {lc dc : Nat → List Bool} {Sl Sd : Nat → Prop}

theorem symStepG_lit (cl : Code lit lc Sl) {inp : Array Nat} {pos b : Nat} {r : List Bool} (wsize : Nat)
    (out : Array Nat) (hb : b < 256) (hS : Sl b) (h : Rest inp pos = lc b ++ r) :
    symStep inp lit dist wsize pos out = .next (pos + (lc b).length) (out.push b) := by
  unfold symStep
  rw [cl.dec hS h]
  simp only [hb, if_true]

theorem symStepG_eob (cl : Code lit lc Sl) {inp : Array Nat} {pos : Nat} {r : List Bool} (wsize : Nat)
    (out : Array Nat) (hS : Sl 256) (h : Rest inp pos = lc 256 ++ r) :
    symStep inp lit dist wsize pos out = .stop (.done (pos + (lc 256).length) out) := by
  unfold symStep
  rw [cl.dec hS h]
  simp only [Nat.lt_irrefl, if_false, if_true]

theorem symStepG_copy (cl : Code lit lc Sl) (cd : Code dist dc Sd) {inp : Array Nat}
    (hwf : ∀ x ∈ inp.toList, x < 256) {pos d n : Nat} {r : List Bool}
    (wsize : Nat) (out : Array Nat) (hd1 : 1 ≤ d) (hd2 : d ≤ 32768) (hn1 : 3 ≤ n) (hn2 : n ≤ 258)
    (hin : tokIn Sl Sd (.copy d n))
    (h : Rest inp pos = tokBitsG lc dc (.copy d n) ++ r) :
    symStep inp lit dist wsize pos out =
      if d > out.size ∨ d > wsize then .stop .bad
      else .next (pos + (tokBitsG lc dc (.copy d n)).length) (copyBack d n out) := by
  obtain ⟨l1, l2, l3, l4, l5⟩ := lenCode_spec n (by omega) hn1
  obtain ⟨d1, d2, d3, d4, d5⟩ := distCode_spec d hd1 hd2
  obtain ⟨hSl, hSd⟩ := hin
  simp only [tokBitsG, List.append_assoc] at h
  have hA := cl.dec hSl h
  have b1 := rest_bound h (cl.ne_nil _ hSl)
  simp only [List.length_append, bitsLE_length, bitsMSB_length] at b1
  have h1 := rest_append h
  have hB := bits_spec hwf (by omega) l4 (by omega) h1
  have h2 := rest_append h1
  have hC := cd.dec hSd h2
  have h3 := rest_append h2
  simp only [bitsLE_length, bitsMSB_length] at h3 hC h2 hB
  have b3 := rest_length inp (pos + (lc (257 + (lenCode n).1)).length + (lenCode n).2.1 + (dc (distCode d).1).length)
  rw [h3] at b3
  simp only [List.length_append, bitsLE_length] at b3
  have hD := bits_spec hwf (by omega) d4 (by omega) h3
  unfold symStep
  rw [hA]
  simp only []
  rw [if_neg (by omega), if_neg (by omega), if_neg (by omega)]
  simp only [Nat.add_sub_cancel_left, l2, hB, hC]
  rw [if_neg (by omega)]
  simp only [d2, hD, l3, d3]
  simp only [tokBitsG, List.length_append, bitsLE_length, bitsMSB_length, Nat.add_assoc]

theorem symLoopG_lit (cl : Code lit lc Sl) {inp : Array Nat} {pos b : Nat} {r : List Bool} (wsize fuel : Nat)
    (out : Array Nat) (hb : b < 256) (hS : Sl b) (h : Rest inp pos = lc b ++ r) :
    symLoop inp lit dist wsize (fuel + 1) pos out =
      symLoop inp lit dist wsize fuel (pos + (lc b).length) (out.push b) := by
  rw [symLoop, symStepG_lit cl wsize out hb hS h]

theorem symLoopG_eob (cl : Code lit lc Sl) {inp : Array Nat} {pos : Nat} {r : List Bool} (wsize fuel : Nat)
    (out : Array Nat) (hS : Sl 256) (h : Rest inp pos = lc 256 ++ r) :
    symLoop inp lit dist wsize (fuel + 1) pos out = .done (pos + (lc 256).length) out := by
  rw [symLoop, symStepG_eob cl wsize out hS h]

theorem symLoopG_copy (cl : Code lit lc Sl) (cd : Code dist dc Sd) {inp : Array Nat}
    (hwf : ∀ x ∈ inp.toList, x < 256) {pos d n : Nat} {r : List Bool}
    (wsize fuel : Nat) (out : Array Nat) (hd1 : 1 ≤ d) (hd2 : d ≤ 32768) (hn1 : 3 ≤ n) (hn2 : n ≤ 258)
    (hin : tokIn Sl Sd (.copy d n))
    (h : Rest inp pos = tokBitsG lc dc (.copy d n) ++ r) :
    symLoop inp lit dist wsize (fuel + 1) pos out =
      if d > out.size ∨ d > wsize then .bad
      else symLoop inp lit dist wsize fuel (pos + (tokBitsG lc dc (.copy d n)).length) (copyBack d n out) := by
  rw [symLoop, symStepG_copy cl cd hwf wsize out hd1 hd2 hn1 hn2 hin h]
  by_cases hc : d > out.size ∨ d > wsize
  · simp only [if_pos hc]
  · simp only [if_neg hc]

/-! ### a whole token list -/

theorem tokBitsG_length_pos (cl : Code lit lc Sl) (t : Token) (hin : tokIn Sl Sd t) :
    1 ≤ (tokBitsG lc dc t).length := by
  cases t with
  | lit b => exact cl.pos b hin
  | copy d n =>
    have := cl.pos _ hin.1
    simp only [tokBitsG, List.length_append]; omega

theorem toksBitsG_length (cl : Code lit lc Sl) (toks : List Token) (hin : ∀ t ∈ toks, tokIn Sl Sd t) :
    toks.length ≤ (toks.flatMap (tokBitsG lc dc)).length := by
  induction toks with
  | nil => simp
  | cons t ts ih =>
    have := tokBitsG_length_pos (dc := dc) cl t (hin t (by simp))
    have := ih (fun t' h' => hin t' (by simp [h']))
    simp only [List.flatMap_cons, List.length_append, List.length_cons]; omega

/-- **the body of a Huffman block, for any pair of codes**: if the bits from `pos` on are the
    encoder's tokens in these codes, the end-of-block code word and anything else, the symbol
    loop started with output `out` ends as the token model says — `.bad` when a distance is too
    far back, otherwise at the end of the block with the emitted bytes appended. -/
theorem symLoopG_toks (cl : Code lit lc Sl) (cd : Code dist dc Sd) {inp : Array Nat}
    (hwf : ∀ x ∈ inp.toList, x < 256) (wsize : Nat)
    (toks : List Token) (hok : ∀ t ∈ toks, tokOk t) (hin : ∀ t ∈ toks, tokIn Sl Sd t) (heob : Sl 256)
    (fuel pos : Nat) (out : Array Nat) (r : List Bool)
    (hf : toks.length < fuel)
    (h : Rest inp pos = toks.flatMap (tokBitsG lc dc) ++ (lc 256 ++ r)) :
    symLoop inp lit dist wsize fuel pos out =
      match inflTokens wsize (winOf wsize out) toks with
      | none => .bad
      | some (_, e) =>
        .done (pos + (toks.flatMap (tokBitsG lc dc)).length + (lc 256).length) (out ++ e.reverse.toArray) := by
  induction toks generalizing fuel pos out with
  | nil =>
    obtain ⟨fuel, rfl⟩ : ∃ f, fuel = f + 1 := ⟨fuel - 1, by simp at hf; omega⟩
    simp only [List.flatMap_nil, List.nil_append] at h
    rw [symLoopG_eob cl _ _ _ heob h]
    simp [inflTokens]
  | cons t ts ih =>
    obtain ⟨fuel, rfl⟩ : ∃ f, fuel = f + 1 := ⟨fuel - 1, by simp at hf; omega⟩
    simp only [List.flatMap_cons, List.append_assoc] at h
    have hts : ∀ t ∈ ts, tokOk t := fun t' ht' => hok t' (by simp [ht'])
    have hins : ∀ t ∈ ts, tokIn Sl Sd t := fun t' ht' => hin t' (by simp [ht'])
    have ht := hok t (by simp)
    have hint := hin t (by simp)
    cases t with
    | lit b =>
      have hb : b < 256 := by simpa [tokOk, DeflEnc.Token.ok] using ht
      simp only [tokBitsG] at h
      rw [symLoopG_lit cl _ _ _ hb hint h]
      rw [ih hts hins fuel _ (out.push b) (by simp at hf; omega) (rest_append h)]
      simp only [inflTokens, tokOut]
      have hw : ([b] ++ winOf wsize out).take wsize = winOf wsize (out.push b) := by
        have := winOf_append wsize out [b]
        simp only [List.reverse_singleton] at this
        rw [← this, Array.push_eq_append]
      rw [hw]
      cases inflTokens wsize (winOf wsize (out.push b)) ts with
      | none => rfl
      | some we =>
        simp only [tokBitsG, List.flatMap_cons, List.length_append]
        congr 1
        · omega
        · apply Array.toList_inj.mp; simp
    | copy d n =>
      simp only [tokOk, DeflEnc.Token.ok, Bool.and_eq_true, decide_eq_true_eq] at ht
      obtain ⟨⟨⟨hd1, hd2⟩, hn1⟩, hn2⟩ := ht
      rw [symLoopG_copy cl cd hwf _ _ _ hd1 hd2 hn1 hn2 hint h]
      simp only [inflTokens, tokOut_copy_win wsize out d n hd1]
      by_cases hc : d > out.size ∨ d > wsize
      · simp only [if_pos hc]
      · simp only [if_neg hc]
        have hcb : copyBack d n out = out ++ (emitCopy d out.toList.reverse n).reverse.toArray := by
          apply Array.toList_inj.mp
          rw [copyBack_toList d n out hd1 (by omega)]
          simp
        rw [ih hts hins fuel _ _ (by simp at hf; omega) (rest_append h)]
        rw [hcb, winOf_append]
        cases inflTokens wsize ((emitCopy d out.toList.reverse n ++ winOf wsize out).take wsize) ts with
        | none => rfl
        | some we =>
          simp only [List.flatMap_cons, List.length_append]
          congr 1
          · omega
          · apply Array.toList_inj.mp; simp

end generic

/-! ### the fixed codes -/

theorem litCode_length_pos (s : Nat) : 7 ≤ (litCode s).length := by
  unfold litCode
  repeat' split
  all_goals simp

theorem code_fixedLit : Code fixedLit litCode (· < 288) where
  dec := fun hs h => decode_fixedLit hs h
  pos := fun s _ => by have := litCode_length_pos s; omega

theorem code_fixedDist : Code fixedDist (bitsMSB 5) (· < 32) where
  dec := fun hs h => by have := decode_fixedDist hs h; simpa using this
  pos := fun s _ => by simp

theorem tokIn_fixed (t : Token) (h : tokOk t) : tokIn (· < 288) (· < 32) t := by
  cases t with
  | lit b =>
    have hb : b < 256 := by simpa [tokOk, DeflEnc.Token.ok] using h
    simp only [tokIn]; omega
  | copy d n =>
    simp only [tokOk, DeflEnc.Token.ok, Bool.and_eq_true, decide_eq_true_eq] at h
    obtain ⟨⟨⟨hd1, hd2⟩, hn1⟩, hn2⟩ := h
    have := (lenCode_spec n (by omega) hn1).1
    have := (distCode_spec d hd1 hd2).1
    simp only [tokIn]; omega

theorem toksBits_length (toks : List Token) (hok : ∀ t ∈ toks, tokOk t) : toks.length ≤ (toks.flatMap tokBits).length :=
  toksBitsG_length code_fixedLit toks (fun t ht => tokIn_fixed t (hok t ht))

/-- **a fixed-Huffman block body** (the instance of `symLoopG_toks` for the fixed codes) -/
theorem symLoop_toks {inp : Array Nat} (hwf : ∀ x ∈ inp.toList, x < 256) (wsize : Nat)
    (toks : List Token) (hok : ∀ t ∈ toks, tokOk t) (fuel pos : Nat) (out : Array Nat) (r : List Bool)
    (hf : toks.length < fuel)
    (h : Rest inp pos = toks.flatMap tokBits ++ (litCode 256 ++ r)) :
    symLoop inp fixedLit fixedDist wsize fuel pos out =
      match inflTokens wsize (winOf wsize out) toks with
      | none => .bad
      | some (_, e) => .done (pos + (toks.flatMap tokBits).length + 7) (out ++ e.reverse.toArray) :=
  symLoopG_toks code_fixedLit code_fixedDist hwf wsize toks hok (fun t ht => tokIn_fixed t (hok t ht)) (by decide)
    fuel pos out r hf h

/-- … and the window afterwards is the inflater's -/
theorem inflTokens_win (wsize : Nat) (toks : List Token) (out : Array Nat) (w' e : Bytes)
    (h : inflTokens wsize (winOf wsize out) toks = some (w', e)) :
    w' = winOf wsize (out ++ e.reverse.toArray) := by
  induction toks generalizing out w' e with
  | nil => simp only [inflTokens, Option.some.injEq, Prod.mk.injEq] at h; obtain ⟨rfl, rfl⟩ := h; simp [winOf]
  | cons t ts ih =>
    simp only [inflTokens] at h
    cases ht : tokOut wsize (winOf wsize out) t with
    | none => rw [ht] at h; cases h
    | some e1 =>
      rw [ht] at h
      simp only at h
      rw [← winOf_append] at h
      cases hx : inflTokens wsize (winOf wsize (out ++ e1.reverse.toArray)) ts with
      | none => rw [hx] at h; cases h
      | some we =>
        rw [hx] at h
        obtain ⟨w2, e2⟩ := we
        simp only [Option.some.injEq, Prod.mk.injEq] at h
        obtain ⟨rfl, rfl⟩ := h
        rw [ih _ _ _ hx]
        congr 1
        apply Array.toList_inj.mp; simp

end Lomond.Inflate
