/-
  C11 for the general socket without write failures, variant `compressUnderLock`: the invariant of
  `Proofs/ThreadsZ.lean` (compression object, thread-local payload, the peer's view of the wire) holds
  for every number of chunks per `sendall`.  Only the loop over the chunks before the last one
  (`write1`) is new: it changes neither the compression object nor the complete frames on the wire.
-/
import Lomond.Proofs.ThreadsN
import Lomond.Proofs.ThreadsNW
import Lomond.Proofs.ThreadsZ
import Lomond.Proofs.ThreadsDead
set_option linter.unusedSimpArgs false
set_option linter.unusedVariables false

namespace Lomond.Threads
open Lomond

/-- the socket never fails -/
def Env.NoFail (env : Env) : Prop := ∀ t i, env.failAt t i = none

theorem execW2_nofail (env : Env) (h : env.NoFail) (v : Variant) (t : Tid) (f : FrameSrc) (r : List Step)
    (sh : Shared) (c : Cur) : execW2 env t f r sh c = exec v t (.write2 f) r sh c := by
  unfold execW2; rw [h]; simp [exec]

theorem step_w2 (v : Variant) (cfg : Cfg) (s : State) (t : Tid) (c : Cur) (f : FrameSrc) (r : List Step)
    (hc : (s.th t).current v cfg = some c) (hr : c.rest = .write2 f :: r) :
    step v cfg s t =
      setTh s t (settle (s.th t) (exec v t (.write2 f) r s.sh c).2) (exec v t (.write2 f) r s.sh c).1 := by
  unfold step
  rw [hc]
  simp only [hr, blockedOn]
  rfl

theorem zpos_w1_w2 (f : FrameSrc) (r r2 : List Step) : zpos (.write2 f :: r2) = zpos (.write1 f :: r) := rfl

theorem zLive_stepN (env : Env) (hnf : env.NoFail) (v : Variant) (cfg : Cfg) (s : State) (t : Tid)
    (hvz : v.compressUnderLock = true) (B : BaseN v cfg s) (Z : ZLive v cfg s) (hns : s.sh.sockShut = false) :
    ZLive v cfg (stepN env v cfg s t) := by
  rcases stepN_cases env v cfg s t with ⟨_, e⟩ | ⟨c, f, r, hc, hr, e⟩ | ⟨c, f, r, hc, hr, e⟩
  · rw [e]; exact zLive_stepLC v cfg s t hvz B.L B.C Z hns
  · rw [e]
    have hh := current_not_halted hc
    have hv : view v cfg (s.th t) = .write1 f :: r := by rw [view_of_current hc, hr]
    have d : disc (.write1 f :: r) = true := hv ▸ B.L.disc t
    have z : zdisc cfg.noTakeover (.write1 f :: r) = true := hv ▸ Z.dz t
    obtain ⟨hhr, r2, hr2⟩ := disc_w1 d
    have o := execW1_out env t f r s.sh c
    generalize execW1 env t f r s.sh c = p at o
    -- what all non-failing outcomes have in common
    have hcommon : p.2.rest ≠ [] ∧ zdisc cfg.noTakeover p.2.rest = true ∧ zpos p.2.rest = zpos (.write1 f :: r) ∧
        frames p.1.wire = frames s.sh.wire ∧ p.1.zpend = s.sh.zpend ∧ p.1.zctx = s.sh.zctx ∧ p.2.zout = c.zout ∧
        p.2.idx = c.idx := by
      cases o with
      | dead hs => rw [hns] at hs; cases hs
      | fail _ hf => rw [hnf] at hf; cases hf
      | skip _ _ _ => subst hr2; exact ⟨by simp, zdisc_tail z, rfl, rfl, rfl, rfl, rfl, rfl⟩
      | stay _ _ _ => exact ⟨by simp, z, rfl, frames_w1 _ _ rfl, rfl, rfl, rfl, rfl⟩
      | adv _ _ _ _ => subst hr2; exact ⟨by simp, zdisc_tail z, rfl, frames_w1 _ _ rfl, rfl, rfl, rfl, rfl⟩
    obtain ⟨hne, hzd, hzp, hfr, hzpend, hzctx, hzout, hi⟩ := hcommon
    have hview : view v cfg (settle (s.th t) p.2) = p.2.rest := view_settle_ne v cfg _ _ hh hne
    constructor
    · intro u
      by_cases hu : u = t
      · subst hu; rw [setTh_same, hview]; exact hzd
      · rw [setTh_other _ _ _ _ _ hu]; exact Z.dz u
    · obtain ⟨ms, h1, h2⟩ := Z.dec
      refine ⟨ms, by rw [setTh_sh, hfr]; exact h1, ?_⟩
      intro x hx; rw [prog_after]; exact h2 x hx
    · intro u c2 call2 hc2 hcall2
      rw [prog_after] at hcall2
      rw [setTh_sh, hfr]
      by_cases hu : u = t
      · subst hu
        rw [setTh_same, current_settle v cfg _ _ hh hne] at hc2
        cases hc2
        rw [hi] at hcall2
        have := Z.at_ u c call2 hc hcall2
        rw [hr] at this
        rw [hzp]
        exact ZAt_congr hzpend hzctx hzout this
      · rw [setTh_other _ _ _ _ _ hu] at hc2
        exact ZAt_congr hzpend hzctx rfl (Z.at_ u c2 call2 hc2 hcall2)
    · intro hall
      rw [setTh_sh, hfr, hzpend, hzctx]
      apply Z.idle
      intro u
      by_cases hu : u = t
      · subst hu
        have := hall u
        rw [setTh_same, hview, hzp] at this
        rw [hv]; exact this
      · have := hall u
        rwa [setTh_other _ _ _ _ _ hu] at this
  · rw [e, execW2_nofail env hnf v, ← step_w2 v cfg s t c f r hc hr]
    exact zLive_stepLC v cfg s t hvz B.L B.C Z hns

theorem zInv_stepN (env : Env) (hnf : env.NoFail) (v : Variant) (cfg : Cfg) (s : State) (t : Tid)
    (hvz : v.compressUnderLock = true) (B : BaseN v cfg s) (Z : ZInv v cfg s) :
    ZInv v cfg (stepN env v cfg s t) := by
  cases hsx : s.sh.sockShut with
  | false => exact (zLive_stepN env hnf v cfg s t hvz B (Z.live hsx) hsx).inv
  | true =>
    obtain ⟨hw, hsh⟩ := stepN_shut env v cfg s t hsx
    refine ⟨?_, ?_, fun hn => by rw [hsh] at hn; cases hn⟩
    · -- the discipline of the programs: as in the model with two chunks, or the writer moves on to its release
      rcases stepN_cases env v cfg s t with ⟨_, e⟩ | ⟨c, f, r, hc, hr, e⟩ | ⟨c, f, r, hc, hr, e⟩
      · rw [e]; exact (zInv_stepLC v cfg s t hvz B.L B.C Z).dz
      · rw [e]
        have hv : view v cfg (s.th t) = .write1 f :: r := by rw [view_of_current hc, hr]
        have z : zdisc cfg.noTakeover (.write1 f :: r) = true := hv ▸ Z.dz t
        intro u
        by_cases hu : u = t
        · subst hu
          rw [setTh_same]
          refine view_settle_zdisc v cfg _ _ hvz (current_not_halted hc) ?_
          simp only [execW1, failWrite, hsx, if_true]
          exact zdisc_suffix (toRelease_suffix r) (zdisc_tail z)
        · rw [setTh_other _ _ _ _ _ hu]; exact Z.dz u
      · rw [e]
        have hv : view v cfg (s.th t) = .write2 f :: r := by rw [view_of_current hc, hr]
        have z : zdisc cfg.noTakeover (.write2 f :: r) = true := hv ▸ Z.dz t
        intro u
        by_cases hu : u = t
        · subst hu
          rw [setTh_same]
          refine view_settle_zdisc v cfg _ _ hvz (current_not_halted hc) ?_
          simp only [execW2, failWrite, hsx, if_true]
          exact zdisc_suffix (toRelease_suffix r) (zdisc_tail z)
        · rw [setTh_other _ _ _ _ _ hu]; exact Z.dz u
    · obtain ⟨ms, h1, h2⟩ := Z.dec
      refine ⟨ms, by rw [hw]; exact h1, ?_⟩
      intro x hx; rw [stepN_prog]; exact h2 x hx

theorem zInv_runN (env : Env) (hnf : env.NoFail) (v : Variant) (cfg : Cfg) (s : State) (sched : List Tid)
    (hvz : v.compressUnderLock = true) (B : BaseN v cfg s) (Z : ZInv v cfg s) :
    ZInv v cfg (runN env v cfg s sched) := by
  unfold runN
  induction sched generalizing s with
  | nil => exact Z
  | cons t r ih => exact ih _ (baseN_step env v cfg s t B) (zInv_stepN env hnf v cfg s t hvz B Z)

end Lomond.Threads
