/-
  C02 for whole connections: two environment scripts that differ only in how a burst of reads is
  cut give the same `runAll` result (every field of the final state except the script itself,
  which is an input: trace, event history, counters, flags, parser state, …).
-/
import Lomond.Proofs.EnvInd
set_option linter.unusedSimpArgs false
set_option linter.unusedVariables false
namespace Lomond.Core.SegLoop
open Lomond Lomond.Core

/-- two results that are the same up to the script stored in the state -/
def Sim (e₁ e₂ : List EnvStep) (r₁ r₂ : Res α) : Prop :=
  ∃ r : Res α, r₁ = r.mapEnv e₁ ∧ r₂ = r.mapEnv e₂

theorem sim_of_ei {m : M α} (hm : EnvInd m) (s : Sys) (e₁ e₂ : List EnvStep) :
    Sim e₁ e₂ (m (envTo s e₁)) (m (envTo s e₂)) := ⟨m s, hm s e₁, hm s e₂⟩

theorem sim_bind {m : M α} {f : α → M β} (hm : EnvInd m) (s : Sys) (e₁ e₂ : List EnvStep)
    (hf : ∀ a s1, m s = .ok a s1 → Sim e₁ e₂ (f a (envTo s1 e₁)) (f a (envTo s1 e₂))) :
    Sim e₁ e₂ ((m >>= f) (envTo s e₁)) ((m >>= f) (envTo s e₂)) := by
  cases h : m s with
  | ok a s1 =>
    have h1 : m (envTo s e₁) = .ok a (envTo s1 e₁) := by rw [hm, h]; rfl
    have h2 : m (envTo s e₂) = .ok a (envTo s1 e₂) := by rw [hm, h]; rfl
    rw [bind_ok h1, bind_ok h2]; exact hf a s1 h
  | err x s1 =>
    have h1 : m (envTo s e₁) = .err x (envTo s1 e₁) := by rw [hm, h]; rfl
    have h2 : m (envTo s e₂) = .err x (envTo s1 e₂) := by rw [hm, h]; rfl
    rw [bind_err h1, bind_err h2]; exact ⟨.err x s1, rfl, rfl⟩

theorem modS_ok_inv {f : Sys → Sys} {s s' : Sys} (h : modS f s = .ok () s') : s' = f s := by
  unfold modS at h; cases h; rfl

theorem yieldConnected_ok_inv {proxy : Bool} {s s' : Sys} (h : yieldConnected proxy s = .ok () s') :
    yieldEv (.connected proxy) s = .ok () s' := by
  unfold yieldConnected at h
  rw [bind_ok (show getS s = .ok s s from rfl)] at h
  split at h
  · exact tryC_ok_inv (fun x => neverOk_bind_right (fun _ => neverOk_throwE _)) h
  · exact h

theorem runLoopWith_congr {e1 e2 : List EnvStep} {s : Sys} (h : loop e1 s = loop e2 s) :
    runLoopWith e1 s = runLoopWith e2 s := by
  unfold runLoopWith
  exact tryC_congr_at (bind_congr_at (runBody_congr h))

/-- `run()` once the socket exists: request, `Connected`, then the loop — which starts in a state
    satisfying `Inv` -/
theorem sim_afterConnect (proxy : Bool) (e₁ e₂ : List EnvStep) (s : Sys) (hp : 0 < s.cfg.poll)
    (hn : NoSessionClose s.react) (hi : HdrInv s)
    (h : ∀ s', Inv s' → loop e₁ s' = loop e₂ s') :
    Sim e₁ e₂ (afterConnect proxy (envTo s e₁)) (afterConnect proxy (envTo s e₂)) := by
  unfold afterConnect
  refine sim_bind (ei_modS (fun _ _ => rfl)) s e₁ e₂ (fun _ s2 h2 => ?_)
  have e2 := modS_ok_inv h2
  rw [bind_ok (show getS (envTo s2 e₁) = .ok (envTo s2 e₁) (envTo s2 e₁) from rfl),
    bind_ok (show getS (envTo s2 e₂) = .ok (envTo s2 e₂) (envTo s2 e₂) from rfl)]
  simp only [envTo_cfg]
  refine sim_bind (ei_write _ _) s2 e₁ e₂ (fun r s3 h3 => ?_)
  have k3 : K true s2 s3 := (k_write true _ _).ok h3
  by_cases hw : wsError r = true
  · rw [if_pos hw]
    exact sim_of_ei (ei_bind ei_closeSocket (fun _ => ei_yieldEv _)) s3 e₁ e₂
  · rw [if_neg hw]
    refine sim_bind (ei_yieldConnected proxy) s3 e₁ e₂ (fun _ s4 h4 => ?_)
    have hn3 : NoSessionClose s3.react := by rw [k3.react, e2]; exact hn
    have k4 : K true s3 s4 := (kr_yieldEv true _).ok (yieldConnected_ok_inv h4) (fun _ => hn3)
    refine sim_bind (ei_modS (fun _ _ => rfl)) s4 e₁ e₂ (fun _ s5 h5 => ?_)
    have e5 := modS_ok_inv h5
    have k : K true s2 s4 := (k_po true).trans k3 k4
    have I5 : Inv s5 := by
      subst e5
      refine ⟨hdrInv_of_p (s := s) ?_ hi, ?_, ?_, Or.inl ?_⟩
      · show s4.p = s.p
        rw [k.p, e2]
      · show 0 < s4.cfg.poll
        rw [k.cfg, e2]; exact hp
      · show NoSessionClose s4.react
        rw [k.react, e2]; exact hn
      · show s4.sockOpen = true
        rw [k.sock rfl, e2]
    rw [runLoop_eq, runLoop_eq]
    simp only [envTo_env]
    exact ⟨runLoopWith e₁ s5, ei_runLoopWith e₁ s5 e₁, by
      rw [ei_runLoopWith e₂ s5 e₂, runLoopWith_congr (h s5 I5)]⟩

/-- the selector's constructor raised: the script is never looked at -/
theorem ei_afterConnectNoSel (proxy : Bool) : EnvInd (afterConnectNoSel proxy) := by
  unfold afterConnectNoSel
  refine ei_bind (ei_modS (fun _ _ => rfl)) (fun _ => ei_getS_bind (fun _ _ => rfl) (fun s =>
    ei_bind (ei_write _ _) (fun r => ?_)))
  split
  · exact ei_bind ei_closeSocket (fun _ => ei_yieldEv _)
  · refine ei_bind (ei_yieldConnected proxy) (fun _ => ei_bind (ei_modS (fun _ _ => rfl)) (fun _ => ?_))
    unfold runLoopNoSel
    exact ei_tryC (ei_bind (ei_onLoopEnd _) (fun _ => ei_selClose)) ei_runFinally

theorem sim_run (e₁ e₂ : List EnvStep) (s : Sys) (hp : 0 < s.cfg.poll)
    (hn : NoSessionClose s.react) (hi : HdrInv s)
    (h : ∀ s', Inv s' → loop e₁ s' = loop e₂ s') :
    Sim e₁ e₂ (run (envTo s e₁)) (run (envTo s e₂)) := by
  unfold run
  refine sim_bind (ei_yieldEv _) s e₁ e₂ (fun _ s1 h1 => ?_)
  have k1 : K true s s1 := (kr_yieldEv true _).ok h1 (fun _ => hn)
  rw [bind_ok (show getS (envTo s1 e₁) = .ok (envTo s1 e₁) (envTo s1 e₁) from rfl),
    bind_ok (show getS (envTo s1 e₂) = .ok (envTo s1 e₂) (envTo s1 e₂) from rfl)]
  simp only [envTo_cfg]
  cases s1.cfg.connect with
  | socketFail => exact sim_of_ei (ei_yieldEv _) s1 e₁ e₂
  | otherFail => exact sim_of_ei (ei_yieldEv _) s1 e₁ e₂
  | ok proxy =>
    exact sim_afterConnect proxy e₁ e₂ s1 (by rw [k1.cfg]; exact hp) (by rw [k1.react]; exact hn)
      (hdrInv_of_p k1.p hi) h
  | selFail proxy => exact sim_of_ei (ei_afterConnectNoSel proxy) s1 e₁ e₂

/-- what `runAll` makes of the result of `run()` -/
def finish (r : Res Unit) : Sys :=
  match r with
  | .ok _ s => s
  | .err .genExit s =>
    if s.abandonedWith then
      match closeSocket s with
      | .ok _ s' => s'
      | .err _ s' => s'
    else s
  | .err (.outer .genExit) s =>
    if s.abandonedWith then
      match closeSocket s with
      | .ok _ s' => s'
      | .err _ s' => s'
    else s
  | .err _ s => { s with trace := .incomplete :: s.trace }

theorem runAll_eq (cfg : Cfg) (react : React) (env : List EnvStep) :
    runAll cfg react env = finish (run (envTo { cfg := cfg, react := react, env := [] } env)) := by
  unfold runAll finish
  simp only []
  have e0 : ({ cfg := cfg, react := react, env := env } : Sys) =
      envTo { cfg := cfg, react := react, env := [] } env := rfl
  rw [e0]
  cases run (envTo { cfg := cfg, react := react, env := [] } env) with
  | ok a s => rfl
  | err x s =>
    cases x with
    | outer y => cases y <;> rfl
    | _ => rfl

theorem closeSocket_finish (s : Sys) (e : List EnvStep) :
    (match closeSocket (envTo s e) with | .ok _ s' => s' | .err _ s' => s') =
      envTo (match closeSocket s with | .ok _ s' => s' | .err _ s' => s') e := by
  rw [ei_closeSocket s e]
  cases closeSocket s <;> rfl

theorem finish_mapEnv (r : Res Unit) (e : List EnvStep) : finish (r.mapEnv e) = envTo (finish r) e := by
  have key : ∀ s : Sys,
      (if (envTo s e).abandonedWith = true then
        (match closeSocket (envTo s e) with | .ok _ s' => s' | .err _ s' => s') else envTo s e) =
      envTo (if s.abandonedWith = true then
        (match closeSocket s with | .ok _ s' => s' | .err _ s' => s') else s) e := by
    intro s
    by_cases ha : s.abandonedWith = true
    · have ha' : (envTo s e).abandonedWith = true := ha
      rw [if_pos ha, if_pos ha']; exact closeSocket_finish s e
    · have ha' : ¬ (envTo s e).abandonedWith = true := ha
      rw [if_neg ha, if_neg ha']
  cases r with
  | ok a s => rfl
  | err x s =>
    cases x with
    | genExit => exact key s
    | outer y =>
      cases y with
      | genExit => exact key s
      | _ => rfl
    | _ => rfl

/-- **whole connections**: if the two scripts drive the loop alike from every state satisfying
    `Inv`, the two connections end in the same state up to the stored script -/
theorem runAll_sim (cfg : Cfg) (react : React) (e₁ e₂ : List EnvStep) (hp : 0 < cfg.poll)
    (hn : NoSessionClose react) (h : ∀ s', Inv s' → loop e₁ s' = loop e₂ s') :
    ∃ X, runAll cfg react e₁ = envTo X e₁ ∧ runAll cfg react e₂ = envTo X e₂ := by
  obtain ⟨r, h1, h2⟩ := sim_run e₁ e₂ { cfg := cfg, react := react, env := [] } hp hn
    (hdrInv_init cfg react []) h
  refine ⟨finish r, ?_, ?_⟩
  · rw [runAll_eq, h1, finish_mapEnv]
  · rw [runAll_eq, h2, finish_mapEnv]

/-- the script split as: anything (`pre`), a burst of reads, anything (`rest`) -/
theorem runAll_segmentation (cfg : Cfg) (react : React) (pre rest : List EnvStep) (dt : Nat)
    (cs₁ cs₂ : List Bytes) (hp : 0 < cfg.poll) (hn : NoSessionClose react)
    (hne₁ : ∀ x ∈ cs₁, x ≠ []) (hne₂ : ∀ x ∈ cs₂, x ≠ []) (h : cs₁.flatten = cs₂.flatten) :
    ∃ X, runAll cfg react (pre ++ (readsAt dt cs₁ ++ rest)) = envTo X (pre ++ (readsAt dt cs₁ ++ rest)) ∧
         runAll cfg react (pre ++ (readsAt dt cs₂ ++ rest)) = envTo X (pre ++ (readsAt dt cs₂ ++ rest)) :=
  runAll_sim cfg react _ _ hp hn (fun s' hI =>
    loop_prefix_congr pre _ _ s' hI (fun s'' hI' => loop_segmentation dt cs₁ cs₂ rest s'' hI' hne₁ hne₂ h))

end Lomond.Core.SegLoop
