/-
  Helper lemmas for Properties/C03_Z.lean: positions in a trace that obeys the key schedule
  (`Sched`), the compressor history (`zHist`, `zCalls`, `zPayloads`), the peer's inflater over the
  payloads in wire order, and the tie to the token-level sender of Model/Deflate.lean.
-/
import Lomond.Proofs.KeySched
import Lomond.Model.Deflate
set_option linter.unusedSimpArgs false
set_option linter.unusedVariables false
namespace Lomond.ZFrame
open Lomond Lomond.Core Lomond.Core.KS

/-- an entry at any position of a scheduled trace sits in its slot -/
theorem sched_at (cfg : Cfg) (newer : List Obs) (o : Obs) (older : List Obs)
    (h : Sched cfg (newer ++ o :: older)) : SchedAt cfg older o := by
  induction newer with
  | nil => exact h.2
  | cons x l ih => exact ih h.1

theorem sched_tail (cfg : Cfg) (newer older : List Obs) (h : Sched cfg (newer ++ older)) : Sched cfg older := by
  induction newer with
  | nil => exact h
  | cons x l ih => exact ih h.1

/-- between two writes of a connection the key index grows: no two frames share a slot -/
theorem keyIdx_strict (older mid : List Obs) (o : Obs) (ho : isWrite o = true) (hw : nWrites older ≠ 0) :
    keyIdx older < keyIdx (mid ++ o :: older) := by
  unfold keyIdx
  rw [nKeys_append, nKeys_cons, isWrite_drawsKey ho]
  have := nWrites_le_nKeys older
  simp only [if_true]
  omega

/-! ### the compressor's history -/

theorem zPayloads_snoc (deflate : Deflater) (a h : List Bytes) (p : Bytes) :
    zPayloads deflate a (h ++ [p]) = zPayloads deflate a h ++ [deflate (a ++ h) p] := by
  induction h generalizing a with
  | nil => simp [zPayloads]
  | cons x h ih =>
    simp only [List.cons_append, zPayloads]
    rw [ih (a ++ [x])]
    simp [List.append_assoc]

theorem zPayloads_length (deflate : Deflater) (a h : List Bytes) : (zPayloads deflate a h).length = h.length := by
  induction h generalizing a with
  | nil => rfl
  | cons x h ih => simp [zPayloads, ih]

/-- the plaintexts of the `.wrz` entries, oldest first -/
def zPlains (T : List Obs) : List Bytes := (zCalls T).map (·.2)

theorem zPlains_cons_wrz (op : Nat) (p : Bytes) (T : List Obs) : zPlains (.wrz op p :: T) = zPlains T ++ [p] := by
  simp [zPlains, zCalls]

/-- when the history is determined it is the list of the `.wrz` plaintexts -/
theorem zHist_eq (T : List Obs) (hist : List Bytes) (h : zHist T = some hist) : hist = zPlains T := by
  induction T generalizing hist with
  | nil => simp [zHist] at h; simp [zPlains, zCalls, h]
  | cons o T ih =>
    cases o with
    | wrz op p =>
      simp only [zHist, Option.map_eq_some_iff] at h
      obtain ⟨h0, e0, rfl⟩ := h
      rw [zPlains_cons_wrz, ih h0 e0]
    | wrFail d =>
      cases d with
      | nil => simp [zHist] at h
      | cons b d => simp only [zHist] at h; rw [ih hist h]; simp [zPlains, zCalls]
    | _ => simp only [zHist] at h; rw [ih hist h]; simp [zPlains, zCalls]

/-- the history is determined at every earlier position as well -/
theorem zHist_tail (newer older : List Obs) (hist : List Bytes) (h : zHist (newer ++ older) = some hist) :
    ∃ h0, zHist older = some h0 := by
  induction newer generalizing hist with
  | nil => exact ⟨hist, h⟩
  | cons o l ih =>
    cases o with
    | wrz op p =>
      simp only [List.cons_append, zHist, Option.map_eq_some_iff] at h
      obtain ⟨h0, e0, _⟩ := h
      exact ih h0 e0
    | wrFail d =>
      cases d with
      | nil => simp [zHist] at h
      | cons b d => simp only [List.cons_append, zHist] at h; exact ih hist h
    | _ => simp only [List.cons_append, zHist] at h; exact ih hist h

/-- no compressed write failed ⇔ the history is determined -/
theorem zHist_some_iff (T : List Obs) : (∃ hist, zHist T = some hist) ↔ Obs.wrFail [] ∉ T := by
  induction T with
  | nil => simp [zHist]
  | cons o T ih =>
    cases o with
    | wrz op p =>
      simp only [zHist, Option.map_eq_some_iff, List.mem_cons, reduceCtorEq, false_or]
      rw [← ih]
      constructor
      · rintro ⟨_, h0, e0, _⟩; exact ⟨h0, e0⟩
      · rintro ⟨h0, e0⟩; exact ⟨_, h0, e0, rfl⟩
    | wrFail d =>
      cases d with
      | nil => simp [zHist]
      | cons b d => simp only [zHist, List.mem_cons, Obs.wrFail.injEq, reduceCtorEq, false_or]; exact ih
    | _ => simp only [zHist, List.mem_cons, reduceCtorEq, false_or]; exact ih

/-- the payload `wireOf` gives the compressed frame at a position is the element of `zPayloads`
    (all payloads in wire order) with the number of that frame -/
theorem zPayloads_at (deflate : Deflater) (newer older : List Obs) (op : Nat) (plain : Bytes) :
    (zPayloads deflate [] (zPlains (newer ++ .wrz op plain :: older)))[(zPlains older).length]? =
      some (deflate (zPlains older) plain) := by
  induction newer with
  | nil =>
    rw [List.nil_append, zPlains_cons_wrz, zPayloads_snoc, List.nil_append]
    rw [List.getElem?_append_right (by rw [zPayloads_length]; exact Nat.le_refl _), zPayloads_length]
    simp
  | cons x l ih =>
    have hlen : (zPlains older).length < (zPayloads deflate [] (zPlains (l ++ .wrz op plain :: older))).length := by
      have := ih
      rcases Nat.lt_or_ge (zPlains older).length (zPayloads deflate [] (zPlains (l ++ .wrz op plain :: older))).length with h | h
      · exact h
      · rw [List.getElem?_eq_none h] at this; cases this
    cases x with
    | wrz op' p' =>
      rw [List.cons_append, zPlains_cons_wrz, zPayloads_snoc, List.getElem?_append_left hlen]; exact ih
    | _ => simpa [zPlains, zCalls] using ih

/-! ### the peer -/

/-- `inflate` undoes `deflate` over histories: given the payloads of the earlier messages it turns
    the payload of the next one back into its plaintext -/
def Inverts (deflate : Deflater) (inflate : List Bytes → Bytes → Option Bytes) : Prop :=
  ∀ hist p, inflate (zPayloads deflate [] hist) (deflate hist p) = some p

theorem peer_lossless_from (deflate : Deflater) (inflate : List Bytes → Bytes → Option Bytes)
    (hinv : Inverts deflate inflate) (h ps : List Bytes) :
    peerOutputs inflate (zPayloads deflate [] h) (zPayloads deflate h ps) = some ps := by
  induction ps generalizing h with
  | nil => rfl
  | cons p ps ih =>
    simp only [zPayloads, peerOutputs]
    rw [hinv h p]
    have := ih (h ++ [p])
    rw [zPayloads_snoc, List.nil_append] at this
    rw [this]

/-! ### the token-level sender of Model/Deflate.lean -/

open Lomond.Deflate in
/-- a byte-level compressor that is the encoding `enc` of a token-level compressor `c`, with the
    context kept or renewed per message: its payloads are the encodings of `senderTokens` -/
theorem zPayloads_senderTokens {D : Nat} (c : Compressor D) (reset : Bool) (enc : List Token → Bytes)
    (deflate : Deflater)
    (hd : ∀ hist p, deflate hist p = enc (c.comp (if reset then [] else hist.flatten) p))
    (h ps : List Bytes) :
    zPayloads deflate h ps = (senderTokens c reset (if reset then [] else h.flatten) ps).map enc := by
  induction ps generalizing h with
  | nil => rfl
  | cons p ps ih =>
    simp only [zPayloads, senderTokens, List.map_cons]
    rw [hd h p, ih (h ++ [p])]
    cases reset <;> simp

end Lomond.ZFrame
