import Lomond.Model.Handshake
import Lomond.Model.Core
deriving instance DecidableEq for Except

namespace Lomond.Http
open Lomond Lomond.Spec Lomond.Handshake

theorem dropWhile_eq_nil_iff_all (p : Nat → Bool) (l : List Nat) :
    l.dropWhile p = [] ↔ ∀ x ∈ l, p x = true := by
  induction l with
  | nil => simp
  | cons a l ih =>
    by_cases h : p a = true
    · simp [h, ih]
    · simp [h]

theorem lstripBy_append_of_all (p : Nat → Bool) (a b : Str) (h : ∀ c ∈ a, p c = true) :
    lstripBy p (a ++ b) = lstripBy p b := by
  unfold lstripBy; exact List.dropWhile_append_of_pos h

theorem lstripBy_of_head (p : Nat → Bool) (c : Nat) (r : Str) (h : p c = false) :
    lstripBy p (c :: r) = c :: r := by
  unfold lstripBy; simp [h]

theorem rstripBy_append_of_all (p : Nat → Bool) (a b : Str) (h : ∀ c ∈ b, p c = true) :
    rstripBy p (a ++ b) = rstripBy p a := by
  unfold rstripBy
  rw [List.reverse_append, List.dropWhile_append_of_pos (by intro c hc; exact h c (List.mem_reverse.mp hc))]

theorem rstripBy_of_last (p : Nat → Bool) (s : Str) (c : Nat) (t : Str) (hs : s.reverse = c :: t) (h : p c = false) :
    rstripBy p s = s := by
  unfold rstripBy; rw [hs]; simp only [List.dropWhile_cons, h]; rw [← hs]; simp

theorem rstripBy_nil (p : Nat → Bool) : rstripBy p [] = [] := by simp [rstripBy]

/-- blanks around a value whose ends are not blank are stripped exactly -/
theorem stripBy_pad (p : Nat → Bool) (pre v post : Str)
    (hpre : ∀ c ∈ pre, p c = true) (hpost : ∀ c ∈ post, p c = true)
    (hhead : ∀ c r, v = c :: r → p c = false) (hlast : ∀ c t, v.reverse = c :: t → p c = false) :
    stripBy p (pre ++ v ++ post) = v := by
  unfold stripBy
  rw [List.append_assoc, lstripBy_append_of_all p pre _ hpre]
  cases v with
  | nil =>
    simp only [List.nil_append]
    have : lstripBy p post = [] := by
      unfold lstripBy; exact (dropWhile_eq_nil_iff_all p post).mpr hpost
    rw [this, rstripBy_nil]
  | cons c r =>
    rw [List.cons_append, lstripBy_of_head p c _ (hhead c r rfl), ← List.cons_append,
        rstripBy_append_of_all p _ _ hpost]
    cases hr : (c :: r).reverse with
    | nil => simp at hr
    | cons d t => exact rstripBy_of_last p _ d t hr (hlast d t hr)

theorem stripBy_eq_nil_of_all (p : Nat → Bool) (s : Str) (h : ∀ c ∈ s, p c = true) : stripBy p s = [] := by
  have := stripBy_pad p s [] [] h (by simp) (by simp) (by simp)
  simpa using this

theorem mem_dropWhile_of_neg (p : Nat → Bool) (a : Str) (c : Nat) (b : Str) (h : p c = false) :
    c ∈ List.dropWhile p (a ++ c :: b) := by
  induction a with
  | nil => simp [h]
  | cons x a ih =>
    simp only [List.cons_append, List.dropWhile_cons]
    split
    · exact ih
    · simp

theorem stripBy_ne_nil (p : Nat → Bool) (a : Str) (c : Nat) (b : Str) (h : p c = false) :
    stripBy p (a ++ c :: b) ≠ [] := by
  unfold stripBy rstripBy lstripBy
  intro h0
  have h1 : (List.dropWhile p (a ++ c :: b)).reverse.dropWhile p = [] := by
    have := congrArg List.reverse h0; simpa using this
  rw [dropWhile_eq_nil_iff_all] at h1
  have := h1 c (List.mem_reverse.mpr (mem_dropWhile_of_neg p a c b h))
  simp [h] at this

/-! ### `split(b'\r\n')` of a rendered block -/

theorem splitCRLF_ne_nil (bs : Bytes) : splitCRLF bs ≠ [] := by
  fun_induction splitCRLF bs <;> simp_all

theorem splitCRLF_line (l rest : Bytes) (h : ∀ c ∈ l, c ≠ 13) :
    splitCRLF (l ++ 13 :: 10 :: rest) = l :: splitCRLF rest := by
  induction l with
  | nil => simp [splitCRLF]
  | cons c l ih =>
    have hc : c ≠ 13 := h c (by simp)
    have ih' := ih (fun x hx => h x (by simp [hx]))
    cases hl : l ++ 13 :: 10 :: rest with
    | nil => simp at hl
    | cons d t =>
      simp only [List.cons_append, hl]
      rw [hl] at ih'
      conv => lhs; unfold splitCRLF
      split
      · rename_i heq; simp at heq
      · rename_i heq; simp at heq
      · rename_i heq; simp at heq; omega
      · rename_i heq
        simp only [List.cons.injEq] at heq
        obtain ⟨h1, h2⟩ := heq
        subst h1; subst h2
        rw [ih']


theorem splitCRLF_lines (ls : List Bytes) (h : ∀ l ∈ ls, ∀ c ∈ l, c ≠ 13) :
    splitCRLF ((ls.flatMap (· ++ [13, 10])) ++ [13, 10]) = ls ++ [[], []] := by
  induction ls with
  | nil => simp [splitCRLF]
  | cons l ls ih =>
    simp only [List.flatMap_cons, List.append_assoc, List.cons_append, List.nil_append]
    rw [splitCRLF_line l _ (h l (by simp))]
    have := ih (fun l' hl' => h l' (by simp [hl']))
    rw [this]

/-! ### character-level facts -/

theorem asciiReplace_id (bs : Bytes) (h : ∀ c ∈ bs, c < 128) : asciiReplace bs = bs := by
  unfold asciiReplace
  induction bs with
  | nil => rfl
  | cons c r ih =>
    simp only [List.map_cons]
    rw [if_pos (h c (by simp)), ih (fun x hx => h x (by simp [hx]))]

theorem lower_upcase (mask : List Bool) (s : Bytes) (h : ∀ c ∈ s, ¬ (65 ≤ c ∧ c ≤ 90)) :
    lower (Spec.upcase mask s) = s := by
  induction s generalizing mask with
  | nil => cases mask <;> simp [Spec.upcase, lower]
  | cons c r ih =>
    have hc := h c (by simp)
    have hr : ∀ x ∈ r, ¬ (65 ≤ x ∧ x ≤ 90) := fun x hx => h x (by simp [hx])
    cases mask with
    | nil =>
      simp only [Spec.upcase, lower, List.map_cons]
      have := ih [] hr
      cases r with
      | nil => simp [hc]
      | cons d t =>
        simp only [Spec.upcase, lower] at this
        simp only [List.map_cons] at this ⊢
        rw [if_neg hc]; congr 1
    | cons m ms =>
      simp only [Spec.upcase, lower, List.map_cons]
      have := ih ms hr
      unfold lower at this
      rw [this]
      congr 1
      repeat' split
      all_goals omega

theorem partition_colon (a b : Str) (sep : Nat) (h : ∀ c ∈ a, c ≠ sep) :
    partition sep (a ++ sep :: b) = (a, true, b) := by
  induction a with
  | nil => simp [partition]
  | cons c a ih =>
    have hc : c ≠ sep := h c (by simp)
    simp only [List.cons_append, partition, hc, if_false]
    rw [ih (fun x hx => h x (by simp [hx]))]

/-! ### the header table -/

def names (hs : List (Str × Str)) : List Str := hs.map (·.1)

theorem hdrHas_false (hs : List (Str × Str)) (n : Str) (h : n ∉ names hs) : hdrHas hs n = false := by
  unfold hdrHas
  induction hs with
  | nil => rfl
  | cons p hs ih =>
    simp only [names, List.map_cons, List.mem_cons, not_or] at h
    simp only [List.any_cons, Bool.or_eq_false_iff, decide_eq_false_iff_not]
    exact ⟨fun e => h.1 e.symm, ih h.2⟩

theorem hdrAppend_new (hs : List (Str × Str)) (n v : Str) (h : n ∉ names hs) :
    hdrAppend hs n v = hs ++ [(n, v)] := by
  induction hs with
  | nil => rfl
  | cons p hs ih =>
    obtain ⟨pn, pv⟩ := p
    simp only [names, List.map_cons, List.mem_cons, not_or] at h
    simp only [hdrAppend, List.cons_append]
    rw [if_neg (fun e => h.1 e.symm), ih h.2]

theorem hdrAppend_last (hs : List (Str × Str)) (n v w : Str) (h : n ∉ names hs) :
    hdrAppend (hs ++ [(n, v)]) n w = hs ++ [(n, v ++ w)] := by
  induction hs with
  | nil => simp [hdrAppend]
  | cons p hs ih =>
    obtain ⟨pn, pv⟩ := p
    simp only [names, List.map_cons, List.mem_cons, not_or] at h
    simp only [hdrAppend, List.cons_append]
    rw [if_neg (fun e => h.1 e.symm), ih h.2]

/-! ### `Response.__init__`'s loop, one line at a time -/

theorem parseLines_blank (l : Bytes) (rest : List Bytes) (cur : Option Str) (hs : List (Str × Str))
    (h : strip (asciiReplace l) = []) : parseLines (l :: rest) cur hs = parseLines rest cur hs := by
  simp only [parseLines, h, if_true]

theorem parseLines_cont (l : Bytes) (rest : List Bytes) (name : Str) (hs : List (Str × Str)) (c : Nat) (t : Str)
    (hl : asciiReplace l = c :: t) (hne : strip (c :: t) ≠ []) (hc : Gen.lws.contains c = true) (hn : name ≠ []) :
    parseLines (l :: rest) (some name) hs = parseLines rest (some name) (hdrAppend hs name (32 :: lstrip (c :: t))) := by
  simp only [parseLines, hl, hne, if_false, hc, if_true, hn, ne_eq, not_false_eq_true]

theorem parseLines_head (l : Bytes) (rest : List Bytes) (cur : Option Str) (hs : List (Str × Str)) (c : Nat) (t : Str)
    (hl : asciiReplace l = c :: t) (hne : strip (c :: t) ≠ []) (hc : Gen.lws.contains c = false) :
    parseLines (l :: rest) cur hs =
      let name := strip (lower (partition 58 (c :: t)).1)
      let hs1 := if hdrHas hs name then hdrAppend hs name [44] else hs
      parseLines rest (some name) (hdrAppend hs1 name (partition 58 (c :: t)).2.2) := by
  simp only [parseLines, hl, hne, if_false, hc]
  rfl

/-! ### one written header field through the loop -/

/-- a character of a field name as sent: printable, not a blank, not a colon -/
def isWireNameChar (x : Nat) : Prop := 33 ≤ x ∧ x ≤ 126 ∧ x ≠ 58

theorem isNameChar_spec (c : Nat) (h : isNameChar c = true) : 33 ≤ c ∧ c ≤ 126 ∧ c ≠ 58 ∧ ¬ (65 ≤ c ∧ c ≤ 90) := by
  simp only [isNameChar, isVChar, Bool.and_eq_true, decide_eq_true_eq, bne_iff_ne, ne_eq, Bool.not_eq_true',
    Bool.and_eq_false_iff, decide_eq_false_iff_not] at h
  omega

theorem upcase_mem (mask : List Bool) (s : Bytes) (h : ∀ c ∈ s, isNameChar c = true) :
    ∀ x ∈ upcase mask s, isWireNameChar x := by
  induction s generalizing mask with
  | nil => cases mask <;> simp [upcase]
  | cons c r ih =>
    have hc := isNameChar_spec c (h c (by simp))
    have hr : ∀ x ∈ r, isNameChar x = true := fun x hx => h x (by simp [hx])
    cases mask with
    | nil =>
      intro x hx
      simp only [upcase] at hx
      have := isNameChar_spec x (h x hx)
      unfold isWireNameChar; omega
    | cons m ms =>
      intro x hx
      simp only [upcase, List.mem_cons] at hx
      rcases hx with hx | hx
      · unfold isWireNameChar; subst hx; split <;> omega
      · exact ih ms hr x hx

theorem upcase_ne_nil (mask : List Bool) (s : Bytes) (h : s ≠ []) : upcase mask s ≠ [] := by
  cases s with
  | nil => exact absurd rfl h
  | cons c r => cases mask <;> simp [upcase]


structure FieldOk (f : WireField) : Prop where
  name_ne : f.name ≠ []
  name_chars : ∀ c ∈ f.name, isNameChar c = true
  pre_blank : ∀ c ∈ f.pre, isBlank c = true
  post_blank : ∀ c ∈ f.post, isBlank c = true
  fold_ok : ∀ ws, f.fold = some ws → ws ≠ [] ∧ (∀ c ∈ ws, isBlank c = true) ∧ f.value ≠ []
  value_chars : ∀ c ∈ f.value, c < 128 ∧ c ≠ 13 ∧ c ≠ 10
  value_head : ∀ c r, f.value = c :: r → isVChar c = true
  value_last : ∀ c t, f.value.reverse = c :: t → isVChar c = true

theorem fieldOk_of_ok (f : WireField) (h : f.ok = true) : FieldOk f := by
  unfold WireField.ok at h
  simp only [Bool.and_eq_true, decide_eq_true_eq, List.all_eq_true, bne_iff_ne, ne_eq] at h
  obtain ⟨⟨⟨⟨⟨⟨⟨h1, h2⟩, h3⟩, h4⟩, h5⟩, h6⟩, h7⟩, h8⟩ := h
  refine ⟨h1, h2, h3, h4, ?_, ?_, ?_, ?_⟩
  · intro ws hws
    rw [hws] at h5
    simp only [Bool.and_eq_true, decide_eq_true_eq, List.all_eq_true] at h5
    exact ⟨h5.1.1, h5.1.2, h5.2⟩
  · intro c hc
    have := h6 c hc
    exact ⟨this.1.1, this.1.2, this.2⟩
  · intro c r hv; rw [hv] at h7; exact h7
  · intro c t hv; rw [hv] at h8; exact h8

theorem isBlank_spec (c : Nat) (h : isBlank c = true) : c = 32 ∨ c = 9 := by
  simp only [isBlank, Bool.or_eq_true, beq_iff_eq] at h; exact h

theorem isVChar_spec (c : Nat) (h : isVChar c = true) : 33 ≤ c ∧ c ≤ 126 := by
  simp only [isVChar, Bool.and_eq_true, decide_eq_true_eq] at h; exact h

theorem strSpace_of_blank (c : Nat) (h : isBlank c = true) : isStrSpace c = true := by
  rcases isBlank_spec c h with h | h <;> subst h <;> decide

theorem not_strSpace_of_vchar (c : Nat) (h : 33 ≤ c ∧ c ≤ 126) : isStrSpace c = false := by
  simp only [isStrSpace, Bool.or_eq_false_iff, Bool.and_eq_false_iff, decide_eq_false_iff_not]
  omega

theorem lws_of_blank (c : Nat) (h : isBlank c = true) : Gen.lws.contains c = true := by
  rcases isBlank_spec c h with h | h <;> subst h <;> decide

theorem not_lws_of_vchar (c : Nat) (h : 33 ≤ c ∧ c ≤ 126) : Gen.lws.contains c = false := by
  simp only [Gen.lws, List.contains_cons, List.contains_nil, Bool.or_false, Bool.or_eq_false_iff, beq_eq_false_iff_ne, ne_eq]
  omega

/-- what `Response.__init__` has collected for the field before the final `strip()` -/
def _root_.Lomond.Spec.WireField.raw (f : WireField) : Str :=
  match f.fold with
  | none => f.pre ++ f.value ++ f.post
  | some _ => f.pre ++ 32 :: (f.value ++ f.post)

theorem strip_name (n : Bytes) (_hne : n ≠ []) (h : ∀ c ∈ n, isNameChar c = true) : strip n = n := by
  have := stripBy_pad isStrSpace [] n [] (by simp) (by simp)
    (by intro c r e; exact not_strSpace_of_vchar c (by have := isNameChar_spec c (h c (by simp [e])); omega))
    (by intro c t e
        have hm : c ∈ n := by rw [← List.mem_reverse, e]; simp
        exact not_strSpace_of_vchar c (by have := isNameChar_spec c (h c hm); omega))
  simpa [strip] using this

theorem parseLines_field (f : WireField) (hf : FieldOk f) (rest : List Bytes) (cur : Option Str)
    (hs : List (Str × Str)) (hn : f.name ∉ names hs) :
    parseLines (f.lines ++ rest) cur hs = parseLines rest (some f.name) (hs ++ [(f.name, f.raw)]) := by
  -- the name as sent
  have hup := upcase_mem f.upper f.name hf.name_chars
  have hupne := upcase_ne_nil f.upper f.name hf.name_ne
  cases hu : upcase f.upper f.name with
  | nil => exact absurd hu hupne
  | cons u0 ut =>
  have hu0 : isWireNameChar u0 := hup u0 (by rw [hu]; simp)
  have hlow : lower (u0 :: ut) = f.name := by
    rw [← hu]; exact lower_upcase f.upper f.name (fun c hc => (isNameChar_spec c (hf.name_chars c hc)).2.2.2)
  have hnocolon : ∀ c ∈ u0 :: ut, c ≠ 58 := by
    intro c hc; rw [← hu] at hc; exact (hup c hc).2.2
  have hvalue128 : ∀ c ∈ f.value, c < 128 := fun c hc => (hf.value_chars c hc).1
  have hblank128 : ∀ (b : Bytes), (∀ c ∈ b, isBlank c = true) → ∀ c ∈ b, c < 128 := by
    intro b hb c hc; rcases isBlank_spec c (hb c hc) with h | h <;> omega
  have hname128 : ∀ c ∈ u0 :: ut, c < 128 := by
    intro c hc; rw [← hu] at hc; have := hup c hc; unfold isWireNameChar at this; omega
  unfold isWireNameChar at hu0
  cases hfold : f.fold with
  | none =>
    -- one line: name ":" pre value post
    have hline : f.lines = [(u0 :: ut) ++ [58] ++ f.pre ++ f.value ++ f.post] := by
      simp [WireField.lines, hfold, hu]
    have hascii : asciiReplace ((u0 :: ut) ++ [58] ++ f.pre ++ f.value ++ f.post) =
        u0 :: (ut ++ 58 :: (f.pre ++ f.value ++ f.post)) := by
      rw [asciiReplace_id]
      · simp
      · intro c hc
        simp only [List.append_assoc, List.mem_append, List.mem_cons, List.not_mem_nil, or_false] at hc
        rcases hc with hc | hc | hc | hc | hc
        · exact hname128 c (by simp [hc])
        · omega
        · exact hblank128 _ hf.pre_blank c hc
        · exact hvalue128 c hc
        · exact hblank128 _ hf.post_blank c hc
    rw [hline, List.singleton_append,
      parseLines_head _ rest cur hs u0 _ hascii
        (by have := stripBy_ne_nil isStrSpace [] u0 (ut ++ 58 :: (f.pre ++ f.value ++ f.post)) (not_strSpace_of_vchar u0 (by omega))
            simpa [strip] using this)
        (not_lws_of_vchar u0 (by omega))]
    have hpart : partition 58 (u0 :: (ut ++ 58 :: (f.pre ++ f.value ++ f.post))) =
        (u0 :: ut, true, f.pre ++ f.value ++ f.post) := by
      have := partition_colon (u0 :: ut) (f.pre ++ f.value ++ f.post) 58 hnocolon
      simpa using this
    simp only [hpart, hlow, strip_name f.name hf.name_ne hf.name_chars, hdrHas_false hs f.name hn,
      Bool.false_eq_true, if_false, hdrAppend_new hs f.name _ hn, WireField.raw, hfold]
  | some ws =>
    obtain ⟨hwsne, hwsb, hvne⟩ := hf.fold_ok ws hfold
    have hline : f.lines = [(u0 :: ut) ++ [58] ++ f.pre, ws ++ f.value ++ f.post] := by
      simp [WireField.lines, hfold, hu]
    have hascii1 : asciiReplace ((u0 :: ut) ++ [58] ++ f.pre) = u0 :: (ut ++ 58 :: f.pre) := by
      rw [asciiReplace_id]
      · simp
      · intro c hc
        simp only [List.append_assoc, List.mem_append, List.mem_cons, List.not_mem_nil, or_false] at hc
        rcases hc with hc | hc | hc
        · exact hname128 c (by simp [hc])
        · omega
        · exact hblank128 _ hf.pre_blank c hc
    cases hws : ws with
    | nil => exact absurd hws hwsne
    | cons w0 wt =>
    cases hv : f.value with
    | nil => exact absurd hv hvne
    | cons v0 vt =>
    have hw0 : isBlank w0 = true := hwsb w0 (by simp [hws])
    have hv0 := isVChar_spec v0 (hf.value_head v0 vt hv)
    have hascii2 : asciiReplace (ws ++ f.value ++ f.post) = w0 :: (wt ++ v0 :: (vt ++ f.post)) := by
      rw [asciiReplace_id]
      · simp [hws, hv]
      · intro c hc
        simp only [List.append_assoc, List.mem_append] at hc
        rcases hc with hc | hc | hc
        · exact hblank128 _ hwsb c hc
        · exact hvalue128 c hc
        · exact hblank128 _ hf.post_blank c hc
    rw [hline]
    show parseLines (((u0 :: ut) ++ [58] ++ f.pre) :: (ws ++ f.value ++ f.post) :: rest) cur hs = _
    rw [parseLines_head _ _ cur hs u0 _ hascii1
        (by have := stripBy_ne_nil isStrSpace [] u0 (ut ++ 58 :: f.pre) (not_strSpace_of_vchar u0 (by omega))
            simpa [strip] using this)
        (not_lws_of_vchar u0 (by omega))]
    have hpart : partition 58 (u0 :: (ut ++ 58 :: f.pre)) = (u0 :: ut, true, f.pre) := by
      have := partition_colon (u0 :: ut) f.pre 58 hnocolon
      simpa using this
    simp only [hpart, hlow, strip_name f.name hf.name_ne hf.name_chars, hdrHas_false hs f.name hn,
      Bool.false_eq_true, if_false, hdrAppend_new hs f.name _ hn]
    rw [parseLines_cont _ rest f.name _ w0 _ hascii2
        (by have := stripBy_ne_nil isStrSpace (w0 :: wt) v0 (vt ++ f.post) (not_strSpace_of_vchar v0 hv0)
            simpa [strip] using this)
        (lws_of_blank w0 hw0) hf.name_ne,
      hdrAppend_last hs f.name _ _ hn]
    have hl : lstrip (w0 :: (wt ++ v0 :: (vt ++ f.post))) = v0 :: (vt ++ f.post) := by
      have h1 := lstripBy_append_of_all isStrSpace (w0 :: wt) (v0 :: (vt ++ f.post))
        (by intro c hc; exact strSpace_of_blank c (hwsb c (by rw [hws]; exact hc)))
      have h2 := lstripBy_of_head isStrSpace v0 (vt ++ f.post) (not_strSpace_of_vchar v0 hv0)
      simp only [lstrip]
      rw [← List.cons_append, h1, h2]
    rw [hl]
    simp [WireField.raw, hfold, hv]

theorem strip_raw (f : WireField) (hf : FieldOk f) : strip f.raw = f.value := by
  have hpre : ∀ c ∈ f.pre, isStrSpace c = true := fun c hc => strSpace_of_blank c (hf.pre_blank c hc)
  have hpost : ∀ c ∈ f.post, isStrSpace c = true := fun c hc => strSpace_of_blank c (hf.post_blank c hc)
  have hh : ∀ c r, f.value = c :: r → isStrSpace c = false :=
    fun c r e => not_strSpace_of_vchar c (isVChar_spec c (hf.value_head c r e))
  have hl : ∀ c t, f.value.reverse = c :: t → isStrSpace c = false :=
    fun c t e => not_strSpace_of_vchar c (isVChar_spec c (hf.value_last c t e))
  unfold WireField.raw
  cases f.fold with
  | none => exact stripBy_pad isStrSpace f.pre f.value f.post hpre hpost hh hl
  | some ws =>
    have := stripBy_pad isStrSpace (f.pre ++ [32]) f.value f.post
      (by intro c hc; simp only [List.mem_append, List.mem_singleton] at hc
          rcases hc with hc | hc
          · exact hpre c hc
          · subst hc; decide) hpost hh hl
    simpa [strip] using this


theorem parseLines_fields (fs : List WireField) (hok : ∀ f ∈ fs, FieldOk f) (rest : List Bytes)
    (cur : Option Str) (hs : List (Str × Str))
    (hnd : (fs.map (·.name)).Nodup) (hdisj : ∀ f ∈ fs, f.name ∉ names hs) :
    ∃ cur', parseLines (fs.flatMap WireField.lines ++ rest) cur hs =
      parseLines rest cur' (hs ++ fs.map (fun f => (f.name, f.raw))) := by
  induction fs generalizing cur hs with
  | nil => exact ⟨cur, by simp⟩
  | cons f fs ih =>
    simp only [List.flatMap_cons, List.append_assoc]
    rw [parseLines_field f (hok f (by simp)) _ cur hs (hdisj f (by simp))]
    simp only [List.map_cons, List.nodup_cons] at hnd
    obtain ⟨cur', h⟩ := ih (fun g hg => hok g (by simp [hg])) (some f.name) (hs ++ [(f.name, f.raw)]) hnd.2
      (by
        intro g hg
        simp only [names, List.map_append, List.map_cons, List.map_nil, List.mem_append, List.mem_singleton, not_or]
        refine ⟨hdisj g (by simp [hg]), ?_⟩
        intro e
        exact hnd.1 (by rw [← e]; exact List.mem_map_of_mem hg))
    exact ⟨cur', by rw [h]; simp⟩

theorem parseLines_tail (cur : Option Str) (hs : List (Str × Str)) : parseLines [[], []] cur hs = hs := by
  have h : strip (asciiReplace []) = [] := by decide
  rw [parseLines_blank [] _ cur hs h, parseLines_blank [] _ cur hs h]
  rfl

theorem lines_no_cr (f : WireField) (hf : FieldOk f) : ∀ l ∈ f.lines, ∀ c ∈ l, c ≠ 13 := by
  have hup := upcase_mem f.upper f.name hf.name_chars
  have hb : ∀ (b : Bytes), (∀ c ∈ b, isBlank c = true) → ∀ c ∈ b, c ≠ 13 := by
    intro b hb c hc; rcases isBlank_spec c (hb c hc) with h | h <;> omega
  have hn : ∀ c ∈ upcase f.upper f.name, c ≠ 13 := by
    intro c hc; have := hup c hc; unfold isWireNameChar at this; omega
  have hv : ∀ c ∈ f.value, c ≠ 13 := fun c hc => (hf.value_chars c hc).2.1
  intro l hl c hc
  unfold WireField.lines at hl
  cases hfold : f.fold with
  | none =>
    simp only [hfold, List.mem_singleton] at hl
    subst hl
    simp only [List.append_assoc, List.mem_append, List.mem_singleton] at hc
    rcases hc with hc | hc | hc | hc | hc
    · exact hn c hc
    · omega
    · exact hb _ hf.pre_blank c hc
    · exact hv c hc
    · exact hb _ hf.post_blank c hc
  | some ws =>
    obtain ⟨_, hwsb, _⟩ := hf.fold_ok ws hfold
    simp only [hfold, List.mem_cons, List.not_mem_nil, or_false] at hl
    rcases hl with hl | hl
    · subst hl
      simp only [List.append_assoc, List.mem_append, List.mem_singleton] at hc
      rcases hc with hc | hc | hc
      · exact hn c hc
      · omega
      · exact hb _ hf.pre_blank c hc
    · subst hl
      simp only [List.append_assoc, List.mem_append] at hc
      rcases hc with hc | hc | hc
      · exact hb _ hwsb c hc
      · exact hv c hc
      · exact hb _ hf.post_blank c hc

/-- the header table `Response.__init__` builds from a rendered reply -/
theorem headers_render (sl : Bytes) (fs : List WireField) (hsl : ∀ c ∈ sl, c ≠ 13)
    (hok : ∀ f ∈ fs, FieldOk f) (hnd : (fs.map (·.name)).Nodup) :
    (parseResponse (renderReply sl fs)).headers = fs.map (fun f => (f.name, f.value)) := by
  have hsplit : splitCRLF (renderReply sl fs) = sl :: (fs.flatMap WireField.lines ++ [[], []]) := by
    unfold renderReply
    have := splitCRLF_line sl (((fs.flatMap WireField.lines).flatMap (· ++ [13, 10])) ++ [13, 10]) hsl
    simp only [List.append_assoc, List.cons_append, List.nil_append] at this ⊢
    rw [this]
    congr 1
    have h2 := splitCRLF_lines (fs.flatMap WireField.lines) (by
      intro l hl
      simp only [List.mem_flatMap] at hl
      obtain ⟨f, hf, hl⟩ := hl
      exact lines_no_cr f (hok f hf) l hl)
    simpa using h2
  unfold parseResponse
  simp only [hsplit, List.tail_cons]
  obtain ⟨cur', h⟩ := parseLines_fields fs hok [[], []] none [] hnd (by intro f _; simp [names])
  rw [h, parseLines_tail]
  simp only [List.nil_append, List.map_map]
  apply List.map_congr_left
  intro f hf
  simp [strip_raw f (hok f hf)]


/-! ### the status line -/

theorem splitNone2_status (ver code reason : Bytes)
    (hv : ver ≠ []) (hvs : ∀ c ∈ ver, isBytesSpace c = false)
    (hc : code ≠ []) (hcs : ∀ c ∈ code, isBytesSpace c = false) :
    (splitNone2 (statusLine ver code reason)).getD 1 [] = code := by
  cases hver : ver with
  | nil => exact absurd hver hv
  | cons v0 vt =>
  cases hcode : code with
  | nil => exact absurd hcode hc
  | cons c0 ct =>
  have hv0 : isBytesSpace v0 = false := hvs v0 (by simp [hver])
  have hc0 : isBytesSpace c0 = false := hcs c0 (by simp [hcode])
  have hvt : ∀ a ∈ v0 :: vt, (!isBytesSpace a) = true := by
    intro a ha; rw [← hver] at ha; simp [hvs a ha]
  have hct : ∀ a ∈ c0 :: ct, (!isBytesSpace a) = true := by
    intro a ha; rw [← hcode] at ha; simp [hcs a ha]
  have h32 : isBytesSpace 32 = true := by decide
  have e0 : statusLine (v0 :: vt) (c0 :: ct) reason = (v0 :: vt) ++ 32 :: ((c0 :: ct) ++ 32 :: reason) := by
    simp [statusLine]
  have s0 : List.dropWhile isBytesSpace ((v0 :: vt) ++ 32 :: ((c0 :: ct) ++ 32 :: reason)) =
      (v0 :: vt) ++ 32 :: ((c0 :: ct) ++ 32 :: reason) := by
    simp [hv0]
  have t1 : List.takeWhile (fun c => !isBytesSpace c) ((v0 :: vt) ++ 32 :: ((c0 :: ct) ++ 32 :: reason)) = v0 :: vt := by
    rw [List.takeWhile_append_of_pos hvt]; simp [h32]
  have d1 : List.dropWhile (fun c => !isBytesSpace c) ((v0 :: vt) ++ 32 :: ((c0 :: ct) ++ 32 :: reason)) =
      32 :: ((c0 :: ct) ++ 32 :: reason) := by
    rw [List.dropWhile_append_of_pos hvt]; simp [h32]
  have r1 : List.dropWhile isBytesSpace (32 :: ((c0 :: ct) ++ 32 :: reason)) = (c0 :: ct) ++ 32 :: reason := by
    simp [h32, hc0]
  have t2 : List.takeWhile (fun c => !isBytesSpace c) ((c0 :: ct) ++ 32 :: reason) = c0 :: ct := by
    rw [List.takeWhile_append_of_pos hct]; simp [h32]
  rw [e0]
  unfold splitNone2
  simp only [s0, t1, d1, r1, t2]
  simp only [List.cons_append, reduceCtorEq, if_false]
  split <;> rfl

theorem pyInt_three_digits (a b c : Nat) (ha : isDigit a = true) (hb : isDigit b = true) (hc : isDigit c = true) :
    pyInt isBytesSpace [a, b, c] = some (false, (a - 48) * 100 + (b - 48) * 10 + (c - 48)) := by
  simp only [isDigit, Bool.and_eq_true, decide_eq_true_eq] at ha hb hc
  have sa : isBytesSpace a = false := by simp [isBytesSpace]; omega
  have sc : isBytesSpace c = false := by simp [isBytesSpace]; omega
  have hstrip : stripBy isBytesSpace [a, b, c] = [a, b, c] := by
    have := stripBy_pad isBytesSpace [] [a, b, c] [] (by simp) (by simp)
      (by intro x r e; simp at e; rw [← e.1]; exact sa)
      (by intro x t e; simp at e; rw [← e.1]; exact sc)
    simpa using this
  have da : isDigit a = true := by simp [isDigit]; omega
  have db : isDigit b = true := by simp [isDigit]; omega
  have dc : isDigit c = true := by simp [isDigit]; omega
  unfold pyInt
  simp only [hstrip]
  have hf : ([a, b, c].filter isDigit).length = 3 := by simp [List.filter, da, db, dc]
  rw [hf]
  simp only [pyIntMaxDigits, show ¬ (3 > 4300) by omega, if_false]
  split
  · rename_i h; simp at h
  · rename_i r h; simp at h; omega
  · rename_i r h; simp at h; omega
  · simp only [digitsVal, da, db, dc, if_true, Option.map_some]
    congr 2; omega

theorem status_101_iff (a b c : Nat) (ha : isDigit a = true) (hb : isDigit b = true) (hc : isDigit c = true) :
    pyInt isBytesSpace [a, b, c] = some (false, 101) ↔ [a, b, c] = [49, 48, 49] := by
  rw [pyInt_three_digits a b c ha hb hc]
  simp only [isDigit, Bool.and_eq_true, decide_eq_true_eq] at ha hb hc
  simp only [Option.some.injEq, Prod.mk.injEq, true_and, List.cons.injEq, and_true]
  omega


/-! ### looking fields up -/

theorem get_of_headers (r : Response) (fs : List WireField)
    (h : r.headers = fs.map (fun f => (f.name, f.value))) (n : Str) :
    r.get n = fieldValue fs (lower n) := by
  unfold Response.get fieldValue
  rw [h, List.find?_map]
  simp only [Option.map_map]
  rfl

theorem fieldValue_eq_some_iff (fs : List WireField) (hnd : (fs.map (·.name)).Nodup) (n v : Bytes) :
    fieldValue fs n = some v ↔ ∃ f ∈ fs, f.name = n ∧ f.value = v := by
  unfold fieldValue
  induction fs with
  | nil => simp
  | cons g fs ih =>
    simp only [List.map_cons, List.nodup_cons] at hnd
    simp only [List.find?_cons]
    by_cases hg : g.name = n
    · simp only [hg, decide_true, Option.map_some, Option.some.injEq, List.mem_cons, exists_eq_or_imp, true_and]
      constructor
      · intro h; exact Or.inl h
      · rintro (h | ⟨f, hf, hfn, _⟩)
        · exact h
        · exfalso; apply hnd.1; rw [hg, ← hfn]; exact List.mem_map_of_mem hf
    · simp only [hg, decide_false, List.mem_cons, exists_eq_or_imp, false_and, false_or]
      exact ih hnd.2

theorem fieldValue_eq_none_iff (fs : List WireField) (n : Bytes) :
    fieldValue fs n = none ↔ ∀ f ∈ fs, f.name ≠ n := by
  unfold fieldValue
  simp [List.find?_eq_none]

/-- the order in which the fields are written does not matter -/
theorem fieldValue_perm (fs fs' : List WireField) (hp : fs.Perm fs') (hnd : (fs.map (·.name)).Nodup) (n : Bytes) :
    fieldValue fs n = fieldValue fs' n := by
  have hnd' : (fs'.map (·.name)).Nodup := (hp.map _).nodup_iff.mp hnd
  cases h : fieldValue fs' n with
  | none =>
    rw [fieldValue_eq_none_iff] at h ⊢
    intro f hf; exact h f (hp.mem_iff.mp hf)
  | some v =>
    rw [fieldValue_eq_some_iff fs' hnd'] at h
    rw [fieldValue_eq_some_iff fs hnd]
    obtain ⟨f, hf, h1, h2⟩ := h
    exact ⟨f, hp.mem_iff.mpr hf, h1, h2⟩

theorem statusCode_render (ver reason : Bytes) (a b c : Nat) (fs : List WireField)
    (hv : ver ≠ []) (hvs : ∀ x ∈ ver, isBytesSpace x = false) (hr : ∀ x ∈ reason, x ≠ 13)
    (ha : isDigit a = true) (hb : isDigit b = true) (hc : isDigit c = true) :
    (parseResponse (renderReply (statusLine ver [a, b, c] reason) fs)).statusCode = pyInt isBytesSpace [a, b, c] := by
  simp only [isDigit, Bool.and_eq_true, decide_eq_true_eq] at ha hb hc
  have hsl : ∀ x ∈ statusLine ver [a, b, c] reason, x ≠ 13 := by
    intro x hx e
    subst e
    have h1 : (13 : Nat) ∉ ver := fun h => by have := hvs 13 h; revert this; decide
    have h2 : (13 : Nat) ∉ reason := fun h => hr 13 h rfl
    simp only [statusLine, List.append_assoc, List.mem_append, List.mem_cons, List.not_mem_nil, or_false] at hx
    rcases hx with h | h | h | h | h
    all_goals first | exact h1 h | exact h2 h | omega
  have hsplit : (splitCRLF (renderReply (statusLine ver [a, b, c] reason) fs)).headD [] = statusLine ver [a, b, c] reason := by
    unfold renderReply
    have := splitCRLF_line (statusLine ver [a, b, c] reason) (((fs.flatMap WireField.lines).flatMap (· ++ [13, 10])) ++ [13, 10]) hsl
    simp only [List.append_assoc, List.cons_append, List.nil_append] at this ⊢
    rw [this]; rfl
  unfold parseResponse
  simp only [hsplit]
  rw [splitNone2_status ver [a, b, c] reason hv hvs (by simp)
    (by intro x hx; simp only [List.mem_cons, List.not_mem_nil, or_false] at hx
        simp only [isBytesSpace, Bool.or_eq_false_iff, Bool.and_eq_false_iff, decide_eq_false_iff_not, beq_eq_false_iff_ne]
        omega)]
  have : ([a, b, c].all (· < 128)) = true := by simp; omega
  simp [this]


/-! ### the request through the independent reader -/

theorem splitLines_line (l rest : Bytes) (h : ∀ c ∈ l, c ≠ 13) :
    splitLines (l ++ 13 :: 10 :: rest) = l :: splitLines rest := by
  induction l with
  | nil => simp [splitLines]
  | cons c l ih =>
    have hc : c ≠ 13 := h c (by simp)
    have ih' := ih (fun x hx => h x (by simp [hx]))
    cases hl : l ++ 13 :: 10 :: rest with
    | nil => simp at hl
    | cons d t =>
      simp only [List.cons_append, hl]
      rw [hl] at ih'
      conv => lhs; unfold splitLines
      split
      · rename_i heq; simp at heq
      · rename_i heq; simp at heq; omega
      · rename_i heq
        simp only [List.cons.injEq] at heq
        obtain ⟨h1, h2⟩ := heq
        subst h1; subst h2
        rw [ih']

theorem joinCRLF_cons (l : Bytes) (rest : List Bytes) (h : rest ≠ []) :
    joinCRLF (l :: rest) = l ++ 13 :: 10 :: joinCRLF rest := by
  cases rest with
  | nil => exact absurd rfl h
  | cons r rs => simp [joinCRLF, crlf]

theorem splitLines_join (ls : List Bytes) (h : ∀ l ∈ ls, ∀ c ∈ l, c ≠ 13) :
    splitLines (joinCRLF (ls ++ [crlf])) = ls ++ [[], []] := by
  induction ls with
  | nil => simp [joinCRLF, crlf, splitLines]
  | cons l ls ih =>
    rw [List.cons_append, joinCRLF_cons l _ (by simp), splitLines_line l _ (h l (by simp)),
      ih (fun l' hl' => h l' (by simp [hl']))]
    rfl

theorem splitAtBlank_lines (ls : List Bytes) (h : ∀ l ∈ ls, l ≠ []) :
    splitAtBlank (ls ++ [[], []]) = some (ls, [[]]) := by
  induction ls with
  | nil => simp [splitAtBlank]
  | cons l ls ih =>
    simp only [List.cons_append, splitAtBlank, h l (by simp), if_false]
    rw [ih (fun l' hl' => h l' (by simp [hl']))]

theorem splitSP_word (w rest : Bytes) (h : ∀ c ∈ w, c ≠ 32) :
    splitSP (w ++ 32 :: rest) = w :: splitSP rest := by
  induction w with
  | nil =>
    simp only [List.nil_append, splitSP]
    cases splitSP rest <;> simp <;> rfl
  | cons c w ih =>
    have hc : c ≠ 32 := h c (by simp)
    simp only [List.cons_append, splitSP, ih (fun x hx => h x (by simp [hx])), hc, if_false]

theorem splitSP_last (w : Bytes) (h : ∀ c ∈ w, c ≠ 32) : splitSP w = [w] := by
  induction w with
  | nil => rfl
  | cons c w ih =>
    have hc : c ≠ 32 := h c (by simp)
    simp only [splitSP, ih (fun x hx => h x (by simp [hx])), hc, if_false]


/-- a header value as `build_request` may emit it: no CR/LF, no blank at either end -/
structure ValueOk (v : Bytes) : Prop where
  no_crlf : ∀ c ∈ v, c ≠ 13 ∧ c ≠ 10
  head : ∀ c r, v = c :: r → isOWS c = false
  last : ∀ c t, v.reverse = c :: t → isOWS c = false

/-- a header name: non-empty, no colon, no blank, no CR/LF -/
structure NameOk (n : Bytes) : Prop where
  ne : n ≠ []
  chars : ∀ c ∈ n, c ≠ 58 ∧ c ≠ 13 ∧ c ≠ 10 ∧ isOWS c = false

theorem trimOWS_eq_stripBy (bs : Bytes) : trimOWS bs = stripBy isOWS bs := rfl

theorem splitField_line (n v : Bytes) (hn : NameOk n) (hv : ValueOk v) :
    splitField (n ++ 58 :: 32 :: v) = some (n, v) := by
  have htrim : trimOWS (32 :: v) = v := by
    rw [trimOWS_eq_stripBy]
    have := stripBy_pad isOWS [32] v [] (by simp [isOWS]) (by simp) hv.head hv.last
    simpa using this
  have : ∀ (m : Bytes), (∀ c ∈ m, c ≠ 58) → splitField (m ++ 58 :: 32 :: v) = some (m, v) := by
    intro m hm
    induction m with
    | nil => simp [splitField, htrim]
    | cons c m ih =>
      have hc : c ≠ 58 := hm c (by simp)
      simp only [List.cons_append, splitField, hc, if_false, ih (fun x hx => hm x (by simp [hx]))]
  exact this n (fun c hc => (hn.chars c hc).1)

theorem allFields_lines (hs : List (Bytes × Bytes)) (h : ∀ p ∈ hs, NameOk p.1 ∧ ValueOk p.2) :
    allFields (hs.map (fun p => p.1 ++ 58 :: 32 :: p.2)) = some hs := by
  induction hs with
  | nil => rfl
  | cons p hs ih =>
    simp only [List.map_cons, allFields, splitField_line p.1 p.2 (h p (by simp)).1 (h p (by simp)).2,
      ih (fun q hq => h q (by simp [hq]))]

/-- the general statement: a request line and header list satisfying the side conditions is
    read back exactly -/
theorem parseRequest_join (m t v : Bytes) (hs : List (Bytes × Bytes))
    (hm : m ≠ [] ∧ ∀ c ∈ m, c ≠ 32 ∧ c ≠ 13 ∧ c ≠ 10)
    (ht : t ≠ [] ∧ ∀ c ∈ t, c ≠ 32 ∧ c ≠ 13 ∧ c ≠ 10)
    (hv : v ≠ [] ∧ ∀ c ∈ v, c ≠ 32 ∧ c ≠ 13 ∧ c ≠ 10)
    (hh : ∀ p ∈ hs, NameOk p.1 ∧ ValueOk p.2) :
    parseRequest (joinCRLF (((m ++ 32 :: (t ++ 32 :: v)) :: hs.map (fun p => p.1 ++ 58 :: 32 :: p.2)) ++ [crlf])) =
      some { method := m, target := t, version := v, headers := hs } := by
  have hline_nocr : ∀ c ∈ m ++ 32 :: (t ++ 32 :: v), c ≠ 13 ∧ c ≠ 10 := by
    intro c hc
    simp only [List.mem_append, List.mem_cons] at hc
    rcases hc with hc | hc | hc | hc | hc
    · exact (hm.2 c hc).2
    · omega
    · exact (ht.2 c hc).2
    · omega
    · exact (hv.2 c hc).2
  have hhdr_nocr : ∀ l ∈ hs.map (fun p => p.1 ++ 58 :: 32 :: p.2), ∀ c ∈ l, c ≠ 13 ∧ c ≠ 10 := by
    intro l hl c hc
    simp only [List.mem_map] at hl
    obtain ⟨p, hp, rfl⟩ := hl
    simp only [List.mem_append, List.mem_cons] at hc
    rcases hc with hc | hc | hc | hc
    · exact ⟨((hh p hp).1.chars c hc).2.1, ((hh p hp).1.chars c hc).2.2.1⟩
    · omega
    · omega
    · exact (hh p hp).2.no_crlf c hc
  have hsplit := splitLines_join ((m ++ 32 :: (t ++ 32 :: v)) :: hs.map (fun p => p.1 ++ 58 :: 32 :: p.2)) (by
    intro l hl c hc
    simp only [List.mem_cons] at hl
    rcases hl with hl | hl
    · subst hl; exact (hline_nocr c hc).1
    · exact (hhdr_nocr l hl c hc).1)
  have hblank := splitAtBlank_lines (hs.map (fun p => p.1 ++ 58 :: 32 :: p.2)) (by
    intro l hl
    simp only [List.mem_map] at hl
    obtain ⟨p, hp, rfl⟩ := hl
    simp)
  have hsp : splitSP (m ++ 32 :: (t ++ 32 :: v)) = [m, t, v] := by
    rw [splitSP_word m _ (fun c hc => (hm.2 c hc).1),
      splitSP_word t _ (fun c hc => (ht.2 c hc).1), splitSP_last v (fun c hc => (hv.2 c hc).1)]
  unfold parseRequest
  rw [hsplit]
  simp only [List.cons_append]
  rw [hblank]
  simp only [hsp, allFields_lines hs hh]
  rw [if_pos]
  refine ⟨hm.1, ht.1, hv.1, ?_, ?_⟩
  · simp only [List.all_eq_true, Bool.and_eq_true, decide_eq_true_eq, Bool.not_eq_true', Bool.decide_and]
    intro p hp
    exact ⟨(hh p hp).1.ne, fun c hc => ((hh p hp).1.chars c hc).2.2.2⟩
  · simp only [List.all_eq_true, Bool.and_eq_true, bne_iff_ne, ne_eq, List.mem_cons]
    intro l hl c hc
    rcases hl with hl | hl
    · subst hl; exact hline_nocr c hc
    · exact hhdr_nocr l hl c hc


def valueOkB (v : Bytes) : Bool :=
  v.all (fun c => c != 13 && c != 10) &&
  (match v with | [] => true | c :: _ => !isOWS c) &&
  (match v.reverse with | [] => true | c :: _ => !isOWS c)

def nameOkB (n : Bytes) : Bool :=
  n ≠ [] && n.all (fun c => c != 58 && c != 13 && c != 10 && !isOWS c)

theorem valueOk_of_B (v : Bytes) (h : valueOkB v = true) : ValueOk v := by
  simp only [valueOkB, Bool.and_eq_true, List.all_eq_true, bne_iff_ne, ne_eq] at h
  obtain ⟨⟨h1, h2⟩, h3⟩ := h
  refine ⟨fun c hc => h1 c hc, ?_, ?_⟩
  · intro c r e; rw [e] at h2; simpa using h2
  · intro c t e; rw [e] at h3; simpa using h3

theorem nameOk_of_B (n : Bytes) (h : nameOkB n = true) : NameOk n := by
  simp only [nameOkB, Bool.and_eq_true, decide_eq_true_eq, List.all_eq_true, bne_iff_ne, ne_eq, Bool.not_eq_true'] at h
  exact ⟨h.1, fun c hc => by have := h.2 c hc; exact ⟨this.1.1.1, this.1.1.2, this.1.2, this.2⟩⟩

/-- the header list `build_request` is meant to send -/
def requestHeaders (c : ReqCfg) : List (Bytes × Bytes) :=
  c.customHeaders ++
  [ (lit "Host", c.hostPort), (lit "Upgrade", lit "websocket"), (lit "Connection", lit "Upgrade"),
    (lit "Sec-WebSocket-Key", c.key), (lit "Sec-WebSocket-Version", lit "13"), (lit "User-Agent", c.agent) ] ++
  (if c.protocols ≠ [] then [(lit "Sec-WebSocket-Protocol", joinWith (lit ", ") c.protocols)] else []) ++
  (if c.compress then [(lit "Sec-WebSocket-Extensions", deflateOffer)] else [])

theorem buildRequest_shape (c : ReqCfg) :
    buildRequest c = joinCRLF (((lit "GET" ++ 32 :: (c.resource ++ 32 :: lit "HTTP/1.1")) ::
      (requestHeaders c).map (fun p => p.1 ++ 58 :: 32 :: p.2)) ++ [crlf]) := by
  have h1 : lit "GET " = lit "GET" ++ [32] := by decide
  have h2 : lit " HTTP/1.1" = 32 :: lit "HTTP/1.1" := by decide
  have h3 : lit ": " = [58, 32] := by decide
  have h4 : natBytes Gen.wsVersion = lit "13" := by decide
  unfold buildRequest requestHeaders
  simp only [h1, h2, h3, h4, List.append_assoc, List.cons_append, List.nil_append]

theorem request_wellformed (c : ReqCfg)
    (hres : c.resource ≠ [] ∧ ∀ x ∈ c.resource, x ≠ 32 ∧ x ≠ 13 ∧ x ≠ 10)
    (hcustom : ∀ p ∈ c.customHeaders, NameOk p.1 ∧ ValueOk p.2)
    (hhost : ValueOk c.hostPort) (hkey : ValueOk c.key) (hagent : ValueOk c.agent)
    (hproto : ValueOk (joinWith (lit ", ") c.protocols)) :
    parseRequest (buildRequest c) =
      some { method := lit "GET", target := c.resource, version := lit "HTTP/1.1", headers := requestHeaders c } := by
  rw [buildRequest_shape]
  apply parseRequest_join
  · exact ⟨by decide, by decide⟩
  · exact hres
  · exact ⟨by decide, by decide⟩
  · intro p hp
    unfold requestHeaders at hp
    simp only [List.mem_append, List.mem_cons, List.not_mem_nil, or_false] at hp
    rcases hp with ((hp | hp) | hp) | hp
    · exact hcustom p hp
    · rcases hp with hp | hp | hp | hp | hp | hp <;> subst hp
      · exact ⟨nameOk_of_B (lit "Host") (by decide), hhost⟩
      · exact ⟨nameOk_of_B _ (by decide), valueOk_of_B _ (by decide)⟩
      · exact ⟨nameOk_of_B _ (by decide), valueOk_of_B _ (by decide)⟩
      · exact ⟨nameOk_of_B (lit "Sec-WebSocket-Key") (by decide), hkey⟩
      · exact ⟨nameOk_of_B _ (by decide), valueOk_of_B _ (by decide)⟩
      · exact ⟨nameOk_of_B (lit "User-Agent") (by decide), hagent⟩
    · split at hp
      · simp only [List.mem_singleton] at hp; subst hp
        exact ⟨nameOk_of_B (lit "Sec-WebSocket-Protocol") (by decide), hproto⟩
      · simp at hp
    · split at hp
      · simp only [List.mem_singleton] at hp; subst hp
        exact ⟨nameOk_of_B (lit "Sec-WebSocket-Extensions") (by decide), valueOk_of_B deflateOffer (by decide +kernel)⟩
      · simp at hp


/-- every character is printable ASCII without blanks -/
def Solid (v : Bytes) : Prop := ∀ c ∈ v, 33 ≤ c ∧ c ≤ 126

theorem valueOk_of_ends (v : Bytes) (hn : ∀ c ∈ v, c ≠ 13 ∧ c ≠ 10)
    (hh : ∀ c r, v = c :: r → 33 ≤ c) (hl : ∀ c t, v.reverse = c :: t → 33 ≤ c) : ValueOk v := by
  refine ⟨hn, ?_, ?_⟩
  · intro c r e; have := hh c r e
    simp only [isOWS, Bool.or_eq_false_iff, beq_eq_false_iff_ne, ne_eq]; omega
  · intro c t e; have := hl c t e
    simp only [isOWS, Bool.or_eq_false_iff, beq_eq_false_iff_ne, ne_eq]; omega

theorem valueOk_of_solid (v : Bytes) (h : Solid v) : ValueOk v := by
  apply valueOk_of_ends
  · intro c hc; have := h c hc; omega
  · intro c r e; exact (h c (by simp [e])).1
  · intro c t e
    have : c ∈ v := by rw [← List.mem_reverse, e]; simp
    exact (h c this).1

theorem solid_append (a b : Bytes) (ha : Solid a) (hb : Solid b) : Solid (a ++ b) := by
  intro c hc; simp only [List.mem_append] at hc
  rcases hc with hc | hc
  · exact ha c hc
  · exact hb c hc

theorem decDigits_digits (fuel n : Nat) : ∀ c ∈ decDigits fuel n, 48 ≤ c ∧ c ≤ 57 := by
  induction fuel generalizing n with
  | zero => simp [decDigits]
  | succ f ih =>
    intro c hc
    unfold decDigits at hc
    split at hc
    · simp only [List.mem_singleton] at hc; omega
    · simp only [List.mem_append, List.mem_singleton] at hc
      rcases hc with hc | hc
      · exact ih _ c hc
      · omega

theorem natBytes_solid (n : Nat) : Solid (natBytes n) := by
  intro c hc; have := decDigits_digits _ _ c hc; omega

theorem natBytes_ne_nil (n : Nat) : natBytes n ≠ [] := by
  unfold natBytes decDigits
  split <;> simp

theorem hostPort_ok (u : Url) (h : Solid u.host) : ValueOk u.hostPort := by
  apply valueOk_of_solid
  unfold Url.hostPort
  exact solid_append _ _ (solid_append _ _ h (by intro c hc; simp at hc; omega)) (natBytes_solid _)

theorem resource_ok (u : Url) (hp : Solid u.path) (hq : Solid u.query) :
    u.resource ≠ [] ∧ ∀ x ∈ u.resource, x ≠ 32 ∧ x ≠ 13 ∧ x ≠ 10 := by
  have hs : Solid u.resource ∧ u.resource ≠ [] := by
    unfold Url.resource
    have h47 : Solid [47] := by intro c hc; simp at hc; omega
    have h63 : Solid [63] := by intro c hc; simp at hc; omega
    by_cases hpe : u.path = [] <;> by_cases hqe : u.query = [] <;> simp only [hpe, hqe, if_true, if_false, ne_eq, not_true_eq_false, not_false_eq_true]
    · exact ⟨h47, by simp⟩
    · exact ⟨solid_append _ _ (solid_append _ _ h47 h63) hq, by simp⟩
    · exact ⟨hp, by first | trivial | exact hpe⟩
    · exact ⟨solid_append _ _ (solid_append _ _ hp h63) hq, by simp [hpe]⟩
  exact ⟨hs.2, fun x hx => by have := hs.1 x hx; omega⟩

/-- offered protocol names: non-empty tokens -/
theorem protocols_ok (ps : List Bytes) (h : ∀ p ∈ ps, p ≠ [] ∧ Solid p) : ValueOk (joinWith (lit ", ") ps) := by
  have key : ∀ (ps : List Bytes), (∀ p ∈ ps, p ≠ [] ∧ Solid p) → ps ≠ [] →
      (∀ c ∈ joinWith (lit ", ") ps, c ≠ 13 ∧ c ≠ 10) ∧
      (∀ c r, joinWith (lit ", ") ps = c :: r → 33 ≤ c) ∧
      (∀ c t, (joinWith (lit ", ") ps).reverse = c :: t → 33 ≤ c) := by
    intro ps
    induction ps with
    | nil => intro _ h; exact absurd rfl h
    | cons p ps ih =>
      intro h _
      obtain ⟨hpne, hps⟩ := h p (by simp)
      cases ps with
      | nil =>
        simp only [joinWith]
        refine ⟨fun c hc => by have := hps c hc; omega, ?_, ?_⟩
        · intro c r e; exact (hps c (by simp [e])).1
        · intro c t e
          have : c ∈ p := by rw [← List.mem_reverse, e]; simp
          exact (hps c this).1
      | cons q qs =>
        obtain ⟨i1, i2, i3⟩ := ih (fun x hx => h x (by simp [hx])) (by simp)
        simp only [joinWith]
        have hsep : lit ", " = [44, 32] := by decide
        refine ⟨?_, ?_, ?_⟩
        · intro c hc
          simp only [hsep, List.append_assoc, List.mem_append, List.mem_cons, List.not_mem_nil, or_false, or_assoc] at hc
          rw [← hsep] at hc
          rcases hc with hc | hc | hc | hc
          · have := hps c hc; omega
          · omega
          · omega
          · exact i1 c hc
        · intro c r e
          cases hp : p with
          | nil => exact absurd hp hpne
          | cons p0 pt =>
            rw [hp] at e
            simp only [List.cons_append, List.cons.injEq] at e
            rw [← e.1]; exact (hps p0 (by simp [hp])).1
        · intro c t e
          cases hj : (joinWith (lit ", ") (q :: qs)).reverse with
          | nil =>
            exfalso
            have hlen := congrArg List.length hj
            have : (joinWith (lit ", ") (q :: qs)) ≠ [] := by
              have hq := (h q (by simp)).1
              cases qs with
              | nil => simpa [joinWith] using hq
              | cons _ _ => simp [joinWith, hq]
            simp at hlen
            exact this hlen
          | cons d dt =>
            simp only [List.reverse_append, hj, List.cons_append, List.cons.injEq] at e
            rw [← e.1]; exact i3 d dt hj
  by_cases hps : ps = []
  · subst hps
    exact ⟨by simp [joinWith], by simp [joinWith], by simp [joinWith]⟩
  · obtain ⟨k1, k2, k3⟩ := key ps h hps
    exact valueOk_of_ends _ k1 k2 k3

theorem b64Char_range (n : Nat) : 43 ≤ b64Char n ∧ b64Char n ≤ 122 := by
  by_cases h : n < 64
  · have : ∀ k, k < 64 → 43 ≤ b64Char k ∧ b64Char k ≤ 122 := by decide
    exact this n h
  · unfold b64Char
    rw [List.getD_eq_getElem?_getD, List.getElem?_eq_none (by simp [b64Alphabet]; omega)]
    simp

theorem b64encode_solid : ∀ (bs : Bytes), Solid (b64encode bs)
  | [] => by intro c hc; simp [b64encode] at hc
  | [a] => by
    intro c hc; simp only [b64encode, List.mem_cons, List.not_mem_nil, or_false] at hc
    rcases hc with hc | hc | hc | hc
    · have := b64Char_range (a / 4); omega
    · have := b64Char_range (a % 4 * 16); omega
    · omega
    · omega
  | [a, b] => by
    intro c hc; simp only [b64encode, List.mem_cons, List.not_mem_nil, or_false] at hc
    rcases hc with hc | hc | hc | hc
    · have := b64Char_range (a / 4); omega
    · have := b64Char_range (a % 4 * 16 + b / 16); omega
    · have := b64Char_range (b % 16 * 4); omega
    · omega
  | a :: b :: c :: r => by
    intro x hx; simp only [b64encode, List.mem_cons] at hx
    rcases hx with hx | hx | hx | hx | hx
    · have := b64Char_range (a / 4); omega
    · have := b64Char_range (a % 4 * 16 + b / 16); omega
    · have := b64Char_range (b % 16 * 4 + c / 64); omega
    · have := b64Char_range (c % 64); omega
    · exact b64encode_solid r x hx


end Lomond.Http

namespace Lomond.Http
open Lomond

theorem processExtensions_isSome (l : List Str) (acc d : Option DeflateCfg)
    (h : processExtensions l acc = .ok d) :
    d.isSome = true ↔ (acc.isSome = true ∨ ∃ e ∈ l, (parseExtension e).1 = ofString "permessage-deflate") := by
  induction l generalizing acc with
  | nil =>
    simp only [processExtensions, Except.ok.injEq] at h
    subst h; simp
  | cons e l ih =>
    simp only [processExtensions] at h
    split at h
    · rename_i htok
      split at h
      · simp at h
      · rename_i d' _
        rw [ih (some d') h]
        simp only [Option.isSome_some, true_or, List.mem_cons, exists_eq_or_imp, true_iff]
        exact Or.inr (Or.inl htok)
    · rename_i htok
      rw [ih acc h]
      simp only [List.mem_cons, exists_eq_or_imp]
      constructor
      · rintro (h1 | h1)
        · exact Or.inl h1
        · exact Or.inr (Or.inr h1)
      · rintro (h1 | h1 | h1)
        · exact Or.inl h1
        · exact absurd h1 htok
        · exact Or.inr h1

end Lomond.Http

namespace Lomond.Handshake
open Lomond Lomond.Http

/-! ### base64 loses nothing -/

theorem b64Val_char : ∀ n, n < 64 → b64Val (b64Char n) = some n := by decide
theorem b64Char_ne_pad : ∀ n, n < 64 → b64Char n ≠ 61 := by decide

theorem b64decode_encode : ∀ (bs : Bytes), Bytes.WF bs → b64decode (b64encode bs) = some bs
  | [], _ => by simp [b64encode, b64decode]
  | [a], h => by
    have ha : a < 256 := h a (by simp)
    simp only [b64encode, b64decode, b64Val_char (a / 4) (by omega), b64Val_char (a % 4 * 16) (by omega)]
    congr 2; omega
  | [a, b], h => by
    have ha : a < 256 := h a (by simp)
    have hb : b < 256 := h b (by simp)
    have h3 := b64Char_ne_pad (b % 16 * 4) (by omega)
    simp only [b64encode]
    unfold b64decode
    split
    · rename_i heq; simp at heq
    · rename_i heq; simp only [List.cons.injEq, and_true] at heq; exact absurd heq.2.2 h3
    · rename_i heq
      simp only [List.cons.injEq, and_true] at heq
      obtain ⟨rfl, rfl, rfl⟩ := heq
      simp only [b64Val_char (a / 4) (by omega), b64Val_char (a % 4 * 16 + b / 16) (by omega), b64Val_char (b % 16 * 4) (by omega)]
      congr 2
      · omega
      · congr 1; omega
    · rename_i h1 h2 heq
      simp only [List.cons.injEq] at heq
      exact (h2 heq.2.2.2.1.symm heq.2.2.2.2.symm).elim
    · rename_i h1 h2 h4 h5
      exact (h4 _ _ _ rfl).elim
  | a :: b :: c :: r, h => by
    have ha : a < 256 := h a (by simp)
    have hb : b < 256 := h b (by simp)
    have hc : c < 256 := h c (by simp)
    have hr : Bytes.WF r := fun x hx => h x (by simp [hx])
    have h3 := b64Char_ne_pad (b % 16 * 4 + c / 64) (by omega)
    have h4 := b64Char_ne_pad (c % 64) (by omega)
    have ih := b64decode_encode r hr
    simp only [b64encode]
    unfold b64decode
    split
    · rename_i heq; simp at heq
    · rename_i heq; simp only [List.cons.injEq] at heq; exact absurd heq.2.2.1 h3
    · rename_i heq; simp only [List.cons.injEq] at heq; exact absurd heq.2.2.2.1 h4
    · rename_i h1 h2 heq
      simp only [List.cons.injEq] at heq
      obtain ⟨rfl, rfl, rfl, rfl, rfl⟩ := heq
      simp only [b64Val_char (a / 4) (by omega), b64Val_char (a % 4 * 16 + b / 16) (by omega),
        b64Val_char (b % 16 * 4 + c / 64) (by omega), b64Val_char (c % 64) (by omega), ih]
      congr 2
      · omega
      · congr 1
        · omega
        · congr 1; omega
    · rename_i h1 h2 h5 h6
      exact (h6 _ _ _ _ _ rfl).elim


theorem b64encode_injective (a b : Bytes) (ha : Bytes.WF a) (hb : Bytes.WF b) (h : b64encode a = b64encode b) : a = b := by
  have h1 := b64decode_encode a ha
  have h2 := b64decode_encode b hb
  rw [h, h2] at h1
  exact (Option.some.inj h1).symm

theorem afterConnects_spec (rnd : Nat → Bytes) (n : Nat) :
    (afterConnects rnd n).draws = n + 1 ∧ (afterConnects rnd n).key = b64encode (rnd n) := by
  induction n with
  | zero => exact ⟨rfl, rfl⟩
  | succ n ih =>
    simp only [afterConnects, connect, freshState, ih.1]
    exact ⟨trivial, trivial⟩

end Lomond.Handshake
