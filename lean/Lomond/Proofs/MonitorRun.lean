/-
  `run()` and the monitor: the terminal event is emitted exactly once, last, after the socket has been
  closed; `Disconnected(graceful=True)` only when the loop ended normally with an observable cause.
-/
import Lomond.Proofs.Monitor
import Lomond.Proofs.Graceful
set_option linter.unusedSimpArgs false
set_option linter.unusedVariables false
namespace Lomond.Core.Monitor
open Lomond Lomond.Core

/-! ### `run()`: the terminal event -/

/-- `Disconnected(graceful=True)` occurs in the trace (newest first) only with `C` holding of the
    event history before it -/
def gracefulOK (C : List Event → Prop) : List Obs → Prop
  | [] => True
  | o :: pre => (∀ k, o = .ev (.disconnected k true) → C (histOf pre)) ∧ gracefulOK C pre

theorem gracefulOK_of_noTerminal (C : List Event → Prop) (tr : List Obs)
    (h : ∀ e, Obs.ev e ∈ tr → Event.isTerminal e = false) : gracefulOK C tr := by
  induction tr with
  | nil => trivial
  | cons o r ih =>
    refine ⟨?_, ih (fun e he => h e (List.mem_cons_of_mem _ he))⟩
    intro k hk; subst hk
    have := h _ List.mem_cons_self; cases this

theorem gracefulOK_append_quiet (C : List Event → Prop) (l tr : List Obs) (h : ∀ o ∈ l, Obs.quiet o = true)
    (ht : gracefulOK C tr) : gracefulOK C (l ++ tr) := by
  induction l with
  | nil => exact ht
  | cons o r ih =>
    have ho := h o List.mem_cons_self
    refine ⟨?_, ih (fun o' ho' => h o' (List.mem_cons_of_mem _ ho'))⟩
    intro k hk; subst hk; cases ho

/-- the reading of `gracefulOK` on decompositions of the trace -/
theorem gracefulOK_split {C : List Event → Prop} {tr : List Obs} (h : gracefulOK C tr) (post pre : List Obs)
    (k : String) (hs : tr = post ++ .ev (.disconnected k true) :: pre) : C (histOf pre) := by
  induction post generalizing tr with
  | nil => subst hs; exact h.1 k rfl
  | cons o r ih => subst hs; exact ih h.2 rfl

theorem Keeps.gracefulOK {C : List Event → Prop} {s s' : Sys} (h : Keeps s s') (hs : gracefulOK C s.trace) :
    gracefulOK C s'.trace := by
  obtain ⟨l, e, n⟩ := h.trace
  rw [e]; exact gracefulOK_append_quiet C l _ n hs

/-- the monitor accepts the trace; every terminal event in it is preceded by a `sockClose`; no
    end-of-script marker; `graceful=True` only if `P` -/
def AccT (P : List Event → Prop) (s : Sys) : Prop :=
  Acc s ∧ termOK s.trace ∧ NoInc s ∧ HI s ∧ gracefulOK P s.trace

/-- the terminal event has been emitted (and the socket was closed before it) -/
def Done (P : List Event → Prop) (s : Sys) : Prop :=
  phaseOf s.trace = some .done ∧ termOK s.trace ∧ NoInc s ∧ HI s ∧ gracefulOK P s.trace

variable {P : List Event → Prop}

theorem Done.accT {s : Sys} (h : Done P s) : AccT P s := ⟨⟨_, h.1, by decide⟩, h.2⟩

theorem Keeps.done {s s' : Sys} (h : Keeps s s') (hs : Done P s) : Done P s' :=
  ⟨h.phase.trans hs.1, h.termOK hs.2.1, h.noInc hs.2.2.1, h.hi hs.2.2.2.1, h.gracefulOK hs.2.2.2.2⟩

theorem Keeps.accT {s s' : Sys} (h : Keeps s s') (hs : AccT P s) : AccT P s' :=
  ⟨h.acc hs.1, h.termOK hs.2.1, h.noInc hs.2.2.1, h.hi hs.2.2.2.1, h.gracefulOK hs.2.2.2.2⟩

theorem GU.notDone {s : Sys} (h : GU s) :
    ∃ ph, phaseOf s.trace = some ph ∧ ph ≠ .done ∧ ph ≠ .start ∧ ∀ k g, Mon.step ph (.disconnected k g) = some .done := by
  rcases h with (h | h) | h
  · exact ⟨_, h.1, by decide, by decide, fun _ _ => rfl⟩
  · exact ⟨_, h.1, by decide, by decide, fun _ _ => rfl⟩
  · exact ⟨_, h.1, by decide, by decide, fun _ _ => rfl⟩

theorem GU.sockInv {s : Sys} (h : GU s) : SockInv s :=
  h.elim (fun g => g.elim (fun a => a.2.2) (fun a => a.2)) (fun a => a.2)

theorem GU.accT {s : Sys} (h : GU s) : AccT P s := by
  obtain ⟨ph, e, hd, hst, _⟩ := h.notDone
  exact ⟨⟨ph, e, hst⟩, termOK_of_noTerminal _ (phaseOf_noTerminal e hd), h.sockInv.2.1, h.sockInv.2.2,
    gracefulOK_of_noTerminal P _ (phaseOf_noTerminal e hd)⟩

theorem G.accT {s : Sys} (h : G s) : AccT P s := GU.accT (Or.inl h)

theorem closeSocket_closed (s : Sys) : (closeSocket s).state.sockOpen = false := (closeSocket_state s).1

/-- `_close_socket(); yield <terminal event>`: the monitor reaches its final state and the
    `sockClose` observation precedes the event -/
theorem closeYield_done (e : Event) (s : Sys) (ph : Phase) (hp : phaseOf s.trace = some ph) (hd : ph ≠ .done)
    (hk : SockInv s) (he : Mon.step ph e = some .done) (hg : ∀ k, e = .disconnected k true → P s.hist) :
    Done P ((do closeSocket; yieldEv e : M Unit) s).state := by
  obtain ⟨s1, h1⟩ := closeSocket_ok s
  have k1 := keeps_closeSocket.ok h1
  have c1 := closeSocket_closed s
  rw [h1] at c1; simp only [Res.state_ok] at c1
  have hp1 : phaseOf s1.trace = some ph := k1.phase.trans hp
  have hm : Obs.sockClose ∈ s1.trace := (k1.sockInv hk).1 c1
  rw [bind_ok h1]
  have hi1 : s1.hist = histOf s1.trace := (k1.sockInv hk).2.2
  refine (yieldEv_keeps e s1).done ⟨?_, ⟨?_, ?_⟩, noInc_pushEv e s1 (k1.noInc hk.2.1), hi_pushEv e s1 hi1, ⟨?_, ?_⟩⟩
  · rw [phaseOf_pushEv, hp1]; exact he
  · intro _; exact hm
  · exact termOK_of_noTerminal _ (phaseOf_noTerminal hp1 hd)
  · intro k hk
    cases hk
    show P (histOf s1.trace)
    rw [← hi1, k1.hist]; exact hg k rfl
  · exact gracefulOK_of_noTerminal P _ (phaseOf_noTerminal hp1 hd)

theorem disconnected_done (k : String) (g : Bool) (s : Sys) (hs : GU s) (hg : g = true → P s.hist) :
    Done P ((do closeSocket; yieldEv (.disconnected k g) : M Unit) s).state := by
  obtain ⟨ph, e, hd, _, hstep⟩ := hs.notDone
  exact closeYield_done _ s ph e hd hs.sockInv (hstep k g) (fun k' hk' => by cases hk'; exact hg rfl)

/-- the `except`/`else` clauses of `run()` emit exactly the terminal event, after closing the
    socket; `graceful=True` only in the `else` clause (the loop ended normally) -/
theorem onLoopEnd_spec (r : Option Exn) (s : Sys) (hs : GU s) (hP : r = none → P s.hist) :
    Res.sat (onLoopEnd r s) (Done P) (AccT P) := by
  have key : ∀ k g, (g = true → P s.hist) →
      Res.sat (((do closeSocket; yieldEv (.disconnected k g) : M Unit) s)) (Done P) (AccT P) := by
    intro k g hg
    have := disconnected_done k g s hs hg
    cases hr : (do closeSocket; yieldEv (.disconnected k g) : M Unit) s with
    | ok u s1 => rw [hr] at this; exact this
    | err x s1 => rw [hr] at this; exact this.accT
  unfold onLoopEnd
  split
  all_goals first
    | exact key _ _ (fun _ => hP rfl)
    | exact key _ _ (fun h => by cases h)
    | exact hs.accT

theorem runBodyL_spec (l : M Unit) (hl : ∀ s, InvL s → GU (l s).state) (s : Sys) (hs : InvL s)
    (hP : ∀ s2, l s = .ok () s2 → P s2.hist) : Res.sat (runBodyL l s) (Done P) (AccT P) := by
  unfold runBodyL
  have hg := hl s hs
  rcases captured l s with ⟨s1, hloop, hc⟩ | ⟨y, s1, hloop, hc⟩
  · rw [hloop] at hg; rw [bind_ok hc]; exact onLoopEnd_spec none s1 hg (fun _ => hP s1 hloop)
  · rw [hloop] at hg; rw [bind_ok hc]; exact onLoopEnd_spec (some y) s1 hg (fun h => by cases h)

theorem keeps_selClose : Spec Keeps selClose := by
  intro s; unfold selClose; split <;> mon_keeps_leaf

theorem keeps_runFinally (x : Exn) : Spec Keeps (runFinally x) := by
  unfold runFinally
  refine spec_getS_bind keeps_po (fun s => spec_bind keeps_po ?_ (fun _ =>
    spec_bind keeps_po keeps_selClose (fun _ => spec_throwE keeps_po _)))
  split
  · exact keeps_closeSocket
  · exact spec_pure keeps_po _

theorem runFinally_err (x : Exn) (s : Sys) : ∃ s', runFinally x s = .err x s' := by
  unfold runFinally
  rw [bind_ok (show getS s = .ok s s from rfl)]
  have key : ∀ s2, ∃ s', (do selClose; throwE x : M Unit) s2 = .err x s' := by
    intro s2
    obtain ⟨s3, h3⟩ := selClose_ok s2
    exact ⟨s3, by rw [bind_ok h3]; rfl⟩
  split
  · obtain ⟨s2, h2⟩ := closeSocket_ok s
    rw [bind_ok h2]; exact key s2
  · rw [bind_ok (show (pure () : M Unit) s = .ok () s from rfl)]; exact key s

theorem runLoopL_spec (l : M Unit) (hl : ∀ s, InvL s → GU (l s).state) (s : Sys) (hs : InvL s)
    (hP : ∀ s2, l s = .ok () s2 → P s2.hist) : Res.sat (runLoopL l s) (Done P) (AccT P) := by
  unfold runLoopL
  have hb := runBodyL_spec l hl s hs hP
  cases hr : runBodyL l s with
  | ok u s1 =>
    rw [hr] at hb
    obtain ⟨s2, h2⟩ := selClose_ok s1
    have : (do runBodyL l; selClose : M Unit) s = .ok () s2 := by rw [bind_ok hr]; exact h2
    rw [tryC_ok this]
    exact (keeps_selClose.ok h2).done hb
  | err x s1 =>
    rw [hr] at hb
    have : (do runBodyL l; selClose : M Unit) s = .err x s1 := bind_err hr
    rw [tryC_err this]
    obtain ⟨s2, h2⟩ := runFinally_err x s1
    rw [h2]
    exact ((keeps_runFinally x).err h2).accT hb

/-- the state in which `run()` starts: not ready, parser awaiting the response -/
structure Fresh (s : Sys) : Prop where
  ready : s.ready = false
  cont : s.p.cont = .header

theorem yieldConnected_spec (proxy : Bool) (s : Sys) (hp : phaseOf s.trace = some .connecting)
    (hf : Fresh s) (hk : SockInv s) :
    Res.sat (yieldConnected proxy s) (fun s' => G2 s' ∧ s'.p.cont = .header) (AccT P) := by
  have hy : G2 (yieldEv (.connected proxy) s).state ∧ (yieldEv (.connected proxy) s).state.p.cont = .header := by
    have k := yieldEv_keeps (.connected proxy) s
    refine ⟨k.g2 ⟨?_, hf.ready, sockInv_pushEv _ s hk⟩, k.cont.trans hf.cont⟩
    rw [phaseOf_pushEv, hp]; rfl
  unfold yieldConnected
  rw [bind_ok (show getS s = .ok s s from rfl)]
  cases hr : yieldEv (.connected proxy) s with
  | ok u s1 =>
    rw [hr] at hy
    split
    · rw [tryC_ok hr]; exact hy
    · rw [hr]; exact hy
  | err x s1 =>
    rw [hr] at hy
    split
    · rw [tryC_err hr]
      obtain ⟨s2, h2⟩ := closeSocket_ok s1
      rw [bind_ok h2]
      exact (keeps_closeSocket.ok h2).accT hy.1.g.accT
    · rw [hr]; exact hy.1.g.accT

theorem afterConnectL_spec (l : M Unit) (hl : ∀ s, InvL s → GU (l s).state) (proxy sel : Bool) (s : Sys)
    (hp : phaseOf s.trace = some .connecting) (hf : Fresh s) (hn : NoInc s) (hi : HI s) (r0 : React) (hj : J r0 s)
    (hP : ∀ s1 s2, InvL s1 → J r0 s1 → l s1 = .ok () s2 → P s2.hist) :
    Res.sat (afterConnectL l proxy sel s) (Done P) (AccT P) := by
  unfold afterConnectL
  rw [modS_bind, bind_ok (show getS { s with sockOpen := true } = .ok _ _ from rfl)]
  obtain ⟨r, s1, hw⟩ := write_ok s.cfg.request none { s with sockOpen := true }
  have k1 := (keeps_write _ _).ok hw
  have hp1 : phaseOf s1.trace = some .connecting := k1.phase.trans hp
  have hk1 : SockInv s1 := k1.sockInv ⟨fun h => (by cases h), hn, hi⟩
  have hf1 : Fresh s1 := ⟨k1.ready.trans hf.ready, k1.cont.trans hf.cont⟩
  have hj1 : J r0 s1 := ((quiet_write _ _).ok hw).j (show J r0 { s with sockOpen := true } from hj)
  rw [bind_ok hw]
  split
  · have := closeYield_done (P := P) (.connectFail "request-failed") s1 .connecting hp1 (by decide) hk1 rfl
      (fun k hk => by cases hk)
    cases hr : (do closeSocket; yieldEv (.connectFail "request-failed") : M Unit) s1 with
    | ok u s2 => rw [hr] at this; exact this
    | err x s2 => rw [hr] at this; exact this.accT
  · have hy := yieldConnected_spec (P := P) proxy s1 hp1 hf1 hk1
    cases hr : yieldConnected proxy s1 with
    | err x s2 => rw [hr] at hy; rw [bind_err hr]; exact hy
    | ok u s2 =>
      rw [hr] at hy; rw [bind_ok hr, modS_bind]
      have hj2 : J r0 s2 := (okPres_yieldConnected (r0 := r0) (h0 := []) proxy s1 _ s2 ⟨hj1, List.nil_suffix⟩ hr).1
      have hi2 : InvL { s2 with selOpen := sel } := Or.inl ⟨hy.1, fun _ => hy.2⟩
      exact runLoopL_spec l hl _ hi2 (fun s3 h3 => hP _ s3 hi2 hj2 h3)

/-- **`run()` and the monitor.**  From a fresh state, for any loop body `l` that keeps the loop
    invariant: a normal return means the monitor is in its final state (exactly one terminal event,
    last); an exceptional end (abandonment, end of script) leaves an accepted prefix; the
    end-of-script marker is never in the trace; `Disconnected(graceful=True)` is emitted only when
    `l` ended normally.  When a socket existed (also when the selector's constructor then raised, in
    which case the loop is `raise`), every terminal event in the trace is preceded by `sockClose`. -/
theorem runL_spec (l : M Unit) (hl : ∀ s, InvL s → GU (l s).state) (s : Sys) (ht : s.trace = [])
    (hh : s.hist = []) (hf : Fresh s) (r0 : React) (hj : J r0 s)
    (hP : ∀ s1 s2, InvL s1 → J r0 s1 → l s1 = .ok () s2 → P s2.hist) :
    Res.sat (runL l s) (fun s' => phaseOf s'.trace = some .done) Acc ∧
    NoInc (runL l s).state ∧
    HI (runL l s).state ∧
    gracefulOK P (runL l s).state.trace ∧
    ((∃ proxy, s.cfg.connect = .ok proxy ∨ s.cfg.connect = .selFail proxy) → termOK (runL l s).state.trace) := by
  have k := yieldEv_keeps .connecting s
  have st := step_yieldEv .connecting s
  have hp0 : phaseOf (pushEv .connecting s).trace = some .connecting := by
    rw [phaseOf_pushEv, ht]; rfl
  have hn0 : NoInc (pushEv .connecting s) := noInc_pushEv _ s (by intro h; rw [ht] at h; cases h)
  have hi0 : HI (pushEv .connecting s) := hi_pushEv _ s (by unfold HI; rw [ht, hh]; rfl)
  have ht0 : termOK (pushEv .connecting s).trace := by
    refine termOK_of_noTerminal _ (phaseOf_noTerminal hp0 (by decide))
  have hg0 : gracefulOK P (pushEv .connecting s).trace :=
    gracefulOK_of_noTerminal P _ (phaseOf_noTerminal hp0 (by decide))
  unfold runL
  cases hr : yieldEv .connecting s with
  | err x s1 =>
    rw [hr] at k
    rw [bind_err hr]
    exact ⟨⟨_, k.phase.trans hp0, by decide⟩, k.noInc hn0, k.hi hi0, k.gracefulOK hg0, fun _ => k.termOK ht0⟩
  | ok u s1 =>
    rw [hr] at k st
    have hp1 : phaseOf s1.trace = some .connecting := k.phase.trans hp0
    have hn1 : NoInc s1 := k.noInc hn0
    have hi1 : HI s1 := k.hi hi0
    have hf1 : Fresh s1 := ⟨k.ready.trans hf.ready, k.cont.trans hf.cont⟩
    have hj1 : J r0 s1 := (okPres_yieldEv (r0 := r0) (h0 := []) .connecting s _ s1 ⟨hj, List.nil_suffix⟩ hr).1
    rw [bind_ok hr, bind_ok (show getS s1 = .ok s1 s1 from rfl)]
    have hfail : ∀ kd, Res.sat (yieldEv (.connectFail kd) s1) (fun s' => phaseOf s'.trace = some .done) Acc ∧
        NoInc (yieldEv (.connectFail kd) s1).state ∧ HI (yieldEv (.connectFail kd) s1).state ∧
        gracefulOK P (yieldEv (.connectFail kd) s1).state.trace := by
      intro kd
      have k2 := yieldEv_keeps (.connectFail kd) s1
      have : phaseOf (yieldEv (.connectFail kd) s1).state.trace = some .done := by
        rw [k2.phase, phaseOf_pushEv, hp1]; rfl
      refine ⟨?_, k2.noInc (noInc_pushEv _ s1 hn1), k2.hi (hi_pushEv _ s1 hi1), k2.gracefulOK ⟨?_, ?_⟩⟩
      · cases hr2 : yieldEv (.connectFail kd) s1 with
        | ok u s2 => rw [hr2] at this; exact this
        | err x s2 => rw [hr2] at this; exact ⟨_, this, by decide⟩
      · intro k' hk'; cases hk'
      · exact gracefulOK_of_noTerminal P _ (phaseOf_noTerminal hp1 (by decide))
    have hcfg : s1.cfg = s.cfg := st.cfg
    cases hc : s1.cfg.connect with
    | socketFail => exact ⟨(hfail _).1, (hfail _).2.1, (hfail _).2.2.1, (hfail _).2.2.2, fun ⟨p, hp⟩ => by rw [← hcfg, hc] at hp; rcases hp with hp | hp <;> cases hp⟩
    | otherFail => exact ⟨(hfail _).1, (hfail _).2.1, (hfail _).2.2.1, (hfail _).2.2.2, fun ⟨p, hp⟩ => by rw [← hcfg, hc] at hp; rcases hp with hp | hp <;> cases hp⟩
    | ok proxy =>
      simp only []
      have := afterConnectL_spec l hl proxy true s1 hp1 hf1 hn1 hi1 r0 hj1 hP
      cases hr2 : afterConnectL l proxy true s1 with
      | ok u s2 => rw [hr2] at this; exact ⟨this.1, this.2.2.1, this.2.2.2.1, this.2.2.2.2, fun _ => this.2.1⟩
      | err x s2 => rw [hr2] at this; exact ⟨this.1, this.2.2.1, this.2.2.2.1, this.2.2.2.2, fun _ => this.2.1⟩
    | selFail proxy =>
      -- the selector's constructor raised: the "loop" is `raise`, which never ends normally
      simp only []
      have := afterConnectL_spec (P := P) (throwE (.other "error")) (fun s hs => hs.g.gu) proxy false s1
        hp1 hf1 hn1 hi1 r0 hj1 (fun _ _ _ _ h => by cases h)
      cases hr2 : afterConnectL (throwE (.other "error")) proxy false s1 with
      | ok u s2 => rw [hr2] at this; exact ⟨this.1, this.2.2.1, this.2.2.2.1, this.2.2.2.2, fun _ => this.2.1⟩
      | err x s2 => rw [hr2] at this; exact ⟨this.1, this.2.2.1, this.2.2.2.1, this.2.2.2.2, fun _ => this.2.1⟩

end Lomond.Core.Monitor
