/-
  C01 generalised, permessage-deflate: the link between the inflate-context threading of
  `DG.ItemsAt` and the formulation of C06 (`feedMsgs`: the joined payloads of the compressed
  messages handed to `Core.inflateMessage` one after the other), the embedding of C01's
  uncompressed `Item`s, and delivery of a compressed stream by one `feedLoop`.
-/
import Lomond.Proofs.DeliveryTimedRun
set_option linter.unusedSimpArgs false
set_option linter.unusedVariables false
namespace Lomond.Core.DG
open Lomond Lomond.Core Lomond.Core.E2E

/-! ### the inflater over the compressed messages of a stream -/

/-- the joined payloads `zs` of successive compressed messages through the inflater, from context
    `ic`: the outputs and the final context; `none` = some message cannot be inflated -/
def zOuts (z : ZP) : ICtx → List Bytes → Option (List Bytes × ICtx)
  | ic, [] => some ([], ic)
  | ic, j :: r =>
    match inflPure z ic j with
    | none => none
    | some (o, ic1) =>
      match zOuts z ic1 r with
      | none => none
      | some (os, ic') => some (o :: os, ic')

theorem zOuts_cons_inv {z : ZP} {ic ic' : ICtx} {j o : Bytes} {r os : List Bytes}
    (h : zOuts z ic (j :: r) = some (o :: os, ic')) :
    ∃ ic1, inflPure z ic j = some (o, ic1) ∧ zOuts z ic1 r = some (os, ic') := by
  simp only [zOuts] at h
  split at h
  · cases h
  · rename_i o1 ic1 h1
    split at h
    · cases h
    · rename_i os1 ic2 h2
      cases h
      exact ⟨ic1, h1, h2⟩

theorem inflateMessage_none (z : ZP) (s : Sys) (hz : ZOk z s) (j : Bytes)
    (h : inflPure z ⟨s.inflHist, s.inflOut⟩ j = none) :
    inflateMessage j s = .err (.critical "unable to decompress payload") s := by
  unfold inflPure at h
  rw [← hz.infl, ← hz.comp] at h
  unfold inflateMessage
  simp only [] at h ⊢
  split at h
  · rename_i heq
    rw [heq]
  · split at h <;> cases h

/-- C06's `feedMsgs` is `zOuts` -/
theorem feedMsgs_zOuts (z : ZP) (zs : List Bytes) (s : Sys) (hz : ZOk z s) :
    feedMsgs zs s = (zOuts z ⟨s.inflHist, s.inflOut⟩ zs).map (·.1) := by
  induction zs generalizing s with
  | nil => rfl
  | cons j r ih =>
    simp only [feedMsgs, zOuts]
    cases hp : inflPure z ⟨s.inflHist, s.inflOut⟩ j with
    | none =>
      rw [inflateMessage_none z s hz j hp]
      rfl
    | some x =>
      obtain ⟨o, ic1⟩ := x
      rw [inflateMessage_pure z s hz j o ic1 hp]
      simp only []
      have := ih { s with inflHist := ic1.hist, inflOut := ic1.out } ⟨hz.infl, hz.comp, hz.dec⟩
      rw [this]
      show _ = Option.map (fun x => x.fst) (match zOuts z ic1 r with
        | none => none
        | some (os, ic') => some (o :: os, ic'))
      cases zOuts z ic1 r with
      | none => rfl
      | some y => rfl

/-! ### static well-formedness of items -/

/-- the compressed payload of a compressed message -/
def GItem.zpay : GItem → Option Bytes
  | .ctrl _ => none
  | .msg g => if g.zf then some g.m.payload else none

/-- what it stands for -/
def GItem.zplain : GItem → Option Bytes
  | .ctrl _ => none
  | .msg g => if g.zf then some g.plain else none

/-- lengths fit their forms; an uncompressed message stands for its payload; Text is UTF-8 -/
def GMsg.Static (g : GMsg) : Prop :=
  g.m.first.Ok ∧ contOk g.m.rest ∧ (g.zf = false → g.plain = g.m.payload) ∧
  (g.m.text = true → Bytes.WF g.plain ∧ Utf8.wf g.plain = true)

def GItem.Static : GItem → Prop
  | .ctrl c => c.Ok
  | .msg g => g.Static

instance (g : GMsg) : Decidable g.Static := by unfold GMsg.Static; exact inferInstance
instance (it : GItem) : Decidable it.Static := by
  cases it <;> (unfold GItem.Static; exact inferInstance)

theorem buildPure_plain (z : ZP) (ic : ICtx) (text : Bool) (g : Frag) (fin : Bool) (j : Bytes) :
    buildPure z ic (firstFrame false text g fin) j = some (j, ic) := by
  unfold buildPure
  have : ¬ ((firstFrame false text g fin).rsv1 ≠ 0 ∧ z.dc.isSome = true) := by
    intro h; apply h.1; rfl
  rw [if_neg this]

theorem buildPure_z (z : ZP) (hdc : z.dc.isSome = true) (ic : ICtx) (text : Bool) (g : Frag) (fin : Bool) (j : Bytes) :
    buildPure z ic (firstFrame true text g fin) j = inflPure z ic j := by
  unfold buildPure
  have : (firstFrame true text g fin).rsv1 ≠ 0 ∧ z.dc.isSome = true := ⟨by simp [firstFrame], hdc⟩
  rw [if_pos this]

/-- **the inflater hypothesis in C06's form implies the threaded one**: statically well-formed
    items whose compressed messages, in order, inflate to their `plain`s -/
theorem itemsAt_of_zOuts (z : ZP) (hdc : z.dc.isSome = true) (items : List GItem)
    (hst : ∀ it ∈ items, it.Static) (ic ic' : ICtx)
    (h : zOuts z ic (items.filterMap GItem.zpay) = some (items.filterMap GItem.zplain, ic')) :
    ItemsAt z ic items ic' := by
  induction items generalizing ic with
  | nil =>
    simp only [List.filterMap_nil, zOuts] at h
    cases h
    rfl
  | cons it r ih =>
    have hi := hst it (by simp)
    have hr := fun x hx => hst x (List.mem_cons_of_mem _ hx)
    cases it with
    | ctrl c =>
      rw [List.filterMap_cons_none (by rfl), List.filterMap_cons_none (by rfl)] at h
      exact ⟨hi, ih hr ic h⟩
    | msg g =>
      obtain ⟨hf, hrest, hpl, ht⟩ := hi
      cases hzf : g.zf with
      | false =>
        have h' : zOuts z ic (r.filterMap GItem.zpay) = some (r.filterMap GItem.zplain, ic') := by
          rw [List.filterMap_cons_none (by simp [GItem.zpay, hzf]),
            List.filterMap_cons_none (by simp [GItem.zplain, hzf])] at h
          exact h
        refine ⟨ic, ⟨hf, hrest, ?_, ht⟩, ih hr ic h'⟩
        rw [hzf, buildPure_plain, hpl hzf]
      | true =>
        have h' : zOuts z ic (g.m.payload :: r.filterMap GItem.zpay) =
            some (g.plain :: r.filterMap GItem.zplain, ic') := by
          rw [List.filterMap_cons_some (b := g.m.payload) (by simp [GItem.zpay, hzf]),
            List.filterMap_cons_some (b := g.plain) (by simp [GItem.zplain, hzf])] at h
          exact h
        obtain ⟨ic1, h1, h2⟩ := zOuts_cons_inv h'
        refine ⟨ic1, ⟨hf, hrest, ?_, ht⟩, ih hr ic1 h2⟩
        rw [hzf, buildPure_z z hdc]
        exact h1

/-- without compressed messages no inflater is needed -/
theorem itemsAt_plain (z : ZP) (items : List GItem) (hst : ∀ it ∈ items, it.Static)
    (hnz : ∀ g, GItem.msg g ∈ items → g.zf = false) (ic : ICtx) : ItemsAt z ic items ic := by
  induction items with
  | nil => rfl
  | cons it r ih =>
    have hi := hst it (by simp)
    have hr := ih (fun x hx => hst x (List.mem_cons_of_mem _ hx)) (fun g hg => hnz g (List.mem_cons_of_mem _ hg))
    cases it with
    | ctrl c => exact ⟨hi, hr⟩
    | msg g =>
      obtain ⟨hf, hrest, hpl, ht⟩ := hi
      have hzf := hnz g List.mem_cons_self
      refine ⟨ic, ⟨hf, hrest, ?_, ht⟩, hr⟩
      rw [hzf, buildPure_plain, hpl hzf]

/-! ### C01's uncompressed items -/

def GItem.ofItem : Item → GItem
  | .ctrl c => .ctrl c
  | .data m => .msg ⟨false, m, m.payload⟩

theorem ofItem_bytes (it : Item) : (GItem.ofItem it).bytes = wireBytes it.wire := by
  cases it with
  | ctrl c => simp [GItem.ofItem, GItem.bytes, Item.wire, wireBytes]
  | data m => rfl

theorem ofItem_events (it : Item) : (GItem.ofItem it).events = it.events := by
  cases it with
  | ctrl c => rfl
  | data m => rfl

theorem ofItems_bytes (items : List Item) :
    (items.map GItem.ofItem).flatMap GItem.bytes = wireBytes (items.flatMap Item.wire) := by
  induction items with
  | nil => rfl
  | cons it r ih =>
    simp only [List.map_cons, List.flatMap_cons, wireBytes_append, ih, ofItem_bytes]

theorem ofItems_events (items : List Item) :
    (items.map GItem.ofItem).flatMap GItem.events = items.flatMap Item.events := by
  induction items with
  | nil => rfl
  | cons it r ih => simp only [List.map_cons, List.flatMap_cons, ih, ofItem_events]

theorem ofItem_static (it : Item) (h : it.Ok) : (GItem.ofItem it).Static := by
  cases it with
  | ctrl c => exact h
  | data m => exact ⟨h.1, h.2.1, fun _ => rfl, h.2.2⟩

theorem ofItems_itemsAt (z : ZP) (items : List Item) (hok : ∀ it ∈ items, it.Ok) (ic : ICtx) :
    ItemsAt z ic (items.map GItem.ofItem) ic := by
  apply itemsAt_plain
  · intro x hx
    obtain ⟨it, hit, rfl⟩ := List.mem_map.mp hx
    exact ofItem_static it (hok it hit)
  · intro g hg
    obtain ⟨it, hit, he⟩ := List.mem_map.mp hg
    cases it with
    | ctrl c => cases he
    | data m => cases he; rfl

theorem ofItems_nz (items : List Item) (b : Bool) :
    ∀ g, GItem.msg g ∈ items.map GItem.ofItem → g.zf = true → b = true := by
  intro g hg hz
  obtain ⟨it, hit, he⟩ := List.mem_map.mp hg
  cases it with
  | ctrl c => cases he
  | data m => cases he; cases hz

/-! ### one `feedLoop` over a compressed stream -/

/-- **Delivery with permessage-deflate negotiated** (`WebSocket.feed` level, one read): from a
    state between two messages, the bytes of any items — compressed messages with any
    fragmentation and control frames in between, uncompressed messages, Pings, Pongs — whose
    compressed messages inflate (in order, through the context of the state) to their `plain`s,
    then possibly a Close: exactly `gexpected items cl` is delivered, each compressed message with
    the inflated content. -/
theorem feedLoop_gitems (z : ZP) (items : List GItem) (ic' : ICtx) (cl : Option CloseF) (hcl : ∀ c, cl = some c → c.Ok)
    (s : Sys) (g : TG s) (hz : ZOk z s) (hcg : s.closing = false) (hfr : s.frames = []) (hb : Between s.p)
    (hpc : s.p.compression = z.dc.isSome)
    (hit : ItemsAt z ⟨s.inflHist, s.inflOut⟩ items ic')
    (hzz : ∀ g, GItem.msg g ∈ items → g.zf = true → z.dc.isSome = true) :
    ∃ s', feedLoop (gstream items cl) s = .ok true s' ∧
      delivered s'.trace = (gexpected items cl).reverse ++ delivered s.trace ∧
      s'.frames = [] ∧ s'.closed = false ∧ s'.closing = cl.isSome ∧ Between s'.p ∧
      (⟨s'.inflHist, s'.inflOut⟩ : ICtx) = ic' := by
  have hnh : s.p.cont ≠ .header := by rw [hb.b.cont]; simp
  obtain ⟨p1, hp1, hb1, _⟩ := parses_gitems s.cfg.v z.dc.isSome items s.p hb hpc (hit.wireOk hzz)
  obtain ⟨p2, hp2, hb2⟩ := parses_close s.cfg.v cl hcl p1 hb1
  have hv : view s = ⟨[], ⟨s.inflHist, s.inflOut⟩⟩ := by unfold view; rw [hfr]
  have he := eat_items z items ⟨s.inflHist, s.inflOut⟩ ic' hit
  -- the items
  obtain ⟨he1, ho1, hpp1⟩ := hp1.run
  obtain ⟨s1, hc1, r1, v1, g1, z1⟩ := consume_eatSeq z _ _ _ _ (by rw [← hv] at he; exact he) _ ho1
    (pRun s.cfg.v s.p (items.flatMap GItem.bytes)).fin [] s g hz rfl
  rw [List.append_nil] at hc1
  have hfl1 : feedLoop (items.flatMap GItem.bytes) s = .ok true { s1 with p := p1 } := by
    rw [feedLoop_eq_fold _ s hnh, hc1]
    simp only [consume]
    rw [fin_ok _ he1, hpp1]
  have hfr1 : s1.frames = [] := by have := congrArg View.frames v1; exact this
  have hic1 : (⟨s1.inflHist, s1.inflOut⟩ : ICtx) = ic' := by have := congrArg View.ic v1; exact this
  unfold gstream
  rw [feedLoop_append, hfl1]
  simp only [contLoop]
  cases cl with
  | none =>
    refine ⟨{ s1 with p := p1 }, feedLoop_nil _, ?_, hfr1, g1.closed, ?_, hb1, hic1⟩
    · show delivered s1.trace = _
      rw [r1.evs]; simp [gexpected, closeEvents]
    · show s1.closing = false
      rw [r1.fix.closing]; exact hcg
  | some c =>
    have hcont1 : ({ s1 with p := p1 } : Sys).p.cont ≠ .header := by
      show p1.cont ≠ .header
      rw [hb1.b.cont]; simp
    obtain ⟨he2, ho2, hpp2⟩ := hp2.run
    have ho2' : (pRun s.cfg.v p1 c.wire.bytes).outs.map (·.2) = [Out.frame c.wire.frame] := by
      simpa [closeBytes, closeFrames] using ho2
    obtain ⟨x, rest2, hx0, hx, hrest2⟩ := List.map_eq_cons_iff.mp ho2'
    have : rest2 = [] := by simpa using hrest2
    subst this
    obtain ⟨pc, o⟩ := x
    simp only at hx
    subst hx
    obtain ⟨s2, hcl2, cl2⟩ := onOut_close_T c (hcl c rfl) { s1 with p := pc }
      ⟨g1.app, g1.pt, g1.ct, g1.sock, g1.closed⟩ (by show s1.closing = false; rw [r1.fix.closing]; exact hcg)
    have hcfg1 : ({ s1 with p := p1 } : Sys).cfg.v = s.cfg.v := by
      show s1.cfg.v = s.cfg.v
      rw [r1.fix.cfg]
    refine ⟨{ s2 with p := p2 }, ?_, ?_, ?_, cl2.closed, cl2.closing, hb2, ?_⟩
    · show feedLoop c.wire.bytes { s1 with p := p1 } = _
      rw [feedLoop_eq_fold _ _ hcont1, hcfg1]
      show consume (pRun s.cfg.v p1 c.wire.bytes).fin (pRun s.cfg.v p1 c.wire.bytes).outs _ = _
      rw [hx0]
      simp only [consume]
      rw [hcl2]
      simp only []
      have e2 : (pRun s.cfg.v p1 c.wire.bytes).err = none := by simpa [closeBytes] using he2
      have e3 : (pRun s.cfg.v p1 c.wire.bytes).p = p2 := by simpa [closeBytes] using hpp2
      rw [fin_ok _ e2, e3]
    · show delivered s2.trace = _
      rw [cl2.evs]
      show c.event :: delivered s1.trace = _
      rw [r1.evs]; simp [gexpected, closeEvents]
    · show s2.frames = []
      have := congrArg View.frames cl2.vw
      exact this.trans hfr1
    · have := congrArg View.ic cl2.vw
      exact this.trans hic1

end Lomond.Core.DG
