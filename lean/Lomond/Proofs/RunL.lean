/-
  `run()` with the session loop abstracted: `runL l` is `run` in which the loop over the stored
  script (`loop s.env`) is replaced by an arbitrary computation `l`.  `run s = runL (loop s.env) s`
  (`run_eq_runL`, Proofs/EnvIrrel.lean); the theorems about `run` are proved about `runL l` from a
  specification of `l` and instantiated with `loop env`.
-/
import Lomond.Proofs.Step
import Lomond.Proofs.Release
set_option linter.unusedSimpArgs false
set_option linter.unusedVariables false
namespace Lomond.Core.Monitor
open Lomond Lomond.Core

def runBodyL (l : M Unit) : M Unit := do
  let r : Option Exn ← tryC (do l; pure none) (fun x => pure (some x))
  onLoopEnd r

def runLoopL (l : M Unit) : M Unit := tryC (do runBodyL l; selClose) runFinally

/-- `afterConnect` with the loop abstracted; `sel = false`, `l = throwE (.other "error")` is
    `afterConnectNoSel` (the selector's constructor raised: `selector` stays `None`) -/
def afterConnectL (l : M Unit) (proxy : Bool) (sel : Bool) : M Unit := do
  modS fun s => { s with sockOpen := true }
  let s ← getS
  let r ← write s.cfg.request
  if wsError r then do
    closeSocket
    yieldEv (.connectFail "request-failed")
  else do
    yieldConnected proxy
    modS fun s => { s with selOpen := sel }
    runLoopL l

def runL (l : M Unit) : M Unit := do
  yieldEv .connecting
  let s ← getS
  match s.cfg.connect with
  | .socketFail => yieldEv (.connectFail "connect-failed")
  | .otherFail => yieldEv (.connectFail "connect-failed")
  | .ok proxy => afterConnectL l proxy true
  | .selFail proxy => afterConnectL (throwE (.other "error")) proxy false

theorem runLoopNoSel_eq_L : runLoopNoSel = runLoopL (throwE (.other "error")) := rfl

theorem afterConnectNoSel_eq_L (proxy : Bool) :
    afterConnectNoSel proxy = afterConnectL (throwE (.other "error")) proxy false := rfl

theorem runBody_eq (env : List EnvStep) : runBody env = runBodyL (loop env) := rfl

theorem runLoop_eq_L (s : Sys) : runLoop s = runLoopL (loop s.env) s := rfl

/-- the result of `write` is always a value -/
theorem write_ok (d : Bytes) (z : Option (Nat × Bytes)) (s : Sys) : ∃ r s', write d z s = .ok r s' := by
  unfold write
  simp only []
  splits <;> exact ⟨_, _, rfl⟩

/-- the loop with every exception captured as a value -/
theorem captured (l : M Unit) (s : Sys) :
    (∃ s1, l s = .ok () s1 ∧
      tryC (do l; pure none : M (Option Exn)) (fun x => pure (some x)) s = .ok none s1) ∨
    (∃ x s1, l s = .err x s1 ∧
      tryC (do l; pure none : M (Option Exn)) (fun x => pure (some x)) s = .ok (some x) s1) := by
  cases hl : l s with
  | ok a s1 =>
    have hb : (do l; pure none : M (Option Exn)) s = .ok none s1 := by rw [bind_ok hl]; rfl
    exact Or.inl ⟨s1, rfl, tryC_ok hb⟩
  | err x s1 =>
    have hb : (do l; pure none : M (Option Exn)) s = .err x s1 := bind_err hl
    exact Or.inr ⟨x, s1, rfl, by rw [tryC_err hb]; rfl⟩

/-! ### configuration and application are never modified, also across `run()` -/

/-- configuration and application unchanged -/
def Same (s s' : Sys) : Prop := s'.cfg = s.cfg ∧ s'.react = s.react

theorem same_po : PO Same where
  refl _ := ⟨rfl, rfl⟩
  trans h1 h2 := ⟨h2.1.trans h1.1, h2.2.trans h1.2⟩

theorem same_of_step {m : M α} (h : Spec Step m) : Spec Same m := fun s => ⟨(h s).cfg, (h s).react⟩

theorem same_selClose : Spec Same selClose := by
  intro s; unfold selClose; split <;> exact ⟨rfl, rfl⟩

theorem same_onLoopEnd (r : Option Exn) : Spec Same (onLoopEnd r) := by
  unfold onLoopEnd
  split
  all_goals first
    | exact spec_bind same_po (same_of_step step_closeSocket) (fun _ => same_of_step (step_yieldEv _))
    | exact spec_throwE same_po _

theorem same_runFinally (x : Exn) : Spec Same (runFinally x) := by
  unfold runFinally
  refine spec_getS_bind same_po (fun s => spec_bind same_po ?_ (fun _ =>
    spec_bind same_po same_selClose (fun _ => spec_throwE same_po _)))
  split
  · exact same_of_step step_closeSocket
  · exact spec_pure same_po _

theorem same_yieldConnected (proxy : Bool) : Spec Same (yieldConnected proxy) := by
  unfold yieldConnected
  refine spec_getS_bind same_po (fun s => ?_)
  split
  · exact spec_tryC same_po (same_of_step (step_yieldEv _)) (fun x =>
      spec_bind same_po (same_of_step step_closeSocket) (fun _ => spec_throwE same_po _))
  · exact same_of_step (step_yieldEv _)

theorem same_afterConnectL {l : M Unit} (hl : Spec Same l) (proxy sel : Bool) :
    Spec Same (afterConnectL l proxy sel) := by
  unfold afterConnectL
  refine spec_bind same_po (spec_modS (fun _ => ⟨rfl, rfl⟩)) (fun _ => spec_getS_bind same_po (fun s =>
    spec_bind same_po (same_of_step (step_write _ _)) (fun r => ?_)))
  split
  · exact spec_bind same_po (same_of_step step_closeSocket) (fun _ => same_of_step (step_yieldEv _))
  · refine spec_bind same_po (same_yieldConnected _) (fun _ => spec_bind same_po (spec_modS (fun _ => ⟨rfl, rfl⟩)) (fun _ => ?_))
    unfold runLoopL
    refine spec_tryC same_po (spec_bind same_po ?_ (fun _ => same_selClose)) same_runFinally
    unfold runBodyL
    exact spec_bind same_po (spec_tryC same_po (spec_bind same_po hl (fun _ => spec_pure same_po _))
      (fun _ => spec_pure same_po _)) (fun r => same_onLoopEnd r)

theorem same_runL {l : M Unit} (hl : Spec Same l) : Spec Same (runL l) := by
  unfold runL
  refine spec_bind same_po (same_of_step (step_yieldEv _)) (fun _ => spec_getS_bind same_po (fun s => ?_))
  split
  · exact same_of_step (step_yieldEv _)
  · exact same_of_step (step_yieldEv _)
  · exact same_afterConnectL hl _ _
  · exact same_afterConnectL (spec_throwE same_po _) _ _

end Lomond.Core.Monitor
