/-
  Code-length items (RFC 1951 §3.2.7: the symbols 0..15 and the repeat codes 16, 17, 18) of
  Model/DeflEnc.lean: what `expand` does on concatenations, and the run-length compressor `rle`
  (`expand (rle l) = some l`, every item it makes is in range).  Pure list facts; the inflater's
  side is in Proofs/InflateRle.lean.
-/
import Lomond.Model.DeflEnc
set_option linter.unusedSimpArgs false
set_option linter.unusedVariables false
namespace Lomond.DeflEnc
open Lomond

theorem expandGo_append (acc : List Nat) (a b : List Item) :
    expandGo acc (a ++ b) = (expandGo acc a).bind (fun acc' => expandGo acc' b) := by
  induction a generalizing acc with
  | nil => simp [expandGo]
  | cons it a ih =>
    cases it with
    | lit n => simp only [List.cons_append, expandGo, ih]
    | rep16 k =>
      simp only [List.cons_append, expandGo]
      cases acc.getLast? with
      | none => rfl
      | some v => simp only [ih]
    | rep17 k => simp only [List.cons_append, expandGo, ih]
    | rep18 k => simp only [List.cons_append, expandGo, ih]

/-- the lengths only grow -/
theorem expandGo_length (acc : List Nat) (items : List Item) (lens : List Nat) (h : expandGo acc items = some lens) :
    acc.length ≤ lens.length := by
  induction items generalizing acc with
  | nil => simp only [expandGo, Option.some.injEq] at h; rw [h]; exact Nat.le_refl _
  | cons it items ih =>
    cases it with
    | lit n =>
      simp only [expandGo] at h
      have := ih _ h
      simp only [List.length_append, List.length_cons, List.length_nil] at this
      omega
    | rep16 k =>
      simp only [expandGo] at h
      cases hl : acc.getLast? with
      | none => rw [hl] at h; cases h
      | some v =>
        rw [hl] at h
        have := ih _ h
        simp only [List.length_append, List.length_replicate] at this
        omega
    | rep17 k =>
      simp only [expandGo] at h
      have := ih _ h
      simp only [List.length_append, List.length_replicate] at this
      omega
    | rep18 k =>
      simp only [expandGo] at h
      have := ih _ h
      simp only [List.length_append, List.length_replicate] at this
      omega

/-- every item in range stands for at least one length -/
theorem expandGo_count (acc : List Nat) (items : List Item) (lens : List Nat) (hok : ∀ it ∈ items, it.ok = true)
    (h : expandGo acc items = some lens) : acc.length + items.length ≤ lens.length := by
  induction items generalizing acc with
  | nil => simp only [expandGo, Option.some.injEq] at h; rw [h]; simp
  | cons it items ih =>
    have hi := hok it (by simp)
    have hok' : ∀ it' ∈ items, it'.ok = true := fun it' h' => hok it' (by simp [h'])
    cases it with
    | lit n =>
      simp only [expandGo] at h
      have := ih _ hok' h
      simp only [List.length_append, List.length_cons, List.length_nil] at this ⊢
      omega
    | rep16 k =>
      simp only [expandGo] at h
      simp only [Item.ok, Bool.and_eq_true, decide_eq_true_eq] at hi
      cases hl : acc.getLast? with
      | none => rw [hl] at h; cases h
      | some v =>
        rw [hl] at h
        have := ih _ hok' h
        simp only [List.length_append, List.length_replicate, List.length_cons] at this ⊢
        omega
    | rep17 k =>
      simp only [expandGo] at h
      simp only [Item.ok, Bool.and_eq_true, decide_eq_true_eq] at hi
      have := ih _ hok' h
      simp only [List.length_append, List.length_replicate, List.length_cons] at this ⊢
      omega
    | rep18 k =>
      simp only [expandGo] at h
      simp only [Item.ok, Bool.and_eq_true, decide_eq_true_eq] at hi
      have := ih _ hok' h
      simp only [List.length_append, List.length_replicate, List.length_cons] at this ⊢
      omega

/-! ### the greedy runs -/

theorem expandGo_zeroRun (fuel n : Nat) (h : n ≤ fuel) (acc : List Nat) :
    expandGo acc (zeroRun fuel n) = some (acc ++ List.replicate n 0) := by
  induction fuel generalizing n acc with
  | zero =>
    obtain rfl : n = 0 := by omega
    simp [zeroRun, expandGo]
  | succ fuel ih =>
    unfold zeroRun
    split
    · next h0 => subst h0; simp [expandGo]
    · split
      · simp only [expandGo]
        rw [ih (n - 1) (by omega), List.append_assoc]
        congr 2
        obtain ⟨m, rfl⟩ : ∃ m, n = m + 1 := ⟨n - 1, by omega⟩
        simp [List.replicate_succ]
      · split
        · simp [expandGo]
        · split
          · simp [expandGo]
          · simp only [expandGo]
            rw [ih (n - 138) (by omega), List.append_assoc, List.replicate_append_replicate]
            have e : 138 + (n - 138) = n := by omega
            rw [e]

theorem getLast?_append_replicate (acc : List Nat) (k v : Nat) (h : acc.getLast? = some v) :
    (acc ++ List.replicate k v).getLast? = some v := by
  cases k with
  | zero => simpa using h
  | succ k =>
    rw [List.getLast?_append, List.getLast?_replicate]
    simp

theorem expandGo_sameRun (fuel v n : Nat) (h : n ≤ fuel) (acc : List Nat) (hl : acc.getLast? = some v) :
    expandGo acc (sameRun fuel v n) = some (acc ++ List.replicate n v) := by
  induction fuel generalizing n acc with
  | zero =>
    obtain rfl : n = 0 := by omega
    simp [sameRun, expandGo]
  | succ fuel ih =>
    unfold sameRun
    split
    · next h0 => subst h0; simp [expandGo]
    · split
      · simp only [expandGo]
        rw [ih (n - 1) (by omega) _ (by simp), List.append_assoc]
        congr 2
        obtain ⟨m, rfl⟩ : ∃ m, n = m + 1 := ⟨n - 1, by omega⟩
        simp [List.replicate_succ]
      · split
        · simp [expandGo, hl]
        · simp only [expandGo, hl]
          rw [ih (n - 6) (by omega) _ (getLast?_append_replicate acc 6 v hl), List.append_assoc,
            List.replicate_append_replicate]
          have e : 6 + (n - 6) = n := by omega
          rw [e]

theorem runLen_split (v : Nat) (r : List Nat) : r = List.replicate (runLen v r) v ++ r.drop (runLen v r) := by
  induction r with
  | nil => rfl
  | cons x r ih =>
    unfold runLen
    split
    · next hx =>
      subst hx
      simp only [List.replicate_succ, List.cons_append, List.drop_succ_cons]
      rw [← ih]
    · simp

theorem expandGo_rleGo (fuel : Nat) (l : List Nat) (h : l.length ≤ fuel) (acc : List Nat) :
    expandGo acc (rleGo fuel l) = some (acc ++ l) := by
  induction fuel generalizing l acc with
  | zero =>
    have : l = [] := List.length_eq_zero_iff.mp (by omega)
    subst this
    simp [rleGo, expandGo]
  | succ fuel ih =>
    cases l with
    | nil => simp [rleGo, expandGo]
    | cons v r =>
      simp only [List.length_cons] at h
      have hsplit := runLen_split v r
      have hd : (r.drop (runLen v r)).length ≤ fuel := by simp only [List.length_drop]; omega
      simp only [rleGo]
      rw [expandGo_append]
      by_cases hv : v = 0
      · subst hv
        simp only [if_true]
        rw [expandGo_zeroRun _ _ (Nat.le_refl _)]
        simp only [Option.bind_some]
        rw [ih _ hd, List.append_assoc]
        congr 2
        rw [List.replicate_succ, List.cons_append, ← hsplit]
      · simp only [hv, if_false, expandGo]
        rw [expandGo_sameRun _ _ _ (Nat.le_refl _) _ (by simp)]
        simp only [Option.bind_some]
        rw [ih _ hd, List.append_assoc, List.append_assoc]
        congr 2
        rw [List.singleton_append, ← hsplit]

/-- **the run-length compressor is lossless**: the items of `rle l` stand for `l` -/
theorem expand_rle (l : List Nat) : expand (rle l) = some l := by
  simp only [expand, rle]
  rw [expandGo_rleGo _ _ (Nat.le_refl _)]
  simp

/-! ### every item `rle` makes is in range -/

theorem zeroRun_ok (fuel n : Nat) : ∀ it ∈ zeroRun fuel n, it.ok = true ∧ 16 < it.sym ∨ it = .lit 0 := by
  induction fuel generalizing n with
  | zero => simp [zeroRun]
  | succ fuel ih =>
    unfold zeroRun
    split
    · simp
    · split
      · intro it hit
        simp only [List.mem_cons] at hit
        rcases hit with rfl | hit
        · right; rfl
        · exact ih _ it hit
      · split
        · intro it hit
          simp only [List.mem_singleton] at hit
          subst hit
          left
          refine ⟨?_, by simp [Item.sym]⟩
          simp only [Item.ok, Bool.and_eq_true, decide_eq_true_eq]
          omega
        · split
          · intro it hit
            simp only [List.mem_singleton] at hit
            subst hit
            left
            refine ⟨?_, by simp [Item.sym]⟩
            simp only [Item.ok, Bool.and_eq_true, decide_eq_true_eq]
            omega
          · intro it hit
            simp only [List.mem_cons] at hit
            rcases hit with rfl | hit
            · left; simp [Item.ok, Item.sym]
            · exact ih _ it hit

theorem sameRun_ok (fuel v n : Nat) : ∀ it ∈ sameRun fuel v n, it.ok = true ∧ it.sym = 16 ∨ it = .lit v := by
  induction fuel generalizing n with
  | zero => simp [sameRun]
  | succ fuel ih =>
    unfold sameRun
    split
    · simp
    · split
      · intro it hit
        simp only [List.mem_cons] at hit
        rcases hit with rfl | hit
        · right; rfl
        · exact ih _ it hit
      · split
        · intro it hit
          simp only [List.mem_singleton] at hit
          subst hit
          left
          refine ⟨?_, by simp [Item.sym]⟩
          simp only [Item.ok, Bool.and_eq_true, decide_eq_true_eq]
          omega
        · intro it hit
          simp only [List.mem_cons] at hit
          rcases hit with rfl | hit
          · left; simp [Item.ok, Item.sym]
          · exact ih _ it hit

theorem rleGo_ok (fuel : Nat) (l : List Nat) (h15 : ∀ x ∈ l, x ≤ 15) :
    ∀ it ∈ rleGo fuel l, it.ok = true ∧ it.sym < 19 := by
  induction fuel generalizing l with
  | zero => simp [rleGo]
  | succ fuel ih =>
    cases l with
    | nil => simp [rleGo]
    | cons v r =>
      have hv : v ≤ 15 := h15 v (by simp)
      intro it hit
      simp only [rleGo, List.mem_append] at hit
      rcases hit with hit | hit
      · by_cases h0 : v = 0
        · subst h0
          simp only [if_true] at hit
          rcases zeroRun_ok _ _ it hit with ⟨h1, h2⟩ | rfl
          · refine ⟨h1, ?_⟩
            cases it <;> simp [Item.sym] at h2 ⊢
            simp [Item.ok] at h1; omega
          · simp [Item.ok, Item.sym]
        · simp only [h0, if_false, List.mem_cons] at hit
          rcases hit with rfl | hit
          · simp only [Item.ok, Item.sym, decide_eq_true_eq]; omega
          · rcases sameRun_ok _ _ _ it hit with ⟨h1, h2⟩ | rfl
            · exact ⟨h1, by omega⟩
            · simp only [Item.ok, Item.sym, decide_eq_true_eq]; omega
      · exact ih _ (fun x hx => h15 x (List.mem_cons_of_mem _ (List.mem_of_mem_drop hx))) it hit

/-- every item of `rle l` is in range (lengths 0..15, repeat counts 3..6 / 3..10 / 11..138) -/
theorem rle_ok (l : List Nat) (h15 : ∀ x ∈ l, x ≤ 15) : ∀ it ∈ rle l, it.ok = true ∧ it.sym < 19 :=
  rleGo_ok _ l h15

theorem clDefault_all : ∀ s, s < 19 → 1 ≤ clDefault.getD s 0 := by decide

theorem clOk_default : clOk clDefault 19 = true := by decide

/-- **`Kind.rleOf ll dl` is written as a dynamic block exactly when `Kind.dyn ll dl` is** -/
theorem rleOk_rleOf (ll dl : List Nat) (toks : List Deflate.Token) :
    rleOk clDefault 19 ll.length (rle (ll ++ dl)) toks = dynOk ll dl toks := by
  unfold rleOk
  rw [expand_rle, clOk_default]
  simp only [List.take_left', List.drop_left', Bool.true_and]
  cases hd : dynOk ll dl toks with
  | false => simp
  | true =>
    simp only [Bool.and_true, List.all_eq_true, Bool.and_eq_true, decide_eq_true_eq]
    have h15 : ∀ x ∈ ll ++ dl, x ≤ 15 := by
      simp only [dynOk, Bool.and_eq_true, List.all_eq_true, decide_eq_true_eq] at hd
      exact hd.1.1.1.1.2
    intro it hit
    obtain ⟨h1, h2⟩ := rle_ok _ h15 it hit
    exact ⟨h1, clDefault_all _ h2⟩

end Lomond.DeflEnc
