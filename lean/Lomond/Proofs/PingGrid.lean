/-
  The automatic-Ping grid (C15): the session times of the library's own Ping frames, read off the
  trace, never fall twice into one period `((k-1)·r, k·r]`, and none is written when `ping_rate`
  is 0 — an invariant of every function of the model up to a whole connection.

  Attribution: a Ping frame on the trace belongs to the application iff the result token `.res _`
  of the application call directly follows it (that is how `doAct` logs every call); the library's
  own Pings are the remaining ones.
-/
import Lomond.Proofs.TimerInv
set_option linter.unusedSimpArgs false
set_option linter.unusedVariables false
namespace Lomond.Core.Timers
open Lomond Lomond.Core Lomond.Core.Lift Lomond.Core.Pong

/-! ### `⌈t / r⌉ · r` -/

theorem le_ceilDiv_mul (t r : Nat) (hr : 0 < r) : t ≤ ceilDiv t r * r := by
  unfold ceilDiv
  have h := Nat.lt_div_mul_add (a := t + r - 1) hr
  generalize (t + r - 1) / r * r = q at h
  omega

theorem ceilDiv_mul_lt (t r : Nat) (hr : 0 < r) : ceilDiv t r * r < t + r := by
  unfold ceilDiv
  have h := Nat.div_mul_le_self (t + r - 1) r
  generalize (t + r - 1) / r * r = q at h
  omega

/-- a time in the period `((k-1)·r, k·r]` has `⌈t/r⌉·r ≥ k·r` -/
theorem ceilDiv_mul_ge (t r k : Nat) (hr : 0 < r) (h : (k - 1) * r < t) : k * r ≤ ceilDiv t r * r := by
  have h1 := le_ceilDiv_mul t r hr
  have h2 : (k - 1) * r < ceilDiv t r * r := Nat.lt_of_lt_of_le h h1
  have h3 : k - 1 < ceilDiv t r := Nat.lt_of_mul_lt_mul_right h2
  exact Nat.mul_le_mul_right r (by omega)

/-! ### the library's Ping frames on a trace -/

def _root_.Lomond.Core.Obs.tmIsRes : Obs → Bool
  | .res _ => true
  | _ => false

def isPingFrame (b : Bytes) : Bool := b.head? == some (128 + Gen.opPing)

def _root_.Lomond.Core.Obs.tmPingWr : Obs → Bool
  | .wr b => isPingFrame b
  | _ => false

/-- scanning from the newest entry; `fl`: the next-newer entry is a result token -/
def stampsAux : Bool → List Obs → List Nat
  | _, [] => []
  | fl, o :: t =>
    if o.tmIsReady then []
    else (if !fl && o.tmPingWr && (readyAt t).isSome then [sessOf t] else []) ++ stampsAux o.tmIsRes t

/-- session times (newest first) of the Ping frames written since the newest Ready that are not
    followed by the result token of an application call: the library's automatic Pings -/
def pingStamps (tr : List Obs) : List Nat := stampsAux false tr

/-- **the grid rule**: for stamps `q₁ (newest), q₂, …`: `ping_rate ≠ 0`, `⌈q₁/r⌉·r < B`, and
    `⌈qᵢ₊₁/r⌉·r < qᵢ` — each Ping lies strictly after the end of the period of the previous one -/
def Grid (r : Nat) : Nat → List Nat → Prop
  | _, [] => True
  | B, q :: rest => r ≠ 0 ∧ ceilDiv q r * r < B ∧ Grid r q rest

theorem grid_mono {r B B' : Nat} {l : List Nat} (hB : B ≤ B') (h : Grid r B l) : Grid r B' l := by
  cases l with
  | nil => trivial
  | cons q rest => exact ⟨h.1, Nat.lt_of_lt_of_le h.2.1 hB, h.2.2⟩

theorem grid_tail {r B q : Nat} {l : List Nat} (h : Grid r B (q :: l)) : Grid r B l := by
  have hr : 0 < r := Nat.pos_of_ne_zero h.1
  have := le_ceilDiv_mul q r hr
  exact grid_mono (by have := h.2.1; omega) h.2.2

theorem stampsAux_ready (fl : Bool) {o : Obs} (t : List Obs) (h : o.tmIsReady = true) :
    stampsAux fl (o :: t) = [] := by
  simp [stampsAux, h]

theorem stampsAux_true_cons {o : Obs} (t : List Obs) (h : o.tmIsReady = false) :
    stampsAux true (o :: t) = stampsAux o.tmIsRes t := by
  simp [stampsAux, h]

theorem stampsAux_false_cons {o : Obs} (t : List Obs) (h : o.tmIsReady = false) :
    stampsAux false (o :: t) =
      (if (o.tmPingWr && (readyAt t).isSome) = true then [sessOf t] else []) ++ stampsAux o.tmIsRes t := by
  simp [stampsAux, h]

theorem stamps_cons_plain {o : Obs} (t : List Obs) (h1 : o.tmIsReady = false) (h2 : o.tmIsRes = false)
    (h3 : o.tmPingWr = false) : pingStamps (o :: t) = pingStamps t := by
  unfold pingStamps
  rw [stampsAux_false_cons t h1, h2, h3]
  simp

theorem stamps_ready (a : Option Http.Str) (b : Bool) (t : List Obs) :
    pingStamps (.ev (.ready a b) :: t) = [] := rfl

theorem stamps_ping (b : Bytes) (t : List Obs) (hb : isPingFrame b = true) :
    pingStamps (.wr b :: t) =
      if (readyAt t).isSome then sessOf t :: pingStamps t else pingStamps t := by
  unfold pingStamps
  rw [stampsAux_false_cons t rfl]
  have e1 : (Obs.wr b).tmPingWr = true := hb
  have e2 : (Obs.wr b).tmIsRes = false := rfl
  rw [e1, e2]
  cases (readyAt t).isSome <;> simp

theorem stamps_res_cons (r : ActRes) (t : List Obs) : pingStamps (.res r :: t) = stampsAux true t := rfl

theorem stamps_res_write (r : ActRes) {o : Obs} (t : List Obs) (h1 : o.tmIsReady = false)
    (h2 : o.tmIsRes = false) : pingStamps (.res r :: o :: t) = pingStamps t := by
  rw [stamps_res_cons, stampsAux_true_cons t h1, h2]; rfl

/-- a result token on top either changes nothing or takes the newest stamp away -/
theorem stamps_res (r : ActRes) (t : List Obs) :
    pingStamps (.res r :: t) = pingStamps t ∨ ∃ q, pingStamps t = q :: pingStamps (.res r :: t) := by
  rw [stamps_res_cons]
  cases t with
  | nil => exact Or.inl rfl
  | cons o t' =>
    by_cases hr : o.tmIsReady = true
    · left; unfold pingStamps; rw [stampsAux_ready _ _ hr, stampsAux_ready _ _ hr]
    · have hr' : o.tmIsReady = false := by simpa using hr
      unfold pingStamps
      rw [stampsAux_true_cons t' hr', stampsAux_false_cons t' hr']
      by_cases hc : (o.tmPingWr && (readyAt t').isSome) = true
      · right; exact ⟨sessOf t', by simp [hc]⟩
      · left; simp [hc]

theorem clockOf_cons_of {o : Obs} (t : List Obs) (h : o.tmTickVal = none) : clockOf (o :: t) = clockOf t := by
  simp [clockOf, h]

theorem readyAt_cons_of {o : Obs} (t : List Obs) (h : o.tmIsReady = false) : readyAt (o :: t) = readyAt t := by
  simp [readyAt, h]

theorem sessOf_cons_of {o : Obs} (t : List Obs) (h1 : o.tmTickVal = none) (h2 : o.tmIsReady = false) :
    sessOf (o :: t) = sessOf t := by
  unfold sessOf; rw [readyAt_cons_of t h2, clockOf_cons_of t h1]

/-! ### the grid invariant -/

/-- the trace's clock and Ready time are the session's, and the library's Pings on the trace obey
    the grid rule with the next one due only after `_next_ping` -/
structure GInv (s : Sys) : Prop where
  now : s.now = clockOf s.trace
  start : s.startTime = readyAt s.trace
  grid : Grid s.cfg.pingRate (s.nextPing + 1) (pingStamps s.trace)
  /-- `_next_ping` is always a multiple of the rate (0 at Ready, `⌈t/r⌉·r` afterwards) -/
  mult : ∃ k, s.nextPing = k * s.cfg.pingRate

theorem GInv.sessionTime_eq {s : Sys} (h : GInv s) : sessionTime s = sessOf s.trace := by
  unfold sessionTime sessOf; rw [h.start, h.now]
  cases readyAt s.trace <;> rfl

/-- not a tick, not Ready, not a result token, not a Ping frame -/
def _root_.Lomond.Core.Obs.tmGneutral (o : Obs) : Bool := o.tmTickVal.isNone && !o.tmIsReady && !o.tmIsRes && !o.tmPingWr

theorem gneutral_iff (o : Obs) :
    o.tmGneutral = true ↔ o.tmTickVal = none ∧ o.tmIsReady = false ∧ o.tmIsRes = false ∧ o.tmPingWr = false := by
  unfold Obs.tmGneutral
  cases o.tmTickVal <;> cases o.tmIsReady <;> cases o.tmIsRes <;> cases o.tmPingWr <;> simp

/-- a library step that leaves the clock, the Ready time, `_next_ping` alone and appends neither
    ticks, Ready, result tokens nor Ping frames -/
structure QuietG (s s' : Sys) : Prop where
  cfg : s'.cfg = s.cfg
  nextPing : s'.nextPing = s.nextPing
  startTime : s'.startTime = s.startTime
  now : s'.now = s.now
  trace : ∃ l, s'.trace = l ++ s.trace ∧ ∀ o ∈ l, Obs.tmGneutral o = true

theorem quietG_po : PO QuietG where
  refl s := ⟨rfl, rfl, rfl, rfl, ⟨[], rfl, by simp⟩⟩
  trans := by
    intro a b c h1 h2
    refine ⟨h2.cfg.trans h1.cfg, h2.nextPing.trans h1.nextPing, h2.startTime.trans h1.startTime,
      h2.now.trans h1.now, ?_⟩
    obtain ⟨l1, e1, n1⟩ := h1.trace
    obtain ⟨l2, e2, n2⟩ := h2.trace
    refine ⟨l2 ++ l1, by rw [e2, e1, List.append_assoc], ?_⟩
    intro o ho
    rcases List.mem_append.mp ho with h | h
    · exact n2 o h
    · exact n1 o h

theorem ginv_cons_gneutral {o : Obs} (t : List Obs) (ho : o.tmGneutral = true) :
    clockOf (o :: t) = clockOf t ∧ readyAt (o :: t) = readyAt t ∧ pingStamps (o :: t) = pingStamps t := by
  obtain ⟨h1, h2, h3, h4⟩ := (gneutral_iff o).mp ho
  exact ⟨clockOf_cons_of t h1, readyAt_cons_of t h2, stamps_cons_plain t h2 h3 h4⟩

theorem append_gneutral (l t : List Obs) (h : ∀ o ∈ l, Obs.tmGneutral o = true) :
    clockOf (l ++ t) = clockOf t ∧ readyAt (l ++ t) = readyAt t ∧ pingStamps (l ++ t) = pingStamps t := by
  induction l with
  | nil => exact ⟨rfl, rfl, rfl⟩
  | cons o r ih =>
    obtain ⟨a, b, c⟩ := ih (fun o ho => h o (List.mem_cons_of_mem _ ho))
    obtain ⟨a', b', c'⟩ := ginv_cons_gneutral (r ++ t) (h o (List.mem_cons_self))
    rw [List.cons_append]
    exact ⟨a'.trans a, b'.trans b, c'.trans c⟩

theorem ginv_quiet {s s' : Sys} (q : QuietG s s') (h : GInv s) : GInv s' := by
  obtain ⟨l, e, n⟩ := q.trace
  obtain ⟨a, b, c⟩ := append_gneutral l s.trace n
  refine ⟨?_, ?_, ?_, ?_⟩
  · rw [q.now, e, a]; exact h.now
  · rw [q.startTime, e, b]; exact h.start
  · rw [q.cfg, q.nextPing, e, c]; exact h.grid
  · rw [q.cfg, q.nextPing]; exact h.mult

def RG (s s' : Sys) : Prop := GInv s → GInv s'

theorem rg_po : PO RG where
  refl s := id
  trans h1 h2 := fun h => h2 (h1 h)

theorem rg_of_quiet {m : M α} (h : Spec QuietG m) : Spec RG m := fun s hinv => ginv_quiet (h s) hinv

/-! ### effects of the write path -/

/-- shape of a trace entry made by `session.write` / `_close_socket` -/
def _root_.Lomond.Core.Obs.tmPlainW (o : Obs) : Prop := o.tmTickVal = none ∧ o.tmIsReady = false ∧ o.tmIsRes = false

theorem write_eff (d : Bytes) (z : Option (Nat × Bytes)) (s : Sys) :
    ∃ r s', write d z s = .ok r s' ∧ s'.cfg = s.cfg ∧ s'.nextPing = s.nextPing ∧
      s'.startTime = s.startTime ∧ s'.now = s.now ∧
      (s'.trace = s.trace ∨ ∃ o, s'.trace = o :: s.trace ∧ o.tmPlainW ∧ ∀ b, o = .wr b → b = d) := by
  unfold write
  splits
  all_goals first
    | exact ⟨_, _, rfl, rfl, rfl, rfl, rfl, Or.inl rfl⟩
    | (refine ⟨_, _, rfl, rfl, rfl, rfl, rfl, Or.inr ⟨_, rfl, ⟨rfl, rfl, rfl⟩, ?_⟩⟩
       intro b e; cases e <;> rfl)

theorem sendFrame_eff (op : Nat) (pl : Bytes) (c : Option Bytes) (s : Sys) :
    ∃ r s', sendFrame op pl c s = .ok r s' ∧ s'.cfg = s.cfg ∧ s'.nextPing = s.nextPing ∧
      s'.startTime = s.startTime ∧ s'.now = s.now ∧
      (s'.trace = s.trace ∨ ∃ o, s'.trace = o :: s.trace ∧ o.tmPlainW ∧
        ∀ b, o = .wr b → Frame.build op pl (s.cfg.maskKey s.keyCtr) = some b) := by
  unfold sendFrame write
  simp only []
  splits
  all_goals first
    | exact ⟨_, _, rfl, rfl, rfl, rfl, rfl, Or.inl rfl⟩
    | (refine ⟨_, _, rfl, rfl, rfl, rfl, rfl, Or.inr ⟨_, rfl, ⟨rfl, rfl, rfl⟩, ?_⟩⟩
       intro b e; cases e <;> assumption)

theorem wsClose_eff (code : Option Nat) (reason : Arg) (s : Sys) :
    ∃ r s', wsClose code reason s = .ok r s' ∧ s'.cfg = s.cfg ∧ s'.nextPing = s.nextPing ∧
      s'.startTime = s.startTime ∧ s'.now = s.now ∧
      (s'.trace = s.trace ∨ ∃ o, s'.trace = o :: s.trace ∧ o.tmPlainW ∧
        ∀ b, o = .wr b → b.head? = some (128 + Gen.opClose)) := by
  unfold wsClose
  splits
  all_goals first
    | exact ⟨_, _, rfl, rfl, rfl, rfl, rfl, Or.inl rfl⟩
    | (rename_i heq
       obtain ⟨r, s1, h1, a, b, c, d, ht⟩ := sendFrame_eff _ _ _ s
       rw [h1] at heq; cases heq
       refine ⟨_, _, rfl, a, b, c, d, ?_⟩
       rcases ht with ht | ⟨o, ht, hp, hb⟩
       · exact Or.inl ht
       · exact Or.inr ⟨o, ht, hp, fun b e => build_head _ _ _ _ (hb b e)⟩)
    | (rename_i heq; exact (sendFrame_no_err heq).elim)

theorem not_pingFrame_of_head {b : Bytes} {op : Nat} (h : b.head? = some (128 + op)) (hop : op ≠ Gen.opPing) :
    isPingFrame b = false := by
  unfold isPingFrame
  rw [h]
  simp only [beq_eq_false_iff_ne, ne_eq, Option.some.injEq]
  omega

theorem gneutral_of_plainW {o : Obs} (h : o.tmPlainW) (hp : o.tmPingWr = false) : o.tmGneutral = true :=
  (gneutral_iff o).mpr ⟨h.1, h.2.1, h.2.2, hp⟩

theorem quietG_closeSocket : Spec QuietG closeSocket := by
  intro s; unfold closeSocket
  split
  · exact ⟨rfl, rfl, rfl, rfl, ⟨[.sockClose], rfl, by simp [Obs.tmGneutral, Obs.tmTickVal, Obs.tmIsReady, Obs.tmIsRes, Obs.tmPingWr]⟩⟩
  · exact quietG_po.refl s

theorem quietG_sendFrame (op : Nat) (pl : Bytes) (c : Option Bytes) (hop : op ≠ Gen.opPing) :
    Spec QuietG (sendFrame op pl c) := by
  intro s
  obtain ⟨r, s1, h1, a, b, c', d, ht⟩ := sendFrame_eff op pl c s
  rw [h1]; simp only [Res.state_ok]
  refine ⟨a, b, c', d, ?_⟩
  rcases ht with ht | ⟨o, ht, hp, hb⟩
  · exact ⟨[], ht, by simp⟩
  · refine ⟨[o], ht, ?_⟩
    intro o' ho'
    simp only [List.mem_singleton] at ho'
    subst ho'
    refine gneutral_of_plainW hp ?_
    cases o' with
    | wr b => exact not_pingFrame_of_head (build_head _ _ _ _ (hb b rfl)) hop
    | _ => rfl

theorem quietG_wsClose (code : Option Nat) (reason : Arg) : Spec QuietG (wsClose code reason) := by
  intro s
  obtain ⟨r, s1, h1, a, b, c', d, ht⟩ := wsClose_eff code reason s
  rw [h1]; simp only [Res.state_ok]
  refine ⟨a, b, c', d, ?_⟩
  rcases ht with ht | ⟨o, ht, hp, hb⟩
  · exact ⟨[], ht, by simp⟩
  · refine ⟨[o], ht, ?_⟩
    intro o' ho'
    simp only [List.mem_singleton] at ho'
    subst ho'
    refine gneutral_of_plainW hp ?_
    cases o' with
    | wr b => exact not_pingFrame_of_head (hb b rfl) (by decide)
    | _ => rfl

theorem quietG_modS {f : Sys → Sys} (h : ∀ s, (f s).cfg = s.cfg ∧ (f s).nextPing = s.nextPing ∧
    (f s).startTime = s.startTime ∧ (f s).now = s.now ∧ (f s).trace = s.trace) : Spec QuietG (modS f) := by
  intro s
  obtain ⟨a, b, c, d, e⟩ := h s
  exact ⟨a, b, c, d, ⟨[], e, by simp⟩⟩

theorem quietG_onDisconnect : Spec QuietG onDisconnect := by
  unfold onDisconnect
  apply spec_bind quietG_po quietG_closeSocket
  intro _; exact quietG_modS (fun s => ⟨rfl, rfl, rfl, rfl, rfl⟩)

theorem quietG_checkCloseTimeout : Spec QuietG checkCloseTimeout := by
  unfold checkCloseTimeout
  refine spec_getS_bind quietG_po (fun s => ?_)
  simp only []
  splits
  all_goals first | exact spec_pure quietG_po _ | exact spec_throwE quietG_po _

theorem quietG_pushEv (e : Event) (s : Sys) (h : (Obs.ev e).tmIsReady = false) : QuietG s (pushEv e s) := by
  refine ⟨rfl, rfl, rfl, rfl, ⟨[.ev e], rfl, ?_⟩⟩
  intro o ho
  simp only [List.mem_singleton] at ho
  subst ho
  exact (gneutral_iff _).mpr ⟨rfl, h, rfl, rfl⟩

/-- `_on_event` for anything but Ready -/
theorem quietG_onEvent (e : Event) (h : (Obs.ev e).tmIsReady = false) : Spec QuietG (onEvent e) := by
  intro s
  cases e with
  | ready a b => simp [Obs.tmIsReady] at h
  | ping d =>
    simp only [onEvent]
    splits
    all_goals first
      | exact quietG_po.refl s
      | (rename_i h; exact (quietG_sendFrame _ _ _ (by decide)).ok h)
      | (rename_i h; exact (quietG_sendFrame _ _ _ (by decide)).err h)
  | pong d => simp only [onEvent]; exact ⟨rfl, rfl, rfl, rfl, ⟨[], rfl, by simp⟩⟩
  | _ => simp only [onEvent]; exact quietG_po.refl s

/-! ### application calls -/

/-- an application call: never raises, keeps clock / Ready time / `_next_ping`, adds at most one
    write-path entry (its result token is added by `logRes`) -/
def AppCall (m : M ActRes) : Prop :=
  ∀ s, ∃ r s', m s = .ok r s' ∧ s'.cfg = s.cfg ∧ s'.nextPing = s.nextPing ∧
    s'.startTime = s.startTime ∧ s'.now = s.now ∧
    (s'.trace = s.trace ∨ ∃ o, s'.trace = o :: s.trace ∧ o.tmPlainW)

theorem appCall_pure (r : ActRes) : AppCall (pure r) := fun s => ⟨r, s, rfl, rfl, rfl, rfl, rfl, Or.inl rfl⟩

theorem appCall_sendFrame (op : Nat) (pl : Bytes) (c : Option Bytes) : AppCall (sendFrame op pl c) := by
  intro s
  obtain ⟨r, s1, h1, a, b, c', d, ht⟩ := sendFrame_eff op pl c s
  refine ⟨r, s1, h1, a, b, c', d, ?_⟩
  rcases ht with ht | ⟨o, ht, hp, _⟩
  · exact Or.inl ht
  · exact Or.inr ⟨o, ht, hp⟩

theorem appCall_sendData (op : Nat) (pl : Bytes) (c : Bool) : AppCall (sendData op pl c) := by
  intro s; unfold sendData; split <;> exact appCall_sendFrame _ _ _ s

theorem appCall_wsClose (code : Option Nat) (reason : Arg) : AppCall (wsClose code reason) := by
  intro s
  obtain ⟨r, s1, h1, a, b, c', d, ht⟩ := wsClose_eff code reason s
  refine ⟨r, s1, h1, a, b, c', d, ?_⟩
  rcases ht with ht | ⟨o, ht, hp, _⟩
  · exact Or.inl ht
  · exact Or.inr ⟨o, ht, hp⟩

theorem appCall_sessionClose : AppCall (do closeSocket; pure ActRes.ok) := by
  intro s
  show ∃ r s', (closeSocket >>= fun _ => (pure ActRes.ok : M ActRes)) s = .ok r s' ∧ _
  unfold closeSocket
  by_cases h : s.sockOpen = true
  · exact ⟨.ok, { s with sockOpen := false, trace := .sockClose :: s.trace },
      by rw [bind_ok (by simp only [h, if_true]; rfl)]; rfl, rfl, rfl, rfl, rfl,
      Or.inr ⟨_, rfl, ⟨rfl, rfl, rfl⟩⟩⟩
  · exact ⟨.ok, s, by rw [bind_ok (by simp only [h]; rfl)]; rfl, rfl, rfl, rfl, rfl, Or.inl rfl⟩

theorem appCall_ite (c : Prop) [Decidable c] {m k : M ActRes} (hm : AppCall m) (hk : AppCall k) :
    AppCall (if c then m else k) := by
  split <;> assumption

/-- the application's call and its result token: its writes are attributed to it -/
theorem rg_logRes {m : M ActRes} (hm : AppCall m) : Spec RG (logRes m) := by
  intro s h
  obtain ⟨r, s1, h1, a, b, c, d, ht⟩ := hm s
  have e : logRes m s = .ok () { s1 with trace := .res r :: s1.trace } := by
    unfold logRes; rw [bind_ok h1]; rfl
  rw [e]
  simp only [Res.state_ok]
  have hm : ∃ k, s1.nextPing = k * s1.cfg.pingRate := by rw [a, b]; exact h.mult
  rcases ht with ht | ⟨o, ht, hp⟩
  · refine ⟨?_, ?_, ?_, hm⟩
    · show s1.now = clockOf (.res r :: s1.trace)
      rw [clockOf_cons_of _ rfl, ht, d]; exact h.now
    · show s1.startTime = readyAt (.res r :: s1.trace)
      rw [readyAt_cons_of _ rfl, ht, c]; exact h.start
    · show Grid s1.cfg.pingRate (s1.nextPing + 1) (pingStamps (.res r :: s1.trace))
      rw [a, b, ht]
      rcases stamps_res r s.trace with e1 | ⟨q, e1⟩
      · rw [e1]; exact h.grid
      · have := h.grid; rw [e1] at this; exact grid_tail this
  · refine ⟨?_, ?_, ?_, hm⟩
    · show s1.now = clockOf (.res r :: s1.trace)
      rw [clockOf_cons_of _ rfl, ht, clockOf_cons_of _ hp.1, d]; exact h.now
    · show s1.startTime = readyAt (.res r :: s1.trace)
      rw [readyAt_cons_of _ rfl, ht, readyAt_cons_of _ hp.2.1, c]; exact h.start
    · show Grid s1.cfg.pingRate (s1.nextPing + 1) (pingStamps (.res r :: s1.trace))
      rw [a, b, ht, stamps_res_write r _ hp.2.1 hp.2.2]; exact h.grid

theorem rg_doAct (a : Act) : Spec RG (doAct a) := by
  unfold doAct
  split
  all_goals first
    | (apply rg_logRes
       first
        | exact appCall_pure _
        | exact appCall_sendData _ _ _
        | exact appCall_wsClose _ _
        | exact appCall_sessionClose
        | exact appCall_ite _ (appCall_pure _) (appCall_sendData _ _ _)
        | exact appCall_ite _ (appCall_pure _) (appCall_sendFrame _ _ _))
    | (intro s h; exact ⟨h.now, h.start, h.grid, h.mult⟩)

theorem rg_doActs (as : List Act) : Spec RG (doActs as) := by
  induction as with
  | nil => exact spec_pure rg_po ()
  | cons a r ih => unfold doActs; exact spec_bind rg_po (rg_doAct a) (fun _ => ih)

theorem rg_yieldEv (e : Event) (h : (Obs.ev e).tmIsReady = false) : Spec RG (yieldEv e) := by
  intro s hinv
  rw [yieldEv_eq]
  exact rg_doActs _ _ (ginv_quiet (quietG_pushEv e s h) hinv)

/-! ### `_regular`, `feedYield`, the loop -/

theorem rg_checkPoll : Spec RG checkPoll := by
  unfold checkPoll
  refine spec_getS_bind rg_po (fun s => ?_)
  simp only []
  splits
  all_goals first
    | exact spec_pure rg_po _
    | exact spec_bind rg_po (rg_of_quiet (quietG_modS (fun s => ⟨rfl, rfl, rfl, rfl, rfl⟩)))
        (fun _ => rg_yieldEv _ rfl)

/-- `_check_auto_ping`: a Ping is written only when the session time is past `_next_ping`, and
    `_next_ping` then moves to the end of the current period -/
theorem rg_checkAutoPing : Spec RG checkAutoPing := by
  intro s h
  by_cases hd : pingDue s
  · rw [checkAutoPing_fires s hd]
    obtain ⟨hr, ht⟩ := hd
    have hrpos : 0 < s.cfg.pingRate := Nat.pos_of_ne_zero hr
    have hs := h.sessionTime_eq
    have hle := le_ceilDiv_mul (sessionTime s) s.cfg.pingRate hrpos
    obtain ⟨r, s1, h1, a, b, c, d, htr⟩ := sendFrame_eff Gen.opPing [] none (pingMark s)
    have e : (do let _ ← sendFrame Gen.opPing [] none; pure () : M Unit) (pingMark s) = .ok () s1 := by
      rw [bind_ok h1]; rfl
    rw [e]
    simp only [Res.state_ok]
    have hb : s1.nextPing = ceilDiv (sessionTime s) s.cfg.pingRate * s.cfg.pingRate := b
    have ha : s1.cfg = s.cfg := a
    have hc : s1.startTime = s.startTime := c
    have hdn : s1.now = s.now := d
    -- the old stamps fit under the new bound
    have hold : Grid s.cfg.pingRate (sessionTime s) (pingStamps s.trace) :=
      grid_mono (by omega) h.grid
    have hm : ∃ k, s1.nextPing = k * s1.cfg.pingRate := ⟨_, by rw [hb, ha]⟩
    rcases htr with htr | ⟨o, htr, hp, hbuild⟩
    · have htr' : s1.trace = s.trace := htr
      refine ⟨by rw [hdn, htr']; exact h.now, by rw [hc, htr']; exact h.start, ?_, hm⟩
      rw [ha, hb, htr']
      exact grid_mono (by omega) hold
    · have htr' : s1.trace = o :: s.trace := htr
      refine ⟨by rw [hdn, htr', clockOf_cons_of _ hp.1]; exact h.now,
              by rw [hc, htr', readyAt_cons_of _ hp.2.1]; exact h.start, ?_, hm⟩
      rw [ha, hb, htr']
      cases o with
      | wr bts =>
        have hping : isPingFrame bts = true := by
          have := build_head _ _ _ _ (hbuild bts rfl)
          unfold isPingFrame; rw [this]; simp
        rw [stamps_ping bts s.trace hping]
        split
        · refine ⟨hr, ?_, ?_⟩
          · rw [← hs]; omega
          · rw [← hs]; exact hold
        · exact grid_mono (by omega) hold
      | _ =>
        rw [stamps_cons_plain _ hp.2.1 hp.2.2 rfl]
        exact grid_mono (by omega) hold
  · rw [checkAutoPing_quiet s hd]; exact h

theorem rg_checkPingTimeout : Spec RG checkPingTimeout := by
  unfold checkPingTimeout
  refine spec_getS_bind rg_po (fun s => ?_)
  simp only []
  split
  · exact spec_bind rg_po (rg_yieldEv _ rfl) (fun _ => spec_throwE rg_po _)
  · exact spec_pure rg_po _

theorem rg_regular : Spec RG regular := by
  unfold regular
  apply spec_bind rg_po (spec_getS rg_po); intro s
  split
  · exact spec_bind rg_po rg_checkPoll (fun _ => spec_bind rg_po rg_checkAutoPing
      (fun _ => spec_bind rg_po rg_checkPingTimeout (fun _ => rg_of_quiet quietG_checkCloseTimeout)))
  · exact spec_pure rg_po _

theorem ginv_onEvent_push {e : Event} {s s1 : Sys} (hE : onEvent e s = .ok () s1) (h : GInv s) :
    GInv (pushEv e s1) := by
  by_cases hr : (Obs.ev e).tmIsReady = true
  · cases e with
    | ready a b =>
      simp only [onEvent] at hE
      cases hE
      refine ⟨h.now, ?_, ?_, ⟨0, (Nat.zero_mul _).symm⟩⟩
      · show some s.now = readyAt (.ev (.ready a b) :: s.trace)
        rw [readyAt_ready, h.now]
      · show Grid s.cfg.pingRate (0 + 1) (pingStamps (.ev (.ready a b) :: s.trace))
        rw [stamps_ready]; trivial
    | _ => simp [Obs.tmIsReady] at hr
  · have hr' : (Obs.ev e).tmIsReady = false := by simpa using hr
    exact ginv_quiet (quietG_po.trans ((quietG_onEvent e hr').ok hE) (quietG_pushEv e s1 hr')) h

theorem rg_feedYield (inTry : Bool) (e : Event) : Spec RG (feedYield inTry e) := by
  intro s h
  cases hE : onEvent e s with
  | ok u s1 =>
    exact feedYield_from_push rg_po rg_doActs rg_regular (rg_of_quiet quietG_onDisconnect)
      inTry e s s1 hE (ginv_onEvent_push hE h)
  | err x s1 =>
    refine feedYield_from_err rg_po (rg_of_quiet quietG_onDisconnect) inTry e s s1 x hE ?_
    rw [onEvent_err_trace hE]; exact h

theorem rg_leaves : Leaves RG where
  po := rg_po
  inert := fun s s' h hinv =>
    ginv_quiet ⟨h.cfg, h.nextPing, h.startTime, h.now, ⟨[], h.trace, by simp⟩⟩ hinv
  closeSocket := rg_of_quiet quietG_closeSocket
  wsClose := fun c r => rg_of_quiet (quietG_wsClose c r)
  feedYield := fun b e _ => rg_feedYield b e

theorem rg_tick (s : Sys) (dt : Nat) : RG s (tick s dt) := by
  intro h
  by_cases h0 : dt = 0
  · subst h0
    have e : tick s 0 = { s with now := s.now + 0 } := by simp [tick]
    rw [e]; exact ⟨h.now, h.start, h.grid, h.mult⟩
  · have e : tick s dt = { s with now := s.now + dt, trace := .tick (s.now + dt) :: s.trace } := by
      simp [tick, h0]
    rw [e]
    exact ⟨rfl, h.start, by
      show Grid s.cfg.pingRate (s.nextPing + 1) (pingStamps (.tick (s.now + dt) :: s.trace))
      rw [stamps_cons_plain _ rfl rfl rfl]; exact h.grid, h.mult⟩

theorem rg_loop (env : List EnvStep) : Spec RG (loop env) :=
  lift_loop rg_leaves (fun _ => True)
    (fun dt _ s _ => rg_po.trans (rg_tick s dt) (rg_regular (tick s dt))) env (fun _ _ => trivial)

/-! ### a whole connection -/

theorem quietG_selClose : Spec QuietG selClose := by
  intro s; unfold selClose
  split
  · exact ⟨rfl, rfl, rfl, rfl, ⟨[.selClose], rfl, by simp [Obs.tmGneutral, Obs.tmTickVal, Obs.tmIsReady, Obs.tmIsRes, Obs.tmPingWr]⟩⟩
  · exact quietG_po.refl s

theorem rg_closeThenYield (e : Event) (h : (Obs.ev e).tmIsReady = false) :
    Spec RG (do closeSocket; yieldEv e : M Unit) :=
  spec_bind rg_po (rg_of_quiet quietG_closeSocket) (fun _ => rg_yieldEv e h)

theorem rg_onLoopEnd (r : Option Exn) : Spec RG (onLoopEnd r) := by
  unfold onLoopEnd
  split
  all_goals first
    | exact rg_closeThenYield _ rfl
    | exact spec_throwE rg_po _

theorem rg_runBody (env : List EnvStep) : Spec RG (runBody env) := by
  unfold runBody
  refine spec_bind rg_po ?_ (fun r => rg_onLoopEnd r)
  refine spec_tryC rg_po ?_ (fun x => spec_pure rg_po _)
  exact spec_bind rg_po (rg_loop env) (fun _ => spec_pure rg_po _)

theorem rg_runFinally (x : Exn) : Spec RG (runFinally x) := by
  unfold runFinally
  refine spec_getS_bind rg_po (fun s => ?_)
  refine spec_bind rg_po ?_ (fun _ => spec_bind rg_po (rg_of_quiet quietG_selClose) (fun _ => spec_throwE rg_po _))
  split
  · exact rg_of_quiet quietG_closeSocket
  · exact spec_pure rg_po _

theorem rg_runLoop : Spec RG runLoop := by
  unfold runLoop
  refine spec_getS_bind rg_po (fun s => ?_)
  exact spec_tryC rg_po
    (spec_bind rg_po (rg_runBody s.env) (fun _ => rg_of_quiet quietG_selClose))
    (fun x => rg_runFinally x)

theorem rg_yieldConnected (proxy : Bool) : Spec RG (yieldConnected proxy) := by
  unfold yieldConnected
  refine spec_getS_bind rg_po (fun s => ?_)
  split
  · exact spec_tryC rg_po (rg_yieldEv _ rfl)
      (fun x => spec_bind rg_po (rg_of_quiet quietG_closeSocket) (fun _ => spec_throwE rg_po _))
  · exact rg_yieldEv _ rfl

/-- the upgrade request is written before any Ready: whatever its bytes, it is not a Ping stamp -/
theorem ginv_write_before_ready (d : Bytes) (s : Sys) (h : GInv s) (h0 : readyAt s.trace = none) :
    ∃ r s', write d none s = .ok r s' ∧ GInv s' := by
  obtain ⟨r, s1, h1, a, b, c, dd, ht⟩ := write_eff d none s
  refine ⟨r, s1, h1, ?_⟩
  have hm : ∃ k, s1.nextPing = k * s1.cfg.pingRate := by rw [a, b]; exact h.mult
  rcases ht with ht | ⟨o, ht, hp, _⟩
  · exact ⟨by rw [dd, ht]; exact h.now, by rw [c, ht]; exact h.start, by rw [a, b, ht]; exact h.grid, hm⟩
  · refine ⟨by rw [dd, ht, clockOf_cons_of _ hp.1]; exact h.now,
            by rw [c, ht, readyAt_cons_of _ hp.2.1]; exact h.start, ?_, hm⟩
    rw [a, b, ht]
    by_cases hpw : o.tmPingWr = true
    · cases o with
      | wr bts =>
        rw [stamps_ping bts s.trace hpw, h0]
        exact h.grid
      | _ => cases hpw
    · rw [stamps_cons_plain _ hp.2.1 hp.2.2 (by simpa using hpw)]; exact h.grid

theorem rg_afterConnect (proxy : Bool) (s : Sys) (h0 : readyAt s.trace = none) :
    RG s (afterConnect proxy s).state := by
  intro h
  unfold afterConnect
  rw [bind_ok (show modS (fun s => { s with sockOpen := true }) s = .ok () { s with sockOpen := true } from rfl)]
  rw [bind_ok (show getS { s with sockOpen := true } = .ok _ _ from rfl)]
  obtain ⟨r, s2, hw, h2⟩ := ginv_write_before_ready s.cfg.request { s with sockOpen := true }
    ⟨h.now, h.start, h.grid, h.mult⟩ h0
  rw [bind_ok hw]
  split
  · exact rg_closeThenYield _ rfl s2 h2
  · refine spec_bind rg_po (rg_yieldConnected proxy) (fun _ =>
      spec_bind rg_po (rg_of_quiet (quietG_modS ?_)) (fun _ => rg_runLoop)) s2 h2
    intro s; exact ⟨rfl, rfl, rfl, rfl, rfl⟩

theorem rg_runLoopNoSel : Spec RG runLoopNoSel := by
  unfold runLoopNoSel
  exact spec_tryC rg_po
    (spec_bind rg_po (rg_onLoopEnd _) (fun _ => rg_of_quiet quietG_selClose))
    (fun x => rg_runFinally x)

theorem rg_afterConnectNoSel (proxy : Bool) (s : Sys) (h0 : readyAt s.trace = none) :
    RG s (afterConnectNoSel proxy s).state := by
  intro h
  unfold afterConnectNoSel
  rw [bind_ok (show modS (fun s => { s with sockOpen := true }) s = .ok () { s with sockOpen := true } from rfl)]
  rw [bind_ok (show getS { s with sockOpen := true } = .ok _ _ from rfl)]
  obtain ⟨r, s2, hw, h2⟩ := ginv_write_before_ready s.cfg.request { s with sockOpen := true }
    ⟨h.now, h.start, h.grid, h.mult⟩ h0
  rw [bind_ok hw]
  split
  · exact rg_closeThenYield _ rfl s2 h2
  · refine spec_bind rg_po (rg_yieldConnected proxy) (fun _ =>
      spec_bind rg_po (rg_of_quiet (quietG_modS ?_)) (fun _ => rg_runLoopNoSel)) s2 h2
    intro s; exact ⟨rfl, rfl, rfl, rfl, rfl⟩

theorem rg_run (s : Sys) (h0 : readyAt s.trace = none) : RG s (run s).state := by
  intro h
  unfold run
  have q := quietP_yieldEv .connecting rfl s
  have g := rg_yieldEv .connecting rfl s h
  cases hy : yieldEv .connecting s with
  | err x s1 => rw [bind_err hy]; rw [hy] at g; exact g
  | ok u s1 =>
    rw [hy] at g q
    simp only [Res.state_ok] at g q
    rw [bind_ok hy, bind_ok (show getS s1 = .ok s1 s1 from rfl)]
    have h1 : readyAt s1.trace = none := by
      obtain ⟨l, e, n⟩ := q.trace
      rw [e, readyAt_append_neutral l _ n]; exact h0
    cases hcn : s1.cfg.connect with
    | socketFail => exact rg_yieldEv _ rfl s1 g
    | otherFail => exact rg_yieldEv _ rfl s1 g
    | ok proxy => exact rg_afterConnect proxy s1 h1 g
    | selFail proxy => exact rg_afterConnectNoSel proxy s1 h1 g

/-- the grid invariant holds at the end of every connection -/
theorem ginv_runAll (cfg : Cfg) (react : React) (env : List EnvStep) : GInv (runAll cfg react env) := by
  have h0 : GInv { cfg := cfg, react := react, env := env } := ⟨rfl, rfl, trivial, ⟨0, by simp⟩⟩
  have h1 := rg_run { cfg := cfg, react := react, env := env } rfl h0
  unfold runAll
  simp only []
  generalize run { cfg := cfg, react := react, env := env } = r at h1
  have hinc : ∀ s : Sys, GInv s → GInv { s with trace := .incomplete :: s.trace } := by
    intro s hs
    have q : QuietG s { s with trace := .incomplete :: s.trace } :=
      ⟨rfl, rfl, rfl, rfl, ⟨[.incomplete], rfl,
        by simp [Obs.tmGneutral, Obs.tmTickVal, Obs.tmIsReady, Obs.tmIsRes, Obs.tmPingWr]⟩⟩
    exact ginv_quiet q hs
  have hcs : ∀ s : Sys, GInv s → GInv (match closeSocket s with | .ok _ s' => s' | .err _ s' => s') := by
    intro s hs
    have q := quietG_closeSocket s
    cases hc : closeSocket s with
    | ok a s' => rw [hc] at q; exact ginv_quiet q hs
    | err x s' => rw [hc] at q; exact ginv_quiet q hs
  cases r with
  | ok a s => exact h1
  | err x s =>
    simp only [Res.state_err] at h1
    cases x with
    | genExit => simp only []; split; exact hcs s h1; exact h1
    | outer y =>
      cases y with
      | genExit => simp only []; split; exact hcs s h1; exact h1
      | _ => exact hinc s h1
    | _ => exact hinc s h1

/-! ### what the grid rule says about any two stamps -/

theorem grid_all_lt {r B : Nat} {l : List Nat} (h : Grid r B l) : ∀ q ∈ l, ceilDiv q r * r < B := by
  induction l generalizing B with
  | nil => intro q hq; cases hq
  | cons q0 rest ih =>
    intro q hq
    rcases List.mem_cons.mp hq with e | hm
    · subst e; exact h.2.1
    · have h1 := ih h.2.2 q hm
      have hr : 0 < r := Nat.pos_of_ne_zero h.1
      have := le_ceilDiv_mul q0 r hr
      have := h.2.1
      omega

theorem grid_suffix {r B : Nat} (l1 : List Nat) {l2 : List Nat} (h : Grid r B (l1 ++ l2)) :
    ∃ B', Grid r B' l2 := by
  induction l1 generalizing B with
  | nil => exact ⟨B, h⟩
  | cons q rest ih => exact ih h.2.2

/-- any two stamps: the older one's period ends strictly before the newer one -/
theorem grid_pairwise {r B : Nat} {l1 l2 : List Nat} {qn qo : Nat}
    (h : Grid r B (l1 ++ qn :: l2)) (ho : qo ∈ l2) : r ≠ 0 ∧ ceilDiv qo r * r < qn := by
  obtain ⟨B', h'⟩ := grid_suffix l1 h
  exact ⟨h'.1, grid_all_lt h'.2.2 qo ho⟩

/-- … hence never two in one period `((k-1)·r, k·r]` -/
theorem grid_not_same_period {r B : Nat} {l1 l2 : List Nat} {qn qo : Nat}
    (h : Grid r B (l1 ++ qn :: l2)) (ho : qo ∈ l2) (k : Nat) :
    ¬ ((k - 1) * r < qo ∧ qn ≤ k * r) := by
  intro ⟨h1, h2⟩
  obtain ⟨hr, hlt⟩ := grid_pairwise h ho
  have := ceilDiv_mul_ge qo r k (Nat.pos_of_ne_zero hr) h1
  omega

theorem grid_nil_of_zero {B : Nat} {l : List Nat} (h : Grid 0 B l) : l = [] := by
  cases l with
  | nil => rfl
  | cons q rest => exact absurd rfl h.1

end Lomond.Core.Timers
