/-
  Helper lemmas for the message-level part of C05 (core model): `Text.from_payload`,
  fail-fast of the `_ReadUtf8` awaitable, which frames are read with validation.
-/
import Lomond.Proofs.Utf8
import Lomond.Proofs.Core
set_option linter.unusedSimpArgs false
set_option linter.unusedVariables false
namespace Lomond.Core
open Lomond Lomond.Utf8

/-- `Text.from_payload`: a text message is built exactly from well-formed payloads, and the text is
    the exact decoding -/
theorem msgOfPayload_text (payload : Bytes) :
    (∀ cps, msgOfPayload Gen.opText payload = .ok (.text cps) ↔ Utf8.decode payload = some cps) ∧
    (msgOfPayload Gen.opText payload = .error (.critical "payload contains invalid utf-8") ↔ Utf8.wf payload = false) := by
  have hop : Gen.opText ≠ Gen.opBinary := by decide
  unfold msgOfPayload
  simp only [hop, if_false, if_true]
  have hs := Utf8.decode_isSome payload
  cases hd : Utf8.decode payload with
  | none =>
    rw [hd] at hs
    refine ⟨fun cps => ⟨fun h => (by simp at h), fun h => (by cases h)⟩, ?_⟩
    simp at hs
    simp [hs]
  | some cps =>
    rw [hd] at hs
    refine ⟨fun c => ⟨fun h => (by simp at h; rw [h]), fun h => (by cases h; rfl)⟩, ?_⟩
    simp at hs
    simp [hs]

/-- the incremental validator state after the text bytes `pre` of the current message -/
theorem validate_after_prefix (pre chunk : Bytes) (d : Nat) (h : Utf8.validate 0 pre = some d) :
    Utf8.validate d chunk = Utf8.validate 0 (pre ++ chunk) := by
  rw [Utf8.validate_append, h]; rfl


/-- `validate` from the state reached after `pre` rejects `chunk` iff `pre ++ chunk` has no
    well-formed extension -/
theorem validate_none_iff (pre chunk : Bytes) (d : Nat) (h : Utf8.validate 0 pre = some d)
    (hw : Bytes.WF (pre ++ chunk)) :
    Utf8.validate d chunk = none ↔ ∀ ext, Utf8.wf (pre ++ chunk ++ ext) = false := by
  rw [validate_after_prefix pre chunk d h]
  have hr := Utf8.run_eq_srun 0 (pre ++ chunk) (by decide) hw
  rw [Utf8.validate_eq_run 0 _ (by decide) (by decide) hw]
  constructor
  · intro hn ext
    have h1 : Utf8.srun 0 (pre ++ chunk) = 1 := by
      by_cases h1 : Utf8.srun 0 (pre ++ chunk) = 1
      · exact h1
      · simp [h1] at hn
    have : Utf8.srun 0 (pre ++ chunk ++ ext) = 1 := by rw [Utf8.srun_append, h1, Utf8.srun_reject]
    cases hwf : Utf8.wf (pre ++ chunk ++ ext)
    · rfl
    · have := (Utf8.srun_zero_iff_wf _).mpr hwf; omega
  · intro hall
    by_cases h1 : Utf8.srun 0 (pre ++ chunk) = 1
    · simp [h1]
    · exfalso
      have hlt := Utf8.srun_lt 0 (pre ++ chunk) (by decide)
      have hc := Utf8.completion_accepts ⟨_, hlt⟩ h1
      have : Utf8.srun 0 (pre ++ chunk ++ Utf8.completion (Utf8.srun 0 (pre ++ chunk))) = 0 := by
        rw [Utf8.srun_append]; exact hc
      have := (Utf8.srun_zero_iff_wf _).mp this
      rw [hall] at this; cases this

/-- **Fail-fast at the parser.**  While a text payload is being read with incremental validation
    (`_ReadUtf8`), a bite is answered with `ParseError('invalid utf8')` at once — before the rest of
    the frame or message arrives — iff the text bytes received so far plus this bite admit no
    well-formed continuation; otherwise the validator lets it pass. -/
theorem failfast_bite (v : Variant) (p : PState) (pre chunk : Bytes) (hu : p.utf8 = true)
    (hpre : Utf8.validate 0 pre = some p.dfa) (hw : Bytes.WF (pre ++ chunk)) :
    ((∀ ext, Utf8.wf (pre ++ chunk ++ ext) = false) → biteBytes v p chunk = .error (.parse "invalid utf8")) ∧
    ((∃ ext, Utf8.wf (pre ++ chunk ++ ext) = true) → ∃ d, vres p.utf8 p.dfa chunk = some d) := by
  have key := validate_none_iff pre chunk p.dfa hpre hw
  constructor
  · intro hall
    rw [biteBytes_eq]
    have : vres p.utf8 p.dfa chunk = none := by simp [vres, hu]; exact key.mpr hall
    rw [this]
  · intro ⟨ext, hext⟩
    cases hv : vres p.utf8 p.dfa chunk with
    | some d => exact ⟨d, rfl⟩
    | none =>
      exfalso
      have : Utf8.validate p.dfa chunk = none := by simpa [vres, hu] using hv
      have := key.mp this ext
      rw [hext] at this; cases this

/-- an uncompressed (RSV1 = 0) text frame with a payload is read with incremental validation,
    whether or not permessage-deflate was negotiated (repair of D9) -/
theorem text_frame_is_validated (v : Variant) (hv : v.perMsgValidate = true) (p : PState) (b0 len : Nat)
    (key : Option Bytes) (r : PState × Option Out)
    (hop : b0 % 16 = Gen.opText) (hrsv : b0 / 64 % 2 = 0) (hlen : len ≠ 0)
    (h : gotMask v p b0 len key = .ok r) :
    r.1.utf8 = true ∧ r.1.isText = true ∧ r.1.isCompressed = false := by
  unfold gotMask at h
  simp only [Frame.isText, Frame.isContinuation, hop] at h
  split at h
  · cases h
  · simp [hlen, hrsv, hv] at h
    rw [← h]; simp

end Lomond.Core
