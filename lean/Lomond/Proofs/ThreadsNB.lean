/-
  The general socket (`Model/ThreadsN.lean`): bytes.  The chunks of a group concatenate to (a prefix
  of) the frame handed to `sendall`; the bytes of a wire made of groups are the bytes of the groups in
  order; and a byte string made of whole frames is read back by the specification decoder of C03
  (`Spec.decodeClientFrame`, iterated) as exactly those frames.
-/
import Lomond.Proofs.ThreadsNW
import Lomond.Proofs.FrameCodec
set_option linter.unusedSimpArgs false
set_option linter.unusedVariables false

namespace Lomond.Threads
open Lomond

/-! ### cutting a frame into chunks -/

theorem cutAt_flatten (sizes : List Nat) (b : Bytes) : (cutAt sizes b).flatten = b := by
  induction sizes generalizing b with
  | nil => simp [cutAt]
  | cons s r ih => simp [cutAt, ih, List.take_append_drop]

theorem cutAt_length (sizes : List Nat) (b : Bytes) : (cutAt sizes b).length = sizes.length + 1 := by
  induction sizes generalizing b with
  | nil => rfl
  | cons s r ih => simp [cutAt, ih]

/-- the socket's chunk sizes fit its chunk counts -/
def Env.SizesOk (env : Env) : Prop := ∀ t i len, (env.sizes t i len).length = env.more t i

theorem pieces_tag (env : Env) (cfg : Cfg) (t : Tid) (i : Nat) (b : Bool) (d : FrameDesc) :
    pieces env cfg ⟨t, i, b, d⟩ = pieces env cfg ⟨t, i, true, d⟩ := rfl

theorem pieces_length (env : Env) (cfg : Cfg) (c : Chunk) (h : env.SizesOk) :
    (pieces env cfg c).length = env.more c.tid c.idx + 1 := by
  unfold pieces; rw [cutAt_length, h]

theorem pieces_flatten (env : Env) (cfg : Cfg) (c : Chunk) : (pieces env cfg c).flatten = frameBytes cfg c := by
  unfold pieces; exact cutAt_flatten _ _

theorem frameBytes_tag (cfg : Cfg) (t : Tid) (i : Nat) (b : Bool) (d : FrameDesc) :
    frameBytes cfg ⟨t, i, b, d⟩ = frameBytes cfg ⟨t, i, true, d⟩ := rfl

/-- **the chunks of a whole group concatenate to the frame handed to `sendall`** -/
theorem whole_bytes (env : Env) (cfg : Cfg) (g : Group) (hs : env.SizesOk) (h : g.whole env) :
    g.bytes env cfg = frameBytes cfg ⟨g.tid, g.idx, true, g.desc⟩ := by
  unfold Group.bytes
  rw [h.1, h.2]
  simp only [if_true]
  rw [← pieces_length env cfg ⟨g.tid, g.idx, true, g.desc⟩ hs, List.take_length, pieces_flatten]

/-- a torn group carries a prefix of its frame -/
theorem torn_bytes_prefix (env : Env) (cfg : Cfg) (g : Group) :
    g.bytes env cfg <+: frameBytes cfg ⟨g.tid, g.idx, true, g.desc⟩ := by
  unfold Group.bytes
  rw [← pieces_flatten env cfg ⟨g.tid, g.idx, true, g.desc⟩]
  generalize pieces env cfg ⟨g.tid, g.idx, true, g.desc⟩ = L
  generalize (g.parts + if g.fin = true then 1 else 0) = n
  refine ⟨(L.drop n).flatten, ?_⟩
  rw [← List.flatten_append, List.take_append_drop]

/-! ### the bytes of a wire made of groups -/

theorem take_flatten_getD (L : List Bytes) (n : Nat) :
    ((List.range n).map (fun j => L.getD j [])).flatten = (L.take n).flatten := by
  induction n with
  | zero => simp
  | succ n ih =>
    rw [List.range_succ, List.map_append, List.flatten_append, ih, List.take_add_one, List.flatten_append]
    congr 1
    cases h : L[n]? with
    | none => simp [List.getD, h]
    | some x => simp [List.getD, h]

theorem bytesFrom_append (env : Env) (cfg : Cfg) (pre a b : List Chunk) :
    bytesFrom env cfg pre (a ++ b) = bytesFrom env cfg pre a ++ bytesFrom env cfg (pre ++ a) b := by
  induction a generalizing pre with
  | nil => simp [bytesFrom]
  | cons x r ih =>
    simp only [List.cons_append, bytesFrom, ih, List.append_assoc]
    congr 2

/-- the `k` chunks of one frame that come first on a wire on which that frame has no chunk yet -/
theorem bytesFrom_replicate (env : Env) (cfg : Cfg) (pre : List Chunk) (t : Tid) (i : Nat) (d : FrameDesc)
    (hpre : sentOf pre t i = 0) (k j0 : Nat) (hj : sentOf pre t i + j0 = j0) :
    ∀ pre', sentOf pre' t i = j0 →
      bytesFrom env cfg pre' (List.replicate k ⟨t, i, false, d⟩) =
        ((List.range k).map (fun j => (pieces env cfg ⟨t, i, true, d⟩).getD (j0 + j) [])).flatten := by
  induction k generalizing j0 with
  | zero => intro pre' _; simp [bytesFrom]
  | succ k ih =>
    intro pre' hp
    rw [List.replicate_succ, bytesFrom, hp, pieces_tag]
    have := ih (j0 + 1) (by omega) (pre' ++ [⟨t, i, false, d⟩]) (by
      rw [sentOf_append, hp]; simp [sentOf])
    rw [this, List.range_succ_eq_map, List.map_cons, List.flatten_cons, List.map_map]
    simp only [Nat.add_zero]
    congr 2
    apply List.map_congr_left
    intro j _
    simp only [Function.comp]
    congr 1; omega

theorem group_bytesFrom (env : Env) (cfg : Cfg) (pre : List Chunk) (g : Group) (h0 : sentOf pre g.tid g.idx = 0) :
    bytesFrom env cfg pre g.chunks = g.bytes env cfg := by
  unfold Group.chunks Group.bytes
  rw [bytesFrom_append, bytesFrom_replicate env cfg pre g.tid g.idx g.desc h0 g.parts 0 (by omega) pre h0]
  simp only [Nat.zero_add]
  cases hf : g.fin with
  | false =>
    simp only [Bool.false_eq_true, if_false, bytesFrom, List.append_nil, Nat.add_zero]
    exact take_flatten_getD _ _
  | true =>
    simp only [if_true, bytesFrom, List.append_nil]
    rw [sentOf_append, h0, sentOf_replicate, Nat.zero_add, ← take_flatten_getD _ (g.parts + 1), List.range_succ,
      List.map_append, List.flatten_append]
    simp

/-- groups of different calls -/
def distinctCalls (gs : List Group) : Prop := gs.Pairwise (fun a b => ¬ (a.tid = b.tid ∧ a.idx = b.idx))

theorem flat_bytesFrom (env : Env) (cfg : Cfg) (gs : List Group) (pre : List Chunk)
    (hd : distinctCalls gs) (hpre : ∀ g ∈ gs, sentOf pre g.tid g.idx = 0) :
    bytesFrom env cfg pre (flat gs) = (gs.map (Group.bytes env cfg)).flatten := by
  induction gs generalizing pre with
  | nil => simp [flat, bytesFrom]
  | cons g r ih =>
    have hfl : flat (g :: r) = g.chunks ++ flat r := by simp [flat]
    rw [hfl, bytesFrom_append, group_bytesFrom env cfg pre g (hpre g (List.mem_cons_self ..))]
    simp only [List.map_cons, List.flatten_cons]
    congr 1
    apply ih
    · exact (List.pairwise_cons.mp hd).2
    · intro g' hg'
      rw [sentOf_append, hpre g' (List.mem_cons_of_mem _ hg'), Nat.zero_add]
      apply sentOf_chunks_other
      intro h
      exact (List.pairwise_cons.mp hd).1 g' hg' ⟨h.1, h.2⟩

/-- one group per call follows from the call order of each thread's groups -/
theorem distinct_of_sorted (gs : List Group) (h : ∀ t, (gidx gs t).Pairwise (· < ·)) : distinctCalls gs := by
  induction gs with
  | nil => exact List.Pairwise.nil
  | cons g r ih =>
    refine List.pairwise_cons.mpr ⟨?_, ih ?_⟩
    · intro g' hg' ⟨h1, h2⟩
      have := h g.tid
      simp only [gidx, List.filter_cons, decide_true, if_true, List.map_cons] at this
      have hlt := (List.pairwise_cons.mp this).1 g'.idx (by
        simp only [List.mem_map, List.mem_filter, decide_eq_true_eq]
        exact ⟨g', ⟨hg', h1.symm⟩, rfl⟩)
      omega
    · intro t
      have := h t
      simp only [gidx, List.filter_cons] at this
      split at this
      · exact (List.pairwise_cons.mp this).2
      · exact this

/-- **the bytes of a wire made of groups are the bytes of the groups, in order** -/
theorem wireBytesN_flat (env : Env) (cfg : Cfg) (gs : List Group) (h : ∀ t, (gidx gs t).Pairwise (· < ·)) :
    wireBytesN env cfg (flat gs) = (gs.map (Group.bytes env cfg)).flatten :=
  flat_bytesFrom env cfg gs [] (distinct_of_sorted gs h) (fun _ _ => rfl)

/-! ### decoding -/

theorem decodeFrames_frames (fs : List Chunk) (fb : Chunk → Bytes) (dec : Chunk → Spec.Decoded)
    (h : ∀ f ∈ fs, fb f ≠ [] ∧ ∀ rest, Spec.decodeClientFrame (fb f ++ rest) = some (dec f, rest)) :
    ∀ fuel, fs.length ≤ fuel → decodeFrames fuel (fs.map fb).flatten = some (fs.map dec) := by
  induction fs with
  | nil => intro fuel _; cases fuel <;> rfl
  | cons f r ih =>
    intro fuel hfuel
    obtain ⟨hne, hdec⟩ := h f (List.mem_cons_self ..)
    cases fuel with
    | zero => simp at hfuel
    | succ fuel =>
      simp only [List.map_cons, List.flatten_cons]
      cases hfb : fb f with
      | nil => exact absurd hfb hne
      | cons b bs =>
        have := hdec (r.map fb).flatten
        rw [hfb] at this
        simp only [List.cons_append] at this ⊢
        simp only [decodeFrames, this]
        rw [ih (fun x hx => h x (List.mem_cons_of_mem _ hx)) fuel (by simp at hfuel; omega)]
        rfl

theorem flatten_length_ge {α : Type} (L : List (List α)) (h : ∀ x ∈ L, x ≠ []) : L.length ≤ L.flatten.length := by
  induction L with
  | nil => simp
  | cons a r ih =>
    have ha : a ≠ [] := h a (List.mem_cons_self ..)
    have := ih (fun x hx => h x (List.mem_cons_of_mem _ hx))
    have hl : 0 < a.length := List.length_pos_iff.mpr ha
    simp only [List.flatten_cons, List.length_append, List.length_cons]
    omega

/-- **a byte string made of whole frames decodes to exactly those frames** -/
theorem decodeWire_frames (fs : List Chunk) (fb : Chunk → Bytes) (dec : Chunk → Spec.Decoded)
    (h : ∀ f ∈ fs, fb f ≠ [] ∧ ∀ rest, Spec.decodeClientFrame (fb f ++ rest) = some (dec f, rest)) :
    decodeWire (fs.map fb).flatten = some (fs.map dec) := by
  unfold decodeWire
  apply decodeFrames_frames fs fb dec h
  have := flatten_length_ge (fs.map fb) (by
    intro x hx
    simp only [List.mem_map] at hx
    obtain ⟨f, hf, rfl⟩ := hx
    exact (h f hf).1)
  simpa using this

/-- the frame of a chunk is built (the payload is shorter than 2^63 bytes) -/
def buildable (cfg : Cfg) (c : Chunk) : Prop :=
  (payloadBytes cfg c.desc.pay).length < 2 ^ 63 ∧ (cfg.key c.tid c.idx).length = 4 ∧ c.desc.op < 16

/-- C03's round trip for the frame of a chunk of the model's wire -/
theorem frame_roundtrip (cfg : Cfg) (c : Chunk) (h : buildable cfg c) :
    frameBytes cfg c ≠ [] ∧
      ∀ rest, Spec.decodeClientFrame (frameBytes cfg c ++ rest) = some (decodedOf cfg c, rest) := by
  obtain ⟨hlen, hkey, hop⟩ := h
  have hsome : ∃ bytes, Frame.build c.desc.op (payloadBytes cfg c.desc.pay) (cfg.key c.tid c.idx)
      (rsv1 := if isCompressed c.desc.pay then 1 else 0) = some bytes := by
    cases hb : Frame.build c.desc.op (payloadBytes cfg c.desc.pay) (cfg.key c.tid c.idx)
        (rsv1 := if isCompressed c.desc.pay then 1 else 0) with
    | some b => exact ⟨b, rfl⟩
    | none =>
      have := (build_none _ _ _ _ _ _ _).mp hb
      omega
  obtain ⟨bytes, hb⟩ := hsome
  have hfb : frameBytes cfg c = bytes := by unfold frameBytes; rw [hb]; rfl
  have hr1 : (if isCompressed c.desc.pay = true then 1 else 0) < 2 := by split <;> omega
  have hdec := fun rest => decode_build c.desc.op 1 (if isCompressed c.desc.pay then 1 else 0) 0 0
    (payloadBytes cfg c.desc.pay) (cfg.key c.tid c.idx) rest bytes hop (by omega) hr1 (by omega) (by omega) hkey hb
  refine ⟨?_, fun rest => ?_⟩
  · rw [hfb]
    intro e
    have := hdec []
    rw [e] at this
    simp [Spec.decodeClientFrame] at this
  · rw [hfb, hdec rest]; rfl

/-! ### the complete frames of a wire made of groups -/

/-- the last chunk of a group: the chunk that stands for the complete frame in `frames` -/
def Group.last (g : Group) : Chunk := ⟨g.tid, g.idx, true, g.desc⟩

theorem frames_chunks (g : Group) : frames g.chunks = if g.fin then [g.last] else [] := by
  unfold Group.chunks frames
  rw [List.filter_append]
  have : (List.replicate g.parts (⟨g.tid, g.idx, false, g.desc⟩ : Chunk)).filter (·.second) = [] := by
    rw [List.filter_eq_nil_iff]
    intro x hx
    rw [(List.mem_replicate.mp hx).2]; simp
  rw [this]
  cases g.fin <;> simp [Group.last]

theorem frames_flat (gs : List Group) : frames (flat gs) = (gs.filter (·.fin)).map Group.last := by
  induction gs with
  | nil => rfl
  | cons g r ih =>
    have hfl : flat (g :: r) = g.chunks ++ flat r := by simp [flat]
    rw [hfl, frames_append, frames_chunks, ih, List.filter_cons]
    cases g.fin <;> simp

theorem call_op_lt (call : Call) : call.op < 16 := by
  cases call <;> simp [Call.op]

/-- the bytes of the whole groups are the frames handed to `sendall`, and the specification decoder
    reads exactly them back -/
theorem whole_groups_decode (env : Env) (cfg : Cfg) (gs : List Group) (hs : env.SizesOk)
    (hok : ∀ g ∈ gs, g.whole env ∨ g.torn env)
    (hb : ∀ g ∈ gs, g.fin = true → buildable cfg g.last) :
    (((gs.filter (·.fin)).map (Group.bytes env cfg)).flatten =
      ((frames (flat gs)).map (frameBytes cfg)).flatten) ∧
    decodeWire (((gs.filter (·.fin)).map (Group.bytes env cfg)).flatten) =
      some ((frames (flat gs)).map (decodedOf cfg)) := by
  have hbytes : (gs.filter (·.fin)).map (Group.bytes env cfg) = ((gs.filter (·.fin)).map Group.last).map (frameBytes cfg) := by
    rw [List.map_map]
    apply List.map_congr_left
    intro g hg
    simp only [List.mem_filter] at hg
    have hw : g.whole env := by
      rcases hok g hg.1 with h | h
      · exact h
      · rw [h.1] at hg; cases hg.2
    simpa [Group.last] using whole_bytes env cfg g hs hw
  rw [frames_flat, hbytes]
  refine ⟨rfl, decodeWire_frames _ _ _ ?_⟩
  intro f hf
  simp only [List.mem_map, List.mem_filter] at hf
  obtain ⟨g, ⟨hg, hfin⟩, rfl⟩ := hf
  exact frame_roundtrip cfg g.last (hb g hg hfin)

theorem filter_all_fin (env : Env) (gs : List Group) (h : ∀ g ∈ gs, g.whole env) : gs.filter (·.fin) = gs := by
  rw [List.filter_eq_self]
  intro g hg; exact (h g hg).1

/-! ### a torn frame's call has not written -/

theorem mem_idxs_flat {gs : List Group} {t : Tid} {i : Nat} (h : i ∈ idxs (flat gs) t) :
    ∃ g ∈ gs, g.fin = true ∧ g.tid = t ∧ g.idx = i := by
  unfold idxs at h
  rw [frames_flat] at h
  simp only [List.mem_map, List.mem_filter, decide_eq_true_eq] at h
  obtain ⟨x, ⟨⟨g, ⟨hg, hfin⟩, rfl⟩, ht⟩, hi⟩ := h
  exact ⟨g, hg, hfin, ht, hi⟩

theorem pairwise_mem {α : Type} {R : α → α → Prop} {l : List α} (h : l.Pairwise R) {a b : α}
    (ha : a ∈ l) (hb : b ∈ l) : a = b ∨ R a b ∨ R b a := by
  induction l with
  | nil => cases ha
  | cons x r ih =>
    obtain ⟨h1, h2⟩ := List.pairwise_cons.mp h
    rcases List.mem_cons.mp ha with rfl | ha' <;> rcases List.mem_cons.mp hb with rfl | hb'
    · exact Or.inl rfl
    · exact Or.inr (Or.inl (h1 b hb'))
    · exact Or.inr (Or.inr (h1 a ha'))
    · exact ih h2 ha' hb'

/-- the call of a torn group has no complete frame on a wire made of groups -/
theorem torn_not_in_idxs (env : Env) (gs : List Group) (h : ∀ t, (gidx gs t).Pairwise (· < ·)) (g : Group)
    (hg : g ∈ gs) (ht : g.torn env) : g.idx ∉ idxs (flat gs) g.tid := by
  intro hmem
  obtain ⟨g', hg', hfin, h1, h2⟩ := mem_idxs_flat hmem
  rcases pairwise_mem (distinct_of_sorted gs h) hg hg' with e | e | e
  · subst e; rw [ht.1] at hfin; cases hfin
  · exact e ⟨h1.symm, h2.symm⟩
  · exact e ⟨h1, h2⟩

end Lomond.Threads
