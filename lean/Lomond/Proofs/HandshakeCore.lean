/-
  C10, core side: the header phase of `Parser.feed` (16 KiB limit, segmentation), what the
  application's reaction to an event can and cannot do (`ActRel`), and the consequences of a refused
  handshake (`Rejected`, or `ProtocolError` for an oversize header block) in `WebSocket.feed`.
-/
import Lomond.Proofs.Http
import Lomond.Proofs.Segmentation
import Lomond.Proofs.Release
set_option linter.unusedSimpArgs false
namespace Lomond.Core
open Lomond Lomond.Http

/-! ### the header phase of `Parser.feed` (`_ReadUntil(b'\r\n\r\n', max_bytes=16 KiB)`) -/

theorem headerTooLong_iff (n : Nat) : headerTooLong n = true ↔ n > Gen.headerMax := by
  simp [headerTooLong, Gen.headerMaxIsNone]

/-- the parser state after the header block has been cut off -/
def headerDone (s : Sys) : Sys :=
  { s with p := { s.p with cont := .hdr2, remPred := 1, utf8 := false, buf := [] } }

theorem feedBody_unterminated_long (s : Sys) (data : Bytes) (hc : s.p.cont = .header)
    (hnone : findSep Gen.headerSep (s.p.buf ++ data) = none) (hlen : (s.p.buf ++ data).length > Gen.headerMax) :
    feedBody data s = .err (.parse "expected separator") { s with p := deadParser s.p } := by
  rw [feedBody_header _ _ hc, feedHeader_eq]
  unfold hdrStep
  simp only [hnone, (headerTooLong_iff _).mpr hlen, if_true]

theorem feedBody_unterminated_short (s : Sys) (data : Bytes) (hc : s.p.cont = .header)
    (hnone : findSep Gen.headerSep (s.p.buf ++ data) = none) (hlen : (s.p.buf ++ data).length ≤ Gen.headerMax) :
    feedBody data s = .ok () { s with p := { s.p with buf := s.p.buf ++ data } } := by
  rw [feedBody_header _ _ hc, feedHeader_eq]
  unfold hdrStep
  have : headerTooLong (s.p.buf ++ data).length = false := by
    cases h : headerTooLong (s.p.buf ++ data).length with
    | false => rfl
    | true => have := (headerTooLong_iff _).mp h; omega
  simp only [hnone, this, Bool.false_eq_true, if_false]

theorem feedBody_terminated_long (s : Sys) (data : Bytes) (i : Nat) (hc : s.p.cont = .header)
    (hsome : findSep Gen.headerSep (s.p.buf ++ data) = some i) (hlen : i + 4 > Gen.headerMax) :
    feedBody data s = .err (.parse "expected separator") { s with p := deadParser s.p } := by
  rw [feedBody_header _ _ hc, feedHeader_eq]
  unfold hdrStep
  have : headerTooLong (i + Gen.headerSep.length) = true := (headerTooLong_iff _).mpr (by simpa [Gen.headerSep] using hlen)
  simp only [hsome, this, if_true]

/-- a complete header block within the limit: the block (terminator included) is handed to
    `Response`/`on_response` (`onOut (.header …)`), the rest of the read goes on to the frame parser -/
theorem feedBody_terminated_ok (s : Sys) (data : Bytes) (i : Nat) (hc : s.p.cont = .header)
    (hsome : findSep Gen.headerSep (s.p.buf ++ data) = some i) (hlen : i + 4 ≤ Gen.headerMax) :
    feedBody data s =
      (do let go ← onOut (.header ((s.p.buf ++ data).take (i + 4)))
          if go then do
            let _ ← feedLoop ((s.p.buf ++ data).drop (i + 4))
            pure ()
          else pure () : M Unit) (headerDone s) := by
  rw [feedBody_header _ _ hc, feedHeader_eq]
  unfold hdrStep
  have : headerTooLong (i + Gen.headerSep.length) = false := by
    cases h : headerTooLong (i + Gen.headerSep.length) with
    | false => rfl
    | true => have := (headerTooLong_iff _).mp h; simp [Gen.headerSep] at this; omega
  simp only [hsome, this, Bool.false_eq_true, if_false, resume, hc]
  rfl

theorem isPrefixOf_append_short (sep u y : Bytes) (h : sep.isPrefixOf (u ++ y) = true) (hl : sep.length ≤ u.length) :
    sep.isPrefixOf u = true := by
  induction sep generalizing u with
  | nil => simp
  | cons a sep ih =>
    cases u with
    | nil => simp at hl
    | cons b u =>
      simp only [List.cons_append, List.isPrefixOf, Bool.and_eq_true] at h ⊢
      exact ⟨h.1, ih u h.2 (by simp at hl; omega)⟩

theorem findSep_none_append (sep x y : Bytes) (i : Nat) (hx : findSep sep x = none)
    (hxy : findSep sep (x ++ y) = some i) : i + sep.length > x.length := by
  induction x generalizing i with
  | nil => 
    simp only [findSep] at hx
    split at hx
    · simp at hx
    · rename_i hne
      have : sep.length ≠ 0 := fun e => hne (List.eq_nil_of_length_eq_zero e)
      simp; omega
  | cons c x ih =>
    simp only [findSep] at hx
    split at hx
    · simp at hx
    · rename_i hnp
      simp only [Option.map_eq_none_iff] at hx
      simp only [List.cons_append, findSep] at hxy
      split at hxy
      · rename_i hp
        simp only [Option.some.injEq] at hxy
        subst hxy
        have : ¬ sep.length ≤ (c :: x).length := by
          intro hl
          exact hnp (isPrefixOf_append_short sep (c :: x) y (by simpa using hp) hl)
        simp at this ⊢; omega
      · cases hj : findSep sep (x ++ y) with
        | none => simp [hj] at hxy
        | some j =>
          simp only [hj, Option.map_some, Option.some.injEq] at hxy
          have := ih j hx hj
          simp; omega


/-- **segmentation in the header phase**: as long as the terminator has not arrived, feeding
    `a` and then `b` is the same as feeding `a ++ b` at once (same result, same state, same error). -/
theorem feedBody_header_split (s : Sys) (a b : Bytes) (hc : s.p.cont = .header)
    (hnone : findSep Gen.headerSep (s.p.buf ++ a) = none) :
    (do feedBody a; feedBody b : M Unit) s = feedBody (a ++ b) s := by
  by_cases hlen : (s.p.buf ++ a).length > Gen.headerMax
  · rw [bind_err (feedBody_unterminated_long s a hc hnone hlen)]
    cases hab : findSep Gen.headerSep (s.p.buf ++ (a ++ b)) with
    | none =>
      rw [feedBody_unterminated_long s (a ++ b) hc hab (by simp at hlen ⊢; omega)]
    | some i =>
      have := findSep_none_append Gen.headerSep (s.p.buf ++ a) b i hnone (by simpa using hab)
      rw [feedBody_terminated_long s (a ++ b) i hc hab (by simp [Gen.headerSep] at this hlen ⊢; omega)]
  · rw [bind_ok (feedBody_unterminated_short s a hc hnone (by omega))]
    rw [feedBody_header _ _ hc, feedBody_header _ _ (by exact hc), feedHeader_eq, feedHeader_eq]
    have h := hdrStep_bufTo ((s.p.buf ++ a) ++ b) (s.p.buf ++ a) s
    simp only [bufTo] at h
    simp only [List.append_assoc] at h ⊢
    exact h

/-! ### what the application's reaction to an event can and cannot do -/

def Obs.isEv : Obs → Bool
  | .ev _ => true
  | _ => false

def Obs.isRes : Obs → Bool
  | .res _ => true
  | _ => false

/-- what an application call (`send_*`, `close`, `session.close`) can do to the system: it never
    produces an event, never re-opens the socket, never touches the flags `ready`/`closed`;
    and once the websocket is closed and the socket gone it only reports results -/
structure ActRel (s s' : Sys) : Prop where
  ready : s'.ready = s.ready
  react : s'.react = s.react
  cfg : s'.cfg = s.cfg
  closed : s'.closed = s.closed
  sock : s.sockOpen = false → s'.sockOpen = false
  trace : ∃ t, s'.trace = t ++ s.trace ∧ (∀ o ∈ t, o.isEv = false) ∧
    (s.closed = true → s.sockOpen = false → ∀ o ∈ t, o.isRes = true)

theorem ActRel.refl (s : Sys) : ActRel s s :=
  ⟨rfl, rfl, rfl, rfl, id, [], rfl, by simp, by simp⟩

theorem ActRel.trans {a b c : Sys} (h1 : ActRel a b) (h2 : ActRel b c) : ActRel a c := by
  obtain ⟨t1, e1, n1, d1⟩ := h1.trace
  obtain ⟨t2, e2, n2, d2⟩ := h2.trace
  refine ⟨h2.ready.trans h1.ready, h2.react.trans h1.react, h2.cfg.trans h1.cfg, h2.closed.trans h1.closed,
    fun h => h2.sock (h1.sock h), t2 ++ t1, by rw [e2, e1, List.append_assoc], ?_, ?_⟩
  · intro o ho; simp only [List.mem_append] at ho
    rcases ho with ho | ho
    · exact n2 o ho
    · exact n1 o ho
  · intro hc hs o ho; simp only [List.mem_append] at ho
    rcases ho with ho | ho
    · exact d2 (h1.closed.trans hc) (h1.sock hs) o ho
    · exact d1 hc hs o ho

theorem write_rel (data : Bytes) (z : Option (Nat × Bytes)) (s : Sys) : ActRel s (write data z s).state := by
  unfold write
  split
  · exact ActRel.refl s
  · split
    · exact ActRel.refl s
    · split
      · exact ActRel.refl s
      · rename_i hopen hclosed hclosing
        have ho : s.sockOpen = true := by simpa using hopen
        simp only []
        split
        · exact ⟨rfl, rfl, rfl, rfl, by simp [ho], [.wrFail data], rfl, by simp [Obs.isEv], by simp [ho]⟩
        · split
          · exact ⟨rfl, rfl, rfl, rfl, by simp [ho], [.wr data], rfl, by simp [Obs.isEv], by simp [ho]⟩
          · rename_i op plain
            exact ⟨rfl, rfl, rfl, rfl, by simp [ho], [.wrz op plain], rfl, by simp [Obs.isEv], by simp [ho]⟩


theorem ActRel.of_same (s s' : Sys) (h1 : s'.ready = s.ready) (h2 : s'.react = s.react) (h3 : s'.cfg = s.cfg)
    (h4 : s'.closed = s.closed) (h5 : s'.sockOpen = s.sockOpen) (h6 : s'.trace = s.trace) : ActRel s s' :=
  ⟨h1, h2, h3, h4, fun h => by rw [h5]; exact h, [], by simp [h6], by simp, by simp⟩

theorem sendFrame_rel (opcode : Nat) (payload : Bytes) (c : Option Bytes) (s : Sys) :
    ActRel s (sendFrame opcode payload c s).state := by
  unfold sendFrame
  simp only []
  have h0 : ActRel s { s with keyCtr := s.keyCtr + 1 } := ActRel.of_same _ _ rfl rfl rfl rfl rfl rfl
  split
  · split
    · exact h0.trans (write_rel _ _ _)
    · exact h0
  · exact h0.trans (write_rel _ _ _)

theorem closeSocket_rel (s : Sys) : ActRel s (closeSocket s).state := by
  unfold closeSocket
  split
  · rename_i ho
    exact ⟨rfl, rfl, rfl, rfl, fun _ => rfl, [.sockClose], rfl, by simp [Obs.isEv], by simp [ho]⟩
  · exact ActRel.refl s

theorem sendFrame_rel_ok {opcode : Nat} {payload : Bytes} {c : Option Bytes} {s s' : Sys} {r : ActRes}
    (h : sendFrame opcode payload c s = .ok r s') : ActRel s s' := by
  have := sendFrame_rel opcode payload c s; rw [h] at this; exact this

theorem sendFrame_rel_err {opcode : Nat} {payload : Bytes} {c : Option Bytes} {s s' : Sys} {x : Exn}
    (h : sendFrame opcode payload c s = .err x s') : ActRel s s' := by
  have := sendFrame_rel opcode payload c s; rw [h] at this; exact this

theorem wsClose_rel (code : Option Nat) (reason : Arg) (s : Sys) : ActRel s (wsClose code reason s).state := by
  unfold wsClose
  repeat' (first | split | dsimp only)
  all_goals simp only [Res.state]
  all_goals first
    | exact ActRel.refl s
    | (have h := sendFrame_rel_ok (by assumption); exact h.trans (ActRel.of_same _ _ rfl rfl rfl rfl rfl rfl))
    | (have h := sendFrame_rel_err (by assumption); exact h)


theorem sendData_rel (opcode : Nat) (payload : Bytes) (c : Bool) (s : Sys) :
    ActRel s (sendData opcode payload c s).state := by
  unfold sendData
  split <;> exact sendFrame_rel _ _ _ s

theorem actRel_po : PO ActRel := ⟨ActRel.refl, ActRel.trans⟩

theorem rel_write (d : Bytes) (z : Option (Nat × Bytes)) : Spec ActRel (write d z) := write_rel d z
theorem rel_sendFrame (o : Nat) (pl : Bytes) (c : Option Bytes) : Spec ActRel (sendFrame o pl c) := sendFrame_rel o pl c
theorem rel_closeSocket : Spec ActRel closeSocket := closeSocket_rel
theorem rel_wsClose (c : Option Nat) (r : Arg) : Spec ActRel (wsClose c r) := wsClose_rel c r
theorem rel_sendData (o : Nat) (pl : Bytes) (c : Bool) : Spec ActRel (sendData o pl c) := sendData_rel o pl c

theorem rel_logRes {m : M ActRes} (h : Spec ActRel m) : Spec ActRel (logRes m) := by
  unfold logRes
  apply spec_bind actRel_po h
  intro r s
  unfold log modS
  exact ⟨rfl, rfl, rfl, rfl, fun h => h, [.res r], rfl, by simp [Obs.isEv], by simp [Obs.isRes]⟩

theorem rel_doAct (a : Act) : Spec ActRel (doAct a) := by
  unfold doAct
  split
  all_goals first
    | (apply rel_logRes
       repeat' (first
         | apply spec_pure actRel_po
         | apply rel_sendData
         | apply rel_sendFrame
         | apply rel_wsClose
         | apply rel_closeSocket
         | apply spec_bind actRel_po
         | intro _
         | split))
    | (intro s; exact ActRel.of_same _ _ rfl rfl rfl rfl rfl rfl)

theorem doActs_rel (acts : List Act) : Spec ActRel (doActs acts) := by
  induction acts with
  | nil => exact spec_pure actRel_po ()
  | cons a r ih => unfold doActs; exact spec_bind actRel_po (rel_doAct a) (fun _ => ih)

/-! ### a refused handshake in `WebSocket.feed` and `run()` -/

theorem regular_not_ready (s : Sys) (h : s.ready = false) : regular s = .ok () s := by
  unfold regular
  simp only [bind, M.bind, getS, h, Bool.false_eq_true, if_false]
  rfl

/-- the state right after `yield event` handed the event to the application -/
def yielded (e : Event) (s : Sys) : Sys := { s with trace := .ev e :: s.trace, hist := e :: s.hist }

theorem yieldEv_yielded (e : Event) (s : Sys) :
    yieldEv e s = doActs ((yielded e s).react (yielded e s).hist) (yielded e s) := rfl

theorem yieldEv_rel (e : Event) (s : Sys) : ActRel (yielded e s) (yieldEv e s).state := by
  rw [yieldEv_yielded]
  exact doActs_rel _ _

/-- an event that `_on_event` ignores, yielded before Ready: the application reacts, nothing else
    happens; if the application's reaction raised (or it abandoned the loop) the exception is
    re-raised in `run()` after `WebSocket.feed`'s generator has been finalised -/
theorem feedYield_quiet (inTry : Bool) (e : Event) (s : Sys) (he : onEvent e s = .ok () s) (hr : s.ready = false) :
    ∃ s', ActRel (yielded e s) s' ∧
      (feedYield inTry e s = .ok () s' ∨
       ∃ x, feedYield inTry e s = (do (if inTry then onDisconnect else pure ())
                                      throwE (.outer x) : M Unit) s') := by
  have hrel := yieldEv_rel e s
  unfold feedYield
  cases hy : yieldEv e s with
  | ok u s' =>
    rw [hy] at hrel
    simp only [Res.state_ok] at hrel
    have hr' : s'.ready = false := by rw [hrel.ready]; exact hr
    refine ⟨s', hrel, Or.inl ?_⟩
    apply tryC_ok
    rw [bind_ok he, bind_ok hy]
    exact regular_not_ready s' hr'
  | err x s' =>
    rw [hy] at hrel
    simp only [Res.state_err] at hrel
    refine ⟨s', hrel, Or.inr ⟨x, ?_⟩⟩
    apply tryC_err
    rw [bind_ok he, bind_err hy]


/-- the observable outcome of a refused handshake -/
structure RejectedOutcome (s s' : Sys) (reason : Str) : Prop where
  closed : s'.closed = true
  sock : s'.sockOpen = false
  ready : s'.ready = false
  trace : ∃ t, s'.trace = t ++ .ev (.rejected reason) :: ((if s.sockOpen then [Obs.sockClose] else []) ++ s.trace) ∧
    ∀ o ∈ t, o.isRes = true

theorem onDisconnect_dead (s : Sys) (hs : s.sockOpen = false) :
    onDisconnect s = .ok () { s with closing := false, closed := true } := by
  unfold onDisconnect closeSocket
  simp [bind, M.bind, hs, modS]

theorem onOut_rejected (s : Sys) (data : Bytes) (reason : Str) (hr : s.ready = false)
    (herr : onResponse s.cfg.v.strictAccept s.cfg.challenge (parseResponse data) = .error reason) :
    ∃ s', RejectedOutcome s s' reason ∧
      (onOut (.header data) s = .ok false s' ∨ ∃ x, onOut (.header data) s = .err (.outer x) s') := by
  -- the state in which Rejected is yielded
  let s2 : Sys := { s with parsedResponse := true, sockOpen := false, closing := false, closed := true,
                           trace := (if s.sockOpen then [Obs.sockClose] else []) ++ s.trace }
  have hs2 : onDisconnect { s with parsedResponse := true } = .ok () s2 := by
    simp only [bind, M.bind, modS, onDisconnect, closeSocket, s2]
    cases h : s.sockOpen <;> simp
  have hs2sock : s2.sockOpen = false := rfl
  have hs2ready : s2.ready = false := hr
  have hs2trace : s2.trace = (if s.sockOpen then [Obs.sockClose] else []) ++ s.trace := rfl
  obtain ⟨s', hrel, hres⟩ := feedYield_quiet true (.rejected reason) s2 rfl hs2ready
  obtain ⟨t, ht, _, hdead⟩ := hrel.trace
  have hy_closed : (yielded (.rejected reason) s2).closed = true := rfl
  have hy_sock : (yielded (.rejected reason) s2).sockOpen = false := hs2sock
  have hout : RejectedOutcome s s' reason :=
    ⟨by rw [hrel.closed]; rfl, hrel.sock hy_sock, by rw [hrel.ready]; exact hs2ready,
     t, by rw [ht]; simp [yielded, hs2trace], hdead hy_closed hy_sock⟩
  have hunf : onOut (.header data) s =
      (do feedYield true (.rejected reason); pure false : M Bool) s2 := by
    unfold onOut
    simp only [bind, M.bind, getS, herr, modS, hs2]
  rcases hres with hok | ⟨x, herr2⟩
  · refine ⟨s', hout, Or.inl ?_⟩
    rw [hunf, bind_ok hok]; rfl
  · -- the reaction raised: `except GeneratorExit: self.on_disconnect()` (a no-op now), re-raised in run()
    have hs'sock : s'.sockOpen = false := hout.sock
    refine ⟨{ s' with closing := false, closed := true }, ⟨rfl, hs'sock, hout.ready, hout.trace⟩, Or.inr ⟨x, ?_⟩⟩
    rw [hunf]
    have : feedYield true (.rejected reason) s2 = .err (.outer x) { s' with closing := false, closed := true } := by
      rw [herr2]
      simp only [if_true]
      rw [bind_ok (onDisconnect_dead s' hs'sock)]
      rfl
    rw [bind_err this]

/-- `WebSocket.feed(data)` when `data` completes a header block that `on_response` refuses -/
theorem wsFeed_rejected (s : Sys) (data : Bytes) (i : Nat) (reason : Str)
    (hc : s.p.cont = .header) (hclosed : s.closed = false) (hready : s.ready = false)
    (hsome : findSep Gen.headerSep (s.p.buf ++ data) = some i) (hlen : i + 4 ≤ Gen.headerMax)
    (herr : onResponse s.cfg.v.strictAccept s.cfg.challenge (parseResponse ((s.p.buf ++ data).take (i + 4))) = .error reason) :
    ∃ s', RejectedOutcome s s' reason ∧ (wsFeed data s = .ok () s' ∨ ∃ x, wsFeed data s = .err x s') := by
  have hfb := feedBody_terminated_ok s data i hc hsome hlen
  obtain ⟨s', hout, hres⟩ := onOut_rejected (headerDone s) ((s.p.buf ++ data).take (i + 4)) reason hready herr
  refine ⟨s', ⟨hout.closed, hout.sock, hout.ready, hout.trace⟩, ?_⟩
  rw [wsFeed_eq]
  simp only [hclosed, Bool.false_eq_true, if_false]
  rcases hres with h | ⟨x, h⟩
  · left
    have hb : feedBody data s = .ok () s' := by rw [hfb, bind_ok h]; rfl
    rw [hb]; rfl
  · right
    have hb : feedBody data s = .err (.outer x) s' := by rw [hfb, bind_err h]
    exact ⟨x, by rw [hb]; rfl⟩

/-- `WebSocket.feed(data)` when the header block exceeds the limit: one critical ProtocolError is
    yielded (the application may react), then the connection is forced down -/
theorem wsFeed_header_too_long (s s0 : Sys) (data : Bytes) (hclosed : s.closed = false) (hready : s0.ready = false)
    (herr : feedBody data s = .err (.parse "expected separator") s0) :
    ∃ s' x, ActRel (yielded (.protocolError "expected separator" true) s0) s' ∧ wsFeed data s = .err x s' := by
  obtain ⟨s', hrel, hres⟩ := feedYield_quiet false (.protocolError "expected separator" true) s0 rfl hready
  rw [wsFeed_eq]
  simp only [hclosed, Bool.false_eq_true, if_false, herr, wsWrap]
  rcases hres with h | ⟨x, h⟩
  · refine ⟨s', .forceDisconnect "forced", hrel, ?_⟩
    have : feedHandler (.parse "expected separator") s0 = .err (.forceDisconnect "forced") s' := by
      show (feedYield false (.protocolError "expected separator" true) >>= fun _ => throwE (.forceDisconnect "forced")) s0 = _
      rw [bind_ok h]; rfl
    rw [this]; rfl
  · refine ⟨s', x, hrel, ?_⟩
    have : feedHandler (.parse "expected separator") s0 = .err (.outer x) s' := by
      show (feedYield false (.protocolError "expected separator" true) >>= fun _ => throwE (.forceDisconnect "forced")) s0 = _
      rw [bind_err (by rw [h]; rfl)]
    rw [this]; rfl

/-- once the websocket is closed (as it is after Rejected) further data is ignored -/
theorem wsFeed_closed (s : Sys) (data : Bytes) (h : s.closed = true) : wsFeed data s = .ok () s := by
  unfold wsFeed
  simp [h]

theorem closeSocket_spec (s : Sys) : ∃ s', closeSocket s = .ok () s' ∧ s'.sockOpen = false ∧ ActRel s s' := by
  unfold closeSocket
  split
  · rename_i ho
    exact ⟨_, rfl, rfl, ⟨rfl, rfl, rfl, rfl, fun _ => rfl, [.sockClose], rfl, by simp [Obs.isEv], by simp [ho]⟩⟩
  · rename_i ho
    exact ⟨s, rfl, by simpa using ho, ActRel.refl s⟩

theorem selClose_spec (s : Sys) : ∃ s', selClose s = .ok () s' ∧ s'.sockOpen = s.sockOpen ∧ s'.selOpen = false ∧
    ∃ t, s'.trace = t ++ s.trace ∧ ∀ o ∈ t, o.isEv = false := by
  unfold selClose
  split
  · exact ⟨_, rfl, rfl, rfl, [.selClose], rfl, by simp [Obs.isEv]⟩
  · rename_i h
    exact ⟨s, rfl, rfl, by simpa using h, [], rfl, by simp⟩

/-- `run()`: a forced disconnect leaving the receive loop closes the socket and the selector and
    yields a non-graceful Disconnected — whatever the application does with that event -/
theorem runLoop_force_closes (s s1 : Sys) (k : String) (hloop : loop s.env s = .err (.forceDisconnect k) s1) :
    ∃ s', (runLoop s).state = s' ∧ s'.sockOpen = false ∧ s'.selOpen = false ∧
    ∃ t t', s'.trace = t ++ .ev (.disconnected k false) :: (t' ++ s1.trace) ∧
      (∀ o ∈ t, o.isEv = false) ∧ (∀ o ∈ t', o.isEv = false) := by
  obtain ⟨s1c, hcs, hcs_sock, hcs_rel⟩ := closeSocket_spec s1
  obtain ⟨t', ht', hn', _⟩ := hcs_rel.trace
  have hy := yieldEv_rel (.disconnected k false) s1c
  have hcap : tryC (do loop s.env; pure none : M (Option Exn)) (fun x => pure (some x)) s =
      .ok (some (.forceDisconnect k)) s1 := by
    rw [tryC_err (bind_err hloop)]; rfl
  have hbody : runBody s.env s = yieldEv (.disconnected k false) s1c := by
    unfold runBody
    rw [bind_ok hcap]
    show (closeSocket >>= fun _ => yieldEv (.disconnected k false)) s1 = _
    rw [bind_ok hcs]
  have hrun : runLoop s = tryC (do runBody s.env; selClose) runFinally s := rfl
  rw [hrun]
  cases hyv : yieldEv (.disconnected k false) s1c with
  | ok u s2 =>
    rw [hyv] at hy hbody
    simp only [Res.state_ok] at hy
    obtain ⟨t, ht, hn, _⟩ := hy.trace
    obtain ⟨s3, hsel, h1, h2, t2, h3, h4⟩ := selClose_spec s2
    rw [tryC_ok (by rw [bind_ok hbody]; exact hsel)]
    refine ⟨s3, rfl, by rw [h1]; exact hy.sock hcs_sock, h2, t2 ++ t, t', ?_, ?_, hn'⟩
    · rw [h3, ht, yielded, ht']; simp
    · intro o ho; simp only [List.mem_append] at ho
      rcases ho with ho | ho
      · exact h4 o ho
      · exact hn o ho
  | err x s2 =>
    rw [hyv] at hy hbody
    simp only [Res.state_err] at hy
    obtain ⟨t, ht, hn, _⟩ := hy.trace
    have hs2sock : s2.sockOpen = false := hy.sock hcs_sock
    -- `finally:` (and the repaired cleanup) run; the exception goes on
    have hcs2 : closeSocket s2 = .ok () s2 := by unfold closeSocket; simp [hs2sock]
    obtain ⟨s3, hsel, h1, h2, t2, h3, h4⟩ := selClose_spec s2
    rw [tryC_err (bind_err hbody)]
    have hfin : runFinally x s2 = .err x s3 := by
      unfold runFinally
      simp only [bind, M.bind, getS]
      by_cases hcl : s2.cfg.v.cleanup = true
      · simp only [hcl, if_true, hcs2, hsel, throwE]
      · simp only [hcl, Bool.false_eq_true, if_false, pure, M.pure, hsel, throwE]
    rw [hfin]
    refine ⟨s3, rfl, by rw [h1]; exact hs2sock, h2, t2 ++ t, t', ?_, ?_, hn'⟩
    · rw [h3, ht, yielded, ht']; simp
    · intro o ho; simp only [List.mem_append] at ho
      rcases ho with ho | ho
      · exact h4 o ho
      · exact hn o ho

end Lomond.Core
