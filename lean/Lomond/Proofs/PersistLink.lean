/-
  Helper lemmas for the composition of `persist()` with the core model (Model/PersistLink.lean).
-/
import Lomond.Model.PersistLink
import Lomond.Proofs.Persist
import Lomond.Proofs.RunAll
set_option linter.unusedSimpArgs false
set_option linter.unusedVariables false
namespace Lomond.PersistLink
open Lomond Lomond.Core Lomond.Core.Monitor Lomond.Persist

theorem eventsOfTrace_eq (tr : List Obs) : eventsOfTrace tr = events tr := by
  unfold eventsOfTrace events
  congr 1

theorem attemptEvents_eq (c : Persist.Cfg Nat) (a : Attempt) :
    attemptEvents c a = events (runAll (attemptCfg c a) a.react a.env).trace := eventsOfTrace_eq _

theorem ended_iff (c : Persist.Cfg Nat) (a : Attempt) :
    ended c a = true ↔ ∃ s, run (initSys (attemptCfg c a) a.react a.env) = .ok () s := by
  unfold ended
  show (match run (initSys (attemptCfg c a) a.react a.env) with | .ok _ _ => true | .err _ _ => false) = true ↔ _
  cases h : run (initSys (attemptCfg c a) a.react a.env) with
  | ok u s => exact ⟨fun _ => ⟨s, rfl⟩, fun _ => rfl⟩
  | err x s => exact ⟨fun h' => (by cases h'), fun ⟨s', h'⟩ => (by cases h')⟩

/-! ### rounds of attempts -/

theorem live_map (c : Persist.Cfg Nat) (as : List Attempt) :
    live (as.map (roundOf c)) = (liveA as).map (roundOf c) := by
  induction as with
  | nil => rfl
  | cons a r ih =>
    simp only [List.map_cons, live, liveA]
    show (if a.exit = true then _ else _) = _
    split
    · rfl
    · rw [ih]; rfl

theorem hasReady_roundOf (c : Persist.Cfg Nat) (a : Attempt) :
    hasReady isReadyEv (roundOf c a) = !noReady c a := by
  unfold hasReady noReady roundOf
  simp

theorem streak_map (c : Persist.Cfg Nat) (as : List Attempt) :
    streak isReadyEv (as.map (roundOf c)) = failStreak c as := by
  unfold streak failStreak
  rw [← List.map_reverse]
  generalize as.reverse = l
  induction l with
  | nil => rfl
  | cons a r ih =>
    simp only [List.map_cons, List.takeWhile_cons, hasReady_roundOf, Bool.not_not]
    cases noReady c a
    · rfl
    · simp only [List.length_cons, ↓reduceIte]; rw [ih]

theorem liveA_prefix (as : List Attempt) : ∃ post, as = liveA as ++ post := by
  induction as with
  | nil => exact ⟨[], rfl⟩
  | cons a r ih =>
    unfold liveA
    split
    · exact ⟨r, rfl⟩
    · obtain ⟨post, hp⟩ := ih
      exact ⟨post, by rw [List.cons_append, ← hp]⟩

/-! ### `persistCore` when every attempt ends / when one does not -/

theorem takeWhile_all {α : Type} (p : α → Bool) (l : List α) (h : ∀ x ∈ l, p x = true) : l.takeWhile p = l := by
  induction l with
  | nil => rfl
  | cons x r ih =>
    rw [List.takeWhile_cons, h x List.mem_cons_self]
    simp only [↓reduceIte]
    rw [ih (fun y hy => h y (List.mem_cons_of_mem _ hy))]

theorem dropWhile_all {α : Type} (p : α → Bool) (l : List α) (h : ∀ x ∈ l, p x = true) : l.dropWhile p = [] := by
  induction l with
  | nil => rfl
  | cons x r ih =>
    rw [List.dropWhile_cons, h x List.mem_cons_self]
    simp only [↓reduceIte]
    exact ih (fun y hy => h y (List.mem_cons_of_mem _ hy))

theorem mem_takeWhile_true {α : Type} (p : α → Bool) : ∀ (l : List α) {x : α}, x ∈ l.takeWhile p → p x = true
  | [], x, h => by cases h
  | y :: r, x, h => by
    rw [List.takeWhile_cons] at h
    cases hy : p y with
    | false => rw [hy] at h; cases h
    | true =>
      rw [hy] at h
      rcases List.mem_cons.mp h with rfl | h'
      · exact hy
      · exact mem_takeWhile_true p r h'

theorem dropWhile_head_false {α : Type} (p : α → Bool) : ∀ (l : List α) {a : α} {rest : List α},
    l.dropWhile p = a :: rest → p a = false
  | [], a, rest, h => by cases h
  | y :: r, a, rest, h => by
    rw [List.dropWhile_cons] at h
    cases hy : p y with
    | false => rw [hy] at h; simp only [Bool.false_eq_true, ↓reduceIte, List.cons.injEq] at h; rw [← h.1]; exact hy
    | true => rw [hy] at h; exact dropWhile_head_false p r h

/-- the status of `Persist.persist` as a status of the composed system -/
def liftStatus : Persist.Status → Status
  | .exited => .exited
  | .running => .running

/-- when every attempt ends, the composed system is `Persist.persist` over the attempts' rounds -/
theorem persistCore_all_ended (c : Persist.Cfg Nat) (as : List Attempt) (h : ∀ a ∈ as, ended c a = true) :
    persistCore c as = ((persist isReadyEv c (as.map (roundOf c))).1,
      liftStatus (persist isReadyEv c (as.map (roundOf c))).2) := by
  unfold persistCore
  simp only []
  rw [takeWhile_all _ _ h, dropWhile_all _ _ h]
  cases (persist isReadyEv c (as.map (roundOf c))).2 <;> rfl

/-- the general case: the attempts up to the first that does not end are rounds of `Persist.persist`;
    if persist gets to that attempt, its `connect` and its events follow, and nothing else -/
theorem persistCore_split (c : Persist.Cfg Nat) (as : List Attempt) :
    (∀ a ∈ as, ended c a = true) ∨
    ∃ good a rest, as = good ++ a :: rest ∧ (∀ b ∈ good, ended c b = true) ∧ ended c a = false ∧
      (((persist isReadyEv c (good.map (roundOf c))).2 = .exited ∧
        persistCore c as = ((persist isReadyEv c (good.map (roundOf c))).1, .exited)) ∨
       ((persist isReadyEv c (good.map (roundOf c))).2 = .running ∧
        persistCore c as = ((persist isReadyEv c (good.map (roundOf c))).1 ++
          Persist.Obs.connect c.poll c.pingRate c.pingTimeout ::
            (attemptEvents c a).map (fun e => Persist.Obs.yield (Persist.Out.ev e)), .inAttempt))) := by
  cases hd : as.dropWhile (ended c) with
  | nil =>
    left
    intro a ha
    have := List.takeWhile_append_dropWhile (p := ended c) (l := as)
    rw [hd, List.append_nil] at this
    rw [← this] at ha
    exact mem_takeWhile_true _ _ ha
  | cons a rest =>
    right
    have hsplit := List.takeWhile_append_dropWhile (p := ended c) (l := as)
    rw [hd] at hsplit
    have hgood : ∀ b ∈ as.takeWhile (ended c), ended c b = true := fun b hb => mem_takeWhile_true _ _ hb
    have hbad : ended c a = false := dropWhile_head_false _ _ hd
    refine ⟨as.takeWhile (ended c), a, rest, hsplit.symm, hgood, hbad, ?_⟩
    unfold persistCore
    simp only [hd]
    cases h : (persist isReadyEv c ((as.takeWhile (ended c)).map (roundOf c))).2
    · exact Or.inl ⟨rfl, rfl⟩
    · exact Or.inr ⟨rfl, rfl⟩

/-! ### `Ready` at most once per connection -/

theorem no_ready_late : ∀ (l : List Event) (ph q : Phase), 3 ≤ ph.rank → Mon.run ph l = some q →
    ∀ e ∈ l, isReadyEv e = false
  | [], _, _, _, _, e, he => by cases he
  | x :: r, ph, q, h3, h, e, he => by
    simp only [Mon.run] at h
    cases hs : Mon.step ph x with
    | none => rw [hs] at h; cases h
    | some p =>
      rw [hs] at h
      simp only [Option.bind_some] at h
      have hm := Mon.step_mono hs
      rcases List.mem_cons.mp he with rfl | hr
      · cases ph <;> cases e <;> simp [Mon.step, Phase.rank, isReadyEv] at hs h3 ⊢
      · exact no_ready_late r p q (Nat.le_trans h3 hm) h e hr

/-- a monitor-accepted event sequence contains at most one `Ready` -/
theorem ready_at_most_once : ∀ (l : List Event) (ph q : Phase), Mon.run ph l = some q →
    (l.filter isReadyEv).length ≤ 1
  | [], _, _, _ => by simp
  | x :: r, ph, q, h => by
    simp only [Mon.run] at h
    cases hs : Mon.step ph x with
    | none => rw [hs] at h; cases h
    | some p =>
      rw [hs] at h
      simp only [Option.bind_some] at h
      rw [List.filter_cons]
      cases hx : isReadyEv x with
      | false => simpa using ready_at_most_once r p q h
      | true =>
        have hp : 3 ≤ p.rank := by
          cases ph <;> cases x <;> simp [Mon.step, isReadyEv] at hs hx <;> subst hs <;> decide
        have := no_ready_late r p q hp h
        have hnil : r.filter isReadyEv = [] := List.filter_eq_nil_iff.mpr (fun e he => by rw [this e he]; exact Bool.false_ne_true)
        simp [hnil]

end Lomond.PersistLink
