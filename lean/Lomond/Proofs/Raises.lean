/-
  `Raises`: which exceptions a computation of the core model can end with.

  `Raises P m` says: whenever `m` ends exceptionally, with exception `x` in final state `s'`,
  `P x s'` holds.  Proved for every function of the core model, by composition, up to `run`:

  * inside `WebSocket.feed` an exception is either "flat" (`Ok0`: an `Exception`-class error or a
    `GeneratorExit` caused by an application that really abandons the iterator) or such an exception
    wrapped once in `.outer` (`Ok1`: raised in `run()`'s frame at a `yield` of `feed`);
  * `wsFeed` unwraps, so the session loop only sees flat exceptions, plus `.scriptEnd`;
  * `onLoopEnd` converts every `Exception`-class error to a `Disconnected` event, so `run` can only
    end with `GeneratorExit` (and only if the application abandons) or `.scriptEnd`.
-/
import Lomond.Proofs.Step
import Lomond.Proofs.Release
import Lomond.Proofs.RunL
set_option linter.unusedSimpArgs false
set_option linter.unusedVariables false
namespace Lomond.Core.Monitor
open Lomond Lomond.Core

/-- every exceptional end of `m` satisfies `P` (exception, final state) -/
def Raises (P : Exn → Sys → Prop) (m : M α) : Prop := ∀ s x s', m s = .err x s' → P x s'

/-- `m` never ends exceptionally -/
def NoRaise (m : M α) : Prop := ∀ s x s', m s ≠ .err x s'

variable {P Q : Exn → Sys → Prop}

theorem NoRaise.raises {m : M α} (h : NoRaise m) : Raises P m :=
  fun s x s' e => absurd e (h s x s')

theorem Raises.mono {m : M α} (h : Raises Q m) (hpq : ∀ x s, Q x s → P x s) : Raises P m :=
  fun s x s' e => hpq _ _ (h s x s' e)

theorem raises_pure (a : α) : Raises P (pure a : M α) := by
  intro s x s' e; cases e

theorem noRaise_pure (a : α) : NoRaise (pure a : M α) := by
  intro s x s' e; cases e

theorem raises_bind {m : M α} {f : α → M β} (hm : Raises P m) (hf : ∀ a, Raises P (f a)) :
    Raises P (m >>= f) := by
  intro s x s' e
  cases hms : m s with
  | ok a s1 => rw [bind_ok hms] at e; exact hf a s1 x s' e
  | err y s1 => rw [bind_err hms] at e; cases e; exact hm s _ _ hms

theorem noRaise_bind {m : M α} {f : α → M β} (hm : NoRaise m) (hf : ∀ a, NoRaise (f a)) :
    NoRaise (m >>= f) := by
  intro s x s' e
  cases hms : m s with
  | ok a s1 => rw [bind_ok hms] at e; exact hf a s1 x s' e
  | err y s1 => exact hm s _ _ hms

theorem raises_getS : Raises P getS := by intro s x s' e; cases e
theorem noRaise_getS : NoRaise getS := by intro s x s' e; cases e
theorem raises_modS (f : Sys → Sys) : Raises P (modS f) := by intro s x s' e; cases e
theorem noRaise_modS (f : Sys → Sys) : NoRaise (modS f) := by intro s x s' e; cases e

theorem raises_throwE {x : Exn} (h : ∀ s, P x s) : Raises P (throwE x : M α) := by
  intro s y s' e; cases e; exact h _

theorem raises_liftE {r : Except Exn α} (h : ∀ x s, r = .error x → P x s) : Raises P (liftE r) := by
  intro s y s' e
  unfold liftE at e
  cases r with
  | ok a => cases e
  | error x => cases e; exact h _ _ rfl

theorem raises_getS_bind {f : Sys → M α} (h : ∀ s, Raises P (f s)) : Raises P (getS >>= f) :=
  raises_bind raises_getS h

theorem noRaise_getS_bind {f : Sys → M α} (h : ∀ s, NoRaise (f s)) : NoRaise (getS >>= f) :=
  noRaise_bind noRaise_getS h

/-- `try m except x: h x` — the handler is analysed in the state the exception left behind -/
theorem raises_tryC {m : M α} {h : Exn → M α} (hm : Raises Q m)
    (hh : ∀ x s1 y s', Q x s1 → h x s1 = .err y s' → P y s') : Raises P (tryC m h) := by
  intro s y s' e
  cases hms : m s with
  | ok a s1 => rw [tryC_ok hms] at e; cases e
  | err x s1 => rw [tryC_err hms] at e; exact hh x s1 y s' (hm s x s1 hms) e

/-! ### the exception classes -/

/-- the application abandons the iterator at some history -/
def Abandons (r : React) : Prop := ∃ h w, Act.abandon w ∈ r h

/-- flat exceptions: everything `run()`'s `except` clauses turn into a `Disconnected` event, and
    `GeneratorExit` — the latter only for an application that abandons -/
def Ok0 (x : Exn) (s : Sys) : Prop :=
  match x with
  | .outer _ => False
  | .scriptEnd => False
  | .genExit => Abandons s.react
  | _ => True

/-- flat, or flat wrapped once in `.outer` -/
def Ok1 (x : Exn) (s : Sys) : Prop :=
  match x with
  | .outer y => Ok0 y s
  | y => Ok0 y s

theorem Ok0.ok1 {x : Exn} {s : Sys} (h : Ok0 x s) : Ok1 x s := by
  cases x <;> first | exact h | exact h.elim

theorem Ok0.react {x : Exn} {s s' : Sys} (h : Ok0 x s) (e : s'.react = s.react) : Ok0 x s' := by
  cases x <;> first | exact h | (show Abandons s'.react; rw [e]; exact h)

theorem Ok1.react {x : Exn} {s s' : Sys} (h : Ok1 x s) (e : s'.react = s.react) : Ok1 x s' := by
  cases x <;> simp only [Ok1] at h ⊢ <;> exact Ok0.react h e

/-! ### leaves that never raise -/

theorem noRaise_closeSocket : NoRaise closeSocket := by
  intro s x s' e; unfold closeSocket at e; split at e <;> cases e

theorem noRaise_selClose : NoRaise selClose := by
  intro s x s' e; unfold selClose at e; split at e <;> cases e

theorem noRaise_write (d : Bytes) (z : Option (Nat × Bytes)) : NoRaise (write d z) := by
  intro s x s' e; unfold write at e; simp only [] at e
  repeat' split at e
  all_goals cases e

theorem noRaise_sendFrame (op : Nat) (pl : Bytes) (c : Option Bytes) : NoRaise (sendFrame op pl c) := by
  intro s x s' e; unfold sendFrame at e; simp only [] at e
  repeat' split at e
  all_goals first
    | exact noRaise_write _ _ _ _ _ e
    | cases e

theorem noRaise_wsClose (c : Option Nat) (r : Arg) : NoRaise (wsClose c r) := by
  intro s x s' e; unfold wsClose at e
  repeat' (first | split at e | (simp only [] at e; split at e))
  all_goals first
    | (rename_i h; exact noRaise_sendFrame _ _ _ _ _ _ h)
    | cases e

theorem noRaise_sendData (op : Nat) (pl : Bytes) (c : Bool) : NoRaise (sendData op pl c) := by
  intro s x s' e; unfold sendData at e; split at e <;> exact noRaise_sendFrame _ _ _ _ _ _ e

theorem noRaise_log (o : Obs) : NoRaise (log o) := noRaise_modS _

theorem noRaise_logRes {m : M ActRes} (h : NoRaise m) : NoRaise (logRes m) :=
  noRaise_bind h (fun _ => noRaise_log _)

theorem noRaise_onDisconnect : NoRaise onDisconnect :=
  noRaise_bind noRaise_closeSocket (fun _ => noRaise_modS _)

theorem noRaise_notClosed : NoRaise notClosed := by
  intro s x s' e; cases e

theorem noRaise_checkAutoPing : NoRaise checkAutoPing := by
  unfold checkAutoPing
  refine noRaise_getS_bind (fun s => ?_)
  simp only []
  split
  · exact noRaise_bind (noRaise_modS _) (fun _ => noRaise_bind (noRaise_sendFrame _ _ _) (fun _ => noRaise_pure _))
  · exact noRaise_pure _

/-! ### the application's reaction: only a real abandonment raises -/

theorem raises_doAct (a : Act) {s x s'} (h : doAct a s = .err x s') : x = .genExit ∧ ∃ w, a = .abandon w := by
  unfold doAct at h
  split at h
  all_goals first
    | (cases h; exact ⟨rfl, _, rfl⟩)
    | (exfalso; revert h; apply noRaise_logRes; first
        | exact noRaise_pure _
        | exact noRaise_sendData _ _ _
        | exact noRaise_sendFrame _ _ _
        | exact noRaise_wsClose _ _
        | (split <;> first | exact noRaise_pure _ | exact noRaise_sendData _ _ _ | exact noRaise_sendFrame _ _ _)
        | exact noRaise_bind noRaise_closeSocket (fun _ => noRaise_pure _))

theorem raises_doActs (as : List Act) {s x s'} (h : doActs as s = .err x s') :
    x = .genExit ∧ ∃ w, Act.abandon w ∈ as := by
  induction as generalizing s with
  | nil => cases h
  | cons a r ih =>
    unfold doActs at h
    cases ha : doAct a s with
    | ok u s1 =>
      rw [bind_ok ha] at h
      obtain ⟨e, w, hw⟩ := ih h
      exact ⟨e, w, List.mem_cons_of_mem _ hw⟩
    | err y s1 =>
      rw [bind_err ha] at h; cases h
      obtain ⟨e, w, hw⟩ := raises_doAct a ha
      exact ⟨e, w, by rw [hw]; exact List.mem_cons_self⟩

theorem raises_yieldEv (e : Event) : Raises Ok0 (yieldEv e) := by
  intro s x s' h
  unfold yieldEv at h
  rw [bind_ok (show modS _ s = .ok () _ from rfl), bind_ok (show getS _ = .ok _ _ from rfl)] at h
  obtain ⟨ex, w, hw⟩ := raises_doActs _ h
  have st := (step_doActs _).err h
  subst ex
  show Abandons s'.react
  rw [st.react]
  exact ⟨_, w, hw⟩

/-! ### timers -/

theorem ok0_force (k : String) (s : Sys) : Ok0 (.forceDisconnect k) s := trivial
theorem ok0_other (k : String) (s : Sys) : Ok0 (.other k) s := trivial
theorem ok0_socketFail (k : String) (s : Sys) : Ok0 (.socketFail k) s := trivial
theorem ok0_protocol (k : String) (s : Sys) : Ok0 (.protocol k) s := trivial
theorem ok0_critical (k : String) (s : Sys) : Ok0 (.critical k) s := trivial
theorem ok0_parse (k : String) (s : Sys) : Ok0 (.parse k) s := trivial

theorem raises_checkPoll : Raises Ok0 checkPoll := by
  unfold checkPoll
  refine raises_getS_bind (fun s => ?_)
  simp only []
  splits
  all_goals first | exact raises_pure _ | exact raises_bind (raises_modS _) (fun _ => raises_yieldEv _)

theorem raises_checkPingTimeout : Raises Ok0 checkPingTimeout := by
  unfold checkPingTimeout
  refine raises_getS_bind (fun s => ?_)
  simp only []
  split
  · exact raises_bind (raises_yieldEv _) (fun _ => raises_throwE (ok0_force _))
  · exact raises_pure _

theorem raises_checkCloseTimeout : Raises Ok0 checkCloseTimeout := by
  unfold checkCloseTimeout
  refine raises_getS_bind (fun s => ?_)
  simp only []
  splits
  all_goals first | exact raises_pure _ | exact raises_throwE (ok0_force _)

theorem raises_regular : Raises Ok0 regular := by
  unfold regular
  refine raises_getS_bind (fun s => ?_)
  split
  · exact raises_bind raises_checkPoll (fun _ => raises_bind noRaise_checkAutoPing.raises
      (fun _ => raises_bind raises_checkPingTimeout (fun _ => raises_checkCloseTimeout)))
  · exact raises_pure _

theorem raises_onEvent (e : Event) : Raises Ok0 (onEvent e) := by
  intro s x s' h
  unfold onEvent at h
  repeat' split at h
  all_goals first
    | (rename_i h2; exact absurd h2 (noRaise_sendFrame _ _ _ _ _ _))
    | (cases h; exact ok0_other _ _)
    | cases h

/-- an exception at a `yield` of `feed` (raised in `run()`'s frame) reaches `feed` wrapped in `.outer` -/
theorem raises_feedYield (b : Bool) (e : Event) : Raises Ok1 (feedYield b e) := by
  unfold feedYield
  refine raises_tryC (Q := Ok0)
    (raises_bind (raises_onEvent e) (fun _ => raises_bind (raises_yieldEv e) (fun _ => raises_regular))) ?_
  intro x s1 y s' hx h
  cases b with
  | true =>
    simp only [if_true] at h
    cases hd : onDisconnect s1 with
    | err z s2 => exact absurd hd (noRaise_onDisconnect _ _ _)
    | ok u s2 =>
      rw [bind_ok hd] at h; cases h
      exact Ok0.react hx (step_onDisconnect.ok hd).react
  | false =>
    simp only [Bool.false_eq_true, if_false] at h
    rw [bind_ok (show (pure () : M Unit) s1 = .ok () s1 from rfl)] at h
    cases h; exact hx

/-! ### messages -/

theorem raises_inflateMessage (j : Bytes) : Raises Ok0 (inflateMessage j) := by
  intro s x s' h
  unfold inflateMessage at h
  simp only [] at h
  repeat' split at h
  all_goals first | (cases h; exact ok0_critical _ _) | cases h

theorem raises_closeFromPayload (pl : Bytes) (x : Exn) (s : Sys) (m : Msg → Prop)
    (h : closeFromPayload pl = .error x) : Ok0 x s := by
  unfold closeFromPayload at h
  repeat' (first | split at h | (simp only [] at h; split at h))
  all_goals first | (cases h; trivial) | cases h

theorem raises_msgOfPayload (op : Nat) (pl : Bytes) (x : Exn) (s : Sys)
    (h : msgOfPayload op pl = .error x) : Ok0 x s := by
  unfold msgOfPayload at h
  repeat' split at h
  all_goals first
    | exact raises_closeFromPayload _ _ _ (fun _ => True) h
    | (cases h; trivial)
    | cases h

theorem raises_buildMessage (fs : List Frame) : Raises Ok0 (buildMessage fs) := by
  unfold buildMessage
  split
  · exact raises_throwE (ok0_other _)
  · simp only []
    refine raises_getS_bind (fun s => ?_)
    refine raises_bind ?_ (fun _ => raises_liftE (fun x s h => raises_msgOfPayload _ _ _ _ h))
    split
    · exact raises_inflateMessage _
    · exact raises_pure _

theorem raises_checkCloseCode (c : Option Nat) : Raises Ok0 (checkCloseCode c) := by
  unfold checkCloseCode
  splits <;> first | exact raises_pure _ | exact raises_throwE (ok0_protocol _)

theorem raises_raiseIfArgError (r : ActRes) : Raises Ok0 (raiseIfArgError r) := by
  unfold raiseIfArgError
  split <;> first | exact raises_pure _ | exact raises_throwE (ok0_other _)

theorem Raises.ok1 {m : M α} (h : Raises Ok0 m) : Raises Ok1 m := h.mono (fun _ _ => Ok0.ok1)

theorem raises_onClose (c : Option Nat) (r : List Nat) : Raises Ok1 (onClose c r) := by
  unfold onClose
  refine raises_bind (raises_checkCloseCode c).ok1 (fun _ => raises_getS_bind (fun s => ?_))
  split
  · exact raises_pure _
  · split
    · exact raises_bind (raises_feedYield _ _) (fun _ => raises_modS _)
    · exact raises_bind (raises_feedYield _ _) (fun _ => raises_bind (noRaise_wsClose _ _).raises
        (fun r => raises_bind (raises_raiseIfArgError r).ok1 (fun _ => raises_modS _)))

theorem raises_onMessage (m : Msg) : Raises Ok1 (onMessage m) := by
  unfold onMessage
  split <;> first | exact raises_onClose _ _ | exact raises_feedYield _ _ | exact raises_pure _

theorem raises_onDataFrame (f : Frame) : Raises Ok1 (onDataFrame f) := by
  unfold onDataFrame
  refine raises_getS_bind (fun s => ?_)
  split
  · exact raises_throwE (fun s => (ok0_protocol _ s).ok1)
  · split
    · exact raises_throwE (fun s => (ok0_protocol _ s).ok1)
    · refine raises_bind (raises_modS _) (fun _ => ?_)
      split
      · exact raises_getS_bind (fun s => raises_bind (raises_buildMessage _).ok1 (fun m =>
          raises_bind (raises_onMessage m) (fun _ => raises_modS _)))
      · exact raises_pure _

theorem raises_onFrame (f : Frame) : Raises Ok1 (onFrame f) := by
  unfold onFrame
  split
  · exact raises_bind (raises_buildMessage _).ok1 (fun m => raises_onMessage m)
  · exact raises_onDataFrame _

theorem raises_onOut (o : Out) : Raises Ok1 (onOut o) := by
  unfold onOut
  split
  · refine raises_getS_bind (fun s => ?_)
    split
    · exact raises_bind (raises_modS _) (fun _ => raises_bind noRaise_onDisconnect.raises (fun _ =>
        raises_bind (raises_feedYield _ _) (fun _ => raises_pure _)))
    · exact raises_bind (raises_modS _) (fun _ => raises_bind (raises_feedYield _ _) (fun _ =>
        raises_bind (raises_modS _) (fun _ => noRaise_notClosed.raises)))
  · exact raises_bind (raises_onFrame _) (fun _ => noRaise_notClosed.raises)

/-! ### the parser raises only parse / protocol errors -/

theorem frameDone_raises {v p f x} (s : Sys) (h : frameDone v p f = .error x) : Ok0 x s := by
  unfold frameDone at h
  split at h
  · cases h; trivial
  · cases h

theorem validateFrame_raises {v c f len x} (s : Sys) (h : validateFrame v c f len = .error x) : Ok0 x s := by
  unfold validateFrame at h
  repeat' split at h
  all_goals first | (cases h; trivial) | cases h

theorem gotMask_raises {v p b0 len key x} (s : Sys) (h : gotMask v p b0 len key = .error x) : Ok0 x s := by
  unfold gotMask at h
  simp only [] at h
  split at h
  · rename_i y hv; cases h; exact validateFrame_raises s hv
  · split at h
    · cases h
    · exact frameDone_raises s h

theorem gotLength_raises {v p b0 m len x} (s : Sys) (h : gotLength v p b0 m len = .error x) : Ok0 x s := by
  unfold gotLength at h
  split at h
  · cases h; trivial
  · split at h
    · cases h
    · exact gotMask_raises s h

theorem resume_raises {v p bytes x} (s : Sys) (h : resume v p bytes = .error x) : Ok0 x s := by
  unfold resume at h
  simp only [] at h
  split at h
  · cases h
  · split at h
    · cases h
    · split at h
      · cases h
      · exact gotLength_raises s h
  · exact gotLength_raises s h
  · exact gotLength_raises s h
  · exact gotMask_raises s h
  · exact frameDone_raises s h

theorem biteBytes_raises {v p chunk x} (s : Sys) (h : biteBytes v p chunk = .error x) : Ok0 x s := by
  rw [biteBytes_eq] at h
  split at h
  · cases h; trivial
  · split at h
    · cases h
    · exact resume_raises s h

theorem raises_feedLoop (data : Bytes) : Raises Ok1 (feedLoop data) := by
  induction h : data.length using Nat.strongRecOn generalizing data with
  | _ n ih =>
    intro s x s' e
    rw [feedLoop] at e
    by_cases hd : data = []
    · simp only [hd, dite_true] at e; cases e
    · simp only [hd, dite_false] at e
      have hlt : (data.drop (s.p.remPred + 1)).length < n := by
        have : data.length ≠ 0 := fun hl => hd (List.eq_nil_of_length_eq_zero hl)
        simp only [List.length_drop]; omega
      cases hb : biteBytes s.cfg.v s.p (data.take (s.p.remPred + 1)) with
      | error y =>
        rw [hb] at e; simp only at e; cases e
        exact (biteBytes_raises _ hb).ok1
      | ok r =>
        obtain ⟨p', out⟩ := r
        rw [hb] at e
        cases out with
        | none => simp only at e; exact ih _ hlt _ rfl _ _ _ e
        | some o =>
          simp only at e
          cases hr : onOut o { s with p := p' } with
          | err y s2 => rw [hr] at e; simp only at e; cases e; exact raises_onOut o _ _ _ hr
          | ok go s2 =>
            rw [hr] at e
            cases go with
            | true => simp only at e; exact ih _ hlt _ rfl _ _ _ e
            | false => simp only at e; cases e

theorem raises_afterHeader (rest : Bytes) (out : Option Out) : Raises Ok1 (afterHeader rest out) := by
  unfold afterHeader
  split
  · refine raises_bind (raises_onOut _) (fun go => ?_)
    split
    · exact raises_bind (raises_feedLoop _) (fun _ => raises_pure _)
    · exact raises_pure _
  · exact raises_bind (raises_feedLoop _) (fun _ => raises_pure _)

theorem raises_feedHeader (data : Bytes) : Raises Ok1 (feedHeader data) := by
  intro s x s' e
  unfold feedHeader at e; simp only [] at e
  split at e
  · split at e
    · cases e; exact (ok0_parse _ _).ok1
    · cases e
  · split at e
    · cases e; exact (ok0_parse _ _).ok1
    · split at e
      · rename_i y hr; cases e; exact (resume_raises _ hr).ok1
      · exact raises_afterHeader _ _ _ _ _ e

theorem raises_feedBody (data : Bytes) : Raises Ok1 (feedBody data) := by
  intro s x s' e
  unfold feedBody at e
  split at e
  · exact raises_feedHeader data _ _ _ e
  · split at e
    · cases e
    · rename_i h; cases e; exact raises_feedLoop data _ _ _ h

/-- the `except` clauses of `WebSocket.feed`, entered with an exception of class `Ok1` -/
theorem raises_feedHandler {x s1 y s'} (hx : Ok1 x s1) (h : feedHandler x s1 = .err y s') : Ok1 y s' := by
  unfold feedHandler at h
  split at h
  · exact raises_bind (raises_feedYield _ _) (fun _ => raises_throwE (fun s => (ok0_force _ s).ok1)) _ _ _ h
  · exact raises_bind (raises_feedYield _ _) (fun _ => raises_throwE (fun s => (ok0_force _ s).ok1)) _ _ _ h
  · exact raises_bind (raises_feedYield _ _) (fun _ => raises_bind (noRaise_wsClose _ _).raises (fun r =>
      raises_bind (raises_raiseIfArgError r).ok1 (fun _ => raises_throwE (fun s => (ok0_force _ s).ok1)))) _ _ _ h
  · cases h; exact hx

theorem raises_unwrapOuter {x s1 y s'} (hx : Ok1 x s1) (h : unwrapOuter x s1 = .err y s') : Ok0 y s' := by
  unfold unwrapOuter at h
  split at h
  · cases h; exact hx
  · rename_i hno
    cases h
    cases x <;> first | exact hx | exact absurd rfl (hno _)

/-- **`WebSocket.feed` driven by `run()` ends only with flat exceptions** -/
theorem raises_wsFeed (data : Bytes) : Raises Ok0 (wsFeed data) := by
  intro s x s' e
  unfold wsFeed at e
  split at e
  · cases e
  · exact raises_tryC (Q := Ok1) (raises_tryC (Q := Ok1) (raises_feedBody data)
      (fun x s1 y s' => raises_feedHandler)) (fun x s1 y s' => raises_unwrapOuter) _ _ _ e

/-! ### the session loop -/

theorem raises_onEof : Raises Ok0 onEof := by
  intro s x s' e; unfold onEof at e
  split at e
  · cases e; trivial
  · cases e

theorem raises_recvStep (o : RecvOutcome) : Raises Ok0 (recvStep o) := by
  intro s x s' e; unfold recvStep at e
  split at e
  · exact raises_onEof _ _ _ e
  · split at e
    · cases e; trivial
    · cases e; trivial
    · exact raises_onEof _ _ _ e
    · split at e
      · exact raises_onEof _ _ _ e
      · split at e
        · cases e
        · rename_i h; cases e; exact raises_wsFeed _ _ _ _ h

/-- flat, or the end of the environment script (allowed only when `se`) -/
def OkLoop (se : Prop) (x : Exn) (s : Sys) : Prop := Ok0 x s ∨ (x = .scriptEnd ∧ se)

theorem raises_loop (env : List EnvStep) : Raises (OkLoop True) (loop env) := by
  induction env with
  | nil =>
    intro s x s' e; unfold loop at e
    split at e
    · cases e
    · cases e; exact Or.inr ⟨rfl, trivial⟩
  | cons st rest ih =>
    intro s x s' e; unfold loop at e
    split at e
    · cases e
    · split at e
      · cases e; exact Or.inl trivial
      · unfold regularTop at e
        split at e
        · rename_i hr; cases e; exact Or.inl (raises_regular _ _ _ hr)
        · split at e
          · exact ih _ _ _ e
          · split at e
            · rename_i hr2; cases e; exact Or.inl (raises_recvStep _ _ _ _ hr2)
            · exact ih _ _ _ e
            · cases e

/-! ### `run()`'s handlers: nothing but `GeneratorExit` / end of script leaves -/

/-- what can leave `run()`: `GeneratorExit` from an application that abandons, or (model artefact)
    the end of the environment script -/
def OkTop (se : Prop) (x : Exn) (s : Sys) : Prop :=
  (x = .genExit ∧ Abandons s.react) ∨ (x = .scriptEnd ∧ se)

theorem Ok0.top {se : Prop} {x : Exn} {s : Sys} (h : Ok0 x s) (hx : x = .genExit) : OkTop se x s := by
  subst hx; exact Or.inl ⟨rfl, h⟩

theorem raises_closeYield {se : Prop} (e : Event) : Raises (OkTop se) (do closeSocket; yieldEv e : M Unit) := by
  refine raises_bind noRaise_closeSocket.raises (fun _ => ?_)
  intro s x s' h
  have h0 := raises_yieldEv e s x s' h
  -- `yieldEv` raises only `genExit`
  unfold yieldEv at h
  rw [bind_ok (show modS _ s = .ok () _ from rfl), bind_ok (show getS _ = .ok _ _ from rfl)] at h
  exact h0.top (raises_doActs _ h).1

theorem raises_yieldEv_top {se : Prop} (e : Event) : Raises (OkTop se) (yieldEv e) := by
  intro s x s' h
  have h0 := raises_yieldEv e s x s' h
  unfold yieldEv at h
  rw [bind_ok (show modS _ s = .ok () _ from rfl), bind_ok (show getS _ = .ok _ _ from rfl)] at h
  exact h0.top (raises_doActs _ h).1

/-- the `except`/`else` clauses of `run()`: every `Exception`-class error becomes a `Disconnected`
    event; only `GeneratorExit` and the end of the script are re-raised -/
theorem raises_onLoopEnd {se : Prop} (r : Option Exn) {s x s'}
    (hr : ∀ y, r = some y → OkLoop se y s) (h : onLoopEnd r s = .err x s') : OkTop se x s' := by
  cases r with
  | none => exact raises_closeYield _ _ _ _ h
  | some y =>
    have hy := hr y rfl
    cases y with
    | genExit =>
      cases h
      rcases hy with h0 | ⟨h1, _⟩
      · exact Or.inl ⟨rfl, h0⟩
      · cases h1
    | outer z =>
      rcases hy with h0 | ⟨h1, _⟩
      · exact h0.elim
      · cases h1
    | scriptEnd =>
      cases h
      rcases hy with h0 | ⟨_, hse⟩
      · exact h0.elim
      · exact Or.inr ⟨rfl, hse⟩
    | parse m => exact raises_closeYield _ _ _ _ h
    | protocol m => exact raises_closeYield _ _ _ _ h
    | critical m => exact raises_closeYield _ _ _ _ h
    | forceDisconnect k => exact raises_closeYield _ _ _ _ h
    | socketFail k => exact raises_closeYield _ _ _ _ h
    | other k => exact raises_closeYield _ _ _ _ h

theorem OkLoop.react {se : Prop} {x : Exn} {s s' : Sys} (h : OkLoop se x s) (e : s'.react = s.react) :
    OkLoop se x s' := by
  rcases h with h | h
  · exact Or.inl (h.react e)
  · exact Or.inr h

theorem OkTop.react {se : Prop} {x : Exn} {s s' : Sys} (h : OkTop se x s) (e : s'.react = s.react) :
    OkTop se x s' := by
  rcases h with ⟨h1, h2⟩ | h
  · exact Or.inl ⟨h1, by rw [e]; exact h2⟩
  · exact Or.inr h

theorem raises_runBodyL {se : Prop} (l : M Unit) (hl : Raises (OkLoop se) l) :
    Raises (OkTop se) (runBodyL l) := by
  intro s x s' h
  unfold runBodyL at h
  rcases captured l s with ⟨s1, hloop, hc⟩ | ⟨y, s1, hloop, hc⟩
  · rw [bind_ok hc] at h
    exact raises_onLoopEnd none (fun y hy => by cases hy) h
  · rw [bind_ok hc] at h
    exact raises_onLoopEnd (some y) (fun z hz => by cases hz; exact hl _ _ _ hloop) h

theorem closeSocket_react (s : Sys) : (closeSocket s).state.react = s.react := by
  unfold closeSocket; split <;> rfl

theorem selClose_react (s : Sys) : (selClose s).state.react = s.react := by
  unfold selClose; split <;> rfl

theorem raises_runFinally {se : Prop} {x s1 y s'} (hx : OkTop se x s1) (h : runFinally x s1 = .err y s') :
    OkTop se y s' := by
  unfold runFinally at h
  rw [bind_ok (show getS s1 = .ok s1 s1 from rfl)] at h
  have key : ∀ s2, s2.react = s1.react → (do selClose; throwE x : M Unit) s2 = .err y s' → OkTop se y s' := by
    intro s2 e2 h2
    obtain ⟨s3, h3⟩ := selClose_ok s2
    have r3 := selClose_react s2
    rw [h3] at r3; simp only [Res.state_ok] at r3
    rw [bind_ok h3] at h2; cases h2
    exact hx.react (r3.trans e2)
  split at h
  · obtain ⟨s2, h2⟩ := closeSocket_ok s1
    have r2 := closeSocket_react s1
    rw [h2] at r2; simp only [Res.state_ok] at r2
    rw [bind_ok h2] at h
    exact key s2 r2 h
  · rw [bind_ok (show (pure () : M Unit) s1 = .ok () s1 from rfl)] at h
    exact key s1 rfl h

/-- `run()` from the `try:` on, given what the loop can raise -/
theorem raises_runLoopL {se : Prop} (l : M Unit) (hl : Raises (OkLoop se) l) :
    Raises (OkTop se) (runLoopL l) :=
  raises_tryC (Q := OkTop se)
    (raises_bind (raises_runBodyL l hl) (fun _ => noRaise_selClose.raises))
    (fun x s1 y s' => raises_runFinally)

theorem raises_yieldConnected {se : Prop} (proxy : Bool) : Raises (OkTop se) (yieldConnected proxy) := by
  unfold yieldConnected
  refine raises_getS_bind (fun s => ?_)
  split
  · refine raises_tryC (Q := OkTop se) (raises_yieldEv_top _) ?_
    intro x s1 y s' hx h
    obtain ⟨s2, h2⟩ := closeSocket_ok s1
    have r2 := closeSocket_react s1
    rw [h2] at r2; simp only [Res.state_ok] at r2
    rw [bind_ok h2] at h; cases h
    exact hx.react r2
  · exact raises_yieldEv_top _

theorem raises_afterConnectL {se : Prop} (l : M Unit) (hl : Raises (OkLoop se) l) (proxy : Bool)
    (sel : Bool) : Raises (OkTop se) (afterConnectL l proxy sel) := by
  unfold afterConnectL
  refine raises_bind (raises_modS _) (fun _ => raises_getS_bind (fun s =>
    raises_bind (noRaise_write _ _).raises (fun r => ?_)))
  split
  · exact raises_closeYield _
  · exact raises_bind (raises_yieldConnected proxy) (fun _ => raises_bind (raises_modS _) (fun _ => raises_runLoopL l hl))

/-- the selector's constructor raising is an ordinary `Exception` -/
theorem raises_selectorError (se : Prop) : Raises (OkLoop se) (throwE (.other "error") : M Unit) :=
  raises_throwE (fun _ => Or.inl trivial)

/-- **Nothing but `GeneratorExit` (and only when the application abandons the iterator) or the end of
    the environment script (and only when the loop can run out of script) leaves `run()`.** -/
theorem raises_runL {se : Prop} (l : M Unit) (hl : Raises (OkLoop se) l) : Raises (OkTop se) (runL l) := by
  unfold runL
  refine raises_bind (raises_yieldEv_top _) (fun _ => raises_getS_bind (fun s => ?_))
  split
  · exact raises_yieldEv_top _
  · exact raises_yieldEv_top _
  · exact raises_afterConnectL l hl _ _
  · exact raises_afterConnectL _ (raises_selectorError se) _ _

end Lomond.Core.Monitor
