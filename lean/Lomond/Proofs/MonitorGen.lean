/-
  Helper lemmas for C07_Run:

  * Part 1 — `topx_run_scriptEnd`: the result-aware lifting of Proofs/LiftX.lean, made aware of HOW
    `run()` ended: when `run()` ends by exhausting the environment script, the exception left the
    session loop in a state `s2` with `X .scriptEnd s2`, and what follows (`finally`) is event-free.
    With the timer instances of Proofs/TimerRun.lean this says: a run never runs out of script with a
    timer overdue or right after Unresponsive.
  * Part 2 — plumbing between the trace (newest first, all observations) and the list of events
    (oldest first).
  * Part 3 — the stricter monitor `Mon'`: after `Rejected` nothing but `Disconnected`.  Acceptance by
    `Mon'` is acceptance by `Mon` plus the trace property `RNext` ("an event whose predecessor is
    Rejected is Disconnected"), and `RNext` is an invariant of `run()`.
-/
import Lomond.Proofs.RunAll
import Lomond.Proofs.LiftX
import Lomond.Proofs.TimerRun
set_option linter.unusedSimpArgs false
set_option linter.unusedVariables false
set_option linter.unusedSectionVars false
namespace Lomond.Core.MonitorGen
open Lomond Lomond.Core Lomond.Core.Lift Lomond.Core.LiftX Lomond.Core.Monitor Lomond.Core.Timers Lomond.Core.TimerRun

/-! ## Part 1: how `run()` ends when the script is exhausted -/

theorem closeYield_err_genExit {e : Event} {s s' : Sys} {x : Exn}
    (h : (do closeSocket; yieldEv e : M Unit) s = .err x s') : x = .genExit := by
  rcases raises_closeYield (se := False) e s x s' h with ⟨hx, _⟩ | ⟨_, hf⟩
  · exact hx
  · exact hf.elim

/-- `s'` is `s` after releasing the socket and / or the selector: nothing else changed on the trace -/
def Released (s s' : Sys) : Prop :=
  Keeps s s' ∧ ∃ l, s'.trace = l ++ s.trace ∧ ∀ o ∈ l, o = Obs.sockClose ∨ o = Obs.selClose

theorem released_closeSocket (s : Sys) : Released s (closeSocket s).state := by
  refine ⟨keeps_closeSocket s, ?_⟩
  unfold closeSocket
  split
  · exact ⟨[.sockClose], rfl, fun o ho => Or.inl (List.mem_singleton.mp ho)⟩
  · exact ⟨[], rfl, fun o ho => by cases ho⟩

theorem released_selClose (s : Sys) : Released s (selClose s).state := by
  refine ⟨keeps_selClose s, ?_⟩
  unfold selClose
  split
  · exact ⟨[.selClose], rfl, fun o ho => Or.inr (List.mem_singleton.mp ho)⟩
  · exact ⟨[], rfl, fun o ho => by cases ho⟩

theorem Released.trans {a b c : Sys} (h1 : Released a b) (h2 : Released b c) : Released a c := by
  obtain ⟨k1, l1, e1, n1⟩ := h1
  obtain ⟨k2, l2, e2, n2⟩ := h2
  refine ⟨keeps_po.trans k1 k2, l2 ++ l1, by rw [e2, e1, List.append_assoc], ?_⟩
  intro o ho
  rcases List.mem_append.mp ho with h | h
  · exact n2 o h
  · exact n1 o h

theorem Released.refl (s : Sys) : Released s s := ⟨keeps_po.refl s, [], rfl, fun o ho => by cases ho⟩

theorem runFinally_res (x : Exn) (s : Sys) : ∃ s', runFinally x s = .err x s' ∧ Released s s' := by
  unfold runFinally
  rw [bind_ok (show getS s = .ok s s from rfl)]
  have key : ∀ s2, Released s s2 → ∃ s', (do selClose; throwE x : M Unit) s2 = .err x s' ∧ Released s s' := by
    intro s2 r2
    refine ⟨(selClose s2).state, ?_, r2.trans (released_selClose s2)⟩
    rw [bind_ok (selClose_is_ok s2)]; rfl
  split
  · rw [bind_ok (closeSocket_is_ok s)]; exact key _ (released_closeSocket s)
  · rw [bind_ok (show (pure () : M Unit) s = .ok () s from rfl)]; exact key _ (Released.refl s)

/-- `try: body; selector.close() finally: …` ends exceptionally only if `body` did, with the same
    exception, and what `finally` does is event-free -/
theorem tryFinally_err {body : M Unit} {s s' : Sys} {x : Exn}
    (h : tryC (do body; selClose) runFinally s = .err x s') : ∃ s1, body s = .err x s1 ∧ Released s1 s' := by
  cases hb : body s with
  | ok u s1 =>
    obtain ⟨s2, h2⟩ := selClose_ok s1
    have e : (do body; selClose : M Unit) s = .ok () s2 := by rw [bind_ok hb]; exact h2
    rw [tryC_ok e] at h; cases h
  | err y s1 =>
    rw [tryC_err (bind_err hb)] at h
    obtain ⟨s2, h2, k2⟩ := runFinally_res y s1
    rw [h2] at h; cases h
    exact ⟨s1, rfl, k2⟩

/-- the `except`/`else` clauses re-raise the end of the script untouched, and nothing else ends so -/
theorem onLoopEnd_scriptEnd {r : Option Exn} {s s' : Sys} (h : onLoopEnd r s = .err .scriptEnd s') :
    r = some .scriptEnd ∧ s' = s := by
  have key : ∀ e : Event, (do closeSocket; yieldEv e : M Unit) s = .err .scriptEnd s' → False := by
    intro e he; have := closeYield_err_genExit he; cases this
  cases r with
  | none => exact (key _ h).elim
  | some y =>
    cases y with
    | scriptEnd => cases h; exact ⟨rfl, rfl⟩
    | genExit => cases h
    | outer z => cases h
    | parse m => exact (key _ h).elim
    | protocol m => exact (key _ h).elim
    | critical m => exact (key _ h).elim
    | forceDisconnect k => exact (key _ h).elim
    | socketFail k => exact (key _ h).elim
    | other k => exact (key _ h).elim

theorem yieldConnected_err_genExit {proxy : Bool} {s s' : Sys} {x : Exn}
    (h : yieldConnected proxy s = .err x s') : x = .genExit := by
  rcases raises_yieldConnected (se := False) proxy s x s' h with ⟨hx, _⟩ | ⟨_, hf⟩
  · exact hx
  · exact hf.elim

section TopErr
variable {I : Sys → Prop} {X : Exn → Sys → Prop} {Fin : Sys → Prop} {env0 : List EnvStep}
variable (T : LeavesX I X) (U : TopX I X Fin env0)
include T U

theorem runLoop_scriptEnd (hloop : SpecX I X (loop env0)) (s : Sys) (hs : I s) {s' : Sys}
    (h : runLoop s = .err .scriptEnd s') : ∃ s2, X .scriptEnd s2 ∧ Released s2 s' := by
  unfold runLoop at h
  rw [bind_ok (show getS s = .ok s s from rfl), U.envEq s hs] at h
  obtain ⟨s1, hb, k1⟩ := tryFinally_err h
  unfold runBody at hb
  rcases captured (loop env0) s with ⟨s5, hl, hc⟩ | ⟨y, s5, hl, hc⟩
  · rw [bind_ok hc] at hb
    obtain ⟨hr, _⟩ := onLoopEnd_scriptEnd hb
    cases hr
  · rw [bind_ok hc] at hb
    obtain ⟨hr, e⟩ := onLoopEnd_scriptEnd hb
    cases hr
    rw [e] at k1
    exact ⟨s5, hloop.err hs hl, k1⟩

omit T U in
theorem runLoopNoSel_not_scriptEnd (s s' : Sys) : runLoopNoSel s ≠ .err .scriptEnd s' := by
  intro h
  unfold runLoopNoSel at h
  obtain ⟨s1, hb, _⟩ := tryFinally_err h
  obtain ⟨hr, _⟩ := onLoopEnd_scriptEnd hb
  cases hr

/-- **when `run()` ends by exhausting the script**, the session loop was left with `.scriptEnd` in a
    state satisfying `X .scriptEnd`, and only event-free steps (`finally`) followed -/
theorem topx_run_scriptEnd (hloop : SpecX I X (loop env0)) (s : Sys) (hs : I s) (hrd : s.ready = false)
    {s' : Sys} (h : run s = .err .scriptEnd s') : ∃ s2, X .scriptEnd s2 ∧ Released s2 s' := by
  unfold run at h
  have h1 := U.yieldTop .connecting (Or.inl rfl) s hs
  have hk := yieldEv_keeps .connecting s
  cases hy : yieldEv .connecting s with
  | err x s1 => rw [bind_err hy] at h; cases h; have := yieldEv_err_genExit hy; cases this
  | ok u s1 =>
    rw [hy] at h1 hk
    have hrd1 : s1.ready = false := hk.ready.trans hrd
    rw [bind_ok hy, bind_ok (show getS s1 = .ok s1 s1 from rfl)] at h
    have hcf : ∀ k, yieldEv (.connectFail k) s1 ≠ .err .scriptEnd s' := by
      intro k hh; have := yieldEv_err_genExit hh; cases this
    -- the part of `afterConnect` / `afterConnectNoSel` up to the `try` statement
    have pre : ∀ (rest : M Unit) (sel : Bool) (proxy : Bool),
        (do modS fun s => { s with sockOpen := true }
            let s ← getS
            let r ← write s.cfg.request
            if wsError r then do
              closeSocket
              yieldEv (.connectFail "request-failed")
            else do
              yieldConnected proxy
              modS fun s => { s with selOpen := sel }
              rest : M Unit) s1 = .err .scriptEnd s' →
        ∃ s4, I s4 ∧ rest s4 = .err .scriptEnd s' := by
      intro rest sel proxy hh
      rw [modS_bindx, bind_ok (show getS { s1 with sockOpen := true } = .ok _ _ from rfl)] at hh
      have i1 := U.sockSet s1 h1
      obtain ⟨r, hw⟩ := write_is_ok { s1 with sockOpen := true }.cfg.request none { s1 with sockOpen := true }
      have i2 := U.writeReq _ i1 rfl hrd1
      have hrd2 : (write { s1 with sockOpen := true }.cfg.request none { s1 with sockOpen := true }).state.ready = false :=
        (keeps_write _ _ _).ready.trans hrd1
      rw [bind_ok hw] at hh
      split at hh
      · have := closeYield_err_genExit hh; cases this
      · rename_i hne
        obtain ⟨ha, hb, hc⟩ := write_accepted hw hne
        have h3 := topx_yieldConnected T U proxy _ i2 ha hb hc hrd2
        cases hyc : yieldConnected proxy (write { s1 with sockOpen := true }.cfg.request none { s1 with sockOpen := true }).state with
        | err x s3 =>
          rw [bind_err hyc] at hh; cases hh
          have := yieldConnected_err_genExit hyc; cases this
        | ok u s3 =>
          rw [hyc] at h3
          rw [bind_ok hyc, modS_bindx] at hh
          exact ⟨_, U.selSet sel s3 h3, hh⟩
    cases hcn : s1.cfg.connect with
    | socketFail => rw [hcn] at h; exact absurd h (hcf _)
    | otherFail => rw [hcn] at h; exact absurd h (hcf _)
    | ok proxy =>
      rw [hcn] at h
      obtain ⟨s4, i4, h4⟩ := pre runLoop true proxy h
      exact runLoop_scriptEnd T U hloop s4 i4 h4
    | selFail proxy =>
      rw [hcn] at h
      obtain ⟨s4, _, h4⟩ := pre runLoopNoSel false proxy h
      exact absurd h4 (runLoopNoSel_not_scriptEnd s4 s')

end TopErr

/-! ## Part 2: the trace (newest first) and the list of events (oldest first) -/

theorem newestEv_cons_other {o : Obs} (t : List Obs) (h : Obs.isEv o = false) : newestEv (o :: t) = newestEv t := by
  cases o <;> first | rfl | cases h

/-- the newest event of a trace is the last element of its event list -/
theorem events_getLast (tr : List Obs) : (events tr).getLast? = newestEv tr := by
  induction tr with
  | nil => rfl
  | cons o t ih =>
    cases o with
    | ev e => rw [events_cons_ev]; simp [newestEv]
    | _ => rw [events_cons_nonEv _ _ rfl, newestEv_cons_other _ rfl]; exact ih

theorem mem_events {e : Event} {tr : List Obs} : e ∈ events tr ↔ Obs.ev e ∈ tr := by
  constructor
  · intro h
    simp only [events, List.mem_filterMap, List.mem_reverse] at h
    obtain ⟨o, ho, he⟩ := h
    cases o <;> simp [Obs.event?] at he
    subst he; exact ho
  · intro h
    simp only [events, List.mem_filterMap, List.mem_reverse]
    exact ⟨_, h, rfl⟩

/-- `UNext` read on the list of events: the event after Unresponsive is the forced disconnect -/
theorem unext_events {tr : List Obs} (h : UNext tr) {a b : List Event} {e : Event}
    (he : events tr = a ++ .unresponsive :: e :: b) : e = .disconnected "ping-timeout" false := by
  induction tr generalizing a b e with
  | nil => simp [events] at he
  | cons o t ih =>
    cases o with
    | ev e0 =>
      rw [events_cons_ev] at he
      rcases List.eq_nil_or_concat b with hb | ⟨b', x, hb⟩
      · subst hb
        have e1 : events t ++ [e0] = (a ++ [.unresponsive]) ++ [e] := by rw [he]; simp
        obtain ⟨h1, h2⟩ := List.append_inj' e1 rfl
        have h3 : e0 = e := by simpa using h2
        have hn : newestEv t = some .unresponsive := by rw [← events_getLast, h1]; simp
        rw [← h3]; exact h.1 e0 rfl hn
      · subst hb
        have e1 : events t ++ [e0] = (a ++ .unresponsive :: e :: b') ++ [x] := by rw [he]; simp
        obtain ⟨h1, _⟩ := List.append_inj' e1 rfl
        exact ih h.2 h1
    | _ => rw [events_cons_nonEv _ _ rfl] at he; exact ih h.2 he

theorem discAny_false_events {tr : List Obs} (h : discAny tr = false) (k : String) (g : Bool) :
    Event.disconnected k g ∉ events tr := by
  intro hm
  rw [mem_events] at hm
  unfold discAny at h
  rw [List.any_eq_false] at h
  exact absurd rfl (h _ hm)

/-- an accepted sequence containing `Disconnected` is complete -/
theorem Mon.run_disc_done {evs : List Event} {ph : Phase} (h : Mon.run .start evs = some ph) {k : String} {g : Bool}
    (hm : Event.disconnected k g ∈ evs) : ph = .done := by
  obtain ⟨a, b, rfl⟩ := List.append_of_mem hm
  have hb := Mon.nothing_after_terminal h rfl
  subst hb
  obtain ⟨p, q, _, hs, hr⟩ := Mon.run_split h
  cases hr
  exact Mon.step_terminal hs rfl

/-- the terminal event of a complete sequence that contains `Ready` is `Disconnected` -/
theorem disconnected_of_complete_ready {evs : List Event} (hc : Mon.complete evs) {x : Option Http.Str} {d : Bool}
    (hr : Event.ready x d ∈ evs) : ∃ k g, Event.disconnected k g ∈ evs := by
  obtain ⟨a, e, h1, ht, _⟩ := Mon.complete_ends_terminal hc
  cases e with
  | disconnected k g => exact ⟨k, g, by rw [h1]; simp⟩
  | connectFail k =>
    exfalso
    subst h1
    obtain ⟨ha, _⟩ := Mon.connectFail_position (b := []) hc
    subst ha
    simp at hr
  | _ => cases ht

theorem readyAt_some_mem {tr : List Obs} (h : readyAt tr ≠ none) : ∃ a d, Obs.ev (.ready a d) ∈ tr := by
  induction tr with
  | nil => exact absurd rfl h
  | cons o t ih =>
    unfold readyAt at h
    by_cases ho : o.tmIsReady = true
    · cases o with
      | ev e =>
        cases e with
        | ready a d => exact ⟨a, d, List.mem_cons_self⟩
        | _ => cases ho
      | _ => cases ho
    · simp only [ho, Bool.false_eq_true, if_false] at h
      obtain ⟨a, d, hm⟩ := ih h
      exact ⟨a, d, List.mem_cons_of_mem _ hm⟩

/-- entries `finally` may add (socket / selector release) and the INCOMPLETE mark are no clock marks -/
theorem released_noTick {s s' : Sys} (h : Released s s') :
    ∃ l, s'.trace = l ++ s.trace ∧ ∀ o ∈ l, o.tmTickVal = none := by
  obtain ⟨_, l, e, n⟩ := h
  refine ⟨l, e, fun o ho => ?_⟩
  rcases n o ho with rfl | rfl <;> rfl

/-! ## Part 3: the stricter monitor -/

/-- phases of the stricter monitor: `rejected` = the upgrade was refused, only the terminal event may
    follow -/
inductive Phase'
  | start | connecting | connected | rejected | ready | unresp | done
  deriving DecidableEq, Repr

/-- one step of the stricter monitor: as `Mon.step`, except that `Rejected` leads to a phase of its own
    in which only `Disconnected` is accepted (so: no `Ready`, no second `Rejected`, no `ProtocolError`
    after `Rejected`) -/
def Mon'.step : Phase' → Event → Option Phase'
  | .start, .connecting => some .connecting
  | .connecting, .connectFail _ => some .done
  | .connecting, .connected _ => some .connected
  | .connected, .ready _ _ => some .ready
  | .connected, .rejected _ => some .rejected
  | .connected, .protocolError _ _ => some .connected
  | .connected, .disconnected _ _ => some .done
  | .rejected, .disconnected _ _ => some .done
  | .ready, .text _ => some .ready
  | .ready, .binary _ => some .ready
  | .ready, .ping _ => some .ready
  | .ready, .pong _ => some .ready
  | .ready, .closing _ _ => some .ready
  | .ready, .closed _ _ => some .ready
  | .ready, .poll => some .ready
  | .ready, .unresponsive => some .unresp
  | .ready, .protocolError _ _ => some .ready
  | .ready, .disconnected _ _ => some .done
  | .unresp, .disconnected _ _ => some .done
  | _, _ => none

def Mon'.run (ph : Phase') : List Event → Option Phase'
  | [] => some ph
  | e :: r => (Mon'.step ph e).bind (fun q => Mon'.run q r)

def Mon'.accepts (evs : List Event) : Prop := ∃ ph, Mon'.run .start evs = some ph
def Mon'.complete (evs : List Event) : Prop := Mon'.run .start evs = some .done

/-- the stricter monitor's phase after a trace (newest first) -/
def phaseOf' : List Obs → Option Phase'
  | [] => some .start
  | .ev e :: r => (phaseOf' r).bind (fun p => Mon'.step p e)
  | _ :: r => phaseOf' r

theorem Mon'.run_append (ph : Phase') (a b : List Event) :
    Mon'.run ph (a ++ b) = (Mon'.run ph a).bind (fun q => Mon'.run q b) := by
  induction a generalizing ph with
  | nil => rfl
  | cons e r ih =>
    simp only [List.cons_append, Mon'.run]
    cases Mon'.step ph e with
    | none => rfl
    | some q => simp only [Option.bind_some]; exact ih q

theorem phaseOf'_eq_run (tr : List Obs) : phaseOf' tr = Mon'.run .start (events tr) := by
  induction tr with
  | nil => rfl
  | cons o r ih =>
    cases o with
    | ev e =>
      rw [events_cons_ev, Mon'.run_append, ← ih]
      simp only [phaseOf']
      cases phaseOf' r with
      | none => rfl
      | some p => simp only [Option.bind_some, Mon'.run]; cases Mon'.step p e <;> rfl
    | _ => rw [events_cons_nonEv _ _ rfl]; exact ih

/-- the phase of `Mon` a phase of `Mon'` stands for -/
def Phase'.proj : Phase' → Phase
  | .start => .start | .connecting => .connecting | .connected => .connected | .rejected => .connected
  | .ready => .ready | .unresp => .unresp | .done => .done

/-- `Mon'` refines `Mon`: whatever `Mon'` accepts, `Mon` accepts (every clause read off `Mon` holds) -/
theorem Mon'.step_proj {p q : Phase'} {e : Event} (h : Mon'.step p e = some q) :
    Mon.step p.proj e = some q.proj := by
  cases p <;> cases e <;> simp [Mon'.step] at h <;> subst h <;> rfl

theorem Mon'.run_proj {p q : Phase'} {l : List Event} (h : Mon'.run p l = some q) :
    Mon.run p.proj l = some q.proj := by
  induction l generalizing p with
  | nil => cases h; rfl
  | cons e r ih =>
    simp only [Mon'.run] at h
    cases hs : Mon'.step p e with
    | none => rw [hs] at h; cases h
    | some p1 =>
      rw [hs] at h; simp only [Option.bind_some] at h
      simp only [Mon.run, Mon'.step_proj hs, Option.bind_some]
      exact ih h

theorem Mon'.run_split {p0 ph : Phase'} {a b : List Event} {e : Event} (h : Mon'.run p0 (a ++ e :: b) = some ph) :
    ∃ p q, Mon'.run p0 a = some p ∧ Mon'.step p e = some q ∧ Mon'.run q b = some ph := by
  rw [Mon'.run_append] at h
  cases ha : Mon'.run p0 a with
  | none => rw [ha] at h; cases h
  | some p =>
    rw [ha] at h; simp only [Option.bind_some, Mon'.run] at h
    cases hs : Mon'.step p e with
    | none => rw [hs] at h; cases h
    | some q => rw [hs] at h; exact ⟨p, q, rfl, hs, h⟩

theorem Mon'.step_done (e : Event) : Mon'.step .done e = none := by cases e <;> rfl

theorem Mon'.run_done {l : List Event} {q : Phase'} (h : Mon'.run .done l = some q) : l = [] := by
  cases l with
  | nil => rfl
  | cons e r => simp only [Mon'.run, Mon'.step_done] at h; cases h

/-- **after `Rejected` the only possible next event is the terminal `Disconnected`** -/
theorem Mon'.after_rejected {p0 ph : Phase'} {a b : List Event} {r : Http.Str}
    (h : Mon'.run p0 (a ++ .rejected r :: b) = some ph) : b = [] ∨ ∃ k g, b = [.disconnected k g] := by
  obtain ⟨p, q, _, hs, hb⟩ := Mon'.run_split h
  have hq : q = .rejected := by cases p <;> simp [Mon'.step] at hs; exact hs.symm
  subst hq
  cases b with
  | nil => exact Or.inl rfl
  | cons e r' =>
    right
    simp only [Mon'.run] at hb
    cases hs2 : Mon'.step .rejected e with
    | none => rw [hs2] at hb; cases hb
    | some q2 =>
      rw [hs2] at hb; simp only [Option.bind_some] at hb
      cases e <;> simp [Mon'.step] at hs2
      subst hs2
      rename_i k g
      exact ⟨k, g, by rw [Mon'.run_done hb]⟩

/-- **`Rejected` is accepted only in the phase `connected`** (after `Connected`, before `Ready`, and not
    after another `Rejected`) -/
theorem Mon'.rejected_phase {p q : Phase'} {r : Http.Str} (h : Mon'.step p (.rejected r) = some q) :
    p = .connected ∧ q = .rejected := by
  cases p <;> simp [Mon'.step] at h
  exact ⟨rfl, h.symm⟩

/-! ### the extra trace property -/

/-- the newest event of the trace is `Rejected` -/
def rejLast : List Obs → Bool
  | [] => false
  | .ev (.rejected _) :: _ => true
  | .ev _ :: _ => false
  | _ :: t => rejLast t

def _root_.Lomond.Core.Event.isDisc : Event → Bool
  | .disconnected _ _ => true
  | _ => false

def _root_.Lomond.Core.Event.isRej : Event → Bool
  | .rejected _ => true
  | _ => false

/-- **an event whose predecessor is `Rejected` is `Disconnected`** -/
def RNext : List Obs → Prop
  | [] => True
  | o :: t => (∀ e, o = .ev e → rejLast t = true → e.isDisc = true) ∧ RNext t

theorem rejLast_cons_ev (e : Event) (t : List Obs) : rejLast (.ev e :: t) = e.isRej := by
  cases e <;> rfl

theorem rejLast_cons_other {o : Obs} (t : List Obs) (h : Obs.isEv o = false) : rejLast (o :: t) = rejLast t := by
  cases o <;> first | rfl | cases h

/-- how `Mon'`'s phase is obtained from `Mon`'s and the newest event -/
def lift : Phase → Bool → Phase'
  | .start, _ => .start
  | .connecting, _ => .connecting
  | .connected, false => .connected
  | .connected, true => .rejected
  | .ready, _ => .ready
  | .unresp, _ => .unresp
  | .done, _ => .done

/-- **acceptance by `Mon'` = acceptance by `Mon` + `RNext`** -/
theorem phaseOf'_of (tr : List Obs) (p : Phase) (h : phaseOf tr = some p) (hr : RNext tr) :
    phaseOf' tr = some (lift p (rejLast tr)) := by
  induction tr generalizing p with
  | nil => cases h; rfl
  | cons o t ih =>
    cases o with
    | ev e =>
      simp only [phaseOf] at h
      cases hp0 : phaseOf t with
      | none => rw [hp0] at h; cases h
      | some p0 =>
        rw [hp0] at h; simp only [Option.bind_some] at h
        have i := ih p0 hp0 hr.2
        simp only [phaseOf', i, Option.bind_some]
        rw [rejLast_cons_ev]
        cases hrl : rejLast t with
        | true =>
          have hd := hr.1 e rfl hrl
          cases e <;> first | (cases hd; done) | skip
          cases p0 <;> simp [Mon.step] at h <;> subst h <;> rfl
        | false =>
          cases p0 <;> cases e <;> simp [Mon.step] at h <;> subst h <;> rfl
    | _ => exact ih p h hr.2

theorem rejLast_append_nonEv (l t : List Obs) (h : ∀ o ∈ l, Obs.isEv o = false) : rejLast (l ++ t) = rejLast t := by
  induction l with
  | nil => rfl
  | cons o r ih =>
    rw [List.cons_append, rejLast_cons_other _ (h o List.mem_cons_self)]
    exact ih (fun o' ho' => h o' (List.mem_cons_of_mem _ ho'))

theorem rnext_append_nonEv (l t : List Obs) (h : ∀ o ∈ l, Obs.isEv o = false) (ht : RNext t) : RNext (l ++ t) := by
  induction l with
  | nil => exact ht
  | cons o r ih =>
    refine ⟨?_, ih (fun o' ho' => h o' (List.mem_cons_of_mem _ ho'))⟩
    intro e he
    have := h o List.mem_cons_self
    subst he; cases this

theorem rnext_cons_ev {e : Event} {t : List Obs} (ht : RNext t) (h : rejLast t = true → e.isDisc = true) :
    RNext (.ev e :: t) :=
  ⟨fun e' he' hr => by cases he'; exact h hr, ht⟩

/-- the trace is fine and its newest event is not `Rejected` -/
def A (tr : List Obs) : Prop := RNext tr ∧ rejLast tr = false

/-- appending entries none of which is a `Rejected` event -/
theorem A_append (l t : List Obs) (hl : ∀ o ∈ l, ∀ e, o = .ev e → e.isRej = false) (h : A t) : A (l ++ t) := by
  induction l with
  | nil => exact h
  | cons o r ih =>
    have i := ih (fun o' ho' => hl o' (List.mem_cons_of_mem _ ho'))
    refine ⟨⟨fun e _ hr => ?_, i.1⟩, ?_⟩
    · have h2 : rejLast (r ++ t) = false := i.2
      change rejLast (r ++ t) = true at hr
      rw [h2] at hr; cases hr
    · show rejLast (o :: (r ++ t)) = false
      cases ho : Obs.isEv o with
      | false => rw [rejLast_cons_other _ ho]; exact i.2
      | true =>
        cases o with
        | ev e => rw [rejLast_cons_ev]; exact hl _ List.mem_cons_self e rfl
        | _ => cases ho

theorem events_append (l t : List Obs) : events (l ++ t) = events t ++ events l := by
  simp [events, List.reverse_append, List.filterMap_append]

/-- from the phase `ready` on the monitor accepts no `Rejected` -/
theorem Mon.run_noRej {p q : Phase} {l : List Event} (h : Mon.run p l = some q) (hp : 3 ≤ p.rank) :
    ∀ e ∈ l, e.isRej = false := by
  intro e he
  obtain ⟨a, b, rfl⟩ := List.append_of_mem he
  obtain ⟨p1, q1, ha, hs, _⟩ := Mon.run_split h
  have := Mon.run_mono ha
  cases e <;> first | rfl | skip
  cases p1 <;> simp [Mon.step] at hs
  have h2 : Phase.rank .connected = 2 := rfl
  omega

theorem phaseOf_append (l t : List Obs) : phaseOf (l ++ t) = (phaseOf t).bind (fun p => Mon.run p (events l)) := by
  rw [phaseOf_eq_run, events_append, Mon.run_append, ← phaseOf_eq_run]

/-- once `Ready` was emitted: whatever is appended with the monitor still accepting keeps `A` -/
theorem A_ext {t l : List Obs} {p q : Phase} (ha : A t) (hp : phaseOf t = some p) (hr : 3 ≤ p.rank)
    (hq : phaseOf (l ++ t) = some q) : A (l ++ t) := by
  rw [phaseOf_append, hp] at hq
  simp only [Option.bind_some] at hq
  have hn := Mon.run_noRej hq hr
  refine A_append l t (fun o ho e he => ?_) ha
  subst he
  exact hn e (mem_events.mpr ho)

theorem quiet_isEv {l : List Obs} (n : ∀ o ∈ l, Obs.quiet o = true) : ∀ o ∈ l, Obs.isEv o = false :=
  fun o ho => Obs.quiet.isEv (n o ho)

theorem _root_.Lomond.Core.Monitor.Keeps.rnext {s s' : Sys} (k : Keeps s s') (h : RNext s.trace) : RNext s'.trace := by
  obtain ⟨l, e, n⟩ := k.trace
  rw [e]; exact rnext_append_nonEv l _ (quiet_isEv n) h

theorem _root_.Lomond.Core.Monitor.Keeps.rejLast {s s' : Sys} (k : Keeps s s') : rejLast s'.trace = rejLast s.trace := by
  obtain ⟨l, e, n⟩ := k.trace
  rw [e]; exact rejLast_append_nonEv l _ (quiet_isEv n)

theorem _root_.Lomond.Core.Monitor.Keeps.a {s s' : Sys} (k : Keeps s s') (h : A s.trace) : A s'.trace :=
  ⟨k.rnext h.1, k.rejLast.trans h.2⟩

/-- after `yield e` from a state whose newest event is not `Rejected` -/
theorem yieldEv_rn (e : Event) (s : Sys) (h : A s.trace) :
    RNext (yieldEv e s).state.trace ∧ rejLast (yieldEv e s).state.trace = e.isRej := by
  have k := yieldEv_keeps e s
  refine ⟨k.rnext (rnext_cons_ev h.1 (fun hr => by rw [h.2] at hr; cases hr)), ?_⟩
  rw [k.rejLast]; exact rejLast_cons_ev e s.trace

theorem yieldEv_a (e : Event) (he : e.isRej = false) (s : Sys) (h : A s.trace) : A (yieldEv e s).state.trace := by
  obtain ⟨h1, h2⟩ := yieldEv_rn e s h
  exact ⟨h1, h2.trans he⟩

/-- yielding the terminal `Disconnected` is always fine -/
theorem closeYield_rn (k : String) (g : Bool) (s : Sys) (h : RNext s.trace) :
    RNext ((do closeSocket; yieldEv (.disconnected k g) : M Unit) s).state.trace := by
  rw [bind_ok (closeSocket_is_ok s)]
  have k1 := keeps_closeSocket s
  exact (yieldEv_keeps _ _).rnext (rnext_cons_ev (k1.rnext h) (fun _ => rfl))

theorem onLoopEnd_rn (r : Option Exn) (s : Sys) (h : RNext s.trace) : RNext (onLoopEnd r s).state.trace := by
  unfold onLoopEnd
  split
  all_goals first
    | exact closeYield_rn _ _ s h
    | exact h

/-! ### the phases in which `A` comes for free: after `Ready` -/

theorem gu_phase {s : Sys} (h : GU s) : ∃ q, phaseOf s.trace = some q := by
  rcases h with (h | h) | h
  · exact ⟨_, h.1⟩
  · exact ⟨_, h.1⟩
  · exact ⟨_, h.1⟩

theorem eg_phase {x : Exn} {s : Sys} (h : EG x s) : ∃ q, phaseOf s.trace = some q := gu_phase (EG.gu h)

theorem e3_phase {x : Exn} {s : Sys} (h : E3 x s) : ∃ q, phaseOf s.trace = some q := eg_phase (E3.eg h)

/-- from a state after `Ready`: a step that leaves the monitor accepting keeps `A` -/
theorem p3_ext {s s' : Sys} (hp : P3 s) (ha : A s.trace) (st : Step s s') (hq : ∃ q, phaseOf s'.trace = some q) :
    A s'.trace := by
  obtain ⟨l, e⟩ := st.traceExt
  obtain ⟨q, hq⟩ := hq
  rw [e] at hq ⊢
  exact A_ext ha hp.1 (by decide) hq

theorem sat3_phase {r : Res α} (h : Res.sat3 r P3 E3) : ∃ q, phaseOf r.state.trace = some q := by
  cases r with
  | ok a s => exact ⟨_, h.1⟩
  | err x s => exact e3_phase h

theorem satL_phase {r : Res α} (h : Res.sat r InvL GU) : ∃ q, phaseOf r.state.trace = some q := by
  cases r with
  | ok a s => exact gu_phase (G.gu (InvL.g h))
  | err x s => exact gu_phase h

/-! ### before `Ready` -/

/-- an event that `_on_event` ignores, yielded before `Ready`: the application reacts, `_regular()`
    does nothing; if the reaction raised, `feed` is finalised and the exception goes on wrapped -/
theorem feedYield_pre (b : Bool) (e : Event) (s : Sys) (he : onEvent e s = .ok () s) (hr : s.ready = false) :
    Keeps (Monitor.pushEv e s) (feedYield b e s).state ∧ ∀ x s', feedYield b e s = .err x s' → ∃ y, x = .outer y := by
  have k := yieldEv_keeps e s
  unfold feedYield
  cases hy : yieldEv e s with
  | ok u s1 =>
    rw [hy] at k
    have hr1 : s1.ready = false := k.ready.trans hr
    have e1 : (do onEvent e; yieldEv e; regular : M Unit) s = .ok () s1 := by
      rw [bind_ok he, bind_ok hy]; exact regular_notReady s1 hr1
    rw [tryC_ok e1]
    exact ⟨k, fun x s' h => by cases h⟩
  | err x s1 =>
    rw [hy] at k
    have e1 : (do onEvent e; yieldEv e; regular : M Unit) s = .err x s1 := by
      rw [bind_ok he, bind_err hy]
    rw [tryC_err e1]
    obtain ⟨s2, h2, k2⟩ := feedYield_handler_res b x s1
    rw [h2]
    exact ⟨keeps_po.trans k k2, fun y s' h => by cases h; exact ⟨x, rfl⟩⟩

/-- what the header phase guarantees: on a normal return a newest event `Rejected` means the
    websocket is closed; on an exceptional one it means the exception comes from the application's
    reaction (`feed`'s `except` clauses are silent for it) -/
def SatH : Res α → Prop
  | .ok _ s' => RNext s'.trace ∧ (rejLast s'.trace = true → s'.closed = true)
  | .err x s' => RNext s'.trace ∧ (rejLast s'.trace = true → ∃ y, x = .outer y)

theorem SatH.of_a {r : Res α} (h : A r.state.trace) : SatH r := by
  cases r with
  | ok a s => exact ⟨h.1, fun hr => by have h2 : rejLast s.trace = false := h.2; rw [h2] at hr; cases hr⟩
  | err x s => exact ⟨h.1, fun hr => by have h2 : rejLast s.trace = false := h.2; rw [h2] at hr; cases hr⟩

/-- the accepted upgrade: `Ready` is pushed from a state whose newest event is not `Rejected`; from
    then on the phase is `ready` -/
theorem onOut_accept_h (acc : Http.Accepted) (s1 : Sys) (hg1 : G2 s1) (ha1 : A s1.trace) :
    SatH ((do feedYield true (.ready acc.protocol acc.deflate.isSome)
              modS fun s => { s with parsedResponse := true }
              notClosed : M Bool) s1) ∧
    (∀ s', (do feedYield true (.ready acc.protocol acc.deflate.isSome)
               modS fun s => { s with parsedResponse := true }
               notClosed : M Bool) s1 = .ok true s' → A s'.trace) := by
  have h1 : onEvent (.ready acc.protocol acc.deflate.isSome) s1 =
      .ok () { s1 with lastPong := 0, nextPing := 0, startTime := some s1.now, ready := true } := rfl
  generalize hs2 : ({ s1 with lastPong := 0, nextPing := 0, startTime := some s1.now, ready := true } : Sys) = s2 at h1
  have hp2 : phaseOf s2.trace = some .connected := by rw [← hs2]; exact hg1.1
  have hk2 : SockInv s2 := by rw [← hs2]; exact hg1.2.2
  have ha2 : A s2.trace := by rw [← hs2]; exact ha1
  have hy : P3 (yieldEv (.ready acc.protocol acc.deflate.isSome) s2).state := by
    refine (yieldEv_keeps _ s2).p3 ⟨?_, sockInv_pushEv _ s2 hk2⟩
    rw [phaseOf_pushEv, hp2]; rfl
  have hya := yieldEv_a (.ready acc.protocol acc.deflate.isSome) rfl s2 ha2
  have afy : A (feedYield true (.ready acc.protocol acc.deflate.isSome) s1).state.trace := by
    unfold feedYield
    cases hyr : yieldEv (.ready acc.protocol acc.deflate.isSome) s2 with
    | err x s3 =>
      rw [hyr] at hya
      have e1 : (do onEvent (.ready acc.protocol acc.deflate.isSome); yieldEv (.ready acc.protocol acc.deflate.isSome); regular : M Unit) s1 = .err x s3 := by
        rw [bind_ok h1, bind_err hyr]
      rw [tryC_err e1]
      obtain ⟨s4, h4, k4⟩ := feedYield_handler_res true x s3
      rw [h4]; exact k4.a hya
    | ok u s3 =>
      rw [hyr] at hya hy
      have hreg := spec3_regular s3 hy
      have areg : A (regular s3).state.trace := p3_ext hy hya (step_regular s3) (sat3_phase hreg)
      cases hrr : regular s3 with
      | ok u2 s4 =>
        rw [hrr] at areg
        have e1 : (do onEvent (.ready acc.protocol acc.deflate.isSome); yieldEv (.ready acc.protocol acc.deflate.isSome); regular : M Unit) s1 = .ok () s4 := by
          rw [bind_ok h1, bind_ok hyr]; exact hrr
        rw [tryC_ok e1]; exact areg
      | err x s4 =>
        rw [hrr] at areg
        have e1 : (do onEvent (.ready acc.protocol acc.deflate.isSome); yieldEv (.ready acc.protocol acc.deflate.isSome); regular : M Unit) s1 = .err x s4 := by
          rw [bind_ok h1, bind_ok hyr]; exact hrr
        rw [tryC_err e1]
        obtain ⟨s5, h5, k5⟩ := feedYield_handler_res true x s4
        rw [h5]; exact k5.a areg
  cases hr : feedYield true (.ready acc.protocol acc.deflate.isSome) s1 with
  | err x s3 =>
    rw [hr] at afy
    rw [bind_err hr]
    exact ⟨SatH.of_a afy, fun s' h => by cases h⟩
  | ok u s3 =>
    rw [hr] at afy
    rw [bind_ok hr, modS_bind]
    have a4 : A ({ s3 with parsedResponse := true } : Sys).trace := afy
    constructor
    · show SatH (notClosed { s3 with parsedResponse := true })
      unfold notClosed; exact SatH.of_a a4
    · intro s' h
      have : notClosed { s3 with parsedResponse := true } = .ok true s' := h
      unfold notClosed at this
      injection this with _ h2
      subst h2; exact a4

/-- the handshake response: an accepted upgrade yields `Ready` (from then on `A` comes for free), a
    refused one yields `Rejected` with the websocket already closed -/
theorem onOut_header_h (data : Bytes) (s : Sys) (hs : G2 s) (ha : A s.trace) :
    SatH (onOut (.header data) s) ∧ (∀ s', onOut (.header data) s = .ok true s' → A s'.trace) := by
  unfold onOut
  simp only []
  rw [bind_ok (show getS s = .ok s s from rfl)]
  cases hresp : Http.onResponse s.cfg.v.strictAccept s.cfg.challenge (Http.parseResponse data) with
  | error reason =>
    simp only []
    rw [bind_ok (show modS (fun s => { s with parsedResponse := true }) s = .ok () { s with parsedResponse := true } from rfl)]
    obtain ⟨s2, h2, hc2⟩ := onDisconnect_ok { s with parsedResponse := true }
    have k2 : Keeps { s with parsedResponse := true } s2 := keeps_onDisconnect.ok h2
    have ha2 : A s2.trace := k2.a ha
    have hr2 : s2.ready = false := k2.ready.trans hs.2.1
    rw [bind_ok h2]
    obtain ⟨k3, hx⟩ := feedYield_pre true (.rejected reason) s2 rfl hr2
    have st3 := step_feedYield true (.rejected reason) s2
    have rn : RNext (feedYield true (.rejected reason) s2).state.trace :=
      k3.rnext (rnext_cons_ev ha2.1 (fun hr => by rw [ha2.2] at hr; cases hr))
    cases hr : feedYield true (.rejected reason) s2 with
    | err x s3 =>
      rw [hr] at rn
      rw [bind_err hr]
      exact ⟨⟨rn, fun _ => hx x s3 hr⟩, fun s' h => by cases h⟩
    | ok u s3 =>
      rw [hr] at rn st3
      rw [bind_ok hr]
      exact ⟨⟨rn, fun _ => st3.closedMono hc2⟩, fun s' h => by cases h⟩
  | ok acc =>
    simp only []
    rw [modS_bind]
    exact onOut_accept_h acc _ hs ha

theorem feedLoop_a (data : Bytes) (s : Sys) (hp : P3 s) (hc : s.p.cont ≠ .header) (ha : A s.trace) :
    A (feedLoop data s).state.trace :=
  p3_ext hp ha (step_feedLoop data s) (sat3_phase (feedLoop_p3 data s hp hc))

theorem afterHeader_h (rest d : Bytes) (s : Sys) (hs : G2 s) (hc : s.p.cont ≠ .header) (ha : A s.trace) :
    SatH (afterHeader rest (some (.header d)) s) := by
  unfold afterHeader
  simp only []
  obtain ⟨h1, h2⟩ := onOut_header_h d s hs ha
  have ho := onOut_header d s hs
  have hst := step_onOut (.header d) s
  cases hr : onOut (.header d) s with
  | err x s2 => rw [hr] at h1; rw [bind_err hr]; exact h1
  | ok go s2 =>
    rw [hr] at h1 ho hst; rw [bind_ok hr]
    cases go with
    | false => simp only [Bool.false_eq_true, if_false]; exact h1
    | true =>
      simp only [if_true]
      have a2 := h2 s2 hr
      have al := feedLoop_a rest s2 ho (hst.contNH hc) a2
      cases hr2 : feedLoop rest s2 with
      | err x s3 => rw [hr2] at al; rw [bind_err hr2]; exact SatH.of_a al
      | ok b s3 => rw [hr2] at al; rw [bind_ok hr2]; exact SatH.of_a al

theorem setP_a {s : Sys} {p' : PState} (h : A s.trace) : A ({ s with p := p' } : Sys).trace := h

theorem feedHeader_h (data : Bytes) (s : Sys) (hs : G2 s) (hc : s.p.cont = .header) (ha : A s.trace) :
    SatH (feedHeader data s) := by
  generalize hr : feedHeader data s = r
  unfold feedHeader at hr
  simp only [] at hr
  split at hr
  · split at hr
    · subst hr; exact SatH.of_a (setP_a ha)
    · subst hr; exact SatH.of_a (setP_a ha)
  · split at hr
    · subst hr; exact SatH.of_a (setP_a ha)
    · split at hr
      · subst hr; exact SatH.of_a (setP_a ha)
      · rename_i p' out hres
        obtain ⟨hc1, ho⟩ := resume_header hres hc
        simp only at hc1 ho
        subst ho
        subst hr
        exact afterHeader_h _ _ { s with p := p' } (setP_g2 hs) hc1 (setP_a ha)

/-- `stream.feed(data)` inside `WebSocket.feed`'s `try`, entered with the websocket open -/
theorem feedBody_h (data : Bytes) (s : Sys) (hs : InvL s) (hcl : s.closed = false) (ha : A s.trace) :
    SatH (feedBody data s) := by
  rcases hs with ⟨h1, h2⟩ | ⟨h1, h2⟩
  · have hc := h2 hcl
    unfold feedBody
    simp only [hc, if_true]
    exact feedHeader_h data s h1 hc ha
  · have hb := feedBody_spec data s (Or.inr ⟨h1, h2⟩) hcl
    have : ∃ q, phaseOf (feedBody data s).state.trace = some q := by
      cases hr : feedBody data s with
      | ok u s2 => rw [hr] at hb; exact gu_phase (G.gu (InvL.g hb))
      | err x s2 => rw [hr] at hb; exact eg_phase hb
    exact SatH.of_a (p3_ext h1 ha (step_feedBody data s) this)

/-- an event-free exceptional pass through `feed`'s `except` clauses -/
theorem feedHandler_outer (y : Exn) (s : Sys) : feedHandler (.outer y) s = .err (.outer y) s := rfl

/-- the `except` clauses of `feed`: whatever they yield (`ProtocolError`), the trace stays fine -/
theorem feedHandler_h (x : Exn) (s : Sys) (hg : EG x s) (hn : RNext s.trace)
    (hr : rejLast s.trace = true → ∃ y, x = .outer y) : RNext (feedHandler x s).state.trace := by
  cases hl : rejLast s.trace with
  | true =>
    obtain ⟨y, rfl⟩ := hr hl
    rw [feedHandler_outer]; exact hn
  | false =>
    have ha : A s.trace := ⟨hn, hl⟩
    rcases hg with (h | h) | ⟨hu, hx⟩
    · -- before Ready: `_regular()` does nothing after the ProtocolError
      have key : ∀ (msg : String) (c : Bool) (k : Unit → M Unit), (∀ u, Spec Keeps (k u)) →
          RNext ((feedYield false (.protocolError msg c) >>= k) s).state.trace := by
        intro msg c k hk
        obtain ⟨k3, _⟩ := feedYield_pre false (.protocolError msg c) s rfl h.2.1
        have rn : RNext (feedYield false (.protocolError msg c) s).state.trace :=
          k3.rnext (rnext_cons_ev hn (fun hr => by rw [hl] at hr; cases hr))
        cases hy : feedYield false (.protocolError msg c) s with
        | err z s1 => rw [hy] at rn; rw [bind_err hy]; exact rn
        | ok u s1 => rw [hy] at rn; rw [bind_ok hy]; exact (hk u s1).rnext rn
      unfold feedHandler
      split
      · exact key _ _ _ (fun _ => spec_throwE keeps_po _)
      · exact key _ _ _ (fun _ => spec_throwE keeps_po _)
      · exact key _ _ _ (fun _ => spec_bind keeps_po (keeps_wsClose _ _) (fun r =>
          spec_bind keeps_po (keeps_raiseIfArgError r) (fun _ => spec_throwE keeps_po _)))
      · exact hn
    · have h3 := spec3_feedHandler x s h
      exact (p3_ext h ha (step_feedHandler x s) (sat3_phase h3)).1
    · have : feedHandler x s = .err x s := by
        unfold feedHandler
        cases x <;> first | exact hx.elim | rfl
      rw [this]; exact hn

/-- `WebSocket.feed(data)`: on a normal return a newest event `Rejected` means the websocket is closed -/
theorem wsFeed_h (data : Bytes) (s : Sys) (hs : InvL s) (hn : RNext s.trace)
    (hrc : rejLast s.trace = true → s.closed = true) :
    RNext (wsFeed data s).state.trace ∧
    (∀ s', wsFeed data s = .ok () s' → rejLast s'.trace = true → s'.closed = true) := by
  generalize hres : wsFeed data s = res
  unfold wsFeed at hres
  split at hres
  · rename_i hcl
    subst hres
    exact ⟨hn, fun s' h hr => by cases h; exact hcl⟩
  · rename_i hcl
    have hcl' : s.closed = false := by cases h : s.closed <;> simp_all
    have ha : A s.trace := ⟨hn, by cases h : rejLast s.trace with | false => rfl | true => rw [hrc h] at hcl'; cases hcl'⟩
    have hb := feedBody_h data s hs hcl' ha
    have hm := feedBody_spec data s hs hcl'
    cases hr : feedBody data s with
    | ok u s1 =>
      rw [hr] at hb
      rw [tryC_ok (tryC_ok hr)] at hres; subst hres
      exact ⟨hb.1, fun s' h => by cases h; exact hb.2⟩
    | err x s1 =>
      rw [hr] at hb hm
      have hh := feedHandler_h x s1 hm hb.1 hb.2
      cases hr2 : feedHandler x s1 with
      | ok u s2 => exact absurd hr2 (feedHandler_not_ok x s1 u s2)
      | err y s2 =>
        rw [hr2] at hh
        have h1 : tryC (feedBody data) feedHandler s = .err y s2 := by rw [tryC_err hr]; exact hr2
        obtain ⟨z, hz⟩ := unwrapOuter_err y s2
        rw [tryC_err h1, hz] at hres; subst hres
        exact ⟨hh, fun s' h => by cases h⟩

/-- the loop invariant of `RNext` -/
def IA (s : Sys) : Prop := InvL s ∧ RNext s.trace ∧ (rejLast s.trace = true → s.closed = true)

theorem onEof_h (s : Sys) (h : IA s) : RNext (onEof s).state.trace ∧ ∀ b s', onEof s = .ok b s' → IA s' := by
  unfold onEof
  split
  · exact ⟨h.2.1, fun b s' hh => by cases hh⟩
  · exact ⟨h.2.1, fun b s' hh => by cases hh; exact h⟩

theorem recvStep_h (o : RecvOutcome) (s : Sys) (h : IA s) :
    RNext (recvStep o s).state.trace ∧ ∀ b s', recvStep o s = .ok b s' → IA s' := by
  unfold recvStep
  split
  · exact onEof_h s h
  · split
    · exact ⟨h.2.1, fun b s' hh => by cases hh⟩
    · exact ⟨h.2.1, fun b s' hh => by cases hh⟩
    · exact onEof_h s h
    · rename_i bs
      split
      · exact onEof_h s h
      · obtain ⟨w1, w2⟩ := wsFeed_h bs s h.1 h.2.1 h.2.2
        have wm := wsFeed_spec bs s h.1
        split
        · rename_i u s1 hr
          rw [hr] at w1 wm
          exact ⟨w1, fun b s' hh => by cases hh; exact ⟨wm, w1, w2 s1 hr⟩⟩
        · rename_i x s1 hr
          rw [hr] at w1
          exact ⟨w1, fun b s' hh => by cases hh⟩

theorem regular_h (s : Sys) (h : IA s) (hcl : s.closed = false) :
    RNext (regular s).state.trace ∧ ∀ s', regular s = .ok () s' → IA s' := by
  have ha : A s.trace := ⟨h.2.1, by
    cases hh : rejLast s.trace with
    | false => rfl
    | true => rw [h.2.2 hh] at hcl; cases hcl⟩
  have hm := regular_invL s h.1
  rcases h.1 with ⟨h1, h2⟩ | ⟨h1, h2⟩
  · rw [regular_notReady s h1.2.1]
    exact ⟨h.2.1, fun s' hh => by cases hh; exact h⟩
  · have a2 : A (regular s).state.trace := p3_ext h1 ha (step_regular s) (satL_phase hm)
    refine ⟨a2.1, fun s' hh => ?_⟩
    rw [hh] at a2 hm
    have a22 : rejLast s'.trace = false := a2.2
    exact ⟨hm, a2.1, fun hr => by rw [a22] at hr; cases hr⟩

theorem tick_ia (s : Sys) (dt : Nat) (h : IA s) : IA (tick s dt) :=
  ⟨(tick_keeps s dt).invL rfl h.1, (tick_keeps s dt).rnext h.2.1,
    fun hr => h.2.2 ((tick_keeps s dt).rejLast ▸ hr)⟩

/-- **the session loop keeps `RNext`**, for every script -/
theorem loop_h (env : List EnvStep) (s : Sys) (h : IA s) : RNext (loop env s).state.trace := by
  induction env generalizing s with
  | nil => unfold loop; split <;> exact h.2.1
  | cons st rest ih =>
    unfold loop
    split
    · exact h.2.1
    · rename_i hc
      split
      · exact h.2.1
      · rename_i dt readable
        have h0 := tick_ia s dt h
        have hcl : (tick s dt).closed = false := by
          show s.closed = false
          cases hh : s.closed <;> simp_all
        obtain ⟨r1, r2⟩ := regular_h (tick s dt) h0 hcl
        unfold regularTop
        split
        · rename_i x s2 hr; rw [hr] at r1; exact r1
        · rename_i u s2 hr
          have i2 := r2 s2 hr
          split
          · exact ih s2 i2
          · rename_i o
            obtain ⟨q1, q2⟩ := recvStep_h o s2 i2
            split
            · rename_i x s3 hr2; rw [hr2] at q1; exact q1
            · rename_i s3 hr2; exact ih s3 (q2 _ _ hr2)
            · rename_i s3 hr2; rw [hr2] at q1; exact q1

/-! ### `run()` -/

theorem runBodyL_rn (l : M Unit) (s : Sys) (hl : RNext (l s).state.trace) : RNext (runBodyL l s).state.trace := by
  unfold runBodyL
  rcases captured l s with ⟨s1, hloop, hc⟩ | ⟨y, s1, hloop, hc⟩
  · rw [hloop] at hl; rw [bind_ok hc]; exact onLoopEnd_rn _ s1 hl
  · rw [hloop] at hl; rw [bind_ok hc]; exact onLoopEnd_rn _ s1 hl

theorem runLoopL_rn (l : M Unit) (s : Sys) (hl : RNext (l s).state.trace) : RNext (runLoopL l s).state.trace := by
  unfold runLoopL
  have hb := runBodyL_rn l s hl
  cases hr : runBodyL l s with
  | ok u s1 =>
    rw [hr] at hb
    have e : (do runBodyL l; selClose : M Unit) s = .ok () (selClose s1).state := by
      rw [bind_ok hr]; exact selClose_is_ok s1
    rw [tryC_ok e]
    exact (keeps_selClose s1).rnext hb
  | err x s1 =>
    rw [hr] at hb
    rw [tryC_err (bind_err hr)]
    exact (keeps_runFinally x s1).rnext hb

theorem yieldConnected_keeps (proxy : Bool) (s : Sys) : Keeps (Monitor.pushEv (.connected proxy) s) (yieldConnected proxy s).state := by
  have k := yieldEv_keeps (.connected proxy) s
  unfold yieldConnected
  rw [bind_ok (show getS s = .ok s s from rfl)]
  split
  · cases hy : yieldEv (.connected proxy) s with
    | ok u s1 => rw [hy] at k; rw [tryC_ok hy]; exact k
    | err x s1 =>
      rw [hy] at k
      rw [tryC_err hy, bind_ok (closeSocket_is_ok s1)]
      exact keeps_po.trans k (keeps_closeSocket s1)
  · exact k

theorem afterConnectL_rn (l : M Unit) (hl : ∀ s, IA s → RNext (l s).state.trace) (proxy sel : Bool) (s : Sys)
    (hp : phaseOf s.trace = some .connecting) (hf : Fresh s) (hn : NoInc s) (hi : HI s) (ha : A s.trace) :
    RNext (afterConnectL l proxy sel s).state.trace := by
  unfold afterConnectL
  rw [modS_bind, bind_ok (show getS { s with sockOpen := true } = .ok _ _ from rfl)]
  obtain ⟨r, s1, hw⟩ := write_ok s.cfg.request none { s with sockOpen := true }
  have k1 := (keeps_write _ _).ok hw
  have hp1 : phaseOf s1.trace = some .connecting := k1.phase.trans hp
  have hk1 : SockInv s1 := k1.sockInv ⟨fun h => (by cases h), hn, hi⟩
  have hf1 : Fresh s1 := ⟨k1.ready.trans hf.ready, k1.cont.trans hf.cont⟩
  have ha1 : A s1.trace := k1.a (show A ({ s with sockOpen := true } : Sys).trace from ha)
  rw [bind_ok hw]
  split
  · rw [bind_ok (closeSocket_is_ok s1)]
    exact (yieldEv_a _ rfl _ ((keeps_closeSocket s1).a ha1)).1
  · have hy := yieldConnected_spec (P := fun _ => True) proxy s1 hp1 hf1 hk1
    have kc := yieldConnected_keeps proxy s1
    have ac : A (yieldConnected proxy s1).state.trace :=
      kc.a (A_append [.ev (.connected proxy)] s1.trace (fun o ho e he => by
        rw [List.mem_singleton] at ho; subst ho; cases he; rfl) ha1)
    cases hr : yieldConnected proxy s1 with
    | err x s2 => rw [hr] at ac; rw [bind_err hr]; exact ac.1
    | ok u s2 =>
      rw [hr] at hy ac; rw [bind_ok hr, modS_bind]
      have ac2 : rejLast s2.trace = false := ac.2
      have hi2 : IA { s2 with selOpen := sel } :=
        ⟨Or.inl ⟨hy.1, fun _ => hy.2⟩, ac.1, fun hr => by
          change rejLast s2.trace = true at hr
          rw [ac2] at hr; cases hr⟩
      exact runLoopL_rn l _ (hl _ hi2)

theorem runL_rn (l : M Unit) (hl : ∀ s, IA s → RNext (l s).state.trace) (s : Sys) (ht : s.trace = [])
    (hh : s.hist = []) (hf : Fresh s) : RNext (runL l s).state.trace := by
  have k := yieldEv_keeps .connecting s
  have a0 : A (Monitor.pushEv .connecting s).trace := by
    show A (.ev .connecting :: s.trace)
    rw [ht]; exact ⟨⟨fun _ _ hr => (by cases hr), trivial⟩, rfl⟩
  have hp0 : phaseOf (Monitor.pushEv .connecting s).trace = some .connecting := by
    rw [phaseOf_pushEv, ht]; rfl
  have hn0 : NoInc (Monitor.pushEv .connecting s) := noInc_pushEv _ s (by intro h; rw [ht] at h; cases h)
  have hi0 : HI (Monitor.pushEv .connecting s) := hi_pushEv _ s (by unfold HI; rw [ht, hh]; rfl)
  unfold runL
  cases hr : yieldEv .connecting s with
  | err x s1 => rw [hr] at k; rw [bind_err hr]; exact (k.a a0).1
  | ok u s1 =>
    rw [hr] at k
    have a1 := k.a a0
    rw [bind_ok hr, bind_ok (show getS s1 = .ok s1 s1 from rfl)]
    have hp1 : phaseOf s1.trace = some .connecting := k.phase.trans hp0
    have hf1 : Fresh s1 := ⟨k.ready.trans hf.ready, k.cont.trans hf.cont⟩
    cases hc : s1.cfg.connect with
    | socketFail => exact (yieldEv_a _ rfl _ a1).1
    | otherFail => exact (yieldEv_a _ rfl _ a1).1
    | ok proxy => exact afterConnectL_rn l hl proxy true s1 hp1 hf1 (k.noInc hn0) (k.hi hi0) a1
    | selFail proxy =>
      exact afterConnectL_rn (throwE (.other "error")) (fun s hs => hs.2.1) proxy false s1 hp1 hf1 (k.noInc hn0) (k.hi hi0) a1

/-- **`RNext` holds for the trace of every connection** -/
theorem rnext_runAll (cfg : Cfg) (react : React) (env : List EnvStep) : RNext (runAll cfg react env).trace := by
  have h : RNext (run (initSys cfg react env)).state.trace := by
    rw [run_eq_runL]
    exact runL_rn (loop env) (loop_h env) (initSys cfg react env) rfl rfl ⟨rfl, rfl⟩
  rcases runAll_cases cfg react env with ⟨s, hr, e⟩ | ⟨s, hr, _, k⟩ | ⟨s, hr, e⟩
  · rw [hr] at h; rw [e]; exact h
  · rw [hr] at h; exact k.rnext h
  · rw [hr] at h; rw [e]
    exact rnext_append_nonEv [.incomplete] s.trace (fun o ho => by rw [List.mem_singleton] at ho; subst ho; rfl) h

/-- **the stricter monitor accepts the events of every connection**; its phase is `Mon`'s, refined by
    whether the newest event is `Rejected` -/
theorem runAll_accepted' (cfg : Cfg) (react : React) (env : List EnvStep) :
    ∃ p, Mon.run .start (events (runAll cfg react env).trace) = some p ∧
      Mon'.run .start (events (runAll cfg react env).trace) = some (lift p (rejLast (runAll cfg react env).trace)) := by
  obtain ⟨p, hp⟩ := runAll_accepted cfg react env
  refine ⟨p, hp, ?_⟩
  rw [← phaseOf'_eq_run]
  rw [← phaseOf_eq_run] at hp
  exact phaseOf'_of _ p hp (rnext_runAll cfg react env)

end Lomond.Core.MonitorGen
