/-
  Helper lemmas for C14 (automatic Pongs): what `_on_event` does for a received Ping in every
  state, and where the event is handed to the application relative to that write.
-/
import Lomond.Proofs.Step
import Lomond.Proofs.Release
import Lomond.Proofs.Lift
set_option linter.unusedSimpArgs false
set_option linter.unusedVariables false
namespace Lomond.Core.Pong
open Lomond Lomond.Core Lomond.Core.Lift

/-! ### generic: where the final state of a composed computation sits -/

theorem bind_state_step {m : M α} {k : α → M β} (hk : ∀ a, Spec Step (k a)) (s : Sys) :
    Step (m s).state ((m >>= k) s).state := by
  cases hm : m s with
  | ok a s1 => rw [bind_ok hm]; exact hk a s1
  | err x s1 => rw [bind_err hm]; exact step_po.refl _

theorem tryC_state_step {m : M α} {h : Exn → M α} (hh : ∀ x, Spec Step (h x)) (s : Sys) :
    Step (m s).state (tryC m h s).state := by
  cases hm : m s with
  | ok a s1 => rw [tryC_ok hm]; exact step_po.refl _
  | err x s1 => rw [tryC_err hm]; exact hh x s1

/-- the state in which the application sees event `e`: the event is on the trace and in the history -/
def pushEv (e : Event) (s : Sys) : Sys := { s with trace := .ev e :: s.trace, hist := e :: s.hist }

theorem yieldEv_eq (e : Event) (s : Sys) :
    yieldEv e s = doActs ((pushEv e s).react (pushEv e s).hist) (pushEv e s) := rfl

theorem yieldEv_step_from_push (e : Event) (s : Sys) : Step (pushEv e s) (yieldEv e s).state := by
  rw [yieldEv_eq]; exact step_doActs _ _

theorem step_feedYield_handler (inTry : Bool) (x : Exn) :
    Spec Step (do (if inTry then onDisconnect else pure ()); throwE (.outer x) : M Unit) := by
  apply spec_bind step_po
  · split
    · exact step_onDisconnect
    · exact spec_pure step_po _
  · intro _; exact spec_throwE step_po _

/-- after `_on_event` returned normally in state `s1`, everything else `feedYield` does (the
    application's reaction, `_regular`, generator finalisation) happens after the event was put
    in front of the application in state `pushEv e s1` -/
theorem feedYield_step_from_push (inTry : Bool) (e : Event) (s s1 : Sys)
    (h : onEvent e s = .ok () s1) : Step (pushEv e s1) (feedYield inTry e s).state := by
  unfold feedYield
  refine step_po.trans ?_ (tryC_state_step (step_feedYield_handler inTry) s)
  rw [bind_ok h]
  exact step_po.trans (yieldEv_step_from_push e s1) (bind_state_step (fun _ => step_regular) s1)

theorem feedYield_trace (inTry : Bool) (e : Event) (s s1 : Sys) (h : onEvent e s = .ok () s1) :
    ∃ l, (feedYield inTry e s).state.trace = l ++ .ev e :: s1.trace :=
  (feedYield_step_from_push inTry e s s1 h).traceExt

/-- if `_on_event` raises, the event is *not* handed to the application -/
theorem feedYield_onEvent_err (inTry : Bool) (e : Event) (s s1 : Sys) (x : Exn)
    (h : onEvent e s = .err x s1) :
    feedYield inTry e s =
      (do (if inTry then onDisconnect else pure ()); throwE (.outer x) : M Unit) s1 := by
  unfold feedYield
  rw [tryC_err (bind_err h)]

/-! ### the automatic Pong -/

/-- the bytes of the masked Pong frame for a payload of at most 125 bytes -/
def pongBytes (d key : Bytes) : Bytes := [138, 128 + d.length] ++ key ++ maskPayload key d

theorem build_pong (d key : Bytes) (h : d.length ≤ 125) :
    Frame.build Gen.opPong d key = some (pongBytes d key) := by
  have h1 : d.length < 126 := by omega
  simp [Frame.build, buildHeader, byte0, Gen.opPong, pongBytes, h1]

/-- state after the library wrote the Pong: one masking key drawn, one `sendall`, one `.wr` -/
def pongSent (s : Sys) (b : Bytes) : Sys :=
  { s with keyCtr := s.keyCtr + 1, writeCtr := s.writeCtr + 1, trace := .wr b :: s.trace }

/-- state after the Pong's `sendall` raised: the failure is on the trace, nothing was written -/
def pongFailed (s : Sys) (b : Bytes) : Sys :=
  { s with keyCtr := s.keyCtr + 1, writeCtr := s.writeCtr + 1, trace := .wrFail b :: s.trace }

/-- state after `send_pong` found the connection unusable: only a masking key was drawn -/
def pongSkipped (s : Sys) : Sys := { s with keyCtr := s.keyCtr + 1 }

theorem onEvent_ping_sent (d : Bytes) (s : Sys) (hap : s.cfg.autoPong = true) (hlen : d.length ≤ 125)
    (hso : s.sockOpen = true) (hcg : s.closing = false) (hcd : s.closed = false)
    (hw : s.cfg.writeFails s.writeCtr = false) :
    onEvent (.ping d) s = .ok () (pongSent s (pongBytes d (s.cfg.maskKey s.keyCtr))) := by
  have h1 : ¬ d.length > 125 := by omega
  simp [onEvent, hap, h1, sendFrame, build_pong d _ hlen, write, hso, hcg, hcd, hw, pongSent]

theorem onEvent_ping_failed (d : Bytes) (s : Sys) (hap : s.cfg.autoPong = true) (hlen : d.length ≤ 125)
    (hso : s.sockOpen = true) (hcg : s.closing = false) (hcd : s.closed = false)
    (hw : s.cfg.writeFails s.writeCtr = true) :
    onEvent (.ping d) s = .ok () (pongFailed s (pongBytes d (s.cfg.maskKey s.keyCtr))) := by
  have h1 : ¬ d.length > 125 := by omega
  simp [onEvent, hap, h1, sendFrame, build_pong d _ hlen, write, hso, hcg, hcd, hw, pongFailed]

theorem onEvent_ping_skipped (d : Bytes) (s : Sys) (hap : s.cfg.autoPong = true) (hlen : d.length ≤ 125)
    (hun : s.sockOpen = false ∨ s.closing = true ∨ s.closed = true) :
    onEvent (.ping d) s = .ok () (pongSkipped s) := by
  have h1 : ¬ d.length > 125 := by omega
  simp only [onEvent, hap, h1, if_true, if_false, sendFrame, build_pong d _ hlen, write, pongSkipped]
  rcases hun with h | h | h
  · simp [h]
  · by_cases a : s.sockOpen = true <;> by_cases b : s.closed = true <;> simp [a, b, h]
  · by_cases a : s.sockOpen = true <;> simp [a, h]

theorem onEvent_ping_disabled (d : Bytes) (s : Sys) (hap : s.cfg.autoPong = false) :
    onEvent (.ping d) s = .ok () s := by
  simp [onEvent, hap]

theorem onEvent_ping_oversize (d : Bytes) (s : Sys) (hap : s.cfg.autoPong = true) (hlen : d.length > 125) :
    onEvent (.ping d) s = .err (.other "error") s := by
  simp [onEvent, hap, hlen]


/-! ### every Pong frame on the wire is accounted for -/

/-- first byte of a frame built with FIN=1, RSV=0 -/
theorem build_head (op : Nat) (pl key b : Bytes) (h : Frame.build op pl key = some b) :
    b.head? = some (128 + op) := by
  simp only [Frame.build, buildHeader, byte0] at h
  split at h
  · simp at h; subst h; simp
  · split at h
    · simp at h; subst h; simp
    · split at h
      · simp at h; subst h; simp
      · simp at h

/-- **Every Pong frame in the trace (newest first) is accounted for**: a `.wr b` whose first byte
    is `0x8A` (FIN + opcode Pong) is immediately followed either by the result token `.res _` of the
    application call that wrote it, or by the event `Ping d` with `b` the Pong frame built for that
    very payload `d` — the latter only when automatic pongs are enabled (`auto`).  In particular
    the newest entry is never an unaccounted Pong. -/
def PongsAccounted (auto : Bool) (tr : List Obs) : Prop :=
  ∀ pre b post, tr = pre ++ .wr b :: post → b.head? = some (128 + Gen.opPong) →
    (∃ pre' r, pre = pre' ++ [.res r]) ∨
    (auto = true ∧ ∃ pre' d key, pre = pre' ++ [.ev (.ping d)] ∧ Frame.build Gen.opPong d key = some b)

theorem acc_nil (auto : Bool) : PongsAccounted auto [] := by
  intro pre b post h; cases pre <;> cases h

theorem acc_cons {auto : Bool} {t : List Obs} (o : Obs) (h : PongsAccounted auto t)
    (ho : ∀ b, o = .wr b → b.head? ≠ some (128 + Gen.opPong)) : PongsAccounted auto (o :: t) := by
  intro pre b post e hb
  cases pre with
  | nil => simp only [List.nil_append, List.cons.injEq] at e; exact absurd hb (ho b e.1)
  | cons x pre'' =>
    simp only [List.cons_append, List.cons.injEq] at e
    rcases h pre'' b post e.2 hb with ⟨p, r, hp⟩ | ⟨ha, p, d, key, hp, hk⟩
    · exact Or.inl ⟨x :: p, r, by rw [hp]; rfl⟩
    · exact Or.inr ⟨ha, x :: p, d, key, by rw [hp]; rfl, hk⟩

/-- an application call's write followed by its result token -/
theorem acc_res_wr {auto : Bool} {t : List Obs} (r : ActRes) (b0 : Bytes) (h : PongsAccounted auto t) :
    PongsAccounted auto (.res r :: .wr b0 :: t) := by
  intro pre b post e hb
  cases pre with
  | nil => simp at e
  | cons x pre1 =>
    simp only [List.cons_append, List.cons.injEq] at e
    cases pre1 with
    | nil => exact Or.inl ⟨[], r, by rw [e.1]; rfl⟩
    | cons y pre2 =>
      simp only [List.cons_append, List.cons.injEq] at e
      rcases h pre2 b post e.2.2 hb with ⟨p, r', hp⟩ | ⟨ha, p, d, key, hp, hk⟩
      · exact Or.inl ⟨x :: y :: p, r', by rw [hp]; rfl⟩
      · exact Or.inr ⟨ha, x :: y :: p, d, key, by rw [hp]; rfl, hk⟩

/-- the library's Pong followed by the Ping event it answers -/
theorem acc_ping_pong {t : List Obs} (d key b0 : Bytes) (h : PongsAccounted true t)
    (hk : Frame.build Gen.opPong d key = some b0) :
    PongsAccounted true (.ev (.ping d) :: .wr b0 :: t) := by
  intro pre b post e hb
  cases pre with
  | nil => simp at e
  | cons x pre1 =>
    simp only [List.cons_append, List.cons.injEq] at e
    cases pre1 with
    | nil =>
      simp only [List.nil_append, List.cons.injEq, Obs.wr.injEq] at e
      exact Or.inr ⟨rfl, [], d, key, by rw [e.1]; rfl, by rw [← e.2.1]; exact hk⟩
    | cons y pre2 =>
      simp only [List.cons_append, List.cons.injEq] at e
      rcases h pre2 b post e.2.2 hb with ⟨p, r', hp⟩ | ⟨ha, p, d', key', hp, hk'⟩
      · exact Or.inl ⟨x :: y :: p, r', by rw [hp]; rfl⟩
      · exact Or.inr ⟨ha, x :: y :: p, d', key', by rw [hp]; rfl, hk'⟩

/-- anything followed by a result token is accounted for -/
theorem acc_res_any {auto : Bool} {t : List Obs} (r : ActRes) (o : Obs) (h : PongsAccounted auto t) :
    PongsAccounted auto (.res r :: o :: t) := by
  cases o with
  | wr b => exact acc_res_wr r b h
  | _ => exact acc_cons _ (acc_cons _ h (by intro b e; cases e)) (by intro b e; cases e)

/-- the invariant as a relation between start and final state -/
def PongInv (s : Sys) : Prop := PongsAccounted s.cfg.autoPong s.trace

def RP (s s' : Sys) : Prop := PongInv s → PongInv s'

theorem rp_po : PO RP where
  refl s := id
  trans h1 h2 := fun h => h2 (h1 h)

theorem rp_of_trace_eq {s s' : Sys} (h : s'.trace = s.trace) (hc : s'.cfg = s.cfg) : RP s s' := by
  intro h0; unfold PongInv; rw [h, hc]; exact h0


/-! ### trace effect of the write path -/

/-- `session.send` never raises in the model (outcomes are values) and adds at most one entry to
    the trace; if that entry is a `.wr b`, `b` is the frame built for this opcode and payload -/
theorem sendFrame_trace (op : Nat) (pl : Bytes) (c : Option Bytes) (s : Sys) :
    ∃ r s', sendFrame op pl c s = .ok r s' ∧ s'.cfg = s.cfg ∧
      (s'.trace = s.trace ∨ ∃ o, s'.trace = o :: s.trace ∧
        ∀ b, o = .wr b → Frame.build op pl (s.cfg.maskKey s.keyCtr) = some b) := by
  unfold sendFrame write
  simp only []
  splits
  all_goals first
    | exact ⟨_, _, rfl, rfl, Or.inl rfl⟩
    | (refine ⟨_, _, rfl, rfl, Or.inr ⟨_, rfl, ?_⟩⟩; intro b e; cases e <;> assumption)

theorem sendFrame_ok_trace {op : Nat} {pl : Bytes} {c : Option Bytes} {s s' : Sys} {a : ActRes}
    (h : sendFrame op pl c s = .ok a s') :
    s'.cfg = s.cfg ∧ (s'.trace = s.trace ∨ ∃ o, s'.trace = o :: s.trace ∧
        ∀ b, o = .wr b → Frame.build op pl (s.cfg.maskKey s.keyCtr) = some b) := by
  obtain ⟨r, s1, h1, hc, ht⟩ := sendFrame_trace op pl c s
  rw [h1] at h; cases h; exact ⟨hc, ht⟩

theorem sendFrame_no_err {op : Nat} {pl : Bytes} {c : Option Bytes} {s s' : Sys} {x : Exn}
    (h : sendFrame op pl c s = .err x s') : False := by
  obtain ⟨r, s1, h1, _⟩ := sendFrame_trace op pl c s
  rw [h1] at h; cases h

/-- `WebSocket.close()` never raises in the model and adds at most one entry to the trace; a
    `.wr` it adds is a Close frame -/
theorem wsClose_trace (code : Option Nat) (reason : Arg) (s : Sys) :
    ∃ r s', wsClose code reason s = .ok r s' ∧ s'.cfg = s.cfg ∧
      (s'.trace = s.trace ∨ ∃ o, s'.trace = o :: s.trace ∧
        ∀ b, o = .wr b → b.head? = some (128 + Gen.opClose)) := by
  unfold wsClose
  splits
  all_goals first
    | exact ⟨_, _, rfl, rfl, Or.inl rfl⟩
    | (rename_i heq
       obtain ⟨hc, ht⟩ := sendFrame_ok_trace heq
       refine ⟨_, _, rfl, hc, ?_⟩
       rcases ht with ht | ⟨o, ht, hb⟩
       · exact Or.inl ht
       · exact Or.inr ⟨o, ht, fun b e => build_head _ _ _ _ (hb b e)⟩)
    | (rename_i heq; exact (sendFrame_no_err heq).elim)

/-- a computation that never raises, keeps the configuration and adds at most one trace entry -/
def TraceLe1 (m : M ActRes) : Prop :=
  ∀ s, ∃ r s', m s = .ok r s' ∧ s'.cfg = s.cfg ∧ (s'.trace = s.trace ∨ ∃ o, s'.trace = o :: s.trace)

theorem tl1_pure (r : ActRes) : TraceLe1 (pure r) := fun s => ⟨r, s, rfl, rfl, Or.inl rfl⟩

theorem tl1_sendFrame (op : Nat) (pl : Bytes) (c : Option Bytes) : TraceLe1 (sendFrame op pl c) := by
  intro s
  obtain ⟨r, s1, h1, hc, ht⟩ := sendFrame_trace op pl c s
  refine ⟨r, s1, h1, hc, ?_⟩
  rcases ht with ht | ⟨o, ht, _⟩
  · exact Or.inl ht
  · exact Or.inr ⟨o, ht⟩

theorem tl1_sendData (op : Nat) (pl : Bytes) (c : Bool) : TraceLe1 (sendData op pl c) := by
  intro s; unfold sendData; split <;> exact tl1_sendFrame _ _ _ s

theorem tl1_wsClose (code : Option Nat) (reason : Arg) : TraceLe1 (wsClose code reason) := by
  intro s
  obtain ⟨r, s1, h1, hc, ht⟩ := wsClose_trace code reason s
  refine ⟨r, s1, h1, hc, ?_⟩
  rcases ht with ht | ⟨o, ht, _⟩
  · exact Or.inl ht
  · exact Or.inr ⟨o, ht⟩

theorem tl1_sessionClose : TraceLe1 (do closeSocket; pure ActRes.ok) := by
  intro s
  show ∃ r s', (closeSocket >>= fun _ => (pure ActRes.ok : M ActRes)) s = .ok r s' ∧ _
  unfold closeSocket
  by_cases h : s.sockOpen = true
  · exact ⟨.ok, { s with sockOpen := false, trace := .sockClose :: s.trace },
      by rw [bind_ok (by simp only [h, if_true]; rfl)]; rfl, rfl, Or.inr ⟨_, rfl⟩⟩
  · exact ⟨.ok, s, by rw [bind_ok (by simp only [h]; rfl)]; rfl, rfl, Or.inl rfl⟩

theorem tl1_ite (c : Prop) [Decidable c] {m k : M ActRes} (hm : TraceLe1 m) (hk : TraceLe1 k) :
    TraceLe1 (if c then m else k) := by
  split <;> assumption

theorem pongInv_of {s s' : Sys} (hc : s'.cfg = s.cfg) (ht : PongsAccounted s.cfg.autoPong s'.trace) :
    PongInv s' := by
  unfold PongInv; rw [hc]; exact ht

/-- the application's call and its result token -/
theorem rp_logRes {m : M ActRes} (hm : TraceLe1 m) : Spec RP (logRes m) := by
  intro s hacc
  obtain ⟨r, s1, h1, hc, ht⟩ := hm s
  have e : logRes m s = .ok () { s1 with trace := .res r :: s1.trace } := by
    unfold logRes; rw [bind_ok h1]; rfl
  rw [e]
  simp only [Res.state_ok]
  refine pongInv_of (s := s) hc ?_
  show PongsAccounted s.cfg.autoPong (.res r :: s1.trace)
  rcases ht with ht | ⟨o, ht⟩
  · rw [ht]; exact acc_cons _ hacc (by intro b e; cases e)
  · rw [ht]; exact acc_res_any r o hacc

theorem rp_doAct (a : Act) : Spec RP (doAct a) := by
  unfold doAct
  split
  all_goals first
    | (apply rp_logRes
       first
        | exact tl1_pure _
        | exact tl1_sendData _ _ _
        | exact tl1_wsClose _ _
        | exact tl1_sessionClose
        | exact tl1_ite _ (tl1_pure _) (tl1_sendData _ _ _)
        | exact tl1_ite _ (tl1_pure _) (tl1_sendFrame _ _ _))
    | (intro s; exact rp_of_trace_eq rfl rfl)

theorem rp_doActs (as : List Act) : Spec RP (doActs as) := by
  induction as with
  | nil => exact spec_pure rp_po ()
  | cons a r ih => unfold doActs; exact spec_bind rp_po (rp_doAct a) (fun _ => ih)

/-! ### lifting through `feedYield`, for any relation -/

theorem bind_state_rel {R : Sys → Sys → Prop} (po : PO R) {m : M α} {k : α → M β}
    (hk : ∀ a, Spec R (k a)) (s : Sys) : R (m s).state ((m >>= k) s).state := by
  cases hm : m s with
  | ok a s1 => rw [bind_ok hm]; exact hk a s1
  | err x s1 => rw [bind_err hm]; exact po.refl _

theorem tryC_state_rel {R : Sys → Sys → Prop} (po : PO R) {m : M α} {h : Exn → M α}
    (hh : ∀ x, Spec R (h x)) (s : Sys) : R (m s).state (tryC m h s).state := by
  cases hm : m s with
  | ok a s1 => rw [tryC_ok hm]; exact po.refl _
  | err x s1 => rw [tryC_err hm]; exact hh x s1

theorem feedYield_handler_rel {R : Sys → Sys → Prop} (po : PO R) (hDisc : Spec R onDisconnect)
    (inTry : Bool) (x : Exn) :
    Spec R (do (if inTry then onDisconnect else pure ()); throwE (.outer x) : M Unit) := by
  apply spec_bind po
  · split
    · exact hDisc
    · exact spec_pure po _
  · intro _; exact spec_throwE po _

/-- `feedYield` when `_on_event` returned normally: everything from the moment the application
    sees the event is a composition of application calls, `_regular` and `on_disconnect` -/
theorem feedYield_from_push {R : Sys → Sys → Prop} (po : PO R) (hActs : ∀ as, Spec R (doActs as))
    (hReg : Spec R regular) (hDisc : Spec R onDisconnect)
    (inTry : Bool) (e : Event) (s s1 : Sys) (h : onEvent e s = .ok () s1) :
    R (pushEv e s1) (feedYield inTry e s).state := by
  unfold feedYield
  refine po.trans ?_ (tryC_state_rel po (feedYield_handler_rel po hDisc inTry) s)
  rw [bind_ok h]
  refine po.trans ?_ (bind_state_rel po (fun _ => hReg) s1)
  rw [yieldEv_eq]; exact hActs _ _

/-- `feedYield` when `_on_event` raised -/
theorem feedYield_from_err {R : Sys → Sys → Prop} (po : PO R) (hDisc : Spec R onDisconnect)
    (inTry : Bool) (e : Event) (s s1 : Sys) (x : Exn) (h : onEvent e s = .err x s1) :
    R s1 (feedYield inTry e s).state := by
  rw [feedYield_onEvent_err inTry e s s1 x h]
  exact feedYield_handler_rel po hDisc inTry x s1

/-! ### the Pong invariant through every library step -/

theorem rp_closeSocket : Spec RP closeSocket := by
  intro s; unfold closeSocket
  split
  · intro h; exact pongInv_of (s := s) rfl (acc_cons _ h (by intro b e; cases e))
  · exact id

theorem rp_onDisconnect : Spec RP onDisconnect := by
  unfold onDisconnect
  apply spec_bind rp_po rp_closeSocket
  intro _; apply spec_modS; intro s; exact rp_of_trace_eq rfl rfl

theorem rp_sendFrame (op : Nat) (pl : Bytes) (c : Option Bytes) (hop : op ≠ Gen.opPong) :
    Spec RP (sendFrame op pl c) := by
  intro s hacc
  obtain ⟨r, s1, h1, hc, ht⟩ := sendFrame_trace op pl c s
  rw [h1]; simp only [Res.state_ok]
  refine pongInv_of (s := s) hc ?_
  rcases ht with ht | ⟨o, ht, hb⟩
  · rw [ht]; exact hacc
  · rw [ht]
    refine acc_cons _ hacc ?_
    intro b e hh
    have := build_head _ _ _ _ (hb b e)
    rw [this] at hh
    simp only [Option.some.injEq] at hh
    omega

theorem rp_wsClose (code : Option Nat) (reason : Arg) : Spec RP (wsClose code reason) := by
  intro s hacc
  obtain ⟨r, s1, h1, hc, ht⟩ := wsClose_trace code reason s
  rw [h1]; simp only [Res.state_ok]
  refine pongInv_of (s := s) hc ?_
  rcases ht with ht | ⟨o, ht, hb⟩
  · rw [ht]; exact hacc
  · rw [ht]
    refine acc_cons _ hacc ?_
    intro b e hh
    rw [hb b e] at hh
    simp [Gen.opClose, Gen.opPong] at hh

theorem pongInv_pushEv_other (e : Event) (s : Sys) (h : PongInv s) : PongInv (pushEv e s) :=
  pongInv_of (s := s) rfl (acc_cons _ h (by intro b h; cases h))

theorem rp_yieldEv (e : Event) : Spec RP (yieldEv e) := by
  intro s hacc
  rw [yieldEv_eq]
  exact rp_doActs _ _ (pongInv_pushEv_other e s hacc)

theorem rp_checkPoll : Spec RP checkPoll := by
  unfold checkPoll
  refine spec_getS_bind rp_po (fun s => ?_)
  simp only []
  splits
  all_goals first
    | exact spec_pure rp_po _
    | (refine spec_bind rp_po (spec_modS ?_) (fun _ => rp_yieldEv _); intro s; exact rp_of_trace_eq rfl rfl)

theorem rp_checkAutoPing : Spec RP checkAutoPing := by
  unfold checkAutoPing
  refine spec_getS_bind rp_po (fun s => ?_)
  simp only []
  split
  · refine spec_bind rp_po (spec_modS ?_) (fun _ =>
      spec_bind rp_po (rp_sendFrame _ _ _ (by decide)) (fun _ => spec_pure rp_po _))
    intro s; exact rp_of_trace_eq rfl rfl
  · exact spec_pure rp_po _

theorem rp_checkPingTimeout : Spec RP checkPingTimeout := by
  unfold checkPingTimeout
  refine spec_getS_bind rp_po (fun s => ?_)
  simp only []
  split
  · exact spec_bind rp_po (rp_yieldEv _) (fun _ => spec_throwE rp_po _)
  · exact spec_pure rp_po _

theorem rp_checkCloseTimeout : Spec RP checkCloseTimeout := by
  unfold checkCloseTimeout
  refine spec_getS_bind rp_po (fun s => ?_)
  simp only []
  splits
  all_goals first | exact spec_pure rp_po _ | exact spec_throwE rp_po _

theorem rp_regular : Spec RP regular := by
  unfold regular
  apply spec_bind rp_po (spec_getS rp_po); intro s
  split
  · exact spec_bind rp_po rp_checkPoll (fun _ => spec_bind rp_po rp_checkAutoPing
      (fun _ => spec_bind rp_po rp_checkPingTimeout (fun _ => rp_checkCloseTimeout)))
  · exact spec_pure rp_po _

/-- `_on_event` raising leaves trace and configuration alone -/
theorem onEvent_err_trace {e : Event} {s s1 : Sys} {x : Exn} (h : onEvent e s = .err x s1) :
    s1 = s := by
  cases e with
  | ping d =>
    simp only [onEvent] at h
    split at h
    · split at h
      · cases h; rfl
      · split at h
        · cases h
        · rename_i heq; exact (sendFrame_no_err heq).elim
    · cases h
  | _ => simp only [onEvent] at h; cases h

/-- `_on_event` followed by handing the event to the application keeps every Pong accounted for:
    the only library write that is a Pong is the one for this very Ping event, and it exists only
    when automatic pongs are enabled -/
theorem onEvent_push_acc {e : Event} {s s1 : Sys} (h : onEvent e s = .ok () s1)
    (hacc : PongInv s) : PongInv (pushEv e s1) := by
  cases e with
  | ping d =>
    simp only [onEvent] at h
    split at h
    · rename_i hauto
      split at h
      · cases h
      · split at h
        · rename_i heq
          cases h
          obtain ⟨hc, ht⟩ := sendFrame_ok_trace heq
          refine pongInv_of (s := s) hc ?_
          show PongsAccounted s.cfg.autoPong (.ev (.ping d) :: _)
          rcases ht with ht | ⟨o, ht, hb⟩
          · rw [ht]; exact acc_cons _ hacc (by intro b h; cases h)
          · rw [ht]
            cases o with
            | wr b =>
              unfold PongInv at hacc
              rw [hauto] at hacc ⊢
              exact acc_ping_pong _ _ b hacc (hb b rfl)
            | _ => exact acc_cons _ (acc_cons _ hacc (by intro b h; cases h)) (by intro b h; cases h)
        · cases h
    · cases h; exact pongInv_pushEv_other _ _ hacc
  | _ => simp only [onEvent] at h; cases h; exact pongInv_pushEv_other _ _ hacc

theorem rp_feedYield (inTry : Bool) (e : Event) : Spec RP (feedYield inTry e) := by
  intro s hacc
  cases hE : onEvent e s with
  | ok u s1 =>
    exact feedYield_from_push rp_po rp_doActs rp_regular rp_onDisconnect inTry e s s1 hE
      (onEvent_push_acc hE hacc)
  | err x s1 =>
    refine feedYield_from_err rp_po rp_onDisconnect inTry e s s1 x hE ?_
    rw [onEvent_err_trace hE]; exact hacc

theorem rp_leaves : Leaves RP where
  po := rp_po
  inert := fun s s' h => rp_of_trace_eq h.trace h.cfg
  closeSocket := rp_closeSocket
  wsClose := rp_wsClose
  feedYield := fun b e _ => rp_feedYield b e

theorem rp_tick (s : Sys) (dt : Nat) : RP s (tick s dt) := by
  intro h
  refine pongInv_of (s := s) rfl ?_
  unfold tick; simp only []
  split
  · exact acc_cons _ h (by intro b e; cases e)
  · exact h

/-! ### the parser never delivers a control frame longer than 125 bytes (repaired length rule) -/

/-- while a control frame's payload is being read, what was read plus what is awaited is ≤ 125 -/
def CtrlBound (p : PState) : Prop :=
  ∀ f, p.cont = .payload f → f.isControl = true → p.buf.length + p.remPred + 1 ≤ 125

/-- a parser output that is a control frame carries at most 125 bytes -/
def OutBound (o : Option Out) : Prop :=
  ∀ f, o = some (.frame f) → f.isControl = true → f.payload.length ≤ 125

theorem validateFrame_ctrl (v : Variant) (hv : v.ctrlLen = true) (c : Bool) (f : Frame) (len : Nat)
    (h : validateFrame v c f len = .ok ()) : f.isControl = true → len ≤ 125 := by
  intro hc
  unfold validateFrame at h
  repeat' split at h
  all_goals first
    | (cases h <;> done)
    | (rename_i hn; simp only [hv, hc, true_and] at hn; omega)

theorem validateFrame_err (v : Variant) (c : Bool) (f : Frame) (len : Nat) (x : Exn)
    (h : validateFrame v c f len = .error x) : ∃ msg, x = .protocol msg := by
  unfold validateFrame at h
  repeat' split at h
  all_goals first
    | (cases h <;> done)
    | (cases h; exact ⟨_, rfl⟩)

/-- the length rule is applied as soon as the length is known: an oversize control frame is
    rejected by `gotMask`, before a single payload byte is read -/
theorem gotMask_rejects_oversize_control (v : Variant) (hv : v.ctrlLen = true) (p : PState)
    (b0 len : Nat) (key : Option Bytes) (hop : b0 % 16 ≥ 8) (hlen : len > 125) :
    ∃ msg, gotMask v p b0 len key = .error (.protocol msg) := by
  unfold gotMask
  simp only []
  split
  · rename_i x hx
    obtain ⟨msg, rfl⟩ := validateFrame_err _ _ _ _ _ hx
    exact ⟨msg, rfl⟩
  · rename_i hx
    have := validateFrame_ctrl v hv _ _ _ hx (by simp [Frame.isControl]; exact hop)
    omega

theorem frameDone_ctrl (v : Variant) (p : PState) (f : Frame) (r : PState × Option Out)
    (h : frameDone v p f = .ok r) (hf : f.isControl = true → f.payload.length ≤ 125) :
    CtrlBound r.1 ∧ OutBound r.2 := by
  unfold frameDone at h
  split at h
  · cases h
  · cases h
    refine ⟨?_, ?_⟩
    · intro f' hc; simp at hc
    · intro f' hc; simp only [Option.some.injEq, Out.frame.injEq] at hc; subst hc; exact hf

theorem gotMask_ctrl (v : Variant) (hv : v.ctrlLen = true) (p : PState) (b0 len : Nat)
    (key : Option Bytes) (r : PState × Option Out) (h : gotMask v p b0 len key = .ok r) :
    CtrlBound r.1 ∧ OutBound r.2 := by
  unfold gotMask at h
  simp only [] at h
  split at h
  · cases h
  · rename_i hval
    have hb := validateFrame_ctrl v hv _ _ _ hval
    split at h
    · cases h
      refine ⟨?_, ?_⟩
      · intro f' hc hctl
        simp only [Cont.payload.injEq] at hc
        subst hc
        have := hb hctl
        simp only [List.length_nil]
        omega
      · intro f' hc; cases hc
    · exact frameDone_ctrl _ _ _ _ h (by intro _; simp)

theorem gotLength_ctrl (v : Variant) (hv : v.ctrlLen = true) (p : PState) (b0 : Nat) (m : Bool)
    (len : Nat) (r : PState × Option Out) (h : gotLength v p b0 m len = .ok r) :
    CtrlBound r.1 ∧ OutBound r.2 := by
  unfold gotLength at h
  split at h
  · cases h
  · split at h
    · cases h
      exact ⟨by intro f hc; simp at hc, by intro f hc; cases hc⟩
    · exact gotMask_ctrl v hv _ _ _ _ _ h

theorem resume_ctrl (v : Variant) (hv : v.ctrlLen = true) (p : PState) (bytes : Bytes)
    (r : PState × Option Out) (h : resume v p bytes = .ok r)
    (hb : ∀ f, p.cont = .payload f → f.isControl = true → bytes.length ≤ 125) :
    CtrlBound r.1 ∧ OutBound r.2 := by
  unfold resume at h
  simp only [] at h
  split at h
  · cases h
    exact ⟨by intro f hc; simp at hc, by intro f hc; cases hc⟩
  · split at h
    · cases h
      exact ⟨by intro f hc; simp at hc, by intro f hc; cases hc⟩
    · split at h
      · cases h
        exact ⟨by intro f hc; simp at hc, by intro f hc; cases hc⟩
      · exact gotLength_ctrl v hv _ _ _ _ _ h
  · exact gotLength_ctrl v hv _ _ _ _ _ h
  · exact gotLength_ctrl v hv _ _ _ _ _ h
  · exact gotMask_ctrl v hv _ _ _ _ _ h
  · rename_i f hcont
    refine frameDone_ctrl _ _ _ _ h ?_
    intro hctl
    exact hb f hcont hctl

/-- one bite of `Parser.feed` keeps the bound and only outputs bounded control frames -/
theorem biteBytes_ctrl (v : Variant) (hv : v.ctrlLen = true) (p : PState) (chunk : Bytes)
    (r : PState × Option Out) (h : biteBytes v p chunk = .ok r)
    (hp : CtrlBound p) (hc : chunk.length ≤ p.remPred + 1) :
    CtrlBound r.1 ∧ OutBound r.2 := by
  rw [biteBytes_eq] at h
  split at h
  · cases h
  · split at h
    · cases h
      refine ⟨?_, by intro f hc; cases hc⟩
      intro f hcont hctl
      have := hp f hcont hctl
      simp only [partialState, List.length_append]
      omega
    · refine resume_ctrl v hv _ _ _ h ?_
      intro f hcont hctl
      have := hp f hcont hctl
      simp only [List.length_append]
      omega

end Lomond.Core.Pong
