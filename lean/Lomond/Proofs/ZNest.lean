/-
  `NZ`: every compressed frame belongs to an application call that returned normally.

  In the trace of the core model a `.wrz op plain` entry (a compressed data frame handed to
  `sendall`, which returned) is always directly followed by `.res .ok`, the recorded outcome of the
  `send_text` / `send_binary` call that wrote it: the library itself never sends compressed
  frames, and nothing happens between `sendall` and the return of the call.  Proved for every
  function of the core model up to the whole of `run()` (in the style of Proofs/Step.lean).
-/
import Lomond.Proofs.KeySched
set_option linter.unusedSimpArgs false
set_option linter.unusedVariables false
namespace Lomond.Core.KS
open Lomond Lomond.ZFrame

/-- a compressed write -/
def isZ : Obs → Bool
  | .wrz _ _ => true
  | _ => false

/-- the entry `o` may stand directly after (= is newer than) the entries `l` -/
def Follows (o : Obs) (l : List Obs) : Prop := ∀ op p l', l = .wrz op p :: l' → o = .res .ok

/-- in `l` (newest first) every compressed write is directly followed by `.res .ok` -/
def Nested : List Obs → Prop
  | [] => True
  | o :: l => Follows o l ∧ Nested l

/-- the newest entry is not a compressed write (the call that made it has returned) -/
def HeadOk (l : List Obs) : Prop := ∀ op p l', l ≠ .wrz op p :: l'

theorem follows_of_headOk (o : Obs) {l : List Obs} (h : HeadOk l) : Follows o l :=
  fun op p l' e => absurd e (h op p l')

theorem nested_append {l1 l2 : List Obs} (h1 : Nested l1) (hh : HeadOk l1) (h2 : Nested l2) :
    Nested (l2 ++ l1) := by
  induction l2 with
  | nil => exact h1
  | cons o l ih =>
    refine ⟨?_, ih h2.2⟩
    cases l with
    | nil => exact follows_of_headOk o hh
    | cons o' l'' =>
      intro op p l' e
      change o' :: (l'' ++ l1) = _ at e
      injection e with e1 e2
      exact h2.1 op p l'' (by rw [e1])

theorem headOk_append {l1 l2 : List Obs} (hh1 : HeadOk l1) (hh2 : HeadOk l2) : HeadOk (l2 ++ l1) := by
  cases l2 with
  | nil => exact hh1
  | cons o l =>
    intro op p l' e
    simp only [List.cons_append, List.cons.injEq] at e
    exact hh2 op p l (by rw [e.1])

theorem nested_noZ (l : List Obs) (h : ∀ o ∈ l, isZ o = false) : Nested l ∧ HeadOk l := by
  induction l with
  | nil => exact ⟨trivial, fun _ _ _ e => by cases e⟩
  | cons o l ih =>
    have hl := ih (fun x hx => h x (List.mem_cons_of_mem _ hx))
    refine ⟨⟨follows_of_headOk o hl.2, hl.1⟩, fun op p l' e => ?_⟩
    have := h o List.mem_cons_self
    simp only [List.cons.injEq] at e
    rw [e.1] at this; cases this

/-- the new entries are well nested and do not end in the middle of a compressed call -/
def NZ (s s' : Sys) : Prop := ∃ l, s'.trace = l ++ s.trace ∧ Nested l ∧ HeadOk l

theorem nz_po : PO NZ where
  refl s := ⟨[], rfl, trivial, fun _ _ _ e => by cases e⟩
  trans := by
    intro a b c ⟨l1, e1, n1, h1⟩ ⟨l2, e2, n2, h2⟩
    exact ⟨l2 ++ l1, by rw [e2, e1, List.append_assoc], nested_append n1 h1 n2, headOk_append h1 h2⟩

/-- a step whose new entries are not compressed writes -/
theorem nz_quiet (s s' : Sys) (l : List Obs) (ht : s'.trace = l ++ s.trace) (hz : ∀ o ∈ l, isZ o = false) :
    NZ s s' := ⟨l, ht, (nested_noZ l hz).1, (nested_noZ l hz).2⟩

/-- leaf tactic: an explicit successor state with at most two new entries, none a compressed write -/
macro "nz_leaf" : tactic =>
  `(tactic| ((try simp only [Res.state_ok, Res.state_err])
             first
              | exact nz_po.refl _
              | exact nz_quiet _ _ [] rfl (by simp)
              | exact nz_quiet _ _ [_] rfl (by simp [isZ])
              | exact nz_quiet _ _ [_, _] rfl (by simp [isZ])))

theorem nz_closeSocket : Spec NZ closeSocket := by
  intro s; unfold closeSocket; splits <;> nz_leaf

/-- `session.send` (uncompressed): what it logs is not a compressed write -/
theorem nz_sendFrame (op : Nat) (pl : Bytes) : Spec NZ (sendFrame op pl none) := by
  intro s
  obtain ⟨r, s', h, -, -, -, -, -, -, hcase⟩ := sendFrame_out op pl none s
  rw [h]
  rcases hcase with ⟨ht, -, -⟩ | ⟨ht, -, -, -⟩ | ⟨-, -, o, ht, bytes, -, ⟨ho, -⟩ | ⟨ho, -⟩⟩
  · exact nz_quiet _ _ [] ht (by simp)
  · exact nz_quiet _ _ [] ht (by simp)
  · subst ho; exact nz_quiet _ _ [_] ht (by simp [isZ])
  · subst ho; exact nz_quiet _ _ [_] ht (by simp [isZ])

theorem nz_write (d : Bytes) : Spec NZ (write d none) := by
  intro s
  obtain ⟨r, s', h, -, -, -, -, -, -, hcase⟩ := write_out d none s
  rw [h]
  rcases hcase with ⟨ht, -, -⟩ | ⟨-, -, ⟨ht, -⟩ | ⟨ht, -⟩⟩
  · exact nz_quiet _ _ [] ht (by simp)
  · exact nz_quiet _ _ [_] ht (by simp [isZ, writeObs])
  · exact nz_quiet _ _ [_] ht (by simp [isZ])

theorem nz_wsClose (code : Option Nat) (reason : Arg) : Spec NZ (wsClose code reason) := by
  intro s; unfold wsClose
  splits
  all_goals first
    | nz_leaf
    | (rename_i h; have := (nz_sendFrame _ _).ok h; exact nz_po.trans this (by nz_leaf))
    | (rename_i h; have := (nz_sendFrame _ _).err h; exact this)

/-- an application call seen as a whole: its result is recorded on top of what it logged, and a
    compressed write is topped by `.res .ok` -/
def SpecZ (m : M ActRes) : Prop :=
  ∀ s, ∃ r s' l, m s = .ok r s' ∧ s'.trace = l ++ s.trace ∧ Nested (.res r :: l) ∧ HeadOk (.res r :: l)

theorem headOk_res (r : ActRes) (l : List Obs) : HeadOk (.res r :: l) := fun _ _ _ e => by cases e

theorem specZ_noZ {m : M ActRes} (h : ∀ s, ∃ r s' l, m s = .ok r s' ∧ s'.trace = l ++ s.trace ∧ ∀ o ∈ l, isZ o = false) :
    SpecZ m := by
  intro s
  obtain ⟨r, s', l, e, ht, hz⟩ := h s
  have := nested_noZ (.res r :: l) (by
    intro o ho
    rcases List.mem_cons.mp ho with rfl | ho
    · rfl
    · exact hz o ho)
  exact ⟨r, s', l, e, ht, this.1, this.2⟩

theorem specZ_pure (r : ActRes) : SpecZ (pure r) :=
  specZ_noZ (fun s => ⟨r, s, [], rfl, rfl, by simp⟩)

theorem specZ_sendFrame (op : Nat) (pl : Bytes) (c : Option Bytes) : SpecZ (sendFrame op pl c) := by
  intro s
  obtain ⟨r, s', h, -, -, -, -, -, -, hcase⟩ := sendFrame_out op pl c s
  have quiet : ∀ l, s'.trace = l ++ s.trace → (∀ o ∈ l, isZ o = false) →
      ∃ r s' l, sendFrame op pl c s = .ok r s' ∧ s'.trace = l ++ s.trace ∧ Nested (.res r :: l) ∧ HeadOk (.res r :: l) := by
    intro l ht hz
    have := nested_noZ (.res r :: l) (by
      intro o ho
      rcases List.mem_cons.mp ho with rfl | ho
      · rfl
      · exact hz o ho)
    exact ⟨r, s', l, h, ht, this.1, this.2⟩
  rcases hcase with ⟨ht, -, -⟩ | ⟨ht, -, -, -⟩ | ⟨-, -, o, ht, hso⟩
  · exact quiet [] ht (by simp)
  · exact quiet [] ht (by simp)
  · cases c with
    | none =>
      obtain ⟨bytes, -, ⟨ho, -⟩ | ⟨ho, -⟩⟩ := hso
      · subst ho; exact quiet [_] ht (by simp [isZ])
      · subst ho; exact quiet [_] ht (by simp [isZ])
    | some plain =>
      rcases hso with ⟨ho, hr⟩ | ⟨ho, -⟩
      · subst ho; subst hr
        refine ⟨.ok, s', [.wrz op plain], h, ht, ⟨?_, follows_of_headOk _ (fun _ _ _ e => by cases e), trivial⟩,
          headOk_res _ _⟩
        intro _ _ _ _; rfl
      · subst ho; exact quiet [_] ht (by simp [isZ])

theorem specZ_sendData (op : Nat) (pl : Bytes) (c : Bool) : SpecZ (sendData op pl c) := by
  intro s; unfold sendData
  split <;> exact specZ_sendFrame _ _ _ s

theorem nz_logRes {m : M ActRes} (h : SpecZ m) : Spec NZ (logRes m) := by
  intro s
  obtain ⟨r, s', l, e, ht, hn, hh⟩ := h s
  rw [logRes_ok_wire e]
  exact ⟨.res r :: l, by simp [resState, ht], hn, hh⟩

theorem wsClose_noZ (code : Option Nat) (reason : Arg) (s : Sys) :
    ∃ r s' l, wsClose code reason s = .ok r s' ∧ s'.trace = l ++ s.trace ∧ ∀ o ∈ l, isZ o = false := by
  have send : ∀ pl, ∃ s1 l, (match sendFrame Gen.opClose pl none s with
        | .ok _ s' => (.ok .ok { s' with closing := true, sentCloseTime := some (sessionTime s') } : Res ActRes)
        | .err x s' => .err x s') = .ok .ok s1 ∧ s1.trace = l ++ s.trace ∧ ∀ o ∈ l, isZ o = false := by
    intro pl
    obtain ⟨r, s', h, -, -, -, -, -, -, hcase⟩ := sendFrame_out Gen.opClose pl none s
    rw [h]
    rcases hcase with ⟨ht, -, -⟩ | ⟨ht, -, -, -⟩ | ⟨-, -, o, ht, bytes, -, ⟨ho, -⟩ | ⟨ho, -⟩⟩
    · exact ⟨_, [], rfl, ht, by simp⟩
    · exact ⟨_, [], rfl, ht, by simp⟩
    · subst ho; exact ⟨_, [_], rfl, ht, by simp [isZ]⟩
    · subst ho; exact ⟨_, [_], rfl, ht, by simp [isZ]⟩
  unfold wsClose
  splits
  all_goals first
    | exact ⟨_, _, [], rfl, rfl, by simp⟩
    | (obtain ⟨s1, l, e, h1, h2⟩ := send _
       try simp only [] at e
       rename_i h
       rw [h] at e
       first
        | (cases e; exact ⟨_, _, l, rfl, h1, h2⟩)
        | (cases e))

theorem specZ_wsClose (code : Option Nat) (reason : Arg) : SpecZ (wsClose code reason) :=
  specZ_noZ (wsClose_noZ code reason)

theorem specZ_sessionClose : SpecZ (do closeSocket; pure ActRes.ok) := by
  apply specZ_noZ
  intro s
  rcases closeSocket_cases s with e | e
  · exact ⟨.ok, _, [.sockClose], by rw [bind_ok e]; rfl, rfl, by simp [isZ]⟩
  · exact ⟨.ok, _, [], by rw [bind_ok e]; rfl, rfl, by simp⟩

theorem nz_doAct (a : Act) : Spec NZ (doAct a) := by
  cases a with
  | sendText arg c =>
    cases arg with
    | str cps =>
      show Spec NZ (logRes (if hasSurrogate cps then pure .valueError else sendData Gen.opText (Utf8.encode cps) c))
      apply nz_logRes
      split
      · exact specZ_pure _
      · exact specZ_sendData _ _ _
    | bytes b => exact nz_logRes (specZ_pure _)
    | other => exact nz_logRes (specZ_pure _)
  | sendBinary arg c =>
    cases arg with
    | bytes b => exact nz_logRes (specZ_sendData _ _ _)
    | str cps => exact nz_logRes (specZ_pure _)
    | other => exact nz_logRes (specZ_pure _)
  | sendPing arg =>
    cases arg with
    | bytes b =>
      show Spec NZ (logRes (if b.length > 125 then pure .valueError else sendFrame Gen.opPing b none))
      apply nz_logRes
      split
      · exact specZ_pure _
      · exact specZ_sendFrame _ _ _
    | str cps => exact nz_logRes (specZ_pure _)
    | other => exact nz_logRes (specZ_pure _)
  | sendPong arg =>
    cases arg with
    | bytes b =>
      show Spec NZ (logRes (if b.length > 125 then pure .valueError else sendFrame Gen.opPong b none))
      apply nz_logRes
      split
      · exact specZ_pure _
      · exact specZ_sendFrame _ _ _
    | str cps => exact nz_logRes (specZ_pure _)
    | other => exact nz_logRes (specZ_pure _)
  | close code reason => exact nz_logRes (specZ_wsClose code reason)
  | sessionClose => exact nz_logRes specZ_sessionClose
  | abandon w => intro s; nz_leaf

theorem nz_doActs (as : List Act) : Spec NZ (doActs as) := by
  induction as with
  | nil => exact spec_pure nz_po ()
  | cons a r ih => unfold doActs; exact spec_bind nz_po (nz_doAct a) (fun _ => ih)

theorem nz_yieldEv (e : Event) : Spec NZ (yieldEv e) := by
  unfold yieldEv
  apply spec_bind nz_po
  · apply spec_modS; intro s; nz_leaf
  · intro _; apply spec_bind nz_po (spec_getS nz_po); intro s; exact nz_doActs _

theorem nz_checkPoll : Spec NZ checkPoll := by
  unfold checkPoll
  refine spec_getS_bind nz_po (fun s => ?_)
  simp only []
  splits
  all_goals first
    | exact spec_pure nz_po _
    | (refine spec_bind nz_po (spec_modS ?_) (fun _ => nz_yieldEv _); intro s; nz_leaf)

theorem nz_checkAutoPing : Spec NZ checkAutoPing := by
  unfold checkAutoPing
  refine spec_getS_bind nz_po (fun s => ?_)
  simp only []
  split
  · refine spec_bind nz_po (spec_modS ?_) (fun _ => spec_bind nz_po (nz_sendFrame _ _) (fun _ => spec_pure nz_po _))
    intro s; nz_leaf
  · exact spec_pure nz_po _

theorem nz_checkPingTimeout : Spec NZ checkPingTimeout := by
  unfold checkPingTimeout
  refine spec_getS_bind nz_po (fun s => ?_)
  simp only []
  split
  · exact spec_bind nz_po (nz_yieldEv _) (fun _ => spec_throwE nz_po _)
  · exact spec_pure nz_po _

theorem nz_checkCloseTimeout : Spec NZ checkCloseTimeout := by
  unfold checkCloseTimeout
  refine spec_getS_bind nz_po (fun s => ?_)
  simp only []
  splits
  all_goals first | exact spec_pure nz_po _ | exact spec_throwE nz_po _

theorem nz_regular : Spec NZ regular := by
  unfold regular
  apply spec_bind nz_po (spec_getS nz_po); intro s
  split
  · exact spec_bind nz_po nz_checkPoll (fun _ => spec_bind nz_po nz_checkAutoPing
      (fun _ => spec_bind nz_po nz_checkPingTimeout (fun _ => nz_checkCloseTimeout)))
  · exact spec_pure nz_po _

theorem nz_onEvent (e : Event) : Spec NZ (onEvent e) := by
  intro s; unfold onEvent
  splits
  all_goals first
    | nz_leaf
    | (rename_i hlen _ _ h
       exact (nz_sendFrame _ _).ok h)
    | (rename_i hlen _ _ h
       exact (nz_sendFrame _ _).err h)

theorem nz_onDisconnect : Spec NZ onDisconnect := by
  unfold onDisconnect
  apply spec_bind nz_po nz_closeSocket
  intro _; apply spec_modS; intro s; nz_leaf

theorem nz_feedYield (b : Bool) (e : Event) : Spec NZ (feedYield b e) := by
  unfold feedYield
  apply spec_tryC nz_po
  · exact spec_bind nz_po (nz_onEvent e) (fun _ => spec_bind nz_po (nz_yieldEv e) (fun _ => nz_regular))
  · intro x
    apply spec_bind nz_po
    · split
      · exact nz_onDisconnect
      · exact spec_pure nz_po _
    · intro _; exact spec_throwE nz_po _

theorem nz_inflateMessage (j : Bytes) : Spec NZ (inflateMessage j) := by
  intro s; unfold inflateMessage; simp only []; splits <;> nz_leaf

theorem nz_buildMessage (fs : List Frame) : Spec NZ (buildMessage fs) := by
  unfold buildMessage
  split
  · exact spec_throwE nz_po _
  · simp only []
    refine spec_getS_bind nz_po (fun s => ?_)
    refine spec_bind nz_po ?_ (fun _ => spec_liftE nz_po _)
    split
    · exact nz_inflateMessage _
    · exact spec_pure nz_po _

theorem nz_checkCloseCode (c : Option Nat) : Spec NZ (checkCloseCode c) := by
  unfold checkCloseCode
  splits <;> first | exact spec_pure nz_po _ | exact spec_throwE nz_po _

theorem nz_raiseIfArgError (r : ActRes) : Spec NZ (raiseIfArgError r) := by
  unfold raiseIfArgError
  split <;> first | exact spec_pure nz_po _ | exact spec_throwE nz_po _

theorem nz_onClose (c : Option Nat) (r : List Nat) : Spec NZ (onClose c r) := by
  unfold onClose
  refine spec_bind nz_po (nz_checkCloseCode c) (fun _ => ?_)
  refine spec_getS_bind nz_po (fun s => ?_)
  split
  · exact spec_pure nz_po _
  · split
    · refine spec_bind nz_po (nz_feedYield _ _) (fun _ => spec_modS ?_); intro s; nz_leaf
    · refine spec_bind nz_po (nz_feedYield _ _) (fun _ => spec_bind nz_po (nz_wsClose _ _) (fun r =>
        spec_bind nz_po (nz_raiseIfArgError r) (fun _ => spec_modS ?_)))
      intro s; nz_leaf

theorem nz_onMessage (m : Msg) : Spec NZ (onMessage m) := by
  unfold onMessage
  split <;> first | exact nz_onClose _ _ | exact nz_feedYield _ _ | exact spec_pure nz_po _

theorem nz_onDataFrame (f : Frame) : Spec NZ (onDataFrame f) := by
  unfold onDataFrame
  refine spec_getS_bind nz_po (fun s => ?_)
  split
  · exact spec_throwE nz_po _
  · split
    · exact spec_throwE nz_po _
    · refine spec_bind nz_po (spec_modS ?_) (fun _ => ?_)
      · intro s; nz_leaf
      · split
        · refine spec_getS_bind nz_po (fun s => spec_bind nz_po (nz_buildMessage _) (fun m =>
            spec_bind nz_po (nz_onMessage m) (fun _ => spec_modS ?_)))
          intro s; nz_leaf
        · exact spec_pure nz_po _

theorem nz_notClosed : Spec NZ notClosed := by
  intro s; unfold notClosed; nz_leaf


theorem nz_onFrame (f : Frame) : Spec NZ (onFrame f) := by
  unfold onFrame
  split
  · exact spec_bind nz_po (nz_buildMessage _) (fun m => nz_onMessage m)
  · exact nz_onDataFrame _

theorem nz_onOut (o : Out) : Spec NZ (onOut o) := by
  unfold onOut
  split
  · refine spec_getS_bind nz_po (fun s => ?_)
    split
    · refine spec_bind nz_po (spec_modS ?_) (fun _ => spec_bind nz_po nz_onDisconnect (fun _ =>
        spec_bind nz_po (nz_feedYield _ _) (fun _ => spec_pure nz_po _)))
      intro s; nz_leaf
    · refine spec_bind nz_po (spec_modS ?_) (fun _ => spec_bind nz_po (nz_feedYield _ _) (fun _ =>
        spec_bind nz_po (spec_modS ?_) (fun _ => nz_notClosed)))
      · intro s; nz_leaf
      · intro s; nz_leaf
  · exact spec_bind nz_po (nz_onFrame _) (fun _ => nz_notClosed)

theorem nz_setP (s : Sys) (p' : PState) : NZ s { s with p := p' } := by nz_leaf

theorem nz_feedLoop (data : Bytes) : Spec NZ (feedLoop data) := by
  induction h : data.length using Nat.strongRecOn generalizing data with
  | _ n ih =>
    intro s
    rw [feedLoop]
    by_cases hd : data = []
    · simp only [hd, dite_true]; nz_leaf
    · simp only [hd, dite_false]
      have hlt : (data.drop (s.p.remPred + 1)).length < n := by
        have : data.length ≠ 0 := fun hl => hd (List.eq_nil_of_length_eq_zero hl)
        simp only [List.length_drop]; omega
      cases hb : biteBytes s.cfg.v s.p (data.take (s.p.remPred + 1)) with
      | error x =>
        simp only [Res.state_err]
        exact nz_setP s _
      | ok r =>
        obtain ⟨p', out⟩ := r
        have hs1 : NZ s { s with p := p' } := nz_setP s p'
        cases out with
        | none =>
          simp only
          exact nz_po.trans hs1 (ih _ hlt _ rfl _)
        | some o =>
          simp only
          have ho := nz_onOut o { s with p := p' }
          cases hr : onOut o { s with p := p' } with
          | err x s2 => rw [hr] at ho; simp only [Res.state_err] at ho ⊢; exact nz_po.trans hs1 ho
          | ok go s2 =>
            rw [hr] at ho; simp only [Res.state_ok] at ho
            cases go with
            | true => simp only; exact nz_po.trans hs1 (nz_po.trans ho (ih _ hlt _ rfl _))
            | false => simp only [Res.state_ok]; exact nz_po.trans hs1 ho


theorem nz_afterHeader (rest : Bytes) (out : Option Out) : Spec NZ (afterHeader rest out) := by
  unfold afterHeader
  split
  · refine spec_bind nz_po (nz_onOut _) (fun go => ?_)
    split
    · exact spec_bind nz_po (nz_feedLoop _) (fun _ => spec_pure nz_po _)
    · exact spec_pure nz_po _
  · exact spec_bind nz_po (nz_feedLoop _) (fun _ => spec_pure nz_po _)

theorem nz_feedHeader (data : Bytes) : Spec NZ (feedHeader data) := by
  intro s; unfold feedHeader; simp only []
  split
  · split
    · nz_leaf
    · simp only [Res.state_ok]; exact nz_setP s _
  · split
    · nz_leaf
    · split
      · nz_leaf
      · rename_i p' out hr
        have h1 : NZ s { s with p := p' } := nz_setP s p'
        exact nz_po.trans h1 (nz_afterHeader _ _ _)

theorem nz_feedBody (data : Bytes) : Spec NZ (feedBody data) := by
  intro s; unfold feedBody
  split
  · exact nz_feedHeader data s
  · have := nz_feedLoop data s
    split <;> (rename_i h; rw [h] at this; simpa using this)

theorem nz_feedHandler (x : Exn) : Spec NZ (feedHandler x) := by
  unfold feedHandler
  split
  · exact spec_bind nz_po (nz_feedYield _ _) (fun _ => spec_throwE nz_po _)
  · exact spec_bind nz_po (nz_feedYield _ _) (fun _ => spec_throwE nz_po _)
  · exact spec_bind nz_po (nz_feedYield _ _) (fun _ => spec_bind nz_po (nz_wsClose _ _) (fun r =>
      spec_bind nz_po (nz_raiseIfArgError r) (fun _ => spec_throwE nz_po _)))
  · exact spec_throwE nz_po _

theorem nz_unwrapOuter (x : Exn) : Spec NZ (unwrapOuter x) := by
  unfold unwrapOuter; split <;> exact spec_throwE nz_po _

theorem nz_wsFeed (data : Bytes) : Spec NZ (wsFeed data) := by
  intro s; unfold wsFeed
  split
  · nz_leaf
  · exact spec_tryC nz_po (spec_tryC nz_po (nz_feedBody data) nz_feedHandler) nz_unwrapOuter s

theorem nz_onEof : Spec NZ onEof := by
  intro s; unfold onEof; split <;> nz_leaf

theorem nz_recvStep (o : RecvOutcome) : Spec NZ (recvStep o) := by
  intro s; unfold recvStep
  split
  · exact nz_onEof s
  · split
    · nz_leaf
    · nz_leaf
    · exact nz_onEof s
    · rename_i bs
      split
      · exact nz_onEof s
      · have := nz_wsFeed bs s
        split <;> (rename_i h; rw [h] at this; simpa using this)

theorem nz_tick (s : Sys) (dt : Nat) : NZ s (tick s dt) := by
  unfold tick
  by_cases h : dt ≠ 0
  · exact nz_quiet _ _ [.tick (s.now + dt)] (by simp [h]) (by simp [isZ])
  · exact nz_quiet _ _ [] (by simp [h]) (by simp)

theorem nz_loop (env : List EnvStep) : Spec NZ (loop env) := by
  induction env with
  | nil => intro s; unfold loop; split <;> nz_leaf
  | cons st rest ih =>
    intro s; unfold loop
    split
    · nz_leaf
    · split
      · nz_leaf
      · rename_i dt readable
        have h0 := nz_tick s dt
        have h1 := nz_regular (tick s dt)
        unfold regularTop
        split
        · rename_i x s2 hr; rw [hr] at h1; exact nz_po.trans h0 h1
        · rename_i u s2 hr; rw [hr] at h1
          simp only [Res.state_ok] at h1
          split
          · exact nz_po.trans h0 (nz_po.trans h1 (ih s2))
          · rename_i o
            have h2 := nz_recvStep o s2
            split
            · rename_i x s3 hr2; rw [hr2] at h2; exact nz_po.trans h0 (nz_po.trans h1 h2)
            · rename_i s3 hr2; rw [hr2] at h2
              exact nz_po.trans h0 (nz_po.trans h1 (nz_po.trans h2 (ih s3)))
            · rename_i s3 hr2; rw [hr2] at h2; exact nz_po.trans h0 (nz_po.trans h1 h2)

theorem nz_selClose : Spec NZ selClose := by
  intro s; unfold selClose; splits <;> nz_leaf

theorem nz_onLoopEnd (r : Option Exn) : Spec NZ (onLoopEnd r) := by
  unfold onLoopEnd
  split
  all_goals first
    | exact spec_bind nz_po nz_closeSocket (fun _ => nz_yieldEv _)
    | exact spec_throwE nz_po _

theorem nz_runBody (env : List EnvStep) : Spec NZ (runBody env) := by
  unfold runBody
  refine spec_bind nz_po ?_ (fun r => nz_onLoopEnd r)
  exact spec_tryC nz_po (spec_bind nz_po (nz_loop env) (fun _ => spec_pure nz_po _))
    (fun x => spec_pure nz_po _)

theorem nz_runFinally (x : Exn) : Spec NZ (runFinally x) := by
  unfold runFinally
  refine spec_getS_bind nz_po (fun s => ?_)
  refine spec_bind nz_po ?_ (fun _ => spec_bind nz_po nz_selClose (fun _ => spec_throwE nz_po _))
  split
  · exact nz_closeSocket
  · exact spec_pure nz_po _

theorem nz_runLoop : Spec NZ runLoop := by
  unfold runLoop
  refine spec_getS_bind nz_po (fun s => ?_)
  exact spec_tryC nz_po (spec_bind nz_po (nz_runBody _) (fun _ => nz_selClose)) nz_runFinally

theorem nz_yieldConnected (proxy : Bool) : Spec NZ (yieldConnected proxy) := by
  unfold yieldConnected
  refine spec_getS_bind nz_po (fun s => ?_)
  split
  · exact spec_tryC nz_po (nz_yieldEv _)
      (fun x => spec_bind nz_po nz_closeSocket (fun _ => spec_throwE nz_po _))
  · exact nz_yieldEv _

theorem nz_runLoopNoSel : Spec NZ runLoopNoSel := by
  unfold runLoopNoSel
  exact spec_tryC nz_po (spec_bind nz_po (nz_onLoopEnd _) (fun _ => nz_selClose)) nz_runFinally



/-! ### the whole of `run()` -/

theorem nz_afterConnect (proxy : Bool) : Spec NZ (afterConnect proxy) := by
  unfold afterConnect
  refine spec_bind nz_po (spec_modS (fun s => by nz_leaf)) (fun _ => ?_)
  refine spec_getS_bind nz_po (fun s => ?_)
  refine spec_bind nz_po (nz_write _) (fun r => ?_)
  split
  · exact spec_bind nz_po nz_closeSocket (fun _ => nz_yieldEv _)
  · exact spec_bind nz_po (nz_yieldConnected proxy) (fun _ =>
      spec_bind nz_po (spec_modS (fun s => by nz_leaf)) (fun _ => nz_runLoop))

theorem nz_afterConnectNoSel (proxy : Bool) : Spec NZ (afterConnectNoSel proxy) := by
  unfold afterConnectNoSel
  refine spec_bind nz_po (spec_modS (fun s => by nz_leaf)) (fun _ => ?_)
  refine spec_getS_bind nz_po (fun s => ?_)
  refine spec_bind nz_po (nz_write _) (fun r => ?_)
  split
  · exact spec_bind nz_po nz_closeSocket (fun _ => nz_yieldEv _)
  · exact spec_bind nz_po (nz_yieldConnected proxy) (fun _ =>
      spec_bind nz_po (spec_modS (fun s => by nz_leaf)) (fun _ => nz_runLoopNoSel))

theorem nz_run : Spec NZ run := by
  unfold run
  refine spec_bind nz_po (nz_yieldEv _) (fun _ => ?_)
  refine spec_getS_bind nz_po (fun s => ?_)
  split
  · exact nz_yieldEv _
  · exact nz_yieldEv _
  · exact nz_afterConnect _
  · exact nz_afterConnectNoSel _

/-- **in the trace of a whole connection every compressed write is directly followed by the
    result `.res .ok` of the call that made it** (and the trace does not end on one) -/
theorem runAll_nested (cfg : Cfg) (react : React) (env : List EnvStep) :
    Nested (runAll cfg react env).trace ∧ HeadOk (runAll cfg react env).trace := by
  obtain ⟨l, e, hn, hh⟩ := nz_run { cfg := cfg, react := react, env := env }
  simp only [List.append_nil] at e
  have base : Nested (run { cfg := cfg, react := react, env := env }).state.trace ∧
      HeadOk (run { cfg := cfg, react := react, env := env }).state.trace := by rw [e]; exact ⟨hn, hh⟩
  unfold runAll
  simp only []
  generalize run { cfg := cfg, react := react, env := env } = r at base
  have push : ∀ (s : Sys) (o : Obs), isZ o = false → Nested s.trace ∧ HeadOk s.trace →
      Nested (o :: s.trace) ∧ HeadOk (o :: s.trace) := by
    intro s o ho ⟨h1, h2⟩
    refine ⟨⟨follows_of_headOk o h2, h1⟩, fun op p l' e => ?_⟩
    simp only [List.cons.injEq] at e
    rw [e.1] at ho; cases ho
  have cs : ∀ s : Sys, Nested s.trace ∧ HeadOk s.trace →
      Nested (match closeSocket s with | .ok _ s' => s' | .err _ s' => s').trace ∧
      HeadOk (match closeSocket s with | .ok _ s' => s' | .err _ s' => s').trace := by
    intro s h
    rcases closeSocket_cases s with e | e <;> rw [e]
    · exact push s .sockClose rfl h
    · exact h
  cases r with
  | ok a s => exact base
  | err x s =>
    simp only [Res.state_err] at base
    cases x with
    | genExit => simp only []; split; exact cs s base; exact base
    | outer y =>
      cases y with
      | genExit => simp only []; split; exact cs s base; exact base
      | _ => exact push s .incomplete rfl base
    | _ => exact push s .incomplete rfl base

theorem nested_before (newer older : List Obs) (op : Nat) (p : Bytes)
    (hn : Nested (newer ++ .wrz op p :: older)) (hne : newer ≠ []) :
    ∃ newer', newer = newer' ++ [.res .ok] := by
  induction newer with
  | nil => exact absurd rfl hne
  | cons o l ih =>
    cases l with
    | nil =>
      have := hn.1 op p older rfl
      exact ⟨[], by rw [this]; rfl⟩
    | cons o' l' =>
      obtain ⟨n', hn'⟩ := ih hn.2 (by simp)
      exact ⟨o :: n', by rw [hn']; rfl⟩

/-- positional form: whatever stands directly after a `.wrz` entry of a nested trace is `.res .ok` -/
theorem nested_at (newer older : List Obs) (op : Nat) (p : Bytes)
    (hn : Nested (newer ++ .wrz op p :: older)) (hh : HeadOk (newer ++ .wrz op p :: older)) :
    ∃ newer', newer = newer' ++ [.res .ok] :=
  nested_before newer older op p hn (fun e => by subst e; exact hh op p older rfl)

end Lomond.Core.KS
