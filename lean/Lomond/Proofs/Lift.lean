/-
  Lifting a relation through the receive pipeline.

  `Proofs/Step.lean` proves one particular relation for every function of the core model.  Most
  invariants needed by the properties only care about what happens at the *leaves* that touch the
  wire, the clock or the application (`feedYield`, `wsClose`, `closeSocket`); every other function
  of the pipeline (`buildMessage`, `onClose`, `onMessage`, `onFrame`, `onOut`, `feedLoop`,
  `feedHeader`, `wsFeed`, `recvStep`, `loop`) only composes those leaves and updates parser /
  stream / websocket bookkeeping fields.  `Leaves R` packages what has to be shown about the
  leaves; the `lift_*` theorems then give `Spec R` for the whole pipeline, for any such `R`.
-/
import Lomond.Proofs.Step
set_option linter.unusedSimpArgs false
set_option linter.unusedVariables false
namespace Lomond.Core.Lift
open Lomond Lomond.Core

/-- `s'` differs from `s` at most in parser / stream / websocket-state bookkeeping
    (`p`, `frames`, `parsedResponse`, `compression`, `decompress`, `inflHist`, `inflOut`,
    `closing`, `closed`): nothing that concerns the wire, the clock, the timers or the
    application -/
structure Inert (s s' : Sys) : Prop where
  cfg : s'.cfg = s.cfg
  react : s'.react = s.react
  env : s'.env = s.env
  sockOpen : s'.sockOpen = s.sockOpen
  selOpen : s'.selOpen = s.selOpen
  ready : s'.ready = s.ready
  pollStart : s'.pollStart = s.pollStart
  nextPing : s'.nextPing = s.nextPing
  lastPong : s'.lastPong = s.lastPong
  startTime : s'.startTime = s.startTime
  now : s'.now = s.now
  sentCloseTime : s'.sentCloseTime = s.sentCloseTime
  keyCtr : s'.keyCtr = s.keyCtr
  writeCtr : s'.writeCtr = s.writeCtr
  hist : s'.hist = s.hist
  abandonedWith : s'.abandonedWith = s.abandonedWith
  trace : s'.trace = s.trace

theorem Inert.refl (s : Sys) : Inert s s := by constructor <;> rfl

/-- the events `WebSocket.feed` yields (everything else comes from `run()` itself) -/
def isFeedEvent : Event → Bool
  | .ready _ _ | .rejected _ | .text _ | .binary _ | .ping _ | .pong _
  | .closing _ _ | .closed _ _ | .protocolError _ _ => true
  | _ => false

/-- what has to be known about the leaves of the pipeline -/
structure Leaves (R : Sys → Sys → Prop) : Prop where
  po : PO R
  inert : ∀ s s', Inert s s' → R s s'
  closeSocket : Spec R closeSocket
  wsClose : ∀ c r, Spec R (wsClose c r)
  feedYield : ∀ b e, isFeedEvent e = true → Spec R (feedYield b e)

variable {R : Sys → Sys → Prop}

/-- leaf: the result state is an explicit record update of bookkeeping fields -/
macro "inert_leaf" T:term : tactic =>
  `(tactic| ((try simp only [Res.state_ok, Res.state_err]); exact Leaves.inert $T _ _ (by constructor <;> rfl)))

theorem lift_modS (T : Leaves R) {f : Sys → Sys} (h : ∀ s, Inert s (f s)) : Spec R (modS f) :=
  spec_modS (fun s => T.inert _ _ (h s))

theorem lift_onDisconnect (T : Leaves R) : Spec R onDisconnect := by
  unfold onDisconnect
  apply spec_bind T.po T.closeSocket
  intro _; apply lift_modS T; intro s; constructor <;> rfl

theorem lift_inflateMessage (T : Leaves R) (j : Bytes) : Spec R (inflateMessage j) := by
  intro s; unfold inflateMessage; simp only []; splits <;> inert_leaf T

theorem lift_buildMessage (T : Leaves R) (fs : List Frame) : Spec R (buildMessage fs) := by
  unfold buildMessage
  split
  · exact spec_throwE T.po _
  · simp only []
    refine spec_getS_bind T.po (fun s => ?_)
    refine spec_bind T.po ?_ (fun _ => spec_liftE T.po _)
    split
    · exact lift_inflateMessage T _
    · exact spec_pure T.po _

theorem lift_checkCloseCode (T : Leaves R) (c : Option Nat) : Spec R (checkCloseCode c) := by
  unfold checkCloseCode
  splits <;> first | exact spec_pure T.po _ | exact spec_throwE T.po _

theorem lift_raiseIfArgError (T : Leaves R) (r : ActRes) : Spec R (raiseIfArgError r) := by
  unfold raiseIfArgError
  split <;> first | exact spec_pure T.po _ | exact spec_throwE T.po _

theorem lift_onClose (T : Leaves R) (c : Option Nat) (r : List Nat) : Spec R (onClose c r) := by
  unfold onClose
  refine spec_bind T.po (lift_checkCloseCode T c) (fun _ => ?_)
  refine spec_getS_bind T.po (fun s => ?_)
  split
  · exact spec_pure T.po _
  · split
    · refine spec_bind T.po (T.feedYield _ _ rfl) (fun _ => lift_modS T ?_)
      intro s; constructor <;> rfl
    · refine spec_bind T.po (T.feedYield _ _ rfl) (fun _ => spec_bind T.po (T.wsClose _ _) (fun r =>
        spec_bind T.po (lift_raiseIfArgError T r) (fun _ => lift_modS T ?_)))
      intro s; constructor <;> rfl

theorem lift_onMessage (T : Leaves R) (m : Msg) : Spec R (onMessage m) := by
  unfold onMessage
  split <;> first | exact lift_onClose T _ _ | exact T.feedYield _ _ rfl | exact spec_pure T.po _

theorem lift_onDataFrame (T : Leaves R) (f : Frame) : Spec R (onDataFrame f) := by
  unfold onDataFrame
  refine spec_getS_bind T.po (fun s => ?_)
  split
  · exact spec_throwE T.po _
  · split
    · exact spec_throwE T.po _
    · refine spec_bind T.po (lift_modS T ?_) (fun _ => ?_)
      · intro s; constructor <;> rfl
      · split
        · refine spec_getS_bind T.po (fun s => spec_bind T.po (lift_buildMessage T _) (fun m =>
            spec_bind T.po (lift_onMessage T m) (fun _ => lift_modS T ?_)))
          intro s; constructor <;> rfl
        · exact spec_pure T.po _

theorem lift_notClosed (T : Leaves R) : Spec R notClosed := by
  intro s; unfold notClosed; exact T.po.refl s

theorem lift_onFrame (T : Leaves R) (f : Frame) : Spec R (onFrame f) := by
  unfold onFrame
  split
  · exact spec_bind T.po (lift_buildMessage T _) (fun m => lift_onMessage T m)
  · exact lift_onDataFrame T _

theorem lift_onOut (T : Leaves R) (o : Out) : Spec R (onOut o) := by
  unfold onOut
  split
  · refine spec_getS_bind T.po (fun s => ?_)
    split
    · refine spec_bind T.po (lift_modS T ?_) (fun _ => spec_bind T.po (lift_onDisconnect T) (fun _ =>
        spec_bind T.po (T.feedYield _ _ rfl) (fun _ => spec_pure T.po _)))
      intro s; constructor <;> rfl
    · refine spec_bind T.po (lift_modS T ?_) (fun _ => spec_bind T.po (T.feedYield _ _ rfl) (fun _ =>
        spec_bind T.po (lift_modS T ?_) (fun _ => lift_notClosed T)))
      · intro s; constructor <;> rfl
      · intro s; constructor <;> rfl
  · exact spec_bind T.po (lift_onFrame T _) (fun _ => lift_notClosed T)

theorem inert_setP (s : Sys) (p' : PState) : Inert s { s with p := p' } := by constructor <;> rfl

theorem lift_feedLoop (T : Leaves R) (data : Bytes) : Spec R (feedLoop data) := by
  induction h : data.length using Nat.strongRecOn generalizing data with
  | _ n ih =>
    intro s
    rw [feedLoop]
    by_cases hd : data = []
    · simp only [hd, dite_true]; exact T.po.refl s
    · simp only [hd, dite_false]
      have hlt : (data.drop (s.p.remPred + 1)).length < n := by
        have : data.length ≠ 0 := fun hl => hd (List.eq_nil_of_length_eq_zero hl)
        simp only [List.length_drop]; omega
      cases hb : biteBytes s.cfg.v s.p (data.take (s.p.remPred + 1)) with
      | error x =>
        simp only [Res.state_err]
        exact T.inert _ _ (inert_setP s _)
      | ok r =>
        obtain ⟨p', out⟩ := r
        have hs1 : R s { s with p := p' } := T.inert _ _ (inert_setP s p')
        cases out with
        | none =>
          simp only
          exact T.po.trans hs1 (ih _ hlt _ rfl _)
        | some o =>
          simp only
          have ho := lift_onOut T o { s with p := p' }
          cases hr : onOut o { s with p := p' } with
          | err x s2 => rw [hr] at ho; simp only [Res.state_err] at ho ⊢; exact T.po.trans hs1 ho
          | ok go s2 =>
            rw [hr] at ho; simp only [Res.state_ok] at ho
            cases go with
            | true => simp only; exact T.po.trans hs1 (T.po.trans ho (ih _ hlt _ rfl _))
            | false => simp only [Res.state_ok]; exact T.po.trans hs1 ho

theorem lift_afterHeader (T : Leaves R) (rest : Bytes) (out : Option Out) :
    Spec R (afterHeader rest out) := by
  unfold afterHeader
  split
  · refine spec_bind T.po (lift_onOut T _) (fun go => ?_)
    split
    · exact spec_bind T.po (lift_feedLoop T _) (fun _ => spec_pure T.po _)
    · exact spec_pure T.po _
  · exact spec_bind T.po (lift_feedLoop T _) (fun _ => spec_pure T.po _)

theorem lift_feedHeader (T : Leaves R) (data : Bytes) : Spec R (feedHeader data) := by
  intro s; unfold feedHeader; simp only []
  split
  · split
    · simp only [Res.state_err]; exact T.inert _ _ (inert_setP s _)
    · simp only [Res.state_ok]; exact T.inert _ _ (inert_setP s _)
  · split
    · simp only [Res.state_err]; exact T.inert _ _ (inert_setP s _)
    · split
      · simp only [Res.state_err]; exact T.inert _ _ (inert_setP s _)
      · rename_i p' out hr
        exact T.po.trans (T.inert _ _ (inert_setP s p')) (lift_afterHeader T _ _ _)

theorem lift_feedBody (T : Leaves R) (data : Bytes) : Spec R (feedBody data) := by
  intro s; unfold feedBody
  split
  · exact lift_feedHeader T data s
  · have := lift_feedLoop T data s
    split <;> (rename_i h; rw [h] at this; simpa using this)

theorem lift_feedHandler (T : Leaves R) (x : Exn) : Spec R (feedHandler x) := by
  unfold feedHandler
  split
  · exact spec_bind T.po (T.feedYield _ _ rfl) (fun _ => spec_throwE T.po _)
  · exact spec_bind T.po (T.feedYield _ _ rfl) (fun _ => spec_throwE T.po _)
  · exact spec_bind T.po (T.feedYield _ _ rfl) (fun _ => spec_bind T.po (T.wsClose _ _) (fun r =>
      spec_bind T.po (lift_raiseIfArgError T r) (fun _ => spec_throwE T.po _)))
  · exact spec_throwE T.po _

theorem lift_unwrapOuter (T : Leaves R) (x : Exn) : Spec R (unwrapOuter x) := by
  unfold unwrapOuter; split <;> exact spec_throwE T.po _

theorem lift_wsFeed (T : Leaves R) (data : Bytes) : Spec R (wsFeed data) := by
  intro s; unfold wsFeed
  split
  · exact T.po.refl s
  · exact spec_tryC T.po (spec_tryC T.po (lift_feedBody T data) (lift_feedHandler T)) (lift_unwrapOuter T) s

theorem lift_onEof (T : Leaves R) : Spec R onEof := by
  intro s; unfold onEof; split <;> exact T.po.refl s

theorem lift_recvStep (T : Leaves R) (o : RecvOutcome) : Spec R (recvStep o) := by
  intro s; unfold recvStep
  split
  · exact lift_onEof T s
  · split
    · exact T.po.refl s
    · exact T.po.refl s
    · exact lift_onEof T s
    · rename_i bs
      split
      · exact lift_onEof T s
      · have := lift_wsFeed T bs s
        split <;> (rename_i h; rw [h] at this; simpa using this)

/-- the session loop: `P` is what is assumed of each environment step (e.g. `dt ≤ poll`); the
    clock advance and the `_regular()` that follows it are one leaf -/
theorem lift_loop (T : Leaves R) (P : EnvStep → Prop)
    (hTick : ∀ dt rd s, P (.wait dt rd) → R s (regular (tick s dt)).state)
    (env : List EnvStep) (hP : ∀ st ∈ env, P st) : Spec R (loop env) := by
  induction env with
  | nil => intro s; unfold loop; split <;> exact T.po.refl s
  | cons st rest ih =>
    have ih' := ih (fun st h => hP st (List.mem_cons_of_mem _ h))
    intro s; unfold loop
    split
    · exact T.po.refl s
    · split
      · exact T.po.refl s
      · rename_i dt readable
        have h1 := hTick dt readable s (hP _ (List.mem_cons_self))
        unfold regularTop
        split
        · rename_i x s2 hr; rw [hr] at h1; exact h1
        · rename_i u s2 hr; rw [hr] at h1
          simp only [Res.state_ok] at h1
          split
          · exact T.po.trans h1 (ih' s2)
          · rename_i o
            have h2 := lift_recvStep T o s2
            split
            · rename_i x s3 hr2; rw [hr2] at h2; exact T.po.trans h1 h2
            · rename_i s3 hr2; rw [hr2] at h2
              exact T.po.trans h1 (T.po.trans h2 (ih' s3))
            · rename_i s3 hr2; rw [hr2] at h2; exact T.po.trans h1 h2

end Lomond.Core.Lift
