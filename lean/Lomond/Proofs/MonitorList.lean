/-
  What acceptance by the monitor automaton (`Mon.run`) means for the list of events, in the words of
  the property text: pure list lemmas, independent of the model.
-/
import Lomond.Proofs.Monitor
set_option linter.unusedSimpArgs false
set_option linter.unusedVariables false
namespace Lomond.Core.Monitor
open Lomond Lomond.Core

/-- the monitor does not reject the sequence (a prefix of a well-formed sequence) -/
def Mon.accepts (evs : List Event) : Prop := ∃ ph, Mon.run .start evs = some ph

/-- the sequence is a complete well-formed sequence: the monitor is in its final state -/
def Mon.complete (evs : List Event) : Prop := Mon.run .start evs = some .done

def Phase.rank : Phase → Nat
  | .start => 0 | .connecting => 1 | .connected => 2 | .ready => 3 | .unresp => 4 | .done => 5

theorem Mon.step_mono {p q : Phase} {e : Event} (h : Mon.step p e = some q) : p.rank ≤ q.rank := by
  cases p <;> cases e <;> simp [Mon.step] at h <;> subst h <;> decide

theorem Mon.run_mono {p q : Phase} {l : List Event} (h : Mon.run p l = some q) : p.rank ≤ q.rank := by
  induction l generalizing p with
  | nil => cases h; exact Nat.le_refl _
  | cons e r ih =>
    simp only [Mon.run] at h
    cases hs : Mon.step p e with
    | none => rw [hs] at h; cases h
    | some p' => rw [hs] at h; exact Nat.le_trans (Mon.step_mono hs) (ih h)

/-- an accepted sequence split at an event: the phases before and after it -/
theorem Mon.run_split {p0 ph : Phase} {a b : List Event} {e : Event} (h : Mon.run p0 (a ++ e :: b) = some ph) :
    ∃ p q, Mon.run p0 a = some p ∧ Mon.step p e = some q ∧ Mon.run q b = some ph := by
  rw [Mon.run_append] at h
  cases ha : Mon.run p0 a with
  | none => rw [ha] at h; cases h
  | some p =>
    rw [ha] at h; simp only [Option.bind_some, Mon.run] at h
    cases hs : Mon.step p e with
    | none => rw [hs] at h; cases h
    | some q => rw [hs] at h; exact ⟨p, q, rfl, hs, h⟩

theorem Mon.run_done {l : List Event} {q : Phase} (h : Mon.run .done l = some q) : l = [] := by
  cases l with
  | nil => rfl
  | cons e r => simp only [Mon.run, Mon.step_done] at h; cases h

theorem Mon.step_done_terminal {p : Phase} {e : Event} (h : Mon.step p e = some .done) : Event.isTerminal e = true := by
  cases p <;> cases e <;> simp [Mon.step] at h <;> rfl

theorem Mon.step_ne_done {p q : Phase} {e : Event} (h : Mon.step p e = some q) : p ≠ .done := by
  intro hp; subst hp; rw [Mon.step_done] at h; cases h

/-- **nothing follows a terminal event** -/
theorem Mon.nothing_after_terminal {p0 ph : Phase} {a b : List Event} {e : Event}
    (h : Mon.run p0 (a ++ e :: b) = some ph) (ht : Event.isTerminal e = true) : b = [] := by
  obtain ⟨p, q, _, hs, hb⟩ := Mon.run_split h
  rw [Mon.step_terminal hs ht] at hb
  exact Mon.run_done hb

/-- no terminal event occurs before the monitor's final state -/
theorem Mon.run_noTerminal {p0 p : Phase} {a : List Event} (h : Mon.run p0 a = some p) (hp : p ≠ .done) :
    ∀ x ∈ a, Event.isTerminal x = false := by
  intro x hx
  obtain ⟨a1, a2, rfl⟩ := List.append_of_mem hx
  cases ht : Event.isTerminal x with
  | false => rfl
  | true =>
    obtain ⟨p1, q, _, hs, hb⟩ := Mon.run_split h
    rw [Mon.step_terminal hs ht] at hb
    have := Mon.run_mono hb
    have hq : p = .done := by cases p <;> simp [Phase.rank] at this <;> rfl
    exact absurd hq hp

/-- **at most one terminal event**: before a terminal event there is none -/
theorem Mon.no_terminal_before_terminal {p0 ph : Phase} {a b : List Event} {e : Event}
    (h : Mon.run p0 (a ++ e :: b) = some ph) : ∀ x ∈ a, Event.isTerminal x = false := by
  obtain ⟨p, q, ha, hs, _⟩ := Mon.run_split h
  exact Mon.run_noTerminal ha (Mon.step_ne_done hs)

/-- **the first event is `Connecting`** -/
theorem Mon.first_is_connecting {ph : Phase} {e : Event} {r : List Event}
    (h : Mon.run .start (e :: r) = some ph) : e = .connecting := by
  simp only [Mon.run] at h
  cases e <;> simp [Mon.step] at h
  rfl

/-- **then `ConnectFail` (and nothing else) or `Connected`** -/
theorem Mon.second_event {ph : Phase} {e0 e1 : Event} {r : List Event}
    (h : Mon.run .start (e0 :: e1 :: r) = some ph) :
    (∃ k, e1 = .connectFail k ∧ r = []) ∨ (∃ p, e1 = .connected p) := by
  have h0 := Mon.first_is_connecting h
  subst h0
  simp only [Mon.run, Mon.step, Option.bind_some] at h
  cases e1 <;> simp [Mon.step] at h
  · rename_i k
    exact Or.inl ⟨k, rfl, Mon.run_done h⟩
  · exact Or.inr ⟨_, rfl⟩

theorem Mon.step_ready {p q : Phase} {a : Option Http.Str} {d : Bool} (h : Mon.step p (.ready a d) = some q) :
    p = .connected ∧ q = .ready := by
  cases p <;> simp [Mon.step] at h
  exact ⟨rfl, h.symm⟩

/-- events that need `Ready` before them -/
def Event.needsReady : Event → Bool
  | .text _ | .binary _ | .ping _ | .pong _ | .poll | .closing _ _ | .closed _ _ | .unresponsive => true
  | _ => false

theorem Mon.step_needsReady {p q : Phase} {e : Event} (h : Mon.step p e = some q) (he : Event.needsReady e = true) :
    p = .ready := by
  cases p <;> cases e <;> simp [Mon.step, Event.needsReady] at h he ⊢

/-- reaching `connected` or `ready` from `start`/`connecting` passes a `Connected` event -/
theorem Mon.run_has_connected {p0 p1 : Phase} {a : List Event} (h : Mon.run p0 a = some p1)
    (h0 : p0.rank ≤ 1) (h1 : 2 ≤ p1.rank) (h2 : p1.rank ≤ 4) : ∃ p, Event.connected p ∈ a := by
  induction a generalizing p0 with
  | nil => cases h; omega
  | cons x r ih =>
    simp only [Mon.run] at h
    cases hs : Mon.step p0 x with
    | none => rw [hs] at h; cases h
    | some q =>
      rw [hs] at h; simp only [Option.bind_some] at h
      by_cases hq : q.rank ≤ 1
      · obtain ⟨p, hp⟩ := ih h hq
        exact ⟨p, List.mem_cons_of_mem _ hp⟩
      · have hm := Mon.run_mono h
        cases p0 <;> cases x <;> simp [Mon.step] at hs <;> subst hs <;> simp [Phase.rank] at h0 hq hm h2 ⊢
        all_goals first | omega | exact ⟨_, Or.inl rfl⟩

/-- reaching `ready` from an earlier phase passes a `Ready` event -/
theorem Mon.run_has_ready {p0 : Phase} {a : List Event} (h : Mon.run p0 a = some .ready)
    (h0 : p0.rank ≤ 2) : ∃ x d, Event.ready x d ∈ a := by
  induction a generalizing p0 with
  | nil => cases h; simp [Phase.rank] at h0
  | cons e r ih =>
    simp only [Mon.run] at h
    cases hs : Mon.step p0 e with
    | none => rw [hs] at h; cases h
    | some q =>
      rw [hs] at h; simp only [Option.bind_some] at h
      by_cases hq : q.rank ≤ 2
      · obtain ⟨x, d, hp⟩ := ih h hq
        exact ⟨x, d, List.mem_cons_of_mem _ hp⟩
      · have hm := Mon.run_mono h
        cases p0 <;> cases e <;> simp [Mon.step] at hs <;> subst hs <;> simp only [Phase.rank] at h0 hq hm <;>
          first | omega | exact ⟨_, _, List.mem_cons_self⟩

/-- **`Ready` occurs at most once and only after `Connected`** -/
theorem Mon.ready_once {ph : Phase} {a b : List Event} {x : Option Http.Str} {d : Bool}
    (h : Mon.run .start (a ++ .ready x d :: b) = some ph) :
    (∃ p, Event.connected p ∈ a) ∧ (∀ x' d', Event.ready x' d' ∉ a) ∧ (∀ x' d', Event.ready x' d' ∉ b) := by
  obtain ⟨p, q, ha, hs, hb⟩ := Mon.run_split h
  obtain ⟨rfl, rfl⟩ := Mon.step_ready hs
  refine ⟨Mon.run_has_connected ha (by decide) (by decide) (by decide), ?_, ?_⟩
  · intro x' d' hm
    obtain ⟨a1, a2, rfl⟩ := List.append_of_mem hm
    obtain ⟨p1, q1, _, hs1, hb1⟩ := Mon.run_split ha
    obtain ⟨_, rfl⟩ := Mon.step_ready hs1
    have := Mon.run_mono hb1
    simp [Phase.rank] at this
  · intro x' d' hm
    obtain ⟨b1, b2, rfl⟩ := List.append_of_mem hm
    obtain ⟨p1, q1, hb1, hs1, _⟩ := Mon.run_split hb
    obtain ⟨rfl, _⟩ := Mon.step_ready hs1
    have := Mon.run_mono hb1
    simp [Phase.rank] at this

/-- **Text, Binary, Ping, Pong, Poll, Closing, Closed (and Unresponsive) occur only after `Ready`** -/
theorem Mon.needsReady_after_ready {ph : Phase} {a b : List Event} {e : Event}
    (h : Mon.run .start (a ++ e :: b) = some ph) (he : Event.needsReady e = true) : ∃ x d, Event.ready x d ∈ a := by
  obtain ⟨p, q, ha, hs, _⟩ := Mon.run_split h
  have hp := Mon.step_needsReady hs he
  subst hp
  exact Mon.run_has_ready ha (by decide)

theorem Mon.run_connecting {a : List Event} (h : Mon.run .start a = some .connecting) : a = [.connecting] := by
  cases a with
  | nil => cases h
  | cons e r =>
    have := Mon.first_is_connecting h
    subst this
    simp only [Mon.run, Mon.step, Option.bind_some] at h
    cases r with
    | nil => rfl
    | cons e' r' =>
      simp only [Mon.run] at h
      cases hs : Mon.step .connecting e' with
      | none => rw [hs] at h; cases h
      | some q =>
        rw [hs] at h; simp only [Option.bind_some] at h
        have hm := Mon.run_mono h
        cases e' <;> simp [Mon.step] at hs <;> subst hs <;> simp [Phase.rank] at hm

/-- **`ConnectFail` only before the connection is up**: it directly follows `Connecting` -/
theorem Mon.connectFail_position {ph : Phase} {a b : List Event} {k : String}
    (h : Mon.run .start (a ++ .connectFail k :: b) = some ph) : a = [.connecting] ∧ b = [] := by
  obtain ⟨p, q, ha, hs, _⟩ := Mon.run_split h
  have hp : p = .connecting := by cases p <;> simp [Mon.step] at hs; rfl
  subst hp
  exact ⟨Mon.run_connecting ha, Mon.nothing_after_terminal h rfl⟩

/-- **`Disconnected` only after `Connected`** -/
theorem Mon.disconnected_after_connected {ph : Phase} {a b : List Event} {k : String} {g : Bool}
    (h : Mon.run .start (a ++ .disconnected k g :: b) = some ph) : (∃ p, Event.connected p ∈ a) ∧ b = [] := by
  obtain ⟨p, q, ha, hs, _⟩ := Mon.run_split h
  refine ⟨?_, Mon.nothing_after_terminal h rfl⟩
  have hp : p = .connected ∨ p = .ready ∨ p = .unresp := by cases p <;> simp [Mon.step] at hs <;> simp
  rcases hp with rfl | rfl | rfl
  · exact Mon.run_has_connected ha (by decide) (by decide) (by decide)
  · exact Mon.run_has_connected ha (by decide) (by decide) (by decide)
  · exact Mon.run_has_connected ha (by decide) (by decide) (by decide)

/-- **after `Unresponsive` (the ping time-out fired) the only possible next event is the terminal
    `Disconnected`** -/
theorem Mon.after_unresponsive {ph : Phase} {a b : List Event}
    (h : Mon.run .start (a ++ .unresponsive :: b) = some ph) :
    b = [] ∨ ∃ k g, b = [.disconnected k g] := by
  obtain ⟨p, q, _, hs, hb⟩ := Mon.run_split h
  have hq : q = .unresp := by cases p <;> simp [Mon.step] at hs; exact hs.symm
  subst hq
  cases b with
  | nil => exact Or.inl rfl
  | cons e r =>
    right
    simp only [Mon.run] at hb
    cases hs2 : Mon.step .unresp e with
    | none => rw [hs2] at hb; cases hb
    | some q2 =>
      rw [hs2] at hb; simp only [Option.bind_some] at hb
      cases e <;> simp [Mon.step] at hs2
      subst hs2
      rename_i k g
      exact ⟨k, g, by rw [Mon.run_done hb]⟩

/-- **a complete sequence ends with its (only) terminal event** -/
theorem Mon.complete_ends_terminal {evs : List Event} (h : Mon.complete evs) :
    ∃ a e, evs = a ++ [e] ∧ Event.isTerminal e = true ∧ ∀ x ∈ a, Event.isTerminal x = false := by
  unfold Mon.complete at h
  have hne : evs ≠ [] := by intro hn; subst hn; cases h
  obtain ⟨a, e, rfl⟩ : ∃ a e, evs = a ++ [e] := ⟨evs.dropLast, evs.getLast hne, (List.dropLast_concat_getLast hne).symm⟩
  obtain ⟨p, q, ha, hs, hb⟩ := Mon.run_split h
  cases hb
  exact ⟨a, e, rfl, Mon.step_done_terminal hs, Mon.run_noTerminal ha (Mon.step_ne_done hs)⟩

end Lomond.Core.Monitor
