/-
  Result-aware lifting through the receive pipeline and the session loop.

  `Proofs/Lift.lean` lifts a relation between start and final *states*.  For statements about
  *which exception* ends a computation and what holds in the state it leaves behind (e.g. "a
  `_ForceDisconnect('close-timeout')` is only ever raised with the close timer overdue") the result
  matters: `SpecX I X m` says that from a state satisfying the invariant `I`, `m` either returns
  normally in a state satisfying `I`, or ends exceptionally with an exception `x` in a state `s'`
  such that `X x s'`.  `LeavesX I X` packages what has to be shown about the leaves (the functions
  that touch the wire, the clock, the websocket flags or the application); `liftx_*` then give
  `SpecX I X` for the whole pipeline up to `loop`.

  Differences to `Lift.Leaves`: bookkeeping updates are `InertF` (they keep `closing` / `closed` too),
  and `onClose` / `onDisconnect` (which set those flags) are leaves of their own.
-/
import Lomond.Proofs.Lift
import Lomond.Proofs.Raises
import Lomond.Proofs.Monitor
set_option linter.unusedSimpArgs false
set_option linter.unusedVariables false
namespace Lomond.Core.LiftX
open Lomond Lomond.Core Lomond.Core.Lift

/-- a result is fine: normal in a state satisfying `I`, or exceptional with `X exception state` -/
def Sat (I : Sys → Prop) (X : Exn → Sys → Prop) : Res α → Prop
  | .ok _ s => I s
  | .err x s => X x s

/-- from every state satisfying `I` the result of `m` is fine -/
def SpecX (I : Sys → Prop) (X : Exn → Sys → Prop) (m : M α) : Prop := ∀ s, I s → Sat I X (m s)

variable {I : Sys → Prop} {X Q : Exn → Sys → Prop}

theorem sat_ok {a : α} {s : Sys} (h : I s) : Sat I X (Res.ok a s) := h
theorem sat_err {x : Exn} {s : Sys} (h : X x s) : Sat I X (Res.err x s : Res α) := h

theorem specx_pure (a : α) : SpecX I X (pure a : M α) := fun _ h => h

theorem specx_throwE {x : Exn} (h : ∀ s, I s → X x s) : SpecX I X (throwE x : M α) := fun s hs => h s hs

theorem specx_bind {m : M α} {f : α → M β} (hm : SpecX I X m) (hf : ∀ a, SpecX I X (f a)) :
    SpecX I X (m >>= f) := by
  intro s hs
  have h1 := hm s hs
  cases hms : m s with
  | ok a s1 => rw [hms] at h1; rw [bind_ok hms]; exact hf a s1 h1
  | err x s1 => rw [hms] at h1; rw [bind_err hms]; exact h1

theorem specx_getS_bind {f : Sys → M α} (h : ∀ s, SpecX I X (f s)) : SpecX I X (getS >>= f) :=
  fun s hs => h s s hs

theorem specx_modS {f : Sys → Sys} (h : ∀ s, I s → I (f s)) : SpecX I X (modS f) := fun s hs => h s hs

theorem specx_liftE {r : Except Exn α} (h : ∀ x s, r = .error x → I s → X x s) : SpecX I X (liftE r) := by
  intro s hs
  unfold liftE
  cases r with
  | ok a => exact hs
  | error x => exact h x s rfl hs

theorem specx_ite (c : Prop) [Decidable c] {m k : M α} (hm : SpecX I X m) (hk : SpecX I X k) :
    SpecX I X (if c then m else k) := by split <;> assumption

/-- `try m except x: h x`: the handler is analysed in the state the exception left behind -/
theorem specx_tryC {m : M α} {h : Exn → M α} (hm : SpecX I Q m)
    (hh : ∀ x s1, Q x s1 → Sat I X (h x s1)) : SpecX I X (tryC m h) := by
  intro s hs
  have h1 := hm s hs
  cases hms : m s with
  | ok a s1 => rw [hms] at h1; rw [tryC_ok hms]; exact h1
  | err x s1 => rw [hms] at h1; rw [tryC_err hms]; exact hh x s1 h1

theorem SpecX.ok {m : M α} (h : SpecX I X m) {s s' : Sys} {a : α} (hs : I s) (e : m s = .ok a s') : I s' := by
  have := h s hs; rw [e] at this; exact this

theorem SpecX.err {m : M α} (h : SpecX I X m) {s s' : Sys} {x : Exn} (hs : I s) (e : m s = .err x s') :
    X x s' := by
  have := h s hs; rw [e] at this; exact this

/-! ### the exceptions of the parser, the stream and the message layer -/

/-- `Exception`-class errors raised by the library's own checks (no time-out, no abandonment);
    their `Disconnected` reason never reads like a time-out -/
def _root_.Lomond.Core.Exn.boring : Exn → Bool
  | .parse _ => true
  | .protocol _ => true
  | .critical _ => true
  | .other k => k != "close-timeout" && k != "ping-timeout"
  | .socketFail k => k != "close-timeout" && k != "ping-timeout"
  | _ => false

theorem frameDone_boring {v p f x} (h : frameDone v p f = .error x) : x.boring = true := by
  unfold frameDone at h
  split at h
  · cases h; rfl
  · cases h

theorem validateFrame_boring {v c f len x} (h : validateFrame v c f len = .error x) : x.boring = true := by
  unfold validateFrame at h
  repeat' split at h
  all_goals first | (cases h; rfl) | cases h

theorem gotMask_boring {v p b0 len key x} (h : gotMask v p b0 len key = .error x) : x.boring = true := by
  unfold gotMask at h
  simp only [] at h
  split at h
  · rename_i y hv; cases h; exact validateFrame_boring hv
  · split at h
    · cases h
    · exact frameDone_boring h

theorem gotLength_boring {v p b0 m len x} (h : gotLength v p b0 m len = .error x) : x.boring = true := by
  unfold gotLength at h
  split at h
  · cases h; rfl
  · split at h
    · cases h
    · exact gotMask_boring h

theorem resume_boring {v p bytes x} (h : resume v p bytes = .error x) : x.boring = true := by
  unfold resume at h
  simp only [] at h
  split at h
  · cases h
  · split at h
    · cases h
    · split at h
      · cases h
      · exact gotLength_boring h
  · exact gotLength_boring h
  · exact gotLength_boring h
  · exact gotMask_boring h
  · exact frameDone_boring h

theorem biteBytes_boring {v p chunk x} (h : biteBytes v p chunk = .error x) : x.boring = true := by
  rw [biteBytes_eq] at h
  split at h
  · cases h; rfl
  · split at h
    · cases h
    · exact resume_boring h

theorem closeFromPayload_boring {pl : Bytes} {x : Exn} (h : closeFromPayload pl = .error x) :
    x.boring = true := by
  unfold closeFromPayload at h
  repeat' (first | split at h | (simp only [] at h; split at h))
  all_goals first | (cases h; rfl) | cases h

theorem msgOfPayload_boring {op : Nat} {pl : Bytes} {x : Exn} (h : msgOfPayload op pl = .error x) :
    x.boring = true := by
  unfold msgOfPayload at h
  repeat' split at h
  all_goals first
    | exact closeFromPayload_boring h
    | (cases h; rfl)
    | cases h

/-! ### the leaves -/

/-- `s'` differs from `s` at most in parser / stream bookkeeping (`p`, `frames`, `parsedResponse`,
    `compression`, `decompress`, `inflHist`, `inflOut`) -/
structure InertF (s s' : Sys) : Prop where
  inert : Inert s s'
  closing : s'.closing = s.closing
  closed : s'.closed = s.closed

/-- what has to be known about the leaves of the pipeline -/
structure LeavesX (I : Sys → Prop) (X : Exn → Sys → Prop) : Prop where
  inert : ∀ s s', InertF s s' → I s → I s'
  /-- an `Exception`-class error raised by the library's own checks leaves the invariant intact … -/
  boring : ∀ x s, Exn.boring x = true → I s → X x s
  /-- … and that is all `X` says about it (the `except` clauses of `feed` run on from there) -/
  unboring : ∀ x s, Exn.boring x = true → X x s → I s
  forced : ∀ s, I s → X (.forceDisconnect "forced") s
  scriptEnd : ∀ s, I s → X .scriptEnd s
  unwrap : ∀ y s, X (.outer y) s → X y s
  closeSocket : SpecX I X closeSocket
  wsClose : ∀ c r, SpecX I X (wsClose c r)
  onDisconnect : SpecX I X onDisconnect
  onClose : ∀ c r, SpecX I X (onClose c r)
  feedYield : ∀ b e, isFeedEvent e = true → (∀ c r, e ≠ .closing c r) → (∀ c r, e ≠ .closed c r) →
    SpecX I X (feedYield b e)

section Pipe
variable (T : LeavesX I X)
include T

theorem liftx_modS {f : Sys → Sys} (h : ∀ s, InertF s (f s)) : SpecX I X (modS f) :=
  specx_modS (fun s hs => T.inert _ _ (h s) hs)

theorem liftx_boring (x : Exn) (hb : Exn.boring x = true) : SpecX I X (throwE x : M α) :=
  specx_throwE (fun s hs => T.boring x s hb hs)

theorem liftx_inflateMessage (j : Bytes) : SpecX I X (inflateMessage j) := by
  intro s hs; unfold inflateMessage; simp only []
  splits
  all_goals first
    | exact T.boring _ _ rfl hs
    | exact T.inert s _ ⟨by constructor <;> rfl, rfl, rfl⟩ hs

theorem liftx_buildMessage (fs : List Frame) : SpecX I X (buildMessage fs) := by
  unfold buildMessage
  split
  · exact liftx_boring T _ rfl
  · simp only []
    refine specx_getS_bind (fun s => ?_)
    refine specx_bind ?_ (fun _ => specx_liftE (fun x s h hs => T.boring x s (msgOfPayload_boring h) hs))
    split
    · exact liftx_inflateMessage T _
    · exact specx_pure _

theorem liftx_checkCloseCode (c : Option Nat) : SpecX I X (checkCloseCode c) := by
  unfold checkCloseCode
  splits <;> first | exact specx_pure _ | exact liftx_boring T _ rfl

theorem liftx_raiseIfArgError (r : ActRes) : SpecX I X (raiseIfArgError r) := by
  unfold raiseIfArgError
  split <;> first | exact specx_pure _ | exact liftx_boring T _ rfl

theorem liftx_onMessage (m : Msg) : SpecX I X (onMessage m) := by
  unfold onMessage
  split
  · exact T.onClose _ _
  · exact T.feedYield _ _ rfl (fun _ _ h => by cases h) (fun _ _ h => by cases h)
  · exact T.feedYield _ _ rfl (fun _ _ h => by cases h) (fun _ _ h => by cases h)
  · exact T.feedYield _ _ rfl (fun _ _ h => by cases h) (fun _ _ h => by cases h)
  · exact T.feedYield _ _ rfl (fun _ _ h => by cases h) (fun _ _ h => by cases h)
  · exact specx_pure _

theorem liftx_onDataFrame (f : Frame) : SpecX I X (onDataFrame f) := by
  unfold onDataFrame
  refine specx_getS_bind (fun s => ?_)
  split
  · exact liftx_boring T _ rfl
  · split
    · exact liftx_boring T _ rfl
    · refine specx_bind (liftx_modS T ?_) (fun _ => ?_)
      · intro s; exact ⟨by constructor <;> rfl, rfl, rfl⟩
      · split
        · refine specx_getS_bind (fun s => specx_bind (liftx_buildMessage T _) (fun m =>
            specx_bind (liftx_onMessage T m) (fun _ => liftx_modS T ?_)))
          intro s; exact ⟨by constructor <;> rfl, rfl, rfl⟩
        · exact specx_pure _

theorem liftx_notClosed : SpecX I X notClosed := by
  intro s hs; unfold notClosed; exact hs

theorem liftx_onFrame (f : Frame) : SpecX I X (onFrame f) := by
  unfold onFrame
  split
  · exact specx_bind (liftx_buildMessage T _) (fun m => liftx_onMessage T m)
  · exact liftx_onDataFrame T _

theorem liftx_onOut (o : Out) : SpecX I X (onOut o) := by
  unfold onOut
  split
  · refine specx_getS_bind (fun s => ?_)
    split
    · refine specx_bind (liftx_modS T ?_) (fun _ => specx_bind T.onDisconnect (fun _ =>
        specx_bind (T.feedYield _ _ rfl (fun _ _ h => by cases h) (fun _ _ h => by cases h))
          (fun _ => specx_pure _)))
      intro s; exact ⟨by constructor <;> rfl, rfl, rfl⟩
    · refine specx_bind (liftx_modS T ?_) (fun _ =>
        specx_bind (T.feedYield _ _ rfl (fun _ _ h => by cases h) (fun _ _ h => by cases h)) (fun _ =>
          specx_bind (liftx_modS T ?_) (fun _ => liftx_notClosed T)))
      · intro s; exact ⟨by constructor <;> rfl, rfl, rfl⟩
      · intro s; exact ⟨by constructor <;> rfl, rfl, rfl⟩
  · exact specx_bind (liftx_onFrame T _) (fun _ => liftx_notClosed T)

omit T in
theorem inertF_setP (s : Sys) (p' : PState) : InertF s { s with p := p' } :=
  ⟨by constructor <;> rfl, rfl, rfl⟩

omit T in
theorem sat_of_eq {r r' : Res α} (e : r = r') (h : Sat I X r') : Sat I X r := e ▸ h

theorem liftx_feedLoop (data : Bytes) : SpecX I X (feedLoop data) := by
  induction h : data.length using Nat.strongRecOn generalizing data with
  | _ n ih =>
    intro s hs
    rw [feedLoop]
    by_cases hd : data = []
    · simp only [hd, dite_true]; exact hs
    · simp only [hd, dite_false]
      have hlt : (data.drop (s.p.remPred + 1)).length < n := by
        have : data.length ≠ 0 := fun hl => hd (List.eq_nil_of_length_eq_zero hl)
        simp only [List.length_drop]; omega
      cases hb : biteBytes s.cfg.v s.p (data.take (s.p.remPred + 1)) with
      | error x =>
        simp only []
        exact T.boring x _ (biteBytes_boring hb) (T.inert _ _ (inertF_setP s _) hs)
      | ok r =>
        obtain ⟨p', out⟩ := r
        have hs1 : I { s with p := p' } := T.inert _ _ (inertF_setP s p') hs
        cases out with
        | none =>
          simp only
          exact ih _ hlt _ rfl _ hs1
        | some o =>
          simp only
          have ho := liftx_onOut T o { s with p := p' } hs1
          cases hr : onOut o { s with p := p' } with
          | err x s2 => rw [hr] at ho; exact ho
          | ok go s2 =>
            rw [hr] at ho
            cases go with
            | true => simp only; exact ih _ hlt _ rfl _ ho
            | false => exact ho

theorem liftx_afterHeader (rest : Bytes) (out : Option Out) : SpecX I X (afterHeader rest out) := by
  unfold afterHeader
  split
  · refine specx_bind (liftx_onOut T _) (fun go => ?_)
    split
    · exact specx_bind (liftx_feedLoop T _) (fun _ => specx_pure _)
    · exact specx_pure _
  · exact specx_bind (liftx_feedLoop T _) (fun _ => specx_pure _)

theorem liftx_feedHeader (data : Bytes) : SpecX I X (feedHeader data) := by
  intro s hs; unfold feedHeader; simp only []
  split
  · split
    · exact T.boring _ _ rfl (T.inert _ _ (inertF_setP s _) hs)
    · exact T.inert _ _ (inertF_setP s _) hs
  · split
    · exact T.boring _ _ rfl (T.inert _ _ (inertF_setP s _) hs)
    · split
      · rename_i x hr
        exact T.boring _ _ (resume_boring hr) (T.inert _ _ (inertF_setP s _) hs)
      · rename_i p' out hr
        exact liftx_afterHeader T _ _ _ (T.inert _ _ (inertF_setP s p') hs)

theorem liftx_feedBody (data : Bytes) : SpecX I X (feedBody data) := by
  intro s hs; unfold feedBody
  split
  · exact liftx_feedHeader T data s hs
  · have := liftx_feedLoop T data s hs
    split <;> (rename_i h; rw [h] at this; exact this)

/-- the `except` clauses of `WebSocket.feed`, in the state the exception left behind -/
theorem liftx_feedHandler (x : Exn) (s1 : Sys) (hx : X x s1) : Sat I X (feedHandler x s1 : Res Unit) := by
  unfold feedHandler
  split
  · have hi := T.unboring _ _ rfl hx
    exact specx_bind (T.feedYield _ _ rfl (fun _ _ h => by cases h) (fun _ _ h => by cases h))
      (fun _ => specx_throwE T.forced) s1 hi
  · have hi := T.unboring _ _ rfl hx
    exact specx_bind (T.feedYield _ _ rfl (fun _ _ h => by cases h) (fun _ _ h => by cases h))
      (fun _ => specx_throwE T.forced) s1 hi
  · have hi := T.unboring _ _ rfl hx
    exact specx_bind (T.feedYield _ _ rfl (fun _ _ h => by cases h) (fun _ _ h => by cases h))
      (fun _ => specx_bind (T.wsClose _ _) (fun r => specx_bind (liftx_raiseIfArgError T r)
        (fun _ => specx_throwE T.forced))) s1 hi
  · exact hx

theorem liftx_unwrapOuter (x : Exn) (s1 : Sys) (hx : X x s1) : Sat I X (unwrapOuter x s1 : Res Unit) := by
  unfold unwrapOuter
  split
  · exact T.unwrap _ _ hx
  · exact hx

theorem liftx_wsFeed (data : Bytes) : SpecX I X (wsFeed data) := by
  intro s hs; unfold wsFeed
  split
  · exact hs
  · exact specx_tryC (Q := X) (specx_tryC (Q := X) (liftx_feedBody T data) (liftx_feedHandler T))
      (liftx_unwrapOuter T) s hs

theorem liftx_onEof : SpecX I X onEof := by
  intro s hs; unfold onEof
  split
  · exact T.boring _ _ rfl hs
  · exact hs

theorem liftx_recvStep (o : RecvOutcome) : SpecX I X (recvStep o) := by
  intro s hs; unfold recvStep
  split
  · exact liftx_onEof T s hs
  · split
    · exact T.boring _ _ rfl hs
    · exact T.boring _ _ rfl hs
    · exact liftx_onEof T s hs
    · rename_i bs
      split
      · exact liftx_onEof T s hs
      · have := liftx_wsFeed T bs s hs
        split <;> (rename_i h; rw [h] at this; exact this)

/-- the session loop: `P` is what is assumed of each environment step (e.g. `dt ≤ poll`); the clock
    advance and the `_regular()` that follows it are one leaf, entered with the websocket not closed -/
theorem liftx_loop (P : EnvStep → Prop)
    (hTick : ∀ dt rd s, P (.wait dt rd) → I s → s.closed = false → Sat I X (regular (tick s dt)))
    (env : List EnvStep) (hP : ∀ st ∈ env, P st) : SpecX I X (loop env) := by
  induction env with
  | nil =>
    intro s hs; unfold loop
    split
    · exact hs
    · exact T.scriptEnd s hs
  | cons st rest ih =>
    have ih' := ih (fun st h => hP st (List.mem_cons_of_mem _ h))
    intro s hs; unfold loop
    split
    · exact hs
    · rename_i hc
      split
      · exact T.boring _ _ rfl hs
      · rename_i dt readable
        have h1 := hTick dt readable s (hP _ (List.mem_cons_self)) hs (by simpa using hc)
        unfold regularTop
        split
        · rename_i x s2 hr; rw [hr] at h1; exact h1
        · rename_i u s2 hr; rw [hr] at h1
          split
          · exact ih' s2 h1
          · rename_i o
            have h2 := liftx_recvStep T o s2 h1
            split
            · rename_i x s3 hr2; rw [hr2] at h2; exact h2
            · rename_i s3 hr2; rw [hr2] at h2; exact ih' s3 h2
            · rename_i s3 hr2; rw [hr2] at h2; exact h2

end Pipe

/-! ### a whole connection -/

/-- normal: the invariant holds; exceptional: `run()` is over and the final state is fine -/
def SatF (I Fin : Sys → Prop) : Res α → Prop
  | .ok _ s => I s
  | .err _ s => Fin s

/-- what has to be known about the steps of `run()` outside the session loop; `Fin` is what is
    claimed of every final state (however the connection ended) -/
structure TopX (I : Sys → Prop) (X : Exn → Sys → Prop) (Fin : Sys → Prop) (env0 : List EnvStep) : Prop where
  envEq : ∀ s, I s → s.env = env0
  iFin : ∀ s, I s → Fin s
  /-- the application abandoned the iterator -/
  xFin : ∀ s, X .genExit s → Fin s
  yieldTop : ∀ e, (e = .connecting ∨ ∃ k, e = .connectFail k) → SpecX I X (yieldEv e)
  /-- `Connected` is yielded after the upgrade request was written: the socket is open and the
      websocket neither closing nor closed -/
  yieldConn : ∀ p s, I s → s.sockOpen = true → s.closing = false → s.closed = false → s.ready = false →
    Sat I X (yieldEv (.connected p) s)
  sockSet : ∀ s, I s → I { s with sockOpen := true }
  writeReq : ∀ s, I s → s.sockOpen = true → s.ready = false → I (write s.cfg.request none s).state
  selSet : ∀ b s, I s → I { s with selOpen := b }
  endNone : ∀ s, I s → Fin (onLoopEnd none s).state
  endSome : ∀ x s, X x s → (∀ z, x ≠ .outer z) → Fin (onLoopEnd (some x) s).state
  finSel : ∀ s, Fin s → Fin (selClose s).state
  finSock : ∀ s, Fin s → Fin (closeSocket s).state
  finInc : ∀ s, Fin s → Fin { s with trace := .incomplete :: s.trace }

variable {Fin : Sys → Prop} {env0 : List EnvStep}

theorem modS_bindx (f : Sys → Sys) (k : Unit → M α) (s : Sys) : (modS f >>= k) s = k () (f s) := rfl

theorem closeSocket_is_ok (s : Sys) : closeSocket s = .ok () (closeSocket s).state := by
  unfold closeSocket; split <;> rfl

theorem selClose_is_ok (s : Sys) : selClose s = .ok () (selClose s).state := by
  unfold selClose; split <;> rfl

theorem write_is_ok (d : Bytes) (z : Option (Nat × Bytes)) (s : Sys) :
    ∃ r, write d z s = .ok r (write d z s).state := by
  unfold write; simp only []; splits <;> exact ⟨_, rfl⟩

/-- a write that was not refused found the socket open and the websocket neither closing nor
    closed, and left those flags alone -/
theorem write_accepted {d : Bytes} {z : Option (Nat × Bytes)} {s s' : Sys} {r : ActRes}
    (h : write d z s = .ok r s') (hr : ¬ wsError r = true) :
    s'.sockOpen = true ∧ s'.closing = false ∧ s'.closed = false := by
  unfold write at h
  simp only [] at h
  repeat' split at h
  all_goals first
    | (cases h; exact absurd (by decide) hr)
    | (cases h; simp_all)

section Top
variable (T : LeavesX I X) (U : TopX I X Fin env0)
include T U

omit T in
theorem topx_yield_fin {e : Event} {s : Sys} (h : Sat I X (yieldEv e s)) : Fin (yieldEv e s).state := by
  cases hy : yieldEv e s with
  | ok u s2 => rw [hy] at h; exact U.iFin s2 h
  | err x s2 =>
    rw [hy] at h
    have := Monitor.yieldEv_err_genExit hy
    subst this
    exact U.xFin s2 h

theorem topx_runFinally (x : Exn) (s : Sys) (h : Fin s) : Fin (runFinally x s).state := by
  unfold runFinally
  rw [bind_ok (show getS s = .ok s s from rfl)]
  have key : ∀ s2, Fin s2 → Fin ((do selClose; throwE x : M Unit) s2).state := by
    intro s2 h2
    rw [bind_ok (selClose_is_ok s2)]
    exact U.finSel s2 h2
  split
  · rw [bind_ok (closeSocket_is_ok s)]; exact key _ (U.finSock s h)
  · rw [bind_ok (show (pure () : M Unit) s = .ok () s from rfl)]; exact key _ h

/-- `try: <body> ; selector.close()  finally/except …` once the body's final state is fine -/
theorem topx_tryFinally (body : M Unit) (s : Sys) (h : Fin (body s).state) :
    Fin (tryC (do body; selClose) runFinally s).state := by
  cases hb : body s with
  | ok u s1 =>
    rw [hb] at h
    have e : (do body; selClose : M Unit) s = .ok () (selClose s1).state := by
      rw [bind_ok hb]; exact selClose_is_ok s1
    rw [tryC_ok e]; exact U.finSel s1 h
  | err x s1 =>
    rw [hb] at h
    rw [tryC_err (bind_err hb)]
    exact topx_runFinally T U x s1 h

theorem topx_runBody (l : M Unit) (hl : SpecX I X l) (hno : ∀ s x s', l s = .err x s' → ∀ z, x ≠ .outer z)
    (s : Sys) (hs : I s) :
    Fin ((do let r : Option Exn ← tryC (do l; pure none) (fun x => pure (some x)); onLoopEnd r : M Unit) s).state := by
  have h1 := hl s hs
  rcases Monitor.captured l s with ⟨s1, hl1, hc⟩ | ⟨x, s1, hl1, hc⟩
  · rw [hl1] at h1; rw [bind_ok hc]; exact U.endNone s1 h1
  · rw [hl1] at h1; rw [bind_ok hc]; exact U.endSome x s1 h1 (hno s x s1 hl1)

omit T U in
theorem loop_not_outer (env : List EnvStep) (s : Sys) (x : Exn) (s' : Sys) (h : loop env s = .err x s') :
    ∀ z, x ≠ .outer z := by
  intro z e
  subst e
  rcases Monitor.raises_loop env s _ s' h with h0 | ⟨h0, _⟩
  · exact h0
  · cases h0

theorem topx_runLoop (hloop : SpecX I X (loop env0)) (s : Sys) (hs : I s) : Fin (runLoop s).state := by
  unfold runLoop
  rw [bind_ok (show getS s = .ok s s from rfl)]
  refine topx_tryFinally T U (runBody s.env) s ?_
  rw [U.envEq s hs]
  exact topx_runBody T U (loop env0) hloop (loop_not_outer env0) s hs

theorem topx_runLoopNoSel (s : Sys) (hs : I s) : Fin (runLoopNoSel s).state := by
  unfold runLoopNoSel
  exact topx_tryFinally T U (onLoopEnd (some (.other "error"))) s
    (U.endSome _ s (T.boring _ s rfl hs) (fun z e => by cases e))

theorem topx_closeYield (k : String) (s : Sys) (hs : I s) :
    Fin ((do closeSocket; yieldEv (.connectFail k) : M Unit) s).state := by
  rw [bind_ok (closeSocket_is_ok s)]
  have h1 : I (closeSocket s).state := by
    have := T.closeSocket s hs; rw [closeSocket_is_ok s] at this; exact this
  exact topx_yield_fin U (U.yieldTop (.connectFail k) (Or.inr ⟨k, rfl⟩) _ h1)

/-- `yield Connected` (inside the `try` in the repaired code): either the invariant holds
    afterwards, or `run()` is over and the final state is fine -/
theorem topx_yieldConnected (proxy : Bool) (s : Sys) (hs : I s) (hso : s.sockOpen = true)
    (hcg : s.closing = false) (hcd : s.closed = false) (hrd : s.ready = false) :
    SatF I Fin (yieldConnected proxy s) := by
  unfold yieldConnected
  rw [bind_ok (show getS s = .ok s s from rfl)]
  have h2 := U.yieldConn proxy s hs hso hcg hcd hrd
  split
  · cases hy : yieldEv (.connected proxy) s with
    | ok u s2 => rw [hy] at h2; rw [tryC_ok hy]; exact h2
    | err x s2 =>
      rw [hy] at h2
      have := Monitor.yieldEv_err_genExit hy
      subst this
      rw [tryC_err hy, bind_ok (closeSocket_is_ok s2)]
      exact U.finSock s2 (U.xFin s2 h2)
  · cases hy : yieldEv (.connected proxy) s with
    | ok u s2 => rw [hy] at h2; exact h2
    | err x s2 =>
      rw [hy] at h2
      have := Monitor.yieldEv_err_genExit hy
      subst this
      exact U.xFin s2 h2

theorem topx_afterConnect (hloop : SpecX I X (loop env0)) (proxy : Bool) (s : Sys) (hs : I s)
    (hrd : s.ready = false) : Fin (afterConnect proxy s).state := by
  unfold afterConnect
  rw [modS_bindx, bind_ok (show getS { s with sockOpen := true } = .ok _ _ from rfl)]
  have h1 := U.sockSet s hs
  obtain ⟨r, hw⟩ := write_is_ok { s with sockOpen := true }.cfg.request none { s with sockOpen := true }
  have h2 := U.writeReq _ h1 rfl hrd
  have hrd2 : (write { s with sockOpen := true }.cfg.request none { s with sockOpen := true }).state.ready = false :=
    (Monitor.keeps_write _ _ _).ready.trans hrd
  rw [bind_ok hw]
  split
  · exact topx_closeYield T U _ _ h2
  · rename_i hne
    obtain ⟨ha, hb, hc⟩ := write_accepted hw hne
    have h3 := topx_yieldConnected T U proxy _ h2 ha hb hc hrd2
    cases hy : yieldConnected proxy (write { s with sockOpen := true }.cfg.request none { s with sockOpen := true }).state with
    | err x s3 => rw [hy] at h3; rw [bind_err hy]; exact h3
    | ok u s3 =>
      rw [hy] at h3
      rw [bind_ok hy, modS_bindx]
      exact topx_runLoop T U hloop _ (U.selSet true s3 h3)

theorem topx_afterConnectNoSel (proxy : Bool) (s : Sys) (hs : I s) (hrd : s.ready = false) :
    Fin (afterConnectNoSel proxy s).state := by
  unfold afterConnectNoSel
  rw [modS_bindx, bind_ok (show getS { s with sockOpen := true } = .ok _ _ from rfl)]
  have h1 := U.sockSet s hs
  obtain ⟨r, hw⟩ := write_is_ok { s with sockOpen := true }.cfg.request none { s with sockOpen := true }
  have h2 := U.writeReq _ h1 rfl hrd
  have hrd2 : (write { s with sockOpen := true }.cfg.request none { s with sockOpen := true }).state.ready = false :=
    (Monitor.keeps_write _ _ _).ready.trans hrd
  rw [bind_ok hw]
  split
  · exact topx_closeYield T U _ _ h2
  · rename_i hne
    obtain ⟨ha, hb, hc⟩ := write_accepted hw hne
    have h3 := topx_yieldConnected T U proxy _ h2 ha hb hc hrd2
    cases hy : yieldConnected proxy (write { s with sockOpen := true }.cfg.request none { s with sockOpen := true }).state with
    | err x s3 => rw [hy] at h3; rw [bind_err hy]; exact h3
    | ok u s3 =>
      rw [hy] at h3
      rw [bind_ok hy, modS_bindx]
      exact topx_runLoopNoSel T U _ (U.selSet false s3 h3)

theorem topx_run (hloop : SpecX I X (loop env0)) (s : Sys) (hs : I s) (hrd : s.ready = false) :
    Fin (run s).state := by
  unfold run
  have h1 := U.yieldTop .connecting (Or.inl rfl) s hs
  have hk := Monitor.yieldEv_keeps .connecting s
  cases hy : yieldEv .connecting s with
  | err x s1 =>
    rw [hy] at h1; rw [bind_err hy]
    have := Monitor.yieldEv_err_genExit hy
    subst this
    exact U.xFin s1 h1
  | ok u s1 =>
    rw [hy] at h1 hk
    have hrd1 : s1.ready = false := hk.ready.trans hrd
    rw [bind_ok hy, bind_ok (show getS s1 = .ok s1 s1 from rfl)]
    have hcf : ∀ k, Fin (yieldEv (.connectFail k) s1).state :=
      fun k => topx_yield_fin U (U.yieldTop (.connectFail k) (Or.inr ⟨k, rfl⟩) s1 h1)
    cases hcn : s1.cfg.connect with
    | socketFail => exact hcf _
    | otherFail => exact hcf _
    | ok proxy => exact topx_afterConnect T U hloop proxy s1 h1 hrd1
    | selFail proxy => exact topx_afterConnectNoSel T U proxy s1 h1 hrd1

/-- **every final state of a whole connection satisfies `Fin`** -/
theorem topx_runAll (hloop : SpecX I X (loop env0)) (cfg : Cfg) (react : React)
    (h0 : I { cfg := cfg, react := react, env := env0 }) : Fin (runAll cfg react env0) := by
  have h1 := topx_run T U hloop _ h0 rfl
  unfold runAll
  simp only []
  generalize run { cfg := cfg, react := react, env := env0 } = r at h1
  have hcs : ∀ s : Sys, Fin s → Fin (match closeSocket s with | .ok _ s' => s' | .err _ s' => s') := by
    intro s hs
    have q := U.finSock s hs
    rw [closeSocket_is_ok s]; exact q
  cases r with
  | ok a s => exact h1
  | err x s =>
    simp only [Res.state_err] at h1
    cases x with
    | genExit => simp only []; split; exact hcs s h1; exact h1
    | outer y =>
      cases y with
      | genExit => simp only []; split; exact hcs s h1; exact h1
      | _ => exact U.finInc s h1
    | _ => exact U.finInc s h1

end Top

end Lomond.Core.LiftX
