/-
  Helper lemmas for the case `cfg.connect = .selFail proxy`: `_connect()` returned a socket, the
  upgrade request went out, `Connected` was yielded — and then `self._selector_cls(sock)` raised
  (C09, C13).

  * `NoSelector`: no selector exists and none was ever closed — an invariant of the whole connection;
  * `Emits L`: which events a computation hands to the application (exactly `L` on a normal return,
    a prefix of `L` when the application abandons the iterator);
  * `run_selFail`: the complete description of `run()` in this case.
-/
import Lomond.Proofs.RunAll
set_option linter.unusedSimpArgs false
set_option linter.unusedVariables false
namespace Lomond.Core.Monitor
open Lomond Lomond.Core

/-! ### no selector is ever opened, so none is closed -/

/-- no selector exists and `selector.close()` was never called -/
def NoSelector (s : Sys) : Prop := s.selOpen = false ∧ Obs.selClose ∉ s.trace

theorem nosel_po : PO (Pres NoSelector) := pres_po NoSelector

/-- leaf tactic for `Pres NoSelector s s'` with an explicit `s'` -/
macro "nosel_leaf" : tactic =>
  `(tactic| ((try simp only [Res.state_ok, Res.state_err])
             first
              | exact fun h => h
              | (intro h; obtain ⟨h1, h2⟩ := h; refine ⟨?_, ?_⟩ <;> simp_all; done)))

theorem nosel_closeSocket : Spec (Pres NoSelector) closeSocket := by
  intro s; unfold closeSocket; splits <;> nosel_leaf

theorem nosel_write (d : Bytes) (z : Option (Nat × Bytes)) : Spec (Pres NoSelector) (write d z) := by
  intro s; unfold write; splits <;> nosel_leaf

theorem nosel_sendFrame (op : Nat) (pl : Bytes) (c : Option Bytes) : Spec (Pres NoSelector) (sendFrame op pl c) := by
  intro s; unfold sendFrame
  simp only
  splits
  all_goals first
    | nosel_leaf
    | exact nosel_po.trans (by nosel_leaf) (nosel_write _ _ _)

theorem nosel_wsClose (c : Option Nat) (r : Arg) : Spec (Pres NoSelector) (wsClose c r) := by
  intro s; unfold wsClose
  splits
  all_goals first
    | nosel_leaf
    | (rename_i h; have := (nosel_sendFrame _ _ _).ok h; exact nosel_po.trans this (by nosel_leaf))
    | (rename_i h; have := (nosel_sendFrame _ _ _).err h; exact this)

theorem nosel_sendData (op : Nat) (pl : Bytes) (c : Bool) : Spec (Pres NoSelector) (sendData op pl c) := by
  intro s; unfold sendData; split <;> exact nosel_sendFrame _ _ _ s

theorem nosel_log (o : Obs) (ho : o ≠ .selClose) : Spec (Pres NoSelector) (log o) := by
  intro s; unfold log modS
  intro h
  exact ⟨h.1, fun hm => by
    rcases List.mem_cons.mp hm with e | e
    · exact ho e.symm
    · exact h.2 e⟩

theorem nosel_logRes {m : M ActRes} (h : Spec (Pres NoSelector) m) : Spec (Pres NoSelector) (logRes m) := by
  unfold logRes
  exact spec_bind nosel_po h (fun r => nosel_log _ (by intro e; cases e))

theorem nosel_doAct (a : Act) : Spec (Pres NoSelector) (doAct a) := by
  unfold doAct
  split
  all_goals first
    | (apply nosel_logRes
       first
        | exact spec_pure nosel_po _
        | exact nosel_sendData _ _ _
        | exact nosel_wsClose _ _
        | exact spec_bind nosel_po nosel_closeSocket (fun _ => spec_pure nosel_po _)
        | (split
           · exact spec_pure nosel_po _
           · first | exact nosel_sendData _ _ _ | exact nosel_sendFrame _ _ _))
    | (intro s; nosel_leaf)

theorem nosel_doActs (as : List Act) : Spec (Pres NoSelector) (doActs as) := by
  induction as with
  | nil => exact spec_pure nosel_po ()
  | cons a r ih => unfold doActs; exact spec_bind nosel_po (nosel_doAct a) (fun _ => ih)

theorem nosel_yieldEv (e : Event) : Spec (Pres NoSelector) (yieldEv e) := by
  unfold yieldEv
  refine spec_bind nosel_po (spec_modS ?_) (fun _ => spec_getS_bind nosel_po (fun s => nosel_doActs _))
  intro s; nosel_leaf

/-- `selector.close()` with `selector is None` does nothing -/
theorem nosel_selClose : Spec (Pres NoSelector) selClose := by
  intro s h
  unfold selClose
  rw [if_neg (by rw [h.1]; exact Bool.false_ne_true)]
  exact h

theorem nosel_onLoopEnd (r : Option Exn) : Spec (Pres NoSelector) (onLoopEnd r) := by
  unfold onLoopEnd
  split
  all_goals first
    | exact spec_bind nosel_po nosel_closeSocket (fun _ => nosel_yieldEv _)
    | exact spec_throwE nosel_po _

theorem nosel_runFinally (x : Exn) : Spec (Pres NoSelector) (runFinally x) := by
  unfold runFinally
  refine spec_getS_bind nosel_po (fun s => spec_bind nosel_po ?_ (fun _ =>
    spec_bind nosel_po nosel_selClose (fun _ => spec_throwE nosel_po _)))
  split
  · exact nosel_closeSocket
  · exact spec_pure nosel_po _

theorem nosel_yieldConnected (proxy : Bool) : Spec (Pres NoSelector) (yieldConnected proxy) := by
  unfold yieldConnected
  refine spec_getS_bind nosel_po (fun s => ?_)
  split
  · exact spec_tryC nosel_po (nosel_yieldEv _)
      (fun x => spec_bind nosel_po nosel_closeSocket (fun _ => spec_throwE nosel_po _))
  · exact nosel_yieldEv _

theorem nosel_runLoopNoSel : Spec (Pres NoSelector) runLoopNoSel := by
  unfold runLoopNoSel
  exact spec_tryC nosel_po (spec_bind nosel_po (nosel_onLoopEnd _) (fun _ => nosel_selClose)) nosel_runFinally

theorem nosel_afterConnectNoSel (proxy : Bool) : Spec (Pres NoSelector) (afterConnectNoSel proxy) := by
  unfold afterConnectNoSel
  refine spec_bind nosel_po (spec_modS ?_) (fun _ => spec_getS_bind nosel_po (fun s =>
    spec_bind nosel_po (nosel_write _ _) (fun r => ?_)))
  · intro s; nosel_leaf
  · split
    · exact spec_bind nosel_po nosel_closeSocket (fun _ => nosel_yieldEv _)
    · refine spec_bind nosel_po (nosel_yieldConnected proxy) (fun _ =>
        spec_bind nosel_po (spec_modS ?_) (fun _ => nosel_runLoopNoSel))
      intro s; nosel_leaf

/-- **no selector is ever opened or closed** when the selector's constructor raises (or when
    `_connect` fails): from a state without a selector, `run()` ends without one and the trace has
    no `selClose` -/
theorem run_noSelector (s : Sys) (hc : ∀ proxy, s.cfg.connect ≠ .ok proxy) (h : NoSelector s) :
    NoSelector (run s).state := by
  unfold run
  have h1 := nosel_yieldEv .connecting s h
  have st := step_yieldEv .connecting s
  cases hy : yieldEv .connecting s with
  | err x s1 => rw [bind_err hy]; rw [hy] at h1; exact h1
  | ok u s1 =>
    rw [hy] at h1 st; simp only [Res.state_ok] at h1 st
    rw [bind_ok hy, bind_ok (show getS s1 = .ok s1 s1 from rfl)]
    cases hcn : s1.cfg.connect with
    | socketFail => exact nosel_yieldEv _ s1 h1
    | otherFail => exact nosel_yieldEv _ s1 h1
    | ok proxy => exact absurd (by rw [← st.cfg]; exact hcn) (hc proxy)
    | selFail proxy => exact nosel_afterConnectNoSel proxy s1 h1

theorem runAll_noSelector (cfg : Cfg) (react : React) (env : List EnvStep)
    (hc : ∀ proxy, cfg.connect ≠ .ok proxy) : NoSelector (runAll cfg react env) := by
  have h := run_noSelector (initSys cfg react env) hc ⟨rfl, fun h => by cases h⟩
  rcases runAll_cases cfg react env with ⟨s, hr, e⟩ | ⟨s, hr, _, _⟩ | ⟨s, hr, e⟩
  · rw [hr] at h; rw [e]; exact h
  · rw [hr] at h
    show NoSelector (match run (initSys cfg react env) with
      | .ok _ s => s
      | .err .genExit s => if s.abandonedWith then (match closeSocket s with | .ok _ s' => s' | .err _ s' => s') else s
      | .err (.outer .genExit) s => if s.abandonedWith then (match closeSocket s with | .ok _ s' => s' | .err _ s' => s') else s
      | .err .scriptEnd s => { s with trace := .incomplete :: s.trace }
      | .err _ s => { s with trace := .incomplete :: s.trace })
    rw [hr]
    simp only []
    split
    · have := nosel_closeSocket s h
      cases hcs : closeSocket s with
      | ok a s' => rw [hcs] at this; exact this
      | err x s' => rw [hcs] at this; exact this
    · exact h
  · rw [hr] at h; rw [e]
    exact ⟨h.1, fun hm => by
      rcases List.mem_cons.mp hm with e | e
      · cases e
      · exact h.2 e⟩

/-! ### the events handed to the application -/

/-- from `s`, the result `r` has handed exactly the events `L` to the application when it is a
    normal return, and a prefix of `L` when it is exceptional -/
def Emits (L : List Event) (s : Sys) (r : Res α) : Prop :=
  match r with
  | .ok _ s' => events s'.trace = events s.trace ++ L
  | .err _ s' => ∃ p, p <+: L ∧ events s'.trace = events s.trace ++ p

theorem emits_of_keeps {m : M α} (h : Spec Keeps m) (s : Sys) : Emits [] s (m s) := by
  have k := h s
  cases hm : m s with
  | ok a s' =>
    rw [hm] at k; simp only [Res.state_ok] at k
    show events s'.trace = _; rw [k.events, List.append_nil]
  | err x s' =>
    rw [hm] at k; simp only [Res.state_err] at k
    exact ⟨[], List.prefix_refl _, by rw [k.events, List.append_nil]⟩

theorem emits_yieldEv (e : Event) (s : Sys) : Emits [e] s (yieldEv e s) := by
  have k := yieldEv_keeps e s
  have ev : events (pushEv e s).trace = events s.trace ++ [e] := events_cons_ev e s.trace
  cases hm : yieldEv e s with
  | ok a s' =>
    rw [hm] at k; simp only [Res.state_ok] at k
    show events s'.trace = _; rw [k.events, ev]
  | err x s' =>
    rw [hm] at k; simp only [Res.state_err] at k
    exact ⟨[e], List.prefix_refl _, by rw [k.events, ev]⟩

theorem emits_bind {m : M α} {f : α → M β} {L1 L2 : List Event} {s : Sys} (hm : Emits L1 s (m s))
    (hf : ∀ a s1, m s = .ok a s1 → Emits L2 s1 (f a s1)) : Emits (L1 ++ L2) s ((m >>= f) s) := by
  cases hms : m s with
  | err x s1 =>
    rw [hms] at hm
    obtain ⟨p, hp, e⟩ := hm
    rw [bind_err hms]
    exact ⟨p, hp.trans (List.prefix_append _ _), e⟩
  | ok a s1 =>
    rw [hms] at hm
    have h2 := hf a s1 hms
    rw [bind_ok hms]
    cases hfs : f a s1 with
    | ok b s2 =>
      rw [hfs] at h2
      show events s2.trace = _
      rw [show events s2.trace = events s1.trace ++ L2 from h2, show events s1.trace = events s.trace ++ L1 from hm,
        List.append_assoc]
    | err x s2 =>
      rw [hfs] at h2
      obtain ⟨p, hp, e⟩ := h2
      refine ⟨L1 ++ p, (List.prefix_append_right_inj L1).mpr hp, ?_⟩
      rw [e, show events s1.trace = events s.trace ++ L1 from hm, List.append_assoc]

/-- `try: m  except: <no event>; raise` -/
theorem emits_tryC_reraise {m : M α} {h : Exn → M α} {L : List Event} {s : Sys} (hm : Emits L s (m s))
    (hh : ∀ x s1, ∃ y s2, h x s1 = .err y s2 ∧ events s2.trace = events s1.trace) :
    Emits L s (tryC m h s) := by
  cases hms : m s with
  | ok a s1 => rw [hms] at hm; rw [tryC_ok hms]; exact hm
  | err x s1 =>
    rw [hms] at hm
    obtain ⟨p, hp, e⟩ := hm
    rw [tryC_err hms]
    obtain ⟨y, s2, h2, e2⟩ := hh x s1
    rw [h2]
    exact ⟨p, hp, by rw [e2, e]⟩

theorem Emits.mono_state {L : List Event} {s s0 : Sys} {r : Res α} (h : Emits L s r)
    (e : events s.trace = events s0.trace) : Emits L s0 r := by
  cases r with
  | ok a s' => show events s'.trace = _; rw [← e]; exact h
  | err x s' => obtain ⟨p, hp, e'⟩ := h; exact ⟨p, hp, by rw [← e]; exact e'⟩

theorem runFinally_reraise (x : Exn) (s1 : Sys) :
    ∃ y s2, runFinally x s1 = .err y s2 ∧ events s2.trace = events s1.trace := by
  obtain ⟨s2, h2⟩ := runFinally_err x s1
  exact ⟨x, s2, h2, ((keeps_runFinally x).err h2).events⟩

theorem emits_closeThenYield (e : Event) (s : Sys) :
    Emits [e] s ((do closeSocket; yieldEv e : M Unit) s) :=
  emits_bind (L1 := []) (emits_of_keeps keeps_closeSocket s) (fun _ s1 _ => emits_yieldEv e s1)

theorem emits_yieldConnected (proxy : Bool) (s : Sys) :
    Emits [.connected proxy] s (yieldConnected proxy s) := by
  unfold yieldConnected
  rw [bind_ok (show getS s = .ok s s from rfl)]
  split
  · refine emits_tryC_reraise (emits_yieldEv _ s) (fun x s1 => ?_)
    obtain ⟨s2, h2⟩ := closeSocket_ok s1
    exact ⟨x, s2, by rw [bind_ok h2]; rfl, (keeps_closeSocket.ok h2).events⟩
  · exact emits_yieldEv _ s

/-- the `try` statement when the selector's constructor raised: exactly `Disconnected('error; …')` -/
theorem emits_runLoopNoSel (s : Sys) : Emits [.disconnected "error" false] s (runLoopNoSel s) := by
  unfold runLoopNoSel
  refine emits_tryC_reraise ?_ runFinally_reraise
  have : Emits ([.disconnected "error" false] ++ []) s
      ((do onLoopEnd (some (.other "error")); selClose : M Unit) s) :=
    emits_bind (show Emits [.disconnected "error" false] s (onLoopEnd (some (.other "error")) s) from
        emits_closeThenYield _ s)
      (fun _ s1 _ => emits_of_keeps keeps_selClose s1)
  exact this

/-- the events of `run()` after `Connecting` when the selector cannot be constructed: `Connected`
    then `Disconnected('error; …', graceful=False)` — or `ConnectFail` when already the upgrade
    request could not be written -/
theorem emits_afterConnectNoSel (proxy : Bool) (s : Sys) :
    Emits [.connected proxy, .disconnected "error" false] s (afterConnectNoSel proxy s) ∨
    Emits [.connectFail "request-failed"] s (afterConnectNoSel proxy s) := by
  unfold afterConnectNoSel
  rw [modS_bind, bind_ok (show getS { s with sockOpen := true } = .ok _ _ from rfl)]
  obtain ⟨r, s1, hw⟩ := write_ok s.cfg.request none { s with sockOpen := true }
  have e1 : events s1.trace = events s.trace := ((keeps_write _ _).ok hw).events
  rw [bind_ok hw]
  split
  · exact Or.inr ((emits_closeThenYield _ s1).mono_state e1)
  · refine Or.inl (Emits.mono_state ?_ e1)
    refine emits_bind (L1 := [.connected proxy]) (L2 := [.disconnected "error" false])
      (emits_yieldConnected proxy s1) (fun _ s2 _ => ?_)
    rw [modS_bind]
    exact (emits_runLoopNoSel _).mono_state rfl

/-- the possible event lists of a connection whose selector cannot be constructed -/
theorem emits_run_selFail (proxy : Bool) (s : Sys) (hc : s.cfg.connect = .selFail proxy) :
    Emits [.connecting, .connected proxy, .disconnected "error" false] s (run s) ∨
    Emits [.connecting, .connectFail "request-failed"] s (run s) := by
  unfold run
  have h0 := emits_yieldEv .connecting s
  have st := step_yieldEv .connecting s
  cases hy : yieldEv .connecting s with
  | err x s1 =>
    rw [hy] at h0
    obtain ⟨p, hp, e⟩ := h0
    rw [bind_err hy]
    exact Or.inl ⟨p, hp.trans (List.prefix_append [Event.connecting] _), e⟩
  | ok u s1 =>
    rw [hy] at st; simp only [Res.state_ok] at st
    have hc1 : s1.cfg.connect = .selFail proxy := by rw [st.cfg]; exact hc
    have key : ∀ L, Emits L s1 (afterConnectNoSel proxy s1) →
        Emits (.connecting :: L) s ((yieldEv .connecting >>= fun _ => getS >>= fun s =>
          match s.cfg.connect with
          | .socketFail => yieldEv (.connectFail "connect-failed")
          | .otherFail => yieldEv (.connectFail "connect-failed")
          | .ok proxy => afterConnect proxy
          | .selFail proxy => afterConnectNoSel proxy) s) := by
      intro L hL
      refine emits_bind (L1 := [.connecting]) (L2 := L) h0 (fun _ s1' h1' => ?_)
      rw [hy] at h1'; cases h1'
      rw [bind_ok (show getS s1 = .ok s1 s1 from rfl)]
      simp only [hc1]
      exact hL
    rcases emits_afterConnectNoSel proxy s1 with h | h
    · exact Or.inl (key _ h)
    · exact Or.inr (key _ h)

/-- with this connect outcome the loop body is irrelevant -/
theorem runL_selFail (l l' : M Unit) (proxy : Bool) (s : Sys) (hc : s.cfg.connect = .selFail proxy) :
    runL l s = runL l' s := by
  unfold runL
  have st := step_yieldEv .connecting s
  cases hy : yieldEv .connecting s with
  | err x s1 => rw [bind_err hy, bind_err hy]
  | ok u s1 =>
    rw [hy] at st; simp only [Res.state_ok] at st
    have hc1 : s1.cfg.connect = .selFail proxy := by rw [st.cfg]; exact hc
    rw [bind_ok hy, bind_ok hy, bind_ok (show getS s1 = .ok s1 s1 from rfl), bind_ok (show getS s1 = .ok s1 s1 from rfl)]
    simp only [hc1]

theorem runLoopNoSel_ok_closed {s s' : Sys} (h : runLoopNoSel s = .ok () s') : s'.sockOpen = false := by
  unfold runLoopNoSel at h
  rcases onLoopEnd_state (some (.other "error")) s with ⟨a, s2, h2, hsock, _, _⟩ | ⟨x, s2, h2, _, _, _⟩
  · obtain ⟨s3, h3⟩ := selClose_ok s2
    have c3 := selClose_state s2
    rw [h3] at c3; simp only [Res.state_ok] at c3
    have : (do onLoopEnd (some (.other "error")); selClose : M Unit) s = .ok () s3 := by rw [bind_ok h2]; exact h3
    rw [tryC_ok this] at h; cases h
    exact c3.2.trans hsock
  · have : (do onLoopEnd (some (.other "error")); selClose : M Unit) s = .err x s2 := bind_err h2
    rw [tryC_err this] at h
    obtain ⟨s3, h3⟩ := runFinally_err x s2
    rw [h3] at h; cases h

theorem afterConnectNoSel_ok_closed {proxy : Bool} {s s' : Sys} (h : afterConnectNoSel proxy s = .ok () s') :
    s'.sockOpen = false := by
  unfold afterConnectNoSel at h
  rw [modS_bind, bind_ok (show getS { s with sockOpen := true } = .ok _ _ from rfl)] at h
  obtain ⟨r, s1, hw⟩ := write_ok s.cfg.request none { s with sockOpen := true }
  rw [bind_ok hw] at h
  split at h
  · have := (closeThenYield (.connectFail "request-failed") s1).1
    rw [h] at this; exact this
  · cases hy : yieldConnected proxy s1 with
    | err x s2 => rw [bind_err hy] at h; cases h
    | ok u s2 =>
      rw [bind_ok hy, modS_bind] at h
      exact runLoopNoSel_ok_closed h

/-- **`run()` when the selector cannot be constructed**, for every configuration, application and
    script: it returns normally with the socket closed — or the application abandoned the iterator;
    nothing else (no exception escapes, the script is never consulted). -/
theorem run_selFail_outcome (proxy : Bool) (s : Sys) (hc : s.cfg.connect = .selFail proxy) :
    (∃ s', run s = .ok () s' ∧ s'.sockOpen = false) ∨
    (∃ s', run s = .err .genExit s' ∧ Abandons s.react) := by
  cases hr : run s with
  | ok u s' =>
    refine Or.inl ⟨s', rfl, ?_⟩
    unfold run at hr
    have st := step_yieldEv .connecting s
    cases hy : yieldEv .connecting s with
    | err x s1 => rw [bind_err hy] at hr; cases hr
    | ok u s1 =>
      rw [hy] at st; simp only [Res.state_ok] at st
      have hc1 : s1.cfg.connect = .selFail proxy := by rw [st.cfg]; exact hc
      rw [bind_ok hy, bind_ok (show getS s1 = .ok s1 s1 from rfl)] at hr
      simp only [hc1] at hr
      exact afterConnectNoSel_ok_closed hr
  | err x s' =>
    have h1 := hr
    rw [run_eq_runL, runL_selFail _ (throwE (.other "error")) proxy s hc] at h1
    rcases raises_runL (se := False) _ (raises_selectorError False) s x s' h1 with ⟨hx, ha⟩ | ⟨_, hf⟩
    · subst hx
      have : s'.react = s.react := ((same_runL (spec_throwE same_po _)).err h1).2
      exact Or.inr ⟨s', rfl, this ▸ ha⟩
    · exact hf.elim

end Lomond.Core.Monitor
