/-
  C14, run level — the trace of every run satisfies the Pong grammar `Good` (Proofs/PongTrace.lean).

  The invariant `J` ties the websocket state to the trace:
    * `sc`  the socket is closed  ⇔  the trace contains `sockClose`;
    * `mk`  closing or closed     ⇒  the trace is `marked` (a `sockClose` or a Close frame handed
                                      to `sendall`);
    * `inv` (Proofs/Closing.lean)   a Close frame handed to `sendall` ⇒ closing or closed;
  so that `send_pong` is refused exactly when the trace before the Ping event is not `usable`.
  `J` is established when the upgrade request has been handed to `sendall` and is kept by every
  function of the core model up to the end of `run` (a copy of the tower of Proofs/Closing.lean).
-/
import Lomond.Proofs.PongTrace
import Lomond.Proofs.Timers
set_option linter.unusedSimpArgs false
set_option linter.unusedVariables false
namespace Lomond.Core.PongRun
open Lomond Lomond.Core Lomond.Core.Pong

/-! ### the invariant -/

/-- no `sendall` of the connection raises -/
def NoFail (cfg : Cfg) : Prop := ∀ k, cfg.writeFails k = false

/-- no failed `sendall` on the trace -/
def NoFailTr (tr : List Obs) : Prop := ∀ o ∈ tr, o.isFail = false

theorem nofail_cons {o : Obs} {t : List Obs} (ho : o.isFail = false) (h : NoFailTr t) : NoFailTr (o :: t) := by
  intro x hx
  rcases List.mem_cons.mp hx with rfl | hx
  · exact ho
  · exact h x hx

/-- the part of the invariant that relates state and trace -/
structure JS (auto : Bool) (s : Sys) : Prop where
  auto : s.cfg.autoPong = auto
  va : s.cfg.v.closeArgs = true
  inv : Inv s
  sc : hasSockClose s.trace = !s.sockOpen
  mkd : Shut s → marked s.trace = true
  nf : NoFail s.cfg → NoFailTr s.trace

structure J (auto : Bool) (s : Sys) : Prop where
  js : JS auto s
  good : Good auto s.trace

def RJ (auto : Bool) (s s' : Sys) : Prop := J auto s → J auto s'

theorem rj_po (auto : Bool) : PO (RJ auto) where
  refl _ := id
  trans h1 h2 := fun h => h2 (h1 h)

/-- the trace before the next entry shows a usable connection iff the websocket accepts writes -/
theorem JS.usable_iff {auto : Bool} {s : Sys} (h : JS auto s) : usable s.trace = true ↔ Open s := by
  unfold usable marked
  constructor
  · intro hu
    have h1 : hasSockClose s.trace = false := by
      cases hh : hasSockClose s.trace
      · rfl
      · rw [hh] at hu; cases hu
    have h2 : hasClose s.trace = false := by
      cases hh : hasClose s.trace
      · rfl
      · rw [hh] at hu; simp at hu
    have hso : s.sockOpen = true := by
      have := h.sc; rw [h1] at this
      cases hs : s.sockOpen
      · rw [hs] at this; cases this
      · rfl
    have hns : ¬ Shut s := by
      intro hs
      have := h.mkd hs
      unfold marked at this; rw [h1, h2] at this; cases this
    refine ⟨hso, ?_, ?_⟩
    · cases hc : s.closing
      · rfl
      · exact absurd (Or.inl hc) hns
    · cases hc : s.closed
      · rfl
      · exact absurd (Or.inr hc) hns
  · intro ⟨h1, h2, h3⟩
    have a : hasSockClose s.trace = false := by rw [h.sc, h1]; rfl
    have b : hasClose s.trace = false := h.inv.noClose h2 h3
    rw [a, b]; rfl

theorem JS.not_usable {auto : Bool} {s : Sys} (h : JS auto s) (hn : ¬ Open s) : usable s.trace = false := by
  cases hu : usable s.trace
  · rfl
  · exact absurd (h.usable_iff.mp hu) hn

/-- a step that leaves trace and the fields `J` looks at alone -/
theorem JS.same {auto : Bool} {s s' : Sys} (h : JS auto s) (hi : Inv s') (hc : s'.cfg = s.cfg)
    (ht : s'.trace = s.trace) (hso : s'.sockOpen = s.sockOpen) (hk : Shut s' → Shut s) : JS auto s' :=
  ⟨by rw [hc]; exact h.auto, by rw [hc]; exact h.va, hi, by rw [ht, hso]; exact h.sc,
   fun hs => by rw [ht]; exact h.mkd (hk hs), fun h0 => by rw [ht]; exact h.nf (hc ▸ h0)⟩

/-- one more entry that is not a `sockClose` -/
theorem JS.cons {auto : Bool} {s s' : Sys} (o : Obs) (h : JS auto s) (hi : Inv s') (hc : s'.cfg = s.cfg)
    (ht : s'.trace = o :: s.trace) (ho : o.sockCl = false) (hso : s'.sockOpen = s.sockOpen)
    (hk : Shut s' → Shut s ∨ o.isClose = true) (hf : NoFail s.cfg → o.isFail = false) : JS auto s' := by
  refine ⟨by rw [hc]; exact h.auto, by rw [hc]; exact h.va, hi, ?_, ?_, ?_⟩
  · rw [ht, hasSockClose_cons, ho, hso]; exact h.sc
  · intro hs
    rw [ht]
    rcases hk hs with h1 | h1
    · exact marked_mono _ _ (h.mkd h1)
    · rw [marked_cons, h1]; simp
  · intro h0; rw [ht]; exact nofail_cons (hf (hc ▸ h0)) (h.nf (hc ▸ h0))

/-- the socket has just been closed -/
theorem JS.afterSockClose {auto : Bool} {s s' : Sys} (h : JS auto s) (hi : Inv s') (hc : s'.cfg = s.cfg)
    (ht : s'.trace = .sockClose :: s.trace) (hso : s'.sockOpen = false) : JS auto s' := by
  refine ⟨by rw [hc]; exact h.auto, by rw [hc]; exact h.va, hi, ?_, ?_, ?_⟩
  · rw [ht, hso]; rfl
  · intro _; rw [ht]; rfl
  · intro h0; rw [ht]; exact nofail_cons rfl (h.nf (hc ▸ h0))

theorem J.same {auto : Bool} {s s' : Sys} (h : J auto s) (hi : Inv s') (hc : s'.cfg = s.cfg)
    (ht : s'.trace = s.trace) (hso : s'.sockOpen = s.sockOpen) (hk : Shut s' → Shut s) : J auto s' :=
  ⟨h.js.same hi hc ht hso hk, by rw [ht]; exact h.good⟩

/-- one more plain entry -/
theorem J.cons {auto : Bool} {s s' : Sys} (o : Obs) (h : J auto s) (hi : Inv s') (hc : s'.cfg = s.cfg)
    (ht : s'.trace = o :: s.trace) (ho : o.sockCl = false) (hp : o.pongOut = false) (he : o.pingEv = false)
    (hso : s'.sockOpen = s.sockOpen) (hk : Shut s' → Shut s ∨ o.isClose = true)
    (hf : NoFail s.cfg → o.isFail = false := by intro _; rfl) : J auto s' :=
  ⟨h.js.cons o hi hc ht ho hso hk hf, by rw [ht]; exact .plain hp he h.good⟩

theorem J.afterSockClose {auto : Bool} {s s' : Sys} (h : J auto s) (hi : Inv s') (hc : s'.cfg = s.cfg)
    (ht : s'.trace = .sockClose :: s.trace) (hso : s'.sockOpen = false) : J auto s' :=
  ⟨h.js.afterSockClose hi hc ht hso, by rw [ht]; exact .plain rfl rfl h.good⟩

/-- bookkeeping updates: nothing `J` looks at changes -/
structure Keep5 (s s' : Sys) : Prop where
  cfg : s'.cfg = s.cfg
  trace : s'.trace = s.trace
  sockOpen : s'.sockOpen = s.sockOpen
  closing : s'.closing = s.closing
  closed : s'.closed = s.closed

theorem Keep5.inv {s s' : Sys} (k : Keep5 s s') (h : Inv s) : Inv s' := by
  unfold Inv at *
  rw [k.trace, k.closing, k.closed]; exact h

theorem Keep5.shut {s s' : Sys} (k : Keep5 s s') (h : Shut s') : Shut s := by
  unfold Shut at *
  rw [k.closing, k.closed] at h; exact h

theorem rj_keep5 {auto : Bool} {s s' : Sys} (k : Keep5 s s') : RJ auto s s' :=
  fun h => h.same (k.inv h.js.inv) k.cfg k.trace k.sockOpen k.shut

macro "keep5" : tactic =>
  `(tactic| ((try simp only [Res.state_ok, Res.state_err]); exact rj_keep5 (by constructor <;> rfl)))

/-! ### the write path -/

/-- effect of `session.send(opcode, …)` on what `J` looks at -/
structure SF (op : Nat) (strict : Bool) (s s' : Sys) : Prop where
  cfg : s'.cfg = s.cfg
  sockOpen : s'.sockOpen = s.sockOpen
  closing : s'.closing = s.closing
  closed : s'.closed = s.closed
  tr : s'.trace = s.trace ∨
       (Open s ∧ ∃ o, s'.trace = o :: s.trace ∧ o.isWrite = true ∧ (o.pongOut = true → op = 10) ∧
          (o.isClose = true → op = 8) ∧ (strict = true → op = 8 → o.isClose = true) ∧
          (NoFail s.cfg → o.isFail = false))

theorem eq8 {op : Nat} (h : (op == 8) = true) : op = 8 := by simpa using h

theorem isWrite_facts {o : Obs} (h : o.isWrite = true) : o.sockCl = false ∧ o.pingEv = false ∧ o.resTok = false := by
  cases o <;> first | exact ⟨rfl, rfl, rfl⟩ | cases h

theorem isPongBytes_build (op : Nat) (pl key bs : Bytes) (h : Frame.build op pl key = some bs)
    (hp : isPongBytes bs = true) : op = 10 := by
  obtain ⟨r, rfl⟩ := build_first_byte op pl key bs h
  simp [isPongBytes] at hp
  omega

/-- `session.write`: refused without touching anything, or (websocket open) exactly one entry -/
theorem write_cases (d : Bytes) (z : Option (Nat × Bytes)) (s : Sys) :
    (¬ Open s ∧ ∃ r, write d z s = .ok r s) ∨
    (Open s ∧ ∃ r o, write d z s = .ok r { s with writeCtr := s.writeCtr + 1, trace := o :: s.trace } ∧
      (NoFail s.cfg → o.isFail = false) ∧
      (o = .wrFail d ∨ (z = none ∧ o = .wr d) ∨ ∃ op pl, z = some (op, pl) ∧ o = .wrz op pl)) := by
  by_cases ho : Open s
  · right
    obtain ⟨h1, h2, h3⟩ := ho
    refine ⟨⟨h1, h2, h3⟩, ?_⟩
    by_cases h4 : s.cfg.writeFails s.writeCtr = true
    · exact ⟨.transportFail, .wrFail d, by unfold write; simp [h1, h2, h3, h4],
        fun h0 => (by rw [h0 _] at h4; cases h4), Or.inl rfl⟩
    · cases z with
      | none => exact ⟨.ok, .wr d, by unfold write; simp [h1, h2, h3, h4], fun _ => rfl, Or.inr (Or.inl ⟨rfl, rfl⟩)⟩
      | some p =>
        obtain ⟨op, pl⟩ := p
        exact ⟨.ok, .wrz op pl, by unfold write; simp [h1, h2, h3, h4], fun _ => rfl, Or.inr (Or.inr ⟨op, pl, rfl, rfl⟩)⟩
  · left
    refine ⟨ho, ?_⟩
    by_cases h1 : s.sockOpen = true
    · by_cases h2 : s.closed = true
      · exact ⟨.wsClosed, by unfold write; simp [h1, h2]⟩
      · by_cases h3 : s.closing = true
        · exact ⟨.wsClosing, by unfold write; simp [h1, h2, h3]⟩
        · exact absurd ⟨h1, by simpa using h3, by simpa using h2⟩ ho
    · exact ⟨.wsUnavailable, by unfold write; simp [h1]⟩

theorem sf_refl (op : Nat) (b : Bool) (s : Sys) : SF op b s s := ⟨rfl, rfl, rfl, rfl, Or.inl rfl⟩

theorem sf_sendFrame (op : Nat) (pl : Bytes) (c : Option Bytes) (hop : op < 16) (s : Sys) :
    ∃ r s', sendFrame op pl c s = .ok r s' ∧ SF op c.isNone s s' := by
  unfold sendFrame
  simp only []
  cases c with
  | some plain =>
    simp only []
    rcases write_cases [] (some (op, plain)) { s with keyCtr := s.keyCtr + 1 } with ⟨_, r, e⟩ | ⟨ho, r, o, e, hnf, ho'⟩
    · exact ⟨r, _, e, rfl, rfl, rfl, rfl, Or.inl rfl⟩
    · refine ⟨r, _, e, rfl, rfl, rfl, rfl, Or.inr ⟨ho, o, rfl, ?_⟩⟩
      rcases ho' with rfl | ⟨h, _⟩ | ⟨op', pl', h, rfl⟩
      · exact ⟨rfl, fun h => (by cases h), fun h => (by cases h), fun h => (by cases h), hnf⟩
      · cases h
      · cases h
        exact ⟨rfl, fun h => (by cases h), fun h => eq8 h, fun h => (by cases h), hnf⟩
  | none =>
    simp only []
    cases hb : Frame.build op pl (s.cfg.maskKey s.keyCtr) with
    | none => exact ⟨.valueError, _, rfl, rfl, rfl, rfl, rfl, Or.inl rfl⟩
    | some bs =>
      simp only []
      have hcl := isCloseBytes_build op pl _ bs hop hb
      have hpg : isPongBytes bs = true → op = 10 := isPongBytes_build op pl _ bs hb
      rcases write_cases bs none { s with keyCtr := s.keyCtr + 1 } with ⟨_, r, e⟩ | ⟨ho, r, o, e, hnf, ho'⟩
      · exact ⟨r, _, e, rfl, rfl, rfl, rfl, Or.inl rfl⟩
      · refine ⟨r, _, e, rfl, rfl, rfl, rfl, Or.inr ⟨ho, o, rfl, ?_⟩⟩
        rcases ho' with rfl | ⟨_, rfl⟩ | ⟨op', pl', h, _⟩
        · exact ⟨rfl, hpg, fun h => eq8 (hcl ▸ h), fun _ h8 => (by show isCloseBytes bs = true; rw [hcl, h8]; rfl), hnf⟩
        · exact ⟨rfl, hpg, fun h => eq8 (hcl ▸ h), fun _ h8 => (by show isCloseBytes bs = true; rw [hcl, h8]; rfl), hnf⟩
        · cases h

theorem SF.shut {op : Nat} {b : Bool} {s s' : Sys} (h : SF op b s s') (hs : Shut s') : Shut s := by
  unfold Shut at *; rw [h.closing, h.closed] at hs; exact hs

/-- a frame that is neither a Pong nor a Close keeps `JS` (given `Inv` of the result) -/
theorem JS.of_sf {auto : Bool} {op : Nat} {b : Bool} {s s' : Sys} (h : JS auto s) (f : SF op b s s')
    (hi : Inv s') (h8 : op ≠ 8) : JS auto s' := by
  rcases f.tr with e | ⟨_, o, e, hw, _, hc, _, hnf⟩
  · exact h.same hi f.cfg e f.sockOpen f.shut
  · exact h.cons o hi f.cfg e (isWrite_facts hw).1 f.sockOpen (fun hs => Or.inl (f.shut hs)) hnf

theorem J.of_sf {auto : Bool} {op : Nat} {b : Bool} {s s' : Sys} (h : J auto s) (f : SF op b s s')
    (hi : Inv s') (h8 : op ≠ 8) (h10 : op ≠ 10) : J auto s' := by
  refine ⟨h.js.of_sf f hi h8, ?_⟩
  rcases f.tr with e | ⟨_, o, e, hw, hp, _, _⟩
  · rw [e]; exact h.good
  · rw [e]
    refine .plain ?_ (isWrite_facts hw).2.1 h.good
    cases hpo : o.pongOut
    · rfl
    · exact absurd (hp hpo) h10

/-- a library send of a frame that is neither Pong nor Close -/
theorem rj_sendFrame (auto : Bool) (op : Nat) (pl : Bytes) (c : Option Bytes) (hop : op < 16) (h8 : op ≠ 8)
    (h10 : op ≠ 10) : Spec (RJ auto) (sendFrame op pl c) := by
  intro s hJ
  obtain ⟨r, s', e, f⟩ := sf_sendFrame op pl c hop s
  have hi := (cl_sendFrame op pl c ⟨hop, h8⟩ s).inv hJ.js.inv
  rw [e] at hi ⊢
  exact hJ.of_sf f hi h8 h10

/-! ### `WebSocket.close()` -/

/-- what `close()` does to the fields `J` looks at -/
structure WC (s s' : Sys) (r : ActRes) : Prop where
  cfg : s'.cfg = s.cfg
  sockOpen : s'.sockOpen = s.sockOpen
  closed : s'.closed = s.closed
  tr : (s'.trace = s.trace ∧ (Shut s' → Shut s ∨ ¬ Open s)) ∨
       (Open s ∧ ∃ o, s'.trace = o :: s.trace ∧ o.isWrite = true ∧ o.isClose = true ∧ o.pongOut = false ∧
          (NoFail s.cfg → o.isFail = false))
  res : (r = .ok ∧ Shut s') ∨ ((r = .valueError ∨ r = .typeError ∨ r = .structError) ∧ s' = s)

theorem sendFrame_close (payload : Bytes) (h : payload.length ≤ 125) (s : Sys) :
    sendFrame Gen.opClose payload none s =
      write (closeFrame payload (s.cfg.maskKey s.keyCtr)) none { s with keyCtr := s.keyCtr + 1 } := by
  unfold sendFrame; simp only [build_close _ _ h]

/-- the tail of `close()` once the arguments are accepted -/
theorem wc_send (payload : Bytes) (h : payload.length ≤ 125) (s : Sys) (t : Sys → Option Nat) :
    ∃ s', (match sendFrame Gen.opClose payload none s with
            | .ok _ s' => Res.ok ActRes.ok { s' with closing := true, sentCloseTime := t s' }
            | .err x s' => .err x s') = .ok .ok s' ∧ WC s s' .ok := by
  rw [sendFrame_close payload h s]
  rcases write_cases (closeFrame payload (s.cfg.maskKey s.keyCtr)) none { s with keyCtr := s.keyCtr + 1 }
    with ⟨ho, r, e⟩ | ⟨ho, r, o, e, hnf, ho'⟩
  · rw [e]
    exact ⟨_, rfl, rfl, rfl, rfl, Or.inl ⟨rfl, fun _ => Or.inr ho⟩, Or.inl ⟨rfl, Or.inl rfl⟩⟩
  · rw [e]
    refine ⟨_, rfl, rfl, rfl, rfl, Or.inr ⟨ho, o, rfl, ?_⟩, Or.inl ⟨rfl, Or.inl rfl⟩⟩
    rcases ho' with rfl | ⟨_, rfl⟩ | ⟨op', pl', h', _⟩
    · exact ⟨rfl, rfl, rfl, hnf⟩
    · exact ⟨rfl, rfl, rfl, hnf⟩
    · cases h'

theorem wc_arg (s : Sys) (r : ActRes) (hr : r = .valueError ∨ r = .typeError ∨ r = .structError) : WC s s r :=
  ⟨rfl, rfl, rfl, Or.inl ⟨rfl, fun h => Or.inl h⟩, Or.inr ⟨hr, rfl⟩⟩

theorem wc_other (s : Sys) (tb : Bool) :
    ∃ r s', (if s.cfg.v.closeArgs = true ∧ tb = true then Res.ok ActRes.valueError s
             else Res.ok ActRes.typeError s) = .ok r s' ∧ WC s s' r := by
  split
  · exact ⟨_, _, rfl, wc_arg s _ (Or.inl rfl)⟩
  · exact ⟨_, _, rfl, wc_arg s _ (Or.inr (Or.inl rfl))⟩

theorem wc_tail (s : Sys) (hv : s.cfg.v.closeArgs = true) (tb : Bool) (payload : Bytes) :
    ∃ r s', (if s.cfg.v.closeArgs = true ∧ (tb = true ∨ payload.length > 125) then Res.ok ActRes.valueError s
             else if tb = true then Res.ok ActRes.structError s
             else match sendFrame Gen.opClose payload none s with
               | .ok _ s' => Res.ok ActRes.ok { s' with closing := true, sentCloseTime := some (sessionTime s') }
               | .err x s' => .err x s') = .ok r s' ∧ WC s s' r := by
  split
  · exact ⟨_, _, rfl, wc_arg s _ (Or.inl rfl)⟩
  · rename_i hno
    split
    · exact ⟨_, _, rfl, wc_arg s _ (Or.inr (Or.inr rfl))⟩
    · have hle : payload.length ≤ 125 := by
        cases hl : decide (payload.length ≤ 125)
        · exfalso; apply hno; refine ⟨hv, Or.inr ?_⟩; simp at hl; omega
        · simpa using hl
      obtain ⟨s', e, w⟩ := wc_send payload hle s (fun s' => some (sessionTime s'))
      exact ⟨.ok, s', e, w⟩

theorem wc_wsClose (code : Option Nat) (reason : Arg) (s : Sys) (hv : s.cfg.v.closeArgs = true) :
    ∃ r s', wsClose code reason s = .ok r s' ∧ WC s s' r := by
  by_cases hs : Shut s
  · exact ⟨.ok, s, wsClose_again code reason s hs, rfl, rfl, rfl, Or.inl ⟨rfl, fun h => Or.inl h⟩, Or.inl ⟨rfl, hs⟩⟩
  · have hcd : ¬ s.closed = true := fun h => hs (Or.inr h)
    have hcg : ¬ s.closing = true := fun h => hs (Or.inl h)
    unfold wsClose
    rw [if_neg hcd, if_neg hcg]
    cases code <;> cases reason <;> first | exact wc_other s _ | exact wc_tail s hv _ _

theorem WC.shut {s s' : Sys} {r : ActRes} (w : WC s s' r) {auto : Bool} (h : JS auto s) (hs : Shut s') :
    marked s'.trace = true := by
  rcases w.tr with ⟨e, hk⟩ | ⟨_, o, e, _, hc, _⟩
  · rw [e]
    rcases hk hs with h1 | h1
    · exact h.mkd h1
    · have := h.not_usable h1
      unfold usable at this
      cases hm : marked s.trace
      · rw [hm] at this; cases this
      · rfl
  · rw [e, marked_cons, hc]; simp

theorem J.of_wc {auto : Bool} {s s' : Sys} {r : ActRes} (h : J auto s) (w : WC s s' r) (hi : Inv s') : J auto s' := by
  have hm := w.shut h.js
  refine ⟨⟨by rw [w.cfg]; exact h.js.auto, by rw [w.cfg]; exact h.js.va, hi, ?_, hm, ?_⟩, ?_⟩
  · rcases w.tr with ⟨e, _⟩ | ⟨_, o, e, hw, _, _⟩
    · rw [e, w.sockOpen]; exact h.js.sc
    · rw [e, hasSockClose_cons, (isWrite_facts hw).1, w.sockOpen]; exact h.js.sc
  · intro h0
    rcases w.tr with ⟨e, _⟩ | ⟨_, o, e, _, _, _, hnf⟩
    · rw [e]; exact h.js.nf (w.cfg ▸ h0)
    · rw [e]; exact nofail_cons (hnf (w.cfg ▸ h0)) (h.js.nf (w.cfg ▸ h0))
  · rcases w.tr with ⟨e, _⟩ | ⟨_, o, e, hw, _, hp, _⟩
    · rw [e]; exact h.good
    · rw [e]; exact .plain hp (isWrite_facts hw).2.1 h.good

theorem rj_wsClose (auto : Bool) (code : Option Nat) (reason : Arg) : Spec (RJ auto) (wsClose code reason) := by
  intro s hJ
  obtain ⟨r, s', e, w⟩ := wc_wsClose code reason s hJ.js.va
  have hi := (cl_wsClose code reason s).inv hJ.js.inv
  rw [e] at hi ⊢
  exact hJ.of_wc w hi

/-! ### application calls -/

/-- an API call made by the application: never raises, keeps `JS`, adds at most one entry, which
    is not an event -/
def AppM (auto : Bool) (m : M ActRes) : Prop :=
  ∀ s, J auto s → ∃ r s', m s = .ok r s' ∧ JS auto s' ∧
    (s'.trace = s.trace ∨ ∃ o, s'.trace = o :: s.trace ∧ o.pingEv = false)

theorem app_pure (auto : Bool) (r : ActRes) : AppM auto (pure r) :=
  fun s h => ⟨r, s, rfl, h.js, Or.inl rfl⟩

theorem app_sendFrame (auto : Bool) (op : Nat) (pl : Bytes) (c : Option Bytes) (hop : op < 16) (h8 : op ≠ 8) :
    AppM auto (sendFrame op pl c) := by
  intro s hJ
  obtain ⟨r, s', e, f⟩ := sf_sendFrame op pl c hop s
  have hi := (cl_sendFrame op pl c ⟨hop, h8⟩ s).inv hJ.js.inv
  rw [e] at hi
  refine ⟨r, s', e, hJ.js.of_sf f hi h8, ?_⟩
  rcases f.tr with e1 | ⟨_, o, e1, hw, _⟩
  · exact Or.inl e1
  · exact Or.inr ⟨o, e1, (isWrite_facts hw).2.1⟩

theorem app_sendData (auto : Bool) (op : Nat) (pl : Bytes) (c : Bool) (hop : op < 16) (h8 : op ≠ 8) :
    AppM auto (sendData op pl c) := by
  intro s hJ
  unfold sendData
  split
  · exact app_sendFrame auto op [] (some pl) hop h8 s hJ
  · exact app_sendFrame auto op pl none hop h8 s hJ

theorem app_wsClose (auto : Bool) (code : Option Nat) (reason : Arg) : AppM auto (wsClose code reason) := by
  intro s hJ
  obtain ⟨r, s', e, w⟩ := wc_wsClose code reason s hJ.js.va
  have hi := (cl_wsClose code reason s).inv hJ.js.inv
  rw [e] at hi
  refine ⟨r, s', e, (hJ.of_wc w hi).js, ?_⟩
  rcases w.tr with ⟨e1, _⟩ | ⟨_, o, e1, hw, _⟩
  · exact Or.inl e1
  · exact Or.inr ⟨o, e1, (isWrite_facts hw).2.1⟩

theorem J.closeSocket {auto : Bool} {s : Sys} (h : J auto s) : J auto (sockClosed s) := by
  have hi : Inv (sockClosed s) := by
    have := (cl_closeSocket s).inv h.js.inv
    rw [closeSocket_eq] at this; exact this
  unfold sockClosed at hi ⊢
  split
  · rename_i ho
    rw [if_pos ho] at hi
    exact h.afterSockClose hi rfl rfl rfl
  · exact h

theorem rj_closeSocket (auto : Bool) : Spec (RJ auto) closeSocket := by
  intro s h; rw [closeSocket_eq]; exact h.closeSocket

theorem app_sessionClose (auto : Bool) : AppM auto (do closeSocket; pure ActRes.ok) := by
  intro s hJ
  have e : (do closeSocket; pure ActRes.ok : M ActRes) s = .ok .ok (sockClosed s) := by
    show (closeSocket >>= fun _ => (pure ActRes.ok : M ActRes)) s = _
    rw [bind_ok (closeSocket_eq s)]; rfl
  refine ⟨.ok, sockClosed s, e, hJ.closeSocket.js, ?_⟩
  unfold sockClosed
  split
  · exact Or.inr ⟨.sockClose, rfl, rfl⟩
  · exact Or.inl rfl

theorem app_ite (auto : Bool) (c : Prop) [Decidable c] {m k : M ActRes} (hm : AppM auto m) (hk : AppM auto k) :
    AppM auto (if c then m else k) := by
  split <;> assumption

theorem inv_res {s : Sys} (r : ActRes) (h : Inv s) : Inv { s with trace := .res r :: s.trace } :=
  (Cl.of_ext (s := s) (s' := { s with trace := .res r :: s.trace }) [.res r] rfl rfl id).inv h

theorem rj_logRes {auto : Bool} {m : M ActRes} (hm : AppM auto m) : Spec (RJ auto) (logRes m) := by
  intro s hJ
  obtain ⟨r, s1, e, js, ht⟩ := hm s hJ
  have el : logRes m s = .ok () { s1 with trace := .res r :: s1.trace } := by
    unfold logRes; rw [bind_ok e]; rfl
  rw [el]
  simp only [Res.state_ok]
  refine ⟨js.cons (.res r) (inv_res r js.inv) rfl rfl rfl rfl (fun h => Or.inl h) (fun _ => rfl), ?_⟩
  show Good auto (.res r :: s1.trace)
  rcases ht with e1 | ⟨o, e1, ho⟩
  · rw [e1]; exact .plain rfl rfl hJ.good
  · rw [e1]; exact .app ho hJ.good

theorem rj_doAct (auto : Bool) (a : Act) : Spec (RJ auto) (doAct a) := by
  unfold doAct
  split
  all_goals first
    | (apply rj_logRes
       first
        | exact app_pure auto _
        | exact app_wsClose auto _ _
        | exact app_sendData auto _ _ _ (by decide) (by decide)
        | exact app_sessionClose auto
        | exact app_ite auto _ (app_pure auto _) (app_sendData auto _ _ _ (by decide) (by decide))
        | exact app_ite auto _ (app_pure auto _) (app_sendFrame auto _ _ _ (by decide) (by decide)))
    | (intro s; keep5)

theorem rj_doActs (auto : Bool) (as : List Act) : Spec (RJ auto) (doActs as) := by
  induction as with
  | nil => exact spec_pure (rj_po auto) ()
  | cons a r ih => unfold doActs; exact spec_bind (rj_po auto) (rj_doAct auto a) (fun _ => ih)

theorem inv_pushEv {s : Sys} (e : Event) (h : Inv s) : Inv (pushEv e s) :=
  (Cl.of_ext (s := s) (s' := pushEv e s) [.ev e] rfl rfl id).inv h

/-- an event other than a Ping is put in front of the application -/
theorem J.pushOther {auto : Bool} {s : Sys} (e : Event) (he : (Obs.ev e).pingEv = false) (h : J auto s) :
    J auto (pushEv e s) :=
  h.cons (.ev e) (inv_pushEv e h.js.inv) rfl rfl rfl rfl he rfl (fun hs => Or.inl hs)

theorem rj_yieldEv (auto : Bool) (e : Event) (he : (Obs.ev e).pingEv = false) : Spec (RJ auto) (yieldEv e) := by
  intro s hJ
  rw [yieldEv_eq]
  exact rj_doActs auto _ _ (hJ.pushOther e he)

/-! ### timers -/

theorem rj_checkPoll (auto : Bool) : Spec (RJ auto) checkPoll := by
  unfold checkPoll
  refine spec_getS_bind (rj_po auto) (fun s => ?_)
  simp only []
  splits
  all_goals first
    | exact spec_pure (rj_po auto) _
    | (refine spec_bind (rj_po auto) (spec_modS ?_) (fun _ => rj_yieldEv auto _ rfl); intro s; keep5)

theorem rj_checkAutoPing (auto : Bool) : Spec (RJ auto) checkAutoPing := by
  unfold checkAutoPing
  refine spec_getS_bind (rj_po auto) (fun s => ?_)
  simp only []
  split
  · refine spec_bind (rj_po auto) (spec_modS ?_) (fun _ => spec_bind (rj_po auto)
      (rj_sendFrame auto _ _ _ (by decide) (by decide) (by decide)) (fun _ => spec_pure (rj_po auto) _))
    intro s; keep5
  · exact spec_pure (rj_po auto) _

theorem rj_checkPingTimeout (auto : Bool) : Spec (RJ auto) checkPingTimeout := by
  unfold checkPingTimeout
  refine spec_getS_bind (rj_po auto) (fun s => ?_)
  simp only []
  split
  · exact spec_bind (rj_po auto) (rj_yieldEv auto _ rfl) (fun _ => spec_throwE (rj_po auto) _)
  · exact spec_pure (rj_po auto) _

theorem rj_checkCloseTimeout (auto : Bool) : Spec (RJ auto) checkCloseTimeout := by
  unfold checkCloseTimeout
  refine spec_getS_bind (rj_po auto) (fun s => ?_)
  simp only []
  splits
  all_goals first | exact spec_pure (rj_po auto) _ | exact spec_throwE (rj_po auto) _

theorem rj_regular (auto : Bool) : Spec (RJ auto) regular := by
  unfold regular
  apply spec_bind (rj_po auto) (spec_getS (rj_po auto)); intro s
  split
  · exact spec_bind (rj_po auto) (rj_checkPoll auto) (fun _ => spec_bind (rj_po auto) (rj_checkAutoPing auto)
      (fun _ => spec_bind (rj_po auto) (rj_checkPingTimeout auto) (fun _ => rj_checkCloseTimeout auto)))
  · exact spec_pure (rj_po auto) _

/-! ### `on_disconnect`, `_on_event` -/

theorem rj_onDisconnect (auto : Bool) : Spec (RJ auto) onDisconnect := by
  intro s hJ
  have hi := (cl_onDisconnect s).inv hJ.js.inv
  have e : onDisconnect s = .ok () { sockClosed s with closing := false, closed := true } := by
    unfold onDisconnect
    rw [bind_ok (closeSocket_eq s)]; rfl
  rw [e] at hi ⊢
  simp only [Res.state_ok]
  have h1 := hJ.closeSocket
  have hso : (sockClosed s).sockOpen = false := sockClosed_sockOpen s
  have hsc : hasSockClose (sockClosed s).trace = true := by rw [h1.js.sc, hso]; rfl
  refine ⟨⟨h1.js.auto, h1.js.va, hi, h1.js.sc, ?_, h1.js.nf⟩, h1.good⟩
  intro _
  show marked (sockClosed s).trace = true
  unfold marked; rw [hsc]; rfl

/-- `_on_event` for anything but a Ping changes nothing `J` looks at -/
theorem onEvent_other_keep {e : Event} {s s1 : Sys} (he : (Obs.ev e).pingEv = false)
    (h : onEvent e s = .ok () s1) : Keep5 s s1 := by
  cases e with
  | ping d => cases he
  | ready a b => simp only [onEvent] at h; cases h; constructor <;> rfl
  | pong d => simp only [onEvent] at h; cases h; constructor <;> rfl
  | _ => simp only [onEvent] at h; cases h; constructor <;> rfl

theorem inv_onEvent_push {e : Event} {s s1 : Sys} (h : onEvent e s = .ok () s1) (hi : Inv s) :
    Inv (pushEv e s1) := inv_pushEv e (((cl_onEvent e).ok h).inv hi)

/-- **`_on_event` followed by handing the event to the application keeps the invariant**: a Ping
    received while the websocket accepts writes is answered (Pong written, or the write failed)
    right before the event; otherwise nothing is written -/
theorem J.onEvent_push {auto : Bool} {e : Event} {s s1 : Sys} (h : onEvent e s = .ok () s1) (hJ : J auto s) :
    J auto (pushEv e s1) := by
  have hi := inv_onEvent_push h hJ.js.inv
  by_cases he : (Obs.ev e).pingEv = false
  · have k := onEvent_other_keep he h
    exact (rj_keep5 k hJ).pushOther e he
  · cases e with
    | ping d =>
      clear he
      by_cases hap : s.cfg.autoPong = true
      · by_cases hlen : d.length ≤ 125
        · by_cases ho : Open s
          · obtain ⟨h1, h2, h3⟩ := ho
            have hu : usable s.trace = true := hJ.js.usable_iff.mpr ⟨h1, h2, h3⟩
            have ha : auto = true := by rw [← hJ.js.auto]; exact hap
            by_cases hw : s.cfg.writeFails s.writeCtr = true
            · rw [onEvent_ping_failed d s hap hlen h1 h2 h3 hw] at h
              cases h
              have hp : IsPongFor d (.wrFail (pongBytes d (s.cfg.maskKey s.keyCtr))) := ⟨_, Or.inr rfl⟩
              refine ⟨⟨hJ.js.auto, hJ.js.va, hi, ?_, ?_, ?_⟩, .answered ha hu hp hJ.good⟩
              · show hasSockClose (.ev (.ping d) :: .wrFail _ :: s.trace) = !s.sockOpen
                rw [hasSockClose_cons, hasSockClose_cons]; exact hJ.js.sc
              · intro hs
                exact marked_mono _ _ (marked_mono _ _ (hJ.js.mkd hs))
              · intro h0
                have : s.cfg.writeFails s.writeCtr = false := h0 s.writeCtr
                rw [this] at hw; cases hw
            · have hw' : s.cfg.writeFails s.writeCtr = false := by simpa using hw
              rw [onEvent_ping_sent d s hap hlen h1 h2 h3 hw'] at h
              cases h
              have hp : IsPongFor d (.wr (pongBytes d (s.cfg.maskKey s.keyCtr))) := ⟨_, Or.inl rfl⟩
              refine ⟨⟨hJ.js.auto, hJ.js.va, hi, ?_, ?_, ?_⟩, .answered ha hu hp hJ.good⟩
              · show hasSockClose (.ev (.ping d) :: .wr _ :: s.trace) = !s.sockOpen
                rw [hasSockClose_cons, hasSockClose_cons]; exact hJ.js.sc
              · intro hs
                exact marked_mono _ _ (marked_mono _ _ (hJ.js.mkd hs))
              · intro h0
                exact nofail_cons (o := .ev (.ping d)) rfl (nofail_cons (o := .wr _) rfl (hJ.js.nf h0))
          · have hun : s.sockOpen = false ∨ s.closing = true ∨ s.closed = true := by
              unfold Open at ho
              cases h1 : s.sockOpen
              · exact Or.inl rfl
              · cases h2 : s.closing
                · cases h3 : s.closed
                  · exact absurd ⟨h1, h2, h3⟩ ho
                  · exact Or.inr (Or.inr rfl)
                · exact Or.inr (Or.inl rfl)
            rw [onEvent_ping_skipped d s hap hlen hun] at h
            cases h
            have hu := hJ.js.not_usable ho
            refine ⟨⟨hJ.js.auto, hJ.js.va, hi, ?_, ?_, ?_⟩, .skipped (by show (auto && usable s.trace) = false; rw [hu]; simp) hJ.good⟩
            · show hasSockClose (.ev (.ping d) :: s.trace) = !s.sockOpen
              rw [hasSockClose_cons]; exact hJ.js.sc
            · intro hs; exact marked_mono _ _ (hJ.js.mkd hs)
            · intro h0; exact nofail_cons (o := .ev (.ping d)) rfl (hJ.js.nf h0)
        · rw [onEvent_ping_oversize d s hap (by omega)] at h; cases h
      · have hap' : s.cfg.autoPong = false := by simpa using hap
        rw [onEvent_ping_disabled d s hap'] at h
        cases h
        have ha : auto = false := by rw [← hJ.js.auto]; exact hap'
        refine ⟨⟨hJ.js.auto, hJ.js.va, hi, ?_, ?_, ?_⟩, .skipped (by rw [ha]; rfl) hJ.good⟩
        · show hasSockClose (.ev (.ping d) :: s.trace) = !s.sockOpen
          rw [hasSockClose_cons]; exact hJ.js.sc
        · intro hs; exact marked_mono _ _ (hJ.js.mkd hs)
        · intro h0; exact nofail_cons (o := .ev (.ping d)) rfl (hJ.js.nf h0)
    | _ => exact absurd rfl he

theorem rj_feedYield (auto : Bool) (inTry : Bool) (e : Event) : Spec (RJ auto) (feedYield inTry e) := by
  intro s hJ
  cases hE : onEvent e s with
  | ok u s1 =>
    exact feedYield_from_push (rj_po auto) (rj_doActs auto) (rj_regular auto) (rj_onDisconnect auto) inTry e s s1 hE
      (hJ.onEvent_push hE)
  | err x s1 =>
    refine feedYield_from_err (rj_po auto) (rj_onDisconnect auto) inTry e s s1 x hE ?_
    rw [onEvent_err_trace hE]; exact hJ

/-! ### `_on_close` -/

theorem checkCloseCode_cases (c : Option Nat) (s : Sys) :
    checkCloseCode c s = .ok () s ∨ ∃ x, checkCloseCode c s = .err x s := by
  unfold checkCloseCode
  splits
  all_goals first | exact Or.inl rfl | exact Or.inr ⟨_, rfl⟩

theorem raiseIfArgError_cases (r : ActRes) (s : Sys) :
    (r = .ok ∧ raiseIfArgError r s = .ok () s) ∨
    (r ≠ .ok ∧ ∃ x, raiseIfArgError r s = .err x s) ∨ (r ≠ .ok ∧ raiseIfArgError r s = .ok () s ∧
      ¬ (r = .valueError ∨ r = .structError ∨ r = .typeError)) := by
  unfold raiseIfArgError
  split
  · rename_i h
    refine Or.inr (Or.inl ⟨?_, _, rfl⟩)
    rcases h with h | h | h <;> (rw [h]; intro hh; cases hh)
  · rename_i h
    by_cases hr : r = .ok
    · exact Or.inl ⟨hr, rfl⟩
    · exact Or.inr (Or.inr ⟨hr, rfl, h⟩)

theorem rj_onClose (auto : Bool) (c : Option Nat) (r : List Nat) : Spec (RJ auto) (onClose c r) := by
  intro s hJ
  unfold onClose
  rcases checkCloseCode_cases c s with e | ⟨x, e⟩
  · rw [bind_ok e, bind_ok (show getS s = .ok s s from rfl)]
    by_cases hcd : s.closed = true
    · rw [if_pos hcd]; exact hJ
    · rw [if_neg hcd]
      by_cases hcg : s.closing = true
      · rw [if_pos hcg]
        cases hfy : feedYield true (.closed c r) s with
        | err x s1 => rw [bind_err hfy]; exact (rj_feedYield auto _ _).err hfy hJ
        | ok u s1 =>
          rw [bind_ok hfy]
          have J1 := (rj_feedYield auto _ _).ok hfy hJ
          have hm : marked s1.trace = true := by
            obtain ⟨l, el⟩ := ((step_feedYield _ _).ok hfy).traceExt
            rw [el]; exact marked_append l _ (hJ.js.mkd (Or.inl hcg))
          exact ⟨⟨J1.js.auto, J1.js.va, ⟨J1.js.inv.1, fun _ => Or.inr rfl⟩, J1.js.sc, fun _ => hm, J1.js.nf⟩, J1.good⟩
      · rw [if_neg hcg]
        cases hfy : feedYield true (.closing c r) s with
        | err x s1 => rw [bind_err hfy]; exact (rj_feedYield auto _ _).err hfy hJ
        | ok u s1 =>
          rw [bind_ok hfy]
          have J1 := (rj_feedYield auto _ _).ok hfy hJ
          obtain ⟨a, s2, e2, w⟩ := wc_wsClose c (.str r) s1 J1.js.va
          have hi2 : Inv s2 := by
            have := (cl_wsClose c (.str r) s1).inv J1.js.inv
            rw [e2] at this; exact this
          have J2 := J1.of_wc w hi2
          rw [bind_ok e2]
          rcases raiseIfArgError_cases a s2 with ⟨ha, e3⟩ | ⟨_, x, e3⟩ | ⟨ha, _, hn⟩
          · rw [bind_ok e3]
            have hs2 : Shut s2 := by
              rcases w.res with ⟨_, h⟩ | ⟨h, _⟩
              · exact h
              · rw [ha] at h; rcases h with h | h | h <;> cases h
            exact ⟨⟨J2.js.auto, J2.js.va, ⟨J2.js.inv.1, fun _ => Or.inl rfl⟩, J2.js.sc, fun _ => J2.js.mkd hs2, J2.js.nf⟩, J2.good⟩
          · rw [bind_err e3]; exact J2
          · exfalso
            rcases w.res with ⟨h, _⟩ | ⟨h, _⟩
            · exact ha h
            · apply hn; rcases h with h | h | h
              · exact Or.inl h
              · exact Or.inr (Or.inr h)
              · exact Or.inr (Or.inl h)
  · rw [bind_err e]; exact hJ

/-! ### the receive pipeline and the session loop (the tower of Proofs/Closing.lean for `RJ`) -/

theorem rj_setP (auto : Bool) (s : Sys) (p' : PState) : RJ auto s { s with p := p' } :=
  rj_keep5 (by constructor <;> rfl)

theorem rj_tick (auto : Bool) (s : Sys) (dt : Nat) : RJ auto s (tick s dt) := by
  intro h
  have hi := (cl_tick s dt).inv h.js.inv
  unfold tick at hi ⊢
  by_cases hd : dt ≠ 0
  · simp only [hd, if_true, ne_eq, not_false_eq_true] at hi ⊢
    exact h.cons (.tick (s.now + dt)) hi rfl rfl rfl rfl rfl rfl (fun hs => Or.inl hs)
  · simp only [hd, if_false] at hi ⊢
    exact h.same hi rfl rfl rfl id

theorem rj_selClose (auto : Bool) : Spec (RJ auto) selClose := by
  intro s h
  have hi := (cl_selClose s).inv h.js.inv
  unfold selClose at hi ⊢
  split
  · rename_i ho
    rw [if_pos ho] at hi
    exact h.cons .selClose hi rfl rfl rfl rfl rfl rfl (fun hs => Or.inl hs)
  · exact h

theorem rj_inflateMessage (auto : Bool) (j : Bytes) : Spec (RJ auto) (inflateMessage j) := by
  intro s; unfold inflateMessage; simp only []; splits <;> keep5

theorem rj_buildMessage (auto : Bool) (fs : List Frame) : Spec (RJ auto) (buildMessage fs) := by
  unfold buildMessage
  split
  · exact spec_throwE (rj_po auto) _
  · simp only []
    refine spec_getS_bind (rj_po auto) (fun s => ?_)
    refine spec_bind (rj_po auto) ?_ (fun _ => spec_liftE (rj_po auto) _)
    split
    · exact (rj_inflateMessage auto) _
    · exact spec_pure (rj_po auto) _

theorem rj_checkCloseCode (auto : Bool) (c : Option Nat) : Spec (RJ auto) (checkCloseCode c) := by
  unfold checkCloseCode
  splits <;> first | exact spec_pure (rj_po auto) _ | exact spec_throwE (rj_po auto) _

theorem rj_raiseIfArgError (auto : Bool) (r : ActRes) : Spec (RJ auto) (raiseIfArgError r) := by
  unfold raiseIfArgError
  split <;> first | exact spec_pure (rj_po auto) _ | exact spec_throwE (rj_po auto) _

theorem rj_onMessage (auto : Bool) (m : Msg) : Spec (RJ auto) (onMessage m) := by
  unfold onMessage
  split <;> first | exact (rj_onClose auto) _ _ | exact (rj_feedYield auto) _ _ | exact spec_pure (rj_po auto) _

theorem rj_onDataFrame (auto : Bool) (f : Frame) : Spec (RJ auto) (onDataFrame f) := by
  unfold onDataFrame
  refine spec_getS_bind (rj_po auto) (fun s => ?_)
  split
  · exact spec_throwE (rj_po auto) _
  · split
    · exact spec_throwE (rj_po auto) _
    · refine spec_bind (rj_po auto) (spec_modS ?_) (fun _ => ?_)
      · intro s; keep5
      · split
        · refine spec_getS_bind (rj_po auto) (fun s => spec_bind (rj_po auto) ((rj_buildMessage auto) _) (fun m =>
            spec_bind (rj_po auto) ((rj_onMessage auto) m) (fun _ => spec_modS ?_)))
          intro s; keep5
        · exact spec_pure (rj_po auto) _

theorem rj_notClosed (auto : Bool) : Spec (RJ auto) notClosed := by
  intro s; unfold notClosed; keep5

theorem rj_onFrame (auto : Bool) (f : Frame) : Spec (RJ auto) (onFrame f) := by
  unfold onFrame
  split
  · exact spec_bind (rj_po auto) ((rj_buildMessage auto) _) (fun m => (rj_onMessage auto) m)
  · exact (rj_onDataFrame auto) _

theorem rj_onOut (auto : Bool) (o : Out) : Spec (RJ auto) (onOut o) := by
  unfold onOut
  split
  · refine spec_getS_bind (rj_po auto) (fun s => ?_)
    split
    · refine spec_bind (rj_po auto) (spec_modS ?_) (fun _ => spec_bind (rj_po auto) (rj_onDisconnect auto) (fun _ =>
        spec_bind (rj_po auto) ((rj_feedYield auto) _ _) (fun _ => spec_pure (rj_po auto) _)))
      intro s; keep5
    · refine spec_bind (rj_po auto) (spec_modS ?_) (fun _ => spec_bind (rj_po auto) ((rj_feedYield auto) _ _) (fun _ =>
        spec_bind (rj_po auto) (spec_modS ?_) (fun _ => (rj_notClosed auto))))
      · intro s; keep5
      · intro s; keep5
  · exact spec_bind (rj_po auto) ((rj_onFrame auto) _) (fun _ => (rj_notClosed auto))

theorem rj_feedLoop (auto : Bool) (data : Bytes) : Spec (RJ auto) (feedLoop data) := by
  induction h : data.length using Nat.strongRecOn generalizing data with
  | _ n ih =>
    intro s
    rw [feedLoop]
    by_cases hd : data = []
    · simp only [hd, dite_true]; keep5
    · simp only [hd, dite_false]
      have hlt : (data.drop (s.p.remPred + 1)).length < n := by
        have : data.length ≠ 0 := fun hl => hd (List.eq_nil_of_length_eq_zero hl)
        simp only [List.length_drop]; omega
      cases hb : biteBytes s.cfg.v s.p (data.take (s.p.remPred + 1)) with
      | error x =>
        simp only [Res.state_err]
        exact (rj_setP auto) s _
      | ok r =>
        obtain ⟨p', out⟩ := r
        have hs1 : RJ auto s { s with p := p' } := (rj_setP auto) s p'
        cases out with
        | none =>
          simp only
          exact (rj_po auto).trans hs1 (ih _ hlt _ rfl _)
        | some o =>
          simp only
          have ho := (rj_onOut auto) o { s with p := p' }
          cases hr : onOut o { s with p := p' } with
          | err x s2 => rw [hr] at ho; simp only [Res.state_err] at ho ⊢; exact (rj_po auto).trans hs1 ho
          | ok go s2 =>
            rw [hr] at ho; simp only [Res.state_ok] at ho
            cases go with
            | true => simp only; exact (rj_po auto).trans hs1 ((rj_po auto).trans ho (ih _ hlt _ rfl _))
            | false => simp only [Res.state_ok]; exact (rj_po auto).trans hs1 ho

theorem rj_afterHeader (auto : Bool) (rest : Bytes) (out : Option Out) : Spec (RJ auto) (afterHeader rest out) := by
  unfold afterHeader
  split
  · refine spec_bind (rj_po auto) ((rj_onOut auto) _) (fun go => ?_)
    split
    · exact spec_bind (rj_po auto) ((rj_feedLoop auto) _) (fun _ => spec_pure (rj_po auto) _)
    · exact spec_pure (rj_po auto) _
  · exact spec_bind (rj_po auto) ((rj_feedLoop auto) _) (fun _ => spec_pure (rj_po auto) _)

theorem rj_feedHeader (auto : Bool) (data : Bytes) : Spec (RJ auto) (feedHeader data) := by
  intro s; unfold feedHeader; simp only []
  split
  · split
    · keep5
    · simp only [Res.state_ok]; exact (rj_setP auto) s _
  · split
    · keep5
    · split
      · keep5
      · rename_i p' out hr
        have h1 : RJ auto s { s with p := p' } := (rj_setP auto) s p'
        exact (rj_po auto).trans h1 ((rj_afterHeader auto) _ _ _)

theorem rj_feedBody (auto : Bool) (data : Bytes) : Spec (RJ auto) (feedBody data) := by
  intro s; unfold feedBody
  split
  · exact (rj_feedHeader auto) data s
  · have := (rj_feedLoop auto) data s
    split <;> (rename_i h; rw [h] at this; simpa using this)

theorem rj_feedHandler (auto : Bool) (x : Exn) : Spec (RJ auto) (feedHandler x) := by
  unfold feedHandler
  split
  · exact spec_bind (rj_po auto) ((rj_feedYield auto) _ _) (fun _ => spec_throwE (rj_po auto) _)
  · exact spec_bind (rj_po auto) ((rj_feedYield auto) _ _) (fun _ => spec_throwE (rj_po auto) _)
  · exact spec_bind (rj_po auto) ((rj_feedYield auto) _ _) (fun _ => spec_bind (rj_po auto) ((rj_wsClose auto) _ _) (fun r =>
      spec_bind (rj_po auto) ((rj_raiseIfArgError auto) r) (fun _ => spec_throwE (rj_po auto) _)))
  · exact spec_throwE (rj_po auto) _

theorem rj_unwrapOuter (auto : Bool) (x : Exn) : Spec (RJ auto) (unwrapOuter x) := by
  unfold unwrapOuter; split <;> exact spec_throwE (rj_po auto) _

theorem rj_wsFeed (auto : Bool) (data : Bytes) : Spec (RJ auto) (wsFeed data) := by
  intro s; unfold wsFeed
  split
  · keep5
  · exact spec_tryC (rj_po auto) (spec_tryC (rj_po auto) ((rj_feedBody auto) data) (rj_feedHandler auto)) (rj_unwrapOuter auto) s

theorem rj_onEof (auto : Bool) : Spec (RJ auto) onEof := by
  intro s; unfold onEof; split <;> keep5

theorem rj_recvStep (auto : Bool) (o : RecvOutcome) : Spec (RJ auto) (recvStep o) := by
  intro s; unfold recvStep
  split
  · exact (rj_onEof auto) s
  · split
    · keep5
    · keep5
    · exact (rj_onEof auto) s
    · rename_i bs
      split
      · exact (rj_onEof auto) s
      · have := (rj_wsFeed auto) bs s
        split <;> (rename_i h; rw [h] at this; simpa using this)

theorem rj_loop (auto : Bool) (env : List EnvStep) : Spec (RJ auto) (loop env) := by
  induction env with
  | nil => intro s; unfold loop; split <;> keep5
  | cons st rest ih =>
    intro s; unfold loop
    split
    · keep5
    · split
      · keep5
      · rename_i dt readable
        have h0 := (rj_tick auto) s dt
        have h1 := (rj_regular auto) (tick s dt)
        unfold regularTop
        split
        · rename_i x s2 hr; rw [hr] at h1; exact (rj_po auto).trans h0 h1
        · rename_i u s2 hr; rw [hr] at h1
          simp only [Res.state_ok] at h1
          split
          · exact (rj_po auto).trans h0 ((rj_po auto).trans h1 (ih s2))
          · rename_i o
            have h2 := (rj_recvStep auto) o s2
            split
            · rename_i x s3 hr2; rw [hr2] at h2; exact (rj_po auto).trans h0 ((rj_po auto).trans h1 h2)
            · rename_i s3 hr2; rw [hr2] at h2
              exact (rj_po auto).trans h0 ((rj_po auto).trans h1 ((rj_po auto).trans h2 (ih s3)))
            · rename_i s3 hr2; rw [hr2] at h2; exact (rj_po auto).trans h0 ((rj_po auto).trans h1 h2)

theorem rj_onLoopEnd (auto : Bool) (r : Option Exn) : Spec (RJ auto) (onLoopEnd r) := by
  unfold onLoopEnd
  split
  all_goals first
    | exact spec_bind (rj_po auto) (rj_closeSocket auto) (fun _ => (rj_yieldEv auto _ rfl))
    | exact spec_throwE (rj_po auto) _

theorem rj_runBody (auto : Bool) (env : List EnvStep) : Spec (RJ auto) (runBody env) := by
  unfold runBody
  refine spec_bind (rj_po auto) (spec_tryC (rj_po auto) (spec_bind (rj_po auto) ((rj_loop auto) env) (fun _ => spec_pure (rj_po auto) _))
    (fun x => spec_pure (rj_po auto) _)) (fun r => (rj_onLoopEnd auto) r)

theorem rj_runFinally (auto : Bool) (x : Exn) : Spec (RJ auto) (runFinally x) := by
  unfold runFinally
  refine spec_getS_bind (rj_po auto) (fun s => ?_)
  refine spec_bind (rj_po auto) ?_ (fun _ => spec_bind (rj_po auto) (rj_selClose auto) (fun _ => spec_throwE (rj_po auto) _))
  split
  · exact (rj_closeSocket auto)
  · exact spec_pure (rj_po auto) _

theorem rj_runLoop (auto : Bool) : Spec (RJ auto) runLoop := by
  unfold runLoop
  refine spec_getS_bind (rj_po auto) (fun s => ?_)
  exact spec_tryC (rj_po auto) (spec_bind (rj_po auto) ((rj_runBody auto) _) (fun _ => (rj_selClose auto))) (rj_runFinally auto)

theorem rj_yieldConnected (auto : Bool) (proxy : Bool) : Spec (RJ auto) (yieldConnected proxy) := by
  unfold yieldConnected
  refine spec_getS_bind (rj_po auto) (fun s => ?_)
  split
  · exact spec_tryC (rj_po auto) ((rj_yieldEv auto _ rfl)) (fun x => spec_bind (rj_po auto) (rj_closeSocket auto) (fun _ => spec_throwE (rj_po auto) _))
  · exact (rj_yieldEv auto _ rfl)

/-! ### before the socket exists: nothing can be written -/

/-- neither a write, nor a Ping event, nor a `sockClose` -/
def calm (o : Obs) : Bool := !o.isWrite && !o.pingEv && !o.sockCl

/-- no socket (and the repaired `close()` argument checks) -/
def Pre (s : Sys) : Prop := s.sockOpen = false ∧ s.cfg.v.closeArgs = true

/-- from a state without a socket: still no socket, and only calm entries were added -/
def RP (s s' : Sys) : Prop :=
  Pre s → Pre s' ∧ s'.cfg = s.cfg ∧ ∃ l, s'.trace = l ++ s.trace ∧ ∀ o ∈ l, calm o = true

theorem rp_po : PO RP where
  refl _ := fun h => ⟨h, rfl, [], rfl, by simp⟩
  trans := by
    intro a b c h1 h2 ha
    obtain ⟨hb, c1, l1, e1, n1⟩ := h1 ha
    obtain ⟨hc, c2, l2, e2, n2⟩ := h2 hb
    refine ⟨hc, c2.trans c1, l2 ++ l1, by rw [e2, e1, List.append_assoc], ?_⟩
    intro o ho
    rcases List.mem_append.mp ho with h | h
    · exact n2 o h
    · exact n1 o h

theorem rp_same {s s' : Sys} (hso : s'.sockOpen = s.sockOpen) (hc : s'.cfg = s.cfg) (ht : s'.trace = s.trace) :
    RP s s' := fun h => ⟨⟨by rw [hso]; exact h.1, by rw [hc]; exact h.2⟩, hc, [], ht, by simp⟩

theorem rp_one {s s' : Sys} (o : Obs) (hso : s'.sockOpen = s.sockOpen) (hc : s'.cfg = s.cfg)
    (ht : s'.trace = o :: s.trace) (ho : calm o = true) : RP s s' :=
  fun h => ⟨⟨by rw [hso]; exact h.1, by rw [hc]; exact h.2⟩, hc, [o], ht, by simp [ho]⟩

theorem not_open_of {s : Sys} (h : s.sockOpen = false) : ¬ Open s := by
  intro ⟨h1, _, _⟩; rw [h] at h1; cases h1

/-- an API call without a socket: no trace entry -/
def PreM (m : M ActRes) : Prop :=
  ∀ s, Pre s → ∃ r s', m s = .ok r s' ∧ s'.sockOpen = s.sockOpen ∧ s'.cfg = s.cfg ∧ s'.trace = s.trace

theorem pre_pure (r : ActRes) : PreM (pure r) := fun s h => ⟨r, s, rfl, rfl, rfl, rfl⟩

theorem pre_sendFrame (op : Nat) (pl : Bytes) (c : Option Bytes) (hop : op < 16) : PreM (sendFrame op pl c) := by
  intro s h
  obtain ⟨r, s', e, f⟩ := sf_sendFrame op pl c hop s
  refine ⟨r, s', e, f.sockOpen, f.cfg, ?_⟩
  rcases f.tr with e1 | ⟨ho, _⟩
  · exact e1
  · exact absurd ho (not_open_of h.1)

theorem pre_sendData (op : Nat) (pl : Bytes) (c : Bool) (hop : op < 16) : PreM (sendData op pl c) := by
  intro s h; unfold sendData
  split
  · exact pre_sendFrame op [] (some pl) hop s h
  · exact pre_sendFrame op pl none hop s h

theorem pre_wsClose (code : Option Nat) (reason : Arg) : PreM (wsClose code reason) := by
  intro s h
  obtain ⟨r, s', e, w⟩ := wc_wsClose code reason s h.2
  refine ⟨r, s', e, w.sockOpen, w.cfg, ?_⟩
  rcases w.tr with ⟨e1, _⟩ | ⟨ho, _⟩
  · exact e1
  · exact absurd ho (not_open_of h.1)

theorem pre_sessionClose : PreM (do closeSocket; pure ActRes.ok) := by
  intro s h
  have e : (do closeSocket; pure ActRes.ok : M ActRes) s = .ok .ok s := by
    show (closeSocket >>= fun _ => (pure ActRes.ok : M ActRes)) s = _
    rw [bind_ok (closeSocket_eq s)]
    unfold sockClosed; simp [h.1]; rfl
  exact ⟨.ok, s, e, rfl, rfl, rfl⟩

theorem pre_ite (c : Prop) [Decidable c] {m k : M ActRes} (hm : PreM m) (hk : PreM k) :
    PreM (if c then m else k) := by
  split <;> assumption

theorem rp_logRes {m : M ActRes} (hm : PreM m) : Spec RP (logRes m) := by
  intro s
  intro hp
  obtain ⟨r, s1, e, hso, hc, ht⟩ := hm s hp
  have el : logRes m s = .ok () { s1 with trace := .res r :: s1.trace } := by
    unfold logRes; rw [bind_ok e]; rfl
  rw [el]
  simp only [Res.state_ok]
  exact rp_one (s := s) (.res r) hso hc (by show Obs.res r :: s1.trace = _; rw [ht]) rfl hp

theorem rp_doAct (a : Act) : Spec RP (doAct a) := by
  unfold doAct
  split
  all_goals first
    | (apply rp_logRes
       first
        | exact pre_pure _
        | exact pre_wsClose _ _
        | exact pre_sendData _ _ _ (by decide)
        | exact pre_sessionClose
        | exact pre_ite _ (pre_pure _) (pre_sendData _ _ _ (by decide))
        | exact pre_ite _ (pre_pure _) (pre_sendFrame _ _ _ (by decide)))
    | (intro s; exact rp_same rfl rfl rfl)

theorem rp_doActs (as : List Act) : Spec RP (doActs as) := by
  induction as with
  | nil => exact spec_pure rp_po ()
  | cons a r ih => unfold doActs; exact spec_bind rp_po (rp_doAct a) (fun _ => ih)

theorem rp_yieldEv (e : Event) (he : (Obs.ev e).pingEv = false) : Spec RP (yieldEv e) := by
  intro s
  rw [yieldEv_eq]
  refine rp_po.trans (rp_one (s := s) (s' := pushEv e s) (.ev e) rfl rfl rfl ?_) (rp_doActs _ _)
  simp only [calm, he]; rfl

/-- a trace of calm entries is `Good` -/
theorem good_of_calm (auto : Bool) (t : List Obs) (h : ∀ o ∈ t, (!o.isWrite && !o.pingEv) = true) : Good auto t := by
  refine Good.of_plain auto t (fun o ho => ?_)
  have := h o ho
  cases o <;> simp_all [Obs.pongOut, Obs.pingEv, Obs.isWrite]

/-! ### the whole connection -/

/-- the upgrade request (the only thing handed to `sendall` that is not a frame) does not look
    like a Close or a Pong frame — the real one starts with `GET ` -/
def ReqPlain (cfg : Cfg) : Prop := isCloseBytes cfg.request = false ∧ isPongBytes cfg.request = false

theorem calm_facts {o : Obs} (h : calm o = true) : o.isWrite = false ∧ o.pingEv = false ∧ o.sockCl = false := by
  unfold calm at h
  cases h1 : o.isWrite <;> cases h2 : o.pingEv <;> cases h3 : o.sockCl <;> simp_all

theorem calm_noWrite (t : List Obs) (h : ∀ o ∈ t, calm o = true) : noWrite t = true := by
  unfold noWrite
  rw [List.all_eq_true]
  intro o ho; rw [(calm_facts (h o ho)).1]; rfl

theorem calm_hasClose (t : List Obs) (h : ∀ o ∈ t, calm o = true) : hasClose t = false := by
  have := hasClose_append_noWrite t [] (calm_noWrite t h)
  rw [List.append_nil] at this; rw [this]; rfl

theorem calm_quiet (t : List Obs) (h : ∀ o ∈ t, calm o = true) : quiet t = true := by
  have := quiet_append_noWrite t [] (calm_noWrite t h)
  rw [List.append_nil] at this; rw [this]; rfl

theorem calm_hasSockClose (t : List Obs) (h : ∀ o ∈ t, calm o = true) : hasSockClose t = false := by
  unfold hasSockClose
  cases hh : t.any Obs.sockCl
  · rfl
  · rw [List.any_eq_true] at hh
    obtain ⟨o, ho, hs⟩ := hh
    rw [(calm_facts (h o ho)).2.2] at hs; cases hs

theorem calm_nofail (t : List Obs) (h : ∀ o ∈ t, calm o = true) : NoFailTr t := by
  intro o ho
  have := (calm_facts (h o ho)).1
  cases o <;> first | rfl | cases this

theorem good_of_calm' (auto : Bool) (t : List Obs) (h : ∀ o ∈ t, calm o = true) : Good auto t :=
  good_of_calm auto t (fun o ho => by
    obtain ⟨h1, h2, _⟩ := calm_facts (h o ho); rw [h1, h2]; rfl)

/-- what is kept about the final state of a connection -/
def Fin (auto : Bool) (s : Sys) : Prop := Good auto s.trace ∧ (NoFail s.cfg → NoFailTr s.trace)

theorem J.fin {auto : Bool} {s : Sys} (h : J auto s) : Fin auto s := ⟨h.good, h.js.nf⟩

theorem fin_of_quiet (auto : Bool) (s : Sys) (h : ∀ o ∈ s.trace, (!o.isWrite && !o.pingEv) = true) : Fin auto s := by
  refine ⟨good_of_calm auto _ h, fun _ o ho => ?_⟩
  have := h o ho
  cases o <;> simp_all [Obs.isFail, Obs.isWrite]

theorem fin_of_calm (auto : Bool) (s : Sys) (h : ∀ o ∈ s.trace, calm o = true) : Fin auto s :=
  ⟨good_of_calm' auto _ h, fun _ => calm_nofail _ h⟩

/-- from "no socket yet" through `_connect()` returning a socket and the upgrade request: the
    continuation `B` (`Connected`, the loop, …) runs from a state satisfying `J` -/
theorem good_connect (auto : Bool) (B : M Unit) (hB : Spec (RJ auto) B) (s1 : Sys) (pre : Pre s1)
    (hc : ∀ o ∈ s1.trace, calm o = true) (ha : s1.cfg.autoPong = auto) (hreq : ReqPlain s1.cfg) :
    Fin auto ((modS (fun s => { s with sockOpen := true }) >>= fun _ => getS >>= fun s =>
      write s.cfg.request >>= fun r =>
        if wsError r = true then (do closeSocket; yieldEv (.connectFail "request-failed") : M Unit) else B) s1).state := by
  rw [bind_ok (show modS (fun s => { s with sockOpen := true }) s1 = .ok () { s1 with sockOpen := true } from rfl)]
  rw [bind_ok (show getS { s1 with sockOpen := true } = .ok _ _ from rfl)]
  rcases write_cases s1.cfg.request none { s1 with sockOpen := true } with ⟨hno, _⟩ | ⟨ho, r, o, e, hnf, ho'⟩
  · -- the application called `close()` at `Connecting`: the request is refused
    have hs : Shut { s1 with sockOpen := true } := by
      by_cases h2 : s1.closing = true
      · exact Or.inl h2
      · by_cases h3 : s1.closed = true
        · exact Or.inr h3
        · exact absurd ⟨rfl, by simpa using h2, by simpa using h3⟩ hno
    rw [bind_ok (write_refused _ _ _ hs), if_pos (refusal_wsError _)]
    show Fin auto ((closeSocket >>= fun _ => yieldEv (.connectFail "request-failed")) _).state
    rw [bind_ok (closeSocket_eq _)]
    have e3 : sockClosed { s1 with sockOpen := true } = { s1 with sockOpen := false, trace := .sockClose :: s1.trace } := by
      unfold sockClosed; simp
    rw [e3]
    obtain ⟨_, _, l, el, hl⟩ := rp_yieldEv (.connectFail "request-failed") rfl
      { s1 with sockOpen := false, trace := .sockClose :: s1.trace } ⟨rfl, pre.2⟩
    refine fin_of_quiet auto _ (fun o ho => ?_)
    rw [el] at ho
    rcases List.mem_append.mp ho with h | h
    · obtain ⟨h1, h2, _⟩ := calm_facts (hl o h); rw [h1, h2]; rfl
    · rcases List.mem_cons.mp h with rfl | h
      · rfl
      · obtain ⟨h1, h2, _⟩ := calm_facts (hc o h); rw [h1, h2]; rfl
  · rw [bind_ok e]
    have hoc : o.isClose = false ∧ o.pongOut = false ∧ o.isWrite = true := by
      rcases ho' with rfl | ⟨_, rfl⟩ | ⟨op, pl, h, _⟩
      · exact ⟨hreq.1, hreq.2, rfl⟩
      · exact ⟨hreq.1, hreq.2, rfl⟩
      · cases h
    have hcl : hasClose (o :: s1.trace) = false := by rw [hasClose_cons, hoc.1, calm_hasClose _ hc]; rfl
    have hJ : J auto { s1 with sockOpen := true, writeCtr := s1.writeCtr + 1, trace := o :: s1.trace } := by
      refine ⟨⟨ha, pre.2, ⟨?_, ?_⟩, ?_, ?_, fun h0 => nofail_cons (hnf h0) (calm_nofail _ hc)⟩,
        .plain hoc.2.1 (isWrite_facts hoc.2.2).2.1 (good_of_calm' auto _ hc)⟩
      · show quiet (o :: s1.trace) = true
        rw [quiet, calm_hasClose _ hc, calm_quiet _ hc]; simp
      · intro h; rw [hcl] at h; cases h
      · show hasSockClose (o :: s1.trace) = !true
        rw [hasSockClose_cons, (isWrite_facts hoc.2.2).1, calm_hasSockClose _ hc]; rfl
      · intro hs
        obtain ⟨_, h2, h3⟩ := ho
        rcases hs with h | h
        · rw [h2] at h; cases h
        · rw [h3] at h; cases h
    have hA : Spec (RJ auto) (do closeSocket; yieldEv (.connectFail "request-failed") : M Unit) :=
      spec_bind (rj_po auto) (rj_closeSocket auto) (fun _ => rj_yieldEv auto _ rfl)
    split
    · exact (hA _ hJ).fin
    · exact (hB _ hJ).fin

theorem rj_afterLoop (auto : Bool) (proxy : Bool) : Spec (RJ auto)
    (do yieldConnected proxy; modS (fun s => { s with selOpen := true }); runLoop : M Unit) :=
  spec_bind (rj_po auto) (rj_yieldConnected auto proxy) (fun _ => spec_bind (rj_po auto)
    (spec_modS (fun s => by keep5)) (fun _ => rj_runLoop auto))

theorem rj_runLoopNoSel (auto : Bool) : Spec (RJ auto) runLoopNoSel := by
  unfold runLoopNoSel
  exact spec_tryC (rj_po auto) (spec_bind (rj_po auto) (rj_onLoopEnd auto _) (fun _ => rj_selClose auto))
    (rj_runFinally auto)

theorem rj_afterNoSel (auto : Bool) (proxy : Bool) : Spec (RJ auto)
    (do yieldConnected proxy; modS (fun s => { s with selOpen := false }); runLoopNoSel : M Unit) :=
  spec_bind (rj_po auto) (rj_yieldConnected auto proxy) (fun _ => spec_bind (rj_po auto)
    (spec_modS (fun s => by keep5)) (fun _ => rj_runLoopNoSel auto))

/-- **the trace `run()` leaves behind satisfies the Pong grammar** -/
theorem good_run (cfg : Cfg) (react : React) (env : List EnvStep) (hv : cfg.v.closeArgs = true)
    (hreq : ReqPlain cfg) :
    Fin cfg.autoPong (run { cfg := cfg, react := react, env := env }).state := by
  have pre0 : Pre { cfg := cfg, react := react, env := env } := ⟨rfl, hv⟩
  have h1 := rp_yieldEv .connecting rfl { cfg := cfg, react := react, env := env } pre0
  unfold run
  cases hy : yieldEv .connecting { cfg := cfg, react := react, env := env } with
  | err x s1 =>
    rw [hy] at h1
    obtain ⟨_, _, l, el, hl⟩ := h1
    rw [bind_err hy]
    simp only [Res.state_err] at el ⊢
    exact fin_of_calm _ _ (by rw [el]; exact fun o ho => hl o (by simpa using ho))
  | ok u s1 =>
    rw [hy] at h1
    obtain ⟨pre1, hcfg, l, el, hl⟩ := h1
    simp only [Res.state_ok] at pre1 hcfg el
    have hc1 : ∀ o ∈ s1.trace, calm o = true := by
      rw [el]; intro o ho; exact hl o (by simpa using ho)
    rw [bind_ok hy, bind_ok (show getS s1 = .ok s1 s1 from rfl)]
    have hfail : Fin cfg.autoPong (yieldEv (.connectFail "connect-failed") s1).state := by
      obtain ⟨_, _, l2, el2, hl2⟩ := rp_yieldEv (.connectFail "connect-failed") rfl s1 pre1
      refine fin_of_calm _ _ (fun o ho => ?_)
      rw [el2] at ho
      rcases List.mem_append.mp ho with h | h
      · exact hl2 o h
      · exact hc1 o h
    cases hcn : s1.cfg.connect with
    | socketFail => exact hfail
    | otherFail => exact hfail
    | ok proxy =>
      exact good_connect cfg.autoPong _ (rj_afterLoop cfg.autoPong proxy) s1 pre1 hc1 (by rw [hcfg]) (by rw [hcfg]; exact hreq)
    | selFail proxy =>
      exact good_connect cfg.autoPong _ (rj_afterNoSel cfg.autoPong proxy) s1 pre1 hc1 (by rw [hcfg]) (by rw [hcfg]; exact hreq)

/-- **the trace of every connection satisfies the Pong grammar**, and contains no failed
    `sendall` unless the configuration makes one fail -/
theorem fin_runAll (cfg : Cfg) (react : React) (env : List EnvStep) (hv : cfg.v.closeArgs = true)
    (hreq : ReqPlain cfg) : Fin cfg.autoPong (runAll cfg react env) := by
  have h := good_run cfg react env hv hreq
  unfold runAll
  simp only []
  generalize run { cfg := cfg, react := react, env := env } = r at h
  have cs : ∀ s : Sys, Fin cfg.autoPong s →
      Fin cfg.autoPong (match closeSocket s with | .ok _ s' => s' | .err _ s' => s') := by
    intro s hs
    rw [closeSocket_eq]
    simp only []
    unfold sockClosed
    split
    · exact ⟨.plain rfl rfl hs.1, fun h0 => nofail_cons rfl (hs.2 h0)⟩
    · exact hs
  have inc : ∀ s : Sys, Fin cfg.autoPong s → Fin cfg.autoPong { s with trace := Obs.incomplete :: s.trace } :=
    fun s hs => ⟨.plain rfl rfl hs.1, fun h0 => nofail_cons rfl (hs.2 h0)⟩
  cases r with
  | ok a s => exact h
  | err x s =>
    simp only [Res.state_err] at h
    cases x with
    | genExit => simp only []; split; exact cs s h; exact h
    | outer y =>
      cases y with
      | genExit => simp only []; split; exact cs s h; exact h
      | _ => exact inc s h
    | _ => exact inc s h

theorem good_runAll (cfg : Cfg) (react : React) (env : List EnvStep) (hv : cfg.v.closeArgs = true)
    (hreq : ReqPlain cfg) : Good cfg.autoPong (runAll cfg react env).trace :=
  (fin_runAll cfg react env hv hreq).1

/-- when no `sendall` of the connection raises there is no `.wrFail` on the trace -/
theorem nofail_runAll (cfg : Cfg) (react : React) (env : List EnvStep) (hv : cfg.v.closeArgs = true)
    (hreq : ReqPlain cfg) (hnf : NoFail cfg) : NoFailTr (runAll cfg react env).trace := by
  have h := (fin_runAll cfg react env hv hreq).2
  rw [Timers.cfg_runAll] at h
  exact h hnf

end Lomond.Core.PongRun
