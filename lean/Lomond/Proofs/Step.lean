/-
  `Step`: what every library step inside a connection guarantees about the system state
  (configuration and application unchanged, `closed` and "socket closed" are stable, the selector
  flag is untouched, the parser never returns to the header state, the trace only grows) —
  proved for every function of the core model up to the session loop, by composition.
-/
import Lomond.Proofs.Frame
import Lomond.Proofs.Core
set_option linter.unusedSimpArgs false
set_option linter.unusedVariables false
namespace Lomond.Core
open Lomond

/-- what every step of the library *inside a connection* guarantees about the state -/
structure Step (s s' : Sys) : Prop where
  cfg : s'.cfg = s.cfg
  react : s'.react = s.react
  closedMono : s.closed = true → s'.closed = true
  sockMono : s.sockOpen = false → s'.sockOpen = false
  selKeep : s'.selOpen = s.selOpen
  contNH : s.p.cont ≠ .header → s'.p.cont ≠ .header
  traceExt : ∃ l, s'.trace = l ++ s.trace

theorem step_po : PO Step where
  refl s := ⟨rfl, rfl, id, id, rfl, id, ⟨[], rfl⟩⟩
  trans := by
    intro a b c h1 h2
    refine ⟨h2.cfg.trans h1.cfg, h2.react.trans h1.react, fun h => h2.closedMono (h1.closedMono h),
      fun h => h2.sockMono (h1.sockMono h), h2.selKeep.trans h1.selKeep, fun h => h2.contNH (h1.contNH h), ?_⟩
    obtain ⟨l1, e1⟩ := h1.traceExt
    obtain ⟨l2, e2⟩ := h2.traceExt
    exact ⟨l2 ++ l1, by rw [e2, e1, List.append_assoc]⟩

/-- split every `if`/`match` in the goal, reducing `let`s in between -/
macro "splits" : tactic => `(tactic| repeat' (first | split | (simp only []; split)))

/-- leaf tactic: discharge the seven fields of `Step s s'` for an explicit `s'` -/
macro "step_leaf" : tactic =>
  `(tactic| ((try simp only [Res.state_ok, Res.state_err])
             first
              | exact step_po.refl _
              | (refine ⟨?_, ?_, ?_, ?_, ?_, ?_, ?_⟩ <;>
                  first | rfl | exact id | exact ⟨[], rfl⟩ | exact ⟨[_], rfl⟩ | exact ⟨[_, _], rfl⟩
                        | (intro h; simp_all; done) | (simp_all; done))))

theorem step_closeSocket : Spec Step closeSocket := by
  intro s; unfold closeSocket; splits <;> step_leaf

theorem step_write (d : Bytes) (z : Option (Nat × Bytes)) : Spec Step (write d z) := by
  intro s; unfold write; splits <;> step_leaf

theorem step_sendFrame (op : Nat) (pl : Bytes) (c : Option Bytes) : Spec Step (sendFrame op pl c) := by
  intro s; unfold sendFrame
  simp only
  splits
  all_goals first
    | step_leaf
    | exact step_po.trans (by step_leaf) (step_write _ _ _)


theorem step_wsClose (c : Option Nat) (r : Arg) : Spec Step (wsClose c r) := by
  intro s; unfold wsClose
  splits
  all_goals first
    | step_leaf
    | (rename_i h; have := (step_sendFrame _ _ _).ok h; exact step_po.trans this (by step_leaf))
    | (rename_i h; have := (step_sendFrame _ _ _).err h; exact this)

theorem step_sendData (op : Nat) (pl : Bytes) (c : Bool) : Spec Step (sendData op pl c) := by
  intro s; unfold sendData; split <;> exact step_sendFrame _ _ _ s


theorem step_log (o : Obs) : Spec Step (log o) := by
  intro s; unfold log modS; step_leaf

/-- decompose a `do` block -/
macro "spec_do" : tactic =>
  `(tactic| repeat' (first
      | assumption
      | apply spec_bind step_po
      | apply spec_pure step_po
      | apply spec_getS step_po
      | apply spec_throwE step_po
      | apply spec_tryC step_po
      | apply spec_liftE step_po
      | apply step_log
      | apply step_closeSocket
      | apply step_write
      | apply step_sendFrame
      | apply step_wsClose
      | apply step_sendData
      | intro _
      | split))

theorem step_logRes {m : M ActRes} (h : Spec Step m) : Spec Step (logRes m) := by
  unfold logRes; spec_do

theorem step_doAct (a : Act) : Spec Step (doAct a) := by
  unfold doAct
  split
  all_goals first
    | (apply step_logRes; spec_do)
    | (intro s; step_leaf)

theorem step_doActs (as : List Act) : Spec Step (doActs as) := by
  induction as with
  | nil => exact spec_pure step_po ()
  | cons a r ih => unfold doActs; exact spec_bind step_po (step_doAct a) (fun _ => ih)

theorem step_yieldEv (e : Event) : Spec Step (yieldEv e) := by
  unfold yieldEv
  apply spec_bind step_po
  · apply spec_modS; intro s; step_leaf
  · intro _; apply spec_bind step_po (spec_getS step_po); intro s; exact step_doActs _


theorem step_modS_app {f : Sys → Sys} (h : ∀ s, Step s (f s)) : Spec Step (modS f) := spec_modS h

theorem spec_getS_bind {R : Sys → Sys → Prop} (po : PO R) {f : Sys → M α} (h : ∀ s, Spec R (f s)) :
    Spec R (getS >>= f) := spec_bind po (spec_getS po) h

theorem step_checkPoll : Spec Step checkPoll := by
  unfold checkPoll
  refine spec_getS_bind step_po (fun s => ?_)
  simp only []
  splits
  all_goals first
    | exact spec_pure step_po _
    | (refine spec_bind step_po (spec_modS ?_) (fun _ => step_yieldEv _); intro s; step_leaf)

theorem step_checkAutoPing : Spec Step checkAutoPing := by
  unfold checkAutoPing
  refine spec_getS_bind step_po (fun s => ?_)
  simp only []
  split
  · refine spec_bind step_po (spec_modS ?_) (fun _ => spec_bind step_po (step_sendFrame _ _ _) (fun _ => spec_pure step_po _))
    intro s; step_leaf
  · exact spec_pure step_po _

theorem step_checkPingTimeout : Spec Step checkPingTimeout := by
  unfold checkPingTimeout
  refine spec_getS_bind step_po (fun s => ?_)
  simp only []
  split
  · exact spec_bind step_po (step_yieldEv _) (fun _ => spec_throwE step_po _)
  · exact spec_pure step_po _

theorem step_checkCloseTimeout : Spec Step checkCloseTimeout := by
  unfold checkCloseTimeout
  refine spec_getS_bind step_po (fun s => ?_)
  simp only []
  splits
  all_goals first | exact spec_pure step_po _ | exact spec_throwE step_po _

theorem step_regular : Spec Step regular := by
  unfold regular
  apply spec_bind step_po (spec_getS step_po); intro s
  split
  · exact spec_bind step_po step_checkPoll (fun _ => spec_bind step_po step_checkAutoPing
      (fun _ => spec_bind step_po step_checkPingTimeout (fun _ => step_checkCloseTimeout)))
  · exact spec_pure step_po _

theorem step_onEvent (e : Event) : Spec Step (onEvent e) := by
  intro s; unfold onEvent
  splits
  all_goals first
    | step_leaf
    | (rename_i h; exact (step_sendFrame _ _ _).ok h)
    | (rename_i h; exact (step_sendFrame _ _ _).err h)

theorem step_onDisconnect : Spec Step onDisconnect := by
  unfold onDisconnect
  apply spec_bind step_po step_closeSocket
  intro _; apply spec_modS; intro s; step_leaf

theorem step_feedYield (b : Bool) (e : Event) : Spec Step (feedYield b e) := by
  unfold feedYield
  apply spec_tryC step_po
  · exact spec_bind step_po (step_onEvent e) (fun _ => spec_bind step_po (step_yieldEv e) (fun _ => step_regular))
  · intro x
    apply spec_bind step_po
    · split
      · exact step_onDisconnect
      · exact spec_pure step_po _
    · intro _; exact spec_throwE step_po _

theorem step_inflateMessage (j : Bytes) : Spec Step (inflateMessage j) := by
  intro s; unfold inflateMessage; simp only []; splits <;> step_leaf

theorem step_buildMessage (fs : List Frame) : Spec Step (buildMessage fs) := by
  unfold buildMessage
  split
  · exact spec_throwE step_po _
  · simp only []
    refine spec_getS_bind step_po (fun s => ?_)
    refine spec_bind step_po ?_ (fun _ => spec_liftE step_po _)
    split
    · exact step_inflateMessage _
    · exact spec_pure step_po _

theorem step_checkCloseCode (c : Option Nat) : Spec Step (checkCloseCode c) := by
  unfold checkCloseCode
  splits <;> first | exact spec_pure step_po _ | exact spec_throwE step_po _

theorem step_raiseIfArgError (r : ActRes) : Spec Step (raiseIfArgError r) := by
  unfold raiseIfArgError
  split <;> first | exact spec_pure step_po _ | exact spec_throwE step_po _

theorem step_onClose (c : Option Nat) (r : List Nat) : Spec Step (onClose c r) := by
  unfold onClose
  refine spec_bind step_po (step_checkCloseCode c) (fun _ => ?_)
  refine spec_getS_bind step_po (fun s => ?_)
  split
  · exact spec_pure step_po _
  · split
    · refine spec_bind step_po (step_feedYield _ _) (fun _ => spec_modS ?_); intro s; step_leaf
    · refine spec_bind step_po (step_feedYield _ _) (fun _ => spec_bind step_po (step_wsClose _ _) (fun r =>
        spec_bind step_po (step_raiseIfArgError r) (fun _ => spec_modS ?_)))
      intro s; step_leaf

theorem step_onMessage (m : Msg) : Spec Step (onMessage m) := by
  unfold onMessage
  split <;> first | exact step_onClose _ _ | exact step_feedYield _ _ | exact spec_pure step_po _

theorem step_onDataFrame (f : Frame) : Spec Step (onDataFrame f) := by
  unfold onDataFrame
  refine spec_getS_bind step_po (fun s => ?_)
  split
  · exact spec_throwE step_po _
  · split
    · exact spec_throwE step_po _
    · refine spec_bind step_po (spec_modS ?_) (fun _ => ?_)
      · intro s; step_leaf
      · split
        · refine spec_getS_bind step_po (fun s => spec_bind step_po (step_buildMessage _) (fun m =>
            spec_bind step_po (step_onMessage m) (fun _ => spec_modS ?_)))
          intro s; step_leaf
        · exact spec_pure step_po _

theorem step_notClosed : Spec Step notClosed := by
  intro s; unfold notClosed; step_leaf


theorem step_onFrame (f : Frame) : Spec Step (onFrame f) := by
  unfold onFrame
  split
  · exact spec_bind step_po (step_buildMessage _) (fun m => step_onMessage m)
  · exact step_onDataFrame _

theorem step_onOut (o : Out) : Spec Step (onOut o) := by
  unfold onOut
  split
  · refine spec_getS_bind step_po (fun s => ?_)
    split
    · refine spec_bind step_po (spec_modS ?_) (fun _ => spec_bind step_po step_onDisconnect (fun _ =>
        spec_bind step_po (step_feedYield _ _) (fun _ => spec_pure step_po _)))
      intro s; step_leaf
    · refine spec_bind step_po (spec_modS ?_) (fun _ => spec_bind step_po (step_feedYield _ _) (fun _ =>
        spec_bind step_po (spec_modS ?_) (fun _ => step_notClosed)))
      · intro s
        refine ⟨rfl, rfl, id, id, rfl, ?_, ⟨[], rfl⟩⟩
        intro h; simp only; split <;> exact h
      · intro s; step_leaf
  · exact spec_bind step_po (step_onFrame _) (fun _ => step_notClosed)

/-! the parser never returns to the header state -/

theorem frameDone_cont (v : Variant) (p : PState) (f : Frame) (r : PState × Option Out)
    (h : frameDone v p f = .ok r) : r.1.cont ≠ .header := by
  unfold frameDone at h
  split at h
  · cases h
  · cases h; simp

theorem gotMask_cont (v : Variant) (p : PState) (b0 len : Nat) (key : Option Bytes) (r : PState × Option Out)
    (h : gotMask v p b0 len key = .ok r) : r.1.cont ≠ .header := by
  unfold gotMask at h
  simp only [] at h
  split at h
  · cases h
  · split at h
    · cases h; simp
    · exact frameDone_cont _ _ _ _ h

theorem gotLength_cont (v : Variant) (p : PState) (b0 : Nat) (m : Bool) (len : Nat) (r : PState × Option Out)
    (h : gotLength v p b0 m len = .ok r) : r.1.cont ≠ .header := by
  unfold gotLength at h
  split at h
  · cases h
  · split at h
    · cases h; simp
    · exact gotMask_cont _ _ _ _ _ _ h

theorem resume_cont (v : Variant) (p : PState) (bytes : Bytes) (r : PState × Option Out)
    (h : resume v p bytes = .ok r) : r.1.cont ≠ .header := by
  unfold resume at h
  simp only [] at h
  split at h
  · cases h; simp
  · split at h
    · cases h; simp
    · split at h
      · cases h; simp
      · exact gotLength_cont _ _ _ _ _ _ h
  · exact gotLength_cont _ _ _ _ _ _ h
  · exact gotLength_cont _ _ _ _ _ _ h
  · exact gotMask_cont _ _ _ _ _ _ h
  · exact frameDone_cont _ _ _ _ h

theorem biteBytes_cont (v : Variant) (p : PState) (chunk : Bytes) (r : PState × Option Out)
    (h : biteBytes v p chunk = .ok r) (hp : p.cont ≠ .header) : r.1.cont ≠ .header := by
  rw [biteBytes_eq] at h
  split at h
  · cases h
  · split at h
    · cases h; exact hp
    · exact resume_cont _ _ _ _ h


theorem step_setP (s : Sys) (p' : PState) (h : s.p.cont ≠ .header → p'.cont ≠ .header) :
    Step s { s with p := p' } :=
  ⟨rfl, rfl, id, id, rfl, h, ⟨[], rfl⟩⟩

theorem step_feedLoop (data : Bytes) : Spec Step (feedLoop data) := by
  induction h : data.length using Nat.strongRecOn generalizing data with
  | _ n ih =>
    intro s
    rw [feedLoop]
    by_cases hd : data = []
    · simp only [hd, dite_true]; step_leaf
    · simp only [hd, dite_false]
      have hlt : (data.drop (s.p.remPred + 1)).length < n := by
        have : data.length ≠ 0 := fun hl => hd (List.eq_nil_of_length_eq_zero hl)
        simp only [List.length_drop]; omega
      cases hb : biteBytes s.cfg.v s.p (data.take (s.p.remPred + 1)) with
      | error x =>
        simp only [Res.state_err]
        exact step_setP s _ (fun h => by simp [deadParser]; exact h)
      | ok r =>
        obtain ⟨p', out⟩ := r
        have hs1 : Step s { s with p := p' } := step_setP s p' (fun hp => biteBytes_cont _ _ _ _ hb hp)
        cases out with
        | none =>
          simp only
          exact step_po.trans hs1 (ih _ hlt _ rfl _)
        | some o =>
          simp only
          have ho := step_onOut o { s with p := p' }
          cases hr : onOut o { s with p := p' } with
          | err x s2 => rw [hr] at ho; simp only [Res.state_err] at ho ⊢; exact step_po.trans hs1 ho
          | ok go s2 =>
            rw [hr] at ho; simp only [Res.state_ok] at ho
            cases go with
            | true => simp only; exact step_po.trans hs1 (step_po.trans ho (ih _ hlt _ rfl _))
            | false => simp only [Res.state_ok]; exact step_po.trans hs1 ho


theorem step_afterHeader (rest : Bytes) (out : Option Out) : Spec Step (afterHeader rest out) := by
  unfold afterHeader
  split
  · refine spec_bind step_po (step_onOut _) (fun go => ?_)
    split
    · exact spec_bind step_po (step_feedLoop _) (fun _ => spec_pure step_po _)
    · exact spec_pure step_po _
  · exact spec_bind step_po (step_feedLoop _) (fun _ => spec_pure step_po _)

theorem step_feedHeader (data : Bytes) : Spec Step (feedHeader data) := by
  intro s; unfold feedHeader; simp only []
  split
  · split
    · step_leaf
    · simp only [Res.state_ok]; exact step_setP s _ (fun h => h)
  · split
    · step_leaf
    · split
      · step_leaf
      · rename_i p' out hr
        have h1 : Step s { s with p := p' } := step_setP s p' (fun _ => resume_cont _ _ _ _ hr)
        exact step_po.trans h1 (step_afterHeader _ _ _)

theorem step_feedBody (data : Bytes) : Spec Step (feedBody data) := by
  intro s; unfold feedBody
  split
  · exact step_feedHeader data s
  · have := step_feedLoop data s
    split <;> (rename_i h; rw [h] at this; simpa using this)

theorem step_feedHandler (x : Exn) : Spec Step (feedHandler x) := by
  unfold feedHandler
  split
  · exact spec_bind step_po (step_feedYield _ _) (fun _ => spec_throwE step_po _)
  · exact spec_bind step_po (step_feedYield _ _) (fun _ => spec_throwE step_po _)
  · exact spec_bind step_po (step_feedYield _ _) (fun _ => spec_bind step_po (step_wsClose _ _) (fun r =>
      spec_bind step_po (step_raiseIfArgError r) (fun _ => spec_throwE step_po _)))
  · exact spec_throwE step_po _

theorem step_unwrapOuter (x : Exn) : Spec Step (unwrapOuter x) := by
  unfold unwrapOuter; split <;> exact spec_throwE step_po _

theorem step_wsFeed (data : Bytes) : Spec Step (wsFeed data) := by
  intro s; unfold wsFeed
  split
  · step_leaf
  · exact spec_tryC step_po (spec_tryC step_po (step_feedBody data) step_feedHandler) step_unwrapOuter s

theorem step_onEof : Spec Step onEof := by
  intro s; unfold onEof; split <;> step_leaf

theorem step_recvStep (o : RecvOutcome) : Spec Step (recvStep o) := by
  intro s; unfold recvStep
  split
  · exact step_onEof s
  · split
    · step_leaf
    · step_leaf
    · exact step_onEof s
    · rename_i bs
      split
      · exact step_onEof s
      · have := step_wsFeed bs s
        split <;> (rename_i h; rw [h] at this; simpa using this)

theorem step_tick (s : Sys) (dt : Nat) : Step s (tick s dt) := by
  unfold tick
  refine ⟨rfl, rfl, id, id, rfl, id, ?_⟩
  simp only []
  split
  · exact ⟨[_], rfl⟩
  · exact ⟨[], rfl⟩

theorem step_loop (env : List EnvStep) : Spec Step (loop env) := by
  induction env with
  | nil => intro s; unfold loop; split <;> step_leaf
  | cons st rest ih =>
    intro s; unfold loop
    split
    · step_leaf
    · split
      · step_leaf
      · rename_i dt readable
        have h0 := step_tick s dt
        have h1 := step_regular (tick s dt)
        unfold regularTop
        split
        · rename_i x s2 hr; rw [hr] at h1; exact step_po.trans h0 h1
        · rename_i u s2 hr; rw [hr] at h1
          simp only [Res.state_ok] at h1
          split
          · exact step_po.trans h0 (step_po.trans h1 (ih s2))
          · rename_i o
            have h2 := step_recvStep o s2
            split
            · rename_i x s3 hr2; rw [hr2] at h2; exact step_po.trans h0 (step_po.trans h1 h2)
            · rename_i s3 hr2; rw [hr2] at h2
              exact step_po.trans h0 (step_po.trans h1 (step_po.trans h2 (ih s3)))
            · rename_i s3 hr2; rw [hr2] at h2; exact step_po.trans h0 (step_po.trans h1 h2)

end Lomond.Core
