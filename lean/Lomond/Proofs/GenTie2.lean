/-
  Helper definitions for the companion files `Properties/Cxx_Gen2.lean` / `C18_Gen.lean`
  (sites added by helper SITES): how a model event is named in `lomond/events.py`.
-/
import Lomond.Model.Core
import Lomond.Model.PyOps
import Lomond.Proofs.GenTie

namespace Lomond.GenTie
open Lomond Lomond.Core

/-- `event.name` of the lomond event class a model event stands for (lomond/events.py: the class
    attribute `name`; the differential test of `sessionOnEvent` constructs the real event objects
    and hands the generated definition the name listed here) -/
def evName : Event → List Nat
  | .connecting => Py.str "connecting"
  | .connectFail _ => Py.str "connect_fail"
  | .connected _ => Py.str "connected"
  | .ready _ _ => Py.str "ready"
  | .rejected _ => Py.str "rejected"
  | .text _ => Py.str "text"
  | .binary _ => Py.str "binary"
  | .ping _ => Py.str "ping"
  | .pong _ => Py.str "pong"
  | .closing _ _ => Py.str "closing"
  | .closed _ _ => Py.str "closed"
  | .protocolError _ _ => Py.str "protocol_error"
  | .poll => Py.str "poll"
  | .unresponsive => Py.str "unresponsive"
  | .disconnected _ _ => Py.str "disconnected"

/-- how the model sends what the translated code decided: `r = (1, op)` is `session.send(op, payload)`,
    `r = (2, op)` is `session.send_compressed(op, payload, compress)` -/
def sendAs (r : Except Py.Err (Nat × Nat)) (payload : Bytes) : M ActRes :=
  match r with
  | .error e => pure (actResOf e)
  | .ok r => if r.1 = 2 then sendFrame r.2 [] (some payload) else sendFrame r.2 payload none

end Lomond.GenTie
