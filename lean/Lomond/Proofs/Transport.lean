/-
  Helper lemmas for C18 (transport + selector + receive loop, `Model/Transport.lean`).
-/
import Lomond.Model.Transport

namespace Lomond.Transport
open Lomond

/-! ### the socket -/

theorem bufferSize_pos : 0 < bufferSize := by decide

namespace Sock

theorem buffered_eq (sk : Sock) : sk.buffered = sk.pendingBytes ++ sk.kernel := by
  cases sk <;> simp [buffered, pendingBytes, kernel]

theorem kernel_nil_of_not_readable {sk : Sock} {hup : Bool} (h : sk.fdReadable hup = false) :
    sk.kernel = [] := by
  cases sk with
  | plain k => cases k <;> simp_all [fdReadable, kernel]
  | tls rs p => cases rs <;> simp_all [fdReadable, kernel]

theorem push_buffered (p : Bytes) (sk : Sock) : (sk.push p).buffered = sk.buffered ++ p := by
  cases sk with
  | plain k => simp [push, buffered]
  | tls rs pe =>
    by_cases h : p = []
    · subst h; simp [push, buffered]
    · have : p.isEmpty = false := by cases p <;> simp_all
      simp [push, buffered, this]

theorem recv_conserve (c : Nat) (sk : Sock) : (sk.recv c).1 ++ (sk.recv c).2.buffered = sk.buffered := by
  cases sk with
  | plain k => simp [recv, buffered]
  | tls rs p =>
    cases p with
    | nil =>
      cases rs with
      | nil => simp [recv, buffered]
      | cons r rs => simp only [recv, buffered, List.flatten_cons, List.nil_append]; rw [← List.append_assoc, List.take_append_drop]
    | cons b p => simp only [recv, buffered]; rw [← List.append_assoc, List.take_append_drop]

theorem recv_length_le (c : Nat) (sk : Sock) : (sk.recv c).1.length ≤ bufferSize := by
  cases sk with
  | plain k => simp only [recv, List.length_take]; omega
  | tls rs p =>
    cases p with
    | nil =>
      cases rs with
      | nil => simp [recv]
      | cons r rs => simp only [recv, List.length_take]; omega
    | cons b p => simp only [recv, List.length_take]; omega

theorem recv_length_le_count (c : Nat) (sk : Sock) : (sk.recv c).1.length ≤ c := by
  cases sk with
  | plain k => simp only [recv, List.length_take]; omega
  | tls rs p =>
    cases p with
    | nil =>
      cases rs with
      | nil => simp [recv]
      | cons r rs => simp only [recv, List.length_take]; omega
    | cons b p => simp only [recv, List.length_take]; omega

end Sock

theorem pushAll_buffered (sk : Sock) (as : List (Nat × Bytes)) :
    (pushAll sk as).buffered = sk.buffered ++ (as.map (·.2)).flatten := by
  induction as generalizing sk with
  | nil => simp [pushAll]
  | cons a as ih => simp [pushAll, ih, Sock.push_buffered]

/-! ### conservation of bytes (no variant hypothesis, no ordering hypothesis) -/

/-- payload bytes of a list of timestamped chunks, in order -/
def bytesOf (l : List (Nat × Bytes)) : Bytes := (l.map (·.2)).flatten

@[simp] theorem bytesOf_nil : bytesOf [] = [] := rfl
@[simp] theorem bytesOf_cons (a : Nat × Bytes) (l) : bytesOf (a :: l) = a.2 ++ bytesOf l := by simp [bytesOf]
@[simp] theorem bytesOf_append (l₁ l₂ : List (Nat × Bytes)) : bytesOf (l₁ ++ l₂) = bytesOf l₁ ++ bytesOf l₂ := by
  simp [bytesOf]

/-- fed ++ buffered ++ still to arrive -/
def content (s : St) : Bytes := bytesOf s.log ++ s.sock.buffered ++ bytesOf s.future

theorem deliverDue_content (s : St) : content (deliverDue s) = content s := by
  simp only [content, deliverDue, pushAll_buffered]
  have h := List.takeWhile_append_dropWhile (p := fun a : Nat × Bytes => decide (a.1 ≤ s.now)) (l := s.future)
  conv => rhs; rw [← h, bytesOf_append]
  simp [bytesOf, List.append_assoc]

@[simp] theorem deliverDue_log (s : St) : (deliverDue s).log = s.log := rfl
@[simp] theorem deliverDue_now (s : St) : (deliverDue s).now = s.now := rfl
@[simp] theorem deliverDue_stopped (s : St) : (deliverDue s).stopped = s.stopped := rfl
@[simp] theorem deliverDue_trace (s : St) : (deliverDue s).trace = s.trace := rfl
@[simp] theorem deliverDue_eofAt (s : St) : (deliverDue s).eofAt = s.eofAt := rfl

theorem content_congr {s s' : St} (h1 : s'.log = s.log) (h2 : s'.sock = s.sock) (h3 : s'.future = s.future) :
    content s' = content s := by simp [content, h1, h2, h3]

theorem block_content (t : Nat) (s : St) : content (block t s).2 = content s := by
  unfold block
  split
  · rfl
  · split
    · split
      · exact (deliverDue_content _).trans (content_congr rfl rfl rfl)
      · rfl
    · rfl

theorem block_log (t : Nat) (s : St) : (block t s).2.log = s.log := by
  unfold block
  split
  · rfl
  · split
    · split <;> rfl
    · rfl

theorem block_stopped (t : Nat) (s : St) : (block t s).2.stopped = s.stopped := by
  unfold block
  split
  · rfl
  · split
    · split <;> rfl
    · rfl

theorem block_trace (t : Nat) (s : St) : (block t s).2.trace = s.trace := by
  unfold block
  split
  · rfl
  · split
    · split <;> rfl
    · rfl

theorem waitReadable_content (t : Nat) (s : St) : content (waitReadable t s).2 = content s :=
  (content_congr rfl rfl rfl).trans (block_content t s)

theorem waitReadable_log (t : Nat) (s : St) : (waitReadable t s).2.log = s.log := block_log t s

theorem waitReadable_stopped (t : Nat) (s : St) : (waitReadable t s).2.stopped = s.stopped := block_stopped t s

theorem selWait_content (cfg : Cfg) (m : Nat) (s : St) : content (selWait cfg m s).2.2 = content s := by
  unfold selWait
  split
  · exact waitReadable_content _ _
  · split
    · exact waitReadable_content _ _
    · split
      · rfl
      · exact (waitReadable_content _ _).trans (content_congr rfl rfl rfl)

theorem selWait_log (cfg : Cfg) (m : Nat) (s : St) : (selWait cfg m s).2.2.log = s.log := by
  unfold selWait
  split
  · exact waitReadable_log _ _
  · split
    · exact waitReadable_log _ _
    · split
      · rfl
      · exact (waitReadable_log _ _)

theorem selWait_stopped (cfg : Cfg) (m : Nat) (s : St) : (selWait cfg m s).2.2.stopped = s.stopped := by
  unfold selWait
  split
  · exact waitReadable_stopped _ _
  · split
    · exact waitReadable_stopped _ _
    · split
      · rfl
      · exact (waitReadable_stopped _ _)

theorem cycleBody_content (cfg : Cfg) (s : St) : content (cycleBody cfg s) = content s := by
  have h1 := selWait_content cfg bufferSize s
  unfold cycleBody
  simp only
  split
  · have hc := Sock.recv_conserve (selWait cfg bufferSize s).2.1 (selWait cfg bufferSize s).2.2.sock
    split
    · rename_i he
      have : ((selWait cfg bufferSize s).2.2.sock.recv (selWait cfg bufferSize s).2.1).1 = [] := by
        simpa using he
      rw [this] at hc
      rw [← h1]
      simp only [content]
      simp at hc
      rw [hc]
    · rw [← h1]
      simp only [content, bytesOf_append, bytesOf_cons, bytesOf_nil, List.append_nil, List.append_assoc]
      rw [← hc]
      simp [List.append_assoc]
  · rw [h1]

theorem cycle_content (cfg : Cfg) (s : St) : content (cycle cfg s) = content s :=
  (cycleBody_content cfg _).trans (deliverDue_content s)

/-- every chunk in the log is non-empty and fits the receive buffer -/
def ChunksOk (l : List (Nat × Bytes)) : Prop := ∀ c ∈ l, c.2 ≠ [] ∧ c.2.length ≤ bufferSize

theorem cycleBody_chunksOk (cfg : Cfg) (s : St) (h : ChunksOk s.log) : ChunksOk (cycleBody cfg s).log := by
  have hl := selWait_log cfg bufferSize s
  unfold cycleBody
  simp only
  split
  · split
    · simpa [hl] using h
    · rename_i he
      intro c hc
      simp only [hl, List.mem_append, List.mem_singleton] at hc
      rcases hc with hc | hc
      · exact h c hc
      · subst hc
        refine ⟨?_, Sock.recv_length_le _ _⟩
        intro hh
        exact he (by simpa using hh)
  · simpa [hl] using h

theorem cycle_chunksOk (cfg : Cfg) (s : St) (h : ChunksOk s.log) : ChunksOk (cycle cfg s).log :=
  cycleBody_chunksOk cfg _ (by simpa using h)

theorem run_content (cfg : Cfg) (n : Nat) (s : St) : content (run cfg n s) = content s := by
  induction n generalizing s with
  | zero => rfl
  | succ n ih =>
    simp only [run]
    split
    · rfl
    · rw [ih, cycle_content]

theorem run_chunksOk (cfg : Cfg) (n : Nat) (s : St) (h : ChunksOk s.log) : ChunksOk (run cfg n s).log := by
  induction n generalizing s with
  | zero => exact h
  | succ n ih =>
    simp only [run]
    split
    · exact h
    · exact ih _ (cycle_chunksOk cfg s h)

/-! ### no blocking wait while data is buffered -/

/-- a `wait_readable` call that consumed virtual time was made with nothing buffered -/
def WaitOk : Tok → Prop
  | .wait t0 t1 _ k p => t0 < t1 → k = 0 ∧ p = 0
  | _ => True

def TraceOk (tr : List Tok) : Prop := ∀ tok ∈ tr, WaitOk tok

theorem TraceOk.append {a b : List Tok} (ha : TraceOk a) (hb : TraceOk b) : TraceOk (a ++ b) := by
  intro tok h
  rcases List.mem_append.mp h with h | h
  · exact ha tok h
  · exact hb tok h

theorem block_now_lt {t : Nat} {s : St} (h : s.now < (block t s).2.now) : s.sock.fdReadable s.hup = false := by
  unfold block at h
  split at h
  · simp at h
  · rename_i hr; simpa using hr

theorem waitReadable_trace (t : Nat) (s : St) :
    (waitReadable t s).2.trace = s.trace ++
      [Tok.wait s.now (block t s).2.now (block t s).1 s.sock.kernel.length s.sock.pendingBytes.length] := by
  simp [waitReadable, block_trace]

theorem waitReadable_traceOk (t : Nat) (s : St) (hp : s.sock.pendingBytes = []) (h : TraceOk s.trace) :
    TraceOk (waitReadable t s).2.trace := by
  rw [waitReadable_trace]
  refine h.append ?_
  intro tok htok
  simp only [List.mem_singleton] at htok
  subst htok
  intro hlt
  have := Sock.kernel_nil_of_not_readable (block_now_lt hlt)
  simp [this, hp]

theorem pendingBytes_nil_of_pending? {sk : Sock} (h : sk.pending? = none ∨ sk.pending? = some 0) :
    sk.pendingBytes = [] := by
  cases sk with
  | plain k => rfl
  | tls rs p =>
    rcases h with h | h
    · simp [Sock.pending?] at h
    · simp only [Sock.pending?, Option.some.injEq] at h
      exact List.eq_nil_of_length_eq_zero h

theorem selWait_traceOk (cfg : Cfg) (hs : cfg.shortcut = true) (m : Nat) (s : St) (h : TraceOk s.trace) :
    TraceOk (selWait cfg m s).2.2.trace := by
  unfold selWait
  simp only [hs, Bool.not_true, Bool.false_eq_true, ↓reduceIte]
  split
  · rename_i hn
    exact waitReadable_traceOk _ _ (pendingBytes_nil_of_pending? (Or.inl hn)) h
  · rename_i n hn
    split
    · exact h.append (by intro tok ht; simp at ht; subst ht; trivial)
    · rename_i hz
      have hz' : n = 0 := by simpa using hz
      subst hz'
      refine waitReadable_traceOk _ _ (pendingBytes_nil_of_pending? (Or.inr hn)) ?_
      exact h.append (by intro tok ht; simp at ht; subst ht; trivial)

theorem cycleBody_traceOk (cfg : Cfg) (hs : cfg.shortcut = true) (s : St) (h : TraceOk s.trace) :
    TraceOk (cycleBody cfg s).trace := by
  have h1 := selWait_traceOk cfg hs bufferSize s h
  unfold cycleBody
  simp only
  split
  · split
    · exact h1.append (by intro tok ht; simp at ht; subst ht; trivial)
    · exact h1.append (by intro tok ht; simp at ht; subst ht; trivial)
  · exact h1

theorem cycle_traceOk (cfg : Cfg) (hs : cfg.shortcut = true) (s : St) (h : TraceOk s.trace) :
    TraceOk (cycle cfg s).trace :=
  cycleBody_traceOk cfg hs _ (by simpa using h)

theorem run_traceOk (cfg : Cfg) (hs : cfg.shortcut = true) (n : Nat) (s : St) (h : TraceOk s.trace) :
    TraceOk (run cfg n s).trace := by
  induction n generalizing s with
  | zero => exact h
  | succ n ih =>
    simp only [run]
    split
    · exact h
    · exact ih _ (cycle_traceOk cfg hs s h)

/-! ### every byte is fed at the tick at which it arrived -/

/-- the bytes of a chunk, each tagged with a time -/
def stamp (t : Nat) (bs : Bytes) : List (Nat × Nat) := bs.map (fun b => (t, b))

/-- a timestamped chunk list as a timestamped byte sequence -/
def stamps (l : List (Nat × Bytes)) : List (Nat × Nat) := (l.map (fun a => stamp a.1 a.2)).flatten

@[simp] theorem stamp_nil (t : Nat) : stamp t [] = [] := rfl
@[simp] theorem stamp_append (t : Nat) (a b : Bytes) : stamp t (a ++ b) = stamp t a ++ stamp t b := by simp [stamp]
@[simp] theorem stamps_nil : stamps [] = [] := rfl
@[simp] theorem stamps_cons (a : Nat × Bytes) (l) : stamps (a :: l) = stamp a.1 a.2 ++ stamps l := by simp [stamps]
@[simp] theorem stamps_append (l₁ l₂ : List (Nat × Bytes)) : stamps (l₁ ++ l₂) = stamps l₁ ++ stamps l₂ := by
  simp [stamps]

theorem stamp_map_snd (t : Nat) (bs : Bytes) : (stamp t bs).map (·.2) = bs := by
  simp [stamp, Function.comp_def]

theorem stamps_map_snd (l : List (Nat × Bytes)) : (stamps l).map (·.2) = bytesOf l := by
  induction l with
  | nil => rfl
  | cons a l ih => simp [ih, stamp_map_snd]

theorem stamps_same (t : Nat) (l : List (Nat × Bytes)) (h : ∀ a ∈ l, a.1 = t) : stamps l = stamp t (bytesOf l) := by
  induction l with
  | nil => rfl
  | cons a l ih =>
    have h1 : a.1 = t := h a (by simp)
    have h2 := ih (fun b hb => h b (by simp [hb]))
    simp [h1, h2]

/-- arrival times never decrease along the list -/
def Sorted (l : List (Nat × Bytes)) : Prop := l.Pairwise (fun a b => a.1 ≤ b.1)

structure SInv (all : List (Nat × Nat)) (s : St) : Prop where
  cons : stamps s.log ++ stamp s.now s.sock.buffered ++ stamps s.future = all
  ge : ∀ a ∈ s.future, s.now ≤ a.1
  sorted : Sorted s.future

theorem mem_takeWhile_sat {α} (p : α → Bool) : ∀ (l : List α) (a : α), a ∈ l.takeWhile p → p a = true
  | [], a, h => by simp at h
  | b :: l, a, h => by
    simp only [List.takeWhile_cons] at h
    split at h
    · rcases List.mem_cons.mp h with rfl | h'
      · assumption
      · exact mem_takeWhile_sat p l a h'
    · simp at h

theorem deliverDue_SInv {all} {s : St} (h : SInv all s) : SInv all (deliverDue s) := by
  have hsplit := List.takeWhile_append_dropWhile (p := fun a : Nat × Bytes => decide (a.1 ≤ s.now)) (l := s.future)
  have hdue : ∀ a ∈ s.future.takeWhile (fun a => decide (a.1 ≤ s.now)), a.1 = s.now := by
    intro a ha
    have h1 := mem_takeWhile_sat _ _ _ ha
    have h2 := h.ge a ((List.takeWhile_sublist _).subset ha)
    simp at h1; omega
  refine ⟨?_, ?_, ?_⟩
  · have hc := h.cons
    rw [← hsplit, stamps_append, stamps_same _ _ hdue] at hc
    simp only [deliverDue, pushAll_buffered, stamp_append]
    rw [← hc]
    simp [bytesOf, List.append_assoc]
  · intro a ha
    exact h.ge a ((List.dropWhile_sublist _).subset ha)
  · exact List.Pairwise.sublist (List.dropWhile_sublist _) h.sorted

theorem nextTime_le {s : St} {t : Nat} (hn : nextTime s = some t) (hs : Sorted s.future) :
    ∀ a ∈ s.future, t ≤ a.1 := by
  intro a ha
  unfold nextTime at hn
  split at hn
  · rename_i b rest hb
    simp only [Option.some.injEq] at hn
    rw [hb] at ha hs
    rcases List.mem_cons.mp ha with rfl | ha
    · omega
    · have := (List.pairwise_cons.mp hs).1 a ha
      omega
  · rename_i hb; rw [hb] at ha; cases ha

theorem nextTime_none {s : St} (hn : nextTime s = none) : s.future = [] := by
  unfold nextTime at hn
  split at hn
  · cases hn
  · assumption

theorem block_SInv {all} (t : Nat) {s : St} (hp : s.sock.pendingBytes = []) (h : SInv all s) :
    SInv all (block t s).2 := by
  unfold block
  split
  · exact h
  · rename_i hr
    have hk := Sock.kernel_nil_of_not_readable (by simpa using hr)
    have hb : s.sock.buffered = [] := by rw [Sock.buffered_eq, hp, hk]; rfl
    have restamp : ∀ t', stamps s.log ++ stamp t' s.sock.buffered ++ stamps s.future = all := by
      intro t'; have := h.cons; rw [hb] at this ⊢; simpa using this
    split
    · rename_i t' hn
      have hle := nextTime_le hn h.sorted
      split
      · apply deliverDue_SInv
        refine ⟨restamp _, ?_, h.sorted⟩
        intro a ha
        have := h.ge a ha
        have := hle a ha
        simp only [Nat.max_le]
        omega
      · refine ⟨restamp _, ?_, h.sorted⟩
        intro a ha
        have := hle a ha
        simp only
        omega
    · rename_i hn
      refine ⟨restamp _, ?_, h.sorted⟩
      intro a ha
      rw [nextTime_none hn] at ha; cases ha

theorem SInv_congr {all} {s s' : St} (h : SInv all s) (h0 : s'.now = s.now) (h1 : s'.log = s.log)
    (h2 : s'.sock = s.sock) (h3 : s'.future = s.future) : SInv all s' := by
  refine ⟨?_, ?_, ?_⟩
  · rw [h0, h1, h2, h3]; exact h.cons
  · rw [h0, h3]; exact h.ge
  · rw [h3]; exact h.sorted

theorem waitReadable_SInv {all} (t : Nat) {s : St} (hp : s.sock.pendingBytes = []) (h : SInv all s) :
    SInv all (waitReadable t s).2 :=
  SInv_congr (block_SInv t hp h) rfl rfl rfl rfl

theorem selWait_SInv {all} (cfg : Cfg) (hs : cfg.shortcut = true) (m : Nat) {s : St} (h : SInv all s) :
    SInv all (selWait cfg m s).2.2 := by
  unfold selWait
  simp only [hs, Bool.not_true, Bool.false_eq_true, ↓reduceIte]
  split
  · rename_i hn
    exact waitReadable_SInv _ (pendingBytes_nil_of_pending? (Or.inl hn)) h
  · rename_i n hn
    split
    · exact SInv_congr h rfl rfl rfl rfl
    · rename_i hz
      have hz' : n = 0 := by simpa using hz
      subst hz'
      exact waitReadable_SInv _ (s := { s with trace := s.trace ++ [Tok.pend 0] })
        (pendingBytes_nil_of_pending? (Or.inr hn)) (SInv_congr h rfl rfl rfl rfl)

theorem cycleBody_SInv {all} (cfg : Cfg) (hs : cfg.shortcut = true) {s : St} (h : SInv all s) :
    SInv all (cycleBody cfg s) := by
  have h1 := selWait_SInv cfg hs bufferSize h
  unfold cycleBody
  simp only
  split
  · have hc := Sock.recv_conserve (selWait cfg bufferSize s).2.1 (selWait cfg bufferSize s).2.2.sock
    split
    · rename_i he
      have he' : ((selWait cfg bufferSize s).2.2.sock.recv (selWait cfg bufferSize s).2.1).1 = [] := by
        simpa using he
      rw [he'] at hc
      refine ⟨?_, h1.ge, h1.sorted⟩
      simp only [List.nil_append] at hc
      simp only [hc]
      exact h1.cons
    · refine ⟨?_, h1.ge, h1.sorted⟩
      simp only [stamps_append, stamps_cons, stamps_nil, List.append_nil]
      rw [List.append_assoc (stamps _), ← stamp_append, hc]
      exact h1.cons
  · exact h1

theorem cycle_SInv {all} (cfg : Cfg) (hs : cfg.shortcut = true) {s : St} (h : SInv all s) :
    SInv all (cycle cfg s) :=
  cycleBody_SInv cfg hs (deliverDue_SInv h)

theorem run_SInv {all} (cfg : Cfg) (hs : cfg.shortcut = true) (n : Nat) {s : St} (h : SInv all s) :
    SInv all (run cfg n s) := by
  induction n generalizing s with
  | zero => exact h
  | succ n ih =>
    simp only [run]
    split
    · exact h
    · exact ih (cycle_SInv cfg hs h)

theorem init_SInv (tls : Bool) (arrivals : List (Nat × Bytes)) (eofAt : Option Nat) (h : Sorted arrivals) :
    SInv (stamps arrivals) (init tls arrivals eofAt) := by
  refine ⟨?_, ?_, h⟩
  · cases tls <;> simp [init, Sock.buffered]
  · intro a _; simp [init]

/-! ### the variant without the `pending()` short-cut -/

theorem isEmpty_false_of_length_pos {l : Bytes} (h : 0 < l.length) : l.isEmpty = false := by
  cases l <;> simp_all

theorem noShortcut_blocks (r : Bytes) (hr : bufferSize < r.length) (poll : Nat) :
    Tok.wait 0 poll false 0 (r.length - bufferSize) ∈
      (run { poll := poll, shortcut := false } 2 (init true [(0, r)] none)).trace := by
  have hbs := bufferSize_pos
  have h1 : r.isEmpty = false := isEmpty_false_of_length_pos (by omega)
  have h2 : (r.take bufferSize).isEmpty = false := isEmpty_false_of_length_pos (by simp; omega)
  simp [run, cycle, cycleBody, init, deliverDue, selWait, waitReadable, block, nextTime, pushAll, Sock.push,
    Sock.recv, Sock.fdReadable, eofDue, h1, h2, Sock.kernel, Sock.pendingBytes]

/-- the state in which the variant without the short-cut is stuck: decrypted bytes pending,
    nothing in the kernel buffer, nothing more to come -/
structure Stuck (L : List (Nat × Bytes)) (s : St) : Prop where
  sock : ∃ b p, s.sock = .tls [] (b :: p)
  future : s.future = []
  hup : s.hup = false
  eofAt : s.eofAt = none
  stopped : s.stopped = false
  log : s.log = L

theorem cycle_stuck (poll : Nat) {L} {s : St} (h : Stuck L s) :
    Stuck L (cycle { poll := poll, shortcut := false } s) := by
  obtain ⟨b, p, hs⟩ := h.sock
  obtain ⟨now, sock, future, eofAt, hup, log, trace, stopped⟩ := s
  have h2 := h.future; have h3 := h.hup; have h4 := h.eofAt; have h5 := h.stopped; have h6 := h.log
  simp only at hs h2 h3 h4 h5 h6
  subst hs h2 h3 h4 h5 h6
  refine ⟨⟨b, p, ?_⟩, ?_, ?_, ?_, ?_, ?_⟩ <;>
  simp [cycle, cycleBody, deliverDue, selWait, waitReadable, block, nextTime, pushAll, Sock.fdReadable, eofDue]

theorem run_stuck (poll : Nat) {L} (n : Nat) {s : St} (h : Stuck L s) :
    Stuck L (run { poll := poll, shortcut := false } n s) := by
  induction n generalizing s with
  | zero => exact h
  | succ n ih => simp only [run, h.stopped]; exact ih (cycle_stuck poll h)

theorem first_cycle_stuck (r : Bytes) (hr : bufferSize < r.length) (poll : Nat) :
    Stuck [(0, r.take bufferSize)] (cycle { poll := poll, shortcut := false } (init true [(0, r)] none)) := by
  have hbs := bufferSize_pos
  have h1 : r.isEmpty = false := isEmpty_false_of_length_pos (by omega)
  have h2 : (r.take bufferSize).isEmpty = false := isEmpty_false_of_length_pos (by simp; omega)
  have h3 : ∃ b p, r.drop bufferSize = b :: p := by
    cases h : r.drop bufferSize with
    | nil => have := congrArg List.length h; simp at this; omega
    | cons b p => exact ⟨b, p, rfl⟩
  obtain ⟨b, p, h3⟩ := h3
  refine ⟨⟨b, p, ?_⟩, ?_, ?_, ?_, ?_, ?_⟩ <;>
  simp [cycle, cycleBody, init, deliverDue, selWait, waitReadable, block, pushAll, Sock.push,
    Sock.recv, Sock.fdReadable, eofDue, h1, h2, h3]

/-- with the short-cut the same record is drained by two reads in the tick of its arrival -/
theorem shortcut_drains (r : Bytes) (hr : bufferSize < r.length) (hr2 : r.length ≤ 2 * bufferSize) (poll : Nat) :
    (run { poll := poll, shortcut := true } 2 (init true [(0, r)] none)).log =
      [(0, r.take bufferSize), (0, r.drop bufferSize)] := by
  have hbs := bufferSize_pos
  have h1 : r.isEmpty = false := isEmpty_false_of_length_pos (by omega)
  have h2 : (r.take bufferSize).isEmpty = false := isEmpty_false_of_length_pos (by simp; omega)
  have h3 : ∃ b p, r.drop bufferSize = b :: p := by
    cases h : r.drop bufferSize with
    | nil => have := congrArg List.length h; simp at this; omega
    | cons b p => exact ⟨b, p, rfl⟩
  obtain ⟨b, p, h3⟩ := h3
  have h4 : (b :: p).length ≤ bufferSize := by rw [← h3]; simp; omega
  have h5 : min (p.length + 1) bufferSize = p.length + 1 := by simp at h4; omega
  simp [run, cycle, cycleBody, init, deliverDue, selWait, waitReadable, block, pushAll, Sock.push,
    Sock.recv, Sock.fdReadable, Sock.pending?, eofDue, h1, h2, h3, h5]

end Lomond.Transport
