/-
  Helper lemmas about the core model (Model/Core.lean): the parser's bite can be split at any
  point (`biteBytes_split`) and therefore the lazy feed loop is independent of how the data is
  cut (`feedLoop_append`).
-/
import Lomond.Model.Core
import Lomond.Proofs.Utf8
set_option linter.unusedSimpArgs false
set_option linter.unusedVariables false
namespace Lomond.Core
open Lomond

/-- result of the awaitable's `validate(chunk)`: new DFA state, `none` = ParseError -/
def vres (utf8 : Bool) (dfa : Nat) (chunk : Bytes) : Option Nat :=
  if utf8 then Utf8.validate dfa chunk else some dfa

theorem vres_append (u : Bool) (d : Nat) (a c : Bytes) :
    vres u d (a ++ c) = (vres u d a).bind (fun d' => vres u d' c) := by
  cases u <;> simp [vres, Utf8.validate_append]

/-- the parser state after a partial bite `a` (shorter than what is awaited) -/
def partialState (p : PState) (a : Bytes) (d : Nat) : PState :=
  { p with remPred := p.remPred - a.length, buf := p.buf ++ a, dfa := d }

theorem biteBytes_eq (v : Variant) (p : PState) (chunk : Bytes) :
    biteBytes v p chunk =
      match vres p.utf8 p.dfa chunk with
      | none => .error (.parse "invalid utf8")
      | some d =>
        if chunk.length < p.remPred + 1 then .ok (partialState p chunk d, none)
        else resume v { p with dfa := d } (p.buf ++ chunk) := by
  unfold biteBytes vres partialState
  cases hu : p.utf8
  · simp
  · simp only [if_true]
    cases Utf8.validate p.dfa chunk <;> simp

theorem resume_partial (v : Variant) (p : PState) (a : Bytes) (d d' : Nat) (bytes : Bytes) :
    resume v { partialState p a d with dfa := d' } bytes = resume v { p with dfa := d' } bytes := by
  simp [resume, partialState]

theorem biteBytes_split (v : Variant) (p : PState) (a c : Bytes)
    (hlen : a.length < p.remPred + 1) (hc : a.length + c.length ≤ p.remPred + 1) :
    biteBytes v p (a ++ c) =
      match biteBytes v p a with
      | .error x => .error x
      | .ok (p1, _) => biteBytes v p1 c := by
  rw [biteBytes_eq v p a, biteBytes_eq v p (a ++ c), vres_append]
  cases h1 : vres p.utf8 p.dfa a with
  | none => simp
  | some d =>
    simp only [Option.bind_some, hlen, if_true]
    rw [biteBytes_eq]
    have e1 : (partialState p a d).utf8 = p.utf8 := rfl
    have e2 : (partialState p a d).dfa = d := rfl
    have e3 : (partialState p a d).remPred = p.remPred - a.length := rfl
    have e4 : (partialState p a d).buf = p.buf ++ a := rfl
    rw [e1, e2, e3, e4]
    cases h2 : vres p.utf8 d c with
    | none => simp
    | some d' =>
      simp only [List.length_append, List.append_assoc]
      by_cases hl : a.length + c.length < p.remPred + 1
      · have : c.length < p.remPred - a.length + 1 := by omega
        simp only [hl, this, if_true]
        simp [partialState]; omega
      · have : ¬ c.length < p.remPred - a.length + 1 := by omega
        simp only [hl, this, if_false]
        exact (resume_partial v p a d d' _).symm


/-- continue feeding `b` after a first `feedLoop` -/
def contLoop (r : Res Bool) (b : Bytes) : Res Bool :=
  match r with
  | .ok true s' => feedLoop b s'
  | .ok false s' => .ok false s'
  | .err x s' => .err x s'

theorem feedLoop_nil (s : Sys) : feedLoop [] s = .ok true s := by
  rw [feedLoop]; simp

theorem feedLoop_append (a b : Bytes) (s : Sys) :
    feedLoop (a ++ b) s = contLoop (feedLoop a s) b := by
  induction h : a.length using Nat.strongRecOn generalizing a s with
  | _ n ih =>
    by_cases ha : a = []
    · subst ha; simp [feedLoop_nil, contLoop]
    · by_cases hb : b = []
      · subst hb
        simp only [List.append_nil]
        cases hr : feedLoop a s with
        | ok go s' => cases go <;> simp [contLoop, feedLoop_nil]
        | err x s' => simp [contLoop]
      · have hab : a ++ b ≠ [] := by simp [ha]
        by_cases hn : s.p.remPred + 1 ≤ a.length
        · -- the bite lies within `a`
          rw [feedLoop, feedLoop.eq_1 a]
          simp only [hab, ha, dite_false]
          have e1 : (a ++ b).take (s.p.remPred + 1) = a.take (s.p.remPred + 1) := by
            rw [List.take_append_of_le_length hn]
          have e2 : (a ++ b).drop (s.p.remPred + 1) = a.drop (s.p.remPred + 1) ++ b := by
            rw [List.drop_append_of_le_length hn]
          rw [e1, e2]
          have hlt : (a.drop (s.p.remPred + 1)).length < n := by
            simp only [List.length_drop]; omega
          cases hbite : biteBytes s.cfg.v s.p (a.take (s.p.remPred + 1)) with
          | error x => simp [contLoop]
          | ok r =>
            obtain ⟨p', out⟩ := r
            cases out with
            | none => simp only; exact ih _ hlt _ _ rfl
            | some o =>
              simp only
              cases ho : onOut o { s with p := p' } with
              | err x s2 => simp [contLoop]
              | ok go s2 =>
                cases go with
                | true => simp only; exact ih _ hlt _ _ rfl
                | false => simp [contLoop]
        · -- the bite extends beyond `a`
          have hlt : a.length < s.p.remPred + 1 := by omega
          have e1 : (a ++ b).take (s.p.remPred + 1) = a ++ b.take (s.p.remPred + 1 - a.length) := by
            rw [List.take_append]; rw [List.take_of_length_le (by omega)]
          have e2 : (a ++ b).drop (s.p.remPred + 1) = b.drop (s.p.remPred + 1 - a.length) := by
            rw [List.drop_append]; rw [List.drop_of_length_le (by omega)]; simp
          have e3 : a.take (s.p.remPred + 1) = a := List.take_of_length_le (by omega)
          have e4 : a.drop (s.p.remPred + 1) = [] := List.drop_of_length_le (by omega)
          rw [feedLoop, feedLoop.eq_1 a]
          simp only [hab, ha, dite_false]
          rw [e1, e2, e3, e4]
          rw [biteBytes_split s.cfg.v s.p a _ hlt (by simp only [List.length_take]; omega)]
          rw [biteBytes_eq s.cfg.v s.p a]
          cases h1 : vres s.p.utf8 s.p.dfa a with
          | none => simp [contLoop, deadParser]
          | some d =>
            simp only [hlt, if_true, feedLoop_nil, contLoop]
            rw [feedLoop.eq_1 b]
            simp only [hb, dite_false]
            have e5 : (partialState s.p a d).remPred + 1 = s.p.remPred + 1 - a.length := by
              simp only [partialState]; omega
            simp only [e5]
            cases biteBytes s.cfg.v (partialState s.p a d) (List.take (s.p.remPred + 1 - a.length) b) with
            | error x => simp [deadParser, partialState]
            | ok r => rfl

end Lomond.Core
