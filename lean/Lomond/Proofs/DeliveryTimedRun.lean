/-
  C01 / C02 generalised, whole connections with the clock running: `run()` up to the loop, the
  handshake reply arriving in timed reads (with or without permessage-deflate negotiated), then
  `DG.timed_frames` and `DG.tail_loop`, then the end of `run()`.
-/
import Lomond.Proofs.DeliveryTimed
set_option linter.unusedSimpArgs false
set_option linter.unusedVariables false
namespace Lomond.Core.DG
open Lomond Lomond.Core Lomond.Core.E2E

/-! ### `run()` up to the loop -/

/-- `E2E.AtLoop`, plus: the inflate context is empty and the close timer is not armed -/
structure AtLoopD (cfg : Cfg) (react : React) (env : List EnvStep) (proxy : Bool) (s : Sys) : Prop where
  a : AtLoop cfg react env proxy s
  ih : s.inflHist = []
  io : s.inflOut = 0
  sct : s.sentCloseTime = none

theorem run_start_D (cfg : Cfg) (react : React) (env : List EnvStep) (proxy : Bool)
    (hc : cfg.connect = .ok proxy) (hw : cfg.writeFails 0 = false) (hp : 0 < cfg.poll) (ha : SendOnly react) :
    ∃ sA, AtLoopD cfg react env proxy sA ∧
      run { cfg := cfg, react := react, env := env } = tryC (do runBody env; selClose) runFinally sA := by
  let s0 : Sys := { cfg := cfg, react := react, env := env }
  obtain ⟨s1, h1, k1⟩ := yieldEv_send .connecting s0 ha
  have q1 : Quiet s0 s1 := (quiet_yieldEv .connecting).ok h1
  have hcc : s1.cfg.connect = .ok proxy := by rw [k1.cfg]; exact hc
  have hso1 : s1.sockOpen = false := k1.sockOpen
  let s2 : Sys := { s1 with sockOpen := true }
  have hwc : s2.cfg.writeFails s2.writeCtr = false := by
    show s1.cfg.writeFails s1.writeCtr = false
    rw [k1.cfg, k1.wctr rfl]; exact hw
  have hwr := write_ok_open s2.cfg.request s2 rfl k1.closed k1.closing hwc
  let s3 : Sys := { s2 with writeCtr := s2.writeCtr + 1, trace := .wr s2.cfg.request :: s2.trace }
  have ha3 : SendOnly s3.react := by show SendOnly s1.react; rw [k1.react]; exact ha
  obtain ⟨s4, h4, k4⟩ := yieldEv_send (.connected proxy) s3 ha3
  have q4 : Quiet s3 s4 := (quiet_yieldEv (.connected proxy)).ok h4
  have hyc : yieldConnected proxy s3 = .ok () s4 := by
    unfold yieldConnected
    rw [bind_ok (show getS s3 = .ok s3 s3 from rfl)]
    split
    · exact tryC_ok h4
    · exact h4
  let sA : Sys := { s4 with selOpen := true }
  have henv : sA.env = env := by show s4.env = env; rw [k4.env]; show s1.env = env; rw [k1.env]; rfl
  refine ⟨sA, ⟨?_, ?_, ?_, ?_⟩, ?_⟩
  · have hr : sA.ready = false := by show s4.ready = false; rw [k4.ready]; show s1.ready = false; rw [k1.ready]; rfl
    have hst : sA.startTime = none := by show s4.startTime = none; rw [k4.startTime]; show s1.startTime = none; rw [k1.startTime]; rfl
    have hps : sA.pollStart = none := by show s4.pollStart = none; rw [k4.pollStart]; show s1.pollStart = none; rw [k1.pollStart]; rfl
    have hre : sA.react = react := by show s4.react = react; rw [k4.react]; show s1.react = react; rw [k1.react]; rfl
    have hcf : sA.cfg = cfg := by show s4.cfg = cfg; rw [k4.cfg]; show s1.cfg = cfg; rw [k1.cfg]; rfl
    have hsk : sA.sockOpen = true := by show s4.sockOpen = true; rw [k4.sockOpen]; rfl
    refine ⟨⟨by rw [hre]; exact ha, by rw [hcf]; exact hp, Or.inl hsk, fun _ => ⟨hst, hps⟩,
      fun h => by rw [hr] at h; cases h⟩, hcf, hre, henv, hr, ?_, ?_, hsk, rfl, ?_, ?_, ?_⟩
    · show s4.closed = false; rw [k4.closed]; show s1.closed = false; rw [k1.closed]; rfl
    · show s4.closing = false; rw [k4.closing]; show s1.closing = false; rw [k1.closing]; rfl
    · show s4.p = {}; rw [k4.p]; show s1.p = {}; rw [k1.p]; rfl
    · show s4.frames = []; rw [k4.frames]; show s1.frames = []; rw [k1.frames]; rfl
    · show hist s4.trace = _
      rw [hist_keep k4]
      show hist (.ev (.connected proxy) :: .wr s2.cfg.request :: s1.trace) = _
      rw [hist_cons_ev, hist_cons_nonEv _ _ rfl, hist_keep k1]
      rfl
  · show s4.inflHist = []; rw [q4.hist]; show s1.inflHist = []; rw [q1.hist]
  · show s4.inflOut = 0; rw [q4.out]; show s1.inflOut = 0; rw [q1.out]
  · show s4.sentCloseTime = none; rw [k4.sentCloseTime]; show s1.sentCloseTime = none; rw [k1.sentCloseTime]; rfl
  · show run s0 = _
    unfold run
    rw [bind_ok h1, bind_ok (show getS s1 = .ok s1 s1 from rfl)]
    simp only [hcc]
    unfold afterConnect
    rw [bind_ok (show modS (fun s => { s with sockOpen := true }) s1 = .ok () s2 from rfl),
      bind_ok (show getS s2 = .ok s2 s2 from rfl), bind_ok hwr]
    have hwe : wsError ActRes.ok = false := by decide
    simp only [hwe, Bool.false_eq_true, if_false]
    rw [bind_ok hyc, bind_ok (show modS (fun s => { s with selOpen := true }) s4 = .ok () sA from rfl)]
    unfold runLoop
    rw [bind_ok (show getS sA = .ok sA sA from rfl), henv]

theorem AtLoopD.tick {cfg : Cfg} {react : React} {env : List EnvStep} {proxy : Bool} {s : Sys}
    (h : AtLoopD cfg react env proxy s) (dt : Nat) : AtLoopD cfg react env proxy (tick s dt) := by
  have hh : hist (Core.tick s dt).trace = hist s.trace := by
    unfold Core.tick
    by_cases h0 : dt = 0
    · simp [h0]
    · simp only [h0, ne_eq, not_false_eq_true, if_true]
      exact hist_cons_nonEv _ _ rfl
  exact ⟨⟨⟨h.a.i.app, h.a.i.poll, h.a.i.sock, h.a.i.nr, fun hr => by
      have : s.ready = true := hr
      rw [h.a.ready] at this; cases this⟩,
    h.a.cfg, h.a.react, h.a.env, h.a.ready, h.a.closed, h.a.closing, h.a.sock, h.a.sel, h.a.p, h.a.frames,
    by rw [hh]; exact h.a.hist⟩, h.ih, h.io, h.sct⟩

/-! ### the handshake reply -/

/-- an upgrade reply that `on_response` accepts, with the extension configuration `dc` it grants
    (`none`: no permessage-deflate) -/
structure GoodReplyD (cfg : Cfg) (reply : Bytes) (proto : Option Http.Str) (dc : Option Http.DeflateCfg) : Prop where
  sep : ∃ i, findSep Gen.headerSep reply = some i ∧ i + 4 = reply.length
  len : reply.length ≤ Gen.headerMax
  ok : Http.onResponse cfg.v.strictAccept cfg.challenge (Http.parseResponse reply)
        = .ok { protocol := proto, deflate := dc }

theorem GoodReply.toD {cfg : Cfg} {reply : Bytes} {proto : Option Http.Str} (h : GoodReply cfg reply proto) :
    GoodReplyD cfg reply proto none := ⟨h.sep, h.len, h.ok⟩

/-- the state after the handshake -/
structure AtReadyD (cfg : Cfg) (react : React) (proxy : Bool) (proto : Option Http.Str)
    (dc : Option Http.DeflateCfg) (s : Sys) : Prop where
  i : I s
  cfg : s.cfg = cfg
  react : s.react = react
  ready : s.ready = true
  closed : s.closed = false
  closing : s.closing = false
  sock : s.sockOpen = true
  sel : s.selOpen = true
  frames : s.frames = []
  between : Between s.p
  comp : s.compression = dc
  dec : s.decompress = dc.isSome
  pcomp : s.p.compression = dc.isSome
  ih : s.inflHist = []
  io : s.inflOut = 0
  sct : s.sentCloseTime = none
  hist : hist s.trace = [.poll, .ready proto dc.isSome, .connected proxy, .connecting]

/-- a normal return of any `yield` inside `feed` leaves the close timer alone (send-only application) -/
theorem sct_feedYield {b : Bool} {e : Event} {s s' : Sys} (hs : SendOnly s.react)
    (h : feedYield b e s = .ok () s') : s'.sentCloseTime = s.sentCloseTime := by
  obtain ⟨s1, s2, h1, h2, h3⟩ := SegLoop.feedYield_ok_inv h
  have k1 : s1.sentCloseTime = s.sentCloseTime ∧ s1.react = s.react := by
    cases e with
    | ready a c => rw [Timers.onEvent_ready] at h1; cases h1; exact ⟨rfl, rfl⟩
    | connecting => have := (fix_onEvent _ (fun _ _ hh => by cases hh)).ok h1; exact ⟨this.sentCloseTime, this.react⟩
    | connectFail k => have := (fix_onEvent _ (fun _ _ hh => by cases hh)).ok h1; exact ⟨this.sentCloseTime, this.react⟩
    | connected p => have := (fix_onEvent _ (fun _ _ hh => by cases hh)).ok h1; exact ⟨this.sentCloseTime, this.react⟩
    | rejected r => have := (fix_onEvent _ (fun _ _ hh => by cases hh)).ok h1; exact ⟨this.sentCloseTime, this.react⟩
    | text t => have := (fix_onEvent _ (fun _ _ hh => by cases hh)).ok h1; exact ⟨this.sentCloseTime, this.react⟩
    | binary d => have := (fix_onEvent _ (fun _ _ hh => by cases hh)).ok h1; exact ⟨this.sentCloseTime, this.react⟩
    | ping d => have := (fix_onEvent _ (fun _ _ hh => by cases hh)).ok h1; exact ⟨this.sentCloseTime, this.react⟩
    | pong d => have := (fix_onEvent _ (fun _ _ hh => by cases hh)).ok h1; exact ⟨this.sentCloseTime, this.react⟩
    | closing c r => have := (fix_onEvent _ (fun _ _ hh => by cases hh)).ok h1; exact ⟨this.sentCloseTime, this.react⟩
    | closed c r => have := (fix_onEvent _ (fun _ _ hh => by cases hh)).ok h1; exact ⟨this.sentCloseTime, this.react⟩
    | protocolError m c => have := (fix_onEvent _ (fun _ _ hh => by cases hh)).ok h1; exact ⟨this.sentCloseTime, this.react⟩
    | poll => have := (fix_onEvent _ (fun _ _ hh => by cases hh)).ok h1; exact ⟨this.sentCloseTime, this.react⟩
    | unresponsive => have := (fix_onEvent _ (fun _ _ hh => by cases hh)).ok h1; exact ⟨this.sentCloseTime, this.react⟩
    | disconnected k g => have := (fix_onEvent _ (fun _ _ hh => by cases hh)).ok h1; exact ⟨this.sentCloseTime, this.react⟩
  have hs1 : SendOnly s1.react := by rw [k1.2]; exact hs
  have k2 : Fix s1 s2 := (fixr_yieldEv e).ok h2 hs1
  have k3 : Fix s2 s' := (fixr_regular).ok h3 (by rw [k2.react]; exact hs1)
  rw [k3.sentCloseTime, k2.sentCloseTime, k1.1]

/-- `frame_parser.enable_compression()` iff an extension configuration was granted -/
def setComp (p : PState) (b : Bool) : PState := if b then { p with compression := true } else p

/-- **the handshake read** (as `E2E.feed_reply`, for any granted extension configuration):
    feeding `reply ++ stream` at the start of the loop is Ready, the first Poll, then feeding
    `stream` to the frame parser from the post-handshake state `s4` -/
theorem feed_reply_D {cfg : Cfg} {react : React} {env : List EnvStep} {proxy : Bool} {sA : Sys}
    (hA : AtLoopD cfg react env proxy sA) {reply : Bytes} {proto : Option Http.Str} {dc : Option Http.DeflateCfg}
    (hg : GoodReplyD cfg reply proto dc) :
    ∃ s4, AtReadyD cfg react proxy proto dc s4 ∧ ∀ stream, wsFeed (reply ++ stream) sA = wsFeed stream s4 := by
  obtain ⟨i, hsep, hil⟩ := hg.sep
  have hc : sA.p.cont = .header := by rw [hA.a.p]
  have hbuf : sA.p.buf = [] := by rw [hA.a.p]
  let s1 : Sys :=
    { headerDone sA with compression := dc, decompress := dc.isSome, p := setComp (headerDone sA).p dc.isSome }
  have i1 : I s1 := ⟨hA.a.i.app, hA.a.i.poll, hA.a.i.sock, hA.a.i.nr, hA.a.i.rd⟩
  obtain ⟨s3, h3, i3, r3, hh3, c3, re3, so3, se3, cl3, cg3, p3, f3⟩ :=
    feedYield_ready true proto dc.isSome s1 i1 hA.a.ready
  have q3 : Quiet s1 s3 := (quiet_feedYield true (.ready proto dc.isSome)).ok h3
  have sc3 : s3.sentCloseTime = s1.sentCloseTime := sct_feedYield i1.app h3
  let s4 : Sys := { s3 with parsedResponse := true }
  have hok : Http.onResponse (headerDone sA).cfg.v.strictAccept (headerDone sA).cfg.challenge (Http.parseResponse reply)
      = .ok { protocol := proto, deflate := dc } := by
    show Http.onResponse sA.cfg.v.strictAccept sA.cfg.challenge _ = _
    rw [hA.a.cfg]; exact hg.ok
  have hout : onOut (.header reply) (headerDone sA) = .ok true s4 := by
    unfold onOut
    simp only [bind, M.bind, getS, hok, modS]
    erw [h3]
    simp only [notClosed]
    have hb : (!s3.closed) = true := by rw [cl3.trans hA.a.closed]; rfl
    exact congrArg (fun b => Res.ok b s4) hb
  have hp4 : s4.p = { cont := .hdr2, remPred := 1, utf8 := false, buf := [], compression := dc.isSome } := by
    show s3.p = _
    rw [p3]
    show setComp (headerDone sA).p dc.isSome = _
    unfold headerDone setComp
    simp only []
    rw [hA.a.p]
    cases dc <;> rfl
  refine ⟨s4, ⟨⟨i3.app, i3.poll, i3.sock, i3.nr, i3.rd⟩, c3.trans hA.a.cfg, re3.trans hA.a.react, r3,
    cl3.trans hA.a.closed, cg3.trans hA.a.closing, so3.trans hA.a.sock, se3.trans hA.a.sel, f3.trans hA.a.frames,
    ?_, ?_, ?_, ?_, ?_, ?_, ?_, ?_⟩, ?_⟩
  · rw [hp4]; exact ⟨⟨rfl, rfl, rfl, rfl⟩, rfl, rfl⟩
  · show s3.compression = dc; rw [q3.comp]
  · show s3.decompress = dc.isSome; rw [q3.dec]
  · rw [hp4]
  · show s3.inflHist = []; rw [q3.hist]; exact hA.ih
  · show s3.inflOut = 0; rw [q3.out]; exact hA.io
  · show s3.sentCloseTime = none; rw [sc3]; exact hA.sct
  · show hist s3.trace = _
    rw [hh3]
    show _ :: _ :: hist sA.trace = _
    rw [hA.a.hist]
  · intro stream
    have hsome : findSep Gen.headerSep (sA.p.buf ++ (reply ++ stream)) = some i := by
      rw [hbuf, List.nil_append]
      exact Proxy.findSep_append _ _ _ _ hsep
    have hlen : i + 4 ≤ Gen.headerMax := by rw [hil]; exact hg.len
    have hfb := feedBody_terminated_ok sA (reply ++ stream) i hc hsome hlen
    have et : (sA.p.buf ++ (reply ++ stream)).take (i + 4) = reply := by
      rw [hbuf, List.nil_append, hil]; exact List.take_left' rfl
    have ed : (sA.p.buf ++ (reply ++ stream)).drop (i + 4) = stream := by
      rw [hbuf, List.nil_append, hil]; exact List.drop_left' rfl
    rw [et, ed, bind_ok hout] at hfb
    simp only [if_true] at hfb
    rw [feedLoop_unit] at hfb
    have hnh : s4.p.cont ≠ .header := by rw [hp4]; simp
    have hcl4 : s4.closed = false := cl3.trans hA.a.closed
    rw [wsFeed_eq, wsFeed_eq stream s4]
    simp only [hA.a.closed, hcl4, Bool.false_eq_true, if_false]
    rw [hfb, feedBody_frames _ _ hnh]
    cases feedLoop stream s4 <;> rfl

/-! ### the handshake reply arriving in timed reads -/

/-- the parser in the header phase with `pre` buffered -/
def hdrBuf (pre : Bytes) : PState := { buf := pre }

def setBuf (pre : Bytes) (s : Sys) : Sys := { s with p := hdrBuf pre }

theorem setBuf_nil {s : Sys} (h : s.p = {}) : setBuf [] s = s := by
  cases s
  simp only at h
  subst h
  rfl

theorem append_split {α : Type} (a b c d : List α) (h : a ++ b = c ++ d) (hl : a.length ≤ c.length) :
    ∃ w, c = a ++ w ∧ b = w ++ d := by
  refine ⟨c.drop a.length, ?_, ?_⟩
  · have h1 : (a ++ b).take a.length = a := by simp
    have h2 : (c ++ d).take a.length = c.take a.length := List.take_append_of_le_length hl
    rw [h, h2] at h1
    conv => lhs; rw [← List.take_append_drop a.length c]
    rw [h1]
  · have h1 : (a ++ b).drop a.length = b := by simp
    have h2 : (c ++ d).drop a.length = c.drop a.length ++ d := List.drop_append_of_le_length hl
    rw [h, h2] at h1
    exact h1.symm

theorem prefix_no_sep {reply : Bytes} {i : Nat} (hsep : findSep Gen.headerSep reply = some i)
    (hil : i + 4 = reply.length) (x w : Bytes) (hx : reply = x ++ w) (hw : w ≠ []) :
    findSep Gen.headerSep x = none := by
  cases h : findSep Gen.headerSep x with
  | none => rfl
  | some j =>
    exfalso
    have hb := Proxy.findSep_bound Gen.headerSep x j h
    have ha := Proxy.findSep_append Gen.headerSep x w j h
    rw [← hx, hsep] at ha
    cases ha
    have hlen : reply.length = x.length + w.length := by rw [hx]; simp
    have hwl : w.length ≠ 0 := fun e => hw (List.eq_nil_of_length_eq_zero e)
    have h4 : Gen.headerSep.length = 4 := rfl
    omega

theorem wsFeed_buf (pre c : Bytes) (sT : Sys) (hcl : sT.closed = false)
    (hnone : findSep Gen.headerSep (pre ++ c) = none) (hlen : (pre ++ c).length ≤ Gen.headerMax) :
    wsFeed c (setBuf pre sT) = .ok () (setBuf (pre ++ c) sT) := by
  apply wsFeed_of_feedBody_ok c (setBuf pre sT) _ hcl
  rw [feedBody_unterminated_short (setBuf pre sT) c rfl hnone hlen]
  rfl

theorem EndsRead.tail {x : TStep} {l : List TStep} (h : EndsRead (x :: l)) : EndsRead l := by
  cases l with
  | nil => trivial
  | cons y r =>
    obtain ⟨dt, o⟩ := x
    cases o <;> exact h

/-- **the header phase with the clock running**: the reads of a timed script are buffered until the
    reply is complete (time passing in between changes nothing: `_regular()` is not run before
    Ready); the read that completes it yields Ready and the first Poll, and its remaining bytes
    `w` go to the frame parser at once — equivalently, as a further read with `wait 0`. -/
theorem hdr_loop {cfg : Cfg} {react : React} {env : List EnvStep} {proxy : Bool} {reply : Bytes}
    {proto : Option Http.Str} {dc : Option Http.DeflateCfg} (hg : GoodReplyD cfg reply proto dc)
    (l : List TStep) (hne : TNonEmpty l) (hend : EndsRead l) (pre stream : Bytes)
    (hpre : pre.length < reply.length) (hb : pre ++ tbytes l = reply ++ stream)
    (sT : Sys) (hA : AtLoopD cfg react env proxy sT) (rest : List EnvStep) :
    ∃ l2 s4, tbytes l2 = stream ∧ TNonEmpty l2 ∧ EndsRead l2 ∧ AtReadyD cfg react proxy proto dc s4 ∧
      loop (tscript l ++ rest) (setBuf pre sT) = loop (tscript l2 ++ rest) s4 := by
  obtain ⟨i, hsep, hil⟩ := hg.sep
  induction l generalizing pre sT with
  | nil =>
    exfalso
    have : pre.length = reply.length + stream.length := by
      have := congrArg List.length hb
      simpa [tbytes] using this
    omega
  | cons x l' ih =>
    obtain ⟨dt, o⟩ := x
    have hcl : (setBuf pre sT).closed = false := hA.a.closed
    cases o with
    | none =>
      have hl' : l' ≠ [] := by intro e; subst e; exact hend
      have hr : regular (tick (setBuf pre sT) dt) = .ok () (tick (setBuf pre sT) dt) :=
        Timers.regular_not_ready _ hA.a.ready
      obtain ⟨l2, s4, h1, h2, h3, h4, h5⟩ := ih hne.tail hend.tail pre hpre hb (tick sT dt) (hA.tick dt)
      refine ⟨l2, s4, h1, h2, h3, h4, ?_⟩
      show loop (.wait dt none :: (tscript l' ++ rest)) (setBuf pre sT) = _
      rw [SegLoop.loop_wait dt none _ _ hcl, hr]
      exact h5
    | some c =>
      have hc : c ≠ [] := hne dt c List.mem_cons_self
      have hA' := hA.tick dt
      have hr : regular (tick (setBuf pre sT) dt) = .ok () (setBuf pre (tick sT dt)) :=
        Timers.regular_not_ready _ hA.a.ready
      have hso : (setBuf pre (tick sT dt)).sockOpen = true := hA.a.sock
      have hstep : loop (tscript ((dt, some c) :: l') ++ rest) (setBuf pre sT) =
          match wsFeed c (setBuf pre (tick sT dt)) with
          | .ok _ s3 => loop (tscript l' ++ rest) s3
          | .err x s3 => .err x s3 :=
        E2E.loop_wait_data dt c (tscript l' ++ rest) (setBuf pre sT) _ hcl hr hso hc
      have hb' : (pre ++ c) ++ tbytes l' = reply ++ stream := by
        rw [List.append_assoc]; exact hb
      by_cases hlt : (pre ++ c).length < reply.length
      · obtain ⟨w, hw1, hw2⟩ := append_split (pre ++ c) (tbytes l') reply stream hb' (by omega)
        have hwne : w ≠ [] := by
          intro e; subst e
          have := congrArg List.length hw1
          simp at this; simp at hlt; omega
        have hnone := prefix_no_sep hsep hil (pre ++ c) w hw1 hwne
        have hlen : (pre ++ c).length ≤ Gen.headerMax := by have := hg.len; omega
        have hws := wsFeed_buf pre c (tick sT dt) hA'.a.closed hnone hlen
        have hl' : l' ≠ [] := by
          intro e; subst e
          have : w ++ stream = [] := hw2.symm
          exact hwne (List.append_eq_nil_iff.mp this).1
        obtain ⟨l2, s4, h1, h2, h3, h4, h5⟩ := ih hne.tail hend.tail (pre ++ c) hlt hb' (tick sT dt) hA'
        refine ⟨l2, s4, h1, h2, h3, h4, ?_⟩
        rw [hstep, hws]
        exact h5
      · obtain ⟨w, hw1, hw2⟩ := append_split reply stream (pre ++ c) (tbytes l') hb'.symm (by omega)
        obtain ⟨a, ha1, ha2⟩ := append_split pre c reply w hw1 (by omega)
        have hane : a ≠ [] := by
          intro e; subst e
          have := congrArg List.length ha1
          simp at this; omega
        have hnone : findSep Gen.headerSep ([] ++ pre) = none := prefix_no_sep hsep hil pre a ha1 hane
        have hlen : ([] ++ pre).length ≤ Gen.headerMax := by have := hg.len; simp; omega
        have hpre' := wsFeed_buf [] pre (tick sT dt) hA'.a.closed hnone hlen
        rw [setBuf_nil hA'.a.p] at hpre'
        have happ := wsFeed_append pre c (tick sT dt) (hdrInv_fresh _ hA'.a.p)
        rw [hpre'] at happ
        simp only [List.nil_append] at happ
        obtain ⟨s4, h4, hfeed⟩ := feed_reply_D hA' hg
        have hfc : wsFeed c (setBuf pre (tick sT dt)) = wsFeed w s4 := by
          rw [← happ, hw1]; exact hfeed w
        have hnh4 : s4.p.cont ≠ .header := by rw [h4.between.b.cont]; simp
        have hi4 : HdrInv s4 := fun hh => (hnh4 hh).elim
        by_cases hwe : w = []
        · subst hwe
          refine ⟨l', s4, by simpa using hw2.symm, hne.tail, hend.tail, h4, ?_⟩
          rw [hstep, hfc, wsFeed_nil s4 hi4]
        · refine ⟨(0, some w) :: l', s4, hw2.symm, ?_, ?_, h4, ?_⟩
          · intro dt' c' hm
            rcases List.mem_cons.mp hm with e | e
            · cases e; exact hwe
            · exact hne.tail dt' c' e
          · cases l' with
            | nil => trivial
            | cons y r => exact hend
          · rw [hstep, hfc]
            exact (E2E.loop_wait_data 0 w (tscript l' ++ rest) s4 s4 h4.closed
              (by rw [E2E.tick_zero]; exact regular_id h4.i) h4.sock hwe).symm

/-! ### a whole connection -/

def closeBytes : Option CloseF → Bytes
  | none => []
  | some c => c.wire.bytes

/-- the byte stream of a conforming server after its handshake reply: the items back to back
    (compressed messages with RSV1 on their first frame), then possibly a Close -/
def gstream (items : List GItem) (cl : Option CloseF) : Bytes := items.flatMap GItem.bytes ++ closeBytes cl

/-- the events the application must see for them, in completion order -/
def gexpected (items : List GItem) (cl : Option CloseF) : List Event :=
  items.flatMap GItem.events ++ closeEvents cl

/-- the terminal event after the end of the stream -/
def terminal (cl : Option CloseF) : Event :=
  match cl with
  | none => .disconnected "connection-lost" false
  | some _ => .disconnected "closed" true

theorem parses_close (v : Variant) (cl : Option CloseF) (hcl : ∀ c, cl = some c → c.Ok) (p : PState) (hp : Between p) :
    ∃ p', ParsesB v p (closeBytes cl) (closeFrames cl) p' ∧ Between p' := by
  cases cl with
  | none => exact ⟨p, parsesB_nil v p, hp⟩
  | some c =>
    obtain ⟨p', h, hb⟩ := parses_nontext v [c.wire] p hp (by
      intro w hw
      simp only [List.mem_singleton] at hw
      subst hw
      exact ⟨CloseF.wire_ok (hcl c rfl), by simp [CloseF.wire]⟩)
    refine ⟨p', ?_, hb⟩
    have := parsesB_of_parsesTo h
    simpa [wireBytes, closeBytes, closeFrames] using this

theorem delivered_of_hist_single (post : List Obs) (e : Event) (he : e ≠ .poll) (h : hist post = [e]) :
    delivered post = [e] := by
  rw [delivered_of_hist, h]
  simp [he]

/-- **A whole connection delivers exactly what the server sent — for every segmentation, every
    timing, with or without permessage-deflate** (helper form; see `Properties/C01_E2E2.lean`). -/
theorem run_timed (cfg : Cfg) (react : React) (proxy : Bool) (proto : Option Http.Str) (dc : Option Http.DeflateCfg)
    (hs : Setup cfg react proxy) (hpt : cfg.pingTimeout = 0)
    (reply : Bytes) (hg : GoodReplyD cfg reply proto dc)
    (items : List GItem) (icE : ICtx) (hit : ItemsAt ⟨cfg.inflate, dc⟩ ⟨[], 0⟩ items icE)
    (hz : ∀ g, GItem.msg g ∈ items → g.zf = true → dc.isSome = true)
    (cl : Option CloseF) (hcl : ∀ c, cl = some c → c.Ok)
    (l : List TStep) (hne : TNonEmpty l) (hend : EndsRead l) (hb : tbytes l = reply ++ gstream items cl)
    (ws : List Nat) (dtE : Nat) (hct : cfg.closeTimeout = 0 ∨ cl = none ∨ ws.sum + dtE < cfg.closeTimeout) :
    (delivered (runAll cfg react (tscript l ++ (idles ws ++ [.wait dtE (some .eof)]))).trace).reverse =
      [.connecting, .connected proxy, .ready proto dc.isSome] ++ gexpected items cl ++ [terminal cl] := by
  let z : ZP := ⟨cfg.inflate, dc⟩
  let rest : List EnvStep := idles ws ++ [.wait dtE (some .eof)]
  obtain ⟨sA, hA, hrun⟩ := run_start_D cfg react (tscript l ++ rest) proxy hs.conn hs.req hs.poll hs.app
  obtain ⟨i, hsep, hil⟩ := hg.sep
  obtain ⟨l2, s4, hl2, hne2, hend2, h4, hloop1⟩ := hdr_loop hg l hne hend [] (gstream items cl)
    (by show 0 < reply.length; omega) (by simpa using hb) sA hA rest
  rw [setBuf_nil hA.a.p] at hloop1
  -- the state after the handshake
  have g4 : TG s4 := ⟨by rw [h4.react]; exact hs.app, by rw [h4.cfg]; exact hpt, Or.inr h4.sct, h4.sock, h4.closed⟩
  have z4 : ZOk z s4 := ⟨by rw [h4.cfg], h4.comp, h4.dec⟩
  have hnh4 : s4.p.cont ≠ .header := by rw [h4.between.b.cont]; simp
  have m4 : Mid z s4 := ⟨g4, z4, h4.closing, hnh4⟩
  have hv4 : view s4 = ⟨[], ⟨[], 0⟩⟩ := by unfold view; rw [h4.frames, h4.ih, h4.io]
  -- parser half
  obtain ⟨p1, hp1, hb1, _⟩ := parses_gitems cfg.v dc.isSome items s4.p h4.between h4.pcomp (hit.wireOk hz)
  obtain ⟨p2, hp2, hb2⟩ := parses_close cfg.v cl hcl p1 hb1
  have hpar : ParsesB cfg.v s4.p (gstream items cl) (items.flatMap GItem.frames ++ closeFrames cl) p2 :=
    parsesB_append hp1 hp2
  obtain ⟨hpe, hpo, hpp⟩ := hpar.run
  -- consumer half
  have he := eat_items z items ⟨[], 0⟩ icE hit
  obtain ⟨sE, hloop2, hfin, _⟩ := timed_frames z l2 hne2 hend2 s4 m4 (items.flatMap GItem.frames)
    (items.flatMap GItem.events).reverse ⟨[], icE⟩ (by rw [hv4]; exact he) cl hcl
    (by rw [h4.cfg, hl2]; exact hpe) (by rw [h4.cfg, hl2]; exact hpo)
    (by rw [h4.cfg, hl2, hpp]; exact hb2.b) rest
  -- the tail
  have hd4 : delivered s4.trace = [.ready proto dc.isSome, .connected proxy, .connecting] := by
    rw [delivered_of_hist, h4.hist]; rfl
  have htail : ∃ s6, loop rest sE =
        (if ¬ s6.closing ∧ ¬ s6.closed then .err (.socketFail "connection-lost") s6 else .ok () s6) ∧
      s6.closing = cl.isSome ∧ s6.closed = false ∧ SendOnly s6.react ∧
      delivered s6.trace = (gexpected items cl).reverse ++ delivered s4.trace := by
    cases cl with
    | none =>
      obtain ⟨mE, _, stE⟩ := hfin
      have tE : TailOK (ws.sum + dtE) sE := ⟨mE.g.app, mE.g.pt, mE.g.closed, by
        rcases mE.g.ct with h | h
        · exact Or.inl h
        · exact Or.inr (Or.inl h)⟩
      obtain ⟨s6, hl6, st6, cg6, cl6, a6⟩ := tail_loop ws dtE _ (Nat.le_refl _) sE tE
      refine ⟨s6, hl6, by rw [cg6, mE.ncg]; rfl, cl6, a6, ?_⟩
      rw [st6.evs, stE.evs]
      simp [gexpected, closeEvents]
    | some c =>
      have hcfgE : sE.cfg = cfg := hfin.st.cfg.trans h4.cfg
      have tE : TailOK (ws.sum + dtE) sE := ⟨hfin.app, hfin.pt, hfin.closed, by
        rw [hcfgE]
        rcases hct with h | h | h
        · exact Or.inl h
        · cases h
        · exact Or.inr (Or.inr ⟨sessionTime sE, hfin.sct, by omega⟩)⟩
      obtain ⟨s6, hl6, st6, cg6, cl6, a6⟩ := tail_loop ws dtE _ (Nat.le_refl _) sE tE
      refine ⟨s6, hl6, by rw [cg6, hfin.closing]; rfl, cl6, a6, ?_⟩
      rw [st6.evs, hfin.st.evs]
      simp [gexpected, closeEvents]
  obtain ⟨s6, hl6, hcg6, hcl6, ha6, hd6⟩ := htail
  have hloopA : loop (tscript l ++ rest) sA =
      (if ¬ s6.closing ∧ ¬ s6.closed then .err (.socketFail "connection-lost") s6 else .ok () s6) := by
    rw [hloop1, hloop2, hl6]
  have hfinish : ∃ sF post, tryC (do runBody (tscript l ++ rest); selClose) runFinally sA = .ok () sF ∧
      sF.trace = post ++ s6.trace ∧ hist post = [terminal cl] := by
    cases cl with
    | none =>
      have hc : ¬ s6.closing = true ∧ ¬ s6.closed = true := by
        rw [hcg6, hcl6]; simp
      rw [if_pos hc] at hloopA
      obtain ⟨sF, post, h, t, hh, _⟩ := finish_err _ sA s6 _ "connection-lost" hloopA (Or.inr (Or.inl rfl)) ha6
      exact ⟨sF, post, h, t, hh⟩
    | some c =>
      have hc : ¬ (¬ s6.closing = true ∧ ¬ s6.closed = true) := by
        rw [hcg6]; simp
      rw [if_neg hc] at hloopA
      obtain ⟨sF, post, h, t, hh, _⟩ := finish_ok _ sA s6 hloopA ha6
      exact ⟨sF, post, h, t, hh⟩
  obtain ⟨sF, post, hF, tF, hhF⟩ := hfinish
  have hterm : terminal cl ≠ .poll := by cases cl <;> simp [terminal]
  rw [runAll_ok cfg react _ sF (hrun.trans hF), tF, delivered_append, delivered_of_hist_single post _ hterm hhF,
    hd6, hd4]
  simp

end Lomond.Core.DG
